(* EVQESelection.apply_operator (selection.py), definitions only.
   The circuit evaluator is an oracle `ev : individual -> result Q` (its answer for the circuit and parameter
   values of that individual; it may raise).  One task per individual is submitted in population order, the
   tasks complete in the order pi, the results are collected BY INDEX (exec_run).
   Order of effects as in the code: evaluations, count callback, None check, result callback, draws. *)
From QV Require Export Evqe.Population.
Open Scope Z_scope.

Definition Qltb (x y : Q) : bool := negb (Qle_bool y x).      (* x < y on floats that are not NaN *)
Definition Qz (z : Z) : Q := inject_Z z.

Record sel_config := mkSel {
  s_alpha : Q;                      (* alpha_penalty *)
  s_beta : Q;                       (* beta_penalty *)
  s_tournament : option nat }.      (* Some size: tournament selection (the constructor demands size >= 1) *)

(* numpy.argmin of a list without NaN: index of the first minimum; ValueError for an empty list *)
Fixpoint argmin_from (best_i : nat) (best : Q) (i : nat) (l : list Q) : nat :=
  match l with
  | [] => best_i
  | x :: t => if Qltb x best then argmin_from i x (S i) t else argmin_from best_i best (S i) t
  end.
Definition argmin (l : list Q) : result nat :=
  match l with [] => Err "ValueError"%string | x :: t => Ok (argmin_from 0 x 1 t) end.

Section Selection.
  Context {V : Type} (ieq : individual V -> individual V -> bool).
  Notation ind := (individual V).
  Variable ev : ind -> result Q.

  Definition n_controlled (x : ind) : Z := sumZ (map layer_n_controlled (i_layers x)).

  (* float(len(population.species_members[population.species_membership[i]])) *)
  Definition species_size (mem : list (ind * list nat)) (ms : list (nat * ind)) (i : nat) : result Q :=
    do r <- dict_at Nat.eqb ms i;
    do l <- dict_at ieq mem r;
    Ok (Qz (Z.of_nat (length l))).

  (* (value + offset + alpha * len(layers) + beta * n_controlled_gates) * species size *)
  Definition fitness (cfg : sel_config) (mem : list (ind * list nat)) (ms : list (nat * ind)) (offset : Q)
             (i : nat) (x : ind) (e : Q) : result Q :=
    do m <- species_size mem ms i;
    Ok ((e + offset + s_alpha cfg * Qz (Z.of_nat (length (i_layers x))) + s_beta cfg * Qz (n_controlled x)) * m)%Q.

  Fixpoint fitness_all (cfg : sel_config) mem ms (offset : Q) (i : nat) (xs : list ind) (es : list Q) : result (list Q) :=
    match xs, es with
    | x :: xt, e :: et => do f <- fitness cfg mem ms offset i x e;
                          do ft <- fitness_all cfg mem ms offset (S i) xt et;
                          Ok (f :: ft)
    | _, _ => Ok []
    end.

  (* 1 / (fitness + offset) *)
  Definition weight (offset f : Q) : result Q :=
    if Qeq_bool (f + offset) 0 then Err "ZeroDivisionError"%string else Ok (/ (f + offset))%Q.

  Definition sumQ (l : list Q) : Q := fold_right Qplus 0%Q l.

  (* one tournament: the first strictly smallest fitness among the drawn indices *)
  Fixpoint tournament_winner (fit : list Q) (idxs : list nat) (best : option (nat * Q)) : result (option (nat * Q)) :=
    match idxs with
    | [] => Ok best
    | t :: rest =>
        do f <- nth_r fit t;
        match best with
        | None => tournament_winner fit rest (Some (t, f))
        | Some (_, bf) => if Qltb f bf then tournament_winner fit rest (Some (t, f))
                          else tournament_winner fit rest best
        end
    end.

  Fixpoint tournaments (rounds : nat) (size : nat) (inds : list ind) (fit : list Q) (s : ostream)
    : result (list ind * ostream) :=
    match rounds with
    | O => Ok ([], s)
    | S r =>
        do c <- take_choices (length inds) None size s;
        do w <- tournament_winner fit (fst c) None;
        match w with
        | None => Err SelectionException
        | Some (bi, _) =>
            do x <- nth_r inds bi;
            do rest <- tournaments r size inds fit (snd c);
            Ok (x :: fst rest, snd rest)
        end
    end.

  (* the part after the evaluations: returns (callbacks made so far, result) *)
  Definition select_after_eval (cfg : sel_config) (p : population V) (values : list Q) (s : ostream) : outcome V :=
    let n := length (p_inds p) in
    let cb1 := [CbCount (Z.of_nat n)] in
    match p_reps p, p_members p, p_membership p with
    | Some reps, Some mem, Some ms =>
        match argmin values with
        | Err e => (cb1, Err e)
        | Ok bi =>
            match nth_r (p_inds p) bi, nth_r values bi with
            | Ok bx, Ok bv =>
                let cbs := cb1 ++ [CbResult (mkRes p values bx bv)] in
                (cbs,
                 match s_tournament cfg with
                 | None =>
                     let offset := if Qle_bool bv 0 then (- bv + 1)%Q else 0%Q in
                     do fit <- fitness_all cfg mem ms offset 0%nat (p_inds p) values;
                     do ws <- mapM (weight offset) fit;
                     if Qle_bool (sumQ ws) 0 then Err "ValueError"%string
                     else
                       do c <- take_choices n (Some ws) n s;
                       do sel <- mapM (nth_r (p_inds p)) (fst c);
                       match snd c with
                       | [] => Ok (mkPop sel (Some reps) None None)
                       | _ => Err StreamMismatch
                       end
                 | Some size =>
                     do fit <- fitness_all cfg mem ms 0%Q 0%nat (p_inds p) values;
                     do r <- tournaments n size (p_inds p) fit s;
                     match snd r with
                     | [] => Ok (mkPop (fst r) (Some reps) None None)
                     | _ => Err StreamMismatch
                     end
                 end)
            | Err e, _ => (cb1, Err e)
            | _, Err e => (cb1, Err e)
            end
        end
    | _, _, _ => (cb1, Err SelectionException)
    end.

  Definition selection_op (cfg : sel_config) (p : population V) (pi : list nat) (s : ostream) : outcome V :=
    match (do rs <- exec_run (map ev (p_inds p)) pi; gather rs) with
    | Err e => ([], Err e)
    | Ok values => select_after_eval cfg p values s
    end.
End Selection.
