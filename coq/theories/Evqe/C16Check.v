(* Correspondence entry point for C16: each case carries the arguments and what the implementation returned
   (the resulting individual, values as integer tokens, or the class of the exception). *)
From QV Require Import Evqe.RandLayer.
Open Scope Z_scope.

Inductive c16case :=
| CRemove (i : individual Z) (k : Z) (expected : result (individual Z))
| CChangeAll (i : individual Z) (vs : list Z) (expected : result (individual Z))
| CChangeLayer (i : individual Z) (layer_id : Z) (vs : list Z) (expected : result (individual Z))
| CGetLayer (i : individual Z) (layer_id : Z) (expected : list Z)
| CAppendRandom (i : individual Z) (n_layers : Z) (randomize : bool) (seed : option Z) (s : stream)
                (expected : result (individual Z)).

Definition ind_res_eqb := result_eqb (individual_eqb Z.eqb).

Definition append_result (legacy : bool) i nl r seed (s : stream) : result (individual Z) :=
  match add_random_layers legacy i nl r seed s (S (length s)) with
  | Ok (i', []) => Ok i'
  | Ok (_, _ :: _) => Err "StreamNotConsumed"%string
  | Err e => Err e
  end.

Definition check_case (c : c16case) : bool :=
  match c with
  | CRemove i k e => ind_res_eqb (remove_layers false i k) e
  | CChangeAll i vs e => ind_res_eqb (change_parameter_values i vs) e
  | CChangeLayer i lid vs e => ind_res_eqb (change_layer_parameter_values i lid vs) e
  | CGetLayer i lid e => list_eqb Z.eqb (get_layer_parameter_values i lid) e
  | CAppendRandom i nl r seed s e => ind_res_eqb (append_result false i nl r seed s) e
  end.

(* for replays: the model's answer (repaired), and for remove_layers also the legacy answer *)
Definition show_case (c : c16case) :=
  match c with
  | CRemove i k _ => (remove_layers false i k, remove_layers true i k)
  | CChangeAll i vs _ => (change_parameter_values i vs, Err ""%string)
  | CChangeLayer i lid vs _ => (change_layer_parameter_values i lid vs, Err ""%string)
  | CGetLayer i lid _ => (Err ""%string, Err ""%string)
  | CAppendRandom i nl r seed s _ => (append_result false i nl r seed s, append_result true i nl r seed s)
  end.
