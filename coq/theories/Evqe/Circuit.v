(* Circuits of an individual as instruction lists (C04, C16): what
     EVQECircuitLayer.get_parameterized_layer_circuit / get_layer_gate,
     EVQEIndividual.get_partially_parameterized_quantum_circuit / get_parameterized_quantum_circuit,
     BaseIndividual.get_quantum_circuit
   build, with Qiskit's positional assign_parameters modelled as "bind the i-th value to the i-th name in
   sorted name order".  Angles are parameter names or values (opaque tokens of type V).
   The unitary of a circuit is a function of its bound instruction list, so equality of bound instruction
   lists is the strongest form of "denote the same unitary".  Definitions only. *)
From QV Require Export Evqe.Genome Evqe.Names.
Open Scope Z_scope.

Section Circuit.
Context {V : Type}.

Inductive angle := AVal (v : V) | ANam (n : name).

Inductive instr :=
| IId (q : Z)                                   (* circuit.id(q) *)
| IU (q : Z) (theta phi lam : angle)            (* circuit.u(theta, phi, lam, q) *)
| ICU3 (c t : Z) (theta phi lam : angle).       (* CU3Gate(theta, phi, lam) on (control c, target t) *)

Definition circuit := list instr.

(* EVQEGate.apply_gate: one instruction per gate, none for the control half of a controlled rotation *)
Definition gate_instrs (prefix : name) (g : gate) : circuit :=
  match g with
  | GId q => [IId q]
  | GRot q => [IU q (ANam (param_name prefix q s_theta)) (ANam (param_name prefix q s_phi))
                    (ANam (param_name prefix q s_lambda))]
  | GCtrl _ _ => []
  | GCRot q c => [ICU3 c q (ANam (param_name prefix q s_theta)) (ANam (param_name prefix q s_phi))
                       (ANam (param_name prefix q s_lambda))]
  end.

(* get_parameterized_layer_circuit(layer_id) *)
Definition layer_circuit (legacy : bool) (layer_id : nat) (l : layer) : circuit :=
  flat_map (gate_instrs (layer_prefix legacy (Z.of_nat layer_id))) (l_gates l).

Definition angle_params (a : angle) : list name := match a with ANam n => [n] | AVal _ => [] end.
Definition instr_params (i : instr) : list name :=
  match i with
  | IId _ => []
  | IU _ a b c | ICU3 _ _ a b c => angle_params a ++ angle_params b ++ angle_params c
  end.
Definition circuit_params (c : circuit) : list name := flat_map instr_params c.

(* binding *)
Fixpoint lookup (n : name) (env : list (name * V)) : option V :=
  match env with
  | [] => None
  | (k, v) :: rest => if name_eqb n k then Some v else lookup n rest
  end.

Definition bind_angle (env : list (name * V)) (a : angle) : angle :=
  match a with
  | AVal v => AVal v
  | ANam n => match lookup n env with Some v => AVal v | None => ANam n end
  end.

Definition bind_instr (env : list (name * V)) (i : instr) : instr :=
  match i with
  | IId q => IId q
  | IU q a b c => IU q (bind_angle env a) (bind_angle env b) (bind_angle env c)
  | ICU3 c0 t a b c => ICU3 c0 t (bind_angle env a) (bind_angle env b) (bind_angle env c)
  end.

Definition bind_circuit (env : list (name * V)) (c : circuit) : circuit := map (bind_instr env) c.

(* circuit.assign_parameters(values) with a sequence: the i-th value goes to the i-th parameter of
   circuit.parameters, which is sorted by name; ValueError if the counts differ *)
Definition assign_positional (c : circuit) (vs : list V) : result circuit :=
  let ps := sort_names (circuit_params c) in
  if Nat.eqb (length ps) (length vs) then Ok (bind_circuit (combine ps vs) c) else Err "ValueError"%string.

(* get_layer_gate(layer_id, parameter_values) *)
Definition layer_gate (legacy : bool) (layer_id : nat) (l : layer) (vs : list V) : result circuit :=
  if negb (Z.eqb (Z.of_nat (length vs)) (layer_n_parameters l)) then Err LayerException
  else assign_positional (layer_circuit legacy layer_id l) vs.

(* {layer_id % len(self.layers) for layer_id in parameterized_layers} *)
Definition wrap_set (i : individual V) (S : list Z) : list nat := map (wrap_layer_id i) S.
Definition mem_nat (k : nat) (l : list nat) : bool := existsb (Nat.eqb k) l.

(* get_partially_parameterized_quantum_circuit(S): layer by layer, symbolic if its index is in S (mod the
   number of layers), otherwise bound layer-locally with the layer's own slice of the values; decompose()
   flattens the layer gates into their instructions *)
Fixpoint pp_blocks (legacy : bool) (i : individual V) (S' : list nat) (k : nat) (ls : list layer)
  : result (list circuit) :=
  match ls with
  | [] => Ok []
  | l :: rest =>
      do b <- (if mem_nat k S' then Ok (layer_circuit legacy k l) else layer_gate legacy k l (layer_values i k));
      do bs <- pp_blocks legacy i S' (S k) rest;
      Ok (b :: bs)
  end.

Definition partially_parameterized (legacy : bool) (i : individual V) (S : list Z) : result circuit :=
  do bs <- pp_blocks legacy i (wrap_set i S) O (i_layers i); Ok (concat bs).

Definition all_layers (i : individual V) : list Z := map Z.of_nat (seq 0 (length (i_layers i))).

(* get_parameterized_quantum_circuit() *)
Definition parameterized (legacy : bool) (i : individual V) : result circuit :=
  partially_parameterized legacy i (all_layers i).

(* get_quantum_circuit() = get_parameterized_quantum_circuit().assign_parameters(parameter_values) *)
Definition concrete (legacy : bool) (i : individual V) : result circuit :=
  do c <- parameterized legacy i; assign_positional c (i_values i).

(* the values one binds into the symbolic layers: their own slices, in layer order *)
Definition values_for (f : nat -> list V) (S' : list nat) (n_layers : nat) : list V :=
  flat_map (fun k => if mem_nat k S' then f k else []) (seq 0 n_layers).

(* every layer bound with its own values: the intended meaning of the genome; per layer and flattened *)
Definition layer_blocks (legacy : bool) (i : individual V) : result (list circuit) :=
  pp_blocks legacy i [] O (i_layers i).
Definition by_layer (legacy : bool) (i : individual V) : result circuit := partially_parameterized legacy i [].

End Circuit.
Arguments angle : clear implicits.
Arguments instr : clear implicits.
Arguments circuit : clear implicits.
