(* Shared model of the EVQE genome: gates, circuit layers, individuals and the structural operations on
   individuals (quantum_gate.py, circuit_layer.py [validity, parameter counts], individual.py).
   Definitions only.  Qubit indices are Z because Python accepts any int (negative indices wrap in
   tuple indexing, out-of-range ones raise IndexError); parameter values are an arbitrary type V
   (opaque tokens, Q, ...): the structural code only moves them around. *)
From QV Require Export Common.Base.
Open Scope Z_scope.

Definition LayerException : string := "EVQECircuitLayerException"%string.
Definition IndividualException : string := "EVQEIndividualException"%string.

Inductive gate :=
| GId (q : Z)                       (* IdentityGate(qubit_index) *)
| GRot (q : Z)                      (* RotationGate(qubit_index) *)
| GCtrl (q : Z) (controlled : Z)    (* ControlGate(qubit_index, controlled_qubit_index) *)
| GCRot (q : Z) (control : Z).      (* ControlledRotationGate(qubit_index, control_qubit_index) *)

Definition gate_qubit (g : gate) : Z :=
  match g with GId q | GRot q | GCtrl q _ | GCRot q _ => q end.

Definition gate_n_parameters (g : gate) : Z :=
  match g with GId _ | GCtrl _ _ => 0 | GRot _ | GCRot _ _ => 3 end.

Definition gate_eqb (a b : gate) : bool :=
  match a, b with
  | GId p, GId q | GRot p, GRot q => Z.eqb p q
  | GCtrl p x, GCtrl q y | GCRot p x, GCRot q y => Z.eqb p q && Z.eqb x y
  | _, _ => false
  end.

Record layer := mkLayer { l_qubits : Z; l_gates : list gate }.

Definition layer_eqb (a b : layer) : bool :=
  Z.eqb (l_qubits a) (l_qubits b) && list_eqb gate_eqb (l_gates a) (l_gates b).

(* Python tuple indexing t[i]: wraps negative indices once, IndexError outside [-len, len) *)
Definition py_index {A} (l : list A) (i : Z) : result A :=
  let n := Z.of_nat (length l) in
  let j := if i <? 0 then i + n else i in
  if (j <? 0) || (n <=? j) then Err "IndexError"%string
  else match nth_error l (Z.to_nat j) with Some x => Ok x | None => Err "IndexError"%string end.

(* EVQECircuitLayer.is_valid, gate by gate in order; the first failing gate decides (False or IndexError) *)
Definition gate_valid_at (gates : list gate) (idx : Z) (g : gate) : result bool :=
  if negb (Z.eqb idx (gate_qubit g)) then Ok false
  else match g with
       | GCRot q c =>
           do cg <- py_index gates c;
           Ok (match cg with GCtrl _ controlled => Z.eqb controlled idx | _ => false end)
       | GCtrl q t =>
           do tg <- py_index gates t;
           Ok (match tg with GCRot _ control => Z.eqb control idx | _ => false end)
       | _ => Ok true
       end.

Fixpoint gates_valid_from (gates : list gate) (idx : Z) (rest : list gate) : result bool :=
  match rest with
  | [] => Ok true
  | g :: tl => do ok <- gate_valid_at gates idx g;
               if ok then gates_valid_from gates (idx + 1) tl else Ok false
  end.

Definition layer_is_valid (l : layer) : result bool :=
  if negb (Z.eqb (Z.of_nat (length (l_gates l))) (l_qubits l)) then Ok false
  else gates_valid_from (l_gates l) 0 (l_gates l).

(* EVQECircuitLayer(...) constructor: __post_init__ raises for an invalid layer *)
Definition make_layer (n : Z) (gates : list gate) : result layer :=
  do v <- layer_is_valid (mkLayer n gates);
  if v then Ok (mkLayer n gates) else Err LayerException.

Definition layer_n_parameters (l : layer) : Z := sumZ (map gate_n_parameters (l_gates l)).
Definition is_controlled (g : gate) : bool := match g with GCRot _ _ => true | _ => false end.
Definition layer_n_controlled (l : layer) : Z := Z.of_nat (length (filter is_controlled (l_gates l))).

(* a layer object exists only if its constructor accepted it *)
Definition layer_wf (l : layer) : bool := result_eqb Bool.eqb (layer_is_valid l) (Ok true).

(* ------------------------------------------------------------------ individuals *)
Record individual (V : Type) := mkInd { i_qubits : Z; i_layers : list layer; i_values : list V }.
Arguments mkInd {V} _ _ _.
Arguments i_qubits {V} _.
Arguments i_layers {V} _.
Arguments i_values {V} _.

Definition n_params_of (ls : list layer) : Z := sumZ (map layer_n_parameters ls).

(* EVQEIndividual.is_valid (the layers are layer objects, hence layer_wf) *)
Definition individual_is_valid {V} (i : individual V) : bool :=
  negb (Nat.eqb (length (i_layers i)) 0)
  && forallb (fun l => layer_wf l && Z.eqb (l_qubits l) (i_qubits i)) (i_layers i)
  && Z.eqb (Z.of_nat (length (i_values i))) (n_params_of (i_layers i)).

Definition make_individual {V} (n : Z) (ls : list layer) (vs : list V) : result (individual V) :=
  if individual_is_valid (mkInd n ls vs) then Ok (mkInd n ls vs) else Err IndividualException.

(* the slice of the flat parameter tuple that belongs to layer k (layer_parameter_indices[k]) *)
Definition layer_offset (ls : list layer) (k : nat) : nat := Z.to_nat (n_params_of (firstn k ls)).
Definition layer_count (ls : list layer) (k : nat) : nat :=
  match nth_error ls k with Some l => Z.to_nat (layer_n_parameters l) | None => 0%nat end.
Definition layer_values {V} (i : individual V) (k : nat) : list V :=
  firstn (layer_count (i_layers i) k) (skipn (layer_offset (i_layers i) k) (i_values i)).

(* layer_id % len(layers): Python's modulo has the sign of the divisor, Z.modulo likewise *)
Definition wrap_layer_id {V} (i : individual V) (layer_id : Z) : nat :=
  Z.to_nat (layer_id mod Z.of_nat (length (i_layers i))).

(* EVQEIndividual.get_layer_parameter_values *)
Definition get_layer_parameter_values {V} (i : individual V) (layer_id : Z) : list V :=
  layer_values i (wrap_layer_id i layer_id).

(* EVQEIndividual.change_parameter_values *)
Definition change_parameter_values {V} (i : individual V) (vs : list V) : result (individual V) :=
  make_individual (i_qubits i) (i_layers i) vs.

(* EVQEIndividual.change_layer_parameter_values *)
Definition change_layer_parameter_values {V} (i : individual V) (layer_id : Z) (vs : list V) : result (individual V) :=
  let k := wrap_layer_id i layer_id in
  if negb (Nat.eqb (length vs) (layer_count (i_layers i) k)) then Err IndividualException
  else
    let off := layer_offset (i_layers i) k in
    make_individual (i_qubits i) (i_layers i)
      (firstn off (i_values i) ++ vs ++ skipn (off + layer_count (i_layers i) k) (i_values i)).

(* the deterministic core of add_random_layers: append given layers and values *)
Definition add_layers {V} (i : individual V) (new_layers : list layer) (new_values : list V) : result (individual V) :=
  make_individual (i_qubits i) (i_layers i ++ new_layers) (i_values i ++ new_values).

(* EVQEIndividual.remove_layers (repaired: cut at the parameter count of the remaining layers).
   legacy = true models the pre-fix code: layer_parameter_indices[first removed][0] raises IndexError
   when that layer has no parameters. *)
Definition remove_layers {V} (legacy : bool) (i : individual V) (n_layers : Z) : result (individual V) :=
  let len := Z.of_nat (length (i_layers i)) in
  if negb (0 <? n_layers) then Err IndividualException
  else if negb (n_layers <? len) then Err IndividualException
  else
    let keep := Z.to_nat (len - n_layers) in
    if legacy && Nat.eqb (layer_count (i_layers i) keep) 0 then Err "IndexError"%string
    else make_individual (i_qubits i) (firstn keep (i_layers i))
           (firstn (layer_offset (i_layers i) keep) (i_values i)).

(* EVQEIndividual.get_genetic_distance: ceil(0.5 * (n1 + n2)) - number of equal layers at equal positions *)
Fixpoint shared_layers (a b : list layer) : Z :=
  match a, b with
  | x :: xs, y :: ys => (if layer_eqb x y then 1 else 0) + shared_layers xs ys
  | _, _ => 0
  end.
Definition genetic_distance {V} (a b : individual V) : Z :=
  let n := Z.of_nat (length (i_layers a)) + Z.of_nat (length (i_layers b)) in
  (n + 1) / 2 - shared_layers (i_layers a) (i_layers b).

Definition individual_eqb {V} (veqb : V -> V -> bool) (a b : individual V) : bool :=
  Z.eqb (i_qubits a) (i_qubits b) && list_eqb layer_eqb (i_layers a) (i_layers b)
  && list_eqb veqb (i_values a) (i_values b).
