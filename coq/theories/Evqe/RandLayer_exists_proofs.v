(* C20: the retry loop CAN always be left - from every state of the pairing loop there is a finite sequence of
   accepted draws that ends it, and for every (n, previous layer, seed) a stream on which random_layer returns. *)
From QV Require Import Evqe.Genome Evqe.GenomeFacts Evqe.Stream Evqe.RandLayer Evqe.RandLayer_proofs.
Open Scope Z_scope.

(* a stream that sends every free qubit to the candidate list *)
Lemma qp_exists n prev : forall qs gates crq,
  prev_len n prev -> (forall q, In q qs -> (q < n)%nat) ->
  exists s, forall tail, qubit_pass prev qs gates crq (s ++ tail) = Ok (gates, crq ++ qs, tail).
Proof.
  induction qs as [|q rest IH]; intros gates crq PL H.
  - exists []. intros tail. simpl. rewrite app_nil_r. reflexivity.
  - destruct (IH gates (crq ++ [q]) PL ltac:(intros x Hx; apply H; right; exact Hx)) as [s' Hs'].
    assert (Free : forall tail,
      (do d <- draw_choice 2 ((DChoice 2 1 :: s') ++ tail);
       if Nat.eqb (fst d) 1 then qubit_pass prev rest gates (crq ++ [q]) (snd d)
       else do gates' <- list_set gates q (GRot (zq q)); qubit_pass prev rest gates' crq (snd d))
      = Ok (gates, crq ++ q :: rest, tail)).
    { intros tail. simpl. rewrite Hs'. rewrite <- app_assoc. reflexivity. }
    destruct prev as [p|] eqn:EP.
    + destruct (prev_lookup n (Some p) p q eq_refl PL (H q (or_introl eq_refl))) as [pg [_ Pp]].
      destruct (gate_is_rot_or_id pg) eqn:F.
      * exists s'. intros tail. simpl. rewrite Pp. simpl. rewrite F. rewrite Hs'. rewrite <- app_assoc. reflexivity.
      * exists (DChoice 2 1 :: s'). intros tail. cbn [qubit_pass]. rewrite Pp. cbn [bind]. rewrite F. apply Free.
    + exists (DChoice 2 1 :: s'). intros tail. cbn [qubit_pass bind]. apply Free.
Qed.

(* one accepted draw: the gate and candidate updates succeed and keep the invariant *)
Lemma accept_step n prev gates crq r c :
  inv n prev gates crq -> In r crq -> In c crq -> r <> c -> accepts prev r c = true ->
  exists g2 c2,
    (do g1 <- list_set gates c (GCtrl (zq c) (zq r));
     do g2 <- list_set g1 r (GCRot (zq r) (zq c));
     do c1 <- remove_first crq r;
     do c2 <- remove_first c1 c;
     Ok (g2, c2)) = Ok (g2, c2) /\ inv n prev g2 c2 /\ length crq = S (S (length c2)).
Proof.
  intros I Inr Inc Hrc A.
  pose proof (inv_cand _ _ _ _ I r Inr) as Gr. pose proof (inv_cand _ _ _ _ I c Inc) as Gc.
  assert (Lr : (r < length gates)%nat) by (apply nth_error_Some; congruence).
  assert (Lc : (c < length gates)%nat) by (apply nth_error_Some; congruence).
  destruct (list_set_ok gates c (GCtrl (zq c) (zq r)) Lc) as [g1 S1].
  assert (Lr1 : (r < length g1)%nat) by (apply list_set_spec in S1 as [L1 _]; lia).
  destruct (list_set_ok g1 r (GCRot (zq r) (zq c)) Lr1) as [g2 S2].
  destruct (remove_first_ok crq r Inr) as [c1 R1].
  destruct (remove_first_spec crq r c1 (inv_nodup _ _ _ _ I) R1) as [ND1 [M1 Len1]].
  assert (Inc1 : In c c1) by (apply M1; split; [exact Inc | congruence]).
  destruct (remove_first_ok c1 c Inc1) as [c2 R2].
  destruct (remove_first_spec c1 c c2 ND1 R2) as [ND2 [M2 Len2]].
  exists g2, c2. rewrite S1. cbn [bind]. rewrite S2. cbn [bind]. rewrite R1. cbn [bind]. rewrite R2. cbn [bind].
  split; [reflexivity|]. split; [|lia].
  apply (inv_set2 n prev gates crq r c g1 g2 c2 I Hrc Gr Gc S1 S2 (accepts_norep _ _ _ A) ND2).
  intros x Hx. apply M2 in Hx as [Hx Hxc]. apply M1 in Hx as [Hx Hxr]. auto.
Qed.

Definition prev_wf (prev : option layer) : Prop := match prev with None => True | Some p => layer_wf p = true end.

(* from every state of the pairing loop there is a finite sequence of draws, all accepted, that ends it *)
Lemma pl_exists n prev : prev_wf prev -> forall m gates crq acc rej,
  (length crq <= m)%nat -> inv n prev gates crq ->
  exists s, forall tail, exists g' c',
    pair_loop prev gates crq (s ++ tail) (length s) acc rej = ((acc + length s)%nat, rej, Ok (g', c', tail)).
Proof.
  intros PW. induction m as [|m IH]; intros gates crq acc rej Lm I.
  - exists []. intros tail. exists gates, crq. destruct crq; [|simpl in Lm; lia]. simpl. rewrite Nat.add_0_r. reflexivity.
  - destruct crq as [|r [|c rest]].
    + exists []. intros tail. exists gates, []. simpl. rewrite Nat.add_0_r. reflexivity.
    + exists []. intros tail. exists gates, [r]. simpl. rewrite Nat.add_0_r. reflexivity.
    + assert (Hrc : r <> c).
      { destruct I as [_ ND _ _]. inversion ND as [|? ? Hn _]; subst. intros ->. apply Hn. left. reflexivity. }
      set (crq := r :: c :: rest) in *.
      assert (Inr : In r crq) by (left; reflexivity). assert (Inc : In c crq) by (right; left; reflexivity).
      (* pick the order that is accepted *)
      assert (Pick : exists i j r' c', (i < length crq)%nat /\ (j < length crq)%nat /\ i <> j /\
                       nth_error crq i = Some r' /\ nth_error crq j = Some c' /\ In r' crq /\ In c' crq /\ r' <> c' /\
                       accepts prev r' c' = true).
      { destruct (accepts prev r c) eqn:A.
        - exists 0%nat, 1%nat, r, c. simpl. repeat split; auto; lia.
        - destruct prev as [p|]; [|simpl in A; discriminate].
          exists 1%nat, 0%nat, c, r. simpl. repeat split; auto; try lia. apply accepts_asym; [exact PW | exact A]. }
      destruct Pick as [i [j [r' [c' [Hi [Hj [Hij [Ni [Nj [Inr' [Inc' [Hrc' A]]]]]]]]]]]].
      destruct (accept_step n prev gates crq r' c' I Inr' Inc' Hrc' A) as [g2 [c2 [E [I2 Len]]]].
      destruct (IH g2 c2 (S acc) rej ltac:(simpl in Lm; unfold crq in Len; simpl in Len; lia) I2) as [s' Hs'].
      exists (DSample (length crq) 2 [i; j] :: s'). intros tail. destruct (Hs' tail) as [g' [c'' Hp]].
      exists g', c''. cbn [length app pair_loop].
      assert (L2 : Nat.ltb (length crq) 2 = false) by (apply Nat.ltb_ge; unfold crq; simpl; lia). rewrite L2.
      unfold draw_sample. rewrite L2. rewrite !Nat.eqb_refl. cbn [length forallb andb nodup_nat existsb orb negb].
      assert (B1 : Nat.ltb i (length crq) = true) by (apply Nat.ltb_lt; exact Hi).
      assert (B2 : Nat.ltb j (length crq) = true) by (apply Nat.ltb_lt; exact Hj).
      assert (B3 : Nat.eqb i j = false) by (apply Nat.eqb_neq; exact Hij).
      rewrite B1, B2, B3. cbn [andb negb orb]. rewrite Ni, Nj, A, E. rewrite Hp. do 2 f_equal. lia.
Qed.

Theorem random_layer_exists n prev seed :
  1 <= n -> prev_good n prev ->
  exists s fuel l, random_layer n prev seed s fuel = Ok (l, []).
Proof.
  intros Hn PG. set (n0 := Z.to_nat n). set (qs := seq 0 n0).
  pose proof (prev_good_len n prev ltac:(lia) PG) as PL. fold n0 in PL.
  assert (PW : prev_wf prev) by (destruct prev as [p|]; [exact (proj1 PG) | exact Logic.I]).
  set (gates0 := map (fun q => GId (zq q)) qs).
  destruct (qp_exists n0 prev qs gates0 [] PL) as [s1 H1].
  { intros q Hq. unfold qs in Hq. apply in_seq in Hq. lia. }
  assert (I1 : inv n0 prev gates0 qs).
  { pose proof (qubit_pass_inv n0 prev qs gates0 [] (s1 ++ []) PL (inv_init n0 prev) (seq_NoDup n0 0)) as QP.
    rewrite (H1 []) in QP. simpl in QP. apply QP.
    intros q Hq. unfold qs in Hq. apply in_seq in Hq. repeat split; [lia | tauto |].
    unfold gates0, qs. rewrite nth_error_map. rewrite (nth_error_nth' _ O) by (rewrite seq_length; lia).
    rewrite seq_nth by lia. reflexivity. }
  destruct (pl_exists n0 prev PW (length qs) gates0 qs O O (le_n _) I1) as [s2 H2].
  destruct (H2 []) as [g' [c' Hp]]. rewrite app_nil_r in Hp.
  pose proof (pair_loop_inv n0 prev (length s2) gates0 qs s2 O O I1) as PI. rewrite Hp in PI.
  destruct PI as [_ [I2 [L2 _]]].
  destruct (last_qubit_inv n0 prev g' c' PL I2 L2) as [gates3 [LQ I3]].
  destruct (inv_final n0 prev gates3 I3) as [W _].
  assert (En : Z.of_nat n0 = n) by (unfold n0; lia). rewrite En in W.
  exists (DSeed seed :: s1 ++ s2), (length s2), (mkLayer n gates3).
  unfold random_layer, random_layer_pairs.
  assert (E1 : (n <? 1) = false) by (apply Z.ltb_ge; lia). rewrite E1.
  assert (E2 : match prev with Some p => negb (l_qubits p =? n) | None => false end = false).
  { destruct prev as [p|]; [|reflexivity]. destruct PG as [_ Q]. rewrite Q, Z.eqb_refl. reflexivity. }
  rewrite E2. fold n0. fold qs. fold gates0.
  cbn [draw_seed]. assert (ES : option_eqb Z.eqb seed seed = true) by (destruct seed; simpl; [apply Z.eqb_refl | reflexivity]).
  rewrite ES. cbn [bind]. rewrite (H1 s2). cbn [app]. rewrite Hp. cbn [snd bind].
  rewrite LQ. cbn [bind]. rewrite (make_layer_wf n gates3 W). reflexivity.
Qed.

(* ------------------------------------------------------------------ at least half of the ordered pairs are accepted *)
Lemma ordered_pairs_length l : length (ordered_pairs l) = (length l * (length l - 1))%nat.
Proof.
  induction l as [|x t IH]; [reflexivity|]. cbn [ordered_pairs]. rewrite app_length, IH.
  assert (E : length (flat_map (fun y => [(x, y); (y, x)]) t) = (2 * length t)%nat).
  { clear IH. induction t as [|y t IHt]; [reflexivity|]. cbn [flat_map app length]. rewrite IHt. lia. }
  rewrite E. cbn [length]. destruct (length t) as [|m]; simpl; lia.
Qed.

Lemma ordered_pairs_in l : NoDup l -> forall a b, In (a, b) (ordered_pairs l) <-> In a l /\ In b l /\ a <> b.
Proof.
  induction l as [|x t IH]; intros ND a b; [simpl; tauto|].
  inversion ND as [|? ? Hx NDt]; subst. cbn [ordered_pairs]. rewrite in_app_iff, (IH NDt), in_flat_map. split.
  - intros [[y [Hy Hp]]|[Ha [Hb Hab]]].
    + simpl in Hp. destruct Hp as [Hp|[Hp|[]]]; inversion Hp; subst; simpl; repeat split; auto; intros ->; contradiction.
    + simpl. tauto.
  - intros [[Ha|Ha] [[Hb|Hb] Hab]]; subst.
    + congruence.
    + left. exists b. split; [exact Hb | left; reflexivity].
    + left. exists a. split; [exact Ha | right; left; reflexivity].
    + right. tauto.
Qed.

Theorem accept_half prev crq :
  prev_wf prev ->
  (length (ordered_pairs crq) <= 2 * length (accepted_pairs prev crq))%nat.
Proof.
  intros PW. unfold accepted_pairs. induction crq as [|x t IH]; [simpl; lia|].
  cbn [ordered_pairs]. rewrite filter_app, !app_length.
  assert (E : (length (flat_map (fun y => [(x, y); (y, x)]) t)
               <= 2 * length (filter (fun p => accepts prev (fst p) (snd p)) (flat_map (fun y => [(x, y); (y, x)]) t)))%nat).
  { clear IH. induction t as [|y t IHt]; [simpl; lia|].
    cbn [flat_map app filter fst snd].
    destruct (accepts prev x y) eqn:A1; destruct (accepts prev y x) eqn:A2; cbn [length]; try lia.
    exfalso. destruct prev as [p|]; [|simpl in A1; discriminate].
    rewrite (accepts_asym p x y PW A1) in A2. discriminate. }
  lia.
Qed.
