(* Denotation of a bound circuit in an arbitrary monoid-like structure (C16): the unitary of a circuit is the
   product of the unitaries of its instructions.  The gate semantics is a parameter (Section variable);
   the two facts U(0,0,0) = I and CU3(0,0,0) = I are hypotheses of the theorems that use them.
   Definitions only. *)
From QV Require Export Evqe.Circuit.

Section Denote.
Context {V M : Type}.
Variables (mul : M -> M -> M) (one : M) (sem : instr V -> M).

Definition den (c : circuit V) : M := fold_left (fun m ins => mul m (sem ins)) c one.

End Denote.
