(* Proofs about the EVQE operator models (C10, C11). *)
From QV Require Import Evqe.Heap.
From Coq Require Import Permutation.
Open Scope Z_scope.

Lemma set_nth_length {A} (l : list A) i x l' : set_nth l i x = Ok l' -> length l' = length l.
Proof.
  revert i l'. induction l as [|h t IH]; intros [|i] l' H; simpl in H; try discriminate.
  - inversion H; reflexivity.
  - destruct (set_nth t i x) eqn:E; simpl in H; [|discriminate]. inversion H; subst; simpl. f_equal. eapply IH; eauto.
Qed.
