(* Proofs about the EVQE operator models: executor alignment, selection, mutation contracts, closure of
   validity under every operator and under operator sequences (C10). *)
From QV Require Import Evqe.Heap Evqe.Speciation_proofs.
From Coq Require Import Permutation Sorting.Sorted.
Open Scope Z_scope.

(* ------------------------------------------------------------------ small facts *)
Lemma set_nth_length {A} (l : list A) i x l' : set_nth l i x = Ok l' -> length l' = length l.
Proof.
  revert i l'. induction l as [|h t IH]; intros [|i] l' H; simpl in H; try discriminate.
  - inversion H; reflexivity.
  - destruct (set_nth t i x) eqn:E; simpl in H; [|discriminate]. inversion H; subst; simpl. f_equal. eapply IH; eauto.
Qed.

Lemma set_nth_Forall {A} (P : A -> Prop) (l : list A) i x l' :
  set_nth l i x = Ok l' -> Forall P l -> P x -> Forall P l'.
Proof.
  revert i l'. induction l as [|h t IH]; intros [|i] l' H Hl Hx; simpl in H; try discriminate.
  - inversion H; subst. inversion Hl; subst. constructor; assumption.
  - destruct (set_nth t i x) eqn:E; simpl in H; [|discriminate]. inversion H; subst. inversion Hl; subst.
    constructor; [assumption|]. eapply IH; eauto.
Qed.

Lemma set_nth_Forall2 {A} (R : A -> A -> Prop) (orig cur : list A) i x x' cur' :
  Forall2 R orig cur -> nth_error orig i = Some x -> R x x' -> set_nth cur i x' = Ok cur' -> Forall2 R orig cur'.
Proof.
  intros HF. revert i cur'. induction HF as [|o c os cs Hoc HF IH]; intros [|i] cur' Hn HR H; simpl in *; try discriminate.
  - inversion Hn; subst. inversion H; subst. constructor; assumption.
  - destruct (set_nth cs i x') eqn:E; simpl in H; [|discriminate]. inversion H; subst. constructor; [assumption|]. eapply IH; eauto.
Qed.

Lemma mapM_Forall2 {A B} (f : A -> result B) l r : mapM f l = Ok r <-> Forall2 (fun a b => f a = Ok b) l r.
Proof.
  revert r. induction l as [|a t IH]; intros r; simpl.
  - split; [intros H; inversion H; constructor|intros H; inversion H; reflexivity].
  - split.
    + destruct (f a) eqn:E; simpl; [|discriminate]. destruct (mapM f t) eqn:E2; simpl; [|discriminate].
      intros H; inversion H; subst. constructor; [exact E|]. apply IH. reflexivity.
    + intros H; inversion H; subst. rewrite H2. simpl. apply IH in H4. rewrite H4. reflexivity.
Qed.

Lemma gather_map {A B} (f : A -> result B) l : gather (map f l) = mapM f l.
Proof. unfold gather. induction l as [|a t IH]; simpl; [reflexivity|]. rewrite IH. reflexivity. Qed.

Lemma Forall2_length' {A B} (R : A -> B -> Prop) l r : Forall2 R l r -> length l = length r.
Proof. induction 1; simpl; congruence. Qed.

Lemma nth_r_In {A} (l : list A) i x : nth_r l i = Ok x -> In x l.
Proof. unfold nth_r. destruct (nth_error l i) eqn:E; intros H; inversion H; subst. eapply nth_error_In; eauto. Qed.

Lemma nth_r_nth {A} (l : list A) i x : nth_r l i = Ok x <-> nth_error l i = Some x.
Proof. unfold nth_r. destruct (nth_error l i); split; intros H; inversion H; reflexivity. Qed.

(* ------------------------------------------------------------------ the executor: collection by index is aligned *)
Section ExecFacts.
  Context {R : Type}.

  Lemma complete_log (tasks : list R) pi log :
    complete tasks pi = Ok log -> map fst log = pi /\ (forall j r, In (j, r) log -> nth_error tasks j = Some r).
  Proof.
    revert log. induction pi as [|j t IH]; intros log; simpl.
    - intros H; inversion H; subst. split; [reflexivity|intros ? ? []].
    - destruct (nth_error tasks j) as [r|] eqn:E; [|discriminate].
      destruct (complete tasks t) as [rest|] eqn:E2; simpl; [|discriminate].
      intros H; inversion H; subst. destruct (IH rest eq_refl) as [A1 A2]. split; [simpl; f_equal; exact A1|].
      intros j0 r0 [X|X]; [inversion X; subst; exact E|eauto].
  Qed.

  Lemma complete_ok (tasks : list R) pi :
    (forall j, In j pi -> (j < length tasks)%nat) -> exists log, complete tasks pi = Ok log.
  Proof.
    induction pi as [|j t IH]; intros H; simpl; [eexists; reflexivity|].
    destruct (nth_error tasks j) as [r|] eqn:E.
    - destruct IH as [log El]; [intros; apply H; right; assumption|]. rewrite El. simpl. eexists; reflexivity.
    - apply nth_error_None in E. specialize (H j (or_introl eq_refl)). lia.
  Qed.

  Lemma log_get (tasks : list R) (log : list (nat * R)) i :
    (forall j r, In (j, r) log -> nth_error tasks j = Some r) ->
    match dict_get Nat.eqb log i with
    | Some r => nth_error tasks i = Some r
    | None => ~ In i (map fst log)
    end.
  Proof.
    induction log as [|[j r] t IH]; intros H; simpl; [intros []|].
    destruct (Nat.eqb i j) eqn:E.
    - apply Nat.eqb_eq in E; subst. apply H. left; reflexivity.
    - specialize (IH (fun j0 r0 X => H j0 r0 (or_intror X))). destruct (dict_get Nat.eqb t i); [exact IH|].
      intros [X|X]; [simpl in X; subst; rewrite Nat.eqb_refl in E; discriminate|contradiction].
  Qed.

  Lemma seq_nth_Forall2 (pre tasks : list R) :
    Forall2 (fun i r => nth_error (pre ++ tasks) i = Some r) (seq (length pre) (length tasks)) tasks.
  Proof.
    revert pre. induction tasks as [|r t IH]; intros pre; simpl; [constructor|]. constructor.
    - rewrite nth_error_app2, Nat.sub_diag; [reflexivity|lia].
    - specialize (IH (pre ++ [r])). rewrite app_length in IH. simpl in IH. rewrite Nat.add_1_r, <- app_assoc in IH. exact IH.
  Qed.

  Lemma collect_aligned (full : list R) (log : list (nat * R)) :
    (forall j r, In (j, r) log -> nth_error full j = Some r) ->
    forall l done ts,
      Forall2 (fun a b => match dict_get Nat.eqb log a with Some r => Ok r | None => Err NeverCompleted end = Ok b) l done ->
      Forall2 (fun i r => nth_error full i = Some r) l ts -> done = ts.
  Proof.
    intros Hlog. induction l as [|i l IH]; intros done ts H G; inversion H; subst; inversion G; subst; [reflexivity|].
    f_equal; [|apply IH; assumption].
    pose proof (log_get full log i Hlog) as X. destruct (dict_get Nat.eqb log i); [|discriminate].
    inversion H2; subst. congruence.
  Qed.

  (* whatever the completion order: if the run completes, position i holds the outcome of task i *)
  Theorem exec_run_aligned (tasks : list R) pi done : exec_run tasks pi = Ok done -> done = tasks.
  Proof.
    unfold exec_run. destruct (complete tasks pi) as [log|] eqn:E; simpl; [|discriminate].
    destruct (complete_log _ _ _ E) as [_ Hlog]. unfold collect. intros H. apply mapM_Forall2 in H.
    pose proof (seq_nth_Forall2 [] tasks) as G. simpl in G.
    eapply collect_aligned; eauto.
  Qed.

  (* and for every permutation of the submitted tasks the run does complete *)
  Theorem exec_run_permutation (tasks : list R) pi :
    Permutation pi (seq 0 (length tasks)) -> exec_run tasks pi = Ok tasks.
  Proof.
    intros HP.
    assert (Hlt : forall j, In j pi -> (j < length tasks)%nat).
    { intros j Hj. apply (Permutation_in _ HP) in Hj. apply in_seq in Hj. lia. }
    destruct (complete_ok tasks pi Hlt) as [log E].
    destruct (complete_log _ _ _ E) as [Hfst Hlog].
    assert (X : exists done, exec_run tasks pi = Ok done).
    { unfold exec_run. rewrite E. simpl. unfold collect.
      assert (G : forall l, (forall i, In i l -> In i pi) -> exists done,
                  mapM (fun i => match dict_get Nat.eqb log i with Some r => Ok r | None => Err NeverCompleted end) l = Ok done).
      { induction l as [|i l IH]; intros Hin; simpl; [eexists; reflexivity|].
        pose proof (log_get tasks log i Hlog) as Y. destruct (dict_get Nat.eqb log i).
        - destruct IH as [d Ed]; [intros; apply Hin; right; assumption|]. rewrite Ed. simpl. eexists; reflexivity.
        - exfalso. apply Y. rewrite Hfst. apply Hin. left; reflexivity. }
      apply G. intros i Hi. apply (Permutation_in _ (Permutation_sym HP)). exact Hi. }
    destruct X as [done Ed]. rewrite Ed. f_equal. eapply exec_run_aligned; eauto.
  Qed.
End ExecFacts.

(* gathering in completion order is NOT aligned *)
Lemma exec_run_as_completed_misaligned :
  exists (tasks : list nat) pi, Permutation pi (seq 0 (length tasks)) /\ exec_run_as_completed tasks pi <> Ok tasks.
Proof. exists [10; 20]%nat, [1; 0]%nat. split; [apply perm_swap|]. vm_compute. discriminate. Qed.

(* ------------------------------------------------------------------ argmin = the first minimum *)
Lemma Qltb_lt x y : Qltb x y = true <-> (x < y)%Q.
Proof.
  unfold Qltb. rewrite negb_true_iff. split.
  - intros H. apply Qnot_le_lt. intros C. apply Qle_bool_iff in C. congruence.
  - intros H. destruct (Qle_bool y x) eqn:E; [|reflexivity]. apply Qle_bool_iff in E. exfalso. eapply Qlt_not_le; eauto.
Qed.

Lemma Qltb_ge x y : Qltb x y = false <-> (y <= x)%Q.
Proof.
  unfold Qltb. rewrite negb_false_iff. apply Qle_bool_iff.
Qed.

Definition first_min (l : list Q) (bi : nat) : Prop :=
  exists bv, nth_error l bi = Some bv
             /\ (forall j v, nth_error l j = Some v -> (bv <= v)%Q)
             /\ (forall j v, (j < bi)%nat -> nth_error l j = Some v -> (bv < v)%Q).

Lemma argmin_from_spec (l : list Q) : forall (pre : list Q) best_i best,
  nth_error pre best_i = Some best ->
  (forall j v, nth_error pre j = Some v -> (best <= v)%Q) ->
  (forall j v, (j < best_i)%nat -> nth_error pre j = Some v -> (best < v)%Q) ->
  first_min (pre ++ l) (argmin_from best_i best (length pre) l).
Proof.
  induction l as [|x t IH]; intros pre bi best Hb Hle Hlt; simpl.
  - rewrite app_nil_r. exists best. auto.
  - replace (pre ++ x :: t) with ((pre ++ [x]) ++ t) by (rewrite <- app_assoc; reflexivity).
    replace (S (length pre)) with (length (pre ++ [x])) by (rewrite app_length; simpl; lia).
    destruct (Qltb x best) eqn:E.
    + apply Qltb_lt in E. apply IH.
      * rewrite nth_error_app2, Nat.sub_diag; [reflexivity|lia].
      * intros j v Hj. destruct (Nat.lt_ge_cases j (length pre)) as [L|L].
        -- rewrite nth_error_app1 in Hj by exact L. apply Qlt_le_weak. eapply Qlt_le_trans; [exact E|eauto].
        -- rewrite nth_error_app2 in Hj by exact L. destruct (j - length pre)%nat as [|k]; simpl in Hj; [inversion Hj; apply Qle_refl|destruct k; discriminate].
      * intros j v L Hj. rewrite nth_error_app1 in Hj by exact L. eapply Qlt_le_trans; [exact E|eauto].
    + apply Qltb_ge in E. apply IH.
      * rewrite nth_error_app1; [exact Hb|]. apply nth_error_Some. congruence.
      * intros j v Hj. destruct (Nat.lt_ge_cases j (length pre)) as [L|L].
        -- rewrite nth_error_app1 in Hj by exact L. eauto.
        -- rewrite nth_error_app2 in Hj by exact L. destruct (j - length pre)%nat as [|k]; simpl in Hj; [inversion Hj; subst; exact E|destruct k; discriminate].
      * intros j v L Hj. assert (L2 : (j < length pre)%nat).
        { assert ((bi < length pre)%nat) by (apply nth_error_Some; congruence). lia. }
        rewrite nth_error_app1 in Hj by exact L2. eauto.
Qed.

Lemma argmin_spec l bi : argmin l = Ok bi -> first_min l bi.
Proof.
  destruct l as [|x t]; simpl; [discriminate|]. intros H; inversion H; subst.
  apply (argmin_from_spec t [x] 0%nat x).
  - reflexivity.
  - intros [|[|j]] v Hj; simpl in Hj; try discriminate. inversion Hj. apply Qle_refl.
  - intros j v L. lia.
Qed.

(* ------------------------------------------------------------------ selection *)
Section SelectionFacts.
  Context {V : Type} (ieq : individual V -> individual V -> bool).
  Notation ind := (individual V).
  Variable ev : ind -> result Q.

  (* the result does not depend on the completion order; values[i] is the evaluator's answer for individuals[i] *)
  Theorem selection_alignment cfg (p : population V) pi s :
    Permutation pi (seq 0 (length (p_inds p))) ->
    selection_op ieq ev cfg p pi s =
    match mapM ev (p_inds p) with
    | Err e => ([], Err e)
    | Ok values => select_after_eval ieq cfg p values s
    end.
  Proof.
    intros HP. unfold selection_op. rewrite exec_run_permutation by (rewrite map_length; exact HP).
    simpl. rewrite gather_map. reflexivity.
  Qed.

  (* for EVERY completion order: if selection completes, it used values[i] = ev individuals[i] *)
  Lemma selection_values cfg (p : population V) pi s cbs r :
    selection_op ieq ev cfg p pi s = (cbs, r) ->
    (cbs = [] /\ exists e, r = Err e) \/
    (exists values, Forall2 (fun x v => ev x = Ok v) (p_inds p) values /\ select_after_eval ieq cfg p values s = (cbs, r)).
  Proof.
    unfold selection_op. destruct (exec_run (map ev (p_inds p)) pi) as [done|e] eqn:E; simpl.
    - apply exec_run_aligned in E. subst. rewrite gather_map. destruct (mapM ev (p_inds p)) as [values|e] eqn:E2.
      + intros H. right. exists values. split; [apply mapM_Forall2; exact E2|exact H].
      + intros H; inversion H; subst. left. eauto.
    - intros H; inversion H; subst. left. eauto.
  Qed.

  Lemma tournaments_spec rounds : forall size (inds : list ind) fit s sel s',
    tournaments rounds size inds fit s = Ok (sel, s') -> length sel = rounds /\ forall x, In x sel -> In x inds.
  Proof.
    induction rounds as [|r IH]; intros size inds fit s sel s'; simpl.
    - intros H; inversion H; subst. split; [reflexivity|intros ? []].
    - destruct (take_choices (length inds) None size s) as [[idxs s1]|] eqn:E1; simpl; [|discriminate].
      destruct (tournament_winner fit idxs None) as [[[bi bf]|]|] eqn:E2; simpl; try discriminate.
      destruct (nth_r inds bi) as [x|] eqn:E3; simpl; [|discriminate].
      destruct (tournaments r size inds fit s1) as [[rest s2]|] eqn:E4; simpl; [|discriminate].
      intros H; inversion H; subst. destruct (IH _ _ _ _ _ _ E4) as [A1 A2]. split; [simpl; congruence|].
      intros y [<-|Hy]; [eapply nth_r_In; eauto|auto].
  Qed.

  Theorem selection_spec cfg (p : population V) values s cbs p' :
    length values = length (p_inds p) ->
    select_after_eval ieq cfg p values s = (cbs, Ok p') ->
    (* one evaluation per individual is reported, then the result with the first minimum as best *)
    (exists bi bx bv, cbs = [CbCount (Z.of_nat (length (p_inds p))); CbResult (mkRes p values bx bv)]
                      /\ nth_error (p_inds p) bi = Some bx /\ nth_error values bi = Some bv /\ first_min values bi)
    (* the new population: same size, only individuals of the input, the representatives handed on *)
    /\ length (p_inds p') = length (p_inds p)
    /\ (forall x, In x (p_inds p') -> In x (p_inds p))
    /\ p_reps p' = p_reps p /\ p_reps p <> None /\ p_members p' = None /\ p_membership p' = None.
  Proof.
    intros Hlen. unfold select_after_eval.
    destruct (p_reps p) as [reps|]; [|intros H; inversion H].
    destruct (p_members p) as [mem|]; [|intros H; inversion H].
    destruct (p_membership p) as [ms|]; [|intros H; inversion H].
    destruct (argmin values) as [bi|] eqn:Ea; [|intros H; inversion H].
    destruct (nth_r (p_inds p) bi) as [bx|] eqn:Ex; [|intros H; inversion H].
    destruct (nth_r values bi) as [bv|] eqn:Ev; [|intros H; inversion H].
    intros H. inversion H as [[Hc Hr]]. clear H. split.
    { exists bi, bx, bv. repeat split; [apply nth_r_nth; exact Ex|apply nth_r_nth; exact Ev|apply argmin_spec; exact Ea]. }
    destruct (s_tournament cfg) as [size|].
    - destruct (fitness_all ieq cfg mem ms 0 0 (p_inds p) values) as [fit|]; simpl in Hr; [|discriminate].
      destruct (tournaments (length (p_inds p)) size (p_inds p) fit s) as [[sel s1]|] eqn:Et; simpl in Hr; [|discriminate].
      destruct s1; inversion Hr; subst; simpl. destruct (tournaments_spec _ _ _ _ _ _ _ Et) as [A1 A2].
      repeat split; auto. discriminate.
    - destruct (fitness_all ieq cfg mem ms _ 0 (p_inds p) values) as [fit|]; simpl in Hr; [|discriminate].
      destruct (mapM _ fit) as [ws|]; simpl in Hr; [|discriminate].
      destruct (Qle_bool (sumQ ws) 0); [discriminate|].
      destruct (take_choices (length (p_inds p)) (Some ws) (length (p_inds p)) s) as [[idxs s1]|] eqn:Ec; simpl in Hr; [|discriminate].
      destruct (mapM (nth_r (p_inds p)) idxs) as [sel|] eqn:Em; simpl in Hr; [|discriminate].
      destruct s1; inversion Hr; subst; simpl. apply mapM_Forall2 in Em.
      assert (Hl : length idxs = length (p_inds p)).
      { unfold take_choices in Ec. destruct s as [|[]]; try discriminate.
        destruct (_ && _ && _ && _)%bool eqn:B in Ec; [|discriminate]. inversion Ec; subst.
        apply andb_true_iff in B as [B _]. apply andb_true_iff in B as [B _]. apply andb_true_iff in B as [_ B].
        apply Nat.eqb_eq in B. exact B. }
      repeat split; auto; try discriminate.
      + rewrite <- (Forall2_length' _ _ _ Em). exact Hl.
      + intros x Hx. clear - Em Hx. induction Em; [destruct Hx|]. destruct Hx as [<-|Hx]; [eapply nth_r_In; eauto|auto].
  Qed.

  (* the documented precondition: without species information selection raises (after the evaluations) *)
  Theorem selection_needs_speciation cfg (p : population V) pi s :
    p_reps p = None \/ p_members p = None \/ p_membership p = None ->
    exists e, snd (selection_op ieq ev cfg p pi s) = Err e.
  Proof.
    intros Hn. unfold selection_op. destruct (do rs <- exec_run (map ev (p_inds p)) pi; gather rs); [|simpl; eauto].
    unfold select_after_eval. destruct (p_reps p); [|simpl; eauto]. destruct (p_members p); [|simpl; eauto].
    destruct (p_membership p); [|simpl; eauto]. destruct Hn as [H|[H|H]]; discriminate.
  Qed.
End SelectionFacts.

(* ------------------------------------------------------------------ individuals built by the constructor are valid *)
Lemma make_individual_spec {V} n ls (vs : list V) x :
  make_individual n ls vs = Ok x -> individual_is_valid x = true /\ i_qubits x = n /\ i_layers x = ls /\ i_values x = vs.
Proof.
  unfold make_individual. destruct (individual_is_valid (mkInd n ls vs)) eqn:E; [|discriminate].
  intros H; inversion H; subst. auto.
Qed.

(* ------------------------------------------------------------------ mutation contracts *)
Section MutationFacts.
  Context {V : Type} (veqb : V -> V -> bool) (zero : V).
  Notation ind := (individual V).

  (* what each kind of mutation may do to an individual *)
  Definition keeps_structure (x x' : ind) : Prop := i_qubits x' = i_qubits x /\ i_layers x' = i_layers x.

  Definition contract (k : mut_kind) (x x' : ind) : Prop :=
    i_qubits x' = i_qubits x /\ individual_is_valid x' = true /\
    match k with
    | MLastLayer | MParamSearch => i_layers x' = i_layers x
    | MTopological => exists l vs, i_layers x' = i_layers x ++ [l] /\ i_values x' = i_values x ++ vs
    | MLayerRemoval =>
        (length (i_layers x) = 1%nat /\ x' = x)
        \/ (exists suffix vs, suffix <> [] /\ i_layers x' <> [] /\ i_layers x = i_layers x' ++ suffix /\ i_values x = i_values x' ++ vs)
    end.

  Lemma optimize_layer_keeps lg x lid s x' n s' :
    individual_is_valid x = true ->
    optimize_layer veqb lg x lid s = Ok (x', n, s') -> individual_is_valid x' = true /\ keeps_structure x x'.
  Proof.
    intros Hv. unfold optimize_layer.
    destruct (Nat.eqb (length (i_layers x)) 0); [discriminate|].
    destruct (Nat.eqb (length (get_layer_parameter_values x lid)) 0).
    - destruct lg; [discriminate|]. intros H; inversion H; subst. repeat split; auto.
    - destruct s as [|[| |x0 new nfev|] rest]; try discriminate.
      destruct (list_eqb veqb x0 (get_layer_parameter_values x lid)); [|discriminate].
      unfold change_layer_parameter_values.
      destruct (negb _); simpl; [discriminate|].
      destruct (make_individual _ _ _) as [y|] eqn:E; simpl; [|discriminate].
      intros H; inversion H; subst. apply make_individual_spec in E as [A1 [A2 [A3 A4]]]. repeat split; auto.
  Qed.

  (* repaired variant: a layer without parameters is left alone (and costs nothing) *)
  Lemma optimize_layer_empty x lid s :
    i_layers x <> [] -> get_layer_parameter_values x lid = [] -> optimize_layer veqb false x lid s = Ok (x, 0, s).
  Proof.
    intros Hne He. unfold optimize_layer. destruct (i_layers x); [congruence|]. simpl. rewrite He. reflexivity.
  Qed.

  (* the last-layer search only replaces the slice of values that belongs to the layer *)
  Lemma optimize_layer_values lg x lid s x' n s' :
    optimize_layer veqb lg x lid s = Ok (x', n, s') ->
    x' = x \/ exists new, let k := wrap_layer_id x lid in
                          i_values x' = firstn (layer_offset (i_layers x) k) (i_values x) ++ new
                                        ++ skipn (layer_offset (i_layers x) k + layer_count (i_layers x) k) (i_values x).
  Proof.
    unfold optimize_layer.
    destruct (Nat.eqb (length (i_layers x)) 0); [discriminate|].
    destruct (Nat.eqb (length (get_layer_parameter_values x lid)) 0).
    - destruct lg; [discriminate|]. intros H; inversion H; subst. left; reflexivity.
    - destruct s as [|[| |x0 new nfev|] rest]; try discriminate.
      destruct (list_eqb veqb x0 (get_layer_parameter_values x lid)); [|discriminate].
      unfold change_layer_parameter_values.
      destruct (negb _); simpl; [discriminate|].
      destruct (make_individual _ _ _) as [y|] eqn:E; simpl; [|discriminate].
      intros H; inversion H; subst. apply make_individual_spec in E as [A1 [A2 [A3 A4]]]. right. exists new. exact A4.
  Qed.

  Lemma optimize_loop_keeps lg fuel : forall cur indices total s x' n s',
    individual_is_valid cur = true ->
    optimize_loop veqb lg fuel cur indices total s = Ok (x', n, s') -> individual_is_valid x' = true /\ keeps_structure cur x'.
  Proof.
    induction fuel as [|f IH]; intros cur indices total s x' n s' Hv; destruct indices as [|i0 it]; simpl;
      try (intros H; inversion H; subst; repeat split; auto; fail); try discriminate.
    destruct (t_draw _ s) as [[c s1]|] eqn:E1; simpl; [|discriminate].
    destruct (nth_r (i0 :: it) c) as [layer|] eqn:E2; simpl; [|discriminate].
    destruct (t_draw take_seed s1) as [[sd s2]|] eqn:E3; simpl; [|discriminate].
    destruct (optimize_layer veqb lg cur (Z.of_nat layer) s2) as [[[y ny] s3]|] eqn:E4; simpl; [|discriminate].
    intros H. destruct (optimize_layer_keeps _ _ _ _ _ _ _ Hv E4) as [Hy [K1 K2]].
    destruct (IH _ _ _ _ _ _ _ Hy H) as [Hx' [K3 K4]]. repeat split; auto; congruence.
  Qed.

  Lemma run_task_contract lg k x seed s x' n s' :
    individual_is_valid x = true ->
    run_task veqb zero lg k x seed s = Ok (x', n, s') -> contract k x x'.
  Proof.
    intros Hv. destruct k; simpl.
    - intros H. destruct (optimize_layer_keeps _ _ _ _ _ _ _ Hv H) as [A [B C]]. repeat split; auto.
    - unfold optimize_all. destruct (t_take_seed seed s) as [s1|]; simpl; [|discriminate].
      intros H. destruct (optimize_loop_keeps _ _ _ _ _ _ _ _ _ Hv H) as [A [B C]]. repeat split; auto.
    - unfold topological_task. destruct (t_take_seed seed s) as [s1|]; simpl; [|discriminate].
      destruct (i_layers x) as [|first rest] eqn:El; simpl; [discriminate|].
      destruct (t_draw take_seed s1) as [[sd s2]|]; simpl; [|discriminate].
      destruct s2 as [|[| | |l] rest2]; try discriminate.
      destruct (layer_wf l && Z.eqb (l_qubits l) (l_qubits first))%bool; [|discriminate].
      unfold add_layers. destruct (make_individual _ _ _) as [y|] eqn:E; simpl; [|discriminate].
      intros H; inversion H; subst. apply make_individual_spec in E as [A1 [A2 [A3 A4]]].
      repeat split; auto. exists l, (repeat zero (Z.to_nat (layer_n_parameters l))). rewrite A3, A4, El. auto.
    - unfold removal_task. destruct (Nat.eqb (length (i_layers x)) 1) eqn:E1.
      + intros H; inversion H; subst. apply Nat.eqb_eq in E1. repeat split; auto.
      + destruct (t_take_seed seed s) as [s1|]; simpl; [|discriminate].
        destruct (t_draw _ s1) as [[v s2]|]; simpl; [|discriminate].
        unfold remove_layers.
        destruct (negb (0 <? v)) eqn:B1; simpl; [discriminate|].
        destruct (negb (v <? Z.of_nat (length (i_layers x)))) eqn:B2; simpl; [discriminate|].
        destruct (make_individual _ _ _) as [y|] eqn:E; simpl; [|discriminate].
        intros H; inversion H; subst. apply make_individual_spec in E as [A1 [A2 [A3 A4]]].
        apply negb_false_iff in B1, B2. apply Z.ltb_lt in B1, B2.
        repeat split; auto. right.
        set (keep := Z.to_nat (Z.of_nat (length (i_layers x)) - v)) in *.
        assert (Hk : (0 < keep < length (i_layers x))%nat) by (unfold keep; lia).
        exists (skipn keep (i_layers x)), (skipn (layer_offset (i_layers x) keep) (i_values x)). repeat split.
        * intros C. assert (L : length (skipn keep (i_layers x)) = 0%nat) by (rewrite C; reflexivity). rewrite skipn_length in L. lia.
        * rewrite A3. intros C. assert (L : length (firstn keep (i_layers x)) = 0%nat) by (rewrite C; reflexivity). rewrite firstn_length in L. lia.
        * rewrite A3. symmetry. apply firstn_skipn.
        * rewrite A4. symmetry. apply firstn_skipn.
  Qed.

  (* ---------------------------------------------------------------- the operator *)
  Lemma submit_all_spec p (xs : list ind) : forall i s subs s',
    submit_all p i xs s = Ok (subs, s') ->
    forall j x seed, In (j, x, seed) subs -> (i <= j)%nat /\ nth_error xs (j - i) = Some x.
  Proof.
    induction xs as [|x0 t IH]; intros i s subs s'; simpl.
    - intros H; inversion H; subst. intros ? ? ? [].
    - destruct (take_random s) as [[r s1]|]; simpl; [|discriminate].
      destruct (Qle_bool r p).
      + destruct (take_seed s1) as [[sd s2]|]; simpl; [|discriminate].
        destruct (submit_all p (S i) t s2) as [[rest s3]|] eqn:E; simpl; [|discriminate].
        intros H; inversion H; subst. intros j x seed [X|X].
        * inversion X; subst. split; [lia|]. rewrite Nat.sub_diag. reflexivity.
        * destruct (IH _ _ _ _ E j x seed X) as [A B]. split; [lia|].
          replace (j - i)%nat with (S (j - S i)) by lia. exact B.
      + intros H j x seed X. destruct (IH _ _ _ _ H j x seed X) as [A B]. split; [lia|].
        replace (j - i)%nat with (S (j - S i)) by lia. exact B.
  Qed.

  (* per-task seeds are drawn in submission order: the seeds of the submitted tasks are, in order, the values of
     the randint draws of the consumed stream, and the tasks are in population order *)
  Fixpoint randints (s : ostream) : list Z :=
    match s with
    | [] => []
    | KRandint _ _ v :: t => v :: randints t
    | _ :: t => randints t
    end.

  Lemma submit_all_seeds p (xs : list ind) : forall i s subs s',
    submit_all p i xs s = Ok (subs, s') ->
    exists used, s = used ++ s' /\ map snd subs = randints used /\ StronglySorted lt (map (fun t => fst (fst t)) subs)
                 /\ Forall (fun t => (i <= fst (fst t))%nat) subs.
  Proof.
    induction xs as [|x0 t IH]; intros i s subs s'; simpl.
    - intros H; inversion H; subst. exists []. repeat split; constructor.
    - unfold take_random. destruct s as [|[| |q| |] s0]; simpl; try discriminate.
      destruct (Qle_bool 0 q && negb (Qle_bool 1 q))%bool; simpl; [|discriminate].
      destruct (Qle_bool q p).
      + unfold take_seed, take_randint. destruct s0 as [|[| | |lo hi v|] s1]; simpl; try discriminate.
        destruct (_ && _ && _ && _)%bool; simpl; [|discriminate].
        destruct (submit_all p (S i) t s1) as [[rest s3]|] eqn:E; simpl; [|discriminate].
        intros H; inversion H; subst. destruct (IH _ _ _ _ E) as [used [A [B [C D]]]].
        exists (KRandom q :: KRandint lo hi v :: used). subst. repeat split; simpl; try congruence.
        * constructor; [exact C|]. apply Forall_map. eapply Forall_impl; [|exact D]. intros [[j y] sd] L. simpl in *. lia.
        * constructor; [simpl; lia|]. eapply Forall_impl; [|exact D]. intros [[j y] sd] L. simpl in *. lia.
      + intros H. destruct (IH _ _ _ _ H) as [used [A [B [C D]]]]. exists (KRandom q :: used). subst. repeat split; auto.
        eapply Forall_impl; [|exact D]. intros [[j y] sd] L. simpl in *. lia.
  Qed.

  Lemma zip_tasks_spec lg k subs : forall tls tasks,
    zip_tasks veqb zero lg k subs tls = Ok tasks ->
    Forall2 (fun sb t => exists tl, t = task_result veqb zero lg k sb tl) subs tasks.
  Proof.
    induction subs as [|sb st IH]; intros [|tl tlt] tasks; simpl; try discriminate.
    - intros H; inversion H; constructor.
    - destruct (zip_tasks veqb zero lg k st tlt) as [rest|] eqn:E; simpl; [|discriminate].
      intros H; inversion H; subst. constructor; [eexists; reflexivity|]. eapply IH; eauto.
  Qed.

  Lemma zip_tasks_length lg k subs : forall tls tasks,
    zip_tasks veqb zero lg k subs tls = Ok tasks -> length tasks = length tls.
  Proof.
    induction subs as [|sb st IH]; intros [|tl tlt] tasks; simpl; try discriminate.
    - intros H; inversion H; reflexivity.
    - destruct (zip_tasks veqb zero lg k st tlt) eqn:E; simpl; [|discriminate]. intros H; inversion H; subst. simpl. f_equal. eapply IH; eauto.
  Qed.

  Lemma task_result_contract lg k i x seed tl x' n :
    individual_is_valid x = true -> task_result veqb zero lg k (i, x, seed) tl = Ok (x', n) -> contract k x x'.
  Proof.
    intros Hv. unfold task_result. destruct (negb _); [discriminate|].
    destruct (run_task veqb zero lg k x seed (t_items tl)) as [[[y m] rest]|] eqn:E; simpl; [|discriminate].
    destruct rest; [|discriminate]. intros H; inversion H; subst. eapply run_task_contract; eauto.
  Qed.

  Lemma write_back_spec (R : ind -> ind -> Prop) (orig : list ind) subs : forall cur rs total inds' total',
    Forall2 R orig cur ->
    Forall2 (fun sb r => forall x, nth_error orig (fst (fst sb)) = Some x -> R x (fst r)) subs rs ->
    (forall j x seed, In (j, x, seed) subs -> nth_error orig j = Some x) ->
    write_back cur subs rs total = Ok (inds', total') -> Forall2 R orig inds'.
  Proof.
    induction subs as [|[[j x] seed] st IH]; intros cur rs total inds' total' HF HR Hin; destruct rs as [|[x' n] rt]; simpl; try discriminate.
    - intros H; inversion H; subst. exact HF.
    - destruct (set_nth cur j x') as [cur1|] eqn:E; simpl; [|discriminate].
      inversion HR as [|sb0 r0 st0 rt0 Hhead Htail]; subst.
      intros H. eapply IH; [| exact Htail | intros; eapply Hin; right; eauto | exact H].
      assert (Hx : nth_error orig j = Some x) by (apply (Hin j x seed); left; reflexivity).
      eapply set_nth_Forall2; [exact HF|exact Hx|apply (Hhead x Hx)|exact E].
  Qed.

  (* C10_mutation_contracts: for EVERY completion order, every individual of the result is either the very
     individual of the input at that index or what the operator's mutation made of the individual AT THAT INDEX *)
  Theorem mutation_contracts lg k prob (p : population V) pi s tls cbs p' :
    Forall (fun x => individual_is_valid x = true) (p_inds p) ->
    mutation_op veqb zero lg k prob p pi s tls = (cbs, Ok p') ->
    Forall2 (fun x x' => x' = x \/ contract k x x') (p_inds p) (p_inds p')
    /\ p_reps p' = p_reps p /\ p_members p' = None /\ p_membership p' = None
    /\ exists total, cbs = [CbCount total].
  Proof.
    intros Hv. unfold mutation_op.
    destruct (submit_all prob 0 (p_inds p) s) as [[subs s1]|] eqn:Es; simpl; [|intros H; inversion H].
    destruct s1; simpl; [|intros H; inversion H].
    destruct (zip_tasks veqb zero lg k subs tls) as [tasks|] eqn:Ez; simpl; [|intros H; inversion H].
    destruct (exec_run tasks pi) as [done|] eqn:Ee; simpl; [|intros H; inversion H].
    apply exec_run_aligned in Ee. subst done.
    destruct (gather tasks) as [rs|] eqn:Eg; simpl; [|intros H; inversion H].
    destruct (write_back (p_inds p) subs rs 0) as [[inds' total]|] eqn:Ew; simpl; [|intros H; inversion H].
    intros H; inversion H; subst; simpl. split; [|repeat split; eauto].
    pose proof (submit_all_spec _ _ _ _ _ _ Es) as Hsub.
    assert (Hnth : forall j x seed, In (j, x, seed) subs -> nth_error (p_inds p) j = Some x).
    { intros j x seed X. destruct (Hsub j x seed X) as [_ Y]. rewrite Nat.sub_0_r in Y. exact Y. }
    eapply write_back_spec; [| |exact Hnth|exact Ew].
    - clear. induction (p_inds p); constructor; auto.
    - apply zip_tasks_spec in Ez. unfold gather in Eg. apply mapM_Forall2 in Eg.
      clear - Ez Eg Hnth Hv. revert rs Eg Hnth. induction Ez as [|[[j x] seed] t st tt [tl Et] _ IH]; intros rs Eg Hnth; inversion Eg; subst; constructor.
      + intros x0 Hx0. simpl in Hx0. rewrite (Hnth j x seed (or_introl eq_refl)) in Hx0. inversion Hx0; subst x0.
        right. destruct y as [x' n]. simpl. eapply task_result_contract; [|exact H1].
        rewrite Forall_forall in Hv. apply Hv. eapply nth_error_In. apply (Hnth j x seed). left; reflexivity.
      + apply IH; [assumption|]. intros; eapply Hnth; right; eauto.
  Qed.

  (* the result does not depend on the completion order *)
  Theorem mutation_order_independent lg k prob (p : population V) pi1 pi2 s tls m :
    Permutation pi1 (seq 0 m) -> Permutation pi2 (seq 0 m) -> length tls = m ->
    mutation_op veqb zero lg k prob p pi1 s tls = mutation_op veqb zero lg k prob p pi2 s tls.
  Proof.
    intros H1 H2 Hm. unfold mutation_op.
    destruct (submit_all prob 0 (p_inds p) s) as [[subs s1]|]; simpl; [|reflexivity].
    destruct s1; simpl; [|reflexivity].
    destruct (zip_tasks veqb zero lg k subs tls) as [tasks|] eqn:Ez; simpl; [|reflexivity].
    assert (L : length tasks = m) by (rewrite <- Hm; eapply zip_tasks_length; eauto).
    rewrite !exec_run_permutation by (rewrite L; assumption). reflexivity.
  Qed.
End MutationFacts.

(* the legacy variant (optimize_layer_of_individual without the early return) raises on a layer without parameters:
   one qubit, layers rotation / identity, last-layer search with probability 1 *)
Definition legacy_witness : population Z :=
  mkPop [mkInd 1 [mkLayer 1 [GRot 0]; mkLayer 1 [GId 0]] [7; 8; 9]] None None None.
Definition legacy_witness_stream : ostream := [KRandom (1 # 2); KRandint 0 SEED_MAX 42].
Definition legacy_witness_tasks : list (task_log Z) := [mkTask 0 42 []].

Lemma legacy_empty_layer_refuted :
  pop_valid 1 legacy_witness = true
  /\ mutation_op Z.eqb 0 true MLastLayer 1 legacy_witness [0%nat] legacy_witness_stream legacy_witness_tasks = ([], Err "ValueError"%string)
  /\ mutation_op Z.eqb 0 false MLastLayer 1 legacy_witness [0%nat] legacy_witness_stream legacy_witness_tasks
     = ([CbCount 0], Ok legacy_witness).
Proof. vm_compute. repeat split. Qed.

(* ------------------------------------------------------------------ validity is preserved by every operator *)
Section Closure.
  Context {V : Type} (veqb : V -> V -> bool) (ieq : individual V -> individual V -> bool) (zero : V).
  Hypothesis ieq_refl : forall x, ieq x x = true.
  Hypothesis ieq_sym : forall x y, ieq x y = true -> ieq y x = true.
  Hypothesis ieq_trans : forall x y z, ieq x y = true -> ieq y z = true -> ieq x z = true.
  Notation ind := (individual V).
  Variable ev : ind -> result Q.
  Variable lg : bool.

  Definition good (n : Z) (x : ind) : Prop := individual_is_valid x = true /\ i_qubits x = n.

  Lemma pop_valid_Forall n (p : population V) : pop_valid n p = true <-> Forall (good n) (p_inds p).
  Proof.
    unfold pop_valid, good. rewrite forallb_forall, Forall_forall. split; intros H x Hx; specialize (H x Hx).
    - apply andb_true_iff in H as [A B]. apply Z.eqb_eq in B. auto.
    - destruct H as [A B]. rewrite A. apply Z.eqb_eq in B. rewrite B. reflexivity.
  Qed.

  Theorem op_size_valid n o lgs (p : population V) cbs p' :
    pop_valid n p = true -> run_op veqb ieq zero ev lg o lgs p = (cbs, Ok p') ->
    pop_valid n p' = true /\ length (p_inds p') = length (p_inds p).
  Proof.
    intros Hv. rewrite pop_valid_Forall in *. destruct o as [thr|cfg|k prob]; simpl.
    - unfold speciation_op. intros H; inversion H as [[Hc Hr]]; clear H.
      destruct (speciate ieq thr p (g_stream lgs)) as [[[q ext] rest]|] eqn:E; simpl in Hr; [|discriminate].
      destruct rest; inversion Hr; subst.
      destruct (speciation_partition ieq ieq_refl ieq_sym ieq_trans _ _ _ _ _ _ E) as [mem [ms [A _]]]. rewrite A. auto.
    - intros H. destruct (selection_values ieq ev _ _ _ _ _ _ H) as [[_ [e X]]|[values [F S]]]; [discriminate|].
      destruct (selection_spec ieq _ _ _ _ _ _ (eq_sym (Forall2_length' _ _ _ F)) S) as [_ [A [B _]]].
      split; [|exact A]. rewrite Forall_forall in *. intros x Hx. apply Hv. apply B. exact Hx.
    - intros H.
      assert (Hvv : Forall (fun x => individual_is_valid x = true) (p_inds p)) by (eapply Forall_impl; [|exact Hv]; intros x [A _]; exact A).
      destruct (mutation_contracts veqb zero lg k prob p _ _ _ _ _ Hvv H) as [F _].
      split; [|symmetry; eapply Forall2_length'; eauto].
      clear - F Hv. induction F; [constructor|]. inversion Hv; subst. constructor; [|auto].
      destruct H as [->|[A [B _]]]; [assumption|]. destruct H2. split; congruence.
  Qed.

  (* closure under operator sequences: every population produced along the way is valid, of the same size, on the same qubits *)
  Theorem seq_size_valid n steps : forall (p : population V),
    pop_valid n p = true ->
    Forall (fun oc => forall p', snd oc = Ok p' -> pop_valid n p' = true /\ length (p_inds p') = length (p_inds p))
           (run_seq veqb ieq zero ev lg steps p).
  Proof.
    induction steps as [|[o lgs] t IH]; intros p Hv; simpl; [constructor|].
    destruct (run_op veqb ieq zero ev lg o lgs p) as [cbs r] eqn:E. constructor.
    - simpl. intros p' Hr. subst r. eapply op_size_valid; eauto.
    - simpl. destruct r as [p1|]; [|constructor].
      destruct (op_size_valid _ _ _ _ _ _ Hv E) as [Hv1 Hl1].
      eapply Forall_impl; [|apply IH; exact Hv1]. intros oc H p' Hp'. destruct (H p' Hp'). split; [assumption|congruence].
  Qed.

  (* selection and mutation hand on a population WITHOUT species member information ... *)
  Lemma op_clears_members o lgs (p : population V) cbs p' :
    run_op veqb ieq zero ev lg o lgs p = (cbs, Ok p') ->
    match o with OSpeciation _ => p_members p' <> None | _ => p_members p' = None end.
  Proof.
    destruct o as [thr|cfg|k prob]; simpl.
    - unfold speciation_op. intros H; inversion H as [[Hc Hr]]; clear H.
      destruct (speciate ieq thr p (g_stream lgs)) as [[[q ext] rest]|] eqn:E; simpl in Hr; [|discriminate].
      destruct rest; inversion Hr; subst.
      destruct (speciation_partition ieq ieq_refl ieq_sym ieq_trans _ _ _ _ _ _ E) as [mem [ms [_ [A _]]]]. rewrite A. discriminate.
    - intros H. destruct (selection_values ieq ev _ _ _ _ _ _ H) as [[_ [e X]]|[values [F S]]]; [discriminate|].
      destruct (selection_spec ieq _ _ _ _ _ _ (eq_sym (Forall2_length' _ _ _ F)) S) as [_ [_ [_ [_ [_ [A _]]]]]]. exact A.
    - unfold mutation_op. destruct (do sb <- submit_all prob 0 (p_inds p) (g_stream lgs); _) as [[i t]|]; intros H; inversion H; reflexivity.
  Qed.

  (* ... so a selection that is not directly preceded by a speciation raises: the documented precondition *)
  Theorem seq_selection_needs_speciation o1 lg1 cfg lg2 rest (p : population V) :
    (match o1 with OSpeciation _ => False | _ => True end) ->
    forall ocs, run_seq veqb ieq zero ev lg ((o1, lg1) :: (OSelection cfg, lg2) :: rest) p = ocs ->
    match ocs with
    | [oc1] => exists e, snd oc1 = Err e
    | [oc1; oc2] => exists e, snd oc2 = Err e
    | _ => False
    end.
  Proof.
    intros Hn ocs <-. simpl. destruct (run_op veqb ieq zero ev lg o1 lg1 p) as [cbs r] eqn:E. simpl.
    destruct r as [p1|e]; [|eauto].
    pose proof (op_clears_members _ _ _ _ _ E) as Hm. destruct o1; [contradiction| |];
      (destruct (selection_needs_speciation ieq ev cfg p1 (g_pi lg2) (g_stream lg2) (or_intror (or_introl Hm))) as [e He];
       destruct (selection_op ieq ev cfg p1 (g_pi lg2) (g_stream lg2)) as [c2 r2]; simpl in *; subst; eauto).
  Qed.
End Closure.

(* ------------------------------------------------------------------ the implementation's `==` is an equivalence *)
Lemma gate_heq_refl g : gate_heq g g = true.
Proof. destruct g; simpl; rewrite ?Z.eqb_refl; reflexivity. Qed.
Lemma gate_heq_sym a b : gate_heq a b = true -> gate_heq b a = true.
Proof. destruct a, b; simpl; try discriminate; rewrite ?andb_true_iff, ?Z.eqb_eq; intuition congruence. Qed.
Lemma gate_heq_trans a b c : gate_heq a b = true -> gate_heq b c = true -> gate_heq a c = true.
Proof. destruct a, b, c; simpl; try discriminate; rewrite ?andb_true_iff, ?Z.eqb_eq; intuition congruence. Qed.

Section ListEq.
  Context {A : Type} (eqb : A -> A -> bool).
  Lemma list_eqb_refl : (forall x, eqb x x = true) -> forall l, list_eqb eqb l l = true.
  Proof. intros H l; induction l; simpl; [reflexivity|]. rewrite H, IHl. reflexivity. Qed.
  Lemma list_eqb_sym : (forall x y, eqb x y = true -> eqb y x = true) -> forall l m, list_eqb eqb l m = true -> list_eqb eqb m l = true.
  Proof.
    intros H l; induction l as [|a l IH]; intros [|b m]; simpl; try discriminate; [reflexivity|].
    rewrite !andb_true_iff. intros [X Y]. split; [apply H; exact X|apply IH; exact Y].
  Qed.
  Lemma list_eqb_trans : (forall x y z, eqb x y = true -> eqb y z = true -> eqb x z = true) ->
    forall l m n, list_eqb eqb l m = true -> list_eqb eqb m n = true -> list_eqb eqb l n = true.
  Proof.
    intros H l; induction l as [|a l IH]; intros [|b m] [|c n]; simpl; try discriminate; [reflexivity|].
    rewrite !andb_true_iff. intros [X Y] [X2 Y2]. split; [eapply H; eauto|eapply IH; eauto].
  Qed.
End ListEq.

Lemma layer_heq_refl l : layer_heq l l = true.
Proof. unfold layer_heq. rewrite Z.eqb_refl, list_eqb_refl; [reflexivity|apply gate_heq_refl]. Qed.
Lemma layer_heq_sym a b : layer_heq a b = true -> layer_heq b a = true.
Proof.
  unfold layer_heq. rewrite !andb_true_iff, !Z.eqb_eq. intros [X Y]. split; [congruence|].
  apply list_eqb_sym; [apply gate_heq_sym|exact Y].
Qed.
Lemma layer_heq_trans a b c : layer_heq a b = true -> layer_heq b c = true -> layer_heq a c = true.
Proof.
  unfold layer_heq. rewrite !andb_true_iff, !Z.eqb_eq. intros [X Y] [X2 Y2]. split; [congruence|].
  eapply list_eqb_trans; [apply gate_heq_trans|exact Y|exact Y2].
Qed.

Section Heq.
  Context {V : Type} (veqb : V -> V -> bool).
  Hypothesis v_refl : forall x, veqb x x = true.
  Hypothesis v_sym : forall x y, veqb x y = true -> veqb y x = true.
  Hypothesis v_trans : forall x y z, veqb x y = true -> veqb y z = true -> veqb x z = true.

  Lemma individual_heq_refl x : individual_heq veqb x x = true.
  Proof.
    unfold individual_heq. rewrite Z.eqb_refl, !list_eqb_refl; auto. apply layer_heq_refl.
  Qed.
  Lemma individual_heq_sym x y : individual_heq veqb x y = true -> individual_heq veqb y x = true.
  Proof.
    unfold individual_heq. rewrite !andb_true_iff, !Z.eqb_eq. intros [[A B] C]. repeat split; [congruence| |].
    - apply list_eqb_sym; [apply layer_heq_sym|exact B].
    - apply list_eqb_sym; [apply v_sym|exact C].
  Qed.
  Lemma individual_heq_trans x y z : individual_heq veqb x y = true -> individual_heq veqb y z = true -> individual_heq veqb x z = true.
  Proof.
    unfold individual_heq. rewrite !andb_true_iff, !Z.eqb_eq. intros [[A B] C] [[A2 B2] C2]. repeat split; [congruence| |].
    - eapply list_eqb_trans; [apply layer_heq_trans|exact B|exact B2].
    - eapply list_eqb_trans; [apply v_trans|exact C|exact C2].
  Qed.
End Heq.

(* it is strictly coarser than structural equality: two different circuits that compare equal *)
Lemma heq_identifies_different_individuals :
  exists a b : individual Z,
    individual_is_valid a = true /\ individual_is_valid b = true
    /\ individual_eqb Z.eqb a b = false /\ individual_heq Z.eqb a b = true /\ genetic_distance a b = 1.
Proof.
  exists (mkInd 2 [mkLayer 2 [GId 0; GRot 1]] [0; 0; 0]), (mkInd 2 [mkLayer 2 [GRot 0; GId 1]] [0; 0; 0]).
  vm_compute. repeat split.
Qed.
