(* C11_history_stable for the solver loop: the operator sequence is the one _solve_by_evolution produces
   (Solver/Loop.v: limit checks, break, callbacks, termination criterion, arbitrary estimates), the operators are
   the EVQE operators on the heap (Evqe/Heap.v, repaired variant).  Every entry of the history stored in the solver
   result dereferences, in the heap at the end of the run, to the population it denoted when result_callback was
   called.  Each history entry carries (as ghost data) the heap of the moment it was reported. *)
From QV Require Import Evqe.Heap Evqe.Heap_proofs Solver.Loop.
Open Scope Z_scope.

(* ------------------------------------------------------------------ a generic invariant of the solver loop *)
Section LoopInvariant.
  Variables Ind R Pop Op W Init Dist AuxEv AV : Type.
  Variable best_value : R -> Q.
  Variable best_ind : R -> Ind.
  Notation ls := (ls Ind R Pop Op W).
  Notation config := (config Ind R Op Init AuxEv).
  Notation world := (world Ind R Pop Op W Init Dist AuxEv AV).

  Variable Ext : W -> W -> Prop.            (* the world only grows *)
  Variable Good : W -> R -> Prop.           (* a history entry is meaningful in a world *)
  Variable PopOk : W -> Pop -> Prop.        (* the current population is meaningful in a world *)
  Hypothesis Good_mono : forall w w' r, Ext w w' -> Good w r -> Good w' r.
  Hypothesis PopOk_mono : forall w w' p, Ext w w' -> PopOk w p -> PopOk w' p.

  Variable wd : world.
  Hypothesis apply_ok : forall op w pop evs r w2,
    PopOk w pop -> w_apply _ _ _ _ _ _ _ _ _ wd op w pop = (evs, r, w2) ->
    Ext w w2 /\ (forall x, In (Result x) evs -> Good w2 x) /\ (forall p, r = Ok p -> PopOk w2 p).
  Hypothesis estimate_ok : forall op w pop est w1, w_estimate _ _ _ _ _ _ _ _ _ wd op w pop = (est, w1) -> Ext w w1.

  Definition LI (s : ls) : Prop :=
    PopOk (l_w _ _ _ _ _ s) (l_pop _ _ _ _ _ s) /\ Forall (Good (l_w _ _ _ _ _ s)) (st_hist _ _ (l_st _ _ _ _ _ s)).

  Lemma do_event_hist (cfg : config) (s : ls) (e : event R) :
    let s' := do_event Ind R Pop Op W Init AuxEv best_value best_ind cfg s e in
    l_w _ _ _ _ _ s' = l_w _ _ _ _ _ s /\ l_pop _ _ _ _ _ s' = l_pop _ _ _ _ _ s
    /\ (st_hist _ _ (l_st _ _ _ _ _ s') = st_hist _ _ (l_st _ _ _ _ _ s)
        \/ exists r, e = Result r /\ st_hist _ _ (l_st _ _ _ _ _ s') = st_hist _ _ (l_st _ _ _ _ _ s) ++ [r]).
  Proof.
    unfold do_event. destruct (l_err _ _ _ _ _ s); [simpl; auto|].
    destruct e as [n|r]; simpl.
    - unfold circuit_evaluation_callback. simpl.
      destruct (Nat.ltb _ _); simpl; [auto|].
      destruct (add_at _ _ _); simpl; auto.
    - unfold result_callback. simpl.
      destruct (st_best_ind _ _ (l_st _ _ _ _ _ s)) as [i|]; destruct (st_best_val _ _ (l_st _ _ _ _ _ s)) as [v|];
        try destruct (Qltb _ _); destruct (cfg_criterion _ _ _ _ _ cfg); simpl; eauto 6.
  Qed.

  Lemma fold_events (cfg : config) evs : forall (s : ls),
    let s' := fold_left (do_event Ind R Pop Op W Init AuxEv best_value best_ind cfg) evs s in
    l_w _ _ _ _ _ s' = l_w _ _ _ _ _ s /\ l_pop _ _ _ _ _ s' = l_pop _ _ _ _ _ s
    /\ exists added, st_hist _ _ (l_st _ _ _ _ _ s') = st_hist _ _ (l_st _ _ _ _ _ s) ++ added
                     /\ forall x, In x added -> In (Result x) evs.
  Proof.
    induction evs as [|e t IH]; intros s; simpl.
    - repeat split; auto. exists []. rewrite app_nil_r. split; [reflexivity|intros ? []].
    - destruct (do_event_hist cfg s e) as [A [B C]]. destruct (IH (do_event Ind R Pop Op W Init AuxEv best_value best_ind cfg s e)) as [A2 [B2 [added [C2 D2]]]].
      split; [congruence|]. split; [congruence|]. destruct C as [C|[r [-> C]]].
      + exists added. split; [congruence|]. intros x Hx. right. auto.
      + exists (r :: added). split; [rewrite C2, C, <- app_assoc; reflexivity|]. intros x [<-|Hx]; [left; reflexivity|right; auto].
  Qed.

  Lemma for_ops_LI (cfg : config) ops : forall (s : ls), LI s -> LI (for_ops _ _ _ _ _ _ _ _ _ best_value best_ind cfg wd ops s).
  Proof.
    induction ops as [|op rest IH]; intros s [HP HH]; simpl; [split; assumption|].
    destruct (l_err _ _ _ _ _ s); [split; assumption|].
    destruct (w_estimate _ _ _ _ _ _ _ _ _ wd op (l_w _ _ _ _ _ s) (l_pop _ _ _ _ _ s)) as [est w1] eqn:Ee.
    pose proof (estimate_ok _ _ _ _ _ Ee) as X1.
    destruct (limit_checks _ _ _ _ _ cfg (l_st _ _ _ _ _ s) est).
    - split; simpl; [eapply PopOk_mono; eauto|eapply Forall_impl; [|exact HH]; intros; eapply Good_mono; eauto].
    - simpl. destruct (w_apply _ _ _ _ _ _ _ _ _ wd op w1 (l_pop _ _ _ _ _ s)) as [[evs rpop] w2] eqn:Ea.
      destruct (apply_ok _ _ _ _ _ _ (PopOk_mono _ _ _ X1 HP) Ea) as [X2 [X3 X4]].
      match goal with |- context [fold_left ?f evs ?s0] => destruct (fold_events cfg evs s0) as [A [B [added [C D]]]]; set (s3 := fold_left f evs s0) in * end.
      simpl in A, B, C.
      assert (L3 : Forall (Good w2) (st_hist _ _ (l_st _ _ _ _ _ s3))).
      { rewrite C. apply Forall_app. split.
        - eapply Forall_impl; [|exact HH]. intros r Hr. eapply Good_mono; [exact X2|]. eapply Good_mono; [exact X1|exact Hr].
        - apply Forall_forall. intros x Hx. apply X3. apply D. exact Hx. }
      destruct (l_err _ _ _ _ _ s3) eqn:E3.
      + split; [rewrite A, B; simpl; eapply PopOk_mono; [exact X2|eapply PopOk_mono; eauto]|rewrite A; exact L3].
      + destruct rpop as [p|x].
        * apply IH. split; simpl; [rewrite A; apply X4; reflexivity|rewrite A; exact L3].
        * split; simpl; [rewrite A, B; simpl; eapply PopOk_mono; [exact X2|eapply PopOk_mono; eauto]|rewrite A; exact L3].
  Qed.

  Lemma while_LI (cfg : config) fuel : forall (s : ls), LI s -> LI (while_loop _ _ _ _ _ _ _ _ _ best_value best_ind cfg wd fuel s).
  Proof.
    induction fuel as [|f IH]; intros s H; simpl; destruct (l_err _ _ _ _ _ s); auto;
      destruct (st_term _ _ (l_st _ _ _ _ _ s)); auto.
    apply IH. apply for_ops_LI. exact H.
  Qed.

  Theorem run_LI (cfg : config) fuel :
    PopOk (w_init _ _ _ _ _ _ _ _ _ wd) (w_pop0 _ _ _ _ _ _ _ _ _ wd) ->
    LI (run _ _ _ _ _ _ _ _ _ best_value best_ind cfg wd fuel).
  Proof. intros H. unfold run. apply while_LI. split; simpl; [exact H|constructor]. Qed.
End LoopInvariant.

(* ------------------------------------------------------------------ the EVQE operators as the world of the loop *)
Section EvqeWorld.
  Context {V : Type} (veqb : V -> V -> bool) (ieq : individual V -> individual V -> bool) (zero : V).
  Notation ind := (individual V).
  Variable ev : ind -> result Q.
  Variable lg : bool.
  Notation heap := (heap (V := V)).
  Notation hpop := (hpop (V := V)).

  (* an evaluation result as the solver stores it, with the heap of the moment it was reported (ghost) *)
  Record hres := mkHres { hr_at : heap; hr_pop : hpop; hr_values : list Q; hr_best : ind; hr_best_value : Q }.

  (* the world: the heap and the logs of the applications still to come (one per apply_operator call) *)
  Definition eworld : Type := (heap * list (oplog V))%type.

  Definition to_event (h : heap) (c : hcallback (V := V)) : event hres :=
    match c with
    | HCount n => EvalCount n
    | HResult hp vs b bv => Result (mkHres h hp vs b bv)
    end.

  Definition e_apply (o : op) (w : eworld) (pop : hpop) : list (event hres) * result hpop * eworld :=
    let lgs := match snd w with l :: _ => l | [] => mkLog [] [] [] end in
    let '(h', cbs, r) := apply_h veqb ieq zero ev lg false o lgs (fst w) pop in
    (map (to_event h') cbs, r, (h', tl (snd w))).

  Variable estimate : op -> hpop -> option Z.     (* get_n_expected_circuit_evaluations: arbitrary *)
  Variables Init Dist AuxEv AV : Type.
  Variable measure : option Init -> ind -> Dist.
  Variable aux_eval : AuxEv -> ind -> AV.

  Definition evqe_world (h0 : heap) (pop0 : hpop) (logs : list (oplog V)) : world ind hres hpop op eworld Init Dist AuxEv AV :=
    Build_world ind hres hpop op eworld Init Dist AuxEv AV
      e_apply (fun o w pop => (estimate o pop, w)) measure aux_eval pop0 (h0, logs).

  Definition w_ext (w w' : eworld) : Prop := exists ext, fst w' = fst w ++ ext.
  Definition w_good (w : eworld) (r : hres) : Prop := hp_ok (hr_at r) (hr_pop r) /\ exists ext, fst w = hr_at r ++ ext.
  Definition w_popok (w : eworld) (p : hpop) : Prop := hp_ok (fst w) p.

  (* for every configuration of the solver (operators in any order and number, limits, termination criterion), every
     estimate function, every supply of logs, every fuel: each history entry dereferences in the final heap to the
     population it denoted when it was reported *)
  Theorem solver_history_stable (cfg : config ind hres op Init AuxEv) (h0 : heap) (pop0 : hpop) logs fuel :
    hp_ok h0 pop0 ->
    let s := run ind hres hpop op eworld Init Dist AuxEv AV hr_best_value hr_best cfg (evqe_world h0 pop0 logs) fuel in
    forall r, In r (st_hist _ _ (l_st _ _ _ _ _ s)) ->
              deref (fst (l_w _ _ _ _ _ s)) (hr_pop r) = deref (hr_at r) (hr_pop r).
  Proof.
    intros Hok s r Hr.
    assert (LIs : LI ind hres hpop op eworld w_good w_popok s).
    { apply run_LI with (Ext := w_ext).
      - intros w w' x [ext E] [A [e1 B]]. split; [exact A|]. exists (e1 ++ ext). rewrite E, B, app_assoc. reflexivity.
      - intros w w' p [ext E] A. unfold w_popok in *. rewrite E. apply hp_ok_extend. exact A.
      - intros o w pop evs rr w2 Hp. simpl. unfold e_apply.
        destruct (apply_h veqb ieq zero ev lg false o _ (fst w) pop) as [[h' cbs] r0] eqn:E.
        destruct (apply_h_repaired _ _ _ _ _ _ _ _ _ _ _ _ Hp E) as [[ext X1] [X2 X3]].
        intros H; inversion H; subst. split; [exists ext; reflexivity|]. split.
        + intros x Hx. apply in_map_iff in Hx as [c [Ec Hc]]. specialize (X3 c Hc). destruct c; simpl in Ec; [discriminate|].
          inversion Ec; subst. split; simpl; [apply hp_ok_extend; exact Hp|exists []; rewrite app_nil_r; reflexivity].
        + intros p Hp2. apply X2. exact Hp2.
      - intros o w pop est w1. simpl. intros H; inversion H; subst. exists []. rewrite app_nil_r. reflexivity.
      - exact Hok. }
    destruct LIs as [_ LH]. rewrite Forall_forall in LH. destruct (LH r Hr) as [A [ext E]].
    rewrite E. apply deref_extend. exact A.
  Qed.

  (* ... in particular the history inside the solver result *)
  Corollary solver_result_history_stable (cfg : config ind hres op Init AuxEv) (h0 : heap) (pop0 : hpop) logs fuel res :
    hp_ok h0 pop0 ->
    let wd := evqe_world h0 pop0 logs in
    let s := run ind hres hpop op eworld Init Dist AuxEv AV hr_best_value hr_best cfg wd fuel in
    finish ind hres hpop op eworld Init Dist AuxEv AV cfg wd s = Ok res ->
    forall r, In r (sr_history _ _ _ _ _ res) -> deref (fst (l_w _ _ _ _ _ s)) (hr_pop r) = deref (hr_at r) (hr_pop r).
  Proof.
    intros Hok wd s Hf r Hr. apply (solver_history_stable cfg h0 pop0 logs fuel Hok).
    unfold finish in Hf. destruct (l_err _ _ _ _ _ s); [discriminate|].
    destruct (st_best_ind _ _ (l_st _ _ _ _ _ s)); [|discriminate]. destruct (st_best_val _ _ (l_st _ _ _ _ _ s)); [|discriminate].
    destruct (st_hist _ _ (l_st _ _ _ _ _ s)) eqn:Eh; [discriminate|]. inversion Hf; subst. simpl in Hr. unfold s, wd in Eh. rewrite Eh. exact Hr.
  Qed.
End EvqeWorld.
