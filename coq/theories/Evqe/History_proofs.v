(* C11_history_stable for the solver loop: the operator sequence is the one _solve_by_evolution produces
   (Solver/Loop.v: limit checks, break, callbacks, termination criterion, arbitrary estimates), the operators are
   the EVQE operators on the heap (Evqe/Heap.v, repaired variant).  Every entry of the history stored in the solver
   result dereferences, in the heap at the end of the run, to the population it denoted when result_callback was
   called.  Each history entry carries (as ghost data) the heap of the moment it was reported. *)
From QV Require Import Evqe.Heap Evqe.Heap_proofs Solver.Loop.
Open Scope Z_scope.

(* ------------------------------------------------------------------ a generic invariant of the solver loop *)
Section LoopInvariant.
  Variables Ind R Pop Op W Init Dist AuxEv AV : Type.
  Variable best_value : R -> Q.
  Variable best_ind : R -> Ind.
  Notation ls := (ls Ind R Pop Op W).
  Notation config := (config Ind R Op Init AuxEv).
  Notation world := (world Ind R Pop Op W Init Dist AuxEv AV).

  Variable Ext : W -> W -> Prop.            (* the world only grows *)
  Variable Good : W -> R -> Prop.           (* a history entry is meaningful in a world *)
  Variable PopOk : W -> Pop -> Prop.        (* the current population is meaningful in a world *)
  Hypothesis Ext_refl : forall w, Ext w w.
  Hypothesis Ext_trans : forall a b c, Ext a b -> Ext b c -> Ext a c.
  Hypothesis Good_mono : forall w w' r, Ext w w' -> Good w r -> Good w' r.
  Hypothesis PopOk_mono : forall w w' p, Ext w w' -> PopOk w p -> PopOk w' p.

  Variable wd : world.
  Hypothesis apply_ok : forall op w pop evs r w2,
    PopOk w pop -> w_apply _ _ _ _ _ _ _ _ _ wd op w pop = (evs, r, w2) ->
    Ext w w2 /\ (forall x, In (Result x) evs -> Good w2 x) /\ (forall p, r = Ok p -> PopOk w2 p).
  Hypothesis estimate_ok : forall op w pop est w1, w_estimate _ _ _ _ _ _ _ _ _ wd op w pop = (est, w1) -> Ext w w1.

  Definition LI (w0 : W) (s : ls) : Prop :=
    Ext w0 (l_w _ _ _ _ _ s) /\ PopOk (l_w _ _ _ _ _ s) (l_pop _ _ _ _ _ s) /\ Forall (Good (l_w _ _ _ _ _ s)) (st_hist _ _ (l_st _ _ _ _ _ s)).

  Lemma do_event_hist (cfg : config) (s : ls) (e : event R) :
    let s' := do_event Ind R Pop Op W Init AuxEv best_value best_ind cfg s e in
    l_w _ _ _ _ _ s' = l_w _ _ _ _ _ s /\ l_pop _ _ _ _ _ s' = l_pop _ _ _ _ _ s
    /\ (st_hist _ _ (l_st _ _ _ _ _ s') = st_hist _ _ (l_st _ _ _ _ _ s)
        \/ exists r, e = Result r /\ st_hist _ _ (l_st _ _ _ _ _ s') = st_hist _ _ (l_st _ _ _ _ _ s) ++ [r]).
  Proof.
    unfold do_event. destruct (l_err _ _ _ _ _ s); [simpl; auto|].
    destruct e as [n|r]; simpl.
    - unfold circuit_evaluation_callback. simpl.
      destruct (Nat.ltb _ _); simpl; [auto|].
      destruct (add_at _ _ _); simpl; auto.
    - unfold result_callback. simpl.
      destruct (st_best_ind _ _ (l_st _ _ _ _ _ s)) as [i|]; destruct (st_best_val _ _ (l_st _ _ _ _ _ s)) as [v|];
        try destruct (Qltb _ _); destruct (cfg_criterion _ _ _ _ _ cfg); simpl; eauto 6.
  Qed.

  Lemma fold_events (cfg : config) evs : forall (s : ls),
    let s' := fold_left (do_event Ind R Pop Op W Init AuxEv best_value best_ind cfg) evs s in
    l_w _ _ _ _ _ s' = l_w _ _ _ _ _ s /\ l_pop _ _ _ _ _ s' = l_pop _ _ _ _ _ s
    /\ exists added, st_hist _ _ (l_st _ _ _ _ _ s') = st_hist _ _ (l_st _ _ _ _ _ s) ++ added
                     /\ forall x, In x added -> In (Result x) evs.
  Proof.
    induction evs as [|e t IH]; intros s; simpl.
    - repeat split; auto. exists []. rewrite app_nil_r. split; [reflexivity|intros ? []].
    - destruct (do_event_hist cfg s e) as [A [B C]]. destruct (IH (do_event Ind R Pop Op W Init AuxEv best_value best_ind cfg s e)) as [A2 [B2 [added [C2 D2]]]].
      split; [congruence|]. split; [congruence|]. destruct C as [C|[r [-> C]]].
      + exists added. split; [congruence|]. intros x Hx. right. auto.
      + exists (r :: added). split; [rewrite C2, C, <- app_assoc; reflexivity|]. intros x [<-|Hx]; [left; reflexivity|right; auto].
  Qed.

  Lemma for_ops_LI w0 (cfg : config) ops : forall (s : ls), LI w0 s -> LI w0 (for_ops _ _ _ _ _ _ _ _ _ best_value best_ind cfg wd ops s).
  Proof.
    induction ops as [|op rest IH]; intros s [HE [HP HH]]; simpl; [repeat split; assumption|].
    destruct (l_err _ _ _ _ _ s); [repeat split; assumption|].
    destruct (w_estimate _ _ _ _ _ _ _ _ _ wd op (l_w _ _ _ _ _ s) (l_pop _ _ _ _ _ s)) as [est w1] eqn:Ee.
    pose proof (estimate_ok _ _ _ _ _ Ee) as X1.
    destruct (limit_checks _ _ _ _ _ cfg (l_st _ _ _ _ _ s) est).
    - split; [simpl; eapply Ext_trans; eauto|]. split; simpl; [eapply PopOk_mono; eauto|eapply Forall_impl; [|exact HH]; intros; eapply Good_mono; eauto].
    - simpl. destruct (w_apply _ _ _ _ _ _ _ _ _ wd op w1 (l_pop _ _ _ _ _ s)) as [[evs rpop] w2] eqn:Ea.
      destruct (apply_ok _ _ _ _ _ _ (PopOk_mono _ _ _ X1 HP) Ea) as [X2 [X3 X4]].
      match goal with |- context [fold_left ?f evs ?s0] => destruct (fold_events cfg evs s0) as [A [B [added [C D]]]]; set (s3 := fold_left f evs s0) in * end.
      simpl in A, B, C.
      assert (L3 : Forall (Good w2) (st_hist _ _ (l_st _ _ _ _ _ s3))).
      { rewrite C. apply Forall_app. split.
        - eapply Forall_impl; [|exact HH]. intros r Hr. eapply Good_mono; [exact X2|]. eapply Good_mono; [exact X1|exact Hr].
        - apply Forall_forall. intros x Hx. apply X3. apply D. exact Hx. }
      assert (E02 : Ext w0 w2) by (eapply Ext_trans; [eapply Ext_trans; [exact HE|exact X1]|exact X2]).
      destruct (l_err _ _ _ _ _ s3) eqn:E3.
      + split; [rewrite A; exact E02|]. split; [rewrite A, B; simpl; eapply PopOk_mono; [exact X2|eapply PopOk_mono; eauto]|rewrite A; exact L3].
      + destruct rpop as [p|x].
        * apply IH. split; [simpl; rewrite A; exact E02|]. split; simpl; [rewrite A; apply X4; reflexivity|rewrite A; exact L3].
        * split; [simpl; rewrite A; exact E02|]. split; simpl; [rewrite A, B; simpl; eapply PopOk_mono; [exact X2|eapply PopOk_mono; eauto]|rewrite A; exact L3].
  Qed.

  Lemma while_LI w0 (cfg : config) fuel : forall (s : ls), LI w0 s -> LI w0 (while_loop _ _ _ _ _ _ _ _ _ best_value best_ind cfg wd fuel s).
  Proof.
    induction fuel as [|f IH]; intros s H; simpl; destruct (l_err _ _ _ _ _ s); auto;
      destruct (st_term _ _ (l_st _ _ _ _ _ s)); auto.
    apply IH. apply for_ops_LI. exact H.
  Qed.

  Theorem run_LI (cfg : config) fuel :
    PopOk (w_init _ _ _ _ _ _ _ _ _ wd) (w_pop0 _ _ _ _ _ _ _ _ _ wd) ->
    LI (w_init _ _ _ _ _ _ _ _ _ wd) (run _ _ _ _ _ _ _ _ _ best_value best_ind cfg wd fuel).
  Proof. intros H. unfold run. apply while_LI. split; [apply Ext_refl|]. split; simpl; [exact H|constructor]. Qed.
End LoopInvariant.

(* ------------------------------------------------------------------ the EVQE operators as the world of the loop *)
Section EvqeWorld.
  Context {V : Type} (veqb : V -> V -> bool) (ieq : individual V -> individual V -> bool) (zero : V).
  Notation ind := (individual V).
  Variable ev : ind -> result Q.
  Variable lg : bool.
  Notation heap := (heap (V := V)).
  Notation hpop := (hpop (V := V)).

  (* an evaluation result as the solver stores it, with the heap of the moment it was reported (ghost) *)
  Record hres := mkHres { hr_at : heap; hr_pop : hpop; hr_values : list Q; hr_best : ind; hr_best_value : Q }.

  (* the world: the heap and the logs of the applications still to come (one per apply_operator call) *)
  Definition eworld : Type := (heap * list (oplog V))%type.

  Definition to_event (h : heap) (c : hcallback (V := V)) : event hres :=
    match c with
    | HCount n => EvalCount n
    | HResult hp vs b bv => Result (mkHres h hp vs b bv)
    end.

  Definition e_apply (o : op) (w : eworld) (pop : hpop) : list (event hres) * result hpop * eworld :=
    let lgs := match snd w with l :: _ => l | [] => mkLog [] [] [] end in
    let '(h', cbs, r) := apply_h veqb ieq zero ev lg false o lgs (fst w) pop in
    (map (to_event h') cbs, r, (h', tl (snd w))).

  Variable estimate : op -> hpop -> option Z.     (* get_n_expected_circuit_evaluations: arbitrary *)
  Variables Init Dist AuxEv AV : Type.
  Variable measure : option Init -> ind -> Dist.
  Variable aux_eval : AuxEv -> ind -> AV.

  Definition evqe_world (h0 : heap) (pop0 : hpop) (logs : list (oplog V)) : world ind hres hpop op eworld Init Dist AuxEv AV :=
    Build_world ind hres hpop op eworld Init Dist AuxEv AV
      e_apply (fun o w pop => (estimate o pop, w)) measure aux_eval pop0 (h0, logs).

  Definition w_ext (w w' : eworld) : Prop := exists ext, fst w' = fst w ++ ext.
  Definition w_good (w : eworld) (r : hres) : Prop := hp_ok (hr_at r) (hr_pop r) /\ exists ext, fst w = hr_at r ++ ext.
  Definition w_popok (w : eworld) (p : hpop) : Prop := hp_ok (fst w) p.

  Lemma run_world_LI (cfg : config ind hres op Init AuxEv) (h0 : heap) (pop0 : hpop) logs fuel :
    hp_ok h0 pop0 ->
    LI ind hres hpop op eworld w_ext w_good w_popok (h0, logs)
       (run ind hres hpop op eworld Init Dist AuxEv AV hr_best_value hr_best cfg (evqe_world h0 pop0 logs) fuel).
  Proof.
    intros Hok.
    apply (run_LI ind hres hpop op eworld Init Dist AuxEv AV hr_best_value hr_best w_ext w_good w_popok) with (wd := evqe_world h0 pop0 logs).
    - intros w. exists []. rewrite app_nil_r. reflexivity.
    - intros a b c [e1 E1] [e2 E2]. exists (e1 ++ e2). rewrite E2, E1, app_assoc. reflexivity.
    - intros w w' x [ext E] [A [e1 B]]. split; [exact A|]. exists (e1 ++ ext). rewrite E, B, app_assoc. reflexivity.
    - intros w w' p [ext E] A. unfold w_popok in *. rewrite E. apply hp_ok_extend. exact A.
    - intros o w pop evs rr w2 Hp. simpl. unfold e_apply.
      destruct (apply_h veqb ieq zero ev lg false o _ (fst w) pop) as [[h' cbs] r0] eqn:E.
      destruct (apply_h_repaired _ _ _ _ _ _ _ _ _ _ _ _ Hp E) as [[ext X1] [X2 X3]].
      intros H; inversion H; subst. split; [exists ext; reflexivity|]. split.
      + intros x Hx. apply in_map_iff in Hx as [c [Ec Hc]]. specialize (X3 c Hc). destruct c; simpl in Ec; [discriminate|].
        inversion Ec; subst. split; simpl; [apply hp_ok_extend; exact Hp|exists []; rewrite app_nil_r; reflexivity].
      + intros p Hp2. apply X2. exact Hp2.
    - intros o w pop est w1. simpl. intros H; inversion H; subst. exists []. rewrite app_nil_r. reflexivity.
    - exact Hok.
  Qed.

  (* for every configuration of the solver (operators in any order and number, limits, termination criterion), every
     estimate function, every supply of logs, every fuel: each history entry dereferences in the final heap to the
     population it denoted when it was reported *)
  Theorem solver_history_stable (cfg : config ind hres op Init AuxEv) (h0 : heap) (pop0 : hpop) logs fuel :
    hp_ok h0 pop0 ->
    let s := run ind hres hpop op eworld Init Dist AuxEv AV hr_best_value hr_best cfg (evqe_world h0 pop0 logs) fuel in
    forall r, In r (st_hist _ _ (l_st _ _ _ _ _ s)) ->
              deref (fst (l_w _ _ _ _ _ s)) (hr_pop r) = deref (hr_at r) (hr_pop r).
  Proof.
    intros Hok s r Hr. destruct (run_world_LI cfg h0 pop0 logs fuel Hok) as [_ [_ LH]].
    rewrite Forall_forall in LH. destruct (LH r Hr) as [A [ext E]]. fold s in E. rewrite E. apply deref_extend. exact A.
  Qed.

  Lemma finish_history (cfg : config ind hres op Init AuxEv) wd s res :
    finish ind hres hpop op eworld Init Dist AuxEv AV cfg wd s = Ok res ->
    sr_history _ _ _ _ _ res = st_hist _ _ (l_st _ _ _ _ _ s).
  Proof.
    unfold finish. destruct (l_err _ _ _ _ _ s); [discriminate|].
    destruct (st_best_ind _ _ (l_st _ _ _ _ _ s)); [|discriminate]. destruct (st_best_val _ _ (l_st _ _ _ _ _ s)); [|discriminate].
    destruct (st_hist _ _ (l_st _ _ _ _ _ s)) eqn:Eh; [discriminate|]. intros H; inversion H; subst. reflexivity.
  Qed.

  (* ... in particular the history inside the solver result *)
  Corollary solver_result_history_stable (cfg : config ind hres op Init AuxEv) (h0 : heap) (pop0 : hpop) logs fuel res :
    hp_ok h0 pop0 ->
    let wd := evqe_world h0 pop0 logs in
    let s := run ind hres hpop op eworld Init Dist AuxEv AV hr_best_value hr_best cfg wd fuel in
    finish ind hres hpop op eworld Init Dist AuxEv AV cfg wd s = Ok res ->
    forall r, In r (sr_history _ _ _ _ _ res) -> deref (fst (l_w _ _ _ _ _ s)) (hr_pop r) = deref (hr_at r) (hr_pop r).
  Proof.
    intros Hok wd s Hf r Hr. rewrite (finish_history cfg wd s res Hf) in Hr.
    exact (solver_history_stable cfg h0 pop0 logs fuel Hok r Hr).
  Qed.

  (* A LATER solve with the same solver object: it starts in the world the first solve left behind (the heap with every
     list object created so far, the operators' remaining logs), with any configuration, any new initial population, any
     fuel.  Whatever it does, every entry of the history in the FIRST result still dereferences, in the heap after the
     second solve, to the population it denoted when it was reported.  (The history list itself is a value of the
     first result in this model; that the implementation's two results share no list object is tested, see c11.py.) *)
  Theorem later_solve_leaves_result (cfg1 cfg2 : config ind hres op Init AuxEv) (h0 : heap) (pop0 : hpop) logs1 fuel1 res1
          (pop0' : hpop) logs2 fuel2 :
    hp_ok h0 pop0 ->
    let wd1 := evqe_world h0 pop0 logs1 in
    let s1 := run ind hres hpop op eworld Init Dist AuxEv AV hr_best_value hr_best cfg1 wd1 fuel1 in
    finish ind hres hpop op eworld Init Dist AuxEv AV cfg1 wd1 s1 = Ok res1 ->
    hp_ok (fst (l_w _ _ _ _ _ s1)) pop0' ->
    let wd2 := evqe_world (fst (l_w _ _ _ _ _ s1)) pop0' logs2 in
    let s2 := run ind hres hpop op eworld Init Dist AuxEv AV hr_best_value hr_best cfg2 wd2 fuel2 in
    forall r, In r (sr_history _ _ _ _ _ res1) ->
              deref (fst (l_w _ _ _ _ _ s2)) (hr_pop r) = deref (hr_at r) (hr_pop r).
  Proof.
    intros Hok wd1 s1 Hf Hok2 wd2 s2 r Hr.
    destruct (run_world_LI cfg1 h0 pop0 logs1 fuel1 Hok) as [_ [_ LH]]. fold wd1 in LH. fold s1 in LH.
    rewrite Forall_forall in LH. rewrite (finish_history cfg1 wd1 s1 res1 Hf) in Hr. destruct (LH r Hr) as [A [e1 E1]].
    destruct (run_world_LI cfg2 (fst (l_w _ _ _ _ _ s1)) pop0' logs2 fuel2 Hok2) as [[e2 E2] _]. fold wd2 in E2. fold s2 in E2.
    simpl in E2. rewrite E2, E1, <- app_assoc. apply deref_extend. exact A.
  Qed.
End EvqeWorld.

(* non-vacuity: two solves with one solver object — operators speciation; selection; topological search; speciation,
   max_generations = 1 — both return a result with one history entry; the second solve works on the heap the first left *)
Definition ex_cfg : config (individual Z) (hres (V := Z)) op unit unit :=
  Build_config (individual Z) (hres (V := Z)) op unit unit (map fst w_steps) (Some 1) None None None ANone.
Definition ex_world (h0 : heap (V := Z)) : world (individual Z) (hres (V := Z)) (hpop (V := Z)) op (eworld (V := Z)) unit unit unit unit :=
  evqe_world Z.eqb (individual_heq Z.eqb) 0 w_ev false (fun _ _ => None) unit unit unit unit (fun _ _ => tt) (fun _ _ => tt)
             h0 Heap_proofs.w_init (map snd w_steps).
Definition ex_s1 := run _ _ _ _ _ _ _ _ _ (hr_best_value (V := Z)) (hr_best (V := Z)) ex_cfg (ex_world []) 3.
Definition ex_s2 := run _ _ _ _ _ _ _ _ _ (hr_best_value (V := Z)) (hr_best (V := Z)) ex_cfg (ex_world (fst (l_w _ _ _ _ _ ex_s1))) 3.

Lemma two_solves_example :
  hp_ok [] Heap_proofs.w_init /\ hp_ok (fst (l_w _ _ _ _ _ ex_s1)) Heap_proofs.w_init
  /\ match finish _ _ _ _ _ _ _ _ _ ex_cfg (ex_world []) ex_s1,
           finish _ _ _ _ _ _ _ _ _ ex_cfg (ex_world (fst (l_w _ _ _ _ _ ex_s1))) ex_s2 with
     | Ok r1, Ok r2 => length (sr_history _ _ _ _ _ r1) = 1%nat /\ length (sr_history _ _ _ _ _ r2) = 1%nat
                       /\ length (fst (l_w _ _ _ _ _ ex_s1)) = 1%nat /\ length (fst (l_w _ _ _ _ _ ex_s2)) = 2%nat
     | _, _ => False
     end.
Proof. split; [exact I|]. split; [exact I|]. vm_compute. repeat split. Qed.
