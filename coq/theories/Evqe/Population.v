(* EVQE populations, callbacks, decision streams and the parallel executor (population.py,
   base/evolutionary_algorithm.py; the executor protocol used by selection.py / mutation.py).
   Definitions only.

   - A Python dict is an association list in insertion order whose keys are compared with the
     key type's `==` (for EVQEIndividual: hash equality, an equivalence relation; the models take
     it as a parameter `ieq`).  `d[k] = v` keeps the old key object when an equal key exists.
   - Randomness is a decision stream (what random.Random decided, call by call); a draw whose kind
     or arguments differ from what the program asks for is Err StreamMismatch.
   - The executor: tasks are submitted in order, complete in an arbitrary order pi, the caller
     collects by index / by key (exec_run).  *)
From QV Require Export Evqe.Genome.
From Coq Require Export QArith Qabs.
Open Scope Z_scope.

Definition StreamMismatch : string := "StreamMismatch"%string.   (* the log is not a log of this program *)
Definition OracleContract : string := "OracleContract"%string.   (* an oracle answered outside its contract *)
Definition InvalidOrder : string := "InvalidCompletionOrder"%string. (* pi names a task that was never submitted *)
Definition NeverCompleted : string := "NeverCompleted"%string.   (* a submitted task is missing from pi: wait() hangs *)
Definition SelectionException : string := "EVQESelectionException"%string.

(* errors that are artefacts of the log handed to the model, not exceptions of the program *)
Definition is_log_error (e : string) : bool :=
  String.eqb e StreamMismatch || String.eqb e OracleContract || String.eqb e InvalidOrder
  || String.eqb e NeverCompleted.

(* ------------------------------------------------------------------ list helpers (errors explicit) *)
Definition nth_r {A} (l : list A) (i : nat) : result A :=
  match nth_error l i with Some x => Ok x | None => Err "IndexError"%string end.

Fixpoint set_nth {A} (l : list A) (i : nat) (x : A) : result (list A) :=
  match l, i with
  | [], _ => Err "IndexError"%string
  | _ :: t, O => Ok (x :: t)
  | h :: t, S i' => do t' <- set_nth t i' x; Ok (h :: t')
  end.

Fixpoint remove_nth {A} (l : list A) (i : nat) : list A :=
  match l, i with
  | [], _ => []
  | _ :: t, O => t
  | h :: t, S i' => h :: remove_nth t i'
  end.

(* ------------------------------------------------------------------ Python dicts *)
Section Dict.
  Context {K A : Type} (keq : K -> K -> bool).

  Fixpoint dict_get (d : list (K * A)) (k : K) : option A :=
    match d with
    | [] => None
    | (k', v) :: t => if keq k k' then Some v else dict_get t k
    end.

  (* d[k] = v *)
  Fixpoint dict_set (d : list (K * A)) (k : K) (v : A) : list (K * A) :=
    match d with
    | [] => [(k, v)]
    | (k', v') :: t => if keq k k' then (k', v) :: t else (k', v') :: dict_set t k v
    end.

  Definition dict_mem (d : list (K * A)) (k : K) : bool :=
    match dict_get d k with Some _ => true | None => false end.

  (* d[k] : KeyError *)
  Definition dict_at (d : list (K * A)) (k : K) : result A :=
    match dict_get d k with Some v => Ok v | None => Err "KeyError"%string end.
End Dict.

(* ------------------------------------------------------------------ EVQEIndividual.__eq__ *)
(* `==` on individuals is hash equality: hash((n_qubits, layers, parameter_values)).  Layers and gates are frozen
   dataclasses whose generated __hash__ hashes the tuple of their FIELDS ONLY - not the class: IdentityGate(q) and
   RotationGate(q) hash alike, so do ControlGate(q, x) and ControlledRotationGate(q, x).  individual_heq is that
   equality up to accidental collisions of Python's tuple hash (the harness checks that the parameter values of
   a run have pairwise different hashes).  It is strictly coarser than structural equality (individual_eqb). *)
Definition gate_heq (a b : gate) : bool :=
  match a, b with
  | GId p, GId q | GId p, GRot q | GRot p, GId q | GRot p, GRot q => Z.eqb p q
  | GCtrl p x, GCtrl q y | GCtrl p x, GCRot q y | GCRot p x, GCtrl q y | GCRot p x, GCRot q y => Z.eqb p q && Z.eqb x y
  | _, _ => false
  end.

Definition layer_heq (a b : layer) : bool :=
  Z.eqb (l_qubits a) (l_qubits b) && list_eqb gate_heq (l_gates a) (l_gates b).

Definition individual_heq {V} (veqb : V -> V -> bool) (a b : individual V) : bool :=
  Z.eqb (i_qubits a) (i_qubits b) && list_eqb layer_heq (i_layers a) (i_layers b)
  && list_eqb veqb (i_values a) (i_values b).

(* ------------------------------------------------------------------ populations and callbacks *)
Record population (V : Type) := mkPop {
  p_inds : list (individual V);                                  (* individuals: tuple *)
  p_reps : option (list (individual V));                         (* species_representatives *)
  p_members : option (list (individual V * list nat));           (* species_members: dict *)
  p_membership : option (list (nat * individual V)) }.           (* species_membership: dict *)
Arguments mkPop {V} _ _ _ _.
Arguments p_inds {V} _.
Arguments p_reps {V} _.
Arguments p_members {V} _.
Arguments p_membership {V} _.

(* every member is a valid individual on n qubits *)
Definition pop_valid {V} (n : Z) (p : population V) : bool :=
  forallb (fun x => individual_is_valid x && Z.eqb (i_qubits x) n) (p_inds p).

(* BasePopulationEvaluationResult *)
Record eval_result (V : Type) := mkRes {
  r_pop : population V;
  r_values : list Q;
  r_best : individual V;
  r_best_value : Q }.
Arguments mkRes {V} _ _ _ _.
Arguments r_pop {V} _.
Arguments r_values {V} _.
Arguments r_best {V} _.
Arguments r_best_value {V} _.

Inductive callback (V : Type) :=
| CbCount (n : Z)                          (* circuit_evaluation_count_callback(n) *)
| CbResult (r : eval_result V).            (* result_callback(r) *)
Arguments CbCount {V} n.
Arguments CbResult {V} r.

(* what apply_operator does: the callbacks it made, in order, then its return value or exception *)
Definition outcome (V : Type) : Type := (list (callback V) * result (population V))%type.

(* ------------------------------------------------------------------ decision streams *)
Inductive odecision :=
| KChoice (len idx : nat)                                   (* choice(seq): len(seq), index returned *)
| KChoices (len : nat) (weights : option (list Q)) (idxs : list nat)
                                                            (* choices(pop, weights, k): len(pop), weights as passed, indices *)
| KRandom (x : Q)                                           (* random() = x (a float is a dyadic rational) *)
| KRandint (lo hi v : Z)                                    (* randint(lo, hi) = v *)
| KRandrange (start stop v : Z).                            (* randrange(start, stop) = v *)

Definition ostream := list odecision.

Definition SEED_MAX : Z := 2147483647.

Definition take_choice (len : nat) (s : ostream) : result (nat * ostream) :=
  if Nat.eqb len 0 then Err "IndexError"%string
  else match s with
       | KChoice l i :: rest => if Nat.eqb l len && Nat.ltb i len then Ok (i, rest) else Err StreamMismatch
       | _ => Err StreamMismatch
       end.

Definition take_random (s : ostream) : result (Q * ostream) :=
  match s with
  | KRandom x :: rest => if Qle_bool 0 x && negb (Qle_bool 1 x) then Ok (x, rest) else Err StreamMismatch
  | _ => Err StreamMismatch
  end.

Definition take_randint (lo hi : Z) (s : ostream) : result (Z * ostream) :=
  match s with
  | KRandint l h v :: rest =>
      if Z.eqb l lo && Z.eqb h hi && Z.leb lo v && Z.leb v hi then Ok (v, rest) else Err StreamMismatch
  | _ => Err StreamMismatch
  end.

(* new_random_seed *)
Definition take_seed (s : ostream) : result (Z * ostream) := take_randint 0 SEED_MAX s.

(* randrange(start, stop): ValueError for an empty range *)
Definition take_randrange (start stop : Z) (s : ostream) : result (Z * ostream) :=
  if stop <=? start then Err "ValueError"%string
  else match s with
       | KRandrange a b v :: rest =>
           if Z.eqb a start && Z.eqb b stop && Z.leb start v && Z.ltb v stop then Ok (v, rest) else Err StreamMismatch
       | _ => Err StreamMismatch
       end.

(* float results of inexact operations are compared with a relative tolerance of 1e-9 *)
Definition q_close (model impl : Q) : bool :=
  Qle_bool (Qabs (model - impl)) ((1 # 1000000000) * Qabs model).

Fixpoint q_close_list (ms is : list Q) : bool :=
  match ms, is with
  | [], [] => true
  | m :: ms', i :: is' => q_close m i && q_close_list ms' is'
  | _, _ => false
  end.

(* choices(population, weights=w, k=k) with len(population) = len: k indices below len.
   `weights` is what the program passes (None: uniform). *)
Definition take_choices (len : nat) (weights : option (list Q)) (k : nat) (s : ostream) : result (list nat * ostream) :=
  match s with
  | KChoices l w idxs :: rest =>
      if Nat.eqb l len && Nat.eqb (length idxs) k && forallb (fun i => Nat.ltb i len) idxs
         && match weights, w with
            | None, None => true
            | Some mw, Some iw => q_close_list mw iw
            | _, _ => false
            end
      then Ok (idxs, rest) else Err StreamMismatch
  | _ => Err StreamMismatch
  end.

(* ------------------------------------------------------------------ the executor *)
Section Exec.
  Context {R : Type}.

  (* the tasks complete in the order pi; the completion log pairs each index with its task's outcome *)
  Fixpoint complete (tasks : list R) (pi : list nat) : result (list (nat * R)) :=
    match pi with
    | [] => Ok []
    | j :: t => match nth_error tasks j with
                | None => Err InvalidOrder
                | Some r => do rest <- complete tasks t; Ok ((j, r) :: rest)
                end
    end.

  (* futures[i].result() for i = 0 .. n-1: by index, whatever the completion order was *)
  Definition collect (n : nat) (log : list (nat * R)) : result (list R) :=
    mapM (fun i => match dict_get Nat.eqb log i with Some r => Ok r | None => Err NeverCompleted end) (seq 0 n).

  Definition exec_run (tasks : list R) (pi : list nat) : result (list R) :=
    do log <- complete tasks pi; collect (length tasks) log.

  (* the WRONG way to gather (results in completion order), kept for the refutation witness *)
  Definition exec_run_as_completed (tasks : list R) (pi : list nat) : result (list R) :=
    do log <- complete tasks pi; Ok (map snd log).
End Exec.

(* future.result() re-raises the task's exception: the first failing task in collection order decides *)
Definition gather {A} (l : list (result A)) : result (list A) := mapM (fun r => r) l.
