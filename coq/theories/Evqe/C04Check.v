(* Correspondence entry point for C04.  A case carries an individual (values as integer tokens), a set S of
   layers left symbolic, a layer id k with replacement values, and what Qiskit produced for every view:
   the order of circuit.parameters (names as strings) and the instruction lists read off the QuantumCircuit
   objects.  QuantumCircuit.decompose() returns SOME topological order of the circuit's DAG, so instruction
   lists are compared as DAGs: per qubit, the sequence of instructions touching that qubit (wires). *)
From QV Require Import Evqe.Circuit.
Open Scope Z_scope.

Fixpoint name_of_string (s : string) : name :=
  match s with
  | EmptyString => []
  | String a rest => nat_of_ascii a :: name_of_string rest
  end.
Definition nm (s : string) : angle Z := ANam (name_of_string s).
Definition av (t : Z) : angle Z := AVal t.

Definition angle_eqb (a b : angle Z) : bool :=
  match a, b with
  | AVal x, AVal y => Z.eqb x y
  | ANam x, ANam y => name_eqb x y
  | _, _ => false
  end.

Definition instr_eqb (a b : instr Z) : bool :=
  match a, b with
  | IId p, IId q => Z.eqb p q
  | IU p a1 a2 a3, IU q b1 b2 b3 => Z.eqb p q && angle_eqb a1 b1 && angle_eqb a2 b2 && angle_eqb a3 b3
  | ICU3 c t a1 a2 a3, ICU3 c' t' b1 b2 b3 =>
      Z.eqb c c' && Z.eqb t t' && angle_eqb a1 b1 && angle_eqb a2 b2 && angle_eqb a3 b3
  | _, _ => false
  end.

Definition touches (q : Z) (i : instr Z) : bool :=
  match i with
  | IId p | IU p _ _ _ => Z.eqb p q
  | ICU3 c t _ _ _ => Z.eqb c q || Z.eqb t q
  end.

Definition wires (n : Z) (c : circuit Z) : list (circuit Z) :=
  map (fun q => filter (touches (Z.of_nat q)) c) (seq 0 (Z.to_nat n)).

Definition in_range (n : Z) (i : instr Z) : bool :=
  match i with
  | IId p | IU p _ _ _ => (0 <=? p) && (p <? n)
  | ICU3 c t _ _ _ => (0 <=? c) && (c <? n) && (0 <=? t) && (t <? n)
  end.

(* same DAG: same wires, same number of instructions, all on existing qubits *)
Definition same_dag (n : Z) (a b : circuit Z) : bool :=
  Nat.eqb (length a) (length b) && forallb (in_range n) a && forallb (in_range n) b
  && list_eqb (list_eqb instr_eqb) (wires n a) (wires n b).

Definition res_dag (n : Z) (model : result (circuit Z)) (expected : circuit Z) : bool :=
  match model with Ok c => same_dag n c expected | Err _ => false end.

Definition names_match (model : list name) (expected : list string) : bool :=
  list_eqb String.eqb (map string_of_name model) expected.

Record c04case := mkC04 {
  c_ind : individual Z;
  c_S : list Z;                       (* layers left symbolic (any integers, taken modulo the layer count) *)
  c_k : Z;                            (* layer whose values are replaced *)
  c_new : list Z;                     (* replacement values *)
  c_param_order : list string;        (* [p.name for p in get_parameterized_quantum_circuit().parameters] *)
  c_concrete : circuit Z;             (* get_quantum_circuit() *)
  c_assigned : circuit Z;             (* get_parameterized_quantum_circuit().assign_parameters(values) *)
  c_partial_order : list string;      (* parameters of get_partially_parameterized_quantum_circuit(S) *)
  c_partial : circuit Z;              (* its instructions, symbolic angles as names *)
  c_partial_bound : circuit Z;        (* ... .assign_parameters(values of the symbolic layers in layer order) *)
  c_bylayer : circuit Z;              (* get_partially_parameterized_quantum_circuit(set()) *)
  c_updated : circuit Z;              (* change_layer_parameter_values(ind, k, new).get_quantum_circuit() *)
  c_single_bound : circuit Z          (* get_partially_parameterized_quantum_circuit({k}).assign_parameters(new) *)
}.

Definition checks (legacy : bool) (c : c04case) : list bool :=
  let i := c_ind c in
  let n := i_qubits i in
  let S' := wrap_set i (c_S c) in
  let vals := values_for (layer_values i) S' (length (i_layers i)) in
  [ match parameterized legacy i with Ok p => names_match (sort_names (circuit_params p)) (c_param_order c) | Err _ => false end;
    res_dag n (concrete legacy i) (c_concrete c);
    res_dag n (concrete legacy i) (c_assigned c);
    match partially_parameterized legacy i (c_S c) with
    | Ok p => names_match (sort_names (circuit_params p)) (c_partial_order c) && same_dag n p (c_partial c)
              && res_dag n (assign_positional p vals) (c_partial_bound c)
    | Err _ => false
    end;
    res_dag n (by_layer legacy i) (c_bylayer c);
    match change_layer_parameter_values i (c_k c) (c_new c) with
    | Ok i' => res_dag n (concrete legacy i') (c_updated c)
    | Err _ => false
    end;
    match partially_parameterized legacy i [c_k c] with
    | Ok p => res_dag n (assign_positional p (c_new c)) (c_single_bound c)
    | Err _ => false
    end ].

Definition check_case (c : c04case) : bool := forallb (fun b => b) (checks false c).
(* diagnosis for replays: which checks fail under the repaired and under the legacy naming *)
Definition show_case (c : c04case) := (checks false c, checks true c).
