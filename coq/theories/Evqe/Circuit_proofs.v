(* Proofs for C04 (and the circuit part of C16) over Evqe/Circuit.v. *)
From QV Require Import Evqe.Genome Evqe.GenomeFacts Evqe.GenomeOps_proofs Evqe.Names Evqe.Names_proofs Evqe.Circuit.
Open Scope Z_scope.

Section Proofs.
Context {V : Type}.
Notation circuitV := (circuit V).
Implicit Types (c : circuitV) (env : list (name * V)).

(* ------------------------------------------------------------------ lookup *)
Lemma lookup_app_l n env1 env2 v : lookup n env1 = Some v -> lookup n (env1 ++ env2) = Some v.
Proof.
  induction env1 as [|[k w] t IH]; simpl; [discriminate|].
  destruct (name_eqb n k); [auto | exact IH].
Qed.

Lemma lookup_app_r n env1 env2 : ~ In n (map fst env1) -> lookup n (env1 ++ env2) = lookup n env2.
Proof.
  induction env1 as [|[k w] t IH]; simpl; intros H; [reflexivity|].
  rewrite name_eqb_neq by (intros ->; apply H; left; reflexivity). apply IH. tauto.
Qed.

Lemma lookup_combine n ks : forall (vs : list V),
  In n ks -> length ks = length vs -> exists v, lookup n (combine ks vs) = Some v /\ In v vs.
Proof.
  induction ks as [|k ks IH]; intros [|v vs] Hin L; simpl in *; try contradiction; try discriminate.
  destruct (name_eqb n k) eqn:E; [exists v; auto|].
  destruct Hin as [->|Hin]; [rewrite name_eqb_refl in E; discriminate|].
  destruct (IH vs Hin ltac:(lia)) as [w [A B]]. exists w. auto.
Qed.

Lemma keys_combine (ks : list name) (vs : list V) k : In k (map fst (combine ks vs)) -> In k ks.
Proof.
  intros H. apply in_map_iff in H as [[k' v] [<- H]]. apply in_combine_l in H. exact H.
Qed.

Lemma combine_app {A B} (a1 a2 : list A) : forall (b1 b2 : list B),
  length a1 = length b1 -> combine (a1 ++ a2) (b1 ++ b2) = combine a1 b1 ++ combine a2 b2.
Proof.
  induction a1 as [|x a1 IH]; intros [|y b1] b2 L; simpl in *; try discriminate; [reflexivity|].
  rewrite IH by lia. reflexivity.
Qed.

(* ------------------------------------------------------------------ binding *)
Lemma circuit_params_app c1 c2 : circuit_params (c1 ++ c2) = circuit_params c1 ++ circuit_params c2.
Proof. unfold circuit_params. apply flat_map_app. Qed.

Lemma circuit_params_concat (bs : list circuitV) : circuit_params (concat bs) = concat (map circuit_params bs).
Proof.
  induction bs as [|b bs IH]; [reflexivity|]. simpl. rewrite circuit_params_app, IH. reflexivity.
Qed.

Lemma bind_angle_ext env1 env2 a :
  (forall n, In n (angle_params a) -> lookup n env1 = lookup n env2) -> bind_angle env1 a = bind_angle env2 a.
Proof. destruct a as [v|n]; simpl; intros H; [reflexivity|]. rewrite (H n (or_introl eq_refl)). reflexivity. Qed.

Lemma bind_ext env1 env2 c :
  (forall n, In n (circuit_params c) -> lookup n env1 = lookup n env2) -> bind_circuit env1 c = bind_circuit env2 c.
Proof.
  induction c as [|i c IH]; intros H; [reflexivity|]. simpl. f_equal.
  - assert (Hi : forall n, In n (instr_params i) -> lookup n env1 = lookup n env2).
    { intros n Hn. apply H. simpl. apply in_or_app. left. exact Hn. }
    destruct i as [q|q a b d|c0 t a b d]; simpl in *; [reflexivity| |];
      rewrite (bind_angle_ext env1 env2 a), (bind_angle_ext env1 env2 b), (bind_angle_ext env1 env2 d);
      try reflexivity; intros n Hn; apply Hi; repeat (apply in_or_app; auto; right); auto;
      apply in_or_app; auto.
  - apply IH. intros n Hn. apply H. simpl. apply in_or_app. right. exact Hn.
Qed.

Lemma bind_angle_nil a : bind_angle (V := V) [] a = a.
Proof. destruct a; reflexivity. Qed.

Lemma bind_nil c : bind_circuit [] c = c.
Proof.
  induction c as [|i c IH]; [reflexivity|]. simpl. rewrite IH. f_equal.
  destruct i; simpl; rewrite ?bind_angle_nil; reflexivity.
Qed.

Lemma no_params_bind_id env c : circuit_params c = [] -> bind_circuit env c = c.
Proof.
  intros H. rewrite (bind_ext env [] c); [apply bind_nil|]. rewrite H. intros n [].
Qed.

Lemma bound_angle_no_params env a :
  (forall n, In n (angle_params a) -> exists v, lookup n env = Some v) -> angle_params (bind_angle env a) = [].
Proof.
  destruct a as [v|n]; simpl; intros H; [reflexivity|].
  destruct (H n (or_introl eq_refl)) as [v E]. rewrite E. reflexivity.
Qed.

Lemma bound_no_params env c :
  (forall n, In n (circuit_params c) -> exists v, lookup n env = Some v) -> circuit_params (bind_circuit env c) = [].
Proof.
  induction c as [|i c IH]; intros H; [reflexivity|]. simpl.
  rewrite IH by (intros n Hn; apply H; simpl; apply in_or_app; right; exact Hn). rewrite app_nil_r.
  assert (Hi : forall n, In n (instr_params i) -> exists v, lookup n env = Some v).
  { intros n Hn. apply H. simpl. apply in_or_app. left. exact Hn. }
  destruct i as [q|q a b d|c0 t a b d]; simpl in *; [reflexivity| |];
    rewrite (bound_angle_no_params env a), (bound_angle_no_params env b), (bound_angle_no_params env d);
    try reflexivity; intros n Hn; apply Hi; repeat (apply in_or_app; auto; right); auto;
    apply in_or_app; auto.
Qed.

(* ------------------------------------------------------------------ blocks with ordered names *)
Fixpoint ordered (bs : list (list name)) : Prop :=
  match bs with
  | [] => True
  | b :: rest => (forall x y, In x b -> In y (concat rest) -> lex_lt x y = true) /\ ordered rest
  end.

Definition local_bind (it : circuitV * list V) : circuitV :=
  bind_circuit (combine (sort_names (circuit_params (fst it))) (snd it)) (fst it).

Lemma bind_blocks (items : list (circuitV * list V)) :
  ordered (map (fun it => circuit_params (fst it)) items) ->
  Forall (fun it => length (circuit_params (fst it)) = length (snd it)) items ->
  let c := concat (map fst items) in
  length (sort_names (circuit_params c)) = length (concat (map snd items)) /\
  bind_circuit (combine (sort_names (circuit_params c)) (concat (map snd items))) c = concat (map local_bind items).
Proof.
  induction items as [|[c1 v1] rest IH]; intros O F; [split; reflexivity|].
  simpl in O. destruct O as [O1 O2]. inversion F as [|? ? F1 F2]; subst. simpl in F1.
  specialize (IH O2 F2). cbv zeta in IH. destruct IH as [IHl IHb].
  cbv zeta. cbn [map concat fst snd].
  set (crest := concat (map fst rest)) in *. set (vrest := concat (map snd rest)) in *.
  assert (EN : concat (map (fun it => circuit_params (fst it)) rest) = circuit_params crest).
  { unfold crest. rewrite circuit_params_concat, map_map. reflexivity. }
  rewrite EN in O1.
  rewrite circuit_params_app. rewrite sort_app by exact O1.
  split.
  - rewrite !app_length, IHl, sort_length, F1. reflexivity.
  - rewrite combine_app by (rewrite sort_length; exact F1).
    set (E1 := combine (sort_names (circuit_params c1)) v1) in *.
    set (Er := combine (sort_names (circuit_params crest)) vrest) in *.
    unfold bind_circuit at 1. rewrite map_app. fold (bind_circuit (E1 ++ Er) c1). fold (bind_circuit (E1 ++ Er) crest).
    f_equal.
    + unfold local_bind. cbn [fst snd]. fold E1. apply bind_ext. intros n Hn.
      destruct (lookup_combine n (sort_names (circuit_params c1)) v1) as [v [Lv _]].
      * apply in_sort. exact Hn.
      * rewrite sort_length. exact F1.
      * fold E1 in Lv. rewrite Lv. apply lookup_app_l. exact Lv.
    + rewrite <- IHb. apply bind_ext. intros n Hn. apply lookup_app_r.
      intros Hk. unfold E1 in Hk. apply keys_combine in Hk. apply (proj1 (in_sort _ _)) in Hk.
      pose proof (O1 n n Hk Hn) as L. rewrite lex_lt_irrefl in L. discriminate.
Qed.

(* ------------------------------------------------------------------ the blocks of an individual *)
Definition enum {A} (k0 : nat) (l : list A) : list (nat * A) := combine (seq k0 (length l)) l.

Lemma enum_cons {A} k0 (x : A) l : enum k0 (x :: l) = (k0, x) :: enum (S k0) l.
Proof. reflexivity. Qed.

Lemma enum_app {A} k0 (a b : list A) : enum k0 (a ++ b) = enum k0 a ++ enum (k0 + length a) b.
Proof.
  revert k0. induction a as [|x a IH]; intros k0; simpl.
  - rewrite Nat.add_0_r. reflexivity.
  - rewrite !enum_cons. rewrite IH. simpl. do 3 f_equal. lia.
Qed.

Lemma enum_fst {A} k0 (l : list A) : map fst (enum k0 l) = seq k0 (length l).
Proof. revert k0. induction l as [|x l IH]; intros k0; [reflexivity|]. rewrite enum_cons. simpl. rewrite IH. reflexivity. Qed.

Lemma enum_in {A} k0 (l : list A) k x : In (k, x) (enum k0 l) -> (k0 <= k)%nat /\ nth_error l (k - k0) = Some x.
Proof.
  revert k0. induction l as [|y l IH]; intros k0 H; [contradiction|].
  rewrite enum_cons in H. destruct H as [H|H].
  - inversion H; subst. rewrite Nat.sub_diag. auto.
  - apply IH in H as [H1 H2]. split; [lia|]. replace (k - k0)%nat with (S (k - S k0)) by lia. exact H2.
Qed.

Definition sym (legacy : bool) (kl : nat * layer) : circuitV := layer_circuit legacy (fst kl) (snd kl).
Definition bound_block (legacy : bool) (g : nat -> list V) (kl : nat * layer) : circuitV :=
  local_bind (sym legacy kl, g (fst kl)).
Definition bound_with (legacy : bool) (ls : list layer) (g : nat -> list V) : circuitV :=
  concat (map (bound_block legacy g) (enum 0 ls)).

(* parameters of a symbolic layer: 3 per (controlled) rotation, all carrying the layer's prefix *)
Lemma gate_params_length prefix g :
  length (circuit_params (V := V) (gate_instrs prefix g)) = Z.to_nat (gate_n_parameters g).
Proof. destruct g; reflexivity. Qed.

Lemma sym_params_length legacy k l :
  length (circuit_params (sym legacy (k, l))) = Z.to_nat (layer_n_parameters l).
Proof.
  unfold sym, layer_circuit, layer_n_parameters. cbn [fst snd].
  induction (l_gates l) as [|g gs IH]; [reflexivity|].
  cbn [flat_map map sumZ fold_right]. rewrite circuit_params_app, app_length, IH, gate_params_length.
  fold (sumZ (map gate_n_parameters gs)).
  pose proof (gate_n_parameters_nonneg g).
  assert (0 <= sumZ (map gate_n_parameters gs)).
  { apply sumZ_nonneg. intros x Hx. apply in_map_iff in Hx as [g' [<- _]]. apply gate_n_parameters_nonneg. }
  lia.
Qed.

Lemma sym_params_prefixed legacy k l n :
  In n (circuit_params (sym legacy (k, l))) -> exists r, n = layer_prefix legacy (Z.of_nat k) ++ r.
Proof.
  unfold sym, layer_circuit. cbn [fst snd]. unfold circuit_params.
  intros H. apply in_flat_map in H as [ins [Hins Hn]].
  apply in_flat_map in Hins as [g [_ Hg]].
  destruct g as [q|q|q t|q c0]; simpl in Hg; try contradiction; destruct Hg as [<-|[]]; simpl in Hn;
    unfold param_name in Hn; intuition; subst; eexists; reflexivity.
Qed.

(* the values of layer k of a valid individual are as many as the layer has parameters *)
Lemma layer_values_length (i : individual V) k l :
  individual_is_valid i = true -> nth_error (i_layers i) k = Some l ->
  length (layer_values i k) = Z.to_nat (layer_n_parameters l).
Proof.
  intros Val N. apply valid_parts in Val as [_ [_ LV]].
  unfold layer_values. pose proof (offset_count_total (i_layers i) k) as T.
  rewrite firstn_length, skipn_length. unfold layer_count in *. rewrite N in *. lia.
Qed.

Definition block (legacy : bool) (i : individual V) (S' : list nat) (kl : nat * layer) : circuitV :=
  if mem_nat (fst kl) S' then sym legacy kl else bound_block legacy (layer_values i) kl.

Lemma pp_blocks_ok legacy (i : individual V) S' : forall ls k0,
  (forall k l, In (k, l) (enum k0 ls) -> length (layer_values i k) = Z.to_nat (layer_n_parameters l)) ->
  pp_blocks legacy i S' k0 ls = Ok (map (block legacy i S') (enum k0 ls)).
Proof.
  induction ls as [|l ls IH]; intros k0 H; [reflexivity|].
  rewrite enum_cons. cbn [pp_blocks map].
  rewrite IH by (intros k l' Hin; apply H; rewrite enum_cons; right; exact Hin).
  assert (Hl : length (layer_values i k0) = Z.to_nat (layer_n_parameters l)) by (apply H; rewrite enum_cons; left; reflexivity).
  unfold block at 2. cbn [fst]. destruct (mem_nat k0 S'); cbn [bind]; [reflexivity|].
  unfold layer_gate. pose proof (layer_n_parameters_nonneg l).
  assert (E : (Z.of_nat (length (layer_values i k0)) =? layer_n_parameters l) = true) by (apply Z.eqb_eq; lia).
  rewrite E. cbn [negb]. unfold assign_positional.
  rewrite sort_length. change (layer_circuit legacy k0 l) with (sym legacy (k0, l)).
  rewrite sym_params_length, Hl, Nat.eqb_refl. reflexivity.
Qed.

Lemma valid_lengths (i : individual V) :
  individual_is_valid i = true ->
  forall k l, In (k, l) (enum 0 (i_layers i)) -> length (layer_values i k) = Z.to_nat (layer_n_parameters l).
Proof.
  intros Val k l Hin. apply enum_in in Hin as [_ N]. rewrite Nat.sub_0_r in N.
  apply layer_values_length; assumption.
Qed.

(* names of the blocks are ordered: block of layer k carries prefix k, k < 10^6 *)
Fixpoint prefixed_from (k0 : nat) (bs : list (list name)) : Prop :=
  match bs with
  | [] => True
  | b :: rest => (forall n, In n b -> exists r, n = layer_prefix false (Z.of_nat k0) ++ r) /\ prefixed_from (S k0) rest
  end.

Lemma in_concat_prefixed bs : forall k0 y, prefixed_from k0 bs -> In y (concat bs) ->
  exists k r, (k0 <= k < k0 + length bs)%nat /\ y = layer_prefix false (Z.of_nat k) ++ r.
Proof.
  induction bs as [|b bs IH]; intros k0 y P H; [contradiction|].
  simpl in P, H. destruct P as [P1 P2]. apply in_app_or in H as [H|H].
  - destruct (P1 y H) as [r E]. exists k0, r. simpl. split; [lia | exact E].
  - destruct (IH (S k0) y P2 H) as [k [r [A B]]]. exists k, r. simpl. split; [lia | exact B].
Qed.

Lemma ordered_prefixed bs : forall k0, prefixed_from k0 bs -> Z.of_nat (k0 + length bs) <= 1000000 -> ordered bs.
Proof.
  induction bs as [|b bs IH]; intros k0 P L; [exact I|].
  simpl in P. destruct P as [P1 P2]. simpl. split.
  - intros x y Hx Hy. destruct (P1 x Hx) as [rx ->].
    destruct (in_concat_prefixed bs (S k0) y P2 Hy) as [k [ry [A ->]]].
    apply prefix_lt; simpl in L; lia.
  - apply (IH (S k0) P2). simpl in L. lia.
Qed.

(* ------------------------------------------------------------------ the main lemma: binding a partially parameterised
   circuit positionally = binding every symbolic layer locally *)
Definition item (i : individual V) (S' : list nat) (f : nat -> list V) (kl : nat * layer) : circuitV * list V :=
  if mem_nat (fst kl) S' then (sym false kl, f (fst kl)) else (bound_block false (layer_values i) kl, []).

Definition mix (i : individual V) (S' : list nat) (f : nat -> list V) (k : nat) : list V :=
  if mem_nat k S' then f k else layer_values i k.

Lemma bound_block_no_params (g : nat -> list V) kl :
  length (g (fst kl)) = Z.to_nat (layer_n_parameters (snd kl)) ->
  circuit_params (bound_block false g kl) = [].
Proof.
  intros L. unfold bound_block, local_bind. cbn [fst snd]. apply bound_no_params. intros n Hn.
  destruct kl as [k l]. cbn [fst snd] in *.
  destruct (lookup_combine n (sort_names (circuit_params (sym false (k, l)))) (g k)) as [v [A _]].
  - apply in_sort. exact Hn.
  - rewrite sort_length, sym_params_length. lia.
  - exists v. exact A.
Qed.

Section Items.
Variables (i : individual V) (S' : list nat) (f : nat -> list V).

Lemma items_fst el : map fst (map (item i S' f) el) = map (block false i S') el.
Proof.
  rewrite map_map. apply map_ext. intros kl. unfold item, block. destruct (mem_nat (fst kl) S'); reflexivity.
Qed.

Lemma items_snd el :
  concat (map snd (map (item i S' f) el)) = flat_map (fun k => if mem_nat k S' then f k else []) (map fst el).
Proof.
  induction el as [|kl el IH]; [reflexivity|]. cbn [map concat flat_map]. rewrite IH.
  unfold item at 1. destruct (mem_nat (fst kl) S'); reflexivity.
Qed.

Lemma items_local el :
  (forall kl, In kl el -> length (layer_values i (fst kl)) = Z.to_nat (layer_n_parameters (snd kl))) ->
  map local_bind (map (item i S' f) el) = map (bound_block false (mix i S' f)) el.
Proof.
  intros H. rewrite map_map. apply map_ext_in. intros kl Hin. unfold item, mix, bound_block at 2.
  destruct (mem_nat (fst kl) S') eqn:M; [reflexivity|].
  pose proof (bound_block_no_params (layer_values i) kl (H kl Hin)) as NP.
  unfold local_bind at 1. cbn [fst snd]. rewrite NP. cbn [sort_names fold_right combine]. apply bind_nil.
Qed.

Lemma items_forall el :
  (forall kl, In kl el -> length (layer_values i (fst kl)) = Z.to_nat (layer_n_parameters (snd kl))) ->
  (forall kl, In kl el -> mem_nat (fst kl) S' = true -> length (f (fst kl)) = Z.to_nat (layer_n_parameters (snd kl))) ->
  Forall (fun it => length (circuit_params (fst it)) = length (snd it)) (map (item i S' f) el).
Proof.
  intros H1 H2. apply Forall_forall. intros it Hit. apply in_map_iff in Hit as [kl [<- Hin]].
  unfold item. destruct (mem_nat (fst kl) S') eqn:M; cbn [fst snd].
  - destruct kl as [k l]. rewrite sym_params_length. symmetry. apply (H2 (k, l) Hin M).
  - rewrite (bound_block_no_params (layer_values i) kl (H1 kl Hin)). reflexivity.
Qed.

Lemma items_prefixed : forall ls k0,
  (forall kl, In kl (enum k0 ls) -> length (layer_values i (fst kl)) = Z.to_nat (layer_n_parameters (snd kl))) ->
  prefixed_from k0 (map (fun it => circuit_params (fst it)) (map (item i S' f) (enum k0 ls))).
Proof.
  induction ls as [|l ls IH]; intros k0 H; [exact I|].
  rewrite enum_cons. cbn [map prefixed_from]. split.
  - unfold item. cbn [fst]. destruct (mem_nat k0 S'); cbn [fst].
    + intros n Hn. eapply sym_params_prefixed. exact Hn.
    + rewrite (bound_block_no_params (layer_values i) (k0, l)); [intros n []|].
      apply H. rewrite enum_cons. left. reflexivity.
  - apply IH. intros kl Hin. apply H. rewrite enum_cons. right. exact Hin.
Qed.
End Items.

Theorem assign_partial (i : individual V) (S : list Z) (f : nat -> list V) :
  individual_is_valid i = true ->
  Z.of_nat (length (i_layers i)) <= 1000000 ->
  (forall k l, nth_error (i_layers i) k = Some l -> mem_nat k (wrap_set i S) = true ->
               length (f k) = Z.to_nat (layer_n_parameters l)) ->
  exists c, partially_parameterized false i S = Ok c /\
            c = concat (map (block false i (wrap_set i S)) (enum 0 (i_layers i))) /\
            assign_positional c (values_for f (wrap_set i S) (length (i_layers i)))
            = Ok (bound_with false (i_layers i) (mix i (wrap_set i S) f)).
Proof.
  intros Val Len Hf. set (S' := wrap_set i S). set (ls := i_layers i).
  pose proof (valid_lengths i Val) as H1. fold ls in H1.
  assert (H2 : forall k l, In (k, l) (enum 0 ls) -> mem_nat k S' = true -> length (f k) = Z.to_nat (layer_n_parameters l)).
  { intros k l Hin M. apply enum_in in Hin as [_ N]. rewrite Nat.sub_0_r in N. apply (Hf k l N M). }
  unfold partially_parameterized. fold S' ls. rewrite (pp_blocks_ok false i S' ls 0 H1). cbn [bind].
  eexists. split; [reflexivity|]. split; [reflexivity|].
  set (items := map (item i S' f) (enum 0 ls)).
  assert (H1' : forall kl, In kl (enum 0 ls) -> length (layer_values i (fst kl)) = Z.to_nat (layer_n_parameters (snd kl))).
  { intros [k l] Hin. apply (H1 k l Hin). }
  assert (H2' : forall kl, In kl (enum 0 ls) -> mem_nat (fst kl) S' = true -> length (f (fst kl)) = Z.to_nat (layer_n_parameters (snd kl))).
  { intros [k l] Hin. apply (H2 k l Hin). }
  pose proof (items_fst i S' f (enum 0 ls)) as A. pose proof (items_snd i S' f (enum 0 ls)) as B.
  pose proof (items_local i S' f (enum 0 ls) H1') as C. pose proof (items_prefixed i S' f ls 0 H1') as D.
  pose proof (items_forall i S' f (enum 0 ls) H1' H2') as E. fold items in A, B, C, D, E.
  rewrite enum_fst in B.
  pose proof (ordered_prefixed _ 0 D) as O. rewrite map_length in O. unfold items in O at 1.
  rewrite map_length in O. unfold enum in O at 1. rewrite combine_length, seq_length, Nat.min_id in O.
  specialize (O ltac:(unfold ls; simpl; lia)).
  destruct (bind_blocks items O E) as [BL BB]. cbv zeta in BL, BB.
  rewrite A in BL, BB. unfold values_for. rewrite <- B.
  unfold assign_positional. rewrite BL, Nat.eqb_refl. rewrite BB, C. reflexivity.
Qed.

(* ------------------------------------------------------------------ consequences *)
Lemma mem_nat_In k l : mem_nat k l = true <-> In k l.
Proof.
  unfold mem_nat. rewrite existsb_exists. split.
  - intros [x [H E]]. apply Nat.eqb_eq in E. subst. exact H.
  - intros H. exists k. split; [exact H | apply Nat.eqb_refl].
Qed.

Lemma bound_with_ext legacy ls (g1 g2 : nat -> list V) :
  (forall k, (k < length ls)%nat -> g1 k = g2 k) -> bound_with legacy ls g1 = bound_with legacy ls g2.
Proof.
  intros H. unfold bound_with. f_equal. apply map_ext_in. intros [k l] Hin.
  unfold bound_block. cbn [fst]. rewrite H; [reflexivity|].
  apply enum_in in Hin as [_ N]. rewrite Nat.sub_0_r in N. apply nth_error_Some. congruence.
Qed.

Lemma by_layer_ok (i : individual V) :
  individual_is_valid i = true ->
  layer_blocks false i = Ok (map (bound_block false (layer_values i)) (enum 0 (i_layers i))) /\
  by_layer false i = Ok (bound_with false (i_layers i) (layer_values i)).
Proof.
  intros Val. unfold by_layer, layer_blocks, partially_parameterized. cbn [wrap_set map].
  rewrite (pp_blocks_ok false i [] (i_layers i) 0 (valid_lengths i Val)). cbn [bind]. split; reflexivity.
Qed.

(* all slices together are the whole value tuple *)
Lemma firstn_add_split {A} (l : list A) a b : firstn (a + b) l = firstn a l ++ firstn b (skipn a l).
Proof.
  revert l. induction a as [|a IH]; intros l; [reflexivity|].
  destruct l as [|x l]; [rewrite firstn_nil; simpl; rewrite firstn_nil; reflexivity|]. simpl. rewrite IH. reflexivity.
Qed.

Lemma slices_prefix (i : individual V) m :
  (m <= length (i_layers i))%nat ->
  flat_map (layer_values i) (seq 0 m) = firstn (layer_offset (i_layers i) m) (i_values i).
Proof.
  induction m as [|m IH]; intros Hm.
  - simpl. unfold layer_offset. simpl. reflexivity.
  - rewrite seq_S, flat_map_app, IH by lia. cbn [flat_map plus]. rewrite app_nil_r.
    unfold layer_values.
    assert (E : layer_offset (i_layers i) (S m) = (layer_offset (i_layers i) m + layer_count (i_layers i) m)%nat).
    { unfold layer_offset, layer_count. destruct (nth_error (i_layers i) m) as [l|] eqn:N.
      - rewrite (n_params_firstn_S m _ l N). pose proof (n_params_of_nonneg (firstn m (i_layers i))).
        pose proof (layer_n_parameters_nonneg l). lia.
      - apply nth_error_None in N. lia. }
    rewrite E. symmetry. apply firstn_add_split.
Qed.

Lemma all_slices (i : individual V) :
  individual_is_valid i = true -> flat_map (layer_values i) (seq 0 (length (i_layers i))) = i_values i.
Proof.
  intros Val. rewrite slices_prefix by lia. apply valid_parts in Val as [_ [_ LV]].
  unfold layer_offset. rewrite firstn_all. apply firstn_all2. lia.
Qed.

Lemma wrap_all (i : individual V) k : (k < length (i_layers i))%nat -> mem_nat k (wrap_set i (all_layers i)) = true.
Proof.
  intros H. apply mem_nat_In. unfold wrap_set, all_layers. rewrite map_map. apply in_map_iff.
  exists k. split; [|apply in_seq; lia]. unfold wrap_layer_id. rewrite Z.mod_small by lia. lia.
Qed.

Lemma flat_map_ext_in {A B} (f g : A -> list B) l : (forall x, In x l -> f x = g x) -> flat_map f l = flat_map g l.
Proof.
  induction l as [|x l IH]; intros H; [reflexivity|]. simpl. rewrite H by (left; reflexivity).
  rewrite IH; [reflexivity|]. intros y Hy. apply H. right. exact Hy.
Qed.

Theorem concrete_ok (i : individual V) :
  individual_is_valid i = true -> Z.of_nat (length (i_layers i)) <= 1000000 ->
  concrete false i = Ok (bound_with false (i_layers i) (layer_values i)).
Proof.
  intros Val Len.
  destruct (assign_partial i (all_layers i) (layer_values i) Val Len) as [c [P [_ A]]].
  { intros k l N _. apply layer_values_length; assumption. }
  unfold concrete, parameterized. rewrite P. cbn [bind].
  assert (EV : values_for (layer_values i) (wrap_set i (all_layers i)) (length (i_layers i)) = i_values i).
  { unfold values_for. transitivity (flat_map (layer_values i) (seq 0 (length (i_layers i)))); [|apply all_slices; exact Val].
    apply flat_map_ext_in. intros k Hk.
    apply in_seq in Hk. rewrite wrap_all by lia. reflexivity. }
  rewrite EV in A. rewrite A. f_equal. apply bound_with_ext. intros k Hk. unfold mix. rewrite wrap_all by exact Hk. reflexivity.
Qed.

(* C04_views_agree *)
Theorem views_agree (i : individual V) (S : list Z) :
  individual_is_valid i = true -> Z.of_nat (length (i_layers i)) <= 1000000 ->
  exists c full,
    partially_parameterized false i S = Ok c /\
    concrete false i = Ok full /\ by_layer false i = Ok full /\
    assign_positional c (values_for (layer_values i) (wrap_set i S) (length (i_layers i))) = Ok full.
Proof.
  intros Val Len.
  destruct (assign_partial i S (layer_values i) Val Len) as [c [P [_ A]]].
  { intros k l N _. apply layer_values_length; assumption. }
  exists c, (bound_with false (i_layers i) (layer_values i)).
  split; [exact P|]. split; [apply concrete_ok; assumption|]. split; [apply by_layer_ok; exact Val|].
  rewrite A. f_equal. apply bound_with_ext. intros k _. unfold mix. destruct (mem_nat k (wrap_set i S)); reflexivity.
Qed.

Lemma values_for_single_aux (f : nat -> list V) k : forall len a,
  flat_map (fun j => if mem_nat j [k] then f j else []) (seq a len)
  = if Nat.leb a k && Nat.ltb k (a + len) then f k else [].
Proof.
  induction len as [|len IH]; intros a.
  - simpl. destruct (Nat.leb_spec a k), (Nat.ltb_spec k (a + 0)); simpl; try reflexivity; lia.
  - cbn [seq flat_map]. rewrite IH. cbn [mem_nat existsb]. rewrite orb_false_r.
    destruct (Nat.eqb_spec a k) as [->|NE].
    + destruct (Nat.leb_spec (S k) k), (Nat.leb_spec k k), (Nat.ltb_spec k (k + S len)); simpl; try lia.
      apply app_nil_r.
    + destruct (Nat.leb_spec (S a) k), (Nat.leb_spec a k), (Nat.ltb_spec k (S a + len)), (Nat.ltb_spec k (a + S len));
        simpl; try reflexivity; lia.
Qed.

Lemma values_for_single (f : nat -> list V) k n : (k < n)%nat -> values_for f [k] n = f k.
Proof.
  intros H. unfold values_for. rewrite values_for_single_aux.
  destruct (Nat.leb_spec 0 k), (Nat.ltb_spec k (0 + n)); simpl; try reflexivity; lia.
Qed.

(* C04_layer_update *)
Theorem layer_update (i : individual V) (layer_id : Z) (vs : list V) (i' : individual V) :
  individual_is_valid i = true -> Z.of_nat (length (i_layers i)) <= 1000000 ->
  change_layer_parameter_values i layer_id vs = Ok i' ->
  let k := wrap_layer_id i layer_id in
  exists c bs bs',
    partially_parameterized false i [layer_id] = Ok c /\
    assign_positional c vs = concrete false i' /\
    layer_blocks false i = Ok bs /\ layer_blocks false i' = Ok bs' /\
    concrete false i = Ok (concat bs) /\ concrete false i' = Ok (concat bs') /\
    length bs' = length bs /\
    forall j, j <> k -> nth_error bs' j = nth_error bs j.
Proof.
  intros Val Len Ch k.
  destruct (change_layer_parameter_values_spec i layer_id vs Val) as [Hk [HOk HErr]]. fold k in Hk, HOk, HErr.
  assert (Lvs : length vs = layer_count (i_layers i) k).
  { destruct (Nat.eq_dec (length vs) (layer_count (i_layers i) k)) as [E|NE]; [exact E|].
    rewrite (HErr NE) in Ch. discriminate. }
  destruct (HOk Lvs) as [i2 [E2 [Val' [Q' [Ls' [LVk [LVo _]]]]]]]. rewrite Ch in E2. inversion E2; subst i2. clear E2.
  destruct (assign_partial i [layer_id] (fun _ => vs) Val Len) as [c [P [_ A]]].
  { intros j l N M. cbn [wrap_set map] in M. fold k in M. apply mem_nat_In in M. destruct M as [<-|[]].
    rewrite Lvs. unfold layer_count. rewrite N. reflexivity. }
  cbn [wrap_set map] in A. fold k in A. rewrite values_for_single in A by exact Hk.
  assert (Len' : Z.of_nat (length (i_layers i')) <= 1000000) by (rewrite Ls'; exact Len).
  pose proof (concrete_ok i' Val' Len') as C'. rewrite Ls' in C'.
  pose proof (concrete_ok i Val Len) as C.
  destruct (by_layer_ok i Val) as [B _]. destruct (by_layer_ok i' Val') as [B' _]. rewrite Ls' in B'.
  exists c, (map (bound_block false (layer_values i)) (enum 0 (i_layers i))),
         (map (bound_block false (layer_values i')) (enum 0 (i_layers i))).
  split; [exact P|]. split.
  { rewrite A, C'. f_equal. apply bound_with_ext. intros j _. unfold mix.
    destruct (Nat.eq_dec j k) as [->|NE].
    - cbn [mem_nat existsb]. rewrite Nat.eqb_refl. cbn [orb]. symmetry. exact LVk.
    - cbn [mem_nat existsb]. assert (E : Nat.eqb j k = false) by (apply Nat.eqb_neq; exact NE). rewrite E. cbn [orb].
      symmetry. apply LVo. exact NE. }
  split; [exact B|]. split; [exact B'|]. split; [exact C|]. split; [exact C'|].
  split; [rewrite !map_length; reflexivity|].
  intros j NE. rewrite !nth_error_map.
  destruct (nth_error (enum 0 (i_layers i)) j) as [[k' l]|] eqn:N; [|reflexivity]. cbn [option_map].
  assert (k' = j).
  { assert (Hf : nth_error (map fst (enum 0 (i_layers i))) j = Some k') by (rewrite nth_error_map, N; reflexivity).
    rewrite enum_fst in Hf. assert (j < length (i_layers i))%nat.
    { rewrite <- (seq_length (length (i_layers i)) 0). apply nth_error_Some. congruence. }
    rewrite (nth_error_nth' _ O) in Hf by (rewrite seq_length; lia). rewrite seq_nth in Hf by lia. inversion Hf. lia. }
  subst k'. unfold bound_block. cbn [fst]. rewrite (LVo j NE). reflexivity.
Qed.

End Proofs.

(* ------------------------------------------------------------------ legacy naming (before c0eba1b): 11 layers *)
Definition c04_witness : individual Z :=
  mkInd 1 (repeat (mkLayer 1 [GRot 0]) 11)
    [1; 2; 3; 4; 5; 6; 7; 8; 9; 10; 11; 12; 13; 14; 15; 16; 17; 18; 19; 20; 21; 22; 23; 24; 25; 26; 27; 28; 29; 30; 31; 32; 33].

Lemma legacy_views_differ :
  individual_is_valid c04_witness = true /\ length (i_layers c04_witness) = 11%nat /\
  exists a b, concrete true c04_witness = Ok a /\ by_layer true c04_witness = Ok b /\ a <> b /\
              concrete false c04_witness = Ok b /\ by_layer false c04_witness = Ok b.
Proof.
  split; [reflexivity|]. split; [reflexivity|].
  eexists. eexists. split; [vm_compute; reflexivity|]. split; [vm_compute; reflexivity|].
  split; [discriminate|]. split; vm_compute; reflexivity.
Qed.
