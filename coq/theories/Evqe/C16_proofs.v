(* The statements of Props/C16.v, assembled from GenomeOps_proofs.v, Denote_proofs.v and RandLayer.v. *)
From QV Require Import Evqe.Genome Evqe.GenomeFacts Evqe.GenomeOps_proofs Evqe.Stream Evqe.RandLayer Evqe.RandLayer_proofs
  Evqe.Circuit Evqe.Denote Evqe.Denote_proofs.
Open Scope Z_scope.

Theorem C16_errors_proof : forall (V : Type) (i : individual V),
  individual_is_valid i = true ->
  (forall k, remove_layers false i k = Err IndividualException <-> ~ (0 < k < Z.of_nat (length (i_layers i)))) /\
  (forall k, is_ok (remove_layers false i k) = true <-> 0 < k < Z.of_nat (length (i_layers i))) /\
  (forall vs, change_parameter_values i vs = Err IndividualException <-> Z.of_nat (length vs) <> n_params_of (i_layers i)) /\
  (forall vs, is_ok (change_parameter_values i vs) = true <-> Z.of_nat (length vs) = n_params_of (i_layers i)) /\
  (forall layer_id vs, change_layer_parameter_values i layer_id vs = Err IndividualException
                       <-> length vs <> layer_count (i_layers i) (wrap_layer_id i layer_id)) /\
  (forall layer_id vs, is_ok (change_layer_parameter_values i layer_id vs) = true
                       <-> length vs = layer_count (i_layers i) (wrap_layer_id i layer_id)) /\
  (forall new nv, add_layers i new nv = Err IndividualException
                  <-> ~ (good_layers (i_qubits i) new /\ Z.of_nat (length nv) = n_params_of new)).
Proof.
  intros V i Val.
  assert (R : forall k, (0 < k < Z.of_nat (length (i_layers i)) -> is_ok (remove_layers false i k) = true) /\
                        (~ (0 < k < Z.of_nat (length (i_layers i))) -> remove_layers false i k = Err IndividualException)).
  { intros k. destruct (remove_layers_spec i k Val) as [A B]. split; [|exact B].
    intros H. destruct (A H) as [i' [E _]]. rewrite E. reflexivity. }
  assert (C : forall vs, (Z.of_nat (length vs) = n_params_of (i_layers i) -> is_ok (change_parameter_values i vs) = true) /\
                         (Z.of_nat (length vs) <> n_params_of (i_layers i) -> change_parameter_values i vs = Err IndividualException)).
  { intros vs. destruct (change_parameter_values_spec i vs Val) as [A B]. split; [|exact B].
    intros H. destruct (A H) as [i' [E _]]. rewrite E. reflexivity. }
  assert (L : forall lid vs, (length vs = layer_count (i_layers i) (wrap_layer_id i lid) -> is_ok (change_layer_parameter_values i lid vs) = true) /\
                             (length vs <> layer_count (i_layers i) (wrap_layer_id i lid) -> change_layer_parameter_values i lid vs = Err IndividualException)).
  { intros lid vs. destruct (change_layer_parameter_values_spec i lid vs Val) as [_ [A B]]. split; [|exact B].
    intros H. destruct (A H) as [i' [E _]]. rewrite E. reflexivity. }
  split; [|split; [|split; [|split; [|split; [|split]]]]].
  - intros k. destruct (R k) as [A B]. split; [|exact B]. intros E H. apply A in H. rewrite E in H. discriminate.
  - intros k. destruct (R k) as [A B]. split; [|exact A]. intros E.
    destruct (Z_lt_dec 0 k) as [H1|H1]; [destruct (Z_lt_dec k (Z.of_nat (length (i_layers i)))) as [H2|H2]|]; [lia| |];
      rewrite B in E by lia; discriminate.
  - intros vs. destruct (C vs) as [A B]. split; [|exact B]. intros E H. apply A in H. rewrite E in H. discriminate.
  - intros vs. destruct (C vs) as [A B]. split; [|exact A]. intros E.
    destruct (Z.eq_dec (Z.of_nat (length vs)) (n_params_of (i_layers i))) as [H|H]; [exact H|].
    rewrite (B H) in E. discriminate.
  - intros lid vs. destruct (L lid vs) as [A B]. split; [|exact B]. intros E H. apply A in H. rewrite E in H. discriminate.
  - intros lid vs. destruct (L lid vs) as [A B]. split; [|exact A]. intros E.
    destruct (Nat.eq_dec (length vs) (layer_count (i_layers i) (wrap_layer_id i lid))) as [H|H]; [exact H|].
    rewrite (B H) in E. discriminate.
  - intros new nv. destruct (add_layers_spec i new nv Val) as [A B]. split; [|exact B].
    intros E H. destruct (A H) as [i' [E' _]]. rewrite E in E'. discriminate.
Qed.

Lemma add_random_layers_too_few legacy (i : individual Z) nl randomize seed s fuel :
  nl < 1 -> add_random_layers legacy i nl randomize seed s fuel = Err IndividualException.
Proof. intros H. unfold add_random_layers. assert (E : (nl <? 1) = true) by (apply Z.ltb_lt; exact H). rewrite E. reflexivity. Qed.

(* the random append of the C20 model is add_layers with the generated layers and values *)
Lemma add_random_layers_is_add_layers legacy (i : individual Z) nl randomize seed s fuel i' rest :
  add_random_layers legacy i nl randomize seed s fuel = Ok (i', rest) ->
  exists new vs, add_layers i new vs = Ok i' /\ (randomize = false -> vs = repeat 0 (Z.to_nat (n_params_of new))).
Proof.
  unfold add_random_layers. destruct (nl <? 1); [discriminate|].
  intros H. apply bind_ok in H as [s0 [_ H]]. apply bind_ok in H as [prev [_ H]].
  apply bind_ok in H as [first [_ H]]. apply bind_ok in H as [ls [_ H]]. apply bind_ok in H as [vs [RV H]].
  apply bind_ok in H as [i2 [A H]]. inversion H; subst. exists (fst ls), (fst vs). split; [exact A|].
  intros ->. unfold random_values in RV. inversion RV. reflexivity.
Qed.

Theorem C16_change_only_values_proof : forall (V : Type) (i : individual V),
  individual_is_valid i = true ->
  (forall vs, Z.of_nat (length vs) = n_params_of (i_layers i) ->
     exists i', change_parameter_values i vs = Ok i' /\ individual_is_valid i' = true /\
                i_qubits i' = i_qubits i /\ i_layers i' = i_layers i /\ i_values i' = vs) /\
  (forall layer_id vs,
     let k := wrap_layer_id i layer_id in
     (k < length (i_layers i))%nat /\
     (length vs = layer_count (i_layers i) k ->
      exists i', change_layer_parameter_values i layer_id vs = Ok i' /\ individual_is_valid i' = true /\
                 i_qubits i' = i_qubits i /\ i_layers i' = i_layers i /\
                 layer_values i' k = vs /\
                 (forall j, j <> k -> layer_values i' j = layer_values i j) /\
                 length (i_values i') = length (i_values i))).
Proof.
  intros V i Val. split.
  - intros vs. exact (proj1 (change_parameter_values_spec i vs Val)).
  - intros layer_id vs. destruct (change_layer_parameter_values_spec i layer_id vs Val) as [A [B _]]. exact (conj A B).
Qed.

(* a valid individual on 0 qubits exists (one layer without gates); appending to it raises the layer exception *)
Lemma add_random_layers_zero_qubits legacy (i : individual Z) nl randomize seed s fuel :
  individual_is_valid i = true -> i_qubits i = 0 -> 1 <= nl ->
  exists e, add_random_layers legacy i nl randomize seed s fuel = Err e /\
            (e = LayerException \/ is_draw_error e = true).
Proof.
  intros V Q Hl. unfold add_random_layers.
  assert (E : (nl <? 1) = false) by (apply Z.ltb_ge; lia). rewrite E.
  destruct (draw_seed seed s) as [s0|e] eqn:DS; cbn [bind].
  2:{ exists e. split; [reflexivity|]. right. eapply draw_seed_err; eauto. }
  apply valid_parts in V as [NE [G _]].
  destruct (exists_last NE) as [a [lst EL]].
  assert (LR : last_res (i_layers i) = Ok lst) by (rewrite EL; apply last_res_app).
  rewrite LR. cbn [bind].
  destruct (i_layers i) as [|first tl] eqn:ELs; [congruence|]. cbn [head_res bind].
  assert (Qf : l_qubits first = 0) by (rewrite <- Q; apply G; left; reflexivity). rewrite Qf.
  destruct (Z.to_nat nl) as [|k] eqn:EK; [lia|]. cbn [random_layers].
  destruct (new_random_seed s0) as [[sd s1]|e] eqn:NS; cbn [bind fst snd].
  2:{ exists e. split; [reflexivity|]. right. eapply new_random_seed_err; eauto. }
  exists LayerException. split; [reflexivity | left; reflexivity].
Qed.

Section ZeroRandomAppend.
Context {M : Type}.
Variables (mul : M -> M -> M) (one : M) (sem : instr Z -> M).
Hypothesis mul_one_r : forall m, mul m one = m.
Hypothesis sem_id : forall q, sem (IId q) = one.
Hypothesis sem_u_zero : forall q, sem (IU q (AVal 0) (AVal 0) (AVal 0)) = one.
Hypothesis sem_cu3_zero : forall c t, sem (ICU3 c t (AVal 0) (AVal 0) (AVal 0)) = one.

Theorem random_append_zero_identity legacy (i : individual Z) nl seed s fuel i' rest :
  individual_is_valid i = true ->
  add_random_layers legacy i nl false seed s fuel = Ok (i', rest) ->
  Z.of_nat (length (i_layers i')) <= 1000000 ->
  exists c c', concrete false i = Ok c /\ concrete false i' = Ok c' /\ den mul one sem c' = den mul one sem c.
Proof.
  intros V A Len. destruct (add_random_layers_is_add_layers legacy i nl false seed s fuel i' rest A) as [new [vs [AL Z0]]].
  rewrite (Z0 eq_refl) in AL.
  assert (Ls : i_layers i' = i_layers i ++ new).
  { pose proof AL as AL'. unfold add_layers in AL'. apply make_individual_ok in AL' as [-> _]. reflexivity. }
  rewrite Ls, app_length in Len.
  exact (append_zero_identity mul one sem 0 mul_one_r sem_id sem_u_zero sem_cu3_zero i new _ i' V Len AL).
Qed.
End ZeroRandomAppend.
