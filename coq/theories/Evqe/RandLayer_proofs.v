(* Proofs for C20 over Evqe/RandLayer.v: the loop invariant of random_layer, validity and redundancy-freedom
   of its result, the fuel bound of the retry loop, chained generation. *)
From QV Require Import Evqe.Genome Evqe.GenomeFacts Evqe.Stream Evqe.RandLayer.
Open Scope Z_scope.

(* ------------------------------------------------------------------ list primitives *)
Lemma list_set_ok {A} (l : list A) i x : (i < length l)%nat -> exists l', list_set l i x = Ok l'.
Proof.
  revert i. induction l as [|h t IH]; intros i H; simpl in H; [lia|].
  destruct i; simpl; [eauto|]. destruct (IH i) as [t' E]; [lia|]. rewrite E. simpl. eauto.
Qed.

Lemma list_set_spec {A} (l : list A) i x l' :
  list_set l i x = Ok l' ->
  length l' = length l /\ nth_error l' i = Some x /\ forall j, j <> i -> nth_error l' j = nth_error l j.
Proof.
  revert i l'. induction l as [|h t IH]; intros i l' H; simpl in H; [discriminate|].
  destruct i.
  - inversion H; subst. simpl. repeat split; auto. intros [|j] Hj; [congruence | reflexivity].
  - apply bind_ok in H as [t' [E H]]. inversion H; subst. apply IH in E as [L [N O]].
    simpl. repeat split; auto. intros [|j] Hj; [reflexivity|]. simpl. apply O. congruence.
Qed.

Lemma remove_first_ok l x : In x l -> exists l', remove_first l x = Ok l'.
Proof.
  induction l as [|h t IH]; simpl; intros H; [contradiction|].
  destruct (Nat.eqb h x) eqn:E; [eauto|].
  destruct H as [H|H]; [subst; rewrite Nat.eqb_refl in E; discriminate|].
  destruct (IH H) as [t' E']. rewrite E'. simpl. eauto.
Qed.

Lemma remove_first_spec l x l' :
  NoDup l -> remove_first l x = Ok l' ->
  NoDup l' /\ (forall y, In y l' <-> In y l /\ y <> x) /\ length l = S (length l').
Proof.
  revert l'. induction l as [|h t IH]; intros l' ND H; simpl in H; [discriminate|].
  inversion ND as [|? ? Hn ND']; subst.
  destruct (Nat.eqb h x) eqn:E.
  - apply Nat.eqb_eq in E. inversion H; subst. split; [exact ND'|]. split; [|reflexivity].
    intros y. split.
    + intros Hy. split; [right; exact Hy|]. intros ->. contradiction.
    + intros [[Hy|Hy] Hne]; [congruence | exact Hy].
  - apply Nat.eqb_neq in E. apply bind_ok in H as [t' [E' H]]. inversion H; subst.
    destruct (IH t' ND' E') as [ND2 [M L]]. split; [|split].
    + constructor; [|exact ND2]. intros Hin. apply M in Hin. tauto.
    + intros y. split.
      * intros [Hy|Hy]; [subst; split; [left; reflexivity | congruence]|].
        apply M in Hy. split; [right|]; tauto.
      * intros [[Hy|Hy] Hne]; [left; exact Hy | right; apply M; tauto].
    + simpl. lia.
Qed.

Lemma NoDup_app_iff_local {A} (l : list A) q : NoDup l -> ~ In q l -> NoDup (l ++ [q]).
Proof.
  induction l as [|h t IH]; simpl; intros ND H; [constructor; [tauto | constructor]|].
  inversion ND; subst. constructor.
  - intros Hin. apply in_app_or in Hin as [Hin|[Hin|[]]]; [contradiction | subst; tauto].
  - apply IH; tauto.
Qed.

Lemma nodup_nat_spec l : nodup_nat l = true -> NoDup l.
Proof.
  induction l as [|x xs IH]; simpl; intros H; [constructor|].
  apply andb_true_iff in H as [H1 H2]. constructor; [|auto].
  intros Hin. apply negb_true_iff in H1.
  assert (existsb (Nat.eqb x) xs = true) by (apply existsb_exists; exists x; split; [exact Hin | apply Nat.eqb_refl]).
  congruence.
Qed.

(* ------------------------------------------------------------------ stream primitives: errors are stream errors *)
(* errors of a single draw: the stream ended or holds a decision of another kind *)
Definition is_draw_error (e : string) : bool := String.eqb e StreamMismatch || String.eqb e StreamExhausted.

Lemma draw_error_stream e : is_draw_error e = true -> is_stream_error e = true /\ e <> OutOfFuel.
Proof.
  unfold is_draw_error, is_stream_error. intros H. split.
  - apply orb_true_iff in H as [H|H]; rewrite H; [reflexivity | rewrite orb_true_r; reflexivity].
  - intros ->. vm_compute in H. discriminate.
Qed.

Lemma draw_seed_err sd s e : draw_seed sd s = Err e -> is_draw_error e = true.
Proof.
  unfold draw_seed. destruct s as [|[] rest]; intros H; try (inversion H; reflexivity).
  destruct (option_eqb Z.eqb seed sd); inversion H; reflexivity.
Qed.

Lemma draw_choice2_err s e : draw_choice 2 s = Err e -> is_draw_error e = true.
Proof.
  unfold draw_choice. simpl. destruct s as [|[] rest]; intros H; try (inversion H; reflexivity).
  destruct (_ && _); inversion H; reflexivity.
Qed.

Lemma draw_sample2_err len s e : (2 <= len)%nat -> draw_sample len 2 s = Err e -> is_stream_error e = true /\ e <> OutOfFuel.
Proof.
  unfold draw_sample. intros L. destruct (Nat.ltb len 2) eqn:E; [apply Nat.ltb_lt in E; lia|].
  destruct s as [|[] rest]; intros H; try (inversion H; split; [reflexivity | discriminate]).
  destruct (_ && _); inversion H; split; [reflexivity | discriminate].
Qed.

Lemma draw_sample2_ok len s idxs s' :
  draw_sample len 2 s = Ok (idxs, s') ->
  exists i j, idxs = [i; j] /\ (i < len)%nat /\ (j < len)%nat /\ i <> j.
Proof.
  unfold draw_sample. destruct (Nat.ltb len 2); [discriminate|].
  destruct s as [|[] rest]; try discriminate.
  destruct (_ && _) eqn:E; [|discriminate]. intros H; inversion H; subst.
  apply andb_true_iff in E as [E Hnd]. apply andb_true_iff in E as [E Hall]. apply andb_true_iff in E as [_ Hlen].
  destruct idxs as [|i [|j [|]]]; simpl in Hlen; try discriminate.
  exists i, j. simpl in Hall, Hnd.
  apply andb_true_iff in Hall as [Hi Hj]. apply andb_true_iff in Hj as [Hj _].
  apply Nat.ltb_lt in Hi, Hj.
  apply andb_true_iff in Hnd as [Hd _]. apply negb_true_iff in Hd.
  apply orb_false_iff in Hd as [Hd _]. apply Nat.eqb_neq in Hd. auto.
Qed.

Lemma draw_random_err s e : draw_random s = Err e -> is_draw_error e = true.
Proof. unfold draw_random. destruct s as [|[] rest]; intros H; inversion H; reflexivity. Qed.

Lemma draw_randoms_spec n : forall s,
  match draw_randoms n s with
  | Ok (vs, _) => length vs = n
  | Err e => is_draw_error e = true
  end.
Proof.
  induction n as [|n IH]; intros s; simpl; [reflexivity|].
  destruct (draw_random s) as [[t s1]|e] eqn:E; simpl; [|eapply draw_random_err; eauto].
  specialize (IH s1). destruct (draw_randoms n s1) as [[vs s2]|e]; simpl; [lia | exact IH].
Qed.

Lemma new_random_seed_err s e : new_random_seed s = Err e -> is_draw_error e = true.
Proof.
  unfold new_random_seed, draw_randint. destruct s as [|[] rest]; intros H; try (inversion H; reflexivity).
  destruct (_ && _); inversion H; reflexivity.
Qed.

(* ------------------------------------------------------------------ the loop invariant *)
Definition gate_ok (gates : list gate) (i : nat) (g : gate) : Prop :=
  match g with
  | GId q | GRot q => q = zq i
  | GCtrl q t => q = zq i /\ exists t', t = zq t' /\ nth_error gates t' = Some (GCRot t q)
  | GCRot q c => q = zq i /\ exists c', c = zq c' /\ nth_error gates c' = Some (GCtrl c q)
  end.

Lemma gate_ok_valid gates i g : gate_ok gates i g -> gate_valid_at gates (zq i) g = Ok true.
Proof.
  unfold gate_valid_at. destruct g as [q|q|q t|q c]; cbn [gate_ok gate_qubit]; intros H.
  - subst. rewrite Z.eqb_refl. reflexivity.
  - subst. rewrite Z.eqb_refl. reflexivity.
  - destruct H as [-> [t' [-> N]]]. rewrite Z.eqb_refl. cbn [negb].
    unfold zq at 1. rewrite (py_index_Some _ _ _ N). cbn [bind]. rewrite Z.eqb_refl. reflexivity.
  - destruct H as [-> [c' [-> N]]]. rewrite Z.eqb_refl. cbn [negb].
    unfold zq at 1. rewrite (py_index_Some _ _ _ N). cbn [bind]. rewrite Z.eqb_refl. reflexivity.
Qed.

Definition norep_at (prev : option layer) (i : nat) (g : gate) : Prop :=
  match prev with
  | None => True
  | Some p => forall pg, nth_error (l_gates p) i = Some pg -> repeats pg g = false
  end.

Record inv (n : nat) (prev : option layer) (gates : list gate) (crq : list nat) : Prop := {
  inv_len : length gates = n;
  inv_nodup : NoDup crq;
  inv_cand : forall q, In q crq -> nth_error gates q = Some (GId (zq q));
  inv_ok : forall i g, nth_error gates i = Some g -> gate_ok gates i g /\ norep_at prev i g
}.

Lemma zq_inj a b : zq a = zq b -> a = b.
Proof. unfold zq. lia. Qed.

(* writing an identity or rotation at a position that holds an identity *)
Lemma inv_set1 n prev gates crq q g gates' crq' :
  inv n prev gates crq ->
  nth_error gates q = Some (GId (zq q)) ->
  (g = GId (zq q) \/ g = GRot (zq q)) ->
  norep_at prev q g ->
  list_set gates q g = Ok gates' ->
  NoDup crq' -> (forall x, In x crq' -> In x crq /\ x <> q) ->
  inv n prev gates' crq'.
Proof.
  intros [L ND C OK] Hq Hg NR S ND' Sub.
  apply list_set_spec in S as [L' [Nq No]].
  constructor; auto.
  - congruence.
  - intros x Hx. apply Sub in Hx as [Hx Hne]. rewrite No by exact Hne. apply C; exact Hx.
  - intros i g0 Hi. destruct (Nat.eq_dec i q) as [->|Hne].
    + rewrite Nq in Hi. inversion Hi; subst g0. split; [|exact NR].
      destruct Hg as [->| ->]; reflexivity.
    + rewrite No in Hi by exact Hne. destruct (OK i g0 Hi) as [G R]. split; [|exact R].
      destruct g0 as [q0|q0|q0 t|q0 c]; simpl in *; auto.
      * destruct G as [E [t' [Et N]]]. split; [exact E|]. exists t'. split; [exact Et|].
        rewrite No; [exact N|]. intros ->. rewrite Hq in N. discriminate.
      * destruct G as [E [c' [Ec N]]]. split; [exact E|]. exists c'. split; [exact Ec|].
        rewrite No; [exact N|]. intros ->. rewrite Hq in N. discriminate.
Qed.

(* writing a control / controlled rotation pair at two different positions that hold identities *)
Lemma inv_set2 n prev gates crq r c g1 g2 crq' :
  inv n prev gates crq ->
  r <> c ->
  nth_error gates r = Some (GId (zq r)) -> nth_error gates c = Some (GId (zq c)) ->
  list_set gates c (GCtrl (zq c) (zq r)) = Ok g1 ->
  list_set g1 r (GCRot (zq r) (zq c)) = Ok g2 ->
  norep_at prev r (GCRot (zq r) (zq c)) ->
  NoDup crq' -> (forall x, In x crq' -> In x crq /\ x <> r /\ x <> c) ->
  inv n prev g2 crq'.
Proof.
  intros [L ND C OK] Hrc Hr Hc S1 S2 NR ND' Sub.
  apply list_set_spec in S1 as [L1 [N1 O1]]. apply list_set_spec in S2 as [L2 [N2 O2]].
  assert (Nc : nth_error g2 c = Some (GCtrl (zq c) (zq r))) by (rewrite O2 by congruence; exact N1).
  assert (No : forall j, j <> r -> j <> c -> nth_error g2 j = nth_error gates j).
  { intros j Hjr Hjc. rewrite O2 by exact Hjr. apply O1; exact Hjc. }
  constructor; auto.
  - congruence.
  - intros x Hx. apply Sub in Hx as [Hx [H1 H2]]. rewrite No by assumption. apply C; exact Hx.
  - intros i g0 Hi. destruct (Nat.eq_dec i r) as [->|Hir]; [|destruct (Nat.eq_dec i c) as [->|Hic]].
    + rewrite N2 in Hi. inversion Hi; subst g0. split; [|exact NR]. simpl. split; [reflexivity|].
      exists c. split; [reflexivity | exact Nc].
    + rewrite Nc in Hi. inversion Hi; subst g0. split.
      * simpl. split; [reflexivity|]. exists r. split; [reflexivity | exact N2].
      * unfold norep_at. destruct prev; [|exact I]. intros pg _. destruct pg; reflexivity.
    + rewrite No in Hi by assumption. destruct (OK i g0 Hi) as [G R]. split; [|exact R].
      destruct g0 as [q0|q0|q0 t|q0 c0]; simpl in *; auto.
      * destruct G as [E [t' [Et N]]]. split; [exact E|]. exists t'. split; [exact Et|].
        rewrite No; [exact N| |]; intros ->; [rewrite Hr in N | rewrite Hc in N]; discriminate.
      * destruct G as [E [c' [Ec N]]]. split; [exact E|]. exists c'. split; [exact Ec|].
        rewrite No; [exact N| |]; intros ->; [rewrite Hr in N | rewrite Hc in N]; discriminate.
Qed.

(* the previous layer, if any, has exactly n gates *)
Definition prev_len (n : nat) (prev : option layer) : Prop :=
  match prev with None => True | Some p => length (l_gates p) = n end.

Lemma prev_lookup n prev p q : prev = Some p -> prev_len n prev -> (q < n)%nat ->
  exists g, nth_error (l_gates p) q = Some g /\ py_index (l_gates p) (zq q) = Ok g.
Proof.
  intros -> L Hq. simpl in L. destruct (nth_error (l_gates p) q) as [g|] eqn:E.
  - exists g. split; [reflexivity|]. apply py_index_Some; exact E.
  - apply nth_error_None in E. lia.
Qed.

(* ------------------------------------------------------------------ first loop *)
Lemma qubit_pass_inv n prev : forall qs gates crq s,
  prev_len n prev ->
  inv n prev gates crq ->
  NoDup qs ->
  (forall q, In q qs -> (q < n)%nat /\ ~ In q crq /\ nth_error gates q = Some (GId (zq q))) ->
  match qubit_pass prev qs gates crq s with
  | Ok (gates', crq', _) => inv n prev gates' crq' /\ (length crq' <= length crq + length qs)%nat
  | Err e => is_draw_error e = true
  end.
Proof.
  induction qs as [|q rest IH]; intros gates crq s PL I NDq Hqs; simpl.
  - split; [exact I | lia].
  - inversion NDq as [|? ? Hnq NDr]; subst.
    destruct (Hqs q (or_introl eq_refl)) as [Hqn [Hqc Hqg]].
    (* adding q as a candidate *)
    assert (Icand : inv n prev gates (crq ++ [q])).
    { destruct I as [L ND C OK]. constructor; auto.
      - apply NoDup_app_iff_local. exact ND. exact Hqc.
      - intros x Hx. apply in_app_or in Hx as [Hx|[<-|[]]]; [apply C; exact Hx | exact Hqg]. }
    assert (Hrest_cand : forall x, In x rest -> (x < n)%nat /\ ~ In x (crq ++ [q]) /\ nth_error gates x = Some (GId (zq x))).
    { intros x Hx. destruct (Hqs x (or_intror Hx)) as [A [B Cc]]. repeat split; auto.
      intros Hin. apply in_app_or in Hin as [Hin|[<-|[]]]; [contradiction | contradiction]. }
    assert (Step_cand : forall s0,
      match qubit_pass prev rest gates (crq ++ [q]) s0 with
      | Ok (gates', crq', _) => inv n prev gates' crq' /\ (length crq' <= length crq + S (length rest))%nat
      | Err e => is_draw_error e = true
      end).
    { intros s0. specialize (IH gates (crq ++ [q]) s0 PL Icand NDr Hrest_cand).
      destruct (qubit_pass prev rest gates (crq ++ [q]) s0) as [[[g' c'] s']|e]; [|exact IH].
      destruct IH as [I' Len]. split; [exact I'|]. rewrite app_length in Len. simpl in Len. lia. }
    (* the free-choice branch *)
    assert (Step_free : norep_at prev q (GRot (zq q)) ->
      match (do d <- draw_choice 2 s;
             if Nat.eqb (fst d) 1 then qubit_pass prev rest gates (crq ++ [q]) (snd d)
             else do gates' <- list_set gates q (GRot (zq q)); qubit_pass prev rest gates' crq (snd d)) with
      | Ok (gates', crq', _) => inv n prev gates' crq' /\ (length crq' <= length crq + S (length rest))%nat
      | Err e => is_draw_error e = true
      end).
    { intros NR. destruct (draw_choice 2 s) as [[idx s1]|e] eqn:D; simpl; [|eapply draw_choice2_err; eauto].
      destruct (Nat.eqb idx 1); [apply Step_cand|].
      destruct (list_set_ok gates q (GRot (zq q))) as [gates' S]; [destruct I; lia|].
      rewrite S. simpl.
      assert (I' : inv n prev gates' crq).
      { apply (inv_set1 n prev gates crq q (GRot (zq q)) gates' crq I Hqg (or_intror eq_refl) NR S); [apply I|].
        intros x Hx. split; [exact Hx|]. intros ->. contradiction. }
      assert (Hrest' : forall x, In x rest -> (x < n)%nat /\ ~ In x crq /\ nth_error gates' x = Some (GId (zq x))).
      { intros x Hx. destruct (Hqs x (or_intror Hx)) as [A [B Cc]]. repeat split; auto.
        apply list_set_spec in S as [_ [_ O]]. rewrite O; [exact Cc|]. intros ->. contradiction. }
      specialize (IH gates' crq s1 PL I' NDr Hrest').
      destruct (qubit_pass prev rest gates' crq s1) as [[[g' c'] s']|e]; [|exact IH].
      destruct IH as [I'' Len]. split; [exact I''|]. lia. }
    destruct prev as [p|] eqn:EP.
    + destruct (prev_lookup n (Some p) p q eq_refl PL Hqn) as [pg [Np Pp]].
      rewrite Pp. simpl.
      destruct (gate_is_rot_or_id pg) eqn:F; [apply Step_cand|].
      apply Step_free. simpl. intros pg' Hpg'. rewrite Np in Hpg'. inversion Hpg'; subst pg'.
      destruct pg; simpl in *; congruence.
    + simpl. apply Step_free. simpl. trivial.
Qed.

(* ------------------------------------------------------------------ the pairing (retry) loop *)
Lemma accepts_norep prev r c : accepts prev r c = true -> norep_at prev r (GCRot (zq r) (zq c)).
Proof.
  unfold accepts, norep_at. destruct prev as [p|]; [|trivial]. intros H pg Hpg.
  apply andb_true_iff in H as [H _]. apply negb_true_iff in H.
  destruct pg as [q|q|q t|q c0]; try reflexivity. simpl.
  destruct ((q =? zq r) && (c0 =? zq c)) eqn:E; [|reflexivity].
  exfalso. apply andb_true_iff in E as [E1 E2]. apply Z.eqb_eq in E1, E2. subst.
  assert (X : existsb (gate_eqb (GCRot (zq r) (zq c))) (l_gates p) = true).
  { apply existsb_exists. exists (GCRot (zq r) (zq c)). split; [eapply nth_error_In; eauto|].
    simpl. rewrite !Z.eqb_refl. reflexivity. }
  congruence.
Qed.

Lemma pair_loop_inv n prev : forall fuel gates crq s acc rej,
  inv n prev gates crq ->
  match pair_loop prev gates crq s fuel acc rej with
  | (acc', rej', r) =>
      (acc <= acc' /\ rej <= rej' /\ (acc' - acc) + (rej' - rej) <= fuel)%nat /\
      match r with
      | Ok (g', c', _) =>
          inv n prev g' c' /\ (length c' < 2)%nat /\ length crq = (length c' + 2 * (acc' - acc))%nat
      | Err e =>
          is_stream_error e = true /\ (2 * (acc' - acc) <= length crq)%nat /\
          (e = OutOfFuel -> ((acc' - acc) + (rej' - rej) = fuel /\ 2 * (acc' - acc) + 2 <= length crq)%nat)
      end
  end.
Proof.
  induction fuel as [|f IH]; intros gates crq s acc rej I.
  - simpl. destruct (Nat.ltb (length crq) 2) eqn:L.
    + apply Nat.ltb_lt in L. split; [lia|]. split; [exact I|]. split; lia.
    + apply Nat.ltb_ge in L. repeat split; try lia.
  - simpl. destruct (Nat.ltb (length crq) 2) eqn:L.
    + apply Nat.ltb_lt in L. split; [lia|]. split; [exact I|]. split; lia.
    + apply Nat.ltb_ge in L.
      destruct (draw_sample (length crq) 2 s) as [[idxs s']|e] eqn:D.
      2:{ destruct (draw_sample2_err _ _ _ L D) as [E1 E2]. repeat split; try lia; try exact E1; contradiction. }
      destruct (draw_sample2_ok _ _ _ _ D) as [i [j [-> [Hi [Hj Hij]]]]].
      destruct (nth_error crq i) as [r|] eqn:Ni; [|apply nth_error_None in Ni; lia].
      destruct (nth_error crq j) as [c|] eqn:Nj; [|apply nth_error_None in Nj; lia].
      assert (Hrc : r <> c).
      { intros ->. apply Hij. destruct I as [_ ND _ _].
        apply (proj1 (NoDup_nth_error crq) ND i j Hi). congruence. }
      assert (Inr : In r crq) by (eapply nth_error_In; eauto).
      assert (Inc : In c crq) by (eapply nth_error_In; eauto).
      destruct (accepts prev r c) eqn:A.
      * pose proof (inv_cand _ _ _ _ I r Inr) as Gr. pose proof (inv_cand _ _ _ _ I c Inc) as Gc.
        assert (Lr : (r < length gates)%nat) by (apply nth_error_Some; congruence).
        assert (Lc : (c < length gates)%nat) by (apply nth_error_Some; congruence).
        destruct (list_set_ok gates c (GCtrl (zq c) (zq r)) Lc) as [g1 S1].
        assert (Lr1 : (r < length g1)%nat) by (apply list_set_spec in S1 as [L1 _]; lia).
        destruct (list_set_ok g1 r (GCRot (zq r) (zq c)) Lr1) as [g2 S2].
        destruct (remove_first_ok crq r Inr) as [c1 R1].
        destruct (remove_first_spec crq r c1 (inv_nodup _ _ _ _ I) R1) as [ND1 [M1 Len1]].
        assert (Inc1 : In c c1) by (apply M1; split; [exact Inc | congruence]).
        destruct (remove_first_ok c1 c Inc1) as [c2 R2].
        destruct (remove_first_spec c1 c c2 ND1 R2) as [ND2 [M2 Len2]].
        rewrite S1. cbn [bind]. rewrite S2. cbn [bind]. rewrite R1. cbn [bind]. rewrite R2. cbn [bind].
        assert (I2 : inv n prev g2 c2).
        { apply (inv_set2 n prev gates crq r c g1 g2 c2 I Hrc Gr Gc S1 S2 (accepts_norep _ _ _ A) ND2).
          intros x Hx. apply M2 in Hx as [Hx Hxc]. apply M1 in Hx as [Hx Hxr]. auto. }
        specialize (IH g2 c2 s' (S acc) rej I2).
        destruct (pair_loop prev g2 c2 s' f (S acc) rej) as [[acc' rej'] res].
        destruct IH as [[B1 [B2 B3]] IH]. split; [lia|].
        destruct res as [[[g' c'] s'']|e].
        -- destruct IH as [I' [L' Len']]. split; [exact I'|]. split; [exact L'|]. lia.
        -- destruct IH as [E1 [E3 E2]]. split; [exact E1|]. split; [lia|]. intros EE. specialize (E2 EE). lia.
      * specialize (IH gates crq s' acc (S rej) I).
        destruct (pair_loop prev gates crq s' f acc (S rej)) as [[acc' rej'] res].
        destruct IH as [[B1 [B2 B3]] IH]. split; [lia|].
        destruct res as [[[g' c'] s'']|e].
        -- destruct IH as [I' [L' Len']]. split; [exact I'|]. split; [exact L'|]. lia.
        -- destruct IH as [E1 [E3 E2]]. split; [exact E1|]. split; [lia|]. intros EE. specialize (E2 EE). lia.
Qed.

(* ------------------------------------------------------------------ last-qubit rule, final layer *)
Lemma inv_drop n prev gates crq : inv n prev gates crq -> inv n prev gates [].
Proof.
  intros [L ND C OK]. constructor; auto; [constructor | intros q []].
Qed.

Lemma last_qubit_inv n prev gates crq :
  prev_len n prev -> inv n prev gates crq -> (length crq < 2)%nat ->
  exists gates', last_qubit prev gates crq = Ok gates' /\ inv n prev gates' [].
Proof.
  intros PL I L. destruct crq as [|q [|q' t]]; simpl in L; [| |lia].
  - exists gates. split; [reflexivity | eapply inv_drop; eauto].
  - pose proof (inv_cand _ _ _ _ I q (or_introl eq_refl)) as Gq.
    assert (Lq : (q < length gates)%nat) by (apply nth_error_Some; congruence).
    assert (Hn : (q < n)%nat) by (destruct I; lia).
    unfold last_qubit.
    assert (Fin : forall g, (g = GId (zq q) \/ g = GRot (zq q)) -> norep_at prev q g ->
                  exists gates', list_set gates q g = Ok gates' /\ inv n prev gates' []).
    { intros g Hg NR. destruct (list_set_ok gates q g Lq) as [gates' S]. exists gates'. split; [exact S|].
      apply (inv_set1 n prev gates [q] q g gates' [] I Gq Hg NR S); [constructor | intros x []]. }
    destruct prev as [p|] eqn:EP.
    + destruct (prev_lookup n (Some p) p q eq_refl PL Hn) as [pg [Np Pp]].
      rewrite Pp. cbn [bind]. destruct (gate_is_rot pg) eqn:R.
      * apply Fin; [left; reflexivity|]. simpl. intros pg' _. destruct pg'; reflexivity.
      * apply Fin; [right; reflexivity|]. simpl. intros pg' Hpg'. rewrite Np in Hpg'. inversion Hpg'; subst.
        destruct pg'; simpl in *; congruence.
    + cbn [bind]. apply Fin; [right; reflexivity | simpl; trivial].
Qed.

Lemma forallb_combine {A B} (f : A * B -> bool) : forall (a : list A) (b : list B),
  (forall i x y, nth_error a i = Some x -> nth_error b i = Some y -> f (x, y) = true) ->
  forallb f (combine a b) = true.
Proof.
  induction a as [|x xs IH]; intros [|y ys] H; simpl; try reflexivity.
  rewrite (H O x y eq_refl eq_refl). simpl. apply IH. intros i x' y' Hx Hy. apply (H (S i)); assumption.
Qed.

Lemma inv_final n prev gates :
  inv n prev gates [] ->
  layer_wf (mkLayer (Z.of_nat n) gates) = true /\
  match prev with None => True | Some p => no_repeat p (mkLayer (Z.of_nat n) gates) = true end.
Proof.
  intros [L _ _ OK]. split.
  - apply layer_wf_spec. simpl. split; [lia|]. intros j g Hj. apply (gate_ok_valid gates j g). apply OK; exact Hj.
  - destruct prev as [p|]; [|exact Logic.I]. unfold no_repeat. simpl. apply forallb_combine.
    intros i x y Hx Hy. simpl. destruct (OK i y Hy) as [_ NR]. simpl in NR. rewrite (NR x Hx). reflexivity.
Qed.

(* ------------------------------------------------------------------ random_layer *)
Definition prev_good (n : Z) (prev : option layer) : Prop :=
  match prev with None => True | Some p => layer_wf p = true /\ l_qubits p = n end.

Lemma prev_good_len n prev : 0 <= n -> prev_good n prev -> prev_len (Z.to_nat n) prev.
Proof.
  destruct prev as [p|]; simpl; [|trivial]. intros Hn [W Q]. apply layer_wf_spec in W as [W _]. lia.
Qed.

Lemma inv_init n prev : let qs := seq 0 n in inv n prev (map (fun q => GId (zq q)) qs) [].
Proof.
  intros qs. assert (N : forall i g, nth_error (map (fun q => GId (zq q)) qs) i = Some g -> g = GId (zq i)).
  { intros i g H. unfold qs in H. rewrite nth_error_map in H.
    destruct (nth_error (seq 0 n) i) eqn:E; [|discriminate]. simpl in H. inversion H; subst.
    assert (i < n)%nat by (rewrite <- (seq_length n 0); apply nth_error_Some; congruence).
    rewrite (nth_error_nth' _ O) in E by (rewrite seq_length; lia). rewrite seq_nth in E by lia.
    inversion E. reflexivity. }
  constructor.
  - unfold qs. rewrite map_length, seq_length. reflexivity.
  - constructor.
  - intros q [].
  - intros i g H. apply N in H. subst. split; [reflexivity|].
    unfold norep_at. destruct prev; [|exact Logic.I]. intros pg _. destruct pg; reflexivity.
Qed.

Theorem random_layer_pairs_spec n prev seed s fuel :
  1 <= n -> prev_good n prev ->
  match random_layer_pairs n prev seed s fuel with
  | (acc, rej, r) =>
      (2 * acc <= Z.to_nat n /\ acc + rej <= fuel)%nat /\
      match r with
      | Ok (l, _) =>
          layer_wf l = true /\ l_qubits l = n /\
          match prev with None => True | Some p => no_repeat p l = true end
      | Err e => is_stream_error e = true /\ (e = OutOfFuel -> (fuel < Z.to_nat n / 2 + rej)%nat)
      end
  end.
Proof.
  intros Hn PG. unfold random_layer_pairs.
  assert (E1 : (n <? 1) = false) by (apply Z.ltb_ge; lia). rewrite E1.
  assert (E2 : match prev with Some p => negb (l_qubits p =? n) | None => false end = false).
  { destruct prev as [p|]; [|reflexivity]. destruct PG as [_ Q]. rewrite Q, Z.eqb_refl. reflexivity. }
  rewrite E2.
  set (n0 := Z.to_nat n). set (qs := seq 0 n0).
  pose proof (prev_good_len n prev ltac:(lia) PG) as PL. fold n0 in PL.
  destruct (draw_seed seed s) as [s0|e] eqn:DS; cbn [bind].
  2:{ apply draw_seed_err in DS. apply draw_error_stream in DS as [A B]. repeat split; try lia; auto. contradiction. }
  pose proof (qubit_pass_inv n0 prev qs (map (fun q => GId (zq q)) qs) [] s0 PL (inv_init n0 prev)
                (seq_NoDup n0 0)) as QP.
  assert (Hqs : forall q, In q qs -> (q < n0)%nat /\ ~ In q [] /\
                                      nth_error (map (fun q => GId (zq q)) qs) q = Some (GId (zq q))).
  { intros q Hq. unfold qs in Hq. apply in_seq in Hq. repeat split; [lia | tauto |].
    unfold qs. rewrite nth_error_map. rewrite (nth_error_nth' _ O) by (rewrite seq_length; lia).
    rewrite seq_nth by lia. reflexivity. }
  specialize (QP Hqs).
  destruct (qubit_pass prev qs (map (fun q => GId (zq q)) qs) [] s0) as [[[gates crq] s1]|e].
  2:{ apply draw_error_stream in QP as [A B]. repeat split; try lia; auto. contradiction. }
  destruct QP as [I Lc]. simpl in Lc. unfold qs in Lc. rewrite seq_length in Lc.
  pose proof (pair_loop_inv n0 prev fuel gates crq s1 O O I) as PLoop.
  destruct (pair_loop prev gates crq s1 fuel 0 0) as [[acc rej] r].
  destruct PLoop as [[B1 [B2 B3]] R].
  destruct r as [[[gates2 crq2] s2]|e]; cbn [bind].
  - destruct R as [I2 [L2 Len2]].
    destruct (last_qubit_inv n0 prev gates2 crq2 PL I2 L2) as [gates3 [LQ I3]].
    rewrite LQ. cbn [bind].
    destruct (inv_final n0 prev gates3 I3) as [W NR].
    assert (En : Z.of_nat n0 = n) by (unfold n0; lia). rewrite En in W, NR.
    rewrite (make_layer_wf n gates3 W). cbn [bind].
    split; [lia|]. split; [exact W|]. split; [reflexivity | exact NR].
  - destruct R as [A [B0 B]]. split; [lia|]. split; [exact A|]. intros EE. specialize (B EE).
    assert ((acc + 1) <= n0 / 2)%nat by (apply Nat.div_le_lower_bound; lia). lia.
Qed.

Corollary random_layer_spec n prev seed s fuel :
  1 <= n -> prev_good n prev ->
  match random_layer n prev seed s fuel with
  | Ok (l, _) =>
      layer_wf l = true /\ l_qubits l = n /\
      match prev with None => True | Some p => no_repeat p l = true end
  | Err e => is_stream_error e = true
  end.
Proof.
  intros Hn PG. pose proof (random_layer_pairs_spec n prev seed s fuel Hn PG) as H.
  unfold random_layer. destruct (random_layer_pairs n prev seed s fuel) as [[acc rej] r]. simpl.
  destruct H as [_ H]. destruct r as [[l s']|e]; [exact H | apply H].
Qed.

(* ------------------------------------------------------------------ no forced livelock (DESIGN.md A.5) *)
Lemma gate_eqb_eq a b : gate_eqb a b = true <-> a = b.
Proof.
  destruct a, b; simpl; try (split; [discriminate | congruence]);
    rewrite ?andb_true_iff, ?Z.eqb_eq; split; intros H; try (inversion H; auto; fail);
    try (destruct H; congruence); congruence.
Qed.

Lemma existsb_gate g gates : existsb (gate_eqb g) gates = true <-> In g gates.
Proof.
  rewrite existsb_exists. split.
  - intros [x [Hin E]]. apply gate_eqb_eq in E. subst. exact Hin.
  - intros Hin. exists g. split; [exact Hin | apply gate_eqb_eq; reflexivity].
Qed.

Lemma wf_in_pos p g k : layer_wf p = true -> In g (l_gates p) -> gate_qubit g = zq k -> nth_error (l_gates p) k = Some g.
Proof.
  intros W Hin Hq. apply In_nth_error in Hin as [j Hj].
  pose proof (wf_gate_qubit p j g W Hj) as E. rewrite Hq in E. apply zq_inj in E. subst. exact Hj.
Qed.

(* in a well-formed layer a controlled rotation r<-c and its control gate come together *)
Lemma wf_pair p r c : layer_wf p = true ->
  In (GCRot (zq r) (zq c)) (l_gates p) \/ In (GCtrl (zq c) (zq r)) (l_gates p) ->
  nth_error (l_gates p) r = Some (GCRot (zq r) (zq c)) /\ nth_error (l_gates p) c = Some (GCtrl (zq c) (zq r)).
Proof.
  intros W [H|H].
  - pose proof (wf_in_pos p _ r W H eq_refl) as Nr. split; [exact Nr|].
    pose proof (proj2 (proj1 (layer_wf_spec p) W) r _ Nr) as V.
    unfold gate_valid_at, zq in V. cbn [gate_qubit] in V. rewrite Z.eqb_refl in V. cbn [negb] in V.
    rewrite py_index_nat in V.
    destruct (nth_error (l_gates p) c) as [cg|] eqn:Nc; [|discriminate]. cbn [bind] in V.
    destruct cg as [q|q|q t|q c0]; try discriminate. inversion V as [V'].
    apply Z.eqb_eq in V'. subst t. pose proof (wf_gate_qubit p c _ W Nc) as Q. simpl in Q. subst q. reflexivity.
  - pose proof (wf_in_pos p _ c W H eq_refl) as Nc. split; [|exact Nc].
    pose proof (proj2 (proj1 (layer_wf_spec p) W) c _ Nc) as V.
    unfold gate_valid_at, zq in V. cbn [gate_qubit] in V. rewrite Z.eqb_refl in V. cbn [negb] in V.
    rewrite py_index_nat in V.
    destruct (nth_error (l_gates p) r) as [rg|] eqn:Nr; [|discriminate]. cbn [bind] in V.
    destruct rg as [q|q|q t|q c0]; try discriminate. inversion V as [V'].
    apply Z.eqb_eq in V'. subst c0. pose proof (wf_gate_qubit p r _ W Nr) as Q. simpl in Q. subst q. reflexivity.
Qed.

Lemma accepts_false p r c : accepts (Some p) r c = false ->
  In (GCRot (zq r) (zq c)) (l_gates p) \/ In (GCtrl (zq c) (zq r)) (l_gates p).
Proof.
  unfold accepts. intros H. apply andb_false_iff in H as [H|H]; apply negb_false_iff in H; apply existsb_gate in H; auto.
Qed.

Lemma accepts_asym p r c : layer_wf p = true -> accepts (Some p) r c = false -> accepts (Some p) c r = true.
Proof.
  intros W H. apply accepts_false in H. destruct (wf_pair p r c W H) as [Nr Nc].
  destruct (accepts (Some p) c r) eqn:A; [reflexivity|].
  apply accepts_false in A. destruct (wf_pair p c r W A) as [Nc' Nr']. congruence.
Qed.

(* ------------------------------------------------------------------ chained generation *)
Definition chain_from (prev : option layer) (ls : list layer) : bool :=
  match prev with None => chain_ok ls | Some p => chain_ok (p :: ls) end.

Definition good_layer (n : Z) (l : layer) : Prop := layer_wf l = true /\ l_qubits l = n.

Lemma random_layers_spec chain n : forall k prev s fuel,
  1 <= n -> prev_good n prev ->
  match random_layers chain n prev k s fuel with
  | Ok (ls, _) => length ls = k /\ Forall (good_layer n) ls /\ (chain = true -> chain_from prev ls = true)
  | Err e => is_stream_error e = true
  end.
Proof.
  induction k as [|k IH]; intros prev s fuel Hn PG; simpl.
  - repeat split; auto. intros _. destruct prev; reflexivity.
  - destruct (new_random_seed s) as [[sd s1]|e] eqn:NS; cbn [bind fst snd].
    2:{ apply new_random_seed_err in NS. apply draw_error_stream in NS. tauto. }
    pose proof (random_layer_spec n prev (Some sd) s1 fuel Hn PG) as RL.
    destruct (random_layer n prev (Some sd) s1 fuel) as [[l s2]|e]; cbn [bind fst snd]; [|exact RL].
    destruct RL as [W [Q NR]].
    assert (PG' : prev_good n (if chain then Some l else prev)) by (destruct chain; [split; assumption | exact PG]).
    specialize (IH (if chain then Some l else prev) s2 fuel Hn PG').
    destruct (random_layers chain n (if chain then Some l else prev) k s2 fuel) as [[ls s3]|e]; cbn [bind fst snd]; [|exact IH].
    destruct IH as [Len [F C]]. split; [simpl; lia|]. split; [constructor; [split; assumption | exact F]|].
    intros ->. specialize (C eq_refl). simpl in C. destruct prev as [p|]; simpl.
    + rewrite NR. exact C.
    + exact C.
Qed.

Lemma random_values_spec randomize np s : 0 <= np ->
  match random_values randomize np s with
  | Ok (vs, _) => Z.of_nat (length vs) = np
  | Err e => is_stream_error e = true
  end.
Proof.
  intros H. unfold random_values. destruct randomize.
  - pose proof (draw_randoms_spec (Z.to_nat np) s) as D. destruct (draw_randoms (Z.to_nat np) s) as [[vs s']|e].
    + lia.
    + apply draw_error_stream in D. tauto.
  - rewrite repeat_length. lia.
Qed.

Lemma good_layers_valid {V} n ls (vs : list V) :
  ls <> [] -> Forall (good_layer n) ls -> Z.of_nat (length vs) = n_params_of ls ->
  individual_is_valid (mkInd n ls vs) = true.
Proof.
  intros NE F L. apply valid_parts. simpl. split; [exact NE|]. split; [|exact L].
  intros l Hl. rewrite Forall_forall in F. apply F in Hl. exact Hl.
Qed.

Theorem random_individual_spec n nl randomize seed s fuel :
  1 <= n -> 1 <= nl ->
  match random_individual n nl randomize seed s fuel with
  | Ok (i, _) =>
      individual_is_valid i = true /\ i_qubits i = n /\ Z.of_nat (length (i_layers i)) = nl /\
      chain_ok (i_layers i) = true
  | Err e => is_stream_error e = true
  end.
Proof.
  intros Hn Hl. unfold random_individual.
  destruct (draw_seed seed s) as [s0|e] eqn:DS; cbn [bind].
  2:{ apply draw_seed_err in DS. apply draw_error_stream in DS. tauto. }
  pose proof (random_layers_spec true n (Z.to_nat nl) None s0 fuel Hn Logic.I) as RL.
  destruct (random_layers true n None (Z.to_nat nl) s0 fuel) as [[ls s1]|e]; cbn [bind fst snd]; [|exact RL].
  destruct RL as [Len [F C]]. specialize (C eq_refl). simpl in C.
  pose proof (random_values_spec randomize (n_params_of ls) s1 (n_params_of_nonneg ls)) as RV.
  destruct (random_values randomize (n_params_of ls) s1) as [[vs s2]|e]; cbn [bind fst snd]; [|exact RV].
  assert (NE : ls <> []) by (intros ->; simpl in Len; lia).
  rewrite (make_individual_valid n ls vs (good_layers_valid n ls vs NE F RV)). cbn [bind].
  split; [apply good_layers_valid; assumption|]. simpl. split; [reflexivity|]. split; [lia | exact C].
Qed.

Lemma last_res_app {A} (a : list A) x : last_res (a ++ [x]) = Ok x.
Proof. unfold last_res. rewrite rev_app_distr. reflexivity. Qed.

Lemma chain_ok_app a x b : chain_ok (a ++ [x]) = true -> chain_ok (x :: b) = true -> chain_ok (a ++ x :: b) = true.
Proof.
  induction a as [|y a IH]; intros H1 H2; [exact H2|].
  destruct a as [|z a'].
  - simpl in *. apply andb_true_iff in H1 as [H1 _]. rewrite H1. exact H2.
  - change ((y :: z :: a') ++ [x]) with (y :: z :: (a' ++ [x])) in H1.
    change ((y :: z :: a') ++ x :: b) with (y :: z :: (a' ++ x :: b)).
    cbn [chain_ok] in H1 |- *. apply andb_true_iff in H1 as [H1 H3]. rewrite H1. cbn [andb].
    apply IH; assumption.
Qed.

Theorem add_random_layers_spec (i : individual Z) nl randomize seed s fuel :
  individual_is_valid i = true -> 1 <= i_qubits i -> 1 <= nl ->
  match add_random_layers false i nl randomize seed s fuel with
  | Ok (i', _) =>
      individual_is_valid i' = true /\ i_qubits i' = i_qubits i /\
      exists new vs, i_layers i' = i_layers i ++ new /\ i_values i' = i_values i ++ vs /\
                     Z.of_nat (length new) = nl /\
                     (forall lst, last_res (i_layers i) = Ok lst -> chain_ok (lst :: new) = true) /\
                     (chain_ok (i_layers i) = true -> chain_ok (i_layers i') = true)
  | Err e => is_stream_error e = true
  end.
Proof.
  intros V Hq Hl. unfold add_random_layers.
  assert (E : (nl <? 1) = false) by (apply Z.ltb_ge; lia). rewrite E.
  destruct (draw_seed seed s) as [s0|e] eqn:DS; cbn [bind].
  2:{ apply draw_seed_err in DS. apply draw_error_stream in DS. tauto. }
  apply valid_parts in V as [NE [G LV]].
  destruct (exists_last NE) as [a [lst EL]].
  assert (Gl : good_layer (i_qubits i) lst) by (apply G; rewrite EL; apply in_or_app; right; left; reflexivity).
  assert (LR : last_res (i_layers i) = Ok lst) by (rewrite EL; apply last_res_app).
  rewrite LR. cbn [bind].
  destruct (i_layers i) as [|first tl] eqn:ELs; [congruence|]. cbn [head_res bind].
  assert (Gf : good_layer (i_qubits i) first) by (apply G; left; reflexivity).
  destruct Gf as [_ Qf]. rewrite Qf.
  pose proof (random_layers_spec true (i_qubits i) (Z.to_nat nl) (Some lst) s0 fuel Hq Gl) as RL.
  cbn [negb].
  destruct (random_layers true (i_qubits i) (Some lst) (Z.to_nat nl) s0 fuel) as [[new s1]|e]; cbn [bind fst snd]; [|exact RL].
  destruct RL as [Len [F C]]. specialize (C eq_refl). simpl in C.
  pose proof (random_values_spec randomize (n_params_of new) s1 (n_params_of_nonneg new)) as RV.
  destruct (random_values randomize (n_params_of new) s1) as [[vs s2]|e]; cbn [bind fst snd]; [|exact RV].
  unfold add_layers. rewrite ELs.
  assert (Val : individual_is_valid (mkInd (i_qubits i) ((first :: tl) ++ new) (i_values i ++ vs)) = true).
  { apply good_layers_valid.
    - discriminate.
    - apply Forall_app. split; [|exact F]. apply Forall_forall. intros l Hl'. apply G. exact Hl'.
    - rewrite app_length, Nat2Z.inj_add, n_params_of_app, LV, RV. reflexivity. }
  rewrite (make_individual_valid _ _ _ Val). cbn [bind].
  split; [exact Val|]. split; [reflexivity|]. exists new, vs. cbn [i_layers i_values].
  split; [reflexivity|]. split; [reflexivity|]. split; [lia|]. split.
  - intros lst' Hlst. inversion Hlst; subst. exact C.
  - intros CO. rewrite EL. rewrite <- app_assoc. simpl. apply chain_ok_app; [rewrite <- EL; exact CO | exact C].
Qed.

Theorem random_individuals_spec n nl randomize : forall k s fuel,
  1 <= n -> 1 <= nl ->
  match random_individuals n nl randomize k s fuel with
  | Ok (is, _) =>
      length is = k /\
      Forall (fun i => individual_is_valid i = true /\ i_qubits i = n /\ Z.of_nat (length (i_layers i)) = nl /\
                       chain_ok (i_layers i) = true) is
  | Err e => is_stream_error e = true
  end.
Proof.
  induction k as [|k IH]; intros s fuel Hn Hl; simpl; [split; [reflexivity | constructor]|].
  destruct (new_random_seed s) as [[sd s1]|e] eqn:NS; cbn [bind fst snd].
  2:{ apply new_random_seed_err in NS. apply draw_error_stream in NS. tauto. }
  pose proof (random_individual_spec n nl randomize (Some sd) s1 fuel Hn Hl) as RI.
  destruct (random_individual n nl randomize (Some sd) s1 fuel) as [[i s2]|e]; cbn [bind fst snd]; [|exact RI].
  specialize (IH s2 fuel Hn Hl).
  destruct (random_individuals n nl randomize k s2 fuel) as [[is s3]|e]; cbn [bind fst snd]; [|exact IH].
  destruct IH as [Len F]. split; [simpl; lia | constructor; assumption].
Qed.

Theorem random_population_spec n nl ni randomize seed s fuel :
  1 <= n -> 1 <= nl ->
  match random_population n nl ni randomize seed s fuel with
  | Ok (is, _) =>
      length is = Z.to_nat ni /\
      Forall (fun i => individual_is_valid i = true /\ i_qubits i = n /\ Z.of_nat (length (i_layers i)) = nl /\
                       chain_ok (i_layers i) = true) is
  | Err e => is_stream_error e = true
  end.
Proof.
  intros Hn Hl. unfold random_population.
  destruct (draw_seed seed s) as [s0|e] eqn:DS; cbn [bind].
  2:{ apply draw_seed_err in DS. apply draw_error_stream in DS. tauto. }
  apply random_individuals_spec; assumption.
Qed.

(* ------------------------------------------------------------------ legacy add_random_layers (before a5547f2) *)
Definition legacy_witness_ind : individual Z := mkInd 1 [mkLayer 1 [GId 0]] [].
Definition legacy_witness_stream : stream :=
  [DSeed (Some 7); DRandint 0 SEED_MAX 11; DSeed (Some 11); DRandint 0 SEED_MAX 12; DSeed (Some 12)].

Lemma legacy_append_repeats :
  individual_is_valid legacy_witness_ind = true /\
  exists i', add_random_layers true legacy_witness_ind 2 false (Some 7) legacy_witness_stream 5 = Ok (i', []) /\
             individual_is_valid i' = true /\
             i_layers i' = [mkLayer 1 [GId 0]; mkLayer 1 [GRot 0]; mkLayer 1 [GRot 0]] /\
             chain_ok (i_layers i') = false.
Proof.
  split; [reflexivity|]. eexists. split; [vm_compute; reflexivity|]. split; [reflexivity|]. split; reflexivity.
Qed.

(* ------------------------------------------------------------------ parameter count = 3 x (rotations + controlled rotations) *)
Lemma layer_n_parameters_rot_crot l :
  layer_n_parameters l = 3 * (count_gates gate_is_rot l + count_gates is_crot l).
Proof.
  rewrite layer_n_parameters_count. unfold count_gates. f_equal.
  induction (l_gates l) as [|g gs IH]; [reflexivity|].
  destruct g; cbn [filter has_params gate_is_rot is_crot length]; rewrite ?Nat2Z.inj_succ; lia.
Qed.

(* the statements of Props/C20.v *)
Theorem C20_layer_valid_proof : forall n prev seed s fuel,
  1 <= n -> prev_good n prev ->
  match random_layer n prev seed s fuel with
  | Ok (l, _) =>
      layer_wf l = true /\ l_qubits l = n /\
      layer_n_parameters l = 3 * (count_gates gate_is_rot l + count_gates is_crot l) /\
      match prev with None => True | Some p => no_repeat p l = true end
  | Err e => is_stream_error e = true
  end.
Proof.
  intros n prev seed s fuel Hn PG. pose proof (random_layer_spec n prev seed s fuel Hn PG) as H.
  destruct (random_layer n prev seed s fuel) as [[l s']|e]; [|exact H].
  destruct H as [A [B C]]. repeat split; auto. apply layer_n_parameters_rot_crot.
Qed.

Theorem C20_no_forced_livelock_proof :
  (forall r c, accepts None r c = true) /\
  (forall p r c, layer_wf p = true -> accepts (Some p) r c = false -> accepts (Some p) c r = true) /\
  (forall n prev seed s fuel, 1 <= n -> prev_good n prev ->
     match random_layer_pairs n prev seed s fuel with
     | (accepted, rejected, r) =>
         (2 * accepted <= Z.to_nat n)%nat /\ (accepted + rejected <= fuel)%nat /\
         (r = Err OutOfFuel -> (fuel < Z.to_nat n / 2 + rejected)%nat)
     end).
Proof.
  split; [reflexivity|]. split; [exact accepts_asym|].
  intros n prev seed s fuel Hn PG. pose proof (random_layer_pairs_spec n prev seed s fuel Hn PG) as H.
  destruct (random_layer_pairs n prev seed s fuel) as [[acc rej] r].
  destruct H as [[A B] C]. split; [exact A|]. split; [exact B|]. intros ->. apply C. reflexivity.
Qed.
