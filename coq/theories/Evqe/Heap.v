(* Operators as one type, operator sequences, and the heap refinement used by C11.  Definitions only.

   Value level: run_op / run_seq — populations are values (Evqe/Population.v).

   Heap level: a purely functional model cannot express aliasing, so the one mutable object that travels
   between populations — the list object behind `species_representatives` — lives in a heap cell and a
   population holds a reference to it.  Selection and mutation copy the reference (as the code does:
   `species_representatives=population.species_representatives`); speciation allocates a new cell for the
   representatives of the population it returns (`list(new_species_members.keys())`), and
     legacy_spec = true  (pre 88eddcc): phase 1 appends INTO THE ARGUMENT'S CELL,
     legacy_spec = false (HEAD):        phase 1 works on a private copy; no existing cell is ever written.
   individuals (tuple), species_members and species_membership (dicts built afresh by speciation, None after
   selection/mutation) are immutable values of the population record; the harness checks through object
   identity that no list/dict object of these is shared with the argument. *)
From QV Require Export Evqe.Speciation Evqe.Selection Evqe.Mutation.
Open Scope Z_scope.

Inductive op :=
| OSpeciation (thr : Z)                       (* EVQESpeciation(genetic_distance_threshold) *)
| OSelection (cfg : sel_config)               (* EVQESelection(alpha, beta, tournament) *)
| OMutation (k : mut_kind) (prob : Q).        (* the four mutation operators with their probability *)

(* what one application consumed / was told: the operator's own generator, the completion order of its
   tasks, the per-task logs (mutation) *)
Record oplog (V : Type) := mkLog {
  g_stream : ostream;
  g_pi : list nat;
  g_tasks : list (task_log V) }.
Arguments mkLog {V} _ _ _.
Arguments g_stream {V} _.
Arguments g_pi {V} _.
Arguments g_tasks {V} _.

Section Ops.
  Context {V : Type} (veqb : V -> V -> bool) (ieq : individual V -> individual V -> bool) (zero : V).
  Notation ind := (individual V).
  Variable ev : ind -> result Q.          (* the circuit evaluator *)
  Variable legacy_opt : bool.             (* Mutation.optimize_layer *)

  Definition run_op (o : op) (lg : oplog V) (p : population V) : outcome V :=
    match o with
    | OSpeciation thr => speciation_op ieq thr p (g_stream lg)
    | OSelection cfg => selection_op ieq ev cfg p (g_pi lg) (g_stream lg)
    | OMutation k prob => mutation_op veqb zero legacy_opt k prob p (g_pi lg) (g_stream lg) (g_tasks lg)
    end.

  (* the outcomes of the applications in order; the run stops at the first exception *)
  Fixpoint run_seq (steps : list (op * oplog V)) (p : population V) : list (outcome V) :=
    match steps with
    | [] => []
    | (o, lg) :: t =>
        let oc := run_op o lg p in
        oc :: match snd oc with Ok p' => run_seq t p' | Err _ => [] end
    end.

  (* the documented precondition of selection: directly preceded by a speciation *)
  Fixpoint selection_after_speciation (prev_is_spec : bool) (ops : list op) : bool :=
    match ops with
    | [] => true
    | OSpeciation _ :: t => selection_after_speciation true t
    | OSelection _ :: t => prev_is_spec && selection_after_speciation false t
    | OMutation _ _ :: t => selection_after_speciation false t
    end.

  (* ---------------------------------------------------------------- heap level *)
  Definition heap := list (list ind).

  Record hpop := mkH {
    h_inds : list ind;
    h_reps : option nat;                                   (* reference to the representatives list object *)
    h_members : option (list (ind * list nat));
    h_membership : option (list (nat * ind)) }.

  Definition DanglingReference : string := "DanglingReference"%string.

  Definition deref (h : heap) (hp : hpop) : result (population V) :=
    match h_reps hp with
    | None => Ok (mkPop (h_inds hp) None (h_members hp) (h_membership hp))
    | Some l => match nth_error h l with
                | Some c => Ok (mkPop (h_inds hp) (Some c) (h_members hp) (h_membership hp))
                | None => Err DanglingReference
                end
    end.

  (* callbacks at heap level: the evaluation result holds the population it was computed for by reference *)
  Inductive hcallback :=
  | HCount (n : Z)
  | HResult (hp : hpop) (values : list Q) (best : ind) (best_value : Q).

  Definition to_hcb (arg : hpop) (c : callback V) : hcallback :=
    match c with
    | CbCount n => HCount n
    | CbResult r => HResult arg (r_values r) (r_best r) (r_best_value r)   (* population=population: the argument itself *)
    end.

  Fixpoint set_cell (h : heap) (l : nat) (c : list ind) : heap :=
    match h, l with
    | [], _ => []
    | _ :: t, O => c :: t
    | x :: t, S l' => x :: set_cell t l' c
    end.

  Definition apply_h (legacy_spec : bool) (o : op) (lg : oplog V) (h : heap) (arg : hpop)
    : heap * list hcallback * result hpop :=
    match deref h arg with
    | Err e => (h, [], Err e)
    | Ok p =>
        match o with
        | OSpeciation thr =>
            match speciate ieq thr p (g_stream lg) with
            | Err e => (h, [], Err e)
            | Ok (p', ext, rest) =>
                (* legacy: species_representatives IS population.species_representatives; the appends of phase 1 land there *)
                let h1 := if legacy_spec then match h_reps arg with Some l => set_cell h l ext | None => h end else h in
                match rest, p_reps p' with
                | [], Some new_reps =>
                    (h1 ++ [new_reps], [], Ok (mkH (p_inds p') (Some (length h1)) (p_members p') (p_membership p')))
                | _, _ => (h1, [], Err StreamMismatch)
                end
            end
        | _ =>
            let oc := run_op o lg p in
            (h, map (to_hcb arg) (fst oc),
             match snd oc with
             | Ok p' => Ok (mkH (p_inds p') (h_reps arg) (p_members p') (p_membership p'))   (* the reference is copied *)
             | Err e => Err e
             end)
        end
    end.

  (* An observation: a population seen by the outside world (argument of apply_operator, population inside a
     result_callback payload, returned population) together with the heap as it was at that moment. *)
  Record obs := mkObs { o_heap : heap; o_pop : hpop }.

  Definition payload_obs (h : heap) (cbs : list hcallback) : list obs :=
    flat_map (fun c => match c with HResult hp _ _ _ => [mkObs h hp] | HCount _ => [] end) cbs.

  (* history entries: every result_callback payload with the heap at the time of the call *)
  Definition history_entries (h : heap) (cbs : list hcallback) : list (heap * hcallback) :=
    flat_map (fun c => match c with HResult _ _ _ _ => [(h, c)] | HCount _ => [] end) cbs.

  Record hrun := mkRun {
    hr_heap : heap;                             (* the heap at the end *)
    hr_obs : list obs;                          (* everything observed, in order *)
    hr_history : list (heap * hcallback);       (* the solver's population_evaluations list *)
    hr_result : result hpop }.

  Fixpoint run_h (legacy_spec : bool) (steps : list (op * oplog V)) (h : heap) (arg : hpop)
           (os : list obs) (hist : list (heap * hcallback)) : hrun :=
    match steps with
    | [] => mkRun h (os ++ [mkObs h arg]) hist (Ok arg)
    | (o, lg) :: t =>
        let '(h', cbs, r) := apply_h legacy_spec o lg h arg in
        let os' := os ++ mkObs h arg :: payload_obs h' cbs in
        let hist' := hist ++ history_entries h' cbs in
        match r with
        | Ok out => run_h legacy_spec t h' out os' hist'
        | Err e => mkRun h' os' hist' (Err e)
        end
    end.

  (* what an observation denotes in a heap *)
  Definition obs_stable (final : heap) (o : obs) : Prop := deref final (o_pop o) = deref (o_heap o) (o_pop o).
End Ops.
