(* C10 x C20: the topological-search oracle instantiated with the model of EVQECircuitLayer.random_layer.
   In Evqe/Mutation.v the generated layer is an oracle input (TLayer l) whose contract — a well-formed layer on the
   individual's qubits — is checked by the model (OracleContract otherwise).  Whenever random_layer (Evqe/RandLayer.v,
   C20) returns a layer for the individual's qubit count and last layer, that layer satisfies the contract: the task
   completes with a valid individual, one layer longer. *)
From QV Require Import Evqe.Heap Evqe.Ops_proofs Evqe.Completes_proofs.
From QV Require Evqe.RandLayer Evqe.RandLayer_proofs.
Open Scope Z_scope.

Theorem topological_task_with_random_layer {V : Type} (zero : V) (x : individual V) (last : layer)
        (seed layer_seed : Z) (s : Stream.stream) (fuel : nat) (l : layer) s' :
  individual_is_valid x = true -> 1 <= i_qubits x ->
  (exists pre, i_layers x = pre ++ [last]) ->       (* previous_layer = individual.layers[-1] *)
  0 <= layer_seed <= SEED_MAX ->
  RandLayer.random_layer (i_qubits x) (Some last) (Some layer_seed) s fuel = Ok (l, s') ->
  exists x', topological_task zero x seed [TSeed seed; TDec (KRandint 0 SEED_MAX layer_seed); TLayer l] = Ok (x', 0, [])
             /\ individual_is_valid x' = true /\ i_qubits x' = i_qubits x /\ i_layers x' = i_layers x ++ [l].
Proof.
  intros Hv Hn [pre Hpre] Hs Hr. assert (Hin : In last (i_layers x)) by (rewrite Hpre; apply in_or_app; right; left; reflexivity). pose proof Hv as Hv0. apply valid_unfold in Hv0 as [Hne [Hls Hlen]].
  unfold layers_ok in Hls. rewrite Forall_forall in Hls. destruct (Hls last Hin) as [Hw Hq].
  pose proof (RandLayer_proofs.C20_layer_valid_proof (i_qubits x) (Some last) (Some layer_seed) s fuel Hn (conj Hw Hq)) as C.
  rewrite Hr in C. destruct C as [Lw [Lq _]].
  unfold topological_task. unfold t_take_seed. rewrite Z.eqb_refl. cbn [bind].
  destruct (i_layers x) as [|first rest] eqn:El; [congruence|]. cbn [bind].
  assert (Hf : l_qubits first = i_qubits x) by (apply (Hls first); left; reflexivity).
  unfold t_draw, take_seed, take_randint. rewrite !Z.eqb_refl.
  replace (0 <=? layer_seed) with true by (symmetry; apply Z.leb_le; lia).
  replace (layer_seed <=? SEED_MAX) with true by (symmetry; apply Z.leb_le; lia). cbn [andb bind fst snd].
  rewrite Lw, Lq, Hf, Z.eqb_refl. cbn [andb].
  destruct (add_layer_ok x l zero Hv Lw Lq) as [x' Hx']. rewrite Hx'. cbn [bind].
  exists x'. split; [reflexivity|]. unfold add_layers in Hx'. apply make_individual_spec in Hx' as [A1 [A2 [A3 A4]]]. rewrite El in A3. auto.
Qed.
