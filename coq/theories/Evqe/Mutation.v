(* The mutation operators (mutation.py), definitions only:
     BaseEVQEMutationOperator.apply_operator  -> mutation_op
     optimize_layer_of_individual             -> optimize_layer      (legacy = true: pre 30c7b82, no early return)
     optimize_all_parameters_of_individual    -> optimize_all
     EVQEIndividual.add_random_layers(n=1)    -> topological_task    (the generated layer is an oracle input)
     remove_random_layers_from_individual     -> removal_task
   Every submitted task has its own log (what its private Random, the optimiser and random_layer did, in
   program order); the operator's own generator is the operator stream.  The optimiser is an oracle: TOpt x0 x nfev
   says "minimize was called with x0 and answered x after nfev evaluations"; the model checks that x0 is the
   slice of parameter values it expects and only moves x into place. *)
From QV Require Export Evqe.Population.
Open Scope Z_scope.

Inductive mut_kind := MLastLayer | MParamSearch | MTopological | MLayerRemoval.

Inductive titem (V : Type) :=
| TSeed (seed : Z)                              (* Random(seed) constructed inside the task *)
| TDec (d : odecision)                          (* a draw from that generator *)
| TOpt (x0 x : list V) (nfev : Z)               (* optimizer.minimize(x0=x0) returned x, nfev *)
| TLayer (l : layer).                           (* EVQECircuitLayer.random_layer returned l *)
Arguments TSeed {V} seed.
Arguments TDec {V} d.
Arguments TOpt {V} x0 x nfev.
Arguments TLayer {V} l.

Record task_log (V : Type) := mkTask {
  t_index : nat;                                (* the key under which the future is stored *)
  t_seed : Z;                                   (* the seed argument the task was submitted with *)
  t_items : list (titem V) }.
Arguments mkTask {V} _ _ _.
Arguments t_index {V} _.
Arguments t_seed {V} _.
Arguments t_items {V} _.

Section Mutation.
  Context {V : Type} (veqb : V -> V -> bool) (zero : V).
  Notation ind := (individual V).
  Variable legacy_opt : bool.      (* true: optimize_layer_of_individual without the early return *)

  Definition tstream := list (titem V).

  Definition t_take_seed (seed : Z) (s : tstream) : result tstream :=
    match s with
    | TSeed sd :: rest => if Z.eqb sd seed then Ok rest else Err StreamMismatch
    | _ => Err StreamMismatch
    end.

  (* a draw from the task's generator: run the operator-stream reader on the head decision *)
  Definition t_draw {A} (f : ostream -> result (A * ostream)) (s : tstream) : result (A * tstream) :=
    match s with
    | TDec d :: rest => do r <- f [d];
                        match snd r with [] => Ok (fst r, rest) | _ => Err StreamMismatch end
    | _ => match f [] with Err e => Err e | Ok _ => Err StreamMismatch end   (* argument errors come first *)
    end.

  (* optimize_layer_of_individual *)
  Definition optimize_layer (x : ind) (layer_id : Z) (s : tstream) : result (ind * Z * tstream) :=
    if Nat.eqb (length (i_layers x)) 0 then Err "ZeroDivisionError"%string   (* layer_id % 0 *)
    else
      let vals := get_layer_parameter_values x layer_id in
      if Nat.eqb (length vals) 0 then
        if legacy_opt then Err "ValueError"%string          (* reshape(array([]), (-1, 0)) in the objective *)
        else Ok (x, 0, s)
      else
        match s with
        | TOpt x0 new nfev :: rest =>
            if list_eqb veqb x0 vals then
              do x' <- change_layer_parameter_values x layer_id new;
              Ok (x', nfev, rest)
            else Err StreamMismatch
        | _ => Err StreamMismatch
        end.

  (* the while loop of optimize_all_parameters_of_individual; fuel = number of layers *)
  Fixpoint optimize_loop (fuel : nat) (cur : ind) (indices : list nat) (total : Z) (s : tstream)
    : result (ind * Z * tstream) :=
    match indices with
    | [] => Ok (cur, total, s)
    | _ :: _ =>
        match fuel with
        | O => Err "OutOfFuel"%string
        | S fuel' =>
            do c <- t_draw (take_choice (length indices)) s;
            do layer <- nth_r indices (fst c);
            do sd <- t_draw take_seed (snd c);
            do r <- optimize_layer cur (Z.of_nat layer) (snd sd);
            optimize_loop fuel' (fst (fst r)) (remove_nth indices (fst c)) (total + snd (fst r)) (snd r)
        end
    end.

  Definition optimize_all (x : ind) (seed : Z) (s : tstream) : result (ind * Z * tstream) :=
    do s1 <- t_take_seed seed s;
    let n := length (i_layers x) in
    optimize_loop n x (seq 0 n) 0 s1.

  (* add_random_layers(individual, n_layers=1, randomize_parameter_values=False, random_seed=seed) *)
  Definition topological_task (x : ind) (seed : Z) (s : tstream) : result (ind * Z * tstream) :=
    do s1 <- t_take_seed seed s;
    do first <- match i_layers x with [] => Err "IndexError"%string | l :: _ => Ok l end;
    do sd <- t_draw take_seed s1;
    match snd sd with
    | TLayer l :: rest =>
        if layer_wf l && Z.eqb (l_qubits l) (l_qubits first) then
          do x' <- add_layers x [l] (repeat zero (Z.to_nat (layer_n_parameters l)));
          Ok (x', 0, rest)
        else Err OracleContract
    | _ => Err StreamMismatch
    end.

  (* remove_random_layers_from_individual *)
  Definition removal_task (x : ind) (seed : Z) (s : tstream) : result (ind * Z * tstream) :=
    if Nat.eqb (length (i_layers x)) 1 then Ok (x, 0, s)
    else
      do s1 <- t_take_seed seed s;
      do v <- t_draw (take_randrange 1 (Z.of_nat (length (i_layers x)))) s1;
      do x' <- remove_layers false x (fst v);
      Ok (x', 0, snd v).

  Definition run_task (k : mut_kind) (x : ind) (seed : Z) (s : tstream) : result (ind * Z * tstream) :=
    match k with
    | MLastLayer => optimize_layer x (-1) s
    | MParamSearch => optimize_all x seed s
    | MTopological => topological_task x seed s
    | MLayerRemoval => removal_task x seed s
    end.

  (* the task as the executor sees it: its log must be the log of exactly this task *)
  Definition task_result (k : mut_kind) (sub : nat * ind * Z) (tl : task_log V) : result (ind * Z) :=
    let '(i, x, seed) := sub in
    if negb (Nat.eqb (t_index tl) i && Z.eqb (t_seed tl) seed) then Err StreamMismatch
    else do r <- run_task k x seed (t_items tl);
         match snd r with [] => Ok (fst r) | _ => Err StreamMismatch end.

  (* the submission loop: random() <= p, then new_random_seed, in population order *)
  Fixpoint submit_all (p : Q) (i : nat) (xs : list ind) (s : ostream) : result (list (nat * ind * Z) * ostream) :=
    match xs with
    | [] => Ok ([], s)
    | x :: t =>
        do r <- take_random s;
        if Qle_bool (fst r) p then
          do sd <- take_seed (snd r);
          do rest <- submit_all p (S i) t (snd sd);
          Ok ((i, x, fst sd) :: fst rest, snd rest)
        else submit_all p (S i) t (snd r)
    end.

  (* new_individuals[i] = new_individual, total += evaluations, in submission order *)
  Fixpoint write_back (inds : list ind) (subs : list (nat * ind * Z)) (rs : list (ind * Z)) (total : Z)
    : result (list ind * Z) :=
    match subs, rs with
    | (i, _, _) :: st, (x', n) :: rt => do inds' <- set_nth inds i x'; write_back inds' st rt (total + n)
    | [], [] => Ok (inds, total)
    | _, _ => Err "IndexError"%string
    end.

  Fixpoint zip_tasks (k : mut_kind) (subs : list (nat * ind * Z)) (tls : list (task_log V)) : result (list (result (ind * Z))) :=
    match subs, tls with
    | [], [] => Ok []
    | sb :: st, tl :: tlt => do rest <- zip_tasks k st tlt; Ok (task_result k sb tl :: rest)
    | _, _ => Err StreamMismatch
    end.

  Definition mutation_op (k : mut_kind) (prob : Q) (p : population V) (pi : list nat) (s : ostream)
             (tls : list (task_log V)) : outcome V :=
    match (do sb <- submit_all prob 0%nat (p_inds p) s;
           match snd sb with
           | _ :: _ => Err StreamMismatch
           | [] =>
               do tasks <- zip_tasks k (fst sb) tls;
               do done <- exec_run tasks pi;
               do rs <- gather done;
               write_back (p_inds p) (fst sb) rs 0
           end) with
    | Err e => ([], Err e)
    | Ok (inds', total) => ([CbCount total], Ok (mkPop inds' (p_reps p) None None))
    end.
End Mutation.
