(* Decision streams: Python's random.Random as an explicit argument.
   The harness (harness/vlib/rnglog.py) runs the real generator and records, per call, WHAT was decided:
   the index chosen by `choice`, the indices chosen by `sample`, the value of random()/randint()/...,
   and the construction of every generator with its seed.  The models consume such a stream in program
   order; a draw whose kind or arity differs from what the program asks for is an error
   (StreamMismatch), so "model output = implementation output" also checks the RNG call sequence.
   Definitions only. *)
From QV Require Export Common.Base.
Open Scope Z_scope.

Inductive decision :=
| DSeed (seed : option Z)                     (* Random(seed) constructed (None = unseeded) *)
| DChoice (len idx : nat)                     (* choice(seq), len(seq) = len, returned seq[idx] *)
| DSample (len k : nat) (idxs : list nat)     (* sample(pop, k), len(pop) = len, returned [pop[i] for i in idxs] *)
| DRandom (tok : Z)                           (* random(): value as an opaque token *)
| DRandint (lo hi v : Z)                      (* randint(lo, hi) = v *)
| DRandrange (start stop step v : Z)          (* randrange(start, stop, step) = v *)
| DGetrandbits (k v : Z)                      (* getrandbits(k) = v *)
| DShuffle (perm : list nat)                  (* shuffle(x): new x[i] = old x[perm[i]] *)
| DChoices (len k : nat) (idxs : list nat)    (* choices(pop, k=k) (weights not recorded) *)
| DUniform (tok : Z).                         (* uniform(a, b): value as an opaque token *)

Definition stream := list decision.

Definition StreamMismatch : string := "StreamMismatch"%string.   (* next decision has another kind/arity *)
Definition StreamExhausted : string := "StreamExhausted"%string. (* the program draws, the stream is empty *)
Definition OutOfFuel : string := "OutOfFuel"%string.             (* a retry loop used up its fuel *)

Definition is_stream_error (e : string) : bool :=
  String.eqb e StreamMismatch || String.eqb e StreamExhausted || String.eqb e OutOfFuel.

Fixpoint nodup_nat (l : list nat) : bool :=
  match l with
  | [] => true
  | x :: xs => negb (existsb (Nat.eqb x) xs) && nodup_nat xs
  end.

(* Random(seed): the harness logs the construction; `expected` is the seed the program passes *)
Definition draw_seed (expected : option Z) (s : stream) : result stream :=
  match s with
  | [] => Err StreamExhausted
  | DSeed sd :: rest => if option_eqb Z.eqb sd expected then Ok rest else Err StreamMismatch
  | _ :: _ => Err StreamMismatch
  end.

(* choice(seq) with len(seq) = len: IndexError for an empty sequence (as Python) *)
Definition draw_choice (len : nat) (s : stream) : result (nat * stream) :=
  if Nat.eqb len 0 then Err "IndexError"%string
  else match s with
       | [] => Err StreamExhausted
       | DChoice l i :: rest => if Nat.eqb l len && Nat.ltb i len then Ok (i, rest) else Err StreamMismatch
       | _ :: _ => Err StreamMismatch
       end.

(* sample(pop, k): ValueError if k > len(pop); the indices are k pairwise different positions *)
Definition draw_sample (len k : nat) (s : stream) : result (list nat * stream) :=
  if Nat.ltb len k then Err "ValueError"%string
  else match s with
       | [] => Err StreamExhausted
       | DSample l k' idxs :: rest =>
           if Nat.eqb l len && Nat.eqb k' k && Nat.eqb (length idxs) k
              && forallb (fun i => Nat.ltb i len) idxs && nodup_nat idxs
           then Ok (idxs, rest) else Err StreamMismatch
       | _ :: _ => Err StreamMismatch
       end.

Definition draw_random (s : stream) : result (Z * stream) :=
  match s with
  | [] => Err StreamExhausted
  | DRandom t :: rest => Ok (t, rest)
  | _ :: _ => Err StreamMismatch
  end.

Definition draw_randint (lo hi : Z) (s : stream) : result (Z * stream) :=
  match s with
  | [] => Err StreamExhausted
  | DRandint l h v :: rest =>
      if Z.eqb l lo && Z.eqb h hi && Z.leb lo v && Z.leb v hi then Ok (v, rest) else Err StreamMismatch
  | _ :: _ => Err StreamMismatch
  end.

Fixpoint draw_randoms (n : nat) (s : stream) : result (list Z * stream) :=
  match n with
  | O => Ok ([], s)
  | S n' => do r <- draw_random s;
            do r' <- draw_randoms n' (snd r);
            Ok (fst r :: fst r', snd r')
  end.

(* queasars/utility/random.py: new_random_seed = randint(0, 2147483647) *)
Definition SEED_MAX : Z := 2147483647.
Definition new_random_seed (s : stream) : result (Z * stream) := draw_randint 0 SEED_MAX s.
