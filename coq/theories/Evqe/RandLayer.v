(* Random genome generation (C20): EVQECircuitLayer.random_layer literally, EVQEIndividual.random_individual,
   EVQEIndividual.add_random_layers (repaired / legacy), EVQEPopulation.random_population — each consuming a
   decision stream (Evqe/Stream.v) in program order.  Definitions only.
   Values of the parameters are opaque integer tokens: token 0 is the value 0 the code writes for
   randomize_parameter_values=False, DRandom t carries the token of 2*pi*random(). *)
From QV Require Export Evqe.Genome Evqe.Stream.
Open Scope Z_scope.

(* ------------------------------------------------------------------ Python list primitives *)
(* l[i] = x for 0 <= i: IndexError outside *)
Fixpoint list_set {A} (l : list A) (i : nat) (x : A) : result (list A) :=
  match l, i with
  | [], _ => Err "IndexError"%string
  | _ :: t, O => Ok (x :: t)
  | h :: t, S i' => do t' <- list_set t i' x; Ok (h :: t')
  end.

(* l.remove(x): removes the first occurrence, ValueError if there is none *)
Fixpoint remove_first (l : list nat) (x : nat) : result (list nat) :=
  match l with
  | [] => Err "ValueError"%string
  | h :: t => if Nat.eqb h x then Ok t else do t' <- remove_first t x; Ok (h :: t')
  end.

Definition nth_res {A} (l : list A) (i : nat) : result A :=
  match nth_error l i with Some x => Ok x | None => Err "IndexError"%string end.

Definition zq (q : nat) : Z := Z.of_nat q.

Definition gate_is_rot (g : gate) : bool := match g with GRot _ => true | _ => false end.
Definition gate_is_rot_or_id (g : gate) : bool := match g with GRot _ | GId _ => true | _ => false end.

(* ------------------------------------------------------------------ random_layer *)
(* first loop: for qubit_index in range(n): forced candidate / choice([ROTATION, CONTROLLED_ROTATION]) *)
Fixpoint qubit_pass (prev : option layer) (qs : list nat) (gates : list gate) (crq : list nat) (s : stream)
  : result (list gate * list nat * stream) :=
  match qs with
  | [] => Ok (gates, crq, s)
  | q :: rest =>
      do forced <- match prev with
                   | None => Ok false
                   | Some p => do g <- py_index (l_gates p) (zq q); Ok (gate_is_rot_or_id g)
                   end;
      if forced : bool then qubit_pass prev rest gates (crq ++ [q]) s
      else
        do d <- draw_choice 2 s;
        if Nat.eqb (fst d) 1 then qubit_pass prev rest gates (crq ++ [q]) (snd d)
        else do gates' <- list_set gates q (GRot (zq q));
             qubit_pass prev rest gates' crq (snd d)
  end.

(* the accept test of the pairing loop:
   (prev is not None and rotation_gate not in prev.gates and control_gate not in prev.gates) or prev is None *)
Definition accepts (prev : option layer) (r c : nat) : bool :=
  match prev with
  | None => true
  | Some p => negb (existsb (gate_eqb (GCRot (zq r) (zq c))) (l_gates p))
              && negb (existsb (gate_eqb (GCtrl (zq c) (zq r))) (l_gates p))
  end.

(* while len(crq) >= 2: one unit of fuel per draw.  Returns (accepted draws, rejected draws, outcome). *)
Fixpoint pair_loop (prev : option layer) (gates : list gate) (crq : list nat) (s : stream) (fuel : nat)
         (acc rej : nat) : nat * nat * result (list gate * list nat * stream) :=
  if Nat.ltb (length crq) 2 then (acc, rej, Ok (gates, crq, s))
  else match fuel with
       | O => (acc, rej, Err OutOfFuel)
       | S fuel' =>
           match draw_sample (length crq) 2 s with
           | Err e => (acc, rej, Err e)
           | Ok ([i; j], s') =>
               match nth_error crq i, nth_error crq j with
               | Some r, Some c =>
                   if accepts prev r c then
                     match (do g1 <- list_set gates c (GCtrl (zq c) (zq r));
                            do g2 <- list_set g1 r (GCRot (zq r) (zq c));
                            do c1 <- remove_first crq r;
                            do c2 <- remove_first c1 c;
                            Ok (g2, c2)) with
                     | Ok (g2, c2) => pair_loop prev g2 c2 s' fuel' (S acc) rej
                     | Err e => (acc, rej, Err e)
                     end
                   else pair_loop prev gates crq s' fuel' acc (S rej)
               | _, _ => (acc, rej, Err "IndexError"%string)
               end
           | Ok _ => (acc, rej, Err StreamMismatch)
           end
       end.

(* if len(crq) == 1: identity if the previous layer has a rotation there, else a rotation *)
Definition last_qubit (prev : option layer) (gates : list gate) (crq : list nat) : result (list gate) :=
  match crq with
  | [q] =>
      do prev_rot <- match prev with
                     | None => Ok false
                     | Some p => do g <- py_index (l_gates p) (zq q); Ok (gate_is_rot g)
                     end;
      list_set gates q (if prev_rot : bool then GId (zq q) else GRot (zq q))
  | _ => Ok gates
  end.

Definition random_layer_pairs (n : Z) (prev : option layer) (seed : option Z) (s : stream) (fuel : nat)
  : nat * nat * result (layer * stream) :=
  if n <? 1 then (O, O, Err LayerException)
  else if match prev with Some p => negb (Z.eqb (l_qubits p) n) | None => false end then (O, O, Err LayerException)
  else
    let qs := seq 0 (Z.to_nat n) in
    match (do s0 <- draw_seed seed s; qubit_pass prev qs (map (fun q => GId (zq q)) qs) [] s0) with
    | Err e => (O, O, Err e)
    | Ok (gates, crq, s1) =>
        let '(acc, rej, r) := pair_loop prev gates crq s1 fuel O O in
        (acc, rej,
         do st <- r;
         let '(gates2, crq2, s2) := st in
         do gates3 <- last_qubit prev gates2 crq2;
         do l <- make_layer n gates3;
         Ok (l, s2))
    end.

(* EVQECircuitLayer.random_layer(n_qubits, previous_layer, random_seed) *)
Definition random_layer (n : Z) (prev : option layer) (seed : option Z) (s : stream) (fuel : nat)
  : result (layer * stream) := snd (random_layer_pairs n prev seed s fuel).

(* ------------------------------------------------------------------ individuals, populations *)
(* the loop `for _ in range(n_layers): layer = random_layer(n, previous, new_random_seed(gen))`.
   chain = true: previous_layer is the layer just generated (random_individual, repaired add_random_layers);
   chain = false: previous_layer stays the one given (legacy add_random_layers). *)
Fixpoint random_layers (chain : bool) (n : Z) (prev : option layer) (k : nat) (s : stream) (fuel : nat)
  : result (list layer * stream) :=
  match k with
  | O => Ok ([], s)
  | S k' =>
      do sd <- new_random_seed s;
      do ls <- random_layer n prev (Some (fst sd)) (snd sd) fuel;
      do rest <- random_layers chain n (if chain then Some (fst ls) else prev) k' (snd ls) fuel;
      Ok (fst ls :: fst rest, snd rest)
  end.

(* 2*pi*random() for each parameter, or (0,)*n *)
Definition random_values (randomize : bool) (n_params : Z) (s : stream) : result (list Z * stream) :=
  if randomize then draw_randoms (Z.to_nat n_params) s
  else Ok (repeat 0 (Z.to_nat n_params), s).

(* EVQEIndividual.random_individual *)
Definition random_individual (n n_layers : Z) (randomize : bool) (seed : option Z) (s : stream) (fuel : nat)
  : result (individual Z * stream) :=
  do s0 <- draw_seed seed s;
  do ls <- random_layers true n None (Z.to_nat n_layers) s0 fuel;
  do vs <- random_values randomize (n_params_of (fst ls)) (snd ls);
  do i <- make_individual n (fst ls) (fst vs);
  Ok (i, snd vs).

Definition last_res {A} (l : list A) : result A :=
  match rev l with x :: _ => Ok x | [] => Err "IndexError"%string end.
Definition head_res {A} (l : list A) : result A :=
  match l with x :: _ => Ok x | [] => Err "IndexError"%string end.

(* EVQEIndividual.add_random_layers; legacy = the code before a5547f2 (previous_layer = individual.layers[-1]
   for every appended layer) *)
Definition add_random_layers (legacy : bool) (i : individual Z) (n_layers : Z) (randomize : bool)
           (seed : option Z) (s : stream) (fuel : nat) : result (individual Z * stream) :=
  if n_layers <? 1 then Err IndividualException
  else
    do s0 <- draw_seed seed s;
    do prev <- last_res (i_layers i);
    do first <- head_res (i_layers i);
    do ls <- random_layers (negb legacy) (l_qubits first) (Some prev) (Z.to_nat n_layers) s0 fuel;
    do vs <- random_values randomize (n_params_of (fst ls)) (snd ls);
    do i' <- add_layers i (fst ls) (fst vs);
    Ok (i', snd vs).

(* EVQEPopulation.random_population: the tuple of individuals *)
Fixpoint random_individuals (n n_layers : Z) (randomize : bool) (k : nat) (s : stream) (fuel : nat)
  : result (list (individual Z) * stream) :=
  match k with
  | O => Ok ([], s)
  | S k' =>
      do sd <- new_random_seed s;
      do i <- random_individual n n_layers randomize (Some (fst sd)) (snd sd) fuel;
      do rest <- random_individuals n n_layers randomize k' (snd i) fuel;
      Ok (fst i :: fst rest, snd rest)
  end.

Definition random_population (n n_layers n_individuals : Z) (randomize : bool) (seed : option Z) (s : stream)
           (fuel : nat) : result (list (individual Z) * stream) :=
  do s0 <- draw_seed seed s;
  random_individuals n n_layers randomize (Z.to_nat n_individuals) s0 fuel.

(* ------------------------------------------------------------------ the property's predicates *)
(* a gate of the new layer repeats what the previous layer applies at the same position:
   a rotation on a rotation, or the same controlled rotation (same target and control) *)
Definition repeats (p g : gate) : bool :=
  match p, g with
  | GRot _, GRot _ => true
  | GCRot q c, GCRot q' c' => Z.eqb q q' && Z.eqb c c'
  | _, _ => false
  end.

Definition no_repeat (prev l : layer) : bool :=
  forallb (fun pg => negb (repeats (fst pg) (snd pg))) (combine (l_gates prev) (l_gates l)).

Fixpoint chain_ok (ls : list layer) : bool :=
  match ls with
  | a :: ((b :: _) as tl) => no_repeat a b && chain_ok tl
  | _ => true
  end.

Definition count_gates (f : gate -> bool) (l : layer) : Z := Z.of_nat (length (filter f (l_gates l))).
Definition is_crot (g : gate) : bool := match g with GCRot _ _ => true | _ => false end.

(* the outcomes of sample(candidates, 2): all ordered pairs of different positions of the candidate list
   (the candidates are pairwise different qubits) *)
Fixpoint ordered_pairs (l : list nat) : list (nat * nat) :=
  match l with
  | [] => []
  | x :: t => flat_map (fun y => [(x, y); (y, x)]) t ++ ordered_pairs t
  end.
Definition accepted_pairs (prev : option layer) (crq : list nat) : list (nat * nat) :=
  filter (fun p => accepts prev (fst p) (snd p)) (ordered_pairs crq).
