(* Parameter names of the EVQE circuits (C04): quantum_gate.py builds
       parameter_name_prefix + f"q{qubit_index}_theta" / "_phi" / "_lambda"
   and circuit_layer.py the prefix  f"layer{layer_id:06d}_"  (repaired, c0eba1b)  or  f"layer{layer_id}_"  (legacy).
   Names are lists of character codes; lex_lt is the code-point order of Python's str (the order in which
   Qiskit's circuit.parameters lists non-vector parameters - checked by the correspondence on every run);
   sort_names is insertion sort by lex_lt.  Definitions only. *)
From QV Require Export Common.Base.
Open Scope Z_scope.

Definition name := list nat.

Fixpoint lex_lt (a b : name) : bool :=
  match a, b with
  | _, [] => false
  | [], _ :: _ => true
  | x :: a', y :: b' => Nat.ltb x y || (Nat.eqb x y && lex_lt a' b')
  end.

Definition name_eqb (a b : name) : bool := list_eqb Nat.eqb a b.

Fixpoint insert_name (x : name) (l : list name) : list name :=
  match l with
  | [] => [x]
  | y :: t => if lex_lt y x then y :: insert_name x t else x :: y :: t
  end.

Definition sort_names (l : list name) : list name := fold_right insert_name [] l.

(* ------------------------------------------------------------------ decimal rendering *)
Definition digit (d : Z) : nat := Z.to_nat (48 + d).

(* str(z) for z >= 0; fuel = an upper bound of the number of digits *)
Fixpoint dec_fuel (fuel : nat) (z : Z) : name :=
  match fuel with
  | O => [digit (z mod 10)]
  | S f => if z <? 10 then [digit z] else dec_fuel f (z / 10) ++ [digit (z mod 10)]
  end.

Definition dec (z : Z) : name :=
  if z <? 0 then 45%nat :: dec_fuel (Z.to_nat (Z.log2 (- z))) (- z)
  else dec_fuel (Z.to_nat (Z.log2 z)) z.

(* the w least significant decimal digits, most significant first *)
Fixpoint digits_w (w : nat) (z : Z) : name :=
  match w with
  | O => []
  | S w' => digits_w w' (z / 10) ++ [digit (z mod 10)]
  end.

(* f"{z:06d}" for z >= 0: zero-padded to width 6, longer numbers in full *)
Definition pad6 (z : Z) : name := if z <? 1000000 then digits_w 6 z else dec z.

(* ------------------------------------------------------------------ the names *)
Definition s_layer : name := [108; 97; 121; 101; 114]%nat.      (* "layer" *)
Definition c_us : nat := 95%nat.                                 (* "_" *)
Definition c_q : nat := 113%nat.                                 (* "q" *)
Definition s_theta : name := [116; 104; 101; 116; 97]%nat.
Definition s_phi : name := [112; 104; 105]%nat.
Definition s_lambda : name := [108; 97; 109; 98; 100; 97]%nat.

Definition layer_prefix (legacy : bool) (layer_id : Z) : name :=
  s_layer ++ (if legacy then dec layer_id else pad6 layer_id) ++ [c_us].

Definition param_name (prefix : name) (qubit : Z) (suffix : name) : name :=
  prefix ++ [c_q] ++ dec qubit ++ [c_us] ++ suffix.

Definition string_of_name (n : name) : string :=
  fold_right (fun c s => String (ascii_of_nat c) s) EmptyString n.
