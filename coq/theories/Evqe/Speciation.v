(* EVQESpeciation.apply_operator (speciation.py), definitions only.
   Functionally the legacy (pre 88eddcc) and the repaired code compute the same population; they differ in
   WHICH list object phase 1 appends to (Evqe/Heap.v).  `speciate` therefore also returns the list of
   representatives as it stands after phase 1 (incoming list, in order, plus the appended individuals). *)
From QV Require Export Evqe.Population.
Open Scope Z_scope.

Section Speciation.
  Context {V : Type} (ieq : individual V -> individual V -> bool).
  Notation ind := (individual V).

  (* the test of the inner loop: distance < threshold or individual == representative *)
  Definition close_to (thr : Z) (x r : ind) : bool := (genetic_distance x r <? thr) || ieq x r.

  (* for representative in species_representatives: ... break *)
  Fixpoint find_rep (thr : Z) (x : ind) (reps : list ind) : option ind :=
    match reps with
    | [] => None
    | r :: t => if close_to thr x r then Some r else find_rep thr x t
    end.

  (* one iteration of the assignment loop on (species_representatives, species_members) *)
  Definition assign_one (thr : Z) (st : list ind * list (ind * list nat)) (i : nat) (x : ind)
    : result (list ind * list (ind * list nat)) :=
    let (reps, mem) := st in
    match find_rep thr x reps with
    | Some r => do l <- dict_at ieq mem r;            (* species_members[representative].append(i) *)
                Ok (reps, dict_set ieq mem r (l ++ [i]))
    | None => Ok (reps ++ [x], dict_set ieq mem x [i])
    end.

  Fixpoint assign_all (thr : Z) (st : list ind * list (ind * list nat)) (i : nat) (xs : list ind)
    : result (list ind * list (ind * list nat)) :=
    match xs with
    | [] => Ok st
    | x :: t => do st' <- assign_one thr st i x; assign_all thr st' (S i) t
    end.

  (* {representative: [] for representative in species_representatives}: equal keys collapse *)
  Definition init_members (reps : list ind) : list (ind * list nat) :=
    fold_left (fun d r => dict_set ieq d r []) reps [].

  (* phase 2: for members in species_members.values(): choice(members); re-key; merge equal keys *)
  Fixpoint rekey (inds : list ind) (groups : list (list nat)) (new : list (ind * list nat)) (s : ostream)
    : result (list (ind * list nat) * ostream) :=
    match groups with
    | [] => Ok (new, s)
    | members :: rest =>
        if Nat.eqb (length members) 0 then rekey inds rest new s
        else
          do c <- take_choice (length members) s;
          do ri <- nth_r members (fst c);
          do r <- nth_r inds ri;                      (* population.individuals[representative_index] *)
          let new' := match dict_get ieq new r with
                      | None => dict_set ieq new r members
                      | Some old => dict_set ieq new r (old ++ members)   (* .extend(members) *)
                      end in
          rekey inds rest new' (snd c)
    end.

  (* for representative, members in new_species_members.items(): for member in members: membership[member] = representative *)
  Definition build_membership (new : list (ind * list nat)) : list (nat * ind) :=
    fold_left (fun d rm => fold_left (fun d' m => dict_set Nat.eqb d' m (fst rm)) (snd rm) d) new [].

  (* returns (new population, representatives list after phase 1, rest of the stream) *)
  Definition speciate (thr : Z) (p : population V) (s : ostream) : result (population V * list ind * ostream) :=
    let reps0 := match p_reps p with None => [] | Some l => l end in
    do st <- assign_all thr (reps0, init_members reps0) 0%nat (p_inds p);
    do nk <- rekey (p_inds p) (map snd (snd st)) [] s;
    let new := fst nk in
    Ok (mkPop (p_inds p) (Some (map fst new)) (Some new) (Some (build_membership new)), fst st, snd nk).

  (* apply_operator: makes no callback; the whole stream must be used up *)
  Definition speciation_op (thr : Z) (p : population V) (s : ostream) : outcome V :=
    ([], do r <- speciate thr p s;
         match snd r with [] => Ok (fst (fst r)) | _ => Err StreamMismatch end).

  (* ---------------------------------------------------------------- the partition property, executable *)
  Definition members_of (new : list (ind * list nat)) : list nat := concat (map snd new).

  Fixpoint nodup_natb (l : list nat) : bool :=
    match l with
    | [] => true
    | x :: t => negb (existsb (Nat.eqb x) t) && nodup_natb t
    end.

  Fixpoint keys_distinct (ks : list ind) : bool :=
    match ks with
    | [] => true
    | k :: t => negb (existsb (ieq k) t) && keys_distinct t
    end.

  (* every index 0..n-1 in exactly one list; each representative is individuals[i] for an i of its own list;
     membership i = r <-> i in members r; representatives pairwise different; representatives = the keys *)
  Definition partition_ok (p : population V) : bool :=
    match p_reps p, p_members p, p_membership p with
    | Some reps, Some mem, Some ms =>
        let n := length (p_inds p) in
        let all := members_of mem in
        nodup_natb all
        && forallb (fun i => existsb (Nat.eqb i) all) (seq 0 n)
        && forallb (fun i => Nat.ltb i n) all
        && forallb (fun rm => negb (Nat.eqb (length (snd rm)) 0)
                              && existsb (fun i => match nth_error (p_inds p) i with
                                                   | Some x => ieq x (fst rm) | None => false end) (snd rm)) mem
        && keys_distinct (map fst mem)
        && list_eqb ieq reps (map fst mem)
        && forallb (fun i => match dict_get Nat.eqb ms i with
                             | Some r => match dict_get ieq mem r with
                                         | Some l => existsb (Nat.eqb i) l
                                         | None => false end
                             | None => false end) (seq 0 n)
        && forallb (fun rm => forallb (fun i => match dict_get Nat.eqb ms i with
                                                | Some r => ieq r (fst rm) | None => false end) (snd rm)) mem
        && Nat.eqb (length ms) n
    | _, _, _ => false
    end.
End Speciation.
