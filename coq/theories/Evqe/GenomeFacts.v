(* Facts about the shared genome model (Evqe/Genome.v) used by C20, C16 and C04:
   Python indexing, the pointwise reading of layer validity, parameter counts. *)
From QV Require Import Evqe.Genome.
Open Scope Z_scope.

Lemma bind_ok {A B} (r : result A) (f : A -> result B) b :
  bind r f = Ok b -> exists a, r = Ok a /\ f a = Ok b.
Proof. destruct r; simpl; intros H; [eauto | discriminate]. Qed.

Lemma bind_err {A B} (r : result A) (f : A -> result B) e :
  bind r f = Err e -> r = Err e \/ exists a, r = Ok a /\ f a = Err e.
Proof. destruct r; simpl; intros H; [right; eauto | left; congruence]. Qed.

(* ------------------------------------------------------------------ Python indexing *)
Lemma py_index_nat {A} (l : list A) (i : nat) :
  py_index l (Z.of_nat i) = match nth_error l i with Some x => Ok x | None => Err "IndexError"%string end.
Proof.
  unfold py_index. cbv zeta.
  assert (Hn : (Z.of_nat i <? 0) = false) by (apply Z.ltb_ge; lia).
  rewrite !Hn. cbn [orb].
  destruct (Z.of_nat (length l) <=? Z.of_nat i) eqn:E.
  - apply Z.leb_le in E. assert (length l <= i)%nat by lia.
    apply nth_error_None in H. rewrite H. reflexivity.
  - rewrite Nat2Z.id. reflexivity.
Qed.

Lemma py_index_Some {A} (l : list A) (i : nat) x :
  nth_error l i = Some x -> py_index l (Z.of_nat i) = Ok x.
Proof. intros H. rewrite py_index_nat, H. reflexivity. Qed.

(* py_index succeeds exactly inside [-len, len) and then reads some position *)
Lemma py_index_ok {A} (l : list A) (i : Z) x :
  py_index l i = Ok x -> exists k, nth_error l k = Some x /\
     (i = Z.of_nat k \/ i = Z.of_nat k - Z.of_nat (length l)).
Proof.
  unfold py_index. cbv zeta. intros H.
  destruct ((_ <? 0) || (_ <=? _)) eqn:E; [discriminate|].
  apply orb_false_iff in E as [E1 E2]. apply Z.ltb_ge in E1. apply Z.leb_gt in E2.
  destruct (nth_error l (Z.to_nat _)) eqn:N; [|discriminate]. inversion H; subst.
  eexists; split; [exact N|].
  destruct (i <? 0) eqn:Ei; rewrite Z2Nat.id by lia; lia.
Qed.

(* ------------------------------------------------------------------ validity, pointwise *)
Lemma gates_valid_from_spec gates rest : forall k,
  gates_valid_from gates (Z.of_nat k) rest = Ok true <->
  (forall j g, nth_error rest j = Some g -> gate_valid_at gates (Z.of_nat (k + j)) g = Ok true).
Proof.
  induction rest as [|g tl IH]; intros k; simpl.
  - split; [intros _ j g H; destruct j; discriminate | reflexivity].
  - split.
    + intros H j g' Hj.
      destruct (gate_valid_at gates (Z.of_nat k) g) as [[|]|] eqn:E; simpl in H; try discriminate.
      destruct j; simpl in Hj.
      * inversion Hj; subst. rewrite Nat.add_0_r. exact E.
      * replace (Z.of_nat k + 1) with (Z.of_nat (S k)) in H by lia.
        apply (proj1 (IH (S k))) with (j := j) (g := g') in H; [|exact Hj].
        replace (k + S j)%nat with (S k + j)%nat by lia. exact H.
    + intros H.
      assert (E : gate_valid_at gates (Z.of_nat k) g = Ok true).
      { specialize (H O g eq_refl). rewrite Nat.add_0_r in H. exact H. }
      rewrite E. simpl.
      replace (Z.of_nat k + 1) with (Z.of_nat (S k)) by lia.
      apply IH. intros j g' Hj. specialize (H (S j) g' Hj).
      replace (S k + j)%nat with (k + S j)%nat by lia. exact H.
Qed.

Lemma layer_valid_spec n gates :
  layer_is_valid (mkLayer n gates) = Ok true <->
  (Z.of_nat (length gates) = n /\
   forall j g, nth_error gates j = Some g -> gate_valid_at gates (Z.of_nat j) g = Ok true).
Proof.
  unfold layer_is_valid. simpl.
  destruct (Z.of_nat (length gates) =? n) eqn:E; simpl.
  - apply Z.eqb_eq in E. rewrite (gates_valid_from_spec gates gates O). simpl. tauto.
  - apply Z.eqb_neq in E. split; [discriminate | tauto].
Qed.

Lemma layer_wf_spec l :
  layer_wf l = true <->
  (Z.of_nat (length (l_gates l)) = l_qubits l /\
   forall j g, nth_error (l_gates l) j = Some g -> gate_valid_at (l_gates l) (Z.of_nat j) g = Ok true).
Proof.
  destruct l as [n gates]. unfold layer_wf. rewrite <- layer_valid_spec. simpl.
  destruct (layer_is_valid (mkLayer n gates)) as [[|]|]; simpl; split; congruence.
Qed.

Lemma make_layer_ok n gates l : make_layer n gates = Ok l -> l = mkLayer n gates /\ layer_wf l = true.
Proof.
  unfold make_layer. intros H. apply bind_ok in H as [v [Hv H]].
  destruct v; inversion H; subst. split; [reflexivity|]. unfold layer_wf. rewrite Hv. reflexivity.
Qed.

Lemma make_layer_wf n gates : layer_wf (mkLayer n gates) = true -> make_layer n gates = Ok (mkLayer n gates).
Proof.
  unfold layer_wf, make_layer. destruct (layer_is_valid (mkLayer n gates)) as [[|]|]; simpl; congruence.
Qed.

(* the gate at position j of a well-formed layer *)
Lemma wf_gate_qubit l j g : layer_wf l = true -> nth_error (l_gates l) j = Some g -> gate_qubit g = Z.of_nat j.
Proof.
  intros W H. apply layer_wf_spec in W as [_ W]. specialize (W j g H).
  unfold gate_valid_at in W. destruct (Z.of_nat j =? gate_qubit g) eqn:E; simpl in W.
  - apply Z.eqb_eq in E. congruence.
  - discriminate.
Qed.

(* ------------------------------------------------------------------ parameter counts *)
Lemma gate_n_parameters_nonneg g : 0 <= gate_n_parameters g.
Proof. destruct g; simpl; lia. Qed.

Lemma sumZ_nonneg l : (forall x, In x l -> 0 <= x) -> 0 <= sumZ l.
Proof.
  induction l as [|x xs IH]; simpl; intros H; [lia|].
  assert (0 <= x) by (apply H; auto). assert (0 <= sumZ xs) by (apply IH; intros; apply H; auto). lia.
Qed.

Lemma layer_n_parameters_nonneg l : 0 <= layer_n_parameters l.
Proof.
  unfold layer_n_parameters. apply sumZ_nonneg. intros x Hx. apply in_map_iff in Hx as [g [<- _]].
  apply gate_n_parameters_nonneg.
Qed.

Lemma n_params_of_nonneg ls : 0 <= n_params_of ls.
Proof.
  unfold n_params_of. apply sumZ_nonneg. intros x Hx. apply in_map_iff in Hx as [g [<- _]].
  apply layer_n_parameters_nonneg.
Qed.

Lemma sumZ_app a b : sumZ (a ++ b) = sumZ a + sumZ b.
Proof. induction a; simpl; lia. Qed.

Lemma n_params_of_app a b : n_params_of (a ++ b) = n_params_of a + n_params_of b.
Proof. unfold n_params_of. rewrite map_app, sumZ_app. reflexivity. Qed.

Lemma n_params_of_cons a b : n_params_of (a :: b) = layer_n_parameters a + n_params_of b.
Proof. reflexivity. Qed.

(* 3 x (rotations + controlled rotations) *)
Definition has_params (g : gate) : bool := match g with GRot _ | GCRot _ _ => true | _ => false end.

Lemma layer_n_parameters_count l :
  layer_n_parameters l = 3 * Z.of_nat (length (filter has_params (l_gates l))).
Proof.
  unfold layer_n_parameters. induction (l_gates l) as [|g gs IH]; [reflexivity|].
  cbn [map sumZ fold_right]. fold (sumZ (map gate_n_parameters gs)). rewrite IH.
  destruct g; cbn [has_params filter gate_n_parameters length]; rewrite ?Nat2Z.inj_succ; lia.
Qed.

(* ------------------------------------------------------------------ make_individual *)
Lemma make_individual_ok {V} n ls (vs : list V) i :
  make_individual n ls vs = Ok i -> i = mkInd n ls vs /\ individual_is_valid i = true.
Proof.
  unfold make_individual. destruct (individual_is_valid (mkInd n ls vs)) eqn:E; intros H; inversion H; subst.
  auto.
Qed.

Lemma make_individual_valid {V} n ls (vs : list V) :
  individual_is_valid (mkInd n ls vs) = true -> make_individual n ls vs = Ok (mkInd n ls vs).
Proof. unfold make_individual. intros ->. reflexivity. Qed.

Lemma make_individual_err {V} n ls (vs : list V) e :
  make_individual n ls vs = Err e -> e = IndividualException /\ individual_is_valid (mkInd n ls vs) = false.
Proof. unfold make_individual. destruct (individual_is_valid _); intros H; inversion H; auto. Qed.

Lemma valid_parts {V} (i : individual V) :
  individual_is_valid i = true <->
  (i_layers i <> [] /\
   (forall l, In l (i_layers i) -> layer_wf l = true /\ l_qubits l = i_qubits i) /\
   Z.of_nat (length (i_values i)) = n_params_of (i_layers i)).
Proof.
  unfold individual_is_valid. rewrite !andb_true_iff, negb_true_iff, Nat.eqb_neq, forallb_forall, Z.eqb_eq.
  split.
  - intros [[H1 H2] H3]. repeat split; auto.
    + intros E. rewrite E in H1. auto.
    + apply H2 in H. apply andb_true_iff in H. tauto.
    + apply H2 in H. apply andb_true_iff in H as [_ H]. apply Z.eqb_eq in H. exact H.
  - intros [H1 [H2 H3]]. repeat split; auto.
    + destruct (i_layers i); simpl; congruence.
    + intros l Hl. apply H2 in Hl as [A B]. rewrite A. simpl. apply Z.eqb_eq. exact B.
Qed.
