(* Proofs about parameter names (C04): the code-point order, insertion sort, and
   "zero-padded prefix order = numeric layer order" for fewer than 10^6 layers. *)
From QV Require Import Evqe.Names.
Open Scope Z_scope.

(* ------------------------------------------------------------------ the order *)
Lemma lex_lt_irrefl a : lex_lt a a = false.
Proof.
  induction a as [|x a IH]; [reflexivity|]. simpl. rewrite Nat.ltb_irrefl, Nat.eqb_refl, IH. reflexivity.
Qed.

Lemma lex_lt_asym a : forall b, lex_lt a b = true -> lex_lt b a = false.
Proof.
  induction a as [|x a IH]; intros [|y b] H; simpl in *; try reflexivity; try discriminate.
  apply orb_true_iff in H as [H|H].
  - apply Nat.ltb_lt in H. assert (E1 : Nat.ltb y x = false) by (apply Nat.ltb_ge; lia).
    assert (E2 : Nat.eqb y x = false) by (apply Nat.eqb_neq; lia). rewrite E1, E2. reflexivity.
  - apply andb_true_iff in H as [H1 H2]. apply Nat.eqb_eq in H1. subst.
    rewrite Nat.ltb_irrefl, Nat.eqb_refl. simpl. apply IH. exact H2.
Qed.

Lemma lex_lt_neq a b : lex_lt a b = true -> a <> b.
Proof. intros H ->. rewrite lex_lt_irrefl in H. discriminate. Qed.

Lemma lex_lt_app_common l a b : lex_lt (l ++ a) (l ++ b) = lex_lt a b.
Proof.
  induction l as [|x l IH]; [reflexivity|]. simpl. rewrite Nat.ltb_irrefl, Nat.eqb_refl. simpl. exact IH.
Qed.

Lemma lex_lt_app_len a : forall b x y, length a = length b -> lex_lt a b = true -> lex_lt (a ++ x) (b ++ y) = true.
Proof.
  induction a as [|p a IH]; intros [|q b] x y L H; simpl in *; try discriminate.
  apply orb_true_iff in H as [H|H]; [rewrite H; reflexivity|].
  apply andb_true_iff in H as [H1 H2]. rewrite H1. rewrite (IH b x y); [apply orb_true_r | lia | exact H2].
Qed.

Lemma name_eqb_eq a b : name_eqb a b = true <-> a = b.
Proof. unfold name_eqb. apply list_eqb_eq. intros x y. apply Nat.eqb_eq. Qed.

Lemma name_eqb_refl a : name_eqb a a = true.
Proof. apply name_eqb_eq. reflexivity. Qed.

Lemma name_eqb_neq a b : a <> b -> name_eqb a b = false.
Proof. intros H. destruct (name_eqb a b) eqn:E; [apply name_eqb_eq in E; contradiction | reflexivity]. Qed.

(* ------------------------------------------------------------------ insertion sort *)
Lemma in_insert y x l : In y (insert_name x l) <-> y = x \/ In y l.
Proof.
  induction l as [|h t IH]; simpl; [intuition|].
  destruct (lex_lt h x); simpl; rewrite ?IH; intuition.
Qed.

Lemma in_sort y l : In y (sort_names l) <-> In y l.
Proof.
  induction l as [|h t IH]; simpl; [tauto|]. rewrite in_insert, IH. intuition.
Qed.

Lemma insert_length x l : length (insert_name x l) = S (length l).
Proof. induction l as [|h t IH]; simpl; [reflexivity|]. destruct (lex_lt h x); simpl; [rewrite IH|]; reflexivity. Qed.

Lemma sort_length l : length (sort_names l) = length l.
Proof. induction l as [|h t IH]; simpl; [reflexivity|]. rewrite insert_length, IH. reflexivity. Qed.

Lemma insert_app x l1 l2 :
  (forall y, In y l2 -> lex_lt x y = true) -> insert_name x (l1 ++ l2) = insert_name x l1 ++ l2.
Proof.
  intros H. induction l1 as [|h t IH]; simpl.
  - destruct l2 as [|y t2]; [reflexivity|]. simpl.
    rewrite (lex_lt_asym x y (H y (or_introl eq_refl))). reflexivity.
  - destruct (lex_lt h x); [rewrite IH|]; reflexivity.
Qed.

Lemma sort_app a b :
  (forall x y, In x a -> In y b -> lex_lt x y = true) -> sort_names (a ++ b) = sort_names a ++ sort_names b.
Proof.
  intros H. induction a as [|x a IH]; [reflexivity|].
  simpl. rewrite IH by (intros; apply H; [right|]; assumption).
  apply insert_app. intros y Hy. apply (proj1 (in_sort y b)) in Hy. apply H; [left; reflexivity | exact Hy].
Qed.

(* ------------------------------------------------------------------ zero-padded numbers *)
Lemma digits_w_length w : forall z, length (digits_w w z) = w.
Proof. induction w as [|w IH]; intros z; simpl; [reflexivity|]. rewrite app_length, IH. simpl. lia. Qed.

Lemma digits_lt w : forall i j, 0 <= i < j -> j < 10 ^ Z.of_nat w -> lex_lt (digits_w w i) (digits_w w j) = true.
Proof.
  induction w as [|w IH]; intros i j Hij Hj.
  - simpl in Hj. lia.
  - rewrite Nat2Z.inj_succ, Z.pow_succ_r in Hj by lia. simpl.
    assert (Hle : i / 10 <= j / 10) by (apply Z.div_le_mono; lia).
    assert (Hj' : j / 10 < 10 ^ Z.of_nat w) by (apply Z.div_lt_upper_bound; lia).
    destruct (Z.eq_dec (i / 10) (j / 10)) as [E|NE].
    + rewrite E. rewrite lex_lt_app_common. simpl.
      pose proof (Z.div_mod i 10 ltac:(lia)). pose proof (Z.div_mod j 10 ltac:(lia)).
      pose proof (Z.mod_pos_bound i 10 ltac:(lia)). pose proof (Z.mod_pos_bound j 10 ltac:(lia)).
      assert (L : Nat.ltb (digit (i mod 10)) (digit (j mod 10)) = true) by (apply Nat.ltb_lt; unfold digit; lia).
      rewrite L. reflexivity.
    + apply lex_lt_app_len; [rewrite !digits_w_length; reflexivity|].
      apply IH; [|exact Hj']. split; [apply Z.div_pos; lia | lia].
Qed.

Lemma pad6_small z : z < 1000000 -> pad6 z = digits_w 6 z.
Proof. intros H. unfold pad6. assert (E : (z <? 1000000) = true) by (apply Z.ltb_lt; exact H). rewrite E. reflexivity. Qed.

(* name order = layer order, for layer ids below 10^6 (the width of the repaired prefix) *)
Theorem prefix_lt i j x y :
  0 <= i < j -> j < 1000000 -> lex_lt (layer_prefix false i ++ x) (layer_prefix false j ++ y) = true.
Proof.
  intros Hij Hj. unfold layer_prefix. rewrite !pad6_small by lia.
  rewrite <- !app_assoc. rewrite lex_lt_app_common.
  apply lex_lt_app_len; [rewrite !digits_w_length; reflexivity|].
  apply digits_lt; [exact Hij | exact Hj].
Qed.

(* the legacy prefix does not have this property: "layer10_" < "layer2_" *)
Lemma legacy_prefix_not_ordered : lex_lt (layer_prefix true 10) (layer_prefix true 2) = true.
Proof. reflexivity. Qed.
