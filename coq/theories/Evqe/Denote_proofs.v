(* C16_append_zero_identity: appending layers whose parameters are all zero leaves the denotation of
   get_quantum_circuit() unchanged, given U(0,0,0) = I, CU3(0,0,0) = I, id = I and m * I = m. *)
From QV Require Import Evqe.Genome Evqe.GenomeFacts Evqe.GenomeOps_proofs Evqe.Names Evqe.Names_proofs
  Evqe.Circuit Evqe.Circuit_proofs Evqe.Denote.
Open Scope Z_scope.

Section ZeroAppend.
Context {V M : Type}.
Variables (mul : M -> M -> M) (one : M) (sem : instr V -> M) (zero : V).
Hypothesis mul_one_r : forall m, mul m one = m.
Hypothesis sem_id : forall q, sem (IId q) = one.
Hypothesis sem_u_zero : forall q, sem (IU q (AVal zero) (AVal zero) (AVal zero)) = one.
Hypothesis sem_cu3_zero : forall c t, sem (ICU3 c t (AVal zero) (AVal zero) (AVal zero)) = one.

Notation den := (den mul one sem).

Lemma den_app_ones (a b : circuit V) : (forall ins, In ins b -> sem ins = one) -> den (a ++ b) = den a.
Proof.
  intros H. unfold Denote.den. rewrite fold_left_app.
  generalize (fold_left (fun m ins => mul m (sem ins)) a one) as m0.
  induction b as [|x b IH]; intros m0; [reflexivity|]. simpl.
  rewrite (H x (or_introl eq_refl)), mul_one_r. apply IH. intros ins Hin. apply H. right. exact Hin.
Qed.

Lemma In_skipn_local {A} (l : list A) n x : In x (skipn n l) -> In x l.
Proof. intros H. rewrite <- (firstn_skipn n l). apply in_or_app. right. exact H. Qed.

Lemma bind_zero env n :
  (exists v, lookup n env = Some v /\ v = zero) -> bind_angle env (ANam n) = AVal zero.
Proof. intros [v [E ->]]. simpl. rewrite E. reflexivity. Qed.

Lemma zero_block legacy kl (vals : list V) :
  (forall v, In v vals -> v = zero) ->
  length vals = length (circuit_params (sym (V := V) legacy kl)) ->
  forall ins, In ins (local_bind (sym legacy kl, vals)) -> sem ins = one.
Proof.
  intros Hz L ins Hin. unfold local_bind in Hin. cbn [fst snd] in Hin.
  set (env := combine (sort_names (circuit_params (sym (V := V) legacy kl))) vals) in *.
  unfold bind_circuit in Hin. apply in_map_iff in Hin as [ins0 [<- Hin0]].
  assert (Hn : forall n, In n (instr_params ins0) -> bind_angle env (ANam n) = AVal zero).
  { intros n Hn. apply bind_zero.
    destruct (lookup_combine n (sort_names (circuit_params (sym (V := V) legacy kl))) vals) as [v [A B]].
    - apply in_sort. unfold circuit_params. apply in_flat_map. exists ins0. split; assumption.
    - rewrite sort_length. symmetry. exact L.
    - exists v. split; [exact A | apply Hz; exact B]. }
  unfold sym, layer_circuit in Hin0. apply in_flat_map in Hin0 as [g [_ Hg]].
  destruct g as [q|q|q t|q c0]; simpl in Hg; try contradiction; destruct Hg as [<-|[]].
  - apply sem_id.
  - cbn [bind_instr]. rewrite !Hn by (simpl; auto). apply sem_u_zero.
  - cbn [bind_instr]. rewrite !Hn by (simpl; auto). apply sem_cu3_zero.
Qed.

Theorem append_zero_identity (i : individual V) (new : list layer) (m : nat) (i' : individual V) :
  individual_is_valid i = true ->
  Z.of_nat (length (i_layers i) + length new) <= 1000000 ->
  add_layers i new (repeat zero m) = Ok i' ->
  exists c c', concrete false i = Ok c /\ concrete false i' = Ok c' /\ den c' = den c.
Proof.
  intros Val Len Add.
  destruct (add_layers_spec i new (repeat zero m) Val) as [HOk HErr].
  assert (Good : good_layers (i_qubits i) new /\ Z.of_nat (length (repeat zero m)) = n_params_of new).
  { pose proof Add as Add'. unfold add_layers in Add'. apply make_individual_ok in Add' as [Ei V2]. subst i'.
    apply valid_parts in V2 as [_ [G2 L2]]. cbn [i_qubits i_layers i_values] in *.
    apply valid_parts in Val as [_ [_ LV]]. split.
    - intros l Hl. apply G2. apply in_or_app. right. exact Hl.
    - rewrite app_length, Nat2Z.inj_add, n_params_of_app in L2. lia. }
  destruct (HOk Good) as [i2 [E2 [Val' [_ [Ls' [Vs' LVs]]]]]]. rewrite Add in E2. inversion E2; subst i2. clear E2.
  assert (Len' : Z.of_nat (length (i_layers i')) <= 1000000) by (rewrite Ls', app_length; lia).
  exists (bound_with false (i_layers i) (layer_values i)), (bound_with false (i_layers i') (layer_values i')).
  split; [apply concrete_ok; [exact Val | lia]|]. split; [apply concrete_ok; assumption|].
  unfold bound_with. rewrite Ls', enum_app, map_app, concat_app. simpl.
  replace (map (bound_block false (layer_values i')) (enum 0 (i_layers i)))
    with (map (bound_block false (layer_values i)) (enum 0 (i_layers i))).
  2:{ apply map_ext_in. intros [k l] Hin. unfold bound_block. cbn [fst]. rewrite LVs; [reflexivity|].
      apply enum_in in Hin as [_ N]. rewrite Nat.sub_0_r in N. apply nth_error_Some. congruence. }
  apply den_app_ones. intros ins Hin. apply in_concat in Hin as [b [Hb Hins]].
  apply in_map_iff in Hb as [[k l] [<- Hkl]]. unfold bound_block in Hins. cbn [fst] in Hins.
  apply enum_in in Hkl as [Hk N].
  assert (Nk : nth_error (i_layers i') k = Some l).
  { rewrite Ls'. rewrite nth_error_app2 by lia. exact N. }
  revert Hins. apply zero_block.
  - intros v Hv. unfold layer_values in Hv. apply In_firstn_local in Hv. rewrite Vs' in Hv.
    rewrite skipn_app in Hv. apply in_app_or in Hv as [Hv|Hv].
    + exfalso. rewrite skipn_all2 in Hv; [contradiction|].
      apply valid_parts in Val as [_ [_ LV]]. rewrite Ls'. unfold layer_offset.
      pose proof (firstn_mono_params (length (i_layers i)) k (i_layers i ++ new) Hk) as Mo.
      rewrite firstn_app, Nat.sub_diag, firstn_all in Mo. cbn [firstn] in Mo. rewrite app_nil_r in Mo. lia.
    + apply In_skipn_local in Hv. apply repeat_spec in Hv. exact Hv.
  - rewrite sym_params_length. apply layer_values_length; assumption.
Qed.

End ZeroAppend.
