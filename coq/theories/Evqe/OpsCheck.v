(* Correspondence entry points for C10 / C11: a case is one operator sequence as the implementation ran it.
   Individuals are interned in a table (c_table); every expected population / callback payload refers to
   individuals by table index.  Parameter values are integer tokens (equal floats = equal tokens).
   check_case      : value-level model (run_op) against every returned population and every callback;
   check_heap_case : heap-level model (apply_h) — additionally, for every population the implementation handed out
                     (initial argument, every returned population), what its species_representatives list object
                     contains AT THE END of the run (e_final) against the model's final heap.  Object numbers are
                     not compared: an implementation that copies more than the model is not a difference. *)
From QV Require Import Evqe.Heap.
Open Scope Z_scope.

Definition zind := individual Z.
Definition zseq : zind -> zind -> bool := individual_eqb Z.eqb.     (* structural: interning table *)
Definition zieq : zind -> zind -> bool := individual_heq Z.eqb.     (* the implementation's `==` *)

Record epop := mkE {
  e_inds : list nat;
  e_reps : option (list nat);
  e_members : option (list (nat * list nat));
  e_membership : option (list (nat * nat));
  e_final : option (list nat) }.    (* species_representatives of this very object at the end of the run *)

Inductive ecb :=
| ECount (n : Z)
| EResult (values : list Q) (best : nat) (best_value : Q).

Record estep := mkStep {
  st_op : op;
  st_log : oplog Z;
  st_cbs : list ecb;
  st_out : result epop }.

Record ocase := mkCase {
  c_table : list zind;
  c_zero : Z;                         (* the token of the value 0 *)
  c_evals : list (nat * Q);           (* the evaluator's answer for table entry i *)
  c_legacy_opt : bool;
  c_legacy_spec : bool;
  c_init : epop;
  c_steps : list estep }.

Fixpoint list_eqb2 {A B} (f : A -> B -> bool) (l1 : list A) (l2 : list B) : bool :=
  match l1, l2 with
  | [], [] => true
  | x :: xs, y :: ys => f x y && list_eqb2 f xs ys
  | _, _ => false
  end.

Definition opt_eqb2 {A B} (f : A -> B -> bool) (a : option A) (b : option B) : bool :=
  match a, b with
  | None, None => true
  | Some x, Some y => f x y
  | _, _ => false
  end.

Section Case.
  Variable c : ocase.
  Let tbl := c_table c.

  Definition ind_is (x : zind) (i : nat) : bool :=
    match nth_error tbl i with Some y => zseq x y | None => false end.

  Fixpoint index_from (k : nat) (l : list zind) (x : zind) : option nat :=
    match l with
    | [] => None
    | y :: t => if zseq x y then Some k else index_from (S k) t x
    end.
  Definition index_of (x : zind) : nat := match index_from 0 tbl x with Some i => i | None => 4999%nat end.

  Definition ev (x : zind) : result Q :=
    match index_from 0 tbl x with
    | Some i => match dict_get Nat.eqb (c_evals c) i with
                | Some q => Ok q
                | None => Err "EvaluatorLogMissing"%string
                end
    | None => Err "EvaluatorLogMissing"%string
    end.

  Definition get_ind (i : nat) : result zind :=
    match nth_error tbl i with Some x => Ok x | None => Err "BadCase"%string end.

  Definition resolve_members (m : list (nat * list nat)) : result (list (zind * list nat)) :=
    mapM (fun kv => do x <- get_ind (fst kv); Ok (x, snd kv)) m.
  Definition resolve_membership (m : list (nat * nat)) : result (list (nat * zind)) :=
    mapM (fun kv => do x <- get_ind (snd kv); Ok (fst kv, x)) m.
  Definition resolve_opt {A B} (f : A -> result B) (o : option A) : result (option B) :=
    match o with None => Ok None | Some a => do b <- f a; Ok (Some b) end.

  Definition resolve_pop (e : epop) : result (population Z) :=
    do inds <- mapM get_ind (e_inds e);
    do reps <- resolve_opt (mapM get_ind) (e_reps e);
    do mem <- resolve_opt resolve_members (e_members e);
    do ms <- resolve_opt resolve_membership (e_membership e);
    Ok (mkPop inds reps mem ms).

  Definition members_match (m : list (zind * list nat)) (e : list (nat * list nat)) : bool :=
    list_eqb2 (fun a b => ind_is (fst a) (fst b) && list_eqb Nat.eqb (snd a) (snd b)) m e.
  Definition membership_match (m : list (nat * zind)) (e : list (nat * nat)) : bool :=
    list_eqb2 (fun a b => Nat.eqb (fst a) (fst b) && ind_is (snd a) (snd b)) m e.

  Definition pop_matches (p : population Z) (e : epop) : bool :=
    list_eqb2 ind_is (p_inds p) (e_inds e)
    && opt_eqb2 (list_eqb2 ind_is) (p_reps p) (e_reps e)
    && opt_eqb2 members_match (p_members p) (e_members e)
    && opt_eqb2 membership_match (p_membership p) (e_membership e).

  Definition pop_eqb (p q : population Z) : bool :=
    list_eqb zseq (p_inds p) (p_inds q)
    && option_eqb (list_eqb zseq) (p_reps p) (p_reps q)
    && option_eqb (list_eqb (fun a b => zseq (fst a) (fst b) && list_eqb Nat.eqb (snd a) (snd b))) (p_members p) (p_members q)
    && option_eqb (list_eqb (fun a b => Nat.eqb (fst a) (fst b) && zseq (snd a) (snd b))) (p_membership p) (p_membership q).

  (* the population inside a result payload must be the argument (the harness checks object identity) *)
  Definition cb_matches (arg : population Z) (cb : callback Z) (e : ecb) : bool :=
    match cb, e with
    | CbCount n, ECount m => Z.eqb n m
    | CbResult r, EResult vs b bv =>
        pop_eqb (r_pop r) arg && list_eqb Qeq_bool (r_values r) vs && ind_is (r_best r) b && Qeq_bool (r_best_value r) bv
    | _, _ => false
    end.

  Definition run1 (st : estep) (p : population Z) : outcome Z :=
    run_op Z.eqb zieq (c_zero c) ev (c_legacy_opt c) (st_op st) (st_log st) p.

  Definition is_nil {A} (l : list A) : bool := match l with [] => true | _ => false end.

  Fixpoint check_steps (steps : list estep) (p : population Z) : bool :=
    match steps with
    | [] => true
    | st :: t =>
        let oc := run1 st p in
        list_eqb2 (cb_matches p) (fst oc) (st_cbs st)
        && match snd oc, st_out st with
           | Ok p', Ok e => pop_matches p' e && check_steps t p'
           | Err a, Err b => String.eqb a b && is_nil t
           | _, _ => false
           end
    end.

  Definition check_case_body : bool :=
    match resolve_pop (c_init c) with
    | Ok p => check_steps (c_steps c) p
    | Err _ => false
    end.

  (* ---------------------------------------------------------------- heap level *)
  Definition to_hpop (p : population Z) (loc : option nat) : hpop (V := Z) :=
    mkH (p_inds p) loc (p_members p) (p_membership p).

  Definition hcb_matches (h : heap (V := Z)) (arg : hpop (V := Z)) (cb : hcallback (V := Z)) (e : ecb) : bool :=
    match cb, e with
    | HCount n, ECount m => Z.eqb n m
    | HResult hp vs b bv, EResult evs eb ebv =>
        option_eqb Nat.eqb (h_reps hp) (h_reps arg)
        && list_eqb Qeq_bool vs evs && ind_is b eb && Qeq_bool bv ebv
    | _, _ => false
    end.

  (* at the end: every population handed out dereferences, in the final heap, to what the implementation's
     object contains at the end *)
  Definition final_ok (final : heap (V := Z)) (hp : hpop (V := Z)) (e : epop) : bool :=
    match deref final hp with
    | Ok p => opt_eqb2 (list_eqb2 ind_is) (p_reps p) (e_final e)
    | Err _ => false
    end.

  Fixpoint check_hsteps (steps : list estep) (h : heap (V := Z)) (arg : hpop (V := Z)) (handed : list (hpop (V := Z) * epop)) : bool :=
    match steps with
    | [] => forallb (fun he => final_ok h (fst he) (snd he)) handed
    | st :: t =>
        let '(h', cbs, r) := apply_h Z.eqb zieq (c_zero c) ev (c_legacy_opt c) (c_legacy_spec c) (st_op st) (st_log st) h arg in
        list_eqb2 (hcb_matches h' arg) cbs (st_cbs st)
        && match r, st_out st with
           | Ok out, Ok e =>
               match deref h' out with Ok p' => pop_matches p' e | Err _ => false end
               && check_hsteps t h' out ((out, e) :: handed)
           | Err a, Err b => String.eqb a b && is_nil t && forallb (fun he => final_ok h' (fst he) (snd he)) handed
           | _, _ => false
           end
    end.

  Definition check_heap_case_body : bool :=
    match resolve_pop (c_init c) with
    | Ok p =>
        match p_reps p with
        | Some reps => check_hsteps (c_steps c) [reps] (to_hpop p (Some 0%nat)) [(to_hpop p (Some 0%nat), c_init c)]
        | None => check_hsteps (c_steps c) [] (to_hpop p None) [(to_hpop p None, c_init c)]
        end
    | Err _ => false
    end.

  (* ---------------------------------------------------------------- what the model answers (for replay files) *)
  Definition show_pop (p : population Z) : epop :=
    mkE (map index_of (p_inds p))
        (option_map (map index_of) (p_reps p))
        (option_map (map (fun kv => (index_of (fst kv), snd kv))) (p_members p))
        (option_map (map (fun kv => (fst kv, index_of (snd kv)))) (p_membership p))
        None.

  Definition show_cb (cb : callback Z) : ecb :=
    match cb with
    | CbCount n => ECount n
    | CbResult r => EResult (r_values r) (index_of (r_best r)) (r_best_value r)
    end.

  Fixpoint show_steps (steps : list estep) (p : population Z) : list (list ecb * result epop) :=
    match steps with
    | [] => []
    | st :: t =>
        let oc := run1 st p in
        (map show_cb (fst oc), match snd oc with Ok p' => Ok (show_pop p') | Err e => Err e end)
        :: match snd oc with Ok p' => show_steps t p' | Err _ => [] end
    end.

  Definition show_case_body : list (list ecb * result epop) :=
    match resolve_pop (c_init c) with
    | Ok p => show_steps (c_steps c) p
    | Err _ => []
    end.
End Case.

Definition check_case (c : ocase) : bool := check_case_body c.
Definition check_heap_case (c : ocase) : bool := check_heap_case_body c.
Definition show_case (c : ocase) := show_case_body c.
