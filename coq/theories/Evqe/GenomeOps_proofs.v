(* Proofs for C16 over the structural operations of Evqe/Genome.v: add_layers, remove_layers,
   change_parameter_values, change_layer_parameter_values. *)
From QV Require Import Evqe.Genome Evqe.GenomeFacts.
Open Scope Z_scope.

(* ------------------------------------------------------------------ slices *)
Lemma firstn_skipn_app {A} (l r : list A) o c :
  (o + c <= length l)%nat -> firstn c (skipn o (l ++ r)) = firstn c (skipn o l).
Proof.
  intros H. rewrite skipn_app. rewrite firstn_app.
  replace (c - length (skipn o l))%nat with O by (rewrite skipn_length; lia).
  simpl. apply app_nil_r.
Qed.

Lemma skipn_skipn_local {A} (l : list A) x y : skipn x (skipn y l) = skipn (y + x) l.
Proof.
  revert l. induction y as [|y IH]; intros l; [reflexivity|].
  destruct l as [|h t]; [rewrite !skipn_nil; reflexivity|]. simpl. apply IH.
Qed.

Lemma firstn_skipn_firstn {A} (l : list A) m o c :
  (o + c <= m)%nat -> firstn c (skipn o (firstn m l)) = firstn c (skipn o l).
Proof.
  intros H. rewrite <- (firstn_skipn m l) at 2.
  destruct (Nat.le_gt_cases m (length l)) as [Hm|Hm].
  - rewrite firstn_skipn_app; [reflexivity|]. rewrite firstn_length. lia.
  - rewrite (firstn_all2 (n := m)) by lia. rewrite (skipn_all2 (n := m)) by lia. rewrite app_nil_r. reflexivity.
Qed.

(* ------------------------------------------------------------------ offsets of layers in the flat value tuple *)
Lemma n_params_firstn_le m ls : n_params_of (firstn m ls) <= n_params_of ls.
Proof.
  rewrite <- (firstn_skipn m ls) at 2. rewrite n_params_of_app.
  pose proof (n_params_of_nonneg (skipn m ls)). lia.
Qed.

Lemma n_params_firstn_S k ls l :
  nth_error ls k = Some l -> n_params_of (firstn (S k) ls) = n_params_of (firstn k ls) + layer_n_parameters l.
Proof.
  revert k. induction ls as [|x xs IH]; intros [|k] H; simpl in H; try discriminate.
  - inversion H; subst. simpl. rewrite !n_params_of_cons. unfold n_params_of. simpl. lia.
  - change (firstn (S (S k)) (x :: xs)) with (x :: firstn (S k) xs).
    change (firstn (S k) (x :: xs)) with (x :: firstn k xs).
    rewrite !n_params_of_cons, (IH k H). lia.
Qed.

Lemma firstn_mono_params j k ls : (j <= k)%nat -> n_params_of (firstn j ls) <= n_params_of (firstn k ls).
Proof.
  intros H. replace (firstn j ls) with (firstn j (firstn k ls)).
  - apply n_params_firstn_le.
  - rewrite firstn_firstn. f_equal. lia.
Qed.

(* the slice of layer k lies inside the value tuple, before the slice of every later layer *)
Lemma offset_count_le ls j k :
  (j < k)%nat -> (layer_offset ls j + layer_count ls j <= layer_offset ls k)%nat.
Proof.
  intros H. unfold layer_offset, layer_count.
  destruct (nth_error ls j) as [l|] eqn:E.
  - pose proof (n_params_firstn_S j ls l E) as S1.
    pose proof (firstn_mono_params (S j) k ls ltac:(lia)) as M.
    pose proof (n_params_of_nonneg (firstn j ls)). pose proof (layer_n_parameters_nonneg l). lia.
  - pose proof (firstn_mono_params j k ls ltac:(lia)). pose proof (n_params_of_nonneg (firstn j ls)). lia.
Qed.

Lemma offset_count_total ls k :
  (layer_offset ls k + layer_count ls k <= Z.to_nat (n_params_of ls))%nat.
Proof.
  unfold layer_offset, layer_count.
  destruct (nth_error ls k) as [l|] eqn:E.
  - pose proof (n_params_firstn_S k ls l E) as S1.
    pose proof (n_params_firstn_le (S k) ls).
    pose proof (n_params_of_nonneg (firstn k ls)). pose proof (layer_n_parameters_nonneg l). lia.
  - pose proof (n_params_firstn_le k ls). pose proof (n_params_of_nonneg (firstn k ls)). lia.
Qed.

Lemma layer_offset_app ls new k : (k <= length ls)%nat -> layer_offset (ls ++ new) k = layer_offset ls k.
Proof.
  intros H. unfold layer_offset. rewrite firstn_app. replace (k - length ls)%nat with O by lia.
  simpl. rewrite app_nil_r. reflexivity.
Qed.

Lemma layer_count_app ls new k : (k < length ls)%nat -> layer_count (ls ++ new) k = layer_count ls k.
Proof. intros H. unfold layer_count. rewrite nth_error_app1 by exact H. reflexivity. Qed.

Lemma layer_offset_firstn ls m k : (k <= m)%nat -> layer_offset (firstn m ls) k = layer_offset ls k.
Proof. intros H. unfold layer_offset. rewrite firstn_firstn. do 3 f_equal. lia. Qed.

Lemma nth_error_firstn {A} (l : list A) m k : (k < m)%nat -> nth_error (firstn m l) k = nth_error l k.
Proof.
  revert l k. induction m as [|m IH]; intros l k H; [lia|].
  destruct l as [|x xs]; [destruct k; reflexivity|]. destruct k; [reflexivity|]. simpl. apply IH. lia.
Qed.

Lemma layer_count_firstn ls m k : (k < m)%nat -> layer_count (firstn m ls) k = layer_count ls k.
Proof. intros H. unfold layer_count. rewrite nth_error_firstn by exact H. reflexivity. Qed.

Lemma layer_count_out ls k : (length ls <= k)%nat -> layer_count ls k = O.
Proof. intros H. unfold layer_count. apply nth_error_None in H. rewrite H. reflexivity. Qed.

Lemma In_firstn_local {A} (l : list A) m x : In x (firstn m l) -> In x l.
Proof. intros H. rewrite <- (firstn_skipn m l). apply in_or_app. left. exact H. Qed.

Definition good_layers (n : Z) (ls : list layer) : Prop := forall l, In l ls -> layer_wf l = true /\ l_qubits l = n.

Lemma valid_intro {V} n ls (vs : list V) :
  ls <> [] -> good_layers n ls -> Z.of_nat (length vs) = n_params_of ls -> individual_is_valid (mkInd n ls vs) = true.
Proof. intros A B C. apply valid_parts. simpl. auto. Qed.

Lemma ind_eta {V} (i : individual V) : mkInd (i_qubits i) (i_layers i) (i_values i) = i.
Proof. destruct i; reflexivity. Qed.

Section Ops.
Context {V : Type}.
Implicit Types (i : individual V) (vs : list V).

(* ------------------------------------------------------------------ add_layers *)
Theorem add_layers_spec i new nv :
  individual_is_valid i = true ->
  (good_layers (i_qubits i) new /\ Z.of_nat (length nv) = n_params_of new ->
   exists i', add_layers i new nv = Ok i' /\ individual_is_valid i' = true /\
              i_qubits i' = i_qubits i /\ i_layers i' = i_layers i ++ new /\ i_values i' = i_values i ++ nv /\
              forall k, (k < length (i_layers i))%nat -> layer_values i' k = layer_values i k) /\
  (~ (good_layers (i_qubits i) new /\ Z.of_nat (length nv) = n_params_of new) ->
   add_layers i new nv = Err IndividualException).
Proof.
  intros Val. pose proof Val as Val0. apply valid_parts in Val as [NE [G LV]]. split.
  - intros [Gn Ln]. unfold add_layers.
    assert (Val' : individual_is_valid (mkInd (i_qubits i) (i_layers i ++ new) (i_values i ++ nv)) = true).
    { apply valid_intro.
      - destruct (i_layers i); [congruence | discriminate].
      - intros l Hl. apply in_app_or in Hl as [Hl|Hl]; [apply G | apply Gn]; exact Hl.
      - rewrite app_length, Nat2Z.inj_add, n_params_of_app. lia. }
    rewrite (make_individual_valid _ _ _ Val'). eexists. split; [reflexivity|]. split; [exact Val'|].
    cbn [i_qubits i_layers i_values]. repeat split; auto.
    intros k Hk. unfold layer_values. cbn [i_layers i_values].
    rewrite layer_offset_app by lia. rewrite layer_count_app by exact Hk.
    apply firstn_skipn_app. pose proof (offset_count_total (i_layers i) k). lia.
  - intros N. unfold add_layers.
    destruct (make_individual (i_qubits i) (i_layers i ++ new) (i_values i ++ nv)) as [i'|e] eqn:E.
    + exfalso. apply N. apply make_individual_ok in E as [-> Val']. apply valid_parts in Val' as [_ [G' L']].
      cbn [i_qubits i_layers i_values] in *. split.
      * intros l Hl. apply G'. apply in_or_app. right. exact Hl.
      * rewrite app_length, Nat2Z.inj_add, n_params_of_app in L'. lia.
    + apply make_individual_err in E as [-> _]. reflexivity.
Qed.

(* ------------------------------------------------------------------ remove_layers (repaired) *)
Theorem remove_layers_spec i k :
  individual_is_valid i = true ->
  (0 < k < Z.of_nat (length (i_layers i)) ->
   exists i', remove_layers false i k = Ok i' /\ individual_is_valid i' = true /\ i_qubits i' = i_qubits i /\
              i_layers i' = firstn (length (i_layers i) - Z.to_nat k) (i_layers i) /\
              i_values i' = firstn (Z.to_nat (n_params_of (i_layers i'))) (i_values i) /\
              forall j, (j < length (i_layers i'))%nat -> layer_values i' j = layer_values i j) /\
  (~ (0 < k < Z.of_nat (length (i_layers i))) -> remove_layers false i k = Err IndividualException).
Proof.
  intros Val. apply valid_parts in Val as [NE [G LV]]. split.
  - intros [K1 K2]. unfold remove_layers.
    assert (E1 : (0 <? k) = true) by (apply Z.ltb_lt; lia). rewrite E1.
    assert (E2 : (k <? Z.of_nat (length (i_layers i))) = true) by (apply Z.ltb_lt; lia). rewrite E2.
    cbn [negb andb].
    set (keep := Z.to_nat (Z.of_nat (length (i_layers i)) - k)).
    assert (Hk : keep = (length (i_layers i) - Z.to_nat k)%nat) by (unfold keep; lia).
    assert (Hk1 : (1 <= keep <= length (i_layers i))%nat) by lia.
    assert (Off : (layer_offset (i_layers i) keep <= length (i_values i))%nat).
    { unfold layer_offset. pose proof (n_params_firstn_le keep (i_layers i)).
      pose proof (n_params_of_nonneg (firstn keep (i_layers i))). lia. }
    assert (Val' : individual_is_valid (mkInd (i_qubits i) (firstn keep (i_layers i))
                                         (firstn (layer_offset (i_layers i) keep) (i_values i))) = true).
    { apply valid_intro.
      - destruct (i_layers i); [congruence|]. destruct keep; [lia | discriminate].
      - intros l Hl. apply G. exact (In_firstn_local _ _ _ Hl).
      - rewrite firstn_length, Nat.min_l by exact Off. unfold layer_offset.
        pose proof (n_params_of_nonneg (firstn keep (i_layers i))). lia. }
    rewrite (make_individual_valid _ _ _ Val'). eexists. split; [reflexivity|]. split; [exact Val'|].
    cbn [i_qubits i_layers i_values]. split; [reflexivity|]. split; [rewrite Hk; reflexivity|].
    split; [reflexivity|].
    intros j Hj. rewrite firstn_length in Hj. unfold layer_values. cbn [i_layers i_values].
    rewrite layer_offset_firstn by lia. rewrite layer_count_firstn by lia.
    apply firstn_skipn_firstn. apply offset_count_le. lia.
  - intros N. unfold remove_layers.
    destruct (0 <? k) eqn:E1; [|reflexivity]. cbn [negb].
    destruct (k <? Z.of_nat (length (i_layers i))) eqn:E2; [|reflexivity].
    apply Z.ltb_lt in E1, E2. lia.
Qed.

Theorem remove_undoes_append i new nv i' :
  individual_is_valid i = true -> new <> [] ->
  add_layers i new nv = Ok i' ->
  remove_layers false i' (Z.of_nat (length new)) = Ok i.
Proof.
  intros Val NEn A. pose proof Val as Val0. apply valid_parts in Val as [NE [G LV]].
  unfold add_layers in A. apply make_individual_ok in A as [-> _].
  unfold remove_layers. cbn [i_layers i_values i_qubits].
  rewrite app_length.
  assert (Ln : (0 < length new)%nat) by (destruct new; [congruence | simpl; lia]).
  assert (Ll : (0 < length (i_layers i))%nat) by (destruct (i_layers i); [congruence | simpl; lia]).
  assert (E1 : (0 <? Z.of_nat (length new)) = true) by (apply Z.ltb_lt; lia). rewrite E1.
  assert (E2 : (Z.of_nat (length new) <? Z.of_nat (length (i_layers i) + length new)) = true) by (apply Z.ltb_lt; lia).
  rewrite E2. cbn [negb andb].
  replace (Z.to_nat (Z.of_nat (length (i_layers i) + length new) - Z.of_nat (length new))) with (length (i_layers i)) by lia.
  rewrite firstn_app, Nat.sub_diag, firstn_all. cbn [firstn]. rewrite app_nil_r.
  rewrite layer_offset_app by lia. unfold layer_offset. rewrite firstn_all.
  replace (Z.to_nat (n_params_of (i_layers i))) with (length (i_values i)) by lia.
  rewrite firstn_app, Nat.sub_diag, firstn_all. cbn [firstn]. rewrite app_nil_r.
  unfold make_individual. rewrite ind_eta, Val0. reflexivity.
Qed.

(* ------------------------------------------------------------------ change_parameter_values *)
Theorem change_parameter_values_spec i vs :
  individual_is_valid i = true ->
  (Z.of_nat (length vs) = n_params_of (i_layers i) ->
   exists i', change_parameter_values i vs = Ok i' /\ individual_is_valid i' = true /\
              i_qubits i' = i_qubits i /\ i_layers i' = i_layers i /\ i_values i' = vs) /\
  (Z.of_nat (length vs) <> n_params_of (i_layers i) -> change_parameter_values i vs = Err IndividualException).
Proof.
  intros Val. apply valid_parts in Val as [NE [G LV]]. unfold change_parameter_values. split.
  - intros L. assert (Val' : individual_is_valid (mkInd (i_qubits i) (i_layers i) vs) = true) by (apply valid_intro; assumption).
    rewrite (make_individual_valid _ _ _ Val'). eexists. split; [reflexivity|]. split; [exact Val'|]. repeat split.
  - intros N. destruct (make_individual (i_qubits i) (i_layers i) vs) as [i'|e] eqn:E.
    + apply make_individual_ok in E as [-> Val']. apply valid_parts in Val' as [_ [_ L']]. simpl in L'. congruence.
    + apply make_individual_err in E as [-> _]. reflexivity.
Qed.

(* ------------------------------------------------------------------ change_layer_parameter_values *)
Lemma wrap_in_range i layer_id : i_layers i <> [] -> (wrap_layer_id i layer_id < length (i_layers i))%nat.
Proof.
  intros NE. unfold wrap_layer_id.
  assert (0 < Z.of_nat (length (i_layers i))) by (destruct (i_layers i); [congruence | simpl; lia]).
  pose proof (Z.mod_pos_bound layer_id (Z.of_nat (length (i_layers i))) H). lia.
Qed.

Theorem change_layer_parameter_values_spec i layer_id vs :
  individual_is_valid i = true ->
  let k := wrap_layer_id i layer_id in
  (k < length (i_layers i))%nat /\
  (length vs = layer_count (i_layers i) k ->
   exists i', change_layer_parameter_values i layer_id vs = Ok i' /\ individual_is_valid i' = true /\
              i_qubits i' = i_qubits i /\ i_layers i' = i_layers i /\
              layer_values i' k = vs /\
              (forall j, j <> k -> layer_values i' j = layer_values i j) /\
              length (i_values i') = length (i_values i)) /\
  (length vs <> layer_count (i_layers i) k -> change_layer_parameter_values i layer_id vs = Err IndividualException).
Proof.
  intros Val k. apply valid_parts in Val as [NE [G LV]].
  split; [apply wrap_in_range; exact NE|]. unfold change_layer_parameter_values. fold k. split.
  - intros L. apply Nat.eqb_eq in L. rewrite L. cbn [negb]. apply Nat.eqb_eq in L.
    set (ls := i_layers i) in *. set (off := layer_offset ls k). set (cnt := layer_count ls k) in *.
    pose proof (offset_count_total ls k) as Tot. fold off cnt in Tot.
    assert (Len : length (i_values i) = Z.to_nat (n_params_of ls)) by lia.
    set (vals := firstn off (i_values i) ++ vs ++ skipn (off + cnt) (i_values i)).
    assert (Lf : length (firstn off (i_values i)) = off) by (rewrite firstn_length; lia).
    assert (Lv : length vals = length (i_values i)).
    { unfold vals. rewrite !app_length, Lf, skipn_length. lia. }
    assert (Val' : individual_is_valid (mkInd (i_qubits i) ls vals) = true).
    { apply valid_intro; auto. lia. }
    rewrite (make_individual_valid _ _ _ Val'). eexists. split; [reflexivity|]. split; [exact Val'|].
    cbn [i_qubits i_layers i_values]. split; [reflexivity|]. split; [reflexivity|].
    unfold layer_values. cbn [i_layers i_values]. fold off cnt. split; [|split; [|exact Lv]].
    + unfold vals. rewrite skipn_app, Lf, Nat.sub_diag. rewrite skipn_all2 by lia. cbn [skipn app].
      rewrite firstn_app, L, Nat.sub_diag. cbn [firstn]. rewrite app_nil_r. rewrite <- L. apply firstn_all.
    + intros j Hj. destruct (Nat.lt_trichotomy j k) as [Hlt|[Heq|Hgt]]; [|congruence|].
      * pose proof (offset_count_le ls j k Hlt) as Le. fold off in Le.
        unfold vals. rewrite firstn_skipn_app by (rewrite Lf; exact Le).
        apply firstn_skipn_firstn. exact Le.
      * pose proof (offset_count_le ls k j Hgt) as Le. fold off cnt in Le.
        unfold vals. rewrite app_assoc. rewrite skipn_app.
        assert (Lp : length (firstn off (i_values i) ++ vs) = (off + cnt)%nat) by (rewrite app_length, Lf; lia).
        rewrite Lp. rewrite skipn_all2 by lia. cbn [app].
        rewrite skipn_skipn_local.
        replace (off + cnt + (layer_offset ls j - (off + cnt)))%nat with (layer_offset ls j) by lia. reflexivity.
  - intros N. apply Nat.eqb_neq in N. rewrite N. reflexivity.
Qed.

(* ------------------------------------------------------------------ legacy remove_layers (before fd49449) *)
End Ops.

Definition c16_witness : individual Z :=
  mkInd 1 [mkLayer 1 [GRot 0]; mkLayer 1 [GId 0]; mkLayer 1 [GRot 0]; mkLayer 1 [GId 0]] [1; 2; 3; 4; 5; 6].

Lemma legacy_remove_fails :
  individual_is_valid c16_witness = true /\
  remove_layers true c16_witness 1 = Err "IndexError"%string /\
  remove_layers true c16_witness 3 = Err "IndexError"%string /\
  remove_layers true c16_witness 2 = Ok (mkInd 1 [mkLayer 1 [GRot 0]; mkLayer 1 [GId 0]] [1; 2; 3]) /\
  remove_layers false c16_witness 1 = Ok (mkInd 1 [mkLayer 1 [GRot 0]; mkLayer 1 [GId 0]; mkLayer 1 [GRot 0]] [1; 2; 3; 4; 5; 6]).
Proof. vm_compute. repeat split; reflexivity. Qed.
