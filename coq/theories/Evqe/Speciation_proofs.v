(* Proofs about the speciation model (C10_speciation_partition, DESIGN.md Appendix A.6).
   Everything holds for ANY equivalence relation `ieq` used as `==` on individuals (the implementation's is hash
   equality), any incoming representatives list, any threshold, any stream. *)
From QV Require Import Evqe.Speciation.
From Coq Require Import Permutation.
Open Scope Z_scope.

(* ------------------------------------------------------------------ dicts with an equivalence on keys *)
Section DictFacts.
  Context {K A : Type} (keq : K -> K -> bool).
  Hypothesis keq_sym : forall x y, keq x y = true -> keq y x = true.
  Hypothesis keq_trans : forall x y z, keq x y = true -> keq y z = true -> keq x z = true.

  Implicit Types (d : list (K * A)) (k : K) (v : A).

  (* pairwise different keys *)
  Inductive kd : list (K * A) -> Prop :=
  | kd_nil : kd (@nil (K * A))
  | kd_cons (k : K) (v : A) (d : list (K * A)) : (forall k' (v' : A), In (k', v') d -> keq k' k = false) -> kd d -> kd ((k, v) :: d).

  Lemma keq_false_sym x y : keq x y = false -> keq y x = false.
  Proof. intros H. destruct (keq y x) eqn:E; [|reflexivity]. apply keq_sym in E. congruence. Qed.

  Lemma dict_get_none d k : dict_get keq d k = None <-> (forall k' v', In (k', v') d -> keq k k' = false).
  Proof.
    induction d as [|[k0 v0] t IH]; simpl.
    - split; [intros _ ? ? []|reflexivity].
    - destruct (keq k k0) eqn:E.
      + split; [discriminate|]. intros H. specialize (H k0 v0 (or_introl eq_refl)). congruence.
      + rewrite IH. split.
        * intros H k' v' [X|X]; [inversion X; subst; exact E|eauto].
        * intros H k' v' X. apply (H k' v'). right; exact X.
  Qed.

  Lemma dict_get_in d k v : dict_get keq d k = Some v -> exists k', In (k', v) d /\ keq k k' = true.
  Proof.
    induction d as [|[k0 v0] t IH]; simpl; [discriminate|].
    destruct (keq k k0) eqn:E.
    - intros H; inversion H; subst. exists k0. split; [left; reflexivity|exact E].
    - intros H. destruct (IH H) as [k' [Hin Hk]]. exists k'. split; [right; exact Hin|exact Hk].
  Qed.

  Lemma dict_set_none d k v : dict_get keq d k = None -> dict_set keq d k v = d ++ [(k, v)].
  Proof.
    induction d as [|[k0 v0] t IH]; simpl; [reflexivity|].
    destruct (keq k k0); [discriminate|]. intros H. rewrite (IH H). reflexivity.
  Qed.

  Lemma dict_set_some d k l v :
    dict_get keq d k = Some l ->
    exists d1 k' d2, d = d1 ++ (k', l) :: d2 /\ keq k k' = true /\ dict_set keq d k v = d1 ++ (k', v) :: d2.
  Proof.
    induction d as [|[k0 v0] t IH]; simpl; [discriminate|].
    destruct (keq k k0) eqn:E.
    - intros H; inversion H; subst. exists [], k0, t. repeat split; auto.
    - intros H. destruct (IH H) as [d1 [k' [d2 [-> [Hk ->]]]]].
      exists ((k0, v0) :: d1), k', d2. repeat split; auto.
  Qed.

  Lemma kd_keys_only d d' : map fst d = map fst d' -> kd d -> kd d'.
  Proof.
    revert d'. induction d as [|[k v] t IH]; intros [|[k' v'] t'] H Hk; simpl in H; try discriminate; [constructor|].
    inversion H; subst. inversion Hk; subst. constructor.
    - intros k2 v2 Hin. apply (in_map fst) in Hin. simpl in Hin. rewrite <- H2 in Hin.
      apply in_map_iff in Hin as [[k3 v3] [E Hin]]. simpl in E; subst. eapply H3; eauto.
    - apply IH; assumption.
  Qed.

  Lemma kd_app_one d k v : kd d -> (forall k' v', In (k', v') d -> keq k k' = false) -> kd (d ++ [(k, v)]).
  Proof.
    induction 1 as [|k0 v0 d H0 Hd IH]; intros Hn; simpl.
    - constructor; [intros ? ? []|constructor].
    - constructor.
      + intros k' v' Hin. apply in_app_or in Hin as [Hin|[Hin|[]]]; [eauto|].
        inversion Hin; subst. apply (Hn k0 v0). left; reflexivity.
      + apply IH. intros k' v' Hin. apply (Hn k' v'). right; exact Hin.
  Qed.

  Lemma kd_dict_set d k v : kd d -> kd (dict_set keq d k v).
  Proof.
    intros Hk. destruct (dict_get keq d k) as [l|] eqn:E.
    - destruct (dict_set_some d k l v E) as [d1 [k' [d2 [-> [_ ->]]]]].
      eapply kd_keys_only; [|exact Hk]. rewrite !map_app. reflexivity.
    - rewrite (dict_set_none d k v E). apply kd_app_one; [exact Hk|]. apply dict_get_none. exact E.
  Qed.

  (* in a dict with pairwise different keys, an entry is found by any key equal to its key *)
  Lemma kd_get d k v k2 : kd d -> In (k, v) d -> keq k2 k = true -> dict_get keq d k2 = Some v.
  Proof.
    induction 1 as [|k0 v0 d H0 Hd IH]; intros Hin Hk; [destruct Hin|].
    simpl. destruct Hin as [Hin|Hin].
    - inversion Hin; subst. rewrite Hk. reflexivity.
    - destruct (keq k2 k0) eqn:E.
      + exfalso. specialize (H0 k v Hin). apply keq_sym in Hk. rewrite (keq_trans _ _ _ Hk E) in H0. discriminate.
      + apply IH; assumption.
  Qed.

  Lemma dict_set_get_same d k v : kd d -> (forall x, keq x x = true) -> dict_get keq (dict_set keq d k v) k = Some v.
  Proof.
    intros Hk Hr. destruct (dict_get keq d k) as [l|] eqn:E.
    - destruct (dict_set_some d k l v E) as [d1 [k' [d2 [Hd [Hkk Hs]]]]].
      eapply kd_get; [apply kd_dict_set; exact Hk| |exact Hkk]. rewrite Hs. apply in_or_app. right; left; reflexivity.
    - eapply kd_get; [apply kd_dict_set; exact Hk| |apply Hr]. rewrite (dict_set_none d k v E). apply in_or_app. right; left; reflexivity.
  Qed.

  Lemma dict_set_get_other d k v k2 : dict_get keq d k2 <> None -> dict_get keq (dict_set keq d k v) k2 <> None.
  Proof.
    induction d as [|[k0 v0] t IH]; simpl; [congruence|].
    destruct (keq k k0) eqn:E; simpl; destruct (keq k2 k0); try congruence. apply IH.
  Qed.
End DictFacts.

Lemma concat_app_mid {A} (d1 : list (list A)) l l' d2 :
  Permutation (concat (d1 ++ (l ++ l') :: d2)) (l' ++ concat (d1 ++ l :: d2)).
Proof.
  rewrite !concat_app. simpl. rewrite <- !app_assoc.
  apply Permutation_sym. eapply Permutation_trans; [apply Permutation_app_swap_app|].
  apply Permutation_app_head. apply Permutation_app_swap_app.
Qed.

Section Speciation.
  Context {V : Type} (ieq : individual V -> individual V -> bool).
  Hypothesis ieq_refl : forall x, ieq x x = true.
  Hypothesis ieq_sym : forall x y, ieq x y = true -> ieq y x = true.
  Hypothesis ieq_trans : forall x y z, ieq x y = true -> ieq y z = true -> ieq x z = true.
  Notation ind := (individual V).
  Notation kdi := (kd (A := list nat) ieq).

  (* ---------------------------------------------------------------- phase 1 *)
  Lemma find_rep_some thr x reps r : find_rep ieq thr x reps = Some r -> In r reps /\ close_to ieq thr x r = true.
  Proof.
    induction reps as [|r0 t IH]; simpl; [discriminate|].
    destruct (close_to ieq thr x r0) eqn:E.
    - intros H; inversion H; subst. split; [left; reflexivity|exact E].
    - intros H. destruct (IH H). split; [right|]; assumption.
  Qed.

  Lemma find_rep_none thr x reps : find_rep ieq thr x reps = None -> forall r, In r reps -> ieq x r = false.
  Proof.
    induction reps as [|r0 t IH]; simpl; [intros _ ? []|].
    destruct (close_to ieq thr x r0) eqn:E; [discriminate|].
    intros H r [<-|Hin]; [|apply IH; assumption].
    unfold close_to in E. apply orb_false_iff in E as [_ E]. exact E.
  Qed.

  Definition members_of_d (mem : list (ind * list nat)) : list nat := concat (map snd mem).

  (* invariant of the assignment loop *)
  Record inv1 (reps : list ind) (mem : list (ind * list nat)) (done : list nat) : Prop := {
    i1_kd : kdi mem;
    i1_perm : Permutation (members_of_d mem) done;
    i1_keys : forall k l, In (k, l) mem -> exists r, In r reps /\ ieq k r = true;
    i1_reps : forall r, In r reps -> dict_get ieq mem r <> None }.

  Lemma assign_one_inv thr reps mem done i x st' :
    inv1 reps mem done -> assign_one ieq thr (reps, mem) i x = Ok st' ->
    inv1 (fst st') (snd st') (done ++ [i]).
  Proof.
    intros [Hkd Hperm Hkeys Hreps]. unfold assign_one.
    destruct (find_rep ieq thr x reps) as [r|] eqn:F.
    - destruct (find_rep_some _ _ _ _ F) as [Hr _].
      unfold dict_at. destruct (dict_get ieq mem r) as [l|] eqn:G; simpl; [|discriminate].
      intros H; inversion H; subst; simpl. clear H.
      destruct (dict_set_some ieq mem r l (l ++ [i]) G) as [d1 [k' [d2 [Hd [Hk Hs]]]]].
      constructor.
      + apply kd_dict_set; assumption.
      + rewrite Hs. unfold members_of_d in *. rewrite map_app. simpl.
        eapply Permutation_trans; [apply concat_app_mid|]. simpl.
        eapply Permutation_trans; [|apply Permutation_cons_append]. constructor.
        rewrite Hd in Hperm. rewrite map_app in Hperm. simpl in Hperm. exact Hperm.
      + intros k l0 Hin. rewrite Hs in Hin. apply in_app_or in Hin as [Hin|[Hin|Hin]].
        * apply (Hkeys k l0). rewrite Hd. apply in_or_app. left; exact Hin.
        * inversion Hin; subst. apply (Hkeys k l). apply in_or_app. right; left; reflexivity.
        * apply (Hkeys k l0). rewrite Hd. apply in_or_app. right; right; exact Hin.
      + intros r0 Hin. apply dict_set_get_other. apply Hreps; exact Hin.
    - intros H; inversion H; subst; simpl. clear H.
      assert (Hnone : dict_get ieq mem x = None).
      { apply dict_get_none. intros k' v' Hin. destruct (Hkeys k' v' Hin) as [r [Hr Hkr]].
        destruct (ieq x k') eqn:E; [|reflexivity].
        rewrite <- (find_rep_none _ _ _ F r Hr). symmetry. eapply ieq_trans; eauto. }
      rewrite (dict_set_none ieq mem x [i] Hnone).
      constructor.
      + apply kd_app_one; [assumption|]. apply dict_get_none. exact Hnone.
      + unfold members_of_d in *. rewrite map_app, concat_app. simpl. rewrite ?app_nil_r.
        apply Permutation_app_tail. exact Hperm.
      + intros k l Hin. apply in_app_or in Hin as [Hin|[Hin|[]]].
        * destruct (Hkeys k l Hin) as [r [Hr Hk]]. exists r. split; [apply in_or_app; left|]; assumption.
        * inversion Hin; subst. exists k. split; [apply in_or_app; right; left; reflexivity|apply ieq_refl].
      + intros r Hin. apply in_app_or in Hin as [Hin|[<-|[]]].
        * rewrite <- (dict_set_none ieq mem x [i] Hnone). apply dict_set_get_other. apply Hreps; exact Hin.
        * rewrite <- (dict_set_none ieq mem x [i] Hnone). rewrite dict_set_get_same; auto. discriminate.
  Qed.

  Lemma assign_all_inv thr xs : forall reps mem done i st',
    inv1 reps mem done -> assign_all ieq thr (reps, mem) i xs = Ok st' ->
    inv1 (fst st') (snd st') (done ++ seq i (length xs)).
  Proof.
    induction xs as [|x t IH]; intros reps mem done i st' Hinv; cbn [assign_all length seq].
    - intros H; inversion H; subst; simpl. rewrite ?app_nil_r. exact Hinv.
    - destruct (assign_one ieq thr (reps, mem) i x) as [[reps1 mem1]|e] eqn:E; cbn [bind]; [|discriminate].
      intros H. pose proof (assign_one_inv _ _ _ _ _ _ _ Hinv E) as Hinv1. simpl in Hinv1.
      specialize (IH reps1 mem1 (done ++ [i]) (S i) st' Hinv1 H).
      rewrite <- app_assoc in IH. exact IH.
  Qed.

  (* no KeyError in phase 1 *)
  Lemma assign_one_ok thr reps mem done i x : inv1 reps mem done -> exists st', assign_one ieq thr (reps, mem) i x = Ok st'.
  Proof.
    intros [Hkd Hperm Hkeys Hreps]. unfold assign_one.
    destruct (find_rep ieq thr x reps) as [r|] eqn:F; [|eexists; reflexivity].
    destruct (find_rep_some _ _ _ _ F) as [Hr _]. specialize (Hreps r Hr).
    unfold dict_at. destruct (dict_get ieq mem r); [|congruence]. simpl. eexists; reflexivity.
  Qed.

  Lemma assign_all_ok thr xs : forall reps mem done i, inv1 reps mem done -> exists st', assign_all ieq thr (reps, mem) i xs = Ok st'.
  Proof.
    induction xs as [|x t IH]; intros reps mem done i Hinv; cbn [assign_all]; [eexists; reflexivity|].
    destruct (assign_one_ok thr reps mem done i x Hinv) as [[reps1 mem1] E]. rewrite E. cbn [bind].
    apply (IH reps1 mem1 (done ++ [i])). apply (assign_one_inv _ _ _ _ _ _ _ Hinv E).
  Qed.

  Lemma init_members_inv reps0 : inv1 reps0 (init_members ieq reps0) [].
  Proof.
    unfold init_members.
    assert (G : forall rs d, kdi d -> (forall k l, In (k, l) d -> l = [] /\ In k reps0) -> (forall r, In r rs -> In r reps0) ->
              let d' := fold_left (fun d r => dict_set ieq d r []) rs d in
              kdi d' /\ (forall k l, In (k, l) d' -> l = [] /\ In k reps0) /\
              (forall r, In r rs \/ dict_get ieq d r <> None -> dict_get ieq d' r <> None)).
    { induction rs as [|r t IH]; intros d Hkd Hall Hsub; cbv zeta; simpl.
      - split; [exact Hkd|split; [exact Hall|]]. intros r0 [[]|Hx]; exact Hx.
      - assert (Hkd' : kdi (dict_set ieq d r [])) by (apply kd_dict_set; assumption).
        assert (Hall' : forall k l, In (k, l) (dict_set ieq d r []) -> l = [] /\ In k reps0).
        { intros k l Hin. destruct (dict_get ieq d r) as [l0|] eqn:E.
          - destruct (dict_set_some ieq d r l0 [] E) as [d1 [k' [d2 [Hd [Hk Hs]]]]]. rewrite Hs in Hin.
            apply in_app_or in Hin as [Hin|[Hin|Hin]].
            + apply Hall. rewrite Hd. apply in_or_app; left; exact Hin.
            + inversion Hin; subst. split; [reflexivity|]. apply (Hall k l0). apply in_or_app; right; left; reflexivity.
            + apply Hall. rewrite Hd. apply in_or_app; right; right; exact Hin.
          - rewrite (dict_set_none ieq d r [] E) in Hin. apply in_app_or in Hin as [Hin|[Hin|[]]]; [apply Hall; exact Hin|].
            inversion Hin; subst. split; [reflexivity|]. apply Hsub. left; reflexivity. }
        destruct (IH (dict_set ieq d r []) Hkd' Hall' (fun r0 H => Hsub r0 (or_intror H))) as [A1 [A2 A3]].
        split; [exact A1|split; [exact A2|]]. intros r0 [[<-|Hin]|Hget].
        + apply A3. right. rewrite dict_set_get_same; auto. discriminate.
        + apply A3. left; exact Hin.
        + apply A3. right. apply dict_set_get_other. exact Hget. }
    destruct (G reps0 [] (kd_nil ieq) (fun k l H => match H with end) (fun r H => H)) as [A1 [A2 A3]].
    constructor.
    - exact A1.
    - unfold members_of_d.
      assert (E : concat (map snd (fold_left (fun d r => dict_set ieq d r (@nil nat)) reps0 (@nil (ind * list nat)))) = []).
      { apply concat_nil_Forall. apply Forall_forall. intros l Hin. apply in_map_iff in Hin as [[k l0] [<- Hin]].
        simpl. apply (A2 k l0 Hin). }
      rewrite E. constructor.
    - intros k l Hin. exists k. split; [apply (A2 k l Hin)|apply ieq_refl].
    - intros r Hin. apply A3. left; exact Hin.
  Qed.

  (* ---------------------------------------------------------------- phase 2 *)
  Definition rep_ok (inds : list ind) (new : list (ind * list nat)) : Prop :=
    forall r l, In (r, l) new -> l <> [] /\ exists i, In i l /\ nth_error inds i = Some r.

  Lemma rekey_inv inds groups : forall new s new' s',
    kdi new -> rep_ok inds new -> rekey ieq inds groups new s = Ok (new', s') ->
    kdi new' /\ rep_ok inds new' /\ Permutation (members_of_d new') (members_of_d new ++ concat groups).
  Proof.
    induction groups as [|members rest IH]; intros new s new' s' Hkd Hrep; simpl.
    - intros H; inversion H; subst. rewrite app_nil_r. auto.
    - destruct (Nat.eqb (length members) 0) eqn:E0.
      + apply Nat.eqb_eq in E0. destruct members; [|discriminate]. simpl. apply IH; assumption.
      + destruct (take_choice (length members) s) as [[c s1]|e] eqn:Ec; simpl; [|discriminate].
        destruct (nth_r members c) as [ri|e] eqn:Eri; simpl; [|discriminate].
        destruct (nth_r inds ri) as [r|e] eqn:Er; simpl; [|discriminate].
        assert (Hri : In ri members).
        { unfold nth_r in Eri. destruct (nth_error members c) eqn:X; inversion Eri; subst. eapply nth_error_In; eauto. }
        assert (Hr : nth_error inds ri = Some r).
        { unfold nth_r in Er. destruct (nth_error inds ri) eqn:X; inversion Er; subst. reflexivity. }
        assert (Hne : members <> []) by (intros ->; destruct Hri).
        intros H.
        destruct (dict_get ieq new r) as [old|] eqn:G.
        * destruct (dict_set_some ieq new r old (old ++ members) G) as [d1 [k' [d2 [Hd [Hk Hs]]]]].
          assert (Hk1 : kdi (dict_set ieq new r (old ++ members))) by (apply kd_dict_set; assumption).
          assert (Hr1 : rep_ok inds (dict_set ieq new r (old ++ members))).
          { intros r0 l0 Hin. rewrite Hs in Hin. apply in_app_or in Hin as [Hin|[Hin|Hin]].
            - apply Hrep. rewrite Hd. apply in_or_app; left; exact Hin.
            - inversion Hin; subst. destruct (Hrep r0 old) as [Hn [i [Hi Hnth]]]; [apply in_or_app; right; left; reflexivity|].
              split; [destruct old; [congruence|discriminate]|]. exists i. split; [apply in_or_app; left; exact Hi|exact Hnth].
            - apply Hrep. rewrite Hd. apply in_or_app; right; right; exact Hin. }
          destruct (IH _ _ _ _ Hk1 Hr1 H) as [X1 [X2 X3]]. split; [exact X1|split; [exact X2|]].
          eapply Permutation_trans; [exact X3|]. rewrite Hs, Hd. unfold members_of_d. rewrite !map_app. simpl.
          eapply Permutation_trans; [apply Permutation_app_tail; apply concat_app_mid|].
          rewrite <- app_assoc. apply Permutation_app_swap_app.
        * rewrite (dict_set_none ieq new r members G) in H.
          assert (Hk1 : kdi (new ++ [(r, members)])) by (apply kd_app_one; [assumption|]; apply dict_get_none; exact G).
          assert (Hr1 : rep_ok inds (new ++ [(r, members)])).
          { intros r0 l0 Hin. apply in_app_or in Hin as [Hin|[Hin|[]]]; [apply Hrep; exact Hin|].
            inversion Hin; subst. split; [exact Hne|]. exists ri. split; assumption. }
          destruct (IH _ _ _ _ Hk1 Hr1 H) as [X1 [X2 X3]]. split; [exact X1|split; [exact X2|]].
          eapply Permutation_trans; [exact X3|]. unfold members_of_d. rewrite map_app, concat_app. simpl.
          rewrite app_nil_r, <- app_assoc. reflexivity.
  Qed.

  (* no IndexError in phase 2: every error is a stream error *)
  Lemma rekey_err inds groups : forall new s e,
    (forall g m, In g groups -> In m g -> (m < length inds)%nat) ->
    rekey ieq inds groups new s = Err e -> e = StreamMismatch.
  Proof.
    induction groups as [|members rest IH]; intros new s e Hlt; simpl; [discriminate|].
    destruct (Nat.eqb (length members) 0) eqn:E0.
    - apply IH. intros g m Hg. apply Hlt. right; exact Hg.
    - unfold take_choice. rewrite E0.
      destruct s as [|[l i|? ? ?|?|? ? ?|? ? ?] rest']; simpl; try (intros H; inversion H; reflexivity).
      destruct (Nat.eqb l (length members) && Nat.ltb i (length members))%bool eqn:Ec; simpl; [|intros H; inversion H; reflexivity].
      apply andb_true_iff in Ec as [_ Ec]. apply Nat.ltb_lt in Ec.
      unfold nth_r at 1. destruct (nth_error members i) as [ri|] eqn:X; [|apply nth_error_None in X; lia]. simpl.
      assert (Hri : (ri < length inds)%nat) by (apply (Hlt members ri); [left; reflexivity|eapply nth_error_In; eauto]).
      unfold nth_r at 1. destruct (nth_error inds ri) as [r|] eqn:Y; [|apply nth_error_None in Y; lia]. simpl.
      apply IH. intros g m Hg. apply Hlt. right; exact Hg.
  Qed.

  (* ---------------------------------------------------------------- the membership map *)
  Definition flat_members (new : list (ind * list nat)) : list (nat * ind) :=
    flat_map (fun rm => map (fun m => (m, fst rm)) (snd rm)) new.

  Lemma flat_members_keys new : map fst (flat_members new) = members_of_d new.
  Proof.
    unfold flat_members, members_of_d. induction new as [|[r l] t IH]; simpl; [reflexivity|].
    rewrite map_app, IH, map_map. simpl. rewrite map_id. reflexivity.
  Qed.

  Lemma fold_set_nodup (l : list (nat * ind)) : forall d,
    NoDup (map fst d ++ map fst l) ->
    fold_left (fun d' mr => dict_set Nat.eqb d' (fst mr) (snd mr)) l d = d ++ l.
  Proof.
    induction l as [|[m r] t IH]; intros d Hnd; simpl; [rewrite app_nil_r; reflexivity|].
    assert (Hnone : dict_get Nat.eqb d m = None).
    { apply dict_get_none. intros k' v' Hin. apply Nat.eqb_neq. intros ->.
      apply NoDup_remove_2 in Hnd. apply Hnd. apply in_or_app. left. apply in_map_iff. exists (k', v'). auto. }
    rewrite (dict_set_none Nat.eqb d m r Hnone). rewrite IH.
    - rewrite <- app_assoc. reflexivity.
    - rewrite map_app. simpl. rewrite <- app_assoc. exact Hnd.
  Qed.

  Lemma build_membership_flat new : NoDup (members_of_d new) -> build_membership new = flat_members new.
  Proof.
    intros Hnd. unfold build_membership.
    assert (G : forall nw d, fold_left (fun d rm => fold_left (fun d' m => dict_set Nat.eqb d' m (fst rm)) (snd rm) d) nw d
                             = fold_left (fun d' mr => dict_set Nat.eqb d' (fst mr) (snd mr)) (flat_members nw) d).
    { induction nw as [|[r l] t IH]; intros d; simpl; [reflexivity|].
      unfold flat_members. simpl. rewrite fold_left_app. fold (flat_members t). rewrite <- IH. f_equal.
      clear. revert d. induction l as [|m l IH]; intros d; simpl; [reflexivity|]. apply IH. }
    rewrite G. rewrite fold_set_nodup; [reflexivity|]. simpl. rewrite flat_members_keys. exact Hnd.
  Qed.

  Lemma nodup_keys_get (l : list (nat * ind)) i r : NoDup (map fst l) -> (dict_get Nat.eqb l i = Some r <-> In (i, r) l).
  Proof.
    induction l as [|[m r0] t IH]; intros Hnd; simpl; [split; [discriminate|intros []]|].
    inversion Hnd; subst. destruct (Nat.eqb i m) eqn:E.
    - apply Nat.eqb_eq in E; subst. split.
      + intros H; inversion H; subst. left; reflexivity.
      + intros [H|H]; [inversion H; reflexivity|]. exfalso. apply H1. apply in_map_iff. exists (m, r). auto.
    - rewrite (IH H2). split; [intros H; right; exact H|]. intros [H|H]; [|exact H].
      inversion H; subst. rewrite Nat.eqb_refl in E. discriminate.
  Qed.

  Lemma in_flat_members new i r : In (i, r) (flat_members new) <-> exists l, In (r, l) new /\ In i l.
  Proof.
    unfold flat_members. rewrite in_flat_map. split.
    - intros [[r0 l] [Hin Hm]]. apply in_map_iff in Hm as [m [E Hm]]. inversion E; subst. exists l. auto.
    - intros [l [Hin Hi]]. exists (r, l). split; [exact Hin|]. apply in_map_iff. exists i. auto.
  Qed.

  (* ---------------------------------------------------------------- the theorem *)
  Theorem speciation_partition thr (p : population V) s p' ext s' :
    speciate ieq thr p s = Ok (p', ext, s') ->
    exists mem ms,
      p_inds p' = p_inds p /\ p_members p' = Some mem /\ p_membership p' = Some ms /\ p_reps p' = Some (map fst mem) /\
      (* every index 0 .. n-1 occurs in exactly one member list *)
      Permutation (concat (map snd mem)) (seq 0 (length (p_inds p))) /\
      (* every species is non-empty and its representative is individuals[i] for an i of its own list *)
      (forall r l, In (r, l) mem -> l <> [] /\ exists i, In i l /\ nth_error (p_inds p) i = Some r) /\
      (* membership i = r  <->  i is in the member list of r *)
      (forall i r, dict_get Nat.eqb ms i = Some r <-> exists l, In (r, l) mem /\ In i l) /\
      (* the representatives are pairwise different (as dict keys) and every lookup by a representative finds its list *)
      kdi mem /\ (forall r l, In (r, l) mem -> dict_get ieq mem r = Some l).
  Proof.
    unfold speciate. set (reps0 := match p_reps p with None => [] | Some l => l end).
    destruct (assign_all ieq thr (reps0, init_members ieq reps0) 0 (p_inds p)) as [[reps1 mem1]|e] eqn:E1; simpl; [|discriminate].
    destruct (rekey ieq (p_inds p) (map snd mem1) [] s) as [[new s1]|e] eqn:E2; simpl; [|discriminate].
    intros H; inversion H; subst; clear H. simpl.
    pose proof (assign_all_inv _ _ _ _ _ _ _ (init_members_inv reps0) E1) as [_ Hperm1 _ _]. simpl in Hperm1.
    destruct (rekey_inv _ _ _ _ _ _ (kd_nil ieq) (fun r l (H : In (r, l) []) => match H with end) E2) as [Hkd [Hrep Hperm2]].
    simpl in Hperm2. fold (members_of_d mem1) in Hperm2.
    assert (Hperm : Permutation (members_of_d new) (seq 0 (length (p_inds p)))) by (eapply Permutation_trans; eauto).
    assert (Hnd : NoDup (members_of_d new)) by (eapply Permutation_NoDup; [apply Permutation_sym; exact Hperm|apply seq_NoDup]).
    exists new, (build_membership new). repeat split; auto.
    - apply (Hrep r l H).
    - apply (Hrep r l H).
    - rewrite (build_membership_flat new Hnd). intros H. apply nodup_keys_get in H; [|rewrite flat_members_keys; exact Hnd].
      apply in_flat_members. exact H.
    - rewrite (build_membership_flat new Hnd). intros H. apply nodup_keys_get; [rewrite flat_members_keys; exact Hnd|].
      apply in_flat_members. exact H.
    - intros r l Hin. eapply kd_get; eauto.
  Qed.

  (* speciation never raises: the only errors are stream errors *)
  Theorem speciation_no_exception thr (p : population V) s e :
    speciate ieq thr p s = Err e -> e = StreamMismatch.
  Proof.
    unfold speciate. set (reps0 := match p_reps p with None => [] | Some l => l end).
    destruct (assign_all_ok thr (p_inds p) reps0 (init_members ieq reps0) [] 0%nat (init_members_inv reps0)) as [[reps1 mem1] E1].
    rewrite E1. simpl.
    pose proof (assign_all_inv _ _ _ _ _ _ _ (init_members_inv reps0) E1) as [_ Hperm1 _ _]. simpl in Hperm1.
    destruct (rekey ieq (p_inds p) (map snd mem1) [] s) as [[new s1]|e1] eqn:E2; simpl; [discriminate|].
    intros H; inversion H; subst. eapply rekey_err; [|exact E2].
    intros g m Hg Hm. assert (Hin : In m (members_of_d mem1)) by (unfold members_of_d; apply in_concat; exists g; auto).
    apply (Permutation_in _ Hperm1) in Hin. apply in_seq in Hin. lia.
  Qed.
End Speciation.
