(* C10 "completes": on a valid population, with oracles that answer within their contract, no operator raises a
   Python exception — every Err of the models is an artefact of the log (StreamMismatch, OracleContract, a completion
   order that is no permutation). *)
From QV Require Import Evqe.Heap Evqe.Speciation_proofs Evqe.Ops_proofs.
From Coq Require Import Permutation Lqa.
Open Scope Z_scope.

(* ------------------------------------------------------------------ parameter counts *)
Lemma gate_n_parameters_nonneg g : 0 <= gate_n_parameters g.
Proof. destruct g; simpl; lia. Qed.

Lemma sumZ_nonneg l : Forall (fun z => 0 <= z) l -> 0 <= sumZ l.
Proof. induction 1; simpl; lia. Qed.

Lemma layer_n_parameters_nonneg l : 0 <= layer_n_parameters l.
Proof. unfold layer_n_parameters. apply sumZ_nonneg. apply Forall_map. apply Forall_forall. intros; apply gate_n_parameters_nonneg. Qed.

Lemma n_params_of_nonneg ls : 0 <= n_params_of ls.
Proof. unfold n_params_of. apply sumZ_nonneg. apply Forall_map. apply Forall_forall. intros; apply layer_n_parameters_nonneg. Qed.

Lemma n_params_of_app a b : n_params_of (a ++ b) = n_params_of a + n_params_of b.
Proof. unfold n_params_of. rewrite map_app. induction (map layer_n_parameters a); simpl; lia. Qed.

Lemma n_params_firstn_le k ls : n_params_of (firstn k ls) <= n_params_of ls.
Proof.
  rewrite <- (firstn_skipn k ls) at 2. rewrite n_params_of_app. pose proof (n_params_of_nonneg (skipn k ls)). lia.
Qed.

Lemma n_params_firstn_S k ls l : nth_error ls k = Some l ->
  n_params_of (firstn (S k) ls) = n_params_of (firstn k ls) + layer_n_parameters l.
Proof.
  revert k. induction ls as [|a t IH]; intros [|k] H; simpl in H; try discriminate.
  - inversion H; subst. simpl. unfold n_params_of. simpl. lia.
  - change (firstn (S (S k)) (a :: t)) with (a :: firstn (S k) t). change (firstn (S k) (a :: t)) with (a :: firstn k t).
    specialize (IH k H). change (n_params_of (a :: firstn (S k) t)) with (layer_n_parameters a + n_params_of (firstn (S k) t)).
    change (n_params_of (a :: firstn k t)) with (layer_n_parameters a + n_params_of (firstn k t)). lia.
Qed.

Lemma in_firstn {A} (k : nat) (l : list A) x : In x (firstn k l) -> In x l.
Proof. revert k; induction l as [|a t IH]; intros [|k]; simpl; auto; try tauto. intros [H|H]; [left; exact H|right; eapply IH; eauto]. Qed.

(* ------------------------------------------------------------------ validity, unfolded *)
Definition layers_ok (n : Z) (ls : list layer) : Prop := Forall (fun l => layer_wf l = true /\ l_qubits l = n) ls.

Lemma valid_unfold {V} (x : individual V) :
  individual_is_valid x = true <->
  i_layers x <> [] /\ layers_ok (i_qubits x) (i_layers x) /\ Z.of_nat (length (i_values x)) = n_params_of (i_layers x).
Proof.
  unfold individual_is_valid, layers_ok. rewrite !andb_true_iff, negb_true_iff, Nat.eqb_neq, forallb_forall, Forall_forall, Z.eqb_eq.
  split.
  - intros [[A B] C]. repeat split; auto.
    + intros E. apply A. rewrite E. reflexivity.
    + specialize (B x0 H). apply andb_true_iff in B. tauto.
    + specialize (B x0 H). apply andb_true_iff in B as [_ B]. apply Z.eqb_eq. exact B.
  - intros [A [B C]]. repeat split; auto.
    + intros E. apply A. destruct (i_layers x); [reflexivity|discriminate].
    + intros l Hl. destruct (B l Hl) as [B1 B2]. rewrite B1. apply Z.eqb_eq in B2. rewrite B2. reflexivity.
Qed.

Lemma make_individual_ok {V} n ls (vs : list V) :
  ls <> [] -> layers_ok n ls -> Z.of_nat (length vs) = n_params_of ls -> exists x, make_individual n ls vs = Ok x.
Proof.
  intros A B C. unfold make_individual.
  assert (E : individual_is_valid (mkInd n ls vs) = true) by (apply valid_unfold; simpl; auto).
  rewrite E. eexists; reflexivity.
Qed.

Section GenomeOps.
  Context {V : Type}.
  Notation ind := (individual V).

  Lemma wrap_lt (x : ind) lid : i_layers x <> [] -> (wrap_layer_id x lid < length (i_layers x))%nat.
  Proof.
    intros H. unfold wrap_layer_id. assert (0 < Z.of_nat (length (i_layers x))) by (destruct (i_layers x); [congruence|simpl; lia]).
    pose proof (Z.mod_pos_bound lid _ H0). lia.
  Qed.

  (* the slice of layer k lies inside the value tuple *)
  Lemma slice_bounds (x : ind) k l :
    individual_is_valid x = true -> nth_error (i_layers x) k = Some l ->
    (layer_offset (i_layers x) k + layer_count (i_layers x) k <= length (i_values x))%nat
    /\ layer_count (i_layers x) k = Z.to_nat (layer_n_parameters l).
  Proof.
    intros Hv Hn. apply valid_unfold in Hv as [_ [_ Hlen]]. unfold layer_offset, layer_count. rewrite Hn. split; [|reflexivity].
    pose proof (n_params_firstn_S _ _ _ Hn). pose proof (n_params_firstn_le (S k) (i_layers x)).
    pose proof (n_params_of_nonneg (firstn k (i_layers x))). pose proof (layer_n_parameters_nonneg l). lia.
  Qed.

  Lemma layer_values_length (x : ind) k l :
    individual_is_valid x = true -> nth_error (i_layers x) k = Some l ->
    length (layer_values x k) = layer_count (i_layers x) k.
  Proof.
    intros Hv Hn. destruct (slice_bounds x k l Hv Hn) as [B _]. unfold layer_values. rewrite firstn_length, skipn_length. lia.
  Qed.

  Lemma change_layer_ok (x : ind) lid (new : list V) :
    individual_is_valid x = true -> length new = length (get_layer_parameter_values x lid) ->
    exists x', change_layer_parameter_values x lid new = Ok x'.
  Proof.
    intros Hv Hl. pose proof Hv as Hv0. apply valid_unfold in Hv as [Hne [Hls Hlen]].
    unfold change_layer_parameter_values, get_layer_parameter_values in *.
    set (k := wrap_layer_id x lid) in *. pose proof (wrap_lt x lid Hne) as Hk. fold k in Hk.
    destruct (nth_error (i_layers x) k) as [l|] eqn:Hn; [|apply nth_error_None in Hn; lia].
    rewrite (layer_values_length x k l Hv0 Hn) in Hl. rewrite Hl, Nat.eqb_refl. simpl.
    apply make_individual_ok; auto.
    destruct (slice_bounds x k l Hv0 Hn) as [B _].
    rewrite !app_length, firstn_length, skipn_length. lia.
  Qed.

  Lemma add_layer_ok (x : ind) l (zero : V) :
    individual_is_valid x = true -> layer_wf l = true -> l_qubits l = i_qubits x ->
    exists x', add_layers x [l] (repeat zero (Z.to_nat (layer_n_parameters l))) = Ok x'.
  Proof.
    intros Hv Hw Hq. apply valid_unfold in Hv as [Hne [Hls Hlen]]. unfold add_layers. apply make_individual_ok.
    - destruct (i_layers x); [congruence|discriminate].
    - apply Forall_app. split; [exact Hls|]. constructor; [auto|constructor].
    - rewrite app_length, repeat_length, n_params_of_app. pose proof (layer_n_parameters_nonneg l).
      unfold n_params_of at 2. simpl. lia.
  Qed.

  Lemma remove_layers_ok (x : ind) v :
    individual_is_valid x = true -> 0 < v < Z.of_nat (length (i_layers x)) ->
    exists x', remove_layers false x v = Ok x'.
  Proof.
    intros Hv Hr. apply valid_unfold in Hv as [Hne [Hls Hlen]]. unfold remove_layers.
    replace (negb (0 <? v)) with false by (symmetry; apply negb_false_iff; apply Z.ltb_lt; lia).
    replace (negb (v <? Z.of_nat (length (i_layers x)))) with false by (symmetry; apply negb_false_iff; apply Z.ltb_lt; lia).
    simpl. set (keep := Z.to_nat (Z.of_nat (length (i_layers x)) - v)).
    assert (Hk : (0 < keep < length (i_layers x))%nat) by (unfold keep; lia).
    apply make_individual_ok.
    - intros E. assert (L : length (firstn keep (i_layers x)) = 0%nat) by (rewrite E; reflexivity). rewrite firstn_length in L. lia.
    - unfold layers_ok in *. rewrite Forall_forall in *. intros l Hl. apply Hls. eapply in_firstn; eauto.
    - rewrite firstn_length. unfold layer_offset. pose proof (n_params_firstn_le keep (i_layers x)).
      pose proof (n_params_of_nonneg (firstn keep (i_layers x))). lia.
  Qed.
End GenomeOps.

(* ------------------------------------------------------------------ mutation never raises *)
Definition log_err (e : string) : Prop := is_log_error e = true.

Lemma log_err_sm : log_err StreamMismatch. Proof. reflexivity. Qed.
Lemma log_err_oc : log_err OracleContract. Proof. reflexivity. Qed.
Lemma log_err_io : log_err InvalidOrder. Proof. reflexivity. Qed.
Lemma log_err_nc : log_err NeverCompleted. Proof. reflexivity. Qed.
#[local] Hint Resolve log_err_sm log_err_oc log_err_io log_err_nc : core.

Lemma list_eqb_length {A} (eqb : A -> A -> bool) l m : list_eqb eqb l m = true -> length l = length m.
Proof. revert m; induction l as [|a l IH]; intros [|b m]; simpl; try discriminate; auto. rewrite andb_true_iff. intros [_ H]. f_equal; auto. Qed.

Lemma take_choice_err len s e : len <> 0%nat -> take_choice len s = Err e -> log_err e.
Proof.
  intros Hl. unfold take_choice. destruct (Nat.eqb len 0) eqn:E; [apply Nat.eqb_eq in E; contradiction|].
  destruct s as [|[] rest]; try (intros H; inversion H; auto; fail).
  destruct (_ && _)%bool; intros H; inversion H; auto.
Qed.

Lemma take_choice_ok len s c rest : take_choice len s = Ok (c, rest) -> (c < len)%nat.
Proof.
  unfold take_choice. destruct (Nat.eqb len 0); [discriminate|]. destruct s as [|[] r]; try discriminate.
  destruct (_ && _)%bool eqn:B; [|discriminate]. intros H; inversion H; subst. apply andb_true_iff in B as [_ B]. apply Nat.ltb_lt. exact B.
Qed.

Lemma take_seed_err s e : take_seed s = Err e -> log_err e.
Proof.
  unfold take_seed, take_randint. destruct s as [|[] rest]; try (intros H; inversion H; auto; fail).
  destruct (_ && _ && _ && _)%bool; intros H; inversion H; auto.
Qed.

Lemma take_random_err s e : take_random s = Err e -> log_err e.
Proof.
  unfold take_random. destruct s as [|[] rest]; try (intros H; inversion H; auto; fail).
  destruct (_ && _)%bool; intros H; inversion H; auto.
Qed.

Lemma take_randrange_err a b s e : a < b -> take_randrange a b s = Err e -> log_err e.
Proof.
  intros Hab. unfold take_randrange. destruct (b <=? a) eqn:E; [apply Z.leb_le in E; lia|].
  destruct s as [|[] rest]; try (intros H; inversion H; auto; fail).
  destruct (_ && _ && _ && _)%bool; intros H; inversion H; auto.
Qed.

Lemma take_randrange_ok a b s v rest : take_randrange a b s = Ok (v, rest) -> a <= v < b.
Proof.
  unfold take_randrange. destruct (b <=? a); [discriminate|]. destruct s as [|[] r]; try discriminate.
  destruct (_ && _ && _ && _)%bool eqn:B; [|discriminate]. intros H; inversion H; subst.
  apply andb_true_iff in B as [B B2]. apply andb_true_iff in B as [_ B1]. apply Z.leb_le in B1. apply Z.ltb_lt in B2. lia.
Qed.

Lemma remove_nth_length {A} (l : list A) i : (i < length l)%nat -> length (remove_nth l i) = (length l - 1)%nat.
Proof.
  revert i; induction l as [|a t IH]; intros [|i] H; simpl in *; try lia. rewrite IH by lia. lia.
Qed.

Section MutCompletes.
  Context {V : Type} (veqb : V -> V -> bool) (zero : V).
  Notation ind := (individual V).

  (* the optimiser's contract: it answers with as many values as it was given *)
  Definition opt_wf (it : titem V) : Prop := match it with TOpt x0 new _ => length new = length x0 | _ => True end.

  Lemma t_draw_err {A} (f : ostream -> result (A * ostream)) (s : list (titem V)) e :
    (forall s0 e0, f s0 = Err e0 -> log_err e0) -> t_draw f s = Err e -> log_err e.
  Proof.
    intros Hf. unfold t_draw. destruct s as [|[sd|d|x0 x nf|l] rest].
    - destruct (f []) eqn:E; intros H; inversion H; subst; eauto.
    - destruct (f []) eqn:E; intros H; inversion H; subst; eauto.
    - destruct (f [d]) as [[a r]|e0] eqn:E; simpl.
      + destruct r; intros H; inversion H; auto.
      + intros H; inversion H; subst. eauto.
    - destruct (f []) eqn:E; intros H; inversion H; subst; eauto.
    - destruct (f []) eqn:E; intros H; inversion H; subst; eauto.
  Qed.

  Lemma t_draw_ok {A} (f : ostream -> result (A * ostream)) (s : list (titem V)) a rest :
    t_draw f s = Ok (a, rest) -> exists d r, s = TDec d :: rest /\ f [d] = Ok (a, r).
  Proof.
    unfold t_draw. destruct s as [|[sd|d|x0 x nf|l] rest0]; try (destruct (f []); discriminate).
    destruct (f [d]) as [[a0 r]|e0] eqn:E; simpl; [|discriminate].
    destruct r; [|discriminate]. intros H; inversion H; subst. eauto.
  Qed.

  Lemma t_take_seed_err seed (s : list (titem V)) e : t_take_seed seed s = Err e -> log_err e.
  Proof. unfold t_take_seed. destruct s as [|[sd| | |] rest]; try (intros H; inversion H; auto; fail). destruct (Z.eqb sd seed); intros H; inversion H; auto. Qed.

  Lemma t_take_seed_ok seed (s : list (titem V)) rest : t_take_seed seed s = Ok rest -> exists sd, s = TSeed sd :: rest.
  Proof. unfold t_take_seed. destruct s as [|[sd| | |] r]; try discriminate. destruct (Z.eqb sd seed); [|discriminate]. intros H; inversion H; subst. eauto. Qed.

  Lemma optimize_layer_complete (x : ind) lid s :
    individual_is_valid x = true -> Forall opt_wf s ->
    match optimize_layer veqb false x lid s with
    | Ok (x', _, s') => individual_is_valid x' = true /\ Forall opt_wf s' /\ i_layers x' = i_layers x
    | Err e => log_err e
    end.
  Proof.
    intros Hv Hs. destruct (optimize_layer veqb false x lid s) as [[[x' n] s']|e] eqn:E.
    - destruct (optimize_layer_keeps _ _ _ _ _ _ _ _ Hv E) as [A [_ B]]. repeat split; auto.
      unfold optimize_layer in E. destruct (Nat.eqb (length (i_layers x)) 0); [discriminate|].
      destruct (Nat.eqb (length (get_layer_parameter_values x lid)) 0); [inversion E; subst; exact Hs|].
      destruct s as [|[| |x0 new nfev|] rest]; try discriminate.
      destruct (list_eqb veqb x0 _); [|discriminate]. destruct (change_layer_parameter_values x lid new); simpl in E; [|discriminate].
      inversion E; subst. inversion Hs; assumption.
    - unfold optimize_layer in E. pose proof Hv as Hv0. apply valid_unfold in Hv0 as [Hne _].
      destruct (Nat.eqb (length (i_layers x)) 0) eqn:E0; [apply Nat.eqb_eq in E0; destruct (i_layers x); [congruence|discriminate]|].
      destruct (Nat.eqb (length (get_layer_parameter_values x lid)) 0); [discriminate|].
      destruct s as [|[| |x0 new nfev|] rest]; try (inversion E; auto; fail).
      destruct (list_eqb veqb x0 (get_layer_parameter_values x lid)) eqn:El; [|inversion E; auto].
      inversion Hs as [|? ? Hw _]; subst. simpl in Hw. apply list_eqb_length in El.
      destruct (change_layer_ok x lid new Hv) as [x' Hx']; [congruence|]. rewrite Hx' in E. discriminate.
  Qed.

  Lemma optimize_loop_complete fuel : forall (cur : ind) indices total s,
    individual_is_valid cur = true -> Forall opt_wf s -> (length indices <= fuel)%nat ->
    match optimize_loop veqb false fuel cur indices total s with
    | Ok _ => True
    | Err e => log_err e
    end.
  Proof.
    induction fuel as [|f IH]; intros cur indices total s Hv Hs Hl; destruct indices as [|i0 it]; simpl; auto; [simpl in Hl; lia|].
    destruct (t_draw (take_choice (S (length it))) s) as [[c s1]|e] eqn:E1; simpl.
    2:{ eapply t_draw_err; [|exact E1]. intros s0 e0. apply take_choice_err. discriminate. }
    destruct (t_draw_ok _ _ _ _ E1) as [d [r [-> Hc]]]. apply take_choice_ok in Hc.
    unfold nth_r. destruct (nth_error (i0 :: it) c) as [layer|] eqn:En; [|apply nth_error_None in En; simpl in En; lia]. simpl.
    destruct (t_draw take_seed s1) as [[sd s2]|e] eqn:E2; simpl.
    2:{ eapply t_draw_err; [|exact E2]. intros s0 e0. apply take_seed_err. }
    destruct (t_draw_ok _ _ _ _ E2) as [d2 [r2 [-> _]]].
    inversion Hs as [|? ? _ Hs1]; subst. inversion Hs1 as [|? ? _ Hs2]; subst.
    pose proof (optimize_layer_complete cur (Z.of_nat layer) s2 Hv Hs2) as X.
    destruct (optimize_layer veqb false cur (Z.of_nat layer) s2) as [[[y ny] s3]|e]; simpl; [|exact X].
    destruct X as [Hy [Hs3 _]]. apply IH; auto.
    change (match c with 0%nat => it | S i' => i0 :: remove_nth it i' end) with (remove_nth (i0 :: it) c).
    rewrite remove_nth_length by (simpl; lia). simpl in *. lia.
  Qed.

  Lemma run_task_complete k (x : ind) seed s :
    individual_is_valid x = true -> Forall opt_wf s ->
    match run_task veqb zero false k x seed s with Ok _ => True | Err e => log_err e end.
  Proof.
    intros Hv Hs. pose proof Hv as Hv0. apply valid_unfold in Hv0 as [Hne [Hls Hlen]]. destruct k; simpl.
    - pose proof (optimize_layer_complete x (-1) s Hv Hs) as X. destruct (optimize_layer veqb false x (-1) s) as [[[? ?] ?]|]; auto.
    - unfold optimize_all. destruct (t_take_seed seed s) as [s1|e] eqn:E; simpl; [|eapply t_take_seed_err; eauto].
      destruct (t_take_seed_ok _ _ _ E) as [sd ->]. inversion Hs; subst.
      apply optimize_loop_complete; auto. rewrite seq_length. lia.
    - unfold topological_task. destruct (t_take_seed seed s) as [s1|e] eqn:E; simpl; [|eapply t_take_seed_err; eauto].
      destruct (i_layers x) as [|first rest] eqn:El; [congruence|]. simpl.
      destruct (t_draw take_seed s1) as [[sd s2]|e] eqn:E2; simpl.
      2:{ eapply t_draw_err; [|exact E2]. intros s0 e0. apply take_seed_err. }
      destruct s2 as [|[| | |l] rest2]; auto.
      destruct (layer_wf l && Z.eqb (l_qubits l) (l_qubits first))%bool eqn:B; auto.
      apply andb_true_iff in B as [B1 B2]. apply Z.eqb_eq in B2.
      assert (Hq : l_qubits l = i_qubits x). { rewrite B2. inversion Hls as [|? ? [_ Q] _]; subst. exact Q. }
      destruct (add_layer_ok x l zero Hv B1 Hq) as [x' Hx']. rewrite Hx'. simpl. exact I.
    - unfold removal_task. destruct (Nat.eqb (length (i_layers x)) 1) eqn:E1; [exact I|]. apply Nat.eqb_neq in E1.
      assert (HL : (2 <= length (i_layers x))%nat) by (destruct (i_layers x) as [|? [|? ?]]; simpl in *; try congruence; lia).
      destruct (t_take_seed seed s) as [s1|e] eqn:E; simpl; [|eapply t_take_seed_err; eauto].
      destruct (t_draw (take_randrange 1 (Z.of_nat (length (i_layers x)))) s1) as [[v s2]|e] eqn:E2; simpl.
      2:{ eapply t_draw_err; [|exact E2]. intros s0 e0. apply take_randrange_err. lia. }
      destruct (t_draw_ok _ _ _ _ E2) as [d [r [_ Hr]]]. apply take_randrange_ok in Hr.
      destruct (remove_layers_ok x v Hv) as [x' Hx']; [lia|]. rewrite Hx'. simpl. exact I.
  Qed.

  Lemma submit_all_err p (xs : list ind) : forall i s e, submit_all p i xs s = Err e -> log_err e.
  Proof.
    induction xs as [|x t IH]; intros i s e; simpl; [discriminate|].
    destruct (take_random s) as [[r s1]|e0] eqn:E; simpl; [|intros H; inversion H; subst; eapply take_random_err; eauto].
    destruct (Qle_bool r p).
    - destruct (take_seed s1) as [[sd s2]|e0] eqn:E2; simpl; [|intros H; inversion H; subst; eapply take_seed_err; eauto].
      destruct (submit_all p (S i) t s2) as [[rest s3]|e0] eqn:E3; simpl; [discriminate|]. intros H; inversion H; subst. eauto.
    - apply IH.
  Qed.

  Lemma zip_tasks_err k subs : forall tls e, zip_tasks veqb zero false k subs tls = Err e -> log_err e.
  Proof.
    induction subs as [|sb st IH]; intros [|tl tlt] e; simpl; try discriminate; try (intros H; inversion H; auto; fail).
    destruct (zip_tasks veqb zero false k st tlt) eqn:E; simpl; [discriminate|]. intros H; inversion H; subst. eauto.
  Qed.

  Lemma exec_run_err {R} (tasks : list R) pi e : exec_run tasks pi = Err e -> log_err e.
  Proof.
    unfold exec_run. destruct (complete tasks pi) as [log|e0] eqn:E; simpl.
    - unfold collect. generalize (seq 0 (length tasks)). induction l as [|i l IH]; simpl; [discriminate|].
      destruct (dict_get Nat.eqb log i); simpl; [|intros H; inversion H; auto].
      destruct (mapM _ l); simpl; [discriminate|]. intros H; inversion H; subst. apply IH. reflexivity.
    - intros H; inversion H; subst. clear H. revert e E. induction pi as [|j t IH]; intros e; simpl; [discriminate|].
      destruct (nth_error tasks j); [|intros H; inversion H; auto].
      destruct (complete tasks t); simpl; [discriminate|]. intros H; inversion H; subst. apply IH. reflexivity.
  Qed.

  Lemma zip_tasks_In k subs : forall tls tasks t,
    zip_tasks veqb zero false k subs tls = Ok tasks -> In t tasks ->
    exists sb tl, In sb subs /\ In tl tls /\ t = task_result veqb zero false k sb tl.
  Proof.
    induction subs as [|sb st IH]; intros [|tl tlt] tasks t; simpl; try discriminate.
    - intros H; inversion H; subst. intros [].
    - destruct (zip_tasks veqb zero false k st tlt) as [rest|] eqn:E; simpl; [|discriminate].
      intros H; inversion H; subst. intros [<-|Hin]; [exists sb, tl; auto|].
      destruct (IH _ _ _ E Hin) as [sb' [tl' [A [B C]]]]. exists sb', tl'. auto.
  Qed.

  Lemma write_back_ok (inds : list ind) subs : forall rs total,
    length subs = length rs -> (forall j x sd, In (j, x, sd) subs -> (j < length inds)%nat) ->
    exists r, write_back inds subs rs total = Ok r.
  Proof.
    revert inds. induction subs as [|[[j x] sd] st IH]; intros inds [|[x' n] rt] total Hl Hj; simpl in *; try discriminate; [eexists; reflexivity|].
    assert (Hs : exists l', set_nth inds j x' = Ok l').
    { assert (L : (j < length inds)%nat) by (apply (Hj j x sd); left; reflexivity). clear - L. revert j L.
      induction inds as [|a t IHt]; intros [|j] L; simpl in *; try lia; [eexists; reflexivity|].
      destruct (IHt j) as [l' E]; [lia|]. rewrite E. simpl. eexists; reflexivity. }
    destruct Hs as [l' E]. rewrite E. simpl. apply IH; [lia|]. intros j0 x0 sd0 Hin. rewrite (set_nth_length _ _ _ _ E). eapply Hj; right; eauto.
  Qed.

  (* mutation completes: any Err is an artefact of the log *)
  Theorem mutation_completes k prob (p : population V) pi s tls cbs e :
    Forall (fun x => individual_is_valid x = true) (p_inds p) ->
    Forall (fun tl => Forall opt_wf (t_items tl)) tls ->
    mutation_op veqb zero false k prob p pi s tls = (cbs, Err e) -> log_err e.
  Proof.
    intros Hv Hw. unfold mutation_op.
    destruct (submit_all prob 0 (p_inds p) s) as [[subs s1]|e0] eqn:Es; simpl; [|intros H; inversion H; subst; eapply submit_all_err; eauto].
    destruct s1; simpl; [|intros H; inversion H; auto].
    destruct (zip_tasks veqb zero false k subs tls) as [tasks|e0] eqn:Ez; simpl; [|intros H; inversion H; subst; eapply zip_tasks_err; eauto].
    destruct (exec_run tasks pi) as [done|e0] eqn:Ee; simpl; [|intros H; inversion H; subst; eapply exec_run_err; eauto].
    apply exec_run_aligned in Ee. subst done.
    pose proof (submit_all_spec _ _ _ _ _ _ Es) as Hsub.
    destruct (gather tasks) as [rs|e0] eqn:Eg; simpl.
    - destruct (write_back_ok (p_inds p) subs rs 0) as [[inds' total] Ew].
      + apply zip_tasks_spec in Ez. apply Forall2_length' in Ez. unfold gather in Eg. apply mapM_Forall2 in Eg. apply Forall2_length' in Eg. congruence.
      + intros j x sd Hin. destruct (Hsub j x sd Hin) as [_ Y]. rewrite Nat.sub_0_r in Y. apply nth_error_Some. congruence.
      + rewrite Ew. simpl. discriminate.
    - intros H; inversion H; subst. clear H.
      (* the first failing task *)
      assert (G : exists t, In t tasks /\ t = Err e).
      { clear - Eg. unfold gather in Eg. induction tasks as [|t ts IH]; simpl in Eg; [discriminate|].
        destruct t as [a|e1]; simpl in Eg.
        - destruct (mapM (fun r => r) ts) eqn:E; simpl in Eg; [discriminate|]. inversion Eg; subst.
          destruct IH as [t [A B]]; [reflexivity|]. exists t. split; [right; exact A|exact B].
        - inversion Eg; subst. exists (Err e). split; [left; reflexivity|reflexivity]. }
      destruct G as [t [Hin Ht]]. destruct (zip_tasks_In _ _ _ _ _ Ez Hin) as [[[j x] sd] [tl [A [B C]]]].
      rewrite Ht in C. unfold task_result in C. destruct (negb _); [inversion C; auto|].
      assert (Hx : individual_is_valid x = true).
      { rewrite Forall_forall in Hv. apply Hv. destruct (Hsub j x sd A) as [_ Y]. eapply nth_error_In; eauto. }
      assert (Htl : Forall opt_wf (t_items tl)) by (rewrite Forall_forall in Hw; apply Hw; exact B).
      pose proof (run_task_complete k x sd (t_items tl) Hx Htl) as X.
      destruct (run_task veqb zero false k x sd (t_items tl)) as [[[y m] rest]|e1]; simpl in C.
      + destruct rest; inversion C; auto.
      + inversion C; subst. exact X.
  Qed.
End MutCompletes.

(* ------------------------------------------------------------------ selection never raises *)
Lemma take_choices_err len w k s e : take_choices len w k s = Err e -> log_err e.
Proof.
  unfold take_choices. destruct s as [|[] rest]; try (intros H; inversion H; auto; fail).
  destruct (_ && _ && _ && _)%bool; intros H; inversion H; auto.
Qed.

Lemma take_choices_ok len w k s idxs rest :
  take_choices len w k s = Ok (idxs, rest) -> length idxs = k /\ Forall (fun i => (i < len)%nat) idxs.
Proof.
  unfold take_choices. destruct s as [|[] r]; try discriminate.
  destruct (_ && _ && _ && _)%bool eqn:B; [|discriminate]. intros H; inversion H; subst.
  apply andb_true_iff in B as [B _]. apply andb_true_iff in B as [B B3]. apply andb_true_iff in B as [_ B2].
  apply Nat.eqb_eq in B2. split; [exact B2|]. apply Forall_forall. intros i Hi. rewrite forallb_forall in B3. apply Nat.ltb_lt. auto.
Qed.

Lemma Qz_nonneg z : 0 <= z -> (0 <= Qz z)%Q.
Proof. intros H. unfold Qz. change 0%Q with (inject_Z 0). rewrite <- Zle_Qle. exact H. Qed.

Lemma Qz_pos z : 0 < z -> (0 < Qz z)%Q.
Proof. intros H. unfold Qz. change 0%Q with (inject_Z 0). rewrite <- Zlt_Qlt. exact H. Qed.

Section SelCompletes.
  Context {V : Type} (ieq : individual V -> individual V -> bool).
  Notation ind := (individual V).
  Variable ev : ind -> result Q.

  (* species information as speciation returns it: every index has a representative whose member list exists and is not empty *)
  Definition species_consistent (p : population V) : Prop :=
    exists reps mem ms, p_reps p = Some reps /\ p_members p = Some mem /\ p_membership p = Some ms /\
      forall i, (i < length (p_inds p))%nat ->
                exists r l, dict_get Nat.eqb ms i = Some r /\ dict_get ieq mem r = Some l /\ l <> [].

  Lemma n_controlled_nonneg (x : ind) : 0 <= n_controlled x.
  Proof.
    unfold n_controlled. apply sumZ_nonneg. apply Forall_map. apply Forall_forall. intros l _. unfold layer_n_controlled. lia.
  Qed.

  Lemma fitness_all_complete cfg mem ms offset : forall (xs : list ind) es i0,
    length xs = length es ->
    (forall i, (i0 <= i < i0 + length xs)%nat -> exists r l, dict_get Nat.eqb ms i = Some r /\ dict_get ieq mem r = Some l /\ l <> []) ->
    exists fit, fitness_all ieq cfg mem ms offset i0 xs es = Ok fit /\ length fit = length xs
                /\ ((0 <= s_alpha cfg)%Q -> (0 <= s_beta cfg)%Q -> (0 <= offset)%Q ->
                    Forall (fun e => (0 < e + offset)%Q) es -> Forall (fun f => (0 < f + offset)%Q) fit).
  Proof.
    induction xs as [|x xt IH]; intros [|e et] i0 Hl Hc; simpl in *; try discriminate.
    - exists []. repeat split; auto.
    - destruct (Hc i0) as [r [l [A [B C]]]]; [lia|].
      unfold fitness, species_size, dict_at. rewrite A. simpl. rewrite B. simpl.
      destruct (IH et (S i0)) as [fit [F1 [F2 F3]]]; [lia|intros i Hi; apply Hc; lia|].
      rewrite F1. simpl. eexists. split; [reflexivity|]. split; [simpl; congruence|].
      intros Ha Hb Ho Hes. inversion Hes; subst. constructor; [|auto].
      assert (M : (0 < Qz (Z.of_nat (length l)))%Q) by (apply Qz_pos; destruct l; [congruence|simpl; lia]).
      assert (M1 : (1 <= Qz (Z.of_nat (length l)))%Q).
      { unfold Qz. change 1%Q with (inject_Z 1). rewrite <- Zle_Qle. destruct l; [congruence|simpl; lia]. }
      pose proof (Qz_nonneg (Z.of_nat (length (i_layers x))) ltac:(lia)) as L.
      pose proof (Qz_nonneg (n_controlled x) (n_controlled_nonneg x)) as Cn.
      set (m := Qz (Z.of_nat (length l))) in *. set (LL := Qz (Z.of_nat (length (i_layers x)))) in *. set (CC := Qz (n_controlled x)) in *.
      assert (P1 : (0 <= s_alpha cfg * LL)%Q) by (apply Qmult_le_0_compat; assumption).
      assert (P2 : (0 <= s_beta cfg * CC)%Q) by (apply Qmult_le_0_compat; assumption).
      assert (P3 : (0 < e + offset + s_alpha cfg * LL + s_beta cfg * CC)%Q) by lra.
      assert (P4 : (0 < (e + offset + s_alpha cfg * LL + s_beta cfg * CC) * m)%Q) by (apply Qmult_lt_0_compat; assumption).
      lra.
  Qed.

  Lemma tournament_winner_complete (fit : list Q) : forall idxs best,
    Forall (fun t => (t < length fit)%nat) idxs ->
    exists w, tournament_winner fit idxs best = Ok w
              /\ match w with
                 | Some (t, _) => In t idxs \/ (exists f, best = Some (t, f))
                 | None => idxs = [] /\ best = None
                 end.
  Proof.
    induction idxs as [|t rest IH]; intros best Hf; simpl.
    - exists best. split; [reflexivity|]. destruct best as [[t f]|]; [right; eauto|auto].
    - inversion Hf; subst. unfold nth_r. destruct (nth_error fit t) as [f|] eqn:E; [|apply nth_error_None in E; lia]. simpl.
      assert (G : exists w, tournament_winner fit rest (Some (t, f)) = Ok w
                            /\ match w with Some (t0, _) => t = t0 \/ In t0 rest | None => False end).
      { destruct (IH (Some (t, f)) H2) as [w [W1 W2]]. exists w. split; [exact W1|].
        destruct w as [[t0 f0]|]; [|destruct W2; discriminate].
        destruct W2 as [W|[f1 W]]; [right; exact W|]. inversion W; subst. left; reflexivity. }
      destruct best as [[bt bf]|].
      + destruct (Qltb f bf).
        * destruct G as [w [W1 W2]]. exists w. split; [exact W1|]. destruct w as [[t0 f0]|]; [left; exact W2|contradiction].
        * destruct (IH (Some (bt, bf)) H2) as [w [W1 W2]]. exists w. split; [exact W1|].
          destruct w as [[t0 f0]|]; [destruct W2 as [W|W]; [left; right; exact W|right; exact W]|destruct W2; discriminate].
      + destruct G as [w [W1 W2]]. exists w. split; [exact W1|]. destruct w as [[t0 f0]|]; [left; exact W2|contradiction].
  Qed.

  Lemma tournaments_complete rounds : forall size (inds : list ind) fit s e,
    (1 <= size)%nat -> length fit = length inds ->
    tournaments rounds size inds fit s = Err e -> log_err e.
  Proof.
    induction rounds as [|r IH]; intros size inds fit s e Hs Hl; simpl; [discriminate|].
    destruct (take_choices (length inds) None size s) as [[idxs s1]|e0] eqn:E1; simpl; [|intros H; inversion H; subst; eapply take_choices_err; eauto].
    destruct (take_choices_ok _ _ _ _ _ _ E1) as [L1 L2].
    destruct (tournament_winner_complete fit idxs None) as [w [W1 W2]]; [rewrite Hl; exact L2|].
    rewrite W1. simpl. destruct w as [[bi bf]|]; [|destruct W2 as [W _]; subst; simpl in *; lia].
    destruct W2 as [W|[f W]]; [|discriminate]. rewrite Forall_forall in L2. specialize (L2 bi W).
    unfold nth_r. destruct (nth_error inds bi) eqn:E3; [|apply nth_error_None in E3; lia]. simpl.
    destruct (tournaments r size inds fit s1) as [[rest s2]|e0] eqn:E4; simpl; [discriminate|].
    intros H; inversion H; subst. eapply IH; eauto.
  Qed.

  Lemma mapM_total {A B} (f : A -> result B) l : (forall a, In a l -> exists b, f a = Ok b) -> exists r, mapM f l = Ok r.
  Proof.
    induction l as [|a t IH]; intros H; simpl; [eexists; reflexivity|].
    destruct (H a (or_introl eq_refl)) as [b E]. rewrite E. simpl.
    destruct IH as [r Er]; [intros; apply H; right; assumption|]. rewrite Er. simpl. eexists; reflexivity.
  Qed.

  Lemma sumQ_pos ws : ws <> [] -> Forall (fun w => (0 < w)%Q) ws -> (0 < sumQ ws)%Q.
  Proof.
    intros Hne Hf. induction Hf as [|w t Hw Ht IH]; [congruence|]. simpl. destruct t as [|w2 t2]; [simpl; lra|].
    assert ((0 < sumQ (w2 :: t2))%Q) by (apply IH; discriminate). lra.
  Qed.

  Theorem selection_completes cfg (p : population V) pi s cbs e :
    species_consistent p -> p_inds p <> [] ->
    (0 <= s_alpha cfg)%Q -> (0 <= s_beta cfg)%Q ->
    (forall x, In x (p_inds p) -> exists v, ev x = Ok v) ->
    (forall size, s_tournament cfg = Some size -> (1 <= size)%nat) ->
    selection_op ieq ev cfg p pi s = (cbs, Err e) -> log_err e.
  Proof.
    intros [reps [mem [ms [Hr [Hm [Hms Hc]]]]]] Hne Ha Hb Hev Hts. unfold selection_op.
    destruct (exec_run (map ev (p_inds p)) pi) as [done|e0] eqn:Ee; simpl; [|intros H; inversion H; subst; eapply exec_run_err; eauto].
    apply exec_run_aligned in Ee. subst done. rewrite gather_map.
    destruct (mapM_total ev (p_inds p) Hev) as [values Ev]. rewrite Ev.
    pose proof Ev as Ef. apply mapM_Forall2 in Ef. apply Forall2_length' in Ef.
    unfold select_after_eval. rewrite Hr, Hm, Hms.
    destruct (argmin values) as [bi|e0] eqn:Ea.
    2:{ destruct values; [destruct (p_inds p); [congruence|discriminate]|discriminate]. }
    destruct (argmin_spec _ _ Ea) as [bv [Bv [Ble _]]].
    assert (Hbi : (bi < length values)%nat) by (apply nth_error_Some; congruence).
    assert (Hx : exists bx, nth_r (p_inds p) bi = Ok bx).
    { unfold nth_r. destruct (nth_error (p_inds p) bi) eqn:X; [eexists; reflexivity|apply nth_error_None in X; lia]. }
    destruct Hx as [bx Ex]. rewrite Ex. assert (Ev2 : nth_r values bi = Ok bv) by (apply nth_r_nth; exact Bv). rewrite Ev2.
    intros H; inversion H as [[Hc2 He]]. clear H.
    destruct (s_tournament cfg) as [size|] eqn:Et.
    - destruct (fitness_all_complete cfg mem ms 0%Q (p_inds p) values 0%nat Ef) as [fit [F1 [F2 _]]]; [intros i Hi; apply Hc; lia|].
      rewrite F1 in He. simpl in He.
      destruct (tournaments (length (p_inds p)) size (p_inds p) fit s) as [[sel s1]|e0] eqn:E2; simpl in He.
      + destruct s1; inversion He; auto.
      + inversion He; subst. eapply tournaments_complete; [apply Hts; reflexivity|exact F2|exact E2].
    - set (offset := if Qle_bool bv 0 then (- bv + 1)%Q else 0%Q) in *.
      assert (Ho : (0 <= offset)%Q).
      { unfold offset. destruct (Qle_bool bv 0) eqn:B; [apply Qle_bool_iff in B; lra|lra]. }
      assert (Hes : Forall (fun e0 => (0 < e0 + offset)%Q) values).
      { apply Forall_forall. intros v Hv. apply In_nth_error in Hv as [j Hj]. specialize (Ble j v Hj).
        unfold offset. destruct (Qle_bool bv 0) eqn:B; [lra|].
        assert ((0 < bv)%Q) by (apply Qnot_le_lt; intros C; apply Qle_bool_iff in C; congruence). lra. }
      destruct (fitness_all_complete cfg mem ms offset (p_inds p) values 0%nat Ef) as [fit [F1 [F2 F3]]]; [intros i Hi; apply Hc; lia|].
      rewrite F1 in He. simpl in He. specialize (F3 Ha Hb Ho Hes).
      assert (Hw : exists ws, mapM (weight offset) fit = Ok ws /\ Forall (fun w => (0 < w)%Q) ws /\ length ws = length fit).
      { clear - F3. induction F3 as [|f t Hf Ht IH]; simpl; [exists []; repeat split; constructor|].
        unfold weight at 1. destruct (Qeq_bool (f + offset) 0) eqn:B; [apply Qeq_bool_iff in B; rewrite B in Hf; lra|]. simpl.
        destruct IH as [ws [W1 [W2 W3]]]. rewrite W1. simpl. eexists. split; [reflexivity|]. split; [|simpl; congruence].
        constructor; [apply Qinv_lt_0_compat; exact Hf|exact W2]. }
      destruct Hw as [ws [W1 [W2 W3]]]. rewrite W1 in He. simpl in He.
      assert (Hsum : Qle_bool (sumQ ws) 0 = false).
      { destruct (Qle_bool (sumQ ws) 0) eqn:B; [|reflexivity]. apply Qle_bool_iff in B.
        assert ((0 < sumQ ws)%Q); [|lra]. apply sumQ_pos; [|exact W2]. destruct ws; [|discriminate].
        simpl in W3. destruct (p_inds p); [congruence|]. simpl in *. lia. }
      rewrite Hsum in He.
      destruct (take_choices (length (p_inds p)) (Some ws) (length (p_inds p)) s) as [[idxs s1]|e0] eqn:E3; simpl in He;
        [|inversion He; subst; eapply take_choices_err; eauto].
      destruct (take_choices_ok _ _ _ _ _ _ E3) as [_ L2].
      destruct (mapM_total (nth_r (p_inds p)) idxs) as [sel Es].
      { intros i Hi. rewrite Forall_forall in L2. specialize (L2 i Hi). unfold nth_r.
        destruct (nth_error (p_inds p) i) eqn:X; [eexists; reflexivity|apply nth_error_None in X; lia]. }
      rewrite Es in He. simpl in He. destruct s1; inversion He; auto.
  Qed.
End SelCompletes.

(* ------------------------------------------------------------------ operators and sequences *)
Section SeqCompletes.
  Context {V : Type} (veqb : V -> V -> bool) (ieq : individual V -> individual V -> bool) (zero : V).
  Hypothesis ieq_refl : forall x, ieq x x = true.
  Hypothesis ieq_sym : forall x y, ieq x y = true -> ieq y x = true.
  Hypothesis ieq_trans : forall x y z, ieq x y = true -> ieq y z = true -> ieq x z = true.
  Notation ind := (individual V).
  Variable ev : ind -> result Q.
  Hypothesis ev_total : forall x, exists v, ev x = Ok v.     (* the evaluator answers *)

  (* what the speciation returns is what selection needs *)
  Lemma speciation_consistent thr (p : population V) s p' ext s' :
    speciate ieq thr p s = Ok (p', ext, s') -> species_consistent ieq p'.
  Proof.
    intros H. destruct (speciation_partition ieq ieq_refl ieq_sym ieq_trans _ _ _ _ _ _ H)
      as [mem [ms [A1 [A2 [A3 [A4 [Hperm [Hrep [Hms [Hkd Hget]]]]]]]]]].
    exists (map fst mem), mem, ms. repeat split; auto. rewrite A1. intros i Hi.
    assert (Hin : In i (concat (map snd mem))) by (apply (Permutation_in _ (Permutation_sym Hperm)); apply in_seq; lia).
    apply in_concat in Hin as [l [Hl Hil]]. apply in_map_iff in Hl as [[r l0] [E Hrl]]. simpl in E; subst l0.
    exists r, l. split; [apply Hms; eauto|]. split; [apply Hget; exact Hrl|apply (Hrep r l Hrl)].
  Qed.

  (* the contracts of the configuration and of the oracles for one application *)
  Definition step_ok (st : op * oplog V) : Prop :=
    match fst st with
    | OSpeciation _ => True
    | OSelection cfg => (0 <= s_alpha cfg)%Q /\ (0 <= s_beta cfg)%Q /\ (forall size, s_tournament cfg = Some size -> (1 <= size)%nat)
    | OMutation _ _ => Forall (fun tl => Forall (opt_wf (V := V)) (t_items tl)) (g_tasks (snd st))
    end.

  Theorem op_completes n o lgs (p : population V) cbs e :
    pop_valid n p = true -> p_inds p <> [] -> step_ok (o, lgs) ->
    (match o with OSelection _ => species_consistent ieq p | _ => True end) ->
    run_op veqb ieq zero ev false o lgs p = (cbs, Err e) -> log_err e.
  Proof.
    intros Hv Hne Hok Hsp. destruct o as [thr|cfg|k prob]; simpl.
    - unfold speciation_op. intros H; inversion H as [[Hc He]]. clear H.
      destruct (speciate ieq thr p (g_stream lgs)) as [[[q ext] rest]|e0] eqn:E; simpl in He.
      + destruct rest; inversion He; auto.
      + inversion He; subst. rewrite (speciation_no_exception ieq ieq_refl ieq_sym ieq_trans _ _ _ _ E). auto.
    - destruct Hok as [Ha [Hb Hs]]. intros H. eapply selection_completes; eauto.
    - intros H. eapply mutation_completes; [| |exact H].
      + apply pop_valid_Forall in Hv. eapply Forall_impl; [|exact Hv]. intros x [A _]. exact A.
      + exact Hok.
  Qed.

  (* C10_completes: any operator sequence in which each selection is directly preceded by a speciation, on a valid
     non-empty population: whatever the streams, logs and completion orders, no application raises a Python exception *)
  Theorem seq_completes n steps : forall (p : population V) prev_spec,
    pop_valid n p = true -> p_inds p <> [] ->
    (prev_spec = true -> species_consistent ieq p) ->
    selection_after_speciation prev_spec (map fst steps) = true ->
    Forall step_ok steps ->
    Forall (fun oc => forall e, snd oc = Err e -> log_err e) (run_seq veqb ieq zero ev false steps p).
  Proof.
    induction steps as [|[o lgs] t IH]; intros p prev Hv Hne Hsp Hsel Hok; simpl; [constructor|].
    inversion Hok as [|? ? Hok1 Hok2]; subst.
    destruct (run_op veqb ieq zero ev false o lgs p) as [cbs r] eqn:E.
    assert (Hpre : match o with OSelection _ => species_consistent ieq p | _ => True end).
    { destruct o; auto. simpl in Hsel. apply andb_true_iff in Hsel as [Hp _]. apply Hsp. exact Hp. }
    constructor.
    - simpl. intros e He. subst r. eapply op_completes; eauto.
    - simpl. destruct r as [p1|]; [|constructor].
      destruct (op_size_valid veqb ieq zero ieq_refl ieq_sym ieq_trans ev false n o lgs p cbs p1 Hv E) as [Hv1 Hl1].
      assert (Hne1 : p_inds p1 <> []) by (intros C; rewrite C in Hl1; destruct (p_inds p); [congruence|discriminate]).
      destruct o as [thr|cfg|k prob]; simpl in Hsel.
      + apply (IH p1 true); auto. intros _. simpl in E. unfold speciation_op in E. inversion E as [[Hc Hr]].
        destruct (speciate ieq thr p (g_stream lgs)) as [[[q ext] rest]|] eqn:Es; simpl in Hr; [|discriminate].
        destruct rest; inversion Hr; subst. eapply speciation_consistent; eauto.
      + apply andb_true_iff in Hsel as [_ Hsel]. apply (IH p1 false); auto. discriminate.
      + apply (IH p1 false); auto. discriminate.
  Qed.
End SeqCompletes.

(* the hypotheses of seq_completes are satisfiable: the four-operator witness run of Heap_proofs *)
From QV Require Import Evqe.Heap_proofs.
Lemma witness_steps_ok : Forall (step_ok (V := Z)) w_steps /\ (forall x, exists v, w_ev x = Ok v)
                         /\ pop_valid 1 w_pop = true /\ p_inds w_pop <> [] /\ selection_after_speciation false (map fst w_steps) = true.
Proof.
  split; [|split; [intros x; exists 1%Q; reflexivity|split; [reflexivity|split; [discriminate|reflexivity]]]].
  unfold w_steps. repeat constructor; unfold step_ok; simpl; try exact I; try discriminate.
  intros size H; inversion H; lia.
Qed.

(* the boundary of the roulette arithmetic: best expectation value exactly 0, alpha = beta = 0.  The guard
   `evaluation_results[best] <= 0` (Qle_bool bv 0 in select_after_eval) gives offset 1, the fitness is 1, the weight 1/2:
   selection completes.  (With a strict guard the fitness would be 0 and 1/(fitness + offset) would raise.) *)
Definition z_pop : population Z := mkPop [w_a] (Some [w_a]) (Some [(w_a, [0%nat])]) (Some [(0%nat, w_a)]).
Lemma roulette_zero_boundary :
  species_consistent (individual_heq Z.eqb) z_pop
  /\ selection_op (individual_heq Z.eqb) (fun _ => Ok 0%Q) (mkSel 0 0 None) z_pop [0%nat] [KChoices 1 (Some [1 # 2]) [0%nat]]
     = ([CbCount 1; CbResult (mkRes z_pop [0%Q] w_a 0%Q)], Ok (mkPop [w_a] (Some [w_a]) None None)).
Proof.
  split; [|vm_compute; reflexivity].
  exists [w_a], [(w_a, [0%nat])], [(0%nat, w_a)]. repeat split. intros i Hi. simpl in Hi.
  assert (i = 0%nat) by lia. subst. exists w_a, [0%nat]. repeat split. discriminate.
Qed.
