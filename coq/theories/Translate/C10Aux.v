(* C10 / C11 translation tie (translator/specs/c10.py, coq/link/C10Link.v).
   PART 0 is TRUSTED data representation used by the generated code (build/gen*/QVGen/C10Gen.v); definitions only.
   PART 1 are checked lemmas about PART 0 (none of them is trusted). *)
From QV Require Import Evqe.Heap.
From QV Require Import Translate.PyPrelude.
Open Scope Z_scope.

(* ------------------------------------------------------------------ PART 0 (trusted representation) *)
(* An EVQEPopulation object as the Python code sees it (idiom list-as-heap-cell): `individuals` is a tuple (a value),
   `species_representatives` is None or a REFERENCE to a list object = the index of a cell of the heap of Evqe/Heap.v,
   the two dicts are values whose ints are Python ints (Z; the model's hpop has nat: to_hpop / of_hpop below). *)
Record pypop (V : Type) := mkPy {
  py_inds : list (individual V);
  py_reps : option nat;
  py_members : option (list (individual V * list Z));
  py_membership : option (list (Z * individual V)) }.
Arguments mkPy {V} _ _ _ _.
Arguments py_inds {V} _.
Arguments py_reps {V} _.
Arguments py_members {V} _.
Arguments py_membership {V} _.

(* the state threaded through a function in heap mode: the heap of Evqe/Heap.v and the operator's decision stream *)
Definition hstate (V : Type) : Type := (@heap V * ostream)%type.

(* a fresh list object: a new cell behind all existing ones (Heap.apply_h: `h1 ++ [new_reps]`, reference `length h1`) *)
Definition heap_alloc {V} (c : list (individual V)) (st : hstate V) : result (nat * hstate V) :=
  Ok (length (fst st), ((fst st ++ [c])%list, snd st)).
(* the content of a cell (Heap.deref); a reference to no cell cannot arise from a Python object: Err DanglingReference *)
Definition heap_get {V} (l : nat) (st : hstate V) : result (list (individual V)) :=
  match nth_error (fst st) l with Some c => Ok c | None => Err DanglingReference end.
(* r.append(x): the cell is updated in place (Heap.set_cell), every holder of the reference sees it *)
Definition heap_append {V} (l : nat) (x : individual V) (st : hstate V) : result (unit * hstate V) :=
  do c <- heap_get l st; Ok (tt, (set_cell (fst st) l (c ++ [x])%list, snd st)).

(* random.Random methods on the decision stream of Evqe/Population.v (idiom rng-as-decision-stream; the generator object
   itself is `unit`): the draw function of Population.v followed by the selection of the drawn positions *)
Definition rng_choice {A} (xs : list A) (s : ostream) : result (A * ostream) :=
  do c <- take_choice (length xs) s; do x <- nth_r xs (fst c); Ok (x, snd c).
(* g.choices(population, weights=w, k=k) / g.choices(population, k=k): a total weight <= 0 raises ValueError (as the model:
   Selection.select_after_eval checks it in front of the draw); k < 0 gives [] in CPython (`for _ in repeat(None, k)`): Z.to_nat *)
Definition rng_choices {A} (xs : list A) (w : option (list Q)) (k : Z) (s : ostream) : result (list A * ostream) :=
  if match w with Some ws => Qle_bool (sumQ ws) 0 | None => false end then Err "ValueError"%string
  else do c <- take_choices (length xs) w (Z.to_nat k) s; do ys <- mapM (nth_r xs) (fst c); Ok (ys, snd c).
Definition rng_random (s : ostream) : result (Q * ostream) := take_random s.
(* new_random_seed(random_generator=g) = g.randint(0, 2**31 - 1) (queasars/utility/random.py; linked in C20) *)
Definition rng_new_seed (s : ostream) : result (Z * ostream) := take_seed s.
(* a draw inside a function that threads heap and stream *)
Definition on_stream {V A} (f : ostream -> result (A * ostream)) (st : hstate V) : result (A * hstate V) :=
  do r <- f (snd st); Ok (fst r, (fst st, snd r)).

(* ---- selection.py / mutation.py: the executor protocol, the callbacks, the operator's generator as ONE threaded state.
   BasePopulationEvaluationResult(population=, expectation_values=, best_individual=, best_expectation_value=): the population
   is held BY REFERENCE (Heap.HResult), the values are floats (Q) *)
Record pyresult (V : Type) := mkPyRes {
  pr_pop : pypop V; pr_values : list Q; pr_best : individual V; pr_best_value : Q }.
Arguments mkPyRes {V} _ _ _ _.
Arguments pr_pop {V} _.
Arguments pr_values {V} _.
Arguments pr_best {V} _.
Arguments pr_best_value {V} _.

Inductive pycallback (V : Type) :=
| PyCount (n : Z)                       (* operator_context.circuit_evaluation_count_callback(n) *)
| PyResult (r : pyresult V).            (* operator_context.result_callback(r) *)
Arguments PyCount {V} n.
Arguments PyResult {V} r.

(* R = what a finished task answers (`result ...`: future.result() re-raises the task's exception).
   x_tasks: the outcomes of the tasks submitted so far, in submission order (a future IS its position in this list);
   x_log: None until wait() was called, then the completion log of Population.complete;  x_pi: the completion order (oracle);
   x_events: the callbacks made so far;  x_stream: the operator's decision stream. *)
Record xstate (R V : Type) := mkX {
  x_tasks : list R; x_log : option (list (nat * R)); x_pi : list nat; x_events : list (pycallback V); x_stream : ostream }.
Arguments mkX {R V} _ _ _ _ _.
Arguments x_tasks {R V} _.
Arguments x_log {R V} _.
Arguments x_pi {R V} _.
Arguments x_events {R V} _.
Arguments x_stream {R V} _.

(* executor.submit(fn, args...): `f j` is the outcome of running fn on these arguments as the j-th submitted task (oracle) *)
Definition exec_submit {R V} (f : nat -> R) (st : xstate R V) : result (nat * xstate R V) :=
  let j := length (x_tasks st) in
  Ok (j, mkX (x_tasks st ++ [f j])%list (x_log st) (x_pi st) (x_events st) (x_stream st)).
(* wait(futures) (dask / concurrent.futures: which of the two is not modelled): every submitted task runs, they complete in the
   order x_pi (Population.complete); a waited-for future that never completes makes wait() hang: NeverCompleted *)
Definition exec_wait {R V} (futs : list nat) (st : xstate R V) : result (unit * xstate R V) :=
  do log <- complete (x_tasks st) (x_pi st);
  do _ <- mapM (fun i => match dict_get Nat.eqb log i with Some r => Ok r | None => Err NeverCompleted end) futs;
  Ok (tt, mkX (x_tasks st) (Some log) (x_pi st) (x_events st) (x_stream st)).
(* future.result(): by the future's own position, whatever the completion order was; re-raises the task's exception.
   Before wait() it would block until that task is done — the model always waits first: OracleContract *)
Definition fut_result {A V} (f : nat) (st : xstate (result A) V) : result (A * xstate (result A) V) :=
  match x_log st with
  | None => Err OracleContract
  | Some log => match dict_get Nat.eqb log f with
                | Some (Ok a) => Ok (a, st)
                | Some (Err e) => Err e
                | None => Err NeverCompleted
                end
  end.
Definition emit {R V} (c : pycallback V) (st : xstate R V) : result (unit * xstate R V) :=
  Ok (tt, mkX (x_tasks st) (x_log st) (x_pi st) (x_events st ++ [c])%list (x_stream st)).
Definition on_xstream {R V A} (f : ostream -> result (A * ostream)) (st : xstate R V) : result (A * xstate R V) :=
  do r <- f (x_stream st); Ok (fst r, mkX (x_tasks st) (x_log st) (x_pi st) (x_events st) (snd r)).

(* circuit_evaluator.evaluate_circuits(circuits, parameter_values) with the evaluator an oracle `evalc circuit values`; a
   parameterized circuit is represented by the individual it was built from (get_parameterized_quantum_circuit = id).
   One value per circuit, in order (the contract C03 is about). *)
Definition evaluate_circuits {V} (evalc : individual V -> list V -> result Q) (cs : list (individual V)) (vs : list (list V)) : result (list Q) :=
  mapM (fun cv => evalc (fst cv) (snd cv)) (combine cs vs).
(* int(numpy.argmin(l)): Selection.argmin (first minimum; ValueError when empty) as a Python int *)
Definition argmin_py (l : list Q) : result Z := do i <- argmin l; Ok (Z.of_nat i).

(* ---- mutation.py, inside a task: the task's private log (Mutation.tstream: its Random(seed), that generator's draws, the
   optimiser's answer, the generated layer) is the threaded state *)
(* Random(seed) inside a task: the logged construction (Mutation.t_take_seed); the seed is always an int there *)
Definition trng_new {V} (seed : Z) (s : list (titem V)) : result (unit * list (titem V)) :=
  do s' <- t_take_seed seed s; Ok (tt, s').
(* g.choice(seq) / g.randrange(a, b) / new_random_seed(g) on the task's generator *)
Definition trng_choice {V A} (xs : list A) (s : list (titem V)) : result (A * list (titem V)) :=
  do c <- t_draw (take_choice (length xs)) s; do x <- nth_r xs (fst c); Ok (x, snd c).
Definition trng_randrange {V} (a b : Z) (s : list (titem V)) : result (Z * list (titem V)) := t_draw (take_randrange a b) s.
Definition trng_new_seed {V} (s : list (titem V)) : result (Z * list (titem V)) := t_draw take_seed s.
(* optimize_layer_of_individual(individual, layer_id, evaluator, optimizer, seed) as a callee: the model's optimize_layer, repaired
   variant (its pure pieces are linked separately, lemmas link_opt_layer_head, _early, _tail) *)
Definition opt_layer_call {V} (veqb : V -> V -> bool) (x : individual V) (layer_id : Z) (s : list (titem V))
  : result ((individual V * Z) * list (titem V)) :=
  do r <- optimize_layer veqb false x layer_id s; Ok (fst r, snd r).
(* individual.get_layer_parameter_values(layer_id): `layer_id % len(layers)` raises for an individual without layers (C16Link) *)
Definition glpv_py {V} (x : individual V) (layer_id : Z) : result (list V) :=
  if Nat.eqb (length (i_layers x)) 0 then Err "ZeroDivisionError"%string else Ok (get_layer_parameter_values x layer_id).
(* qiskit's OptimizerResult: .x (the new parameter values) and .nfev (a numpy integer: int() makes it a Python int) *)
Record opt_result (V : Type) := mkOptRes { or_x : list V; or_nfev : Z }.
Arguments mkOptRes {V} _ _.
Arguments or_x {V} _.
Arguments or_nfev {V} _.
(* EVQEIndividual.add_random_layers(individual, n_layers=1, randomize_parameter_values=False, random_seed=seed): the model's
   topological_task covers exactly these arguments (the generated layer is an oracle item of the task log) *)
Definition add_random_layers_call {V} (zero : V) (x : individual V) (n_layers : Z) (randomize : bool) (seed : Z) (s : list (titem V))
  : result (individual V * list (titem V)) :=
  if (n_layers =? 1) && negb randomize then do r <- topological_task zero x seed s; Ok (fst (fst r), snd r)
  else Err OracleContract.

(* the model's nat-indexed population <-> the Python-level one *)
Definition of_hpop {V} (hp : @hpop V) : pypop V :=
  mkPy (h_inds hp) (h_reps hp)
       (option_map (map (fun rm => (fst rm, map Z.of_nat (snd rm)))) (h_members hp))
       (option_map (map (fun ir => (Z.of_nat (fst ir), snd ir))) (h_membership hp)).
Definition to_hpop {V} (p : pypop V) : @hpop V :=
  mkH (py_inds p) (py_reps p)
      (option_map (map (fun rm => (fst rm, map Z.to_nat (snd rm)))) (py_members p))
      (option_map (map (fun ir => (Z.to_nat (fst ir), snd ir))) (py_membership p)).

(* ------------------------------------------------------------------ PART 1 (checked lemmas) *)
Lemma to_of_hpop {V} (hp : @hpop V) : to_hpop (of_hpop hp) = hp.
Proof.
  destruct hp as [inds reps mem ms]. unfold to_hpop, of_hpop. cbn. f_equal.
  - destruct mem as [m|]; [|reflexivity]. cbn. f_equal. rewrite map_map.
    rewrite <- (map_id m) at 2. apply map_ext. intros [r l]. cbn. f_equal. rewrite map_map.
    rewrite <- (map_id l) at 2. apply map_ext. intros; apply Nat2Z.id.
  - destruct ms as [m|]; [|reflexivity]. cbn. f_equal. rewrite map_map.
    rewrite <- (map_id m) at 2. apply map_ext. intros [i r]. cbn. f_equal. apply Nat2Z.id.
Qed.
