(* Lemmas about the translator's vocabulary (PyPrelude.v) used by the link files coq/link/*.v. *)
From QV Require Import Translate.PyPrelude.
Open Scope Z_scope.

Lemma string_app_assoc (a b c : string) : ((a ++ b) ++ c)%string = (a ++ (b ++ c))%string.
Proof. induction a as [|ch a IH]; simpl; [reflexivity | now rewrite IH]. Qed.

Lemma py_len_eq0 {A} (l : list A) : (py_len l =? 0) = Nat.eqb (List.length l) 0.
Proof. unfold py_len. destruct l; reflexivity. Qed.

Lemma py_len_nonneg {A} (l : list A) : 0 <= py_len l.
Proof. unfold py_len. lia. Qed.

Lemma py_len_cons {A} (x : A) l : py_len (x :: l) = py_len l + 1.
Proof. unfold py_len. simpl List.length. lia. Qed.

Lemma py_len_app {A} (l1 l2 : list A) : py_len (l1 ++ l2) = py_len l1 + py_len l2.
Proof. unfold py_len. rewrite app_length. lia. Qed.

(* `if existsb c xs then false else true` *)
Lemma not_existsb_forallb {A} (f : A -> bool) l :
  (if existsb f l then false else true) = forallb (fun x => negb (f x)) l.
Proof. induction l as [|x t IH]; simpl; [reflexivity|]. destruct (f x); simpl; [reflexivity | exact IH]. Qed.

Lemma existsb_ext {A} (f g : A -> bool) l : (forall x, f x = g x) -> existsb f l = existsb g l.
Proof. intros H. induction l as [|x t IH]; simpl; [reflexivity | now rewrite H, IH]. Qed.

Lemma forallb_ext {A} (f g : A -> bool) l : (forall x, f x = g x) -> forallb f l = forallb g l.
Proof. intros H. induction l as [|x t IH]; simpl; [reflexivity | now rewrite H, IH]. Qed.

Lemma forallb_ext_in {A} (f g : A -> bool) l : (forall x, In x l -> f x = g x) -> forallb f l = forallb g l.
Proof.
  induction l as [|x t IH]; simpl; intros H; [reflexivity|].
  rewrite (H x (or_introl eq_refl)), IH; [reflexivity|]. intros y Hy. apply H. now right.
Qed.

Lemma mapM_ext {A B} (f g : A -> result B) l : (forall x, f x = g x) -> mapM f l = mapM g l.
Proof. intros H. induction l as [|x t IH]; simpl; [reflexivity | now rewrite H, IH]. Qed.

Lemma mapM_ext_in {A B} (f g : A -> result B) l : (forall x, In x l -> f x = g x) -> mapM f l = mapM g l.
Proof.
  induction l as [|x t IH]; simpl; intros H; [reflexivity|].
  rewrite (H x (or_introl eq_refl)), IH; [reflexivity|]. intros y Hy. apply H. now right.
Qed.

Lemma mapM_map {A B C} (f : B -> result C) (g : A -> B) l : mapM f (map g l) = mapM (fun x => f (g x)) l.
Proof. induction l as [|x t IH]; simpl; [reflexivity | now rewrite IH]. Qed.

(* sets as lists: len(set(l)) == len(l) says that l has no duplicates *)
Lemma py_dedup_length_le {A} (eqb : A -> A -> bool) l : (List.length (py_dedup eqb l) <= List.length l)%nat.
Proof. induction l as [|x t IH]; simpl; [lia|]. destruct (py_mem eqb x t); simpl; lia. Qed.

Lemma py_set_len_nodup_str l : Z.eqb (py_set_len String.eqb l) (py_len l) = nodup_str l.
Proof.
  unfold py_set_len, py_len. induction l as [|x t IH]; [reflexivity|].
  cbn [py_dedup nodup_str List.length]. change (py_mem String.eqb x t) with (mem_str x t).
  pose proof (py_dedup_length_le String.eqb t) as Hle.
  destruct (mem_str x t); cbn [negb andb].
  - apply Z.eqb_neq. lia.
  - cbn [List.length]. rewrite <- IH.
    destruct (Z.eqb_spec (Z.of_nat (List.length (py_dedup String.eqb t))) (Z.of_nat (List.length t)));
      [apply Z.eqb_eq | apply Z.eqb_neq]; lia.
Qed.

(* loops *)
Lemma py_foldM_unit_forallb {A} (ok : A -> bool) (e : string) (l : list A) :
  py_foldM (fun (_ : unit) x => if ok x then Ok tt else Err e) l tt = if forallb ok l then Ok tt else Err e.
Proof. induction l as [|x t IH]; simpl; [reflexivity|]. destruct (ok x); simpl; [exact IH | reflexivity]. Qed.

Lemma py_sum_Z_acc l a : fold_left Z.add l a = a + sumZ l.
Proof. revert a. induction l as [|x t IH]; intros a; simpl; [lia|]. rewrite IH. lia. Qed.

Lemma py_sum_Z_sumZ l : py_sum_Z l = sumZ l.
Proof. unfold py_sum_Z. rewrite py_sum_Z_acc. lia. Qed.

(* l[-1] *)
Lemma py_index_last {A} (l : list A) :
  py_index l (-1) = match l with [] => Err "IndexError"%string | _ => match nth_error l (List.length l - 1) with Some x => Ok x | None => Err "IndexError"%string end end.
Proof.
  unfold py_index, py_len. destruct l as [|x t]; [reflexivity|].
  cbn [List.length]. replace (-1 <? 0) with true by reflexivity.
  replace ((-1 + Z.of_nat (S (List.length t)) <? 0)) with false by (symmetry; apply Z.ltb_ge; lia).
  replace (Z.of_nat (S (List.length t)) <=? -1 + Z.of_nat (S (List.length t))) with false by (symmetry; apply Z.leb_gt; lia).
  cbn [orb]. replace (Z.to_nat (-1 + Z.of_nat (S (List.length t)))) with (S (List.length t) - 1)%nat by lia. reflexivity.
Qed.

(* l[-n:] for n >= 1 is the last n items (everything if there are fewer) *)
Lemma py_slice_last_n {A} (l : list A) (n : nat) : (1 <= n)%nat ->
  py_slice l (Some (- Z.of_nat n)) None = skipn (List.length l - n) l.
Proof.
  intros Hn. unfold py_slice, py_clamp, py_len.
  replace (- Z.of_nat n <? 0) with true by (symmetry; apply Z.ltb_lt; lia).
  set (L := List.length l).
  replace (Z.to_nat (Z.max 0 (- Z.of_nat n + Z.of_nat L))) with (L - n)%nat by lia.
  rewrite firstn_all2; [reflexivity|]. rewrite skipn_length. fold L. lia.
Qed.

Lemma py_foldM_ext_in {A S} (f g : S -> A -> result S) l : forall s,
  (forall s x, In x l -> f s x = g s x) -> py_foldM f l s = py_foldM g l s.
Proof.
  induction l as [|x t IH]; intros s H; [reflexivity|]. cbn [py_foldM].
  rewrite (H s x (or_introl eq_refl)). destruct (g s x); [|reflexivity]. apply IH. intros s' y Hy. apply H. now right.
Qed.

Lemma py_len_map {A B} (f : A -> B) l : py_len (map f l) = py_len l.
Proof. unfold py_len. now rewrite map_length. Qed.

Lemma py_set_len_map_nodup_str {A} (f : A -> string) l : Z.eqb (py_set_len String.eqb (map f l)) (py_len l) = nodup_str (map f l).
Proof. rewrite <- (py_len_map f l). apply py_set_len_nodup_str. Qed.
