(* Lemmas about the translator's vocabulary (PyPrelude.v) used by the link files coq/link/*.v. *)
From QV Require Import Translate.PyPrelude.
Open Scope Z_scope.

Lemma string_app_assoc (a b c : string) : ((a ++ b) ++ c)%string = (a ++ (b ++ c))%string.
Proof. induction a as [|ch a IH]; simpl; [reflexivity | now rewrite IH]. Qed.

Lemma py_len_eq0 {A} (l : list A) : (py_len l =? 0) = Nat.eqb (List.length l) 0.
Proof. unfold py_len. destruct l; reflexivity. Qed.

Lemma py_len_nonneg {A} (l : list A) : 0 <= py_len l.
Proof. unfold py_len. lia. Qed.

Lemma py_len_cons {A} (x : A) l : py_len (x :: l) = py_len l + 1.
Proof. unfold py_len. simpl List.length. lia. Qed.

Lemma py_len_app {A} (l1 l2 : list A) : py_len (l1 ++ l2) = py_len l1 + py_len l2.
Proof. unfold py_len. rewrite app_length. lia. Qed.

(* `if existsb c xs then false else true` *)
Lemma not_existsb_forallb {A} (f : A -> bool) l :
  (if existsb f l then false else true) = forallb (fun x => negb (f x)) l.
Proof. induction l as [|x t IH]; simpl; [reflexivity|]. destruct (f x); simpl; [reflexivity | exact IH]. Qed.

Lemma existsb_ext {A} (f g : A -> bool) l : (forall x, f x = g x) -> existsb f l = existsb g l.
Proof. intros H. induction l as [|x t IH]; simpl; [reflexivity | now rewrite H, IH]. Qed.

Lemma forallb_ext {A} (f g : A -> bool) l : (forall x, f x = g x) -> forallb f l = forallb g l.
Proof. intros H. induction l as [|x t IH]; simpl; [reflexivity | now rewrite H, IH]. Qed.

Lemma forallb_ext_in {A} (f g : A -> bool) l : (forall x, In x l -> f x = g x) -> forallb f l = forallb g l.
Proof.
  induction l as [|x t IH]; simpl; intros H; [reflexivity|].
  rewrite (H x (or_introl eq_refl)), IH; [reflexivity|]. intros y Hy. apply H. now right.
Qed.

Lemma mapM_ext {A B} (f g : A -> result B) l : (forall x, f x = g x) -> mapM f l = mapM g l.
Proof. intros H. induction l as [|x t IH]; simpl; [reflexivity | now rewrite H, IH]. Qed.

Lemma mapM_ext_in {A B} (f g : A -> result B) l : (forall x, In x l -> f x = g x) -> mapM f l = mapM g l.
Proof.
  induction l as [|x t IH]; simpl; intros H; [reflexivity|].
  rewrite (H x (or_introl eq_refl)), IH; [reflexivity|]. intros y Hy. apply H. now right.
Qed.

Lemma mapM_map {A B C} (f : B -> result C) (g : A -> B) l : mapM f (map g l) = mapM (fun x => f (g x)) l.
Proof. induction l as [|x t IH]; simpl; [reflexivity | now rewrite IH]. Qed.

(* sets as lists: len(set(l)) == len(l) says that l has no duplicates *)
Lemma py_dedup_length_le {A} (eqb : A -> A -> bool) l : (List.length (py_dedup eqb l) <= List.length l)%nat.
Proof. induction l as [|x t IH]; simpl; [lia|]. destruct (py_mem eqb x t); simpl; lia. Qed.

Lemma py_set_len_nodup_str l : Z.eqb (py_set_len String.eqb l) (py_len l) = nodup_str l.
Proof.
  unfold py_set_len, py_len. induction l as [|x t IH]; [reflexivity|].
  cbn [py_dedup nodup_str List.length]. change (py_mem String.eqb x t) with (mem_str x t).
  pose proof (py_dedup_length_le String.eqb t) as Hle.
  destruct (mem_str x t); cbn [negb andb].
  - apply Z.eqb_neq. lia.
  - cbn [List.length]. rewrite <- IH.
    destruct (Z.eqb_spec (Z.of_nat (List.length (py_dedup String.eqb t))) (Z.of_nat (List.length t)));
      [apply Z.eqb_eq | apply Z.eqb_neq]; lia.
Qed.

(* loops *)
Lemma py_foldM_unit_forallb {A} (ok : A -> bool) (e : string) (l : list A) :
  py_foldM (fun (_ : unit) x => if ok x then Ok tt else Err e) l tt = if forallb ok l then Ok tt else Err e.
Proof. induction l as [|x t IH]; simpl; [reflexivity|]. destruct (ok x); simpl; [exact IH | reflexivity]. Qed.

Lemma py_sum_Z_acc l a : fold_left Z.add l a = a + sumZ l.
Proof. revert a. induction l as [|x t IH]; intros a; simpl; [lia|]. rewrite IH. lia. Qed.

Lemma py_sum_Z_sumZ l : py_sum_Z l = sumZ l.
Proof. unfold py_sum_Z. rewrite py_sum_Z_acc. lia. Qed.

(* l[-1] *)
Lemma py_index_last {A} (l : list A) :
  py_index l (-1) = match l with [] => Err "IndexError"%string | _ => match nth_error l (List.length l - 1) with Some x => Ok x | None => Err "IndexError"%string end end.
Proof.
  unfold py_index, py_len. destruct l as [|x t]; [reflexivity|].
  cbn [List.length]. replace (-1 <? 0) with true by reflexivity.
  replace ((-1 + Z.of_nat (S (List.length t)) <? 0)) with false by (symmetry; apply Z.ltb_ge; lia).
  replace (Z.of_nat (S (List.length t)) <=? -1 + Z.of_nat (S (List.length t))) with false by (symmetry; apply Z.leb_gt; lia).
  cbn [orb]. replace (Z.to_nat (-1 + Z.of_nat (S (List.length t)))) with (S (List.length t) - 1)%nat by lia. reflexivity.
Qed.

(* l[-n:] for n >= 1 is the last n items (everything if there are fewer) *)
Lemma py_slice_last_n {A} (l : list A) (n : nat) : (1 <= n)%nat ->
  py_slice l (Some (- Z.of_nat n)) None = skipn (List.length l - n) l.
Proof.
  intros Hn. unfold py_slice, py_clamp, py_len.
  replace (- Z.of_nat n <? 0) with true by (symmetry; apply Z.ltb_lt; lia).
  set (L := List.length l).
  replace (Z.to_nat (Z.max 0 (- Z.of_nat n + Z.of_nat L))) with (L - n)%nat by lia.
  rewrite firstn_all2; [reflexivity|]. rewrite skipn_length. fold L. lia.
Qed.

Lemma py_foldM_ext_in {A S} (f g : S -> A -> result S) l : forall s,
  (forall s x, In x l -> f s x = g s x) -> py_foldM f l s = py_foldM g l s.
Proof.
  induction l as [|x t IH]; intros s H; [reflexivity|]. cbn [py_foldM].
  rewrite (H s x (or_introl eq_refl)). destruct (g s x); [|reflexivity]. apply IH. intros s' y Hy. apply H. now right.
Qed.

Lemma py_len_map {A B} (f : A -> B) l : py_len (map f l) = py_len l.
Proof. unfold py_len. now rewrite map_length. Qed.

Lemma py_set_len_map_nodup_str {A} (f : A -> string) l : Z.eqb (py_set_len String.eqb (map f l)) (py_len l) = nodup_str (map f l).
Proof. rewrite <- (py_len_map f l). apply py_set_len_nodup_str. Qed.

(* ---- binary rendering (py_format_bin_zfill / py_format_bin_fspec, idiom format-bin-zfill) *)
Lemma py_str_len_app (a b : string) : py_str_len (a ++ b)%string = py_str_len a + py_str_len b.
Proof. unfold py_str_len. induction a as [|c a IH]; cbn [append String.length]; [lia|]. rewrite !Nat2Z.inj_succ, IH. lia. Qed.

Lemma py_str_len_zeros n : py_str_len (py_zeros n) = Z.of_nat n.
Proof. unfold py_str_len. induction n as [|n IH]; cbn [py_zeros String.length]; [reflexivity|]. now rewrite !Nat2Z.inj_succ, IH. Qed.

(* at least one digit *)
Lemma py_bin_digits_len_pos k : 1 <= py_str_len (py_bin_digits k).
Proof.
  assert (P : forall p, 1 <= py_str_len (py_bin_digits_pos p)).
  { induction p as [p IH|p IH|]; cbn [py_bin_digits_pos]; rewrite ?py_str_len_app; [| |unfold py_str_len; simpl; lia];
      unfold py_str_len at 2; simpl; lia. }
  destruct k; cbn [py_bin_digits]; [unfold py_str_len; simpl; lia|apply P|apply P].
Qed.

(* k >= 0: no sign, the digits behind the padding *)
Lemma py_format_bin_zfill_nonneg k n : 0 <= k ->
  py_format_bin_zfill k n = (py_zeros (Z.to_nat (n - py_str_len (py_bin_digits k))) ++ py_bin_digits k)%string.
Proof.
  intros Hk. unfold py_format_bin_zfill. replace (k <? 0) with false by (symmetry; apply Z.ltb_ge; exact Hk).
  cbn [append]. change (py_str_len EmptyString) with 0. now rewrite Z.sub_0_r.
Qed.

(* the length of the rendering: n, unless sign and digits need more *)
Lemma py_str_len_format_bin_zfill k n :
  py_str_len (py_format_bin_zfill k n) = Z.max n ((if k <? 0 then 1 else 0) + py_str_len (py_bin_digits k)).
Proof.
  unfold py_format_bin_zfill. rewrite !py_str_len_app, py_str_len_zeros.
  destruct (k <? 0); [change (py_str_len "-") with 1|change (py_str_len EmptyString) with 0]; lia.
Qed.

Lemma py_format_bin_fspec_nonneg k n : 0 <= n -> py_format_bin_fspec k n = Ok (py_format_bin_zfill k n).
Proof. intros Hn. unfold py_format_bin_fspec. now replace (n <? 0) with false by (symmetry; apply Z.ltb_ge; exact Hn). Qed.

(* ---- a dict comprehension {k: v for ...} is the py_dict_set fold over its pairs; with pairwise different keys (the earlier key on
   the left of eqb, as py_dict_set tests it) nothing is merged: the fold is the list of pairs itself *)
Fixpoint py_keys_distinct {K} (eqb : K -> K -> bool) (l : list K) : Prop :=
  match l with
  | [] => True
  | k :: r => (forall k', In k' r -> eqb k k' = false) /\ py_keys_distinct eqb r
  end.

Lemma py_dict_set_fresh {K V} (eqb : K -> K -> bool) (d : list (K * V)) k v :
  (forall k', In k' (map fst d) -> eqb k' k = false) -> py_dict_set eqb d k v = d ++ [(k, v)].
Proof.
  induction d as [|[k0 v0] r IH]; intros H; cbn [py_dict_set app fst]; [reflexivity|].
  rewrite (H k0 (or_introl eq_refl)). rewrite IH; [reflexivity|]. intros k' Hk'. apply H. now right.
Qed.

Lemma py_keys_distinct_snoc {K} (eqb : K -> K -> bool) (a : list K) k r :
  py_keys_distinct eqb (a ++ k :: r) -> (forall k', In k' a -> eqb k' k = false) /\ py_keys_distinct eqb ((a ++ [k]) ++ r).
Proof. rewrite <- app_assoc. cbn [app]. intros H. split; [|exact H]. induction a as [|x a IH]; [intros k' []|].
  cbn [app py_keys_distinct] in H. destruct H as [Hx Ha]. intros k' [<-|Hin]; [apply Hx; apply in_or_app; right; now left|exact (IH Ha k' Hin)].
Qed.

Lemma py_dict_fold_distinct {K V} (eqb : K -> K -> bool) (l : list (K * V)) : forall acc,
  py_keys_distinct eqb (map fst acc ++ map fst l) ->
  fold_left (fun d_ kv_ => py_dict_set eqb d_ (fst kv_) (snd kv_)) l acc = acc ++ l.
Proof.
  induction l as [|[k v] r IH]; intros acc H; cbn [fold_left fst snd]; [now rewrite app_nil_r|].
  cbn [map fst] in H. destruct (py_keys_distinct_snoc eqb _ _ _ H) as [Hf Hd].
  rewrite (py_dict_set_fresh eqb acc k v Hf), IH; [now rewrite <- app_assoc|]. rewrite map_app. exact Hd.
Qed.
