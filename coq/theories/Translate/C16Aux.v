(* C16 translation tie: the Gallina reading of EVQEIndividual.layer_parameter_indices (the dict that
   EVQEIndividual.__post_init__ stores) used by translator/specs/c16.py, and the facts about it that
   coq/link/C16Link.v needs.  The link lemma link_Individual_post_init proves that the TRANSLATED __post_init__
   computes exactly `lpi_of`. *)
From QV Require Import Translate.PyPrelude Translate.PyPrelude_proofs Evqe.Genome Evqe.GenomeFacts Evqe.GenomeOps_proofs.
Open Scope Z_scope.

(* {k: tuple(range(off_k, off_k + n_k))} for the layers from position k on, off = number of parameters before *)
Fixpoint lpi_from (k off : Z) (ls : list layer) : list (Z * list Z) :=
  match ls with
  | [] => []
  | l :: t => (k, PyPrelude.py_range off (off + layer_n_parameters l)) :: lpi_from (k + 1) (off + layer_n_parameters l) t
  end.
Definition lpi_of (ls : list layer) : list (Z * list Z) := lpi_from 0 0 ls.
