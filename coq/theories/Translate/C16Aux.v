(* C16 translation tie: the Gallina reading of EVQEIndividual.layer_parameter_indices (the dict that
   EVQEIndividual.__post_init__ stores) used by translator/specs/c16.py, and the facts about it that
   coq/link/C16Link.v needs.  The link lemma link_Individual_post_init proves that the TRANSLATED __post_init__
   computes exactly `lpi_of`. *)
From QV Require Import Translate.PyPrelude Translate.PyPrelude_proofs Evqe.Genome Evqe.GenomeFacts Evqe.GenomeOps_proofs.
Open Scope Z_scope.

(* {k: tuple(range(off_k, off_k + n_k))} for the layers from position k on, off = number of parameters before *)
Fixpoint lpi_from (k off : Z) (ls : list layer) : list (Z * list Z) :=
  match ls with
  | [] => []
  | l :: t => (k, PyPrelude.py_range off (off + layer_n_parameters l)) :: lpi_from (k + 1) (off + layer_n_parameters l) t
  end.
Definition lpi_of (ls : list layer) : list (Z * list Z) := lpi_from 0 0 ls.

(* the instance attribute that EVQEIndividual.__post_init__ assigns (state record of the translated constructor) *)
Record ind_cache := mkIndCache { c_lpi : list (Z * list Z) }.

(* ------------------------------------------------------------------ generic: ranges, enumerate, filters *)
Lemma py_filterM_total {A} (c : A -> result bool) (p : A -> bool) l :
  (forall x, c x = Ok (p x)) -> py_filterM c l = Ok (filter p l).
Proof. intros H. induction l as [|x t IH]; [reflexivity|]. cbn [py_filterM filter]. rewrite H, IH. cbn [bind]. destruct (p x); reflexivity. Qed.

Lemma py_range_nat (a c : nat) :
  PyPrelude.py_range (Z.of_nat a) (Z.of_nat a + Z.of_nat c) = map Z.of_nat (seq a c).
Proof.
  unfold PyPrelude.py_range. replace (Z.to_nat (Z.of_nat a + Z.of_nat c - Z.of_nat a)) with c by lia.
  assert (G : forall s, map (fun k => Z.of_nat a + Z.of_nat k) (seq s c) = map Z.of_nat (seq (a + s) c)).
  { induction c as [|c IH]; intros s; [reflexivity|]. cbn [seq map]. f_equal; [lia|]. rewrite IH. f_equal. f_equal. lia. }
  rewrite G, Nat.add_0_r. reflexivity.
Qed.

Lemma py_len_range_nat (a c : nat) : py_len (PyPrelude.py_range (Z.of_nat a) (Z.of_nat a + Z.of_nat c)) = Z.of_nat c.
Proof. rewrite py_range_nat. unfold py_len. rewrite map_length, seq_length. reflexivity. Qed.

Lemma mem_range_nat (a c j : nat) :
  py_mem Z.eqb (Z.of_nat j) (map Z.of_nat (seq a c)) = (Nat.leb a j && Nat.ltb j (a + c))%bool.
Proof.
  unfold py_mem. apply eq_true_iff_eq. rewrite existsb_exists, andb_true_iff, Nat.leb_le, Nat.ltb_lt. split.
  - intros [x [Hin He]]. apply in_map_iff in Hin as [m [<- Hm]]. apply in_seq in Hm. apply Z.eqb_eq in He. lia.
  - intros [H1 H2]. exists (Z.of_nat j). split; [|apply Z.eqb_refl]. apply in_map. apply in_seq. lia.
Qed.

(* the items of l whose position lies in [o, o + c), positions counted from s *)
Lemma window_filter {A} (l : list A) : forall s o c,
  map snd (filter (fun p : Z * A => py_mem Z.eqb (fst p) (map Z.of_nat (seq o c))) (combine (map Z.of_nat (seq s (length l))) l))
  = firstn (o + c - Nat.max o s) (skipn (o - s) l).
Proof.
  induction l as [|x t IH]; intros s o c.
  - rewrite skipn_nil, firstn_nil. reflexivity.
  - cbn [length seq map combine filter fst]. rewrite mem_range_nat.
    destruct (Nat.leb_spec o s) as [H1|H1]; cbn [andb].
    + replace (o - s)%nat with O by lia. cbn [skipn].
      destruct (Nat.ltb_spec s (o + c)) as [H2|H2].
      * cbn [map snd]. rewrite IH. replace (o - S s)%nat with O by lia. cbn [skipn].
        replace (o + c - Nat.max o s)%nat with (S (o + c - Nat.max o (S s))) by lia. reflexivity.
      * rewrite IH. replace (o + c - Nat.max o (S s))%nat with O by lia. replace (o + c - Nat.max o s)%nat with O by lia. reflexivity.
    + rewrite IH. replace (o - s)%nat with (S (o - S s)) by lia. cbn [skipn]. do 2 f_equal. lia.
Qed.

Lemma enumerate_window {A} (l : list A) (o c : nat) :
  map (fun p : Z * A => let '(_, v) := p in v)
      (filter (fun p : Z * A => let '(k, _) := p in py_mem Z.eqb k (PyPrelude.py_range (Z.of_nat o) (Z.of_nat o + Z.of_nat c))) (py_enumerate l))
  = firstn c (skipn o l).
Proof.
  rewrite py_range_nat. unfold py_enumerate.
  rewrite (map_ext _ snd) by (intros [? ?]; reflexivity).
  rewrite (filter_ext _ (fun p : Z * A => py_mem Z.eqb (fst p) (map Z.of_nat (seq o c)))) by (intros [? ?]; reflexivity).
  rewrite window_filter. rewrite Nat.sub_0_r. f_equal. lia.
Qed.

(* [l[i] for i in range(o, o + c)] inside the list *)
Lemma mapM_index_range {A} (l : list A) (o c : nat) : (o + c <= length l)%nat ->
  mapM (fun k => do it <- PyPrelude.py_index l k; Ok it) (map Z.of_nat (seq o c)) = Ok (firstn c (skipn o l)).
Proof.
  revert o. induction c as [|c IH]; intros o H; [reflexivity|].
  cbn [seq map mapM]. change (PyPrelude.py_index l (Z.of_nat o)) with (Genome.py_index l (Z.of_nat o)). rewrite py_index_nat.
  destruct (nth_error l o) as [x|] eqn:E; [|apply nth_error_None in E; lia].
  cbn [bind]. rewrite IH by lia. cbn [bind].
  assert (S : skipn o l = x :: skipn (S o) l).
  { clear -E. revert o E. induction l as [|y t IH]; intros [|o] E; simpl in E; try discriminate; [inversion E; reflexivity | exact (IH o E)]. }
  rewrite S. reflexivity.
Qed.

(* ------------------------------------------------------------------ layer_parameter_indices *)
Lemma lpi_from_get ls : forall k0 off k l, nth_error ls k = Some l ->
  py_dict_get Z.eqb (lpi_from k0 off ls) (k0 + Z.of_nat k)
  = Ok (PyPrelude.py_range (off + n_params_of (firstn k ls)) (off + n_params_of (firstn k ls) + layer_n_parameters l)).
Proof.
  induction ls as [|x t IH]; intros k0 off k l H; [destruct k; discriminate|].
  destruct k as [|k]; cbn [nth_error] in H.
  - inversion H; subst. unfold py_dict_get. cbn [lpi_from find fst snd]. rewrite Z.add_0_r, Z.eqb_refl.
    cbn [firstn]. unfold n_params_of at 1 2. cbn [map sumZ fold_right]. rewrite !Z.add_0_r. reflexivity.
  - unfold py_dict_get. cbn [lpi_from find fst].
    replace (k0 =? k0 + Z.of_nat (S k)) with false by (symmetry; apply Z.eqb_neq; lia).
    fold (py_dict_get Z.eqb (lpi_from (k0 + 1) (off + layer_n_parameters x) t) (k0 + Z.of_nat (S k))).
    replace (k0 + Z.of_nat (S k)) with (k0 + 1 + Z.of_nat k) by lia.
    rewrite (IH _ _ k l H). cbn [firstn]. rewrite n_params_of_cons. f_equal. f_equal; lia.
Qed.

Lemma lpi_get ls k : (k < length ls)%nat ->
  py_dict_get Z.eqb (lpi_of ls) (Z.of_nat k)
  = Ok (PyPrelude.py_range (Z.of_nat (layer_offset ls k)) (Z.of_nat (layer_offset ls k) + Z.of_nat (layer_count ls k))).
Proof.
  intros H. destruct (nth_error ls k) as [l|] eqn:E; [|apply nth_error_None in E; lia].
  unfold lpi_of. rewrite <- (Z.add_0_l (Z.of_nat k)). rewrite (lpi_from_get ls 0 0 k l E).
  unfold layer_offset, layer_count. rewrite E.
  pose proof (n_params_of_nonneg (firstn k ls)). pose proof (layer_n_parameters_nonneg l).
  rewrite !Z2Nat.id by lia. rewrite !Z.add_0_l. reflexivity.
Qed.

(* ------------------------------------------------------------------ the value tuple as the concatenation of the layers' slices *)
Lemma layer_offset_S ls k : (k < length ls)%nat -> layer_offset ls (S k) = (layer_offset ls k + layer_count ls k)%nat.
Proof.
  intros H. destruct (nth_error ls k) as [l|] eqn:E; [|apply nth_error_None in E; lia].
  unfold layer_offset, layer_count. rewrite E, (n_params_firstn_S k ls l E).
  pose proof (n_params_of_nonneg (firstn k ls)). pose proof (layer_n_parameters_nonneg l). lia.
Qed.

Lemma firstn_add_skipn {A} (l : list A) a c : firstn a l ++ firstn c (skipn a l) = firstn (a + c) l.
Proof.
  revert l. induction a as [|a IH]; intros l; [reflexivity|]. destruct l as [|x t]; [rewrite !firstn_nil; reflexivity|].
  cbn [firstn skipn Nat.add app]. rewrite IH. reflexivity.
Qed.

Lemma slices_concat {V} (i : individual V) : forall m a, (a + m <= length (i_layers i))%nat ->
  concat (map (layer_values i) (seq a m))
  = firstn (layer_offset (i_layers i) (a + m) - layer_offset (i_layers i) a) (skipn (layer_offset (i_layers i) a) (i_values i)).
Proof.
  induction m as [|m IH]; intros a H.
  - rewrite Nat.add_0_r, Nat.sub_diag. reflexivity.
  - rewrite seq_S, map_app, concat_app, IH by lia. cbn [map concat]. rewrite app_nil_r.
    unfold layer_values at 1.
    replace (a + S m)%nat with (S (a + m)) by lia. rewrite (layer_offset_S (i_layers i) (a + m)) by lia.
    assert (M : (layer_offset (i_layers i) a <= layer_offset (i_layers i) (a + m))%nat).
    { unfold layer_offset. pose proof (firstn_mono_params a (a + m) (i_layers i) ltac:(lia)). lia. }
    set (oa := layer_offset (i_layers i) a) in *. set (om := layer_offset (i_layers i) (a + m)) in *.
    set (c := layer_count (i_layers i) (a + m)).
    replace (skipn om (i_values i)) with (skipn (om - oa) (skipn oa (i_values i)))
      by (rewrite skipn_skipn_local; f_equal; lia).
    rewrite firstn_add_skipn. f_equal. lia.
Qed.

(* ================================================================== gates and layers (circuit_layer.py, quantum_gate.py)
   TRUSTED representation used by the generated code: a gate object is a value of the model's `gate`, its class is the
   constructor (IdentityGate = GId, RotationGate = GRot, ControlGate = GCtrl, ControlledRotationGate = GCRot; the
   abstract ControlledGate has the single concrete subclass ControlledRotationGate).  `qubit_index` = gate_qubit;
   the field `control_qubit_index` exists on ControlledGate objects only, `controlled_qubit_index` on ControlGate
   objects only: reading them on another class raises AttributeError. *)
Definition is_control (g : gate) : bool := match g with GCtrl _ _ => true | _ => false end.
Definition gate_control_qubit_index (g : gate) : result Z :=
  match g with GCRot _ c => Ok c | _ => Err "AttributeError"%string end.
Definition gate_controlled_qubit_index (g : gate) : result Z :=
  match g with GCtrl _ t => Ok t | _ => Err "AttributeError"%string end.
(* the two instance attributes that EVQECircuitLayer.__post_init__ assigns (state record of the translated constructor) *)
Record layer_cache := mkLayerCache { lc_n_parameters : Z; lc_n_controlled : Z }.

(* ------------------------------------------------------------------ checked lemmas *)
Definition ctl_of_valid (r : result bool) : result (ctl bool unit) :=
  match r with Ok true => Ok (Next tt) | Ok false => Ok (Ret false) | Err e => Err e end.

(* the loop of EVQECircuitLayer.is_valid from position s on, for ANY loop body that treats one (index, gate) pair like
   the model's gate_valid_at *)
Lemma layer_valid_loop (gates : list gate) (body : Z * gate -> unit -> result (ctl bool unit)) :
  (forall idx g, body (idx, g) tt = ctl_of_valid (gate_valid_at gates idx g)) ->
  forall (t : list gate) s,
  py_for (combine (map Z.of_nat (seq s (length t))) t) body tt = ctl_of_valid (gates_valid_from gates (Z.of_nat s) t).
Proof.
  intros H. induction t as [|g t IH]; intros s; [reflexivity|].
  cbn [length seq map combine py_for gates_valid_from]. rewrite H.
  destruct (gate_valid_at gates (Z.of_nat s) g) as [[|]|e]; cbn [ctl_of_valid bind]; [|reflexivity|reflexivity].
  rewrite IH. replace (Z.of_nat (S s)) with (Z.of_nat s + 1) by lia. reflexivity.
Qed.

Lemma sum_ones {A} (l : list A) : py_sum_Z (map (fun _ => 1) l) = Z.of_nat (length l).
Proof.
  rewrite py_sum_Z_sumZ. induction l as [|x t IH]; [reflexivity|]. cbn [map sumZ fold_right length] in *.
  rewrite Nat2Z.inj_succ. unfold sumZ in *. cbn [fold_right]. lia.
Qed.
