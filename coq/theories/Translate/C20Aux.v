(* C20 translation tie (translator/specs/c20.py, coq/link/C20Link.v).
   PART 0 is TRUSTED data representation used by the generated code (build/gen*/QVGen/C20Gen.v): the enum
   EVQEGateType, `gate.gate_type()`, and what the methods of a random.Random object mean on the explicit decision stream
   of Evqe/Stream.v (idiom rng-as-decision-stream): each is the draw function of Stream.v followed by the selection of
   the drawn positions from the argument sequence.  Definitions only in PART 0; PART 1 are checked lemmas. *)
From QV Require Import Evqe.Genome Evqe.Stream.
From QV Require Import Translate.PyPrelude.
Open Scope Z_scope.

(* ------------------------------------------------------------------ PART 0 (trusted representation) *)
(* quantum_gate.py: class EVQEGateType(Enum) — IDENTITY, ROTATION, CONTROL, CONTROLLED_ROTATION; == is identity of members *)
Inductive gate_type := TId | TRot | TCtrl | TCRot.
Definition gate_type_eqb (a b : gate_type) : bool :=
  match a, b with TId, TId | TRot, TRot | TCtrl, TCtrl | TCRot, TCRot => true | _, _ => false end.
(* IdentityGate/RotationGate/ControlGate/ControlledRotationGate.gate_type() *)
Definition gate_type_of (g : gate) : gate_type :=
  match g with GId _ => TId | GRot _ => TRot | GCtrl _ _ => TCtrl | GCRot _ _ => TCRot end.

(* seq[i] for a drawn position i (positions are checked against len(seq) by the draw functions) *)
Definition rng_nth {A} (xs : list A) (i : nat) : result A :=
  match nth_error xs i with Some x => Ok x | None => Err "IndexError"%string end.

(* Random(seed): logged construction; the object itself is stateless here (unit) *)
Definition rng_new (seed : option Z) (s : stream) : result (unit * stream) :=
  do s' <- draw_seed seed s; Ok (tt, s').
(* g.choice(seq) *)
Definition rng_choice {A} (xs : list A) (s : stream) : result (A * stream) :=
  do d <- draw_choice (length xs) s; do x <- rng_nth xs (fst d); Ok (x, snd d).
(* g.sample(population, k): the items at the k drawn positions, in drawn order; ValueError for k < 0 as for k > len *)
Definition rng_sample {A} (xs : list A) (k : Z) (s : stream) : result (list A * stream) :=
  if k <? 0 then Err "ValueError"%string
  else do d <- draw_sample (length xs) (Z.to_nat k) s; do ys <- mapM (rng_nth xs) (fst d); Ok (ys, snd d).
(* g.randint(a, b) *)
Definition rng_randint (a b : Z) (s : stream) : result (Z * stream) := draw_randint a b s.
(* g.random(): the stream carries an opaque token; `rnd` turns it into the float representation V *)
Definition rng_random {V} (rnd : Z -> V) (s : stream) : result (V * stream) :=
  do d <- draw_random s; Ok (rnd (fst d), snd d).
