(* C17 — static part of the translation tie for queasars/minimum_eigensolvers/evqe/evqe.py
   (spec translator/specs/c17.py, link coq/link/C17Link.v; the generated module build/gen*/QVGen/C17Gen.v imports this).

   PART 0 is TRUSTED data representation: which Gallina value stands for which Python object in the generated code.
   PART 1 is a hand-written model of the configuration checks (EVQEMinimumEigensolverConfiguration.__post_init__) and
          of what __init__ hands to the operators, written independently of the generated text; the link lemmas prove
          the generated definitions equal to it / to Repro/Seeding.v.
   PART 2 are checked lemmas (no trust): what a valid configuration gives the models of Repro/Seeding.v and
          Evqe/Selection.v.  Nothing here is an axiom. *)
From QV Require Export Repro.Seeding.
From QV Require Repro.Compose.      (* Evqe/Heap.v operator descriptors, ecfg / evqe_ops / c_config of the composed model *)
Open Scope Z_scope.

(* ================================================================== PART 0: data representation (trusted) *)

(* EVQEMinimumEigensolverConfiguration: the fields that evqe.py itself reads as VALUES.  The estimator, sampler,
   pass manager, optimizer, executor are opaque objects that are only passed on (type unit in the spec);
   of the termination criterion only its presence is read. *)
Record evqe_config := mkEC {
  ec_max_generations : option Z;
  ec_max_circuit_evaluations : option Z;
  ec_termination_criterion : option unit;
  ec_random_seed : option Z;
  ec_population_size : Z;
  ec_speciation_threshold : Z;              (* speciation_genetic_distance_threshold *)
  ec_alpha : Q;                             (* selection_alpha_penalty *)
  ec_beta : Q;                              (* selection_beta_penalty *)
  ec_p_param : Q;                           (* parameter_search_probability *)
  ec_p_topo : Q;                            (* topological_search_probability *)
  ec_p_remove : Q;                          (* layer_removal_probability *)
  ec_n_initial_layers : Z;
  ec_use_tournament : bool;                 (* use_tournament_selection *)
  ec_tournament_size : option Z;
  ec_randomize : bool;                      (* randomize_initial_population_parameters *)
  ec_optimizer_evals : option Z;            (* optimizer_n_circuit_evaluations *)
  ec_parallel_executor : option unit;       (* only its presence is read *)
  ec_mutex : bool;                          (* mutually_exclusive_primitives *)
  ec_alpha_tail : Q }.                      (* distribution_alpha_tail *)

(* A random.Random object is read as the decisions it will still make (Evqe/Stream.v), its construction included.
   The solver object's only assigned attribute in the translated code is self.random_generator. *)
Record solver_state := mkSolver { sv_rng : stream }.

(* Random(seed): `fresh` is the stream of the generator constructed here (an input of the translated fragment) *)
Definition rng_construct (seed : option Z) (fresh : stream) : result stream := draw_seed seed fresh.

(* new_random_seed(random_generator=g) where g is the object stored in self.random_generator: g draws
   randint(0, 2^31-1) (queasars/utility/random.py = Stream.new_random_seed) and, being the same object, the
   attribute afterwards holds the advanced generator *)
Definition rng_new_seed (g : stream) (st : solver_state) : result (Z * solver_state) :=
  do a <- new_random_seed g; Ok (fst a, mkSolver (snd a)).

(* An operator object handed to the base solver: the operator descriptor of Evqe/Heap.v (what the operator computes),
   the optimizer_n_circuit_evaluations it was given (None for the operators without optimiser; read by
   get_n_expected_circuit_evaluations = Compose.estimate), the component of Repro/Seeding.v (which generator of the run it
   owns) and the seed it was given.  The optimizer object itself is opaque and dropped. *)
Definition opdesc : Type := ((QV.Evqe.Heap.op * option Z) * (component * Z))%type.

Definition sel_tournament (use : bool) (size : option Z) : option nat :=
  if use then option_map Z.to_nat size else None.

Definition mk_last_layer_search (prob : Q) (n_evals : option Z) (seed : Z) : opdesc :=
  ((QV.Evqe.Heap.OMutation QV.Evqe.Mutation.MLastLayer prob, n_evals), (CLastLayer, seed)).
Definition mk_speciation (threshold : Z) (seed : Z) : opdesc :=
  ((QV.Evqe.Heap.OSpeciation threshold, None), (CSpeciation, seed)).
Definition mk_selection (alpha beta : Q) (use : bool) (size : option Z) (seed : Z) : opdesc :=
  ((QV.Evqe.Heap.OSelection (QV.Evqe.Selection.mkSel alpha beta (sel_tournament use size)), None), (CSelection, seed)).
Definition mk_parameter_search (prob : Q) (n_evals : option Z) (seed : Z) : opdesc :=
  ((QV.Evqe.Heap.OMutation QV.Evqe.Mutation.MParamSearch prob, n_evals), (CParamSearch, seed)).
Definition mk_topological_search (prob : Q) (seed : Z) : opdesc :=
  ((QV.Evqe.Heap.OMutation QV.Evqe.Mutation.MTopological prob, None), (CTopological, seed)).
Definition mk_layer_removal (prob : Q) (seed : Z) : opdesc :=
  ((QV.Evqe.Heap.OMutation QV.Evqe.Mutation.MLayerRemoval prob, None), (CLayerRemoval, seed)).

(* EVQEPopulation.random_population(n_qubits, n_layers, n_individuals, randomize_parameter_values, random_seed):
   the call is recorded, not executed (its model is Evqe/RandLayer.random_population, tied by C20) *)
Record pop_request := mkPopReq {
  pr_qubits : Z; pr_layers : Z; pr_individuals : Z; pr_randomize : bool; pr_seed : Z }.

(* the executor handed to the base solver: ThreadPoolExecutor(max_workers=n) built by __init__, or the configured one *)
Inductive executor_desc := ThreadPool (max_workers : Z) | GivenExecutor.
Definition given_executor (o : option unit) : option executor_desc := option_map (fun _ => GivenExecutor) o.

(* EvolvingAnsatzMinimumEigensolverConfiguration(...) as built by __init__: the value fields; the population initializer
   (the lambda), estimator, sampler and pass manager are opaque and only passed on *)
Record base_config := mkBase {
  bc_ops : list opdesc;                     (* evolutionary_operators *)
  bc_max_generations : option Z;
  bc_max_evals : option Z;                  (* max_circuit_evaluations *)
  bc_criterion : option unit;               (* termination_criterion *)
  bc_executor : option executor_desc;       (* parallel_executor (never None) *)
  bc_mutex : bool;                          (* mutually_exclusive_primitives *)
  bc_alpha_tail : Q }.                      (* distribution_alpha_tail *)

(* ================================================================== PART 1: hand-written model *)

Definition is_some {A} (o : option A) : bool := match o with Some _ => true | None => false end.

Definition prob_ok (p : Q) : bool := Qle_bool 0 p && Qle_bool p 1.

(* tournament selection needs a size between 1 and the population size *)
Definition tournament_ok (c : evqe_config) : bool :=
  if ec_use_tournament c then
    match ec_tournament_size c with
    | None => false
    | Some t => (1 <=? t) && (t <=? ec_population_size c)
    end
  else true.

(* EVQEMinimumEigensolverConfiguration.__post_init__ accepts exactly these configurations (else ValueError) *)
Definition config_ok (c : evqe_config) : bool :=
  (is_some (ec_max_generations c) || is_some (ec_max_circuit_evaluations c) || is_some (ec_termination_criterion c))
  && prob_ok (ec_p_param c) && prob_ok (ec_p_topo c) && prob_ok (ec_p_remove c)
  && (1 <=? ec_n_initial_layers c)
  && tournament_ok c.

(* the operators of one generation in application order, as Evqe/Heap.v describes them *)
Definition model_ops (c : evqe_config) : list QV.Evqe.Heap.op :=
  [ QV.Evqe.Heap.OMutation QV.Evqe.Mutation.MLastLayer 1;
    QV.Evqe.Heap.OSpeciation (ec_speciation_threshold c);
    QV.Evqe.Heap.OSelection (QV.Evqe.Selection.mkSel (ec_alpha c) (ec_beta c)
                               (sel_tournament (ec_use_tournament c) (ec_tournament_size c)));
    QV.Evqe.Heap.OMutation QV.Evqe.Mutation.MParamSearch (ec_p_param c);
    QV.Evqe.Heap.OMutation QV.Evqe.Mutation.MTopological (ec_p_topo c);
    QV.Evqe.Heap.OMutation QV.Evqe.Mutation.MLayerRemoval (ec_p_remove c) ].

(* optimizer_n_circuit_evaluations goes to the two operators that run the optimiser *)
Definition model_op_evals (c : evqe_config) : list (option Z) :=
  [ec_optimizer_evals c; None; None; ec_optimizer_evals c; None; None].

(* the configuration handed to the base class: limits and criterion passed through unchanged; a pool with one worker per
   individual unless an executor is configured *)
Definition model_base_config (c : evqe_config) (ops : list opdesc) : base_config :=
  mkBase ops (ec_max_generations c) (ec_max_circuit_evaluations c) (ec_termination_criterion c)
         (Some (match ec_parallel_executor c with None => ThreadPool (ec_population_size c) | Some _ => GivenExecutor end))
         (ec_mutex c) (ec_alpha_tail c).

(* the configuration of the composed model Repro/Compose.v that belongs to a solver configuration *)
Definition ecfg_of (c : evqe_config) (n_qubits : Z) : QV.Repro.Compose.ecfg :=
  QV.Repro.Compose.mkECfg n_qubits (ec_n_initial_layers c) (Z.to_nat (ec_population_size c)) (ec_randomize c)
    (ec_speciation_threshold c)
    (QV.Evqe.Selection.mkSel (ec_alpha c) (ec_beta c) (sel_tournament (ec_use_tournament c) (ec_tournament_size c)))
    (ec_p_param c) (ec_p_topo c) (ec_p_remove c) (ec_optimizer_evals c)
    (ec_max_generations c) (ec_max_circuit_evaluations c).

(* what the population initializer asks EVQEPopulation.random_population for, given the seed it drew *)
Definition model_pop_request (c : evqe_config) (n_qubits seed : Z) : pop_request :=
  mkPopReq n_qubits (ec_n_initial_layers c) (ec_population_size c) (ec_randomize c) seed.

(* the run configuration of Repro/Seeding.v that belongs to a solver configuration (n_qubits comes from the
   operator that is solved, the number of generations from max_generations) *)
Definition run_cfg_of (c : evqe_config) (n_qubits : Z) (generations : nat) : run_cfg :=
  mkCfg n_qubits (ec_n_initial_layers c) (Z.to_nat (ec_population_size c)) (ec_randomize c)
        (ec_p_param c) (ec_p_topo c) (ec_p_remove c)
        (sel_tournament (ec_use_tournament c) (ec_tournament_size c)) generations.

(* ================================================================== PART 2: checked lemmas *)

Lemma draw_seeds_app : forall a b s,
  draw_seeds (a ++ b)%list s =
  do r <- draw_seeds a s; do r' <- draw_seeds b (snd r); Ok ((fst r ++ fst r')%list, snd r').
Proof.
  induction a as [|c t IH]; intros b s; cbn [draw_seeds app bind fst snd].
  - destruct (draw_seeds b s) as [[x y]|e]; reflexivity.
  - destruct (new_random_seed s) as [[v s1]|e]; cbn [bind fst snd]; [|reflexivity].
    rewrite IH. destruct (draw_seeds t s1) as [[x y]|e]; cbn [bind fst snd]; [|reflexivity].
    destruct (draw_seeds b y) as [[x' y']|e]; reflexivity.
Qed.

(* the probabilities and the tournament size the trace model of one generation (Seeding.generation) uses are those
   of the operator descriptors: last-layer search with probability 1, then the three configured probabilities *)
Lemma model_ops_run_cfg : forall c nq g,
  model_ops c =
  [ QV.Evqe.Heap.OMutation QV.Evqe.Mutation.MLastLayer 1;
    QV.Evqe.Heap.OSpeciation (ec_speciation_threshold c);
    QV.Evqe.Heap.OSelection (QV.Evqe.Selection.mkSel (ec_alpha c) (ec_beta c) (c_tournament (run_cfg_of c nq g)));
    QV.Evqe.Heap.OMutation QV.Evqe.Mutation.MParamSearch (c_p_param (run_cfg_of c nq g));
    QV.Evqe.Heap.OMutation QV.Evqe.Mutation.MTopological (c_p_topo (run_cfg_of c nq g));
    QV.Evqe.Heap.OMutation QV.Evqe.Mutation.MLayerRemoval (c_p_remove (run_cfg_of c nq g)) ].
Proof. reflexivity. Qed.

(* a configuration accepted by __post_init__ gives the selection operator a tournament size the constructor of
   EVQESelection accepts (>= 1, the hypothesis of Evqe/Completes_proofs) and that does not exceed the population *)
Lemma config_ok_tournament : forall c size,
  config_ok c = true ->
  sel_tournament (ec_use_tournament c) (ec_tournament_size c) = Some size ->
  (1 <= size)%nat /\ (size <= Z.to_nat (ec_population_size c))%nat.
Proof.
  intros c size H E. unfold config_ok in H. apply andb_true_iff in H as [_ H].
  unfold tournament_ok in H. unfold sel_tournament in E.
  destruct (ec_use_tournament c); [|discriminate].
  destruct (ec_tournament_size c) as [t|]; [|discriminate].
  cbn [option_map] in E. injection E as <-.
  apply andb_true_iff in H as [H1 H2]. apply Z.leb_le in H1. apply Z.leb_le in H2. lia.
Qed.

Lemma config_ok_run_cfg : forall c nq g,
  config_ok c = true ->
  1 <= c_layers (run_cfg_of c nq g) /\
  prob_ok (c_p_param (run_cfg_of c nq g)) = true /\ prob_ok (c_p_topo (run_cfg_of c nq g)) = true /\
  prob_ok (c_p_remove (run_cfg_of c nq g)) = true.
Proof.
  intros c nq g H. unfold config_ok in H.
  repeat (apply andb_true_iff in H; destruct H as [H ?]).
  cbn [run_cfg_of c_layers c_p_param c_p_topo c_p_remove]. repeat split; try assumption.
  apply Z.leb_le. assumption.
Qed.

(* the population request carries exactly the arguments Seeding.evqe_initial_population passes to
   RandLayer.random_population for the run configuration of c (population_size is a count) *)
Lemma model_pop_request_run_cfg : forall c nq g seed,
  0 <= ec_population_size c ->
  let rc := run_cfg_of c nq g in
  model_pop_request c nq seed = mkPopReq (c_qubits rc) (c_layers rc) (Z.of_nat (c_pop rc)) (c_randomize rc) seed.
Proof.
  intros c nq g seed H. cbn [run_cfg_of c_qubits c_layers c_pop c_randomize]. unfold model_pop_request.
  rewrite Z2Nat.id by assumption. reflexivity.
Qed.

(* ------------------------------------------------------------------ against the composed model Repro/Compose.v *)
(* model_ops is Compose.evqe_ops, the operator list evqe_run runs *)
Lemma model_ops_evqe_ops : forall c nq, model_ops c = QV.Repro.Compose.evqe_ops (ecfg_of c nq).
Proof. reflexivity. Qed.

(* the evaluation counts the operators were given are those Compose.estimate reads (e_opt_evals for the two optimising
   operators, nothing for the others) *)
Lemma model_op_evals_estimate : forall c nq,
  model_op_evals c =
  map (fun o => match o with
                | QV.Evqe.Heap.OMutation QV.Evqe.Mutation.MLastLayer _
                | QV.Evqe.Heap.OMutation QV.Evqe.Mutation.MParamSearch _ => QV.Repro.Compose.e_opt_evals (ecfg_of c nq)
                | _ => None
                end) (model_ops c).
Proof. reflexivity. Qed.

(* the base configuration built by __init__ is Compose.c_config (operators, both limits; Compose models runs without a
   termination criterion) *)
Lemma model_base_config_c_config : forall c nq (Init AuxEv : Type) (init : option Init) (aux : QV.Solver.Loop.aux_shape AuxEv) seeds,
  length seeds = 6%nat ->
  let b := model_base_config c (combine (combine (model_ops c) (model_op_evals c)) seeds) in
  let k := QV.Repro.Compose.c_config Init AuxEv (ecfg_of c nq) init aux in
  QV.Solver.Loop.cfg_ops _ _ _ _ _ k = map (fun d => fst (fst d)) (bc_ops b) /\
  QV.Solver.Loop.cfg_max_generations _ _ _ _ _ k = bc_max_generations b /\
  QV.Solver.Loop.cfg_max_evals _ _ _ _ _ k = bc_max_evals b /\
  (bc_criterion b = None -> QV.Solver.Loop.cfg_criterion _ _ _ _ _ k = None).
Proof.
  intros c nq Init AuxEv init aux seeds L.
  do 7 (destruct seeds as [|? seeds]; try discriminate L).
  cbv zeta. repeat split.
Qed.
