(* C04 translation tie: the Gallina reading of the Qiskit objects and of Python strings used by translator/specs/c04.py,
   and the facts about it that coq/link/C04Link.v needs.
   PART 0 is TRUSTED (data representation used by the generated code); everything after it is checked lemmas. *)
From QV Require Import Translate.PyPrelude Translate.PyPrelude_proofs Evqe.Genome Evqe.Names Evqe.Circuit Translate.C16Aux.
Open Scope Z_scope.

(* ================================================================== PART 0 — representation (trusted) *)
(* a Python str (Coq string) as a model name: the list of its character codes *)
Fixpoint pyname (s : string) : name :=
  match s with
  | EmptyString => []
  | String a rest => nat_of_ascii a :: pyname rest
  end.

Section Rep.
Context {V : Type}.

(* QuantumCircuit(n_qubits, name=...): no instructions; the size and the circuit's name are not modelled *)
Definition qc_empty (n_qubits : Z) (circuit_name : string) : circuit V := [].
(* circuit.id(q) / circuit.u(theta, phi, lam, qubit): one more instruction *)
Definition qc_id (c : circuit V) (q : Z) : circuit V := c ++ [IId q].
Definition qc_u (c : circuit V) (theta phi lam : angle V) (q : Z) : circuit V := c ++ [IU q theta phi lam].
(* CU3Gate(theta, phi, lam), and circuit.append(instruction=<it>, qargs=(control, target)) *)
Record cu3gate := mkCU3 { cu3_theta : angle V; cu3_phi : angle V; cu3_lam : angle V }.
Definition qc_append_cu3 (c : circuit V) (g : cu3gate) (qargs : Z * Z) : circuit V :=
  c ++ [ICU3 (fst qargs) (snd qargs) (cu3_theta g) (cu3_phi g) (cu3_lam g)].
(* circuit.assign_parameters(parameters=vs, inplace=b): Qiskit's positional binding over the sorted names (the model's
   assign_positional); without inplace=True the call would leave the circuit unchanged (its result is discarded) *)
Definition qc_assign (c : circuit V) (vs : list V) (inplace : bool) : result (circuit V) :=
  (* inplace=False still validates the value count (ValueError) before returning a copy that the caller discards
     (found by translator/conformance.py, family callee-qiskit-assign-parameters-copy-mismatch) *)
  if inplace then assign_positional c vs else do _u <- assign_positional c vs; Ok c.
(* outer_circuit.append(instruction=<layer gate>, qargs=...) followed (later) by .decompose(): the instructions of the
   layer gate, inlined.  qargs is NOT interpreted (the code passes range(0, n_qubits): every qubit in order) *)
Definition qc_append_gate (c : circuit V) (g : circuit V) (qargs : list Z) : circuit V := c ++ g.
End Rep.
Arguments cu3gate : clear implicits.
Arguments qc_empty : clear implicits.

(* f"{z:06d}" for EVERY int z (the reading of the format spec 06d named by specs/c04.py): CPython pads with zeros to a
   total width of 6 INCLUDING the sign ("-00042"), longer numbers in full.  Names.v's pad6 is this for 0 <= z only
   (found by translator/conformance.py, family fstring-ints: pad6 disagreed with CPython on negative z). *)
Definition pad6_py (z : Z) : name :=
  if z <? 0 then 45%nat :: (if - z <? 100000 then digits_w 5 (- z) else dec (- z)) else pad6 z.

(* ================================================================== checked lemmas *)
Lemma string_of_name_app a b : string_of_name (a ++ b) = (string_of_name a ++ string_of_name b)%string.
Proof. unfold string_of_name. induction a as [|x a IH]; [reflexivity|]. cbn [app fold_right append]. rewrite IH. reflexivity. Qed.

Lemma pyname_app a b : pyname (a ++ b)%string = pyname a ++ pyname b.
Proof. induction a as [|x a IH]; [reflexivity|]. cbn [append pyname app]. rewrite IH. reflexivity. Qed.

Definition ascii_name (n : name) : Prop := Forall (fun c => (c < 256)%nat) n.

Lemma pyname_string_of_name n : ascii_name n -> pyname (string_of_name n) = n.
Proof.
  induction 1 as [|c n Hc _ IH]; [reflexivity|]. unfold string_of_name in *. cbn [fold_right pyname].
  rewrite IH, nat_ascii_embedding by exact Hc. reflexivity.
Qed.

Lemma ascii_app a b : ascii_name a -> ascii_name b -> ascii_name (a ++ b).
Proof. intros. apply Forall_app. split; assumption. Qed.

Lemma digit_mod_ascii z : (digit (z mod 10) < 256)%nat.
Proof. unfold digit. pose proof (Z.mod_pos_bound z 10 ltac:(lia)). lia. Qed.

Lemma dec_fuel_ascii f : forall z, ascii_name (dec_fuel f z).
Proof.
  induction f as [|f IH]; intros z; cbn [dec_fuel].
  - constructor; [apply digit_mod_ascii | constructor].
  - destruct (Z.ltb_spec z 10).
    + constructor; [unfold digit; lia | constructor].
    + apply ascii_app; [apply IH | constructor; [apply digit_mod_ascii | constructor]].
Qed.

Lemma dec_ascii z : ascii_name (dec z).
Proof. unfold dec. destruct (z <? 0); [constructor; [lia|]|]; apply dec_fuel_ascii. Qed.

Lemma digits_w_ascii w : forall z, ascii_name (digits_w w z).
Proof.
  induction w as [|w IH]; intros z; cbn [digits_w]; [constructor|].
  apply ascii_app; [apply IH | constructor; [apply digit_mod_ascii | constructor]].
Qed.

Lemma pad6_ascii z : ascii_name (pad6 z).
Proof. unfold pad6. destruct (z <? 1000000); [apply digits_w_ascii | apply dec_ascii]. Qed.

(* the names built by quantum_gate.py / circuit_layer.py, as strings *)
Lemma pyname_param (p : string) (q : Z) (suffix_s : string) (suffix : name) :
  pyname suffix_s = c_us :: suffix ->
  pyname (p ++ ("q" ++ string_of_name (dec q) ++ suffix_s))%string = param_name (pyname p) q suffix.
Proof.
  intros H. unfold param_name. rewrite !pyname_app, H, (pyname_string_of_name _ (dec_ascii q)). reflexivity.
Qed.

Lemma pad6_py_nonneg z : 0 <= z -> pad6_py z = pad6 z.
Proof. intros H. unfold pad6_py. replace (z <? 0) with false by (symmetry; apply Z.ltb_ge; lia). reflexivity. Qed.

(* layer ids are positions in the layers tuple: never negative *)
Lemma pyname_layer_prefix (layer_id : Z) : 0 <= layer_id ->
  pyname ("layer" ++ string_of_name (pad6_py layer_id) ++ "_")%string = layer_prefix false layer_id.
Proof.
  intros H. rewrite (pad6_py_nonneg _ H). unfold layer_prefix.
  rewrite !pyname_app, (pyname_string_of_name _ (pad6_ascii layer_id)). reflexivity.
Qed.

(* ------------------------------------------------------------------ the render lemmas (justification of idiom int-to-decimal-string)
   Python's str(z) / f"{z}" for z >= 0 is THE string of decimal digits without a leading zero whose value is z (and "0" for 0),
   "-" followed by str(-z) for z < 0; f"{z:06d}" for 0 <= z is str(z) left-padded with "0" to width 6.  Names.v's dec / pad6
   satisfy exactly these characterisations. *)
Definition is_digit (c : nat) : Prop := (48 <= c <= 57)%nat.
Definition digit_val (c : nat) : Z := Z.of_nat c - 48.
Definition dec_value (n : name) : Z := fold_left (fun acc c => 10 * acc + digit_val c) n 0.

Lemma dec_value_snoc n c : dec_value (n ++ [c]) = 10 * dec_value n + digit_val c.
Proof. unfold dec_value. rewrite fold_left_app. reflexivity. Qed.

Lemma digit_ok d : 0 <= d < 10 -> is_digit (digit d) /\ digit_val (digit d) = d.
Proof. intros H. unfold is_digit, digit_val, digit. split; lia. Qed.

Lemma dec_fuel_spec f : forall z, 0 <= z < 10 ^ (Z.of_nat f + 1) ->
  dec_value (dec_fuel f z) = z /\ Forall is_digit (dec_fuel f z) /\
  (0 < z -> exists c rest, dec_fuel f z = c :: rest /\ c <> 48%nat).
Proof.
  induction f as [|f IH]; intros z Hz.
  - change (10 ^ (Z.of_nat 0 + 1)) with 10 in Hz. cbn [dec_fuel]. rewrite Z.mod_small by lia.
    destruct (digit_ok z Hz) as [D1 D2]. repeat split.
    + unfold dec_value. cbn [fold_left]. lia.
    + constructor; [exact D1 | constructor].
    + intros P. exists (digit z), []. split; [reflexivity | unfold digit; lia].
  - cbn [dec_fuel]. destruct (Z.ltb_spec z 10) as [L|L].
    + destruct (digit_ok z ltac:(lia)) as [D1 D2]. repeat split.
      * unfold dec_value. cbn [fold_left]. lia.
      * constructor; [exact D1 | constructor].
      * intros P. exists (digit z), []. split; [reflexivity | unfold digit; lia].
    + assert (B : 0 <= z / 10 < 10 ^ (Z.of_nat f + 1)).
      { split; [apply Z.div_pos; lia|]. apply Z.div_lt_upper_bound; [lia|].
        replace (Z.of_nat (S f) + 1) with (Z.succ (Z.of_nat f + 1)) in Hz by lia. rewrite Z.pow_succ_r in Hz by lia. lia. }
      destruct (IH (z / 10) B) as [V1 [V2 V3]].
      pose proof (Z.mod_pos_bound z 10 ltac:(lia)) as M. destruct (digit_ok (z mod 10) M) as [D1 D2].
      repeat split.
      * rewrite dec_value_snoc, V1, D2. pose proof (Z.div_mod z 10 ltac:(lia)). lia.
      * apply Forall_app. split; [exact V2 | constructor; [exact D1 | constructor]].
      * intros _. destruct V3 as [c [rest [E NZ]]]; [apply Z.div_str_pos; lia|].
        exists c, (rest ++ [digit (z mod 10)]). rewrite E. split; [reflexivity | exact NZ].
Qed.

Lemma fuel_enough z : 0 <= z -> z < 10 ^ (Z.of_nat (Z.to_nat (Z.log2 z)) + 1).
Proof.
  intros Hz. pose proof (Z.log2_nonneg z). rewrite Z2Nat.id by lia.
  destruct (Z.eq_dec z 0) as [->|NZ]; [reflexivity|].
  destruct (Z.log2_spec z ltac:(lia)) as [_ U]. replace (Z.succ (Z.log2 z)) with (Z.log2 z + 1) in U by lia.
  eapply Z.lt_le_trans; [exact U|]. apply Z.pow_le_mono_l. lia.
Qed.

(* str(z), z >= 0: decimal digits, value z, no leading zero (a single "0" for 0) *)
Theorem dec_nonneg_spec z : 0 <= z ->
  dec_value (dec z) = z /\ Forall is_digit (dec z) /\ (0 < z -> exists c rest, dec z = c :: rest /\ c <> 48%nat) /\ (z = 0 -> dec z = [48%nat]).
Proof.
  intros Hz. unfold dec. replace (z <? 0) with false by (symmetry; apply Z.ltb_ge; lia).
  destruct (dec_fuel_spec _ z (conj Hz (fuel_enough z Hz))) as [A [B C]]. repeat split; try assumption.
  intros ->. reflexivity.
Qed.

(* str(z), z < 0: "-" followed by str(-z) *)
Theorem dec_neg_spec z : z < 0 -> dec z = 45%nat :: dec (- z).
Proof.
  intros Hz. unfold dec. replace (z <? 0) with true by (symmetry; apply Z.ltb_lt; lia).
  replace (- z <? 0) with false by (symmetry; apply Z.ltb_ge; lia). reflexivity.
Qed.

Lemma digits_w_spec w : forall z, 0 <= z < 10 ^ Z.of_nat w ->
  dec_value (digits_w w z) = z /\ Forall is_digit (digits_w w z) /\ length (digits_w w z) = w.
Proof.
  induction w as [|w IH]; intros z Hz.
  - change (10 ^ Z.of_nat 0) with 1 in Hz. cbn [digits_w]. repeat split; [unfold dec_value; cbn; lia | constructor].
  - cbn [digits_w]. rewrite Nat2Z.inj_succ, Z.pow_succ_r in Hz by lia.
    assert (B : 0 <= z / 10 < 10 ^ Z.of_nat w) by (split; [apply Z.div_pos; lia | apply Z.div_lt_upper_bound; lia]).
    destruct (IH _ B) as [V1 [V2 V3]].
    pose proof (Z.mod_pos_bound z 10 ltac:(lia)) as M. destruct (digit_ok (z mod 10) M) as [D1 D2].
    repeat split.
    + rewrite dec_value_snoc, V1, D2. pose proof (Z.div_mod z 10 ltac:(lia)). lia.
    + apply Forall_app. split; [exact V2 | constructor; [exact D1 | constructor]].
    + rewrite app_length, V3. cbn [length]. lia.
Qed.

(* f"{z:06d}", z >= 0: six decimal digits of value z below 10^6 (i.e. str(z) zero-padded), str(z) from 10^6 on *)
Theorem pad6_spec z : 0 <= z ->
  (z < 1000000 -> dec_value (pad6 z) = z /\ Forall is_digit (pad6 z) /\ length (pad6 z) = 6%nat) /\
  (1000000 <= z -> pad6 z = dec z).
Proof.
  intros Hz. unfold pad6. split; intros H.
  - replace (z <? 1000000) with true by (symmetry; apply Z.ltb_lt; lia). apply digits_w_spec. change (10 ^ Z.of_nat 6) with 1000000. lia.
  - replace (z <? 1000000) with false by (symmetry; apply Z.ltb_ge; lia). reflexivity.
Qed.

(* spot checks against CPython: str(0), str(7), str(10), str(123456), str(-42), f"{0:06d}", f"{12:06d}", f"{1234567:06d}" *)
Example render_examples :
  map string_of_name [dec 0; dec 7; dec 10; dec 123456; dec (-42); pad6 0; pad6 12; pad6 999999; pad6 1234567]
  = ["0"; "7"; "10"; "123456"; "-42"; "000000"; "000012"; "999999"; "1234567"]%string.
Proof. reflexivity. Qed.
