(* Lemmas used by coq/link/C15Link.v and coq/link/C01Link.v: the translator's vocabulary (PyPrelude.v) against the
   list functions the DomainWall / Encoder models are written with.  No property theorem depends on this file. *)
From QV Require Import Translate.PyPrelude Translate.PyPrelude_proofs.
From QV Require Import Jssp.DomainWall.
Open Scope Z_scope.

(* range(a, b) *)
Lemma py_range_zrange a b : py_range a b = zrange a (b - a).
Proof. reflexivity. Qed.

(* xs = []; for x in l: xs.append(f(x))   is   mapM f l *)
Lemma py_foldM_append_mapM {A B} (f : A -> result B) l : forall acc,
  py_foldM (fun acc x => do y <- f x; Ok (acc ++ [y])%list) l acc = do ys <- mapM f l; Ok (acc ++ ys)%list.
Proof.
  induction l as [|x t IH]; intros acc; cbn [py_foldM mapM bind].
  - now rewrite app_nil_r.
  - destruct (f x) as [y|e]; cbn [bind]; [|reflexivity]. rewrite IH.
    destruct (mapM f t) as [ys|e]; cbn [bind]; [|reflexivity]. now rewrite <- app_assoc.
Qed.

(* the dict {value: position}: membership and look-up are index_of *)
Definition index_dict_from (k : nat) (l : list Z) : list (Z * Z) := combine l (map Z.of_nat (seq k (List.length l))).

Lemma index_dict_mem t l : forall k,
  py_mem Z.eqb t (py_dict_keys (index_dict_from k l)) = match index_of t l with Some _ => true | None => false end.
Proof.
  unfold py_mem, py_dict_keys, index_dict_from.
  induction l as [|x r IH]; intros k; [reflexivity|].
  cbn [List.length seq map combine fst existsb index_of]. rewrite (Z.eqb_sym t x).
  destruct (x =? t); [reflexivity|]. cbn [orb]. rewrite IH. destruct (index_of t r); reflexivity.
Qed.

Lemma index_dict_get t l : forall k,
  py_dict_get Z.eqb (index_dict_from k l) t
  = match index_of t l with Some i => Ok (Z.of_nat (k + i)) | None => Err "KeyError"%string end.
Proof.
  unfold py_dict_get, index_dict_from.
  induction l as [|x r IH]; intros k; [reflexivity|].
  cbn [List.length seq map combine find fst snd index_of].
  destruct (x =? t); [now rewrite Nat.add_0_r|]. rewrite IH.
  destruct (index_of t r); cbn [option_map]; [|reflexivity]. f_equal. f_equal. lia.
Qed.

(* l[a : a+n] with non-negative bounds *)
Lemma py_slice_nat {A} (l : list A) (a n : nat) :
  py_slice l (Some (Z.of_nat a)) (Some (Z.of_nat a + Z.of_nat n)) = firstn n (skipn a l).
Proof.
  unfold py_slice, py_clamp, py_len. set (L := List.length l).
  replace (Z.of_nat a <? 0) with false by (symmetry; apply Z.ltb_ge; lia).
  replace (Z.of_nat a + Z.of_nat n <? 0) with false by (symmetry; apply Z.ltb_ge; lia).
  destruct (Nat.le_gt_cases L a) as [Hge|Hlt].
  - rewrite (skipn_all2 l) by (fold L; lia).
    replace (Z.to_nat (Z.min (Z.of_nat a) (Z.of_nat L))) with L by lia.
    rewrite (skipn_all2 l) by (fold L; lia). now rewrite !firstn_nil.
  - replace (Z.to_nat (Z.min (Z.of_nat a) (Z.of_nat L))) with a by lia.
    replace (Z.to_nat (Z.min (Z.of_nat a + Z.of_nat n) (Z.of_nat L) - Z.min (Z.of_nat a) (Z.of_nat L))) with (Nat.min n (L - a)) by lia.
    rewrite <- firstn_firstn. f_equal. apply firstn_all2. rewrite skipn_length. fold L. lia.
Qed.

(* l[d:] with a non-negative bound *)
Lemma py_slice_from_nat {A} (l : list A) (d : nat) : py_slice l (Some (Z.of_nat d)) None = skipn d l.
Proof.
  unfold py_slice, py_clamp, py_len. set (L := List.length l).
  replace (Z.of_nat d <? 0) with false by (symmetry; apply Z.ltb_ge; lia).
  destruct (Nat.le_gt_cases L d) as [Hge|Hlt].
  - replace (Z.to_nat (Z.min (Z.of_nat d) (Z.of_nat L))) with L by lia.
    rewrite !(skipn_all2 l) by (fold L; lia). apply firstn_nil.
  - replace (Z.to_nat (Z.min (Z.of_nat d) (Z.of_nat L))) with d by lia.
    apply firstn_all2. rewrite skipn_length. fold L. lia.
Qed.

(* l[d] with a non-negative index *)
Lemma py_index_nat {A} (l : list A) (d : nat) :
  py_index l (Z.of_nat d) = match nth_error l d with Some x => Ok x | None => Err "IndexError"%string end.
Proof.
  unfold py_index, py_len. cbv zeta.
  assert (E : (Z.of_nat d <? 0) = false) by (apply Z.ltb_ge; lia).
  rewrite E. cbv iota. rewrite E. cbn [orb].
  rewrite Nat2Z.id.
  destruct (Z.leb_spec (Z.of_nat (List.length l)) (Z.of_nat d)) as [H|H]; [|reflexivity].
  replace (nth_error l d) with (@None A); [reflexivity|]. symmetry. apply nth_error_None. lia.
Qed.

(* bit lists: the model works on booleans, the implementation on the ints 0 / 1 *)
Definition b2z (b : bool) : Z := if b then 1 else 0.

Lemma sumZ_cons x l : sumZ (x :: l) = x + sumZ l.
Proof. reflexivity. Qed.

Lemma sum_bits_nonneg (l : list bool) : 0 <= sumZ (map b2z l).
Proof. induction l as [|x r IH]; [cbn; lia|]. cbn [map]. rewrite sumZ_cons. destruct x; cbn [b2z]; lia. Qed.

Lemma sum_bits_zero (l : list bool) : (py_sum_Z (map b2z l) =? 0) = negb (existsb (fun x => x) l).
Proof.
  rewrite py_sum_Z_sumZ.
  induction l as [|x r IH]; [reflexivity|]. cbn [map existsb]. rewrite sumZ_cons.
  pose proof (sum_bits_nonneg r) as Hr.
  destruct x; cbn [b2z orb].
  - apply Z.eqb_neq. lia.
  - rewrite Z.add_0_l. exact IH.
Qed.

(* the scan for the first 0 (with `break`; a value other than 0 / 1 raises): first_false *)
Lemma scan_first_false (l : list bool) : forall (k : nat) (init : Z),
  py_for_breakM (combine (map Z.of_nat (seq k (List.length l))) (map b2z l))
    (fun '(i, value_) (dwi : Z) =>
       if Z.eqb value_ 0 then Ok (i, true)
       else if negb (Z.eqb value_ 1) then Err "ValueError"%string else Ok (dwi, false)) init
  = Ok (match first_false l with Some i => Z.of_nat (k + i) | None => init end).
Proof.
  induction l as [|x r IH]; intros k init; [reflexivity|].
  cbn [List.length seq map combine py_for_breakM first_false].
  destruct x; cbn [b2z]; change (1 =? 0) with false; change (1 =? 1) with true; change (0 =? 0) with true; cbn [negb].
  - rewrite IH. destruct (first_false r); cbn [option_map]; [|reflexivity]. do 2 f_equal. lia.
  - now rewrite Nat.add_0_r.
Qed.
