(* C15 / C01 translation tie, static part.
   PART 0 (TRUSTED, belongs to the data representation of translator/specs/c15.py and c01.py; used by the GENERATED
   modules): how the Python objects the translated functions touch are read as model values.
   PARTS 1.. (not trusted, checked by Coq): lemmas used by coq/link/C15Link.v and coq/link/C01Link.v, relating the
   translator's vocabulary (PyPrelude.v) to the list functions the DomainWall / Encoder models are written with.
   No property theorem depends on this file. *)
From QV Require Import Translate.PyPrelude Translate.PyPrelude_proofs.
From QV Require Import Jssp.DomainWall.
Open Scope Z_scope.

(* ================================================================================== PART 0: data representation *)
(* DomainWallVariable._value_indices = {value: i for i, value in enumerate(values)}: for the pairwise different values
   the constructor accepts this is the list of (value, position) *)
Definition index_dict_from (k : nat) (l : list Z) : list (Z * Z) := combine l (map Z.of_nat (seq k (List.length l))).
Definition dw_value_indices (v : dwvar) : list (Z * Z) := index_dict_from 0 (v_values v).

(* what DomainWallVariable.__init__ computes and stores besides its two arguments: _value_indices and _n_qubits *)
Record dwcache := mkDWC { dwc_idx : list (Z * Z); dwc_nq : Z }.

(* pauli_z_string on Python ints: `not 0 <= qubit_index < n_qubits` is a ValueError *)
Definition pauli_z_string_Z (q n : Z) : result opexpr :=
  if q <? 0 then Err ValueError else pauli_z_string (Z.to_nat q) (Z.to_nat n).

(* the assigned instance attributes of JSSPDomainWallHamiltonianEncoder that the translated methods touch:
   _machine_operations, _operation_start_variables, _operation_constraint_counts, _n_qubits, _encoding_prepared *)
Record encstate := mkSt { st_mo : list (string * list operation); st_vars : list (operation * dwvar);
  st_counts : list ((operation * Z) * Z); st_nq : Z; st_prepared : bool }.

(* everything JSSPDomainWallHamiltonianEncoder.__init__ assigns besides jssp_instance / makespan_limit (used for the link
   of __init__ only: the flags, the three dicts and the qubit count are the initial [encstate]; the Hamiltonian cache and
   the five penalties are stored for _prepare_hamiltonian, which is not translated) *)
Record encinit := mkInit { ei_prepared : bool; ei_ham_prepared : bool; ei_mo : list (string * list operation);
  ei_vars : list (operation * dwvar); ei_counts : list ((operation * Z) * Z); ei_nq : Z; ei_ham : option opexpr;
  ei_p_enc : Q; ei_p_overlap : Q; ei_p_prec : Q; ei_p_opt : Q; ei_p_share : Q }.
Definition encinit_state (i : encinit) : encstate := mkSt (ei_mo i) (ei_vars i) (ei_counts i) (ei_nq i) (ei_prepared i).

(* DomainWallVariable(qubit_start_index, values) as called by the encoder.  The model's record also carries the operation
   and the construction index, which the Python object does not have and no translated function reads: they are dummies
   in the generated code ([ghost]); the links supply them from the dict key. *)
Definition ghost_op : operation := mkOp ""%string ""%string ""%string 0.
Definition ghost (v : dwvar) : dwvar := mkVar 0%nat ghost_op (v_start v) (v_values v).
Definition mk_dwvar_py (q : Z) (vals : list Z) : result dwvar := mk_dwvar 0%nat ghost_op (Z.to_nat q) vals.

(* ================================================================================== PART 1: sequences, dicts, bits *)
(* range(a, b) *)
Lemma py_range_zrange a b : py_range a b = zrange a (b - a).
Proof. reflexivity. Qed.

(* xs = []; for x in l: xs.append(f(x))   is   mapM f l *)
Lemma py_foldM_append_mapM {A B} (f : A -> result B) l : forall acc,
  py_foldM (fun acc x => do y <- f x; Ok (acc ++ [y])%list) l acc = do ys <- mapM f l; Ok (acc ++ ys)%list.
Proof.
  induction l as [|x t IH]; intros acc; cbn [py_foldM mapM bind].
  - now rewrite app_nil_r.
  - destruct (f x) as [y|e]; cbn [bind]; [|reflexivity]. rewrite IH.
    destruct (mapM f t) as [ys|e]; cbn [bind]; [|reflexivity]. now rewrite <- app_assoc.
Qed.

(* the dict {value: position}: membership and look-up are index_of *)
Lemma index_dict_mem t l : forall k,
  py_mem Z.eqb t (py_dict_keys (index_dict_from k l)) = match index_of t l with Some _ => true | None => false end.
Proof.
  unfold py_mem, py_dict_keys, index_dict_from.
  induction l as [|x r IH]; intros k; [reflexivity|].
  cbn [List.length seq map combine fst existsb index_of]. rewrite (Z.eqb_sym t x).
  destruct (x =? t); [reflexivity|]. cbn [orb]. rewrite IH. destruct (index_of t r); reflexivity.
Qed.

Lemma index_dict_get t l : forall k,
  py_dict_get Z.eqb (index_dict_from k l) t
  = match index_of t l with Some i => Ok (Z.of_nat (k + i)) | None => Err "KeyError"%string end.
Proof.
  unfold py_dict_get, index_dict_from.
  induction l as [|x r IH]; intros k; [reflexivity|].
  cbn [List.length seq map combine find fst snd index_of].
  destruct (x =? t); [now rewrite Nat.add_0_r|]. rewrite IH.
  destruct (index_of t r); cbn [option_map]; [|reflexivity]. f_equal. f_equal. lia.
Qed.

(* l[a : a+n] with non-negative bounds *)
Lemma py_slice_nat {A} (l : list A) (a n : nat) :
  py_slice l (Some (Z.of_nat a)) (Some (Z.of_nat a + Z.of_nat n)) = firstn n (skipn a l).
Proof.
  unfold py_slice, py_clamp, py_len. set (L := List.length l).
  replace (Z.of_nat a <? 0) with false by (symmetry; apply Z.ltb_ge; lia).
  replace (Z.of_nat a + Z.of_nat n <? 0) with false by (symmetry; apply Z.ltb_ge; lia).
  destruct (Nat.le_gt_cases L a) as [Hge|Hlt].
  - rewrite (skipn_all2 l) by (fold L; lia).
    replace (Z.to_nat (Z.min (Z.of_nat a) (Z.of_nat L))) with L by lia.
    rewrite (skipn_all2 l) by (fold L; lia). now rewrite !firstn_nil.
  - replace (Z.to_nat (Z.min (Z.of_nat a) (Z.of_nat L))) with a by lia.
    replace (Z.to_nat (Z.min (Z.of_nat a + Z.of_nat n) (Z.of_nat L) - Z.min (Z.of_nat a) (Z.of_nat L))) with (Nat.min n (L - a)) by lia.
    rewrite <- firstn_firstn. f_equal. apply firstn_all2. rewrite skipn_length. fold L. lia.
Qed.

(* l[d:] with a non-negative bound *)
Lemma py_slice_from_nat {A} (l : list A) (d : nat) : py_slice l (Some (Z.of_nat d)) None = skipn d l.
Proof.
  unfold py_slice, py_clamp, py_len. set (L := List.length l).
  replace (Z.of_nat d <? 0) with false by (symmetry; apply Z.ltb_ge; lia).
  destruct (Nat.le_gt_cases L d) as [Hge|Hlt].
  - replace (Z.to_nat (Z.min (Z.of_nat d) (Z.of_nat L))) with L by lia.
    rewrite !(skipn_all2 l) by (fold L; lia). apply firstn_nil.
  - replace (Z.to_nat (Z.min (Z.of_nat d) (Z.of_nat L))) with d by lia.
    apply firstn_all2. rewrite skipn_length. fold L. lia.
Qed.

(* l[d] with a non-negative index *)
Lemma py_index_nat {A} (l : list A) (d : nat) :
  py_index l (Z.of_nat d) = match nth_error l d with Some x => Ok x | None => Err "IndexError"%string end.
Proof.
  unfold py_index, py_len. cbv zeta.
  assert (E : (Z.of_nat d <? 0) = false) by (apply Z.ltb_ge; lia).
  rewrite E. cbv iota. rewrite E. cbn [orb].
  rewrite Nat2Z.id.
  destruct (Z.leb_spec (Z.of_nat (List.length l)) (Z.of_nat d)) as [H|H]; [|reflexivity].
  replace (nth_error l d) with (@None A); [reflexivity|]. symmetry. apply nth_error_None. lia.
Qed.

(* bit lists: the model works on booleans, the implementation on the ints 0 / 1 *)
Definition b2z (b : bool) : Z := if b then 1 else 0.

Lemma sumZ_cons x l : sumZ (x :: l) = x + sumZ l.
Proof. reflexivity. Qed.

Lemma sum_bits_nonneg (l : list bool) : 0 <= sumZ (map b2z l).
Proof. induction l as [|x r IH]; [cbn; lia|]. cbn [map]. rewrite sumZ_cons. destruct x; cbn [b2z]; lia. Qed.

Lemma sum_bits_zero (l : list bool) : (py_sum_Z (map b2z l) =? 0) = negb (existsb (fun x => x) l).
Proof.
  rewrite py_sum_Z_sumZ.
  induction l as [|x r IH]; [reflexivity|]. cbn [map existsb]. rewrite sumZ_cons.
  pose proof (sum_bits_nonneg r) as Hr.
  destruct x; cbn [b2z orb].
  - apply Z.eqb_neq. lia.
  - rewrite Z.add_0_l. exact IH.
Qed.

(* the scan for the first 0 (with `break`; a value other than 0 / 1 raises): first_false *)
Lemma scan_first_false (l : list bool) : forall (k : nat) (init : Z),
  py_for_breakM (combine (map Z.of_nat (seq k (List.length l))) (map b2z l))
    (fun '(i, value_) (dwi : Z) =>
       if Z.eqb value_ 0 then Ok (i, true)
       else if negb (Z.eqb value_ 1) then Err "ValueError"%string else Ok (dwi, false)) init
  = Ok (match first_false l with Some i => Z.of_nat (k + i) | None => init end).
Proof.
  induction l as [|x r IH]; intros k init; [reflexivity|].
  cbn [List.length seq map combine py_for_breakM first_false].
  destruct x; cbn [b2z]; change (1 =? 0) with false; change (1 =? 1) with true; change (0 =? 0) with true; cbn [negb].
  - rewrite IH. destruct (first_false r); cbn [option_map]; [|reflexivity]. do 2 f_equal. lia.
  - now rewrite Nat.add_0_r.
Qed.

(* ------------------------------------------------------------------------------------------------ encoder *)
From QV Require Import Jssp.Encoder.

(* l[-1] / l[0] as the model reads them *)
Lemma nth_error_last_opt {A} (l : list A) : l <> [] -> nth_error l (List.length l - 1) = last_opt l.
Proof.
  induction l as [|x r IH]; [congruence|]. intros _. destruct r as [|y r']; [reflexivity|].
  change (last_opt (x :: y :: r')) with (last_opt (y :: r')). rewrite <- IH by congruence.
  cbn [List.length]. replace (S (S (List.length r')) - 1)%nat with (S (S (List.length r') - 1)) by lia. reflexivity.
Qed.

Lemma py_index_m1 (v : dwvar) : py_index (v_values v) (-1) = vmax v.
Proof.
  unfold vmax. rewrite py_index_last. destruct (v_values v) as [|x r] eqn:E; [reflexivity|].
  rewrite nth_error_last_opt by congruence. destruct (last_opt (x :: r)); reflexivity.
Qed.

Lemma py_index_0 (v : dwvar) : py_index (v_values v) 0 = vmin v.
Proof. unfold vmin. change 0 with (Z.of_nat 0). rewrite (py_index_nat (v_values v) 0). destruct (v_values v); reflexivity. Qed.

(* [(a, b) for a in l1 for b in l2 if p a b] *)
Lemma comp2_filter_prod {A B} (p : A -> B -> bool) (l2 : list B) : forall l1 : list A,
  flat_map (fun a => map (fun b => (a, b)) (filter (fun b => p a b) l2)) l1
  = filter (fun ab => p (fst ab) (snd ab)) (list_prod l1 l2).
Proof.
  induction l1 as [|a r IH]; [reflexivity|]. cbn [flat_map list_prod]. rewrite filter_app, IH. f_equal.
  clear. induction l2 as [|b t IH]; [reflexivity|]. cbn [filter map fst snd]. destruct (p a b); cbn [map]; now rewrite IH.
Qed.

(* the constraint-count dict {(operation, start time): count} *)
Definition ckey : Type := (operation * Z)%type.
Definition ckey_eqb (a b : ckey) : bool := op_eqb (fst a) (fst b) && Z.eqb (snd a) (snd b).
Definition counts : Type := list (ckey * Z).

(* counts[k] += 1 (a key that is absent would be a KeyError: excluded by [covers] where this is used) *)
Definition dict_inc (c : counts) (k : ckey) : counts :=
  match py_dict_get ckey_eqb c k with Ok n => py_dict_set ckey_eqb c k (n + 1) | Err _ => c end.
Definition dict_bump (o1 o2 : operation) (pairs : list (Z * Z)) (c : counts) : counts :=
  fold_left (fun c st => dict_inc (dict_inc c (o1, fst st)) (o2, snd st)) pairs c.
(* what a pair term does to the counts *)
Definition dict_plan_bump (o1 o2 : operation) (p : pterm) (c : counts) : counts :=
  match p with PZero => c | PPairs _ _ pairs => dict_bump o1 o2 pairs c end.

(* every (o, t), t a value, has an entry *)
Definition covers (c : counts) (o : operation) (vals : list Z) : Prop :=
  forall t, In t vals -> is_ok (py_dict_get ckey_eqb c (o, t)) = true.

Lemma dict_set_keeps {K V} (eqb : K -> K -> bool) (k k' : K) (x : V) : forall d,
  is_ok (py_dict_get eqb d k') = true -> is_ok (py_dict_get eqb (py_dict_set eqb d k x) k') = true.
Proof.
  unfold py_dict_get. induction d as [|kv t IH]; cbn [find py_dict_set]; [discriminate|].
  destruct (eqb (fst kv) k) eqn:Ek; cbn [find fst].
  - destruct (eqb (fst kv) k'); [reflexivity | exact (fun H => H)].
  - destruct (eqb (fst kv) k'); [reflexivity | exact IH].
Qed.

Lemma dict_inc_keeps c k k' : is_ok (py_dict_get ckey_eqb c k') = true -> is_ok (py_dict_get ckey_eqb (dict_inc c k) k') = true.
Proof. intros H. unfold dict_inc. destruct (py_dict_get ckey_eqb c k); [now apply dict_set_keeps | exact H]. Qed.

Lemma covers_inc c k o vals : covers c o vals -> covers (dict_inc c k) o vals.
Proof. intros H t Ht. apply dict_inc_keeps, H, Ht. Qed.

(* counts[k] += 1 on a present key, as the generated code spells it *)
Lemma dict_inc_step {R} c k (f : Z -> counts -> result R) : is_ok (py_dict_get ckey_eqb c k) = true ->
  (do n <- py_dict_get ckey_eqb c k; f n (py_dict_set ckey_eqb c k (n + 1)))
  = match py_dict_get ckey_eqb c k with Ok n => f n (dict_inc c k) | Err e => Err e end.
Proof. unfold dict_inc. destruct (py_dict_get ckey_eqb c k); [reflexivity | discriminate]. Qed.

(* ---- the count dict against the model's count function (Encoder.ctable, keyed by the variable's construction index).
   Not needed to check the link lemmas; it shows that the dict-level adapter [dict_plan_bump] used in their statements
   is Encoder.plan_bump read through the representation "entry (v_op v, t) of the dict = f (v_id v) t". *)
From QV Require Import Jssp.Valid_proofs.
Open Scope Z_scope.

Lemma ckey_eqb_eq a b : ckey_eqb a b = true <-> a = b.
Proof.
  unfold ckey_eqb. destruct a as [o t], b as [o' t']. cbn [fst snd]. rewrite andb_true_iff, op_eqb_eq, Z.eqb_eq.
  split; [intros [-> ->]; reflexivity | intros [= -> ->]; split; reflexivity].
Qed.

Lemma dict_get_set {K V} (eqb : K -> K -> bool) (Heq : forall a b, eqb a b = true <-> a = b) (k k' : K) (x : V) : forall d,
  py_dict_get eqb (py_dict_set eqb d k x) k' = if eqb k k' then Ok x else py_dict_get eqb d k'.
Proof.
  unfold py_dict_get. induction d as [|kv t IH]; cbn [py_dict_set find fst snd].
  - destruct (eqb k k'); reflexivity.
  - destruct (eqb (fst kv) k) eqn:E1; cbn [find fst snd].
    + apply Heq in E1. rewrite E1. destruct (eqb k k'); reflexivity.
    + destruct (eqb (fst kv) k') eqn:E2; [|exact IH].
      apply Heq in E2. rewrite E2 in E1. replace (eqb k k') with false; [reflexivity|].
      symmetry. destruct (eqb k k') eqn:E3; [|reflexivity]. apply Heq in E3. subst k'.
      assert (eqb k k = true) by now apply Heq. congruence.
Qed.

Definition counts_agree (c : counts) (f : ctable) (vs : list dwvar) : Prop :=
  forall v t, In v vs -> In t (v_values v) -> py_dict_get ckey_eqb c (v_op v, t) = Ok (Z.of_nat (f (v_id v) t)).
(* variables are stored under pairwise different operations and carry pairwise different indices *)
Definition ids_match (vs : list dwvar) : Prop :=
  forall v v', In v vs -> In v' vs -> op_eqb (v_op v) (v_op v') = (v_id v =? v_id v')%nat.

Lemma counts_agree_covers c f vs v : counts_agree c f vs -> In v vs -> covers c (v_op v) (v_values v).
Proof. intros H Hv t Ht. now rewrite (H v t Hv Ht). Qed.

Lemma counts_agree_inc c f vs v1 t1 : ids_match vs -> counts_agree c f vs -> In v1 vs -> In t1 (v_values v1) ->
  counts_agree (dict_inc c (v_op v1, t1)) (ct_bump (v_id v1) t1 f) vs.
Proof.
  intros Hid Hag H1 Ht1 v t Hv Ht. unfold dict_inc. rewrite (Hag v1 t1 H1 Ht1).
  rewrite (dict_get_set ckey_eqb ckey_eqb_eq). unfold ckey_eqb, ct_bump. cbn [fst snd].
  rewrite (Hid v1 v H1 Hv), (Nat.eqb_sym (v_id v1)), (Z.eqb_sym t1).
  destruct ((v_id v =? v_id v1)%nat && (t =? t1)) eqn:E.
  - apply andb_true_iff in E as [E1 E2]. apply Nat.eqb_eq in E1. apply Z.eqb_eq in E2. subst t. rewrite E1. f_equal. lia.
  - apply Hag; assumption.
Qed.

Lemma dict_plan_bump_agree c f vs v1 v2 pairs : ids_match vs -> In v1 vs -> In v2 vs ->
  (forall q, In q pairs -> In (fst q) (v_values v1) /\ In (snd q) (v_values v2)) ->
  counts_agree c f vs ->
  counts_agree (dict_plan_bump (v_op v1) (v_op v2) (PPairs v1 v2 pairs) c) (plan_bump f (PPairs v1 v2 pairs)) vs.
Proof.
  intros Hid H1 H2. cbn [dict_plan_bump plan_bump]. unfold dict_bump. revert c f.
  induction pairs as [|q r IH]; intros c f Hin Hag; [exact Hag|]. cbn [fold_left].
  destruct (Hin q (or_introl eq_refl)) as [Q1 Q2].
  apply IH; [intros q' Hq'; apply Hin; now right|].
  apply counts_agree_inc; [assumption| |assumption|assumption].
  apply counts_agree_inc; assumption.
Qed.

(* ================================================================================== PART 3: _prepare_encoding
   What one iteration of the inner loop does to the state, given the variable v the model builds in that iteration
   (adapters used in the statement of link_Enc_prepare_encoding; they follow the implementation literally, the lemmas
   further down read them through the model's representation). *)
Definition mo_step (mo : list (string * list operation)) (o : operation) : list (string * list operation) :=
  let mo' := if negb (py_mem String.eqb (op_machine o) (py_dict_keys mo))
             then py_dict_set String.eqb mo (op_machine o) ([] : list operation) else mo in
  match py_dict_get String.eqb mo' (op_machine o) with
  | Ok l => py_dict_set String.eqb mo' (op_machine o) (l ++ [o])%list
  | Err _ => mo'
  end.
Definition counts_init (c : counts) (o : operation) (vals : list Z) : counts :=
  fold_left (fun c t => py_dict_set ckey_eqb c (o, t) 0) vals c.
Definition add_var (st : encstate) (v : dwvar) : encstate :=
  mkSt (mo_step (st_mo st) (v_op v)) (py_dict_set op_eqb (st_vars st) (v_op v) (ghost v))
       (counts_init (st_counts st) (v_op v) (v_values v)) (st_nq st + Z.of_nat (var_nq v)) (st_prepared st).
(* the state JSSPDomainWallHamiltonianEncoder.__init__ leaves *)
Definition st_init : encstate := mkSt [] [] [] 0 false.
Definition set_prepared (st : encstate) : encstate := mkSt (st_mo st) (st_vars st) (st_counts st) (st_nq st) true.
(* the state _prepare_encoding leaves, from the model's encoding *)
Definition state_of_enc (e : enc) : encstate := set_prepared (fold_left add_var (e_vars e) st_init).

Lemma string_eqb_eq a b : String.eqb a b = true <-> a = b.
Proof. apply String.eqb_eq. Qed.

Lemma dict_get_set_same {K V} (eqb : K -> K -> bool) (Heq : forall a b, eqb a b = true <-> a = b) (k : K) (x : V) d :
  py_dict_get eqb (py_dict_set eqb d k x) k = Ok x.
Proof. rewrite (dict_get_set eqb Heq). replace (eqb k k) with true; [reflexivity|]. symmetry. now apply Heq. Qed.

Lemma mem_keys_get {K V} (eqb : K -> K -> bool) (Heq : forall a b, eqb a b = true <-> a = b) (k : K) (d : list (K * V)) :
  py_mem eqb k (py_dict_keys d) = is_ok (py_dict_get eqb d k).
Proof.
  unfold py_mem, py_dict_keys, py_dict_get. induction d as [|kv t IH]; [reflexivity|]. cbn [map existsb find].
  replace (eqb k (fst kv)) with (eqb (fst kv) k).
  - destruct (eqb (fst kv) k); [reflexivity | exact IH].
  - destruct (eqb (fst kv) k) eqn:E1, (eqb k (fst kv)) eqn:E2; try reflexivity.
    + apply Heq in E1. subst k. assert (eqb (fst kv) (fst kv) = true) by now apply Heq. congruence.
    + apply Heq in E2. subst k. assert (eqb (fst kv) (fst kv) = true) by now apply Heq. congruence.
Qed.

(* the look-up after `if m not in d: d[m] = []` succeeds *)
Lemma mo_get_ok (mo : list (string * list operation)) m :
  exists l, py_dict_get String.eqb (if negb (py_mem String.eqb m (py_dict_keys mo))
                                    then py_dict_set String.eqb mo m ([] : list operation) else mo) m = Ok l.
Proof.
  rewrite (mem_keys_get String.eqb string_eqb_eq). destruct (py_dict_get String.eqb mo m) as [l|e] eqn:E; cbn [is_ok negb].
  - exists l. exact E.
  - exists []. apply (dict_get_set_same String.eqb string_eqb_eq).
Qed.

Lemma mk_dwvar_py_ghost id o q vals : mk_dwvar_py (Z.of_nat q) vals = do v <- mk_dwvar id o q vals; Ok (ghost v).
Proof.
  unfold mk_dwvar_py, mk_dwvar. rewrite Nat2Z.id.
  destruct (List.length vals <? 1)%nat; [reflexivity|]. destruct (negb (nodupZ vals)); reflexivity.
Qed.

Lemma var_nq_ghost v : var_nq (ghost v) = var_nq v.
Proof. reflexivity. Qed.

Lemma counts_fold_state o vals : forall st,
  fold_left (fun st t => mkSt (st_mo st) (st_vars st) (py_dict_set ckey_eqb (st_counts st) (o, t) 0) (st_nq st) (st_prepared st)) vals st
  = mkSt (st_mo st) (st_vars st) (counts_init (st_counts st) o vals) (st_nq st) (st_prepared st).
Proof.
  unfold counts_init. induction vals as [|t r IH]; intros st; [destruct st; reflexivity|].
  cbn [fold_left]. rewrite IH. reflexivity.
Qed.

Lemma nq_add_vars vs : forall st, st_nq (fold_left add_var vs st) = st_nq st + Z.of_nat (sum_nq vs).
Proof.
  induction vs as [|v r IH]; intros st; cbn [fold_left sum_nq fold_right]; [lia|].
  rewrite IH. cbn [add_var st_nq]. fold (sum_nq r). lia.
Qed.

Lemma prepared_add_vars vs : forall st, st_prepared (fold_left add_var vs st) = st_prepared st.
Proof. induction vs as [|v r IH]; intros st; cbn [fold_left]; [reflexivity|]. now rewrite IH. Qed.

(* ---- the state _prepare_encoding leaves satisfies what the pair-term links assume (their hypotheses Hv / Hc), provided the
   operations are pairwise different (a well-formed instance: the same assumption under which the hand-written model
   carries each variable next to its operation instead of in a dict), and the pair terms preserve it. *)
Lemma op_eqb_neq a b : a <> b -> op_eqb a b = false.
Proof. intros H. destruct (op_eqb a b) eqn:E; [|reflexivity]. apply op_eqb_eq in E. contradiction. Qed.

Lemma vars_lookup_kept vs : forall st k x, ~ In k (map v_op vs) -> py_dict_get op_eqb (st_vars st) k = Ok x ->
  py_dict_get op_eqb (st_vars (fold_left add_var vs st)) k = Ok x.
Proof.
  induction vs as [|v r IH]; intros st k x Hk Hget; [exact Hget|]. cbn [fold_left]. apply IH.
  - intros H. apply Hk. now right.
  - cbn [add_var st_vars]. rewrite (dict_get_set op_eqb op_eqb_eq), op_eqb_neq; [exact Hget|].
    intros E. apply Hk. left. exact E.
Qed.

Lemma vars_lookup vs : NoDup (map v_op vs) -> forall st v, In v vs ->
  py_dict_get op_eqb (st_vars (fold_left add_var vs st)) (v_op v) = Ok (ghost v).
Proof.
  induction vs as [|w r IH]; intros Hnd st v Hv; [contradiction|]. cbn [map] in Hnd. inversion Hnd as [|? ? Hnot Hnd']; subst.
  cbn [fold_left]. destruct Hv as [->|Hv]; [|now apply IH].
  apply vars_lookup_kept; [exact Hnot|]. cbn [add_var st_vars]. apply (dict_get_set_same op_eqb op_eqb_eq).
Qed.

Lemma counts_init_keeps o vals : forall c k, is_ok (py_dict_get ckey_eqb c k) = true ->
  is_ok (py_dict_get ckey_eqb (counts_init c o vals) k) = true.
Proof.
  unfold counts_init. induction vals as [|t r IH]; intros c k H; [exact H|]. cbn [fold_left]. apply IH. now apply dict_set_keeps.
Qed.

Lemma counts_init_covers o vals : forall c, covers (counts_init c o vals) o vals.
Proof.
  unfold counts_init. induction vals as [|t r IH]; intros c x Hx; [contradiction|]. cbn [fold_left].
  destruct Hx as [->|Hx]; [|now apply IH].
  apply (counts_init_keeps o r). now rewrite (dict_get_set_same ckey_eqb ckey_eqb_eq).
Qed.

Lemma counts_kept vs : forall st k, is_ok (py_dict_get ckey_eqb (st_counts st) k) = true ->
  is_ok (py_dict_get ckey_eqb (st_counts (fold_left add_var vs st)) k) = true.
Proof.
  induction vs as [|v r IH]; intros st k H; [exact H|]. cbn [fold_left]. apply IH. cbn [add_var st_counts]. now apply counts_init_keeps.
Qed.

Lemma counts_cover vs : forall st v, In v vs -> covers (st_counts (fold_left add_var vs st)) (v_op v) (v_values v).
Proof.
  induction vs as [|w r IH]; intros st v Hv; [contradiction|]. cbn [fold_left]. destruct Hv as [->|Hv]; [|now apply IH].
  intros t Ht. apply counts_kept. cbn [add_var st_counts]. now apply counts_init_covers.
Qed.

(* after _prepare_encoding: every variable of the model's encoding is found under its operation, with its counts *)
Lemma prepared_state_ok e v : NoDup (map v_op (e_vars e)) -> In v (e_vars e) ->
  py_dict_get op_eqb (st_vars (state_of_enc e)) (v_op v) = Ok (ghost v)
  /\ covers (st_counts (state_of_enc e)) (v_op v) (v_values v).
Proof.
  intros Hnd Hv. unfold state_of_enc, set_prepared. cbn [st_vars st_counts]. split; [now apply vars_lookup | now apply counts_cover].
Qed.

(* the increments of a pair term keep every entry *)
Lemma covers_plan_bump o1 o2 p c o vals : covers c o vals -> covers (dict_plan_bump o1 o2 p c) o vals.
Proof.
  destruct p as [|v1 v2 pairs]; cbn [dict_plan_bump]; [exact (fun H => H)|]. unfold dict_bump. revert c.
  induction pairs as [|q r IH]; intros c H; [exact H|]. cbn [fold_left]. apply IH. now apply covers_inc, covers_inc.
Qed.

(* _machine_operations: the implementation's dict of operations is the model's dict of variables (Encoder.mo_add) read
   through v_op *)
Definition mo_ops (mo : list (string * list dwvar)) : list (string * list operation) := map (fun ml => (fst ml, map v_op (snd ml))) mo.

Fixpoint mo_add_op (o : operation) (mo : list (string * list operation)) : list (string * list operation) :=
  match mo with
  | [] => [(op_machine o, [o])]
  | (m, l) :: r => if String.eqb m (op_machine o) then (m, (l ++ [o])%list) :: r else (m, l) :: mo_add_op o r
  end.

Lemma mo_get_cons m' (l : list operation) r m :
  py_dict_get String.eqb ((m', l) :: r) m = if String.eqb m' m then Ok l else py_dict_get String.eqb r m.
Proof. unfold py_dict_get. cbn [find fst snd]. destruct (String.eqb m' m); reflexivity. Qed.

Lemma mo_step_mo_add_op o : forall mo, mo_step mo o = mo_add_op o mo.
Proof.
  unfold mo_step. set (m := op_machine o). intros mo.
  rewrite (mem_keys_get String.eqb string_eqb_eq).
  induction mo as [|[m' l] r IH].
  - cbn [py_dict_get find is_ok negb py_dict_set]. rewrite mo_get_cons, String.eqb_refl. cbn [py_dict_set fst].
    rewrite String.eqb_refl. reflexivity.
  - cbn [mo_add_op]. fold m. rewrite mo_get_cons. destruct (String.eqb m' m) eqn:E.
    + cbn [is_ok negb]. rewrite mo_get_cons, E. cbn [py_dict_set fst]. rewrite E. reflexivity.
    + rewrite <- IH. destruct (py_dict_get String.eqb r m) as [l0|e] eqn:Eg; cbn [is_ok negb].
      * rewrite mo_get_cons, E, Eg. cbn [py_dict_set fst]. rewrite E. reflexivity.
      * cbn [py_dict_set fst]. rewrite E. rewrite mo_get_cons, E.
        rewrite (dict_get_set_same String.eqb string_eqb_eq). cbn [py_dict_set fst]. rewrite E. reflexivity.
Qed.

Lemma mo_add_op_mo_add v : forall mo, mo_add_op (v_op v) (mo_ops mo) = mo_ops (mo_add v mo).
Proof.
  induction mo as [|[m l] r IH]; [reflexivity|]. cbn [mo_ops map fst snd mo_add_op mo_add]. fold (mo_ops r).
  destruct (String.eqb m (op_machine (v_op v))); cbn [mo_ops map fst snd]; [now rewrite map_app|]. fold (mo_ops r).
  fold (mo_ops (mo_add v r)). now rewrite IH.
Qed.

Lemma mo_step_mo_add v mo : mo_step (mo_ops mo) (v_op v) = mo_ops (mo_add v mo).
Proof. now rewrite mo_step_mo_add_op, mo_add_op_mo_add. Qed.

(* hence the machine dict of the prepared state is the model's machine_ops *)
Lemma st_mo_fold vs : forall st mo, st_mo st = mo_ops mo ->
  st_mo (fold_left add_var vs st) = mo_ops (fold_left (fun mo v => mo_add v mo) vs mo).
Proof.
  induction vs as [|v r IH]; intros st mo H; [exact H|]. cbn [fold_left]. apply IH. cbn [add_var st_mo]. rewrite H. apply mo_step_mo_add.
Qed.

Lemma st_mo_state_of_enc e : st_mo (state_of_enc e) = mo_ops (machine_ops (e_vars e)).
Proof. unfold state_of_enc, set_prepared, machine_ops. cbn [st_mo]. now apply st_mo_fold. Qed.

(* ================================================================================== PART 4: DomainWallVariable.__init__
   {value: i for i, value in enumerate(values)} is the list of (value, position) exactly when the values are pairwise
   different, and is shorter than `values` otherwise (the constructor's second ValueError). *)
Definition haskey (d : list (Z * Z)) (x : Z) : bool := existsb (fun kv => fst kv =? x) d.
Definition build_dict (acc : list (Z * Z)) (k : nat) (l : list Z) : list (Z * Z) :=
  fold_left (fun d kv => py_dict_set Z.eqb d (fst kv) (snd kv))
            (map (fun '(i, value_) => (value_, i)) (combine (map Z.of_nat (seq k (List.length l))) l)) acc.
Definition bad (acc : list (Z * Z)) (l : list Z) : bool := negb (nodupZ l) || existsb (haskey acc) l.

Lemma set_fresh d x v : haskey d x = false -> py_dict_set Z.eqb d x v = (d ++ [(x, v)])%list.
Proof.
  unfold haskey. induction d as [|kv t IH]; cbn [existsb py_dict_set app]; [reflexivity|].
  destruct (fst kv =? x); cbn [orb]; [discriminate|]. intros H. now rewrite IH.
Qed.

Lemma set_present_length d x v : haskey d x = true -> List.length (py_dict_set Z.eqb d x v) = List.length d.
Proof.
  unfold haskey. induction d as [|kv t IH]; cbn [existsb py_dict_set]; [discriminate|].
  destruct (fst kv =? x); cbn [orb List.length]; [reflexivity|]. intros H. now rewrite IH.
Qed.

Lemma haskey_app d y v x : haskey (d ++ [(y, v)]) x = haskey d x || (y =? x).
Proof. unfold haskey. rewrite existsb_app. cbn [existsb fst]. now rewrite orb_false_r. Qed.

Lemma build_dict_cons acc k x r : build_dict acc k (x :: r) = build_dict (py_dict_set Z.eqb acc x (Z.of_nat k)) (S k) r.
Proof. reflexivity. Qed.

Lemma build_dict_length_le : forall l acc k, (List.length (build_dict acc k l) <= List.length acc + List.length l)%nat.
Proof.
  induction l as [|x r IH]; intros acc k; [cbn; lia|]. rewrite build_dict_cons. specialize (IH (py_dict_set Z.eqb acc x (Z.of_nat k)) (S k)).
  destruct (haskey acc x) eqn:E.
  - rewrite (set_present_length _ _ _ E) in IH. cbn [List.length]. lia.
  - rewrite (set_fresh _ _ _ E) in *. rewrite app_length in IH. cbn [List.length] in *. lia.
Qed.

Lemma memZ_existsb x l : memZ x l = existsb (fun y => x =? y) l.
Proof. induction l as [|y r IH]; [reflexivity|]. cbn [memZ existsb]. now rewrite IH. Qed.

Lemma bad_step acc x k r : haskey acc x = false -> bad acc (x :: r) = bad (acc ++ [(x, Z.of_nat k)]) r.
Proof.
  intros E. unfold bad. cbn [nodupZ existsb]. rewrite E. cbn [orb].
  assert (H : existsb (haskey (acc ++ [(x, Z.of_nat k)])) r = existsb (haskey acc) r || memZ x r).
  { rewrite memZ_existsb. induction r as [|y t IH]; [reflexivity|]. cbn [existsb]. rewrite IH, haskey_app.
    destruct (haskey acc y), (x =? y), (existsb (haskey acc) t), (existsb (fun y0 => x =? y0) t); reflexivity. }
  rewrite H. destruct (memZ x r), (nodupZ r), (existsb (haskey acc) r); reflexivity.
Qed.

Lemma build_dict_good : forall l acc k, bad acc l = false -> build_dict acc k l = (acc ++ index_dict_from k l)%list.
Proof.
  induction l as [|x r IH]; intros acc k H; [cbn; now rewrite app_nil_r|]. rewrite build_dict_cons.
  assert (E : haskey acc x = false).
  { unfold bad in H. cbn [existsb] in H. destruct (haskey acc x); [|reflexivity]. now rewrite orb_true_r in H. }
  rewrite (bad_step acc x k r E) in H. rewrite (set_fresh _ _ _ E), (IH _ (S k) H), <- app_assoc. reflexivity.
Qed.

Lemma build_dict_bad : forall l acc k, bad acc l = true -> (List.length (build_dict acc k l) < List.length acc + List.length l)%nat.
Proof.
  induction l as [|x r IH]; intros acc k H; [discriminate|]. rewrite build_dict_cons. cbn [List.length].
  destruct (haskey acc x) eqn:E.
  - pose proof (build_dict_length_le r (py_dict_set Z.eqb acc x (Z.of_nat k)) (S k)) as Hle.
    rewrite (set_present_length _ _ _ E) in Hle. lia.
  - rewrite (bad_step acc x k r E) in H. rewrite (set_fresh _ _ _ E). specialize (IH _ (S k) H). rewrite app_length in IH. cbn [List.length] in IH. lia.
Qed.

Lemma index_dict_length k l : List.length (index_dict_from k l) = List.length l.
Proof. unfold index_dict_from. rewrite combine_length, map_length, seq_length. lia. Qed.

(* the constructor, in the shape the translator generates it *)
Lemma dwv_init_model id o q (vals : list Z) :
  (if py_len vals <? 1 then Err "ValueError"%string
   else let idx := build_dict [] 0 vals in
        if negb (py_len vals =? py_len idx) then Err "ValueError"%string
        else Ok (mkDWC idx (py_len vals - 1)))
  = do v <- mk_dwvar id o q vals; Ok (mkDWC (dw_value_indices v) (Z.of_nat (var_nq v))).
Proof.
  unfold mk_dwvar, py_len.
  replace (Z.of_nat (List.length vals) <? 1) with (List.length vals <? 1)%nat
    by (destruct (Nat.ltb_spec (List.length vals) 1); symmetry; [apply Z.ltb_lt | apply Z.ltb_ge]; lia).
  destruct (Nat.ltb_spec (List.length vals) 1) as [Hl|Hl]; [reflexivity|]. cbv zeta.
  destruct (nodupZ vals) eqn:Hn; cbn [negb bind].
  - assert (Hb : bad [] vals = false).
    { unfold bad. rewrite Hn. cbn [negb orb]. clear. induction vals as [|x r IH]; [reflexivity|]. cbn [existsb haskey]. exact IH. }
    rewrite (build_dict_good vals [] 0 Hb). cbn [app]. rewrite index_dict_length, Z.eqb_refl. cbn [negb].
    unfold dw_value_indices, var_nq. cbn [v_values]. do 2 f_equal. lia.
  - assert (Hb : bad [] vals = true) by (unfold bad; now rewrite Hn).
    pose proof (build_dict_bad vals [] 0 Hb) as Hlt. cbn [List.length Nat.add] in Hlt.
    replace (Z.of_nat (List.length vals) =? Z.of_nat (List.length (build_dict [] 0 vals))) with false
      by (symmetry; apply Z.eqb_neq; lia). reflexivity.
Qed.

(* ================================================================================== PART 5: prepare_encoding / makespan term, model-side facts *)
Lemma mk_dwvar_ok id o q vals v : mk_dwvar id o q vals = Ok v -> v = mkVar id o q vals.
Proof. unfold mk_dwvar. destruct (List.length vals <? 1)%nat; [discriminate|]. destruct (negb (nodupZ vals)); [discriminate|]. now intros [= <-]. Qed.

Lemma st_nq_state_of_enc I L e : prepare_encoding I L = Ok e -> st_nq (state_of_enc e) = Z.of_nat (e_nq e).
Proof.
  unfold prepare_encoding. destruct (prep_jobs L 0 0 (inst_jobs I)) as [js|]; cbn [bind]; [|discriminate]. intros [= <-].
  unfold state_of_enc, set_prepared, e_vars. cbn [st_nq e_jobs e_nq]. rewrite nq_add_vars. reflexivity.
Qed.

(* the model's encoding has one variable per operation, job by job *)
Lemma prep_ops_ops L : forall ops so eo q id vs, prep_ops L so eo q id ops = Ok vs -> map v_op vs = ops.
Proof.
  induction ops as [|o r IH]; intros so eo q id vs; cbn [prep_ops]; [now intros [= <-]|].
  destruct (mk_dwvar id o q _) as [v|] eqn:Ev; cbn [bind]; [|discriminate].
  destruct (prep_ops L _ _ _ _ r) as [vs'|] eqn:Er; cbn [bind]; [|discriminate]. intros [= <-].
  apply mk_dwvar_ok in Ev. subst v. cbn [map v_op]. f_equal. eapply IH, Er.
Qed.

Lemma prep_jobs_ops L : forall jobs q id js, prep_jobs L q id jobs = Ok js -> map (map v_op) js = map job_ops jobs.
Proof.
  induction jobs as [|j r IH]; intros q id js; cbn [prep_jobs]; [now intros [= <-]|].
  destruct (job_total j >? L); [discriminate|].
  destruct (prep_ops L 0 _ q id (job_ops j)) as [vs|] eqn:Ev; cbn [bind]; [|discriminate].
  destruct (prep_jobs L _ _ r) as [rest|] eqn:Er; cbn [bind]; [|discriminate]. intros [= <-].
  cbn [map]. f_equal; [eapply prep_ops_ops, Ev | eapply IH, Er].
Qed.

Lemma last_opt_map {A B} (f : A -> B) : forall l, last_opt (map f l) = option_map f (last_opt l).
Proof. induction l as [|x r IH]; [reflexivity|]. destruct r as [|y r']; [reflexivity|]. exact IH. Qed.

Lemma py_index_m1_last_opt {A} (l : list A) :
  py_index l (-1) = match last_opt l with Some x => Ok x | None => Err IndexError end.
Proof.
  rewrite py_index_last. destruct l as [|x r]; [reflexivity|]. rewrite nth_error_last_opt by congruence.
  destruct (last_opt (x :: r)); reflexivity.
Qed.

Lemma qdiv_shape p m : m <> 0 ->
  qdiv (inject_Z p) (inject_Z m) = Ok ((1 # 1) / inject_Z m * inject_Z p)%Q.
Proof.
  intros Hm. unfold qdiv.
  destruct (Qeq_bool (inject_Z m) 0) eqn:E.
  { apply Qeq_bool_iff in E. unfold Qeq, inject_Z in E. cbn [Qnum Qden] in E. lia. }
  f_equal. unfold Qdiv, Qinv, Qmult, inject_Z. cbn [Qnum Qden].
  destruct m as [|d|d]; [contradiction| |]; cbn [Qnum Qden]; f_equal; try ring; now rewrite Pos.mul_1_r.
Qed.
