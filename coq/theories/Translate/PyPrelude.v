(* Target vocabulary of the Python->Gallina translator (/verif/translator/py2gallina.py).  Definitions only.

   Every definition below is the translator's reading of one Python built-in / statement form; together with the
   translator itself they are the TRUSTED part of the translation tie (DESIGN.md section 6, translator/README.md):
   nothing here is proved against CPython.  Each is a few lines and follows the Python language reference.
   The generated modules (build/gen*/QVGen/*.v) use only these names, the stdlib and the model's own record
   projections; the link files (coq/link/*.v) prove the generated definitions equal to the hand-written models, so a
   mistake in THIS file shows up as an unprovable link lemma or as a disagreement with the per-run differential
   check, not silently.

   Conventions: Python int = Z, float = Q (exact rationals: rounding is not modelled), str = string, list/tuple =
   list, dict = association list in insertion order (first binding wins on lookup; keys pairwise different by
   construction), set = list read up to membership (only len / in / == / add are offered on it). *)
From QV Require Export Common.Base.
From Coq Require Export QArith Qabs.
Open Scope Z_scope.

(* ------------------------------------------------------------------------------------------------ loops *)
(* what one execution of a loop body does: fall through with a new loop state, or leave the function (return r) *)
Inductive ctl (R S : Type) : Type :=
| Next (s : S)
| Ret (r : R).
Arguments Next {R S} s.
Arguments Ret {R S} r.

(* for x in xs: body   — body may raise (Err), return (Ret) or fall through (Next) *)
Fixpoint py_for {A R S} (xs : list A) (body : A -> S -> result (ctl R S)) (s : S) : result (ctl R S) :=
  match xs with
  | [] => Ok (Next s)
  | x :: t => match body x s with
              | Ok (Next s') => py_for t body s'
              | Ok (Ret r) => Ok (Ret r)
              | Err e => Err e
              end
  end.

(* the same for a body that cannot raise *)
Fixpoint py_for_pure {A R S} (xs : list A) (body : A -> S -> ctl R S) (s : S) : ctl R S :=
  match xs with
  | [] => Next s
  | x :: t => match body x s with
              | Next s' => py_for_pure t body s'
              | Ret r => Ret r
              end
  end.

(* a body that may raise but never returns / breaks: monadic left fold *)
Fixpoint py_foldM {A S} (body : S -> A -> result S) (xs : list A) (s : S) : result S :=
  match xs with
  | [] => Ok s
  | x :: t => match body s x with Ok s' => py_foldM body t s' | Err e => Err e end
  end.

(* `break`: the loop ends, the function goes on with the state reached (Ret carries that state) *)
Fixpoint py_for_break {A S} (xs : list A) (body : A -> S -> S * bool) (s : S) : S :=
  match xs with
  | [] => s
  | x :: t => let '(s', brk) := body x s in if brk then s' else py_for_break t body s'
  end.

(* ------------------------------------------------------------------------------------------------ sequences *)
Definition py_len {A} (l : list A) : Z := Z.of_nat (List.length l).
Definition py_str_len (s : string) : Z := Z.of_nat (String.length s).

(* x in l *)
Definition py_mem {A} (eqb : A -> A -> bool) (x : A) (l : list A) : bool := existsb (eqb x) l.

(* l[i]: a negative index wraps once, anything else out of range raises IndexError *)
Definition py_index {A} (l : list A) (i : Z) : result A :=
  let n := py_len l in
  let j := if i <? 0 then i + n else i in
  if (j <? 0) || (n <=? j) then Err "IndexError"
  else match nth_error l (Z.to_nat j) with Some x => Ok x | None => Err "IndexError" end.

(* l[lo:hi] (step 1): absent bound = None; negative bounds are taken from the end; both are clamped *)
Definition py_clamp (n : Z) (i : Z) : Z := if i <? 0 then Z.max 0 (i + n) else Z.min i n.
Definition py_slice {A} (l : list A) (lo hi : option Z) : list A :=
  let n := py_len l in
  let a := match lo with Some i => py_clamp n i | None => 0 end in
  let b := match hi with Some i => py_clamp n i | None => n end in
  firstn (Z.to_nat (b - a)) (skipn (Z.to_nat a) l).

(* range(lo, hi) *)
Definition py_range (lo hi : Z) : list Z := map (fun k => lo + Z.of_nat k) (seq 0 (Z.to_nat (hi - lo))).

(* enumerate(l) *)
Definition py_enumerate {A} (l : list A) : list (Z * A) := combine (map Z.of_nat (seq 0 (List.length l))) l.

(* sum(l) over ints / floats: left to right from 0 *)
Definition py_sum_Z (l : list Z) : Z := fold_left Z.add l 0.
Definition py_sum_Q (l : list Q) : Q := fold_left Qplus l (0 # 1)%Q.

(* sorted(l, key=k): Python's sort is stable; insertion sort that puts x in front of the first element to its right
   whose key is not smaller (le = "<=" on the key type) *)
Fixpoint py_insert_by {A K} (le : K -> K -> bool) (key : A -> K) (x : A) (l : list A) : list A :=
  match l with
  | [] => [x]
  | y :: ys => if le (key x) (key y) then x :: l else y :: py_insert_by le key x ys
  end.
Definition py_sorted_by {A K} (le : K -> K -> bool) (key : A -> K) (l : list A) : list A :=
  fold_right (py_insert_by le key) [] l.

(* ------------------------------------------------------------------------------------------------ sets (as lists) *)
Fixpoint py_dedup {A} (eqb : A -> A -> bool) (l : list A) : list A :=
  match l with
  | [] => []
  | x :: t => if py_mem eqb x t then py_dedup eqb t else x :: py_dedup eqb t
  end.
(* len(s) for a set s given by the list of the elements put into it *)
Definition py_set_len {A} (eqb : A -> A -> bool) (l : list A) : Z := py_len (py_dedup eqb l).
(* s == t on sets *)
Definition py_set_eqb {A} (eqb : A -> A -> bool) (a b : list A) : bool :=
  forallb (fun x => py_mem eqb x b) a && forallb (fun x => py_mem eqb x a) b.

(* ------------------------------------------------------------------------------------------------ dicts (association lists) *)
(* d[k] *)
Definition py_dict_get {K V} (eqb : K -> K -> bool) (d : list (K * V)) (k : K) : result V :=
  match find (fun kv => eqb (fst kv) k) d with Some kv => Ok (snd kv) | None => Err "KeyError" end.
(* d[k] = v : replaces the value of an existing key in place, else appends *)
Fixpoint py_dict_set {K V} (eqb : K -> K -> bool) (d : list (K * V)) (k : K) (v : V) : list (K * V) :=
  match d with
  | [] => [(k, v)]
  | kv :: t => if eqb (fst kv) k then (fst kv, v) :: t else kv :: py_dict_set eqb t k v
  end.
Definition py_dict_keys {K V} (d : list (K * V)) : list K := map fst d.
Definition py_dict_values {K V} (d : list (K * V)) : list V := map snd d.

(* ------------------------------------------------------------------------------------------------ numbers *)
(* a // b and a % b: Coq's Z.div / Z.modulo round towards minus infinity like Python; a zero divisor raises *)
Definition py_floordiv (a b : Z) : result Z := if b =? 0 then Err "ZeroDivisionError" else Ok (a / b).
Definition py_mod (a b : Z) : result Z := if b =? 0 then Err "ZeroDivisionError" else Ok (a mod b).

(* max(l) / min(l) of a sequence: ValueError when empty; the first extremal element is kept *)
Definition py_max_Z (l : list Z) : result Z :=
  match l with [] => Err "ValueError" | x :: t => Ok (fold_left (fun cur it => if cur <? it then it else cur) t x) end.
Definition py_min_Z (l : list Z) : result Z :=
  match l with [] => Err "ValueError" | x :: t => Ok (fold_left (fun cur it => if it <? cur then it else cur) t x) end.
(* max(a, b): b if b > a else a;  min(a, b): b if b < a else a *)
Definition py_max2_Z (a b : Z) : Z := if a <? b then b else a.
Definition py_min2_Z (a b : Z) : Z := if b <? a then b else a.

(* floats as exact rationals *)
Definition Qltb (x y : Q) : bool := negb (Qle_bool y x).
(* a / b on floats: ZeroDivisionError for a zero divisor (plain Python floats; numpy scalars differ) *)
Definition qdiv (a b : Q) : result Q := if Qeq_bool b 0 then Err "ZeroDivisionError" else Ok (a / b)%Q.
Definition py_max_Q (l : list Q) : result Q :=
  match l with [] => Err "ValueError" | x :: t => Ok (fold_left (fun cur it => if Qltb cur it then it else cur) t x) end.
Definition py_min_Q (l : list Q) : result Q :=
  match l with [] => Err "ValueError" | x :: t => Ok (fold_left (fun cur it => if Qltb it cur then it else cur) t x) end.
Definition py_max2_Q (a b : Q) : Q := if Qltb a b then b else a.
Definition py_min2_Q (a b : Q) : Q := if Qltb b a then b else a.

(* `break` in a loop whose body may raise: like py_for_break, the body answers Err or the new state and "did break" *)
Fixpoint py_for_breakM {A S} (xs : list A) (body : A -> S -> result (S * bool)) (s : S) : result S :=
  match xs with
  | [] => Ok s
  | x :: t => match body x s with
              | Ok (s', brk) => if brk then Ok s' else py_for_breakM t body s'
              | Err e => Err e
              end
  end.

(* l[i] = v on a list (item assignment): a negative index wraps once, anything else out of range raises IndexError *)
Fixpoint py_set_nth {A} (l : list A) (n : nat) (v : A) : list A :=
  match l, n with
  | [], _ => []
  | _ :: t, O => v :: t
  | x :: t, S n' => x :: py_set_nth t n' v
  end.
Definition py_list_set {A} (l : list A) (i : Z) (v : A) : result (list A) :=
  let n := py_len l in
  let j := if i <? 0 then i + n else i in
  if (j <? 0) || (n <=? j) then Err "IndexError" else Ok (py_set_nth l (Z.to_nat j) v).

(* [e for x in xs if c] where the filter c may raise: the items are tested in order, the first exception ends the
   comprehension (nothing is produced) *)
Fixpoint py_filterM {A} (c : A -> result bool) (xs : list A) : result (list A) :=
  match xs with
  | [] => Ok []
  | x :: t => do b <- c x; do r <- py_filterM c t; Ok (if b then x :: r else r)
  end.

(* ------------------------------------------------------------------------------------------------ while (idiom while-as-fuel) *)
(* while c: body   — the test is evaluated first; if it holds and the fuel is used up the answer is Err "OutOfFuel"
   (not a Python exception: the loop did not end within the fuel), else the body runs with one unit of fuel less.
   The body may raise (Err), return (Ret) or fall through (Next); the test may raise. *)
Fixpoint py_while {R S} (fuel : nat) (cond : S -> result bool) (body : S -> result (ctl R S)) (s : S) {struct fuel}
  : result (ctl R S) :=
  match cond s with
  | Err e => Err e
  | Ok false => Ok (Next s)
  | Ok true =>
      match fuel with
      | O => Err "OutOfFuel"
      | S fuel' => match body s with
                   | Ok (Next s') => py_while fuel' cond body s'
                   | Ok (Ret r) => Ok (Ret r)
                   | Err e => Err e
                   end
      end
  end.

(* [e for x in xs] where evaluating e consumes a threaded state (idiom rng-as-decision-stream): items in order *)
Fixpoint py_mapM_st {A B S} (f : A -> S -> result (B * S)) (xs : list A) (s : S) : result (list B * S) :=
  match xs with
  | [] => Ok ([], s)
  | x :: t => do r <- f x s; do r' <- py_mapM_st f t (snd r); Ok (fst r :: fst r', snd r')
  end.

(* l.remove(x): drops the first item equal to x, ValueError if there is none *)
Fixpoint py_list_remove {A} (eqb : A -> A -> bool) (l : list A) (x : A) : result (list A) :=
  match l with
  | [] => Err "ValueError"
  | h :: t => if eqb h x then Ok t else do t' <- py_list_remove eqb t x; Ok (h :: t')
  end.

(* a, b = xs for a list xs: ValueError unless xs has exactly two items *)
Definition py_unpack2 {A} (xs : list A) : result (A * A) :=
  match xs with [a; b] => Ok (a, b) | _ => Err "ValueError" end.

(* ------------------------------------------------------------------------------------------------ binary rendering (idiom format-bin-zfill) *)
(* format(k, "b").zfill(n) for ints k and n: the binary digits of |k|, most significant first ("0" for k = 0), behind a
   '-' when k < 0; the digits are left-padded with '0' (BETWEEN the sign and the digits, str.zfill keeps a leading sign
   first) until the whole text, sign included, has at least n characters.  No padding for n <= len (in particular n <= 0);
   k >= 2^n gives more than n characters.  CPython 3.12: format(5,"b").zfill(5) = "00101", format(-5,"b").zfill(6) =
   "-00101", format(-5,"b").zfill(4) = "-101", format(0,"b").zfill(3) = "000", format(8,"b").zfill(3) = "1000". *)
Fixpoint py_bin_digits_pos (p : positive) : string :=
  match p with
  | xH => "1"%string
  | xO q => (py_bin_digits_pos q ++ "0")%string
  | xI q => (py_bin_digits_pos q ++ "1")%string
  end.
(* format(abs(k), "b") *)
Definition py_bin_digits (k : Z) : string :=
  match k with Z0 => "0"%string | Zpos p => py_bin_digits_pos p | Zneg p => py_bin_digits_pos p end.
Fixpoint py_zeros (n : nat) : string := match n with O => EmptyString | S m => String "0" (py_zeros m) end.
Definition py_format_bin_zfill (k n : Z) : string :=
  let sign := if k <? 0 then "-"%string else EmptyString in
  let digits := py_bin_digits k in
  (sign ++ py_zeros (Z.to_nat (n - py_str_len sign - py_str_len digits)) ++ digits)%string.
(* format(k, f"0{n}b"): the format spec is "0" + str(n) + "b".  For n >= 0 that is zero-padding to width n, sign-aware: the
   SAME text as format(k, "b").zfill(n), for every int k (checked against CPython for k in -40..70, +-(2^70+5), +-2^64 and
   n in 0..79).  For n < 0 the spec reads "0-3b", which CPython rejects: ValueError (Invalid format specifier) — the two
   Python forms differ exactly there.  (A width of more than ~18 decimal digits is a ValueError / MemoryError in CPython:
   not modelled, like the unboundedness of int.) *)
Definition py_format_bin_fspec (k n : Z) : result string :=
  if n <? 0 then Err "ValueError" else Ok (py_format_bin_zfill k n).
