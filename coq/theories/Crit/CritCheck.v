(* Correspondence entry point for C13: each case carries what the implementation answered at every step (answer or
   exception class, for the SPSA checker also the public properties after the call); check_case says whether the model
   variant selected by the case's flags answers the same.  The harness always passes [repaired]; the replay also tries
   the legacy variants to say which pre-fix behaviour an implementation agrees with. *)
From QV Require Import Common.Base Crit.Criteria Crit.Spsa.
From Coq Require Import QArith.

Definition ext_eqb (a b : ext) : bool :=
  match a, b with
  | Fin x, Fin y => Qeq_bool x y
  | Inf, Inf => true
  | _, _ => false
  end.

Definition obs_eqb (a b : spsa_obs) : bool :=
  result_eqb Bool.eqb (o_answer a) (o_answer b)
  && Z.eqb (o_nfe a) (o_nfe b)
  && list_eqb Qeq_bool (o_fv a) (o_fv b)
  && list_eqb Z.eqb (o_nh a) (o_nh b)
  && ext_eqb (o_best a) (o_best b)
  && option_eqb Z.eqb (o_par a) (o_par b).

Inductive c13case :=
| CCrit (fl : flags) (k : kind) (thr : Q) (v : Z) (ops : list op) (expected : result (list (result bool)))
| CSpsa (fl : flags) (thr : Q) (v : nat) (maxfev : option Z) (h : list spsa_in) (expected : list spsa_obs).

Definition check_case (c : c13case) : bool :=
  match c with
  | CCrit fl k thr v ops expected =>
      result_eqb (list_eqb (result_eqb Bool.eqb)) (run_criterion fl k thr v ops) expected
  | CSpsa fl thr v maxfev h expected =>
      list_eqb obs_eqb (spsa_trace fl thr v maxfev spsa_init h) expected
  end.

(* what the model answers (for replay files) *)
Definition show_case (c : c13case) : result (list (result bool)) :=
  match c with
  | CCrit fl k thr v ops _ => run_criterion fl k thr v ops
  | CSpsa fl thr v maxfev h _ => Ok (spsa_run fl thr v maxfev spsa_init h)
  end.

Definition mk_in (n par : Z) (f : Q) (acc : bool) : spsa_in := {| si_n := n; si_par := par; si_f := f; si_acc := acc |}.
Definition mk_obs (a : result bool) (n : Z) (fv : list Q) (nh : list Z) (b : ext) (p : option Z) : spsa_obs :=
  {| o_answer := a; o_nfe := n; o_fv := fv; o_nh := nh; o_best := b; o_par := p |}.
Definition mk_ev (b : Q) (l : list (option Q)) : evaluation := {| best := b; values := l |}.
