(* C13 — proofs about the termination-criteria model (Crit/Criteria.v): the step machines answer exactly what the
   documented specification [terminate_at] says, on every history, without raising. *)
From QV Require Import Common.Base Crit.Criteria Crit.Spsa.
From Coq Require Import QArith Qabs Lqa Lia.
Open Scope Q_scope.

(* ------------------------------------------------------------------------------------------------ boolean comparisons *)
Lemma Qle_bool_false_iff x y : Qle_bool x y = false <-> y < x.
Proof.
  split; intros H.
  - destruct (Qlt_le_dec y x) as [L|L]; [exact L|]. apply Qle_bool_iff in L. congruence.
  - destruct (Qle_bool x y) eqn:E; [|reflexivity]. apply Qle_bool_iff in E. lra.
Qed.

Lemma Qltb_true_iff x y : Qltb x y = true <-> x < y.
Proof. unfold Qltb. rewrite negb_true_iff. apply Qle_bool_false_iff. Qed.

Lemma Qltb_false_iff x y : Qltb x y = false <-> y <= x.
Proof. unfold Qltb. rewrite negb_false_iff. apply Qle_bool_iff. Qed.

Lemma Qltb_ext a b c d : (a < b <-> c < d) -> Qltb a b = Qltb c d.
Proof.
  intros H. destruct (Qltb a b) eqn:E1, (Qltb c d) eqn:E2; try reflexivity.
  - apply Qltb_true_iff in E1. apply Qltb_false_iff in E2. apply H in E1. lra.
  - apply Qltb_true_iff in E2. apply Qltb_false_iff in E1. apply H in E2. lra.
Qed.

(* turn every boolean comparison in the context into a proposition *)
Ltac qb :=
  repeat match goal with
         | H : Qltb _ _ = true |- _ => apply Qltb_true_iff in H
         | H : Qltb _ _ = false |- _ => apply Qltb_false_iff in H
         | H : Qle_bool _ _ = true |- _ => apply Qle_bool_iff in H
         | H : Qle_bool _ _ = false |- _ => apply Qle_bool_false_iff in H
         | H : Qeq_bool _ _ = true |- _ => apply Qeq_bool_iff in H
         | H : Qeq_bool _ _ = false |- _ => apply Qeq_bool_neq in H
         end.

(* ------------------------------------------------------------------------------------------------ running, generically *)
Lemma run_ops_steps {S} (step : S -> evaluation -> S * result bool) (reset : S -> S) (h : list evaluation) :
  forall s ops, run_ops step reset s (map Step h ++ ops) = run step s h ++ run_ops step reset (state_after step s h) ops.
Proof.
  induction h as [|ev h IH]; intros s ops; simpl; [reflexivity|].
  destruct (step s ev) as [s' a] eqn:E. simpl. rewrite IH. reflexivity.
Qed.

Lemma run_ops_only_steps {S} (step : S -> evaluation -> S * result bool) (reset : S -> S) (h : list evaluation) s :
  run_ops step reset s (map Step h) = run step s h.
Proof.
  rewrite <- (app_nil_r (map Step h)), run_ops_steps. simpl. apply app_nil_r.
Qed.

Lemma run_ops_reset_generic {S} (step : S -> evaluation -> S * result bool) (reset : S -> S) (init : S) :
  (forall s, reset s = init) ->
  forall h1 h2, run_ops step reset init (map Step h1 ++ Reset :: map Step h2) = run step init h1 ++ run step init h2.
Proof.
  intros R h1 h2. rewrite run_ops_steps. simpl. rewrite R, run_ops_only_steps. reflexivity.
Qed.

(* ------------------------------------------------------------------------------------------------ 3. threshold *)
Theorem th_refines thr h : run (th_step thr) tt h = map (fun ev => Ok (Qltb (best ev) thr)) h.
Proof. induction h as [|ev h IH]; simpl; [reflexivity|]. rewrite IH. reflexivity. Qed.

(* ------------------------------------------------------------------------------------------------ 7. resets *)
Theorem bc_reset_ok thr v h1 h2 :
  run (bc_step thr v) (best_reset (state_after (bc_step thr v) best_init h1)) h2 = run (bc_step thr v) best_init h2.
Proof. reflexivity. Qed.

Theorem br_reset_ok fl thr v h1 h2 :
  run (br_step fl thr v) (best_reset (state_after (br_step fl thr v) best_init h1)) h2 = run (br_step fl thr v) best_init h2.
Proof. reflexivity. Qed.

Theorem th_reset_ok thr h1 h2 :
  run (th_step thr) ((fun u : unit => u) (state_after (th_step thr) tt h1)) h2 = run (th_step thr) tt h2.
Proof. destruct (state_after (th_step thr) tt h1). reflexivity. Qed.

Theorem pc_reset_ok fl thr v h1 h2 :
  run (pc_step thr v) (pop_reset fl thr v (state_after (pc_step thr v) (pop_init fl thr v) h1)) h2
  = run (pc_step thr v) (pop_init fl thr v) h2.
Proof. reflexivity. Qed.

Theorem pr_reset_ok fl thr v h1 h2 :
  run (pr_step fl thr v) (pop_reset fl thr v (state_after (pr_step fl thr v) (pop_init fl thr v) h1)) h2
  = run (pr_step fl thr v) (pop_init fl thr v) h2.
Proof. reflexivity. Qed.

Theorem bc_reset_ops thr v h1 h2 :
  run_ops (bc_step thr v) best_reset best_init (map Step h1 ++ Reset :: map Step h2)
  = run (bc_step thr v) best_init h1 ++ run (bc_step thr v) best_init h2.
Proof. apply run_ops_reset_generic. reflexivity. Qed.

Theorem br_reset_ops fl thr v h1 h2 :
  run_ops (br_step fl thr v) best_reset best_init (map Step h1 ++ Reset :: map Step h2)
  = run (br_step fl thr v) best_init h1 ++ run (br_step fl thr v) best_init h2.
Proof. apply run_ops_reset_generic. reflexivity. Qed.

Theorem th_reset_ops thr h1 h2 :
  run_ops (th_step thr) (fun u => u) tt (map Step h1 ++ Reset :: map Step h2)
  = run (th_step thr) tt h1 ++ run (th_step thr) tt h2.
Proof. apply run_ops_reset_generic. intros []. reflexivity. Qed.

Theorem pc_reset_ops fl thr v h1 h2 :
  run_ops (pc_step thr v) (pop_reset fl thr v) (pop_init fl thr v) (map Step h1 ++ Reset :: map Step h2)
  = run (pc_step thr v) (pop_init fl thr v) h1 ++ run (pc_step thr v) (pop_init fl thr v) h2.
Proof. apply run_ops_reset_generic. reflexivity. Qed.

Theorem pr_reset_ops fl thr v h1 h2 :
  run_ops (pr_step fl thr v) (pop_reset fl thr v) (pop_init fl thr v) (map Step h1 ++ Reset :: map Step h2)
  = run (pr_step fl thr v) (pop_init fl thr v) h1 ++ run (pr_step fl thr v) (pop_init fl thr v) h2.
Proof. apply run_ops_reset_generic. reflexivity. Qed.

(* ------------------------------------------------------------------------------------------------ 10. legacy witnesses *)
Definition mk_ev (b : Q) (l : list (option Q)) : evaluation := {| best := b; values := l |}.

(* fix ef61d3e reverted: a negative median makes every relative change negative, hence "below" any positive threshold *)
Theorem poprel_negative_refuted :
  exists thr v h, Forall nonempty h /\
    run (pr_step legacy_signed thr v) (pop_init legacy_signed thr v) h <> spec_answers (below_pop_rel thr) v h.
Proof.
  exists (1 # 10), 0%nat, [mk_ev (-1) [Some (-1)]; mk_ev (-3) [Some (-3)]]. split.
  - repeat constructor; discriminate.
  - vm_compute. discriminate.
Qed.

(* the concrete answers of that witness: the legacy code stops at once, the documented criterion does not *)
Example poprel_negative_answers :
  run (pr_step legacy_signed (1 # 10) 0) (pop_init legacy_signed (1 # 10) 0) [mk_ev (-1) [Some (-1)]; mk_ev (-3) [Some (-3)]]
  = [Ok false; Ok true]
  /\ spec_answers (below_pop_rel (1 # 10)) 0 [mk_ev (-1) [Some (-1)]; mk_ev (-3) [Some (-3)]] = [Ok false; Ok false]
  /\ run (pr_step repaired (1 # 10) 0) (pop_init repaired (1 # 10) 0) [mk_ev (-1) [Some (-1)]; mk_ev (-3) [Some (-3)]]
     = [Ok false; Ok false].
Proof. vm_compute. repeat split. Qed.

(* fix 55063d2 reverted: a zero reference raises, and keeps raising because the state is not advanced *)
Theorem zero_reference_refuted :
  exists thr v h, In (Err "ZeroDivisionError") (run (br_step legacy_zero thr v) best_init h).
Proof.
  exists (1 # 2), 0%nat, [mk_ev 0 []; mk_ev 1 []; mk_ev 2 []]. vm_compute. right; left; reflexivity.
Qed.

Example zero_reference_answers :
  run (br_step legacy_zero (1 # 2) 0) best_init [mk_ev 0 []; mk_ev 1 []; mk_ev 2 []]
  = [Ok false; Err "ZeroDivisionError"; Err "ZeroDivisionError"]
  /\ run (br_step repaired (1 # 2) 0) best_init [mk_ev 0 []; mk_ev 1 []; mk_ev 2 []] = [Ok false; Ok false; Ok false].
Proof. vm_compute. split; reflexivity. Qed.

(* fix 246de4c reverted: with a negative threshold the finite sentinel 10 * threshold is below the threshold *)
Theorem negative_threshold_refuted :
  exists thr v ev, nonempty ev /\
    run (pc_step thr v) (pop_init legacy_sentinel thr v) [ev] = [Ok true] /\
    spec_answers (below_pop thr) v [ev] = [Ok false].
Proof.
  exists (-1), 0%nat, (mk_ev 0 [Some 0]). split; [discriminate|]. vm_compute. split; reflexivity.
Qed.

(* ------------------------------------------------------------------------------------------------ list facts *)
Lemma skipn_seq_q n : forall start len, skipn n (seq start len) = seq (start + n) (len - n).
Proof.
  induction n as [|n IH]; intros start len.
  - rewrite Nat.add_0_r, Nat.sub_0_r. reflexivity.
  - destruct len as [|len]; [reflexivity|]. simpl. rewrite IH. f_equal. lia.
Qed.

Lemma skipn_repeat {A} (x : A) k : forall n, skipn k (repeat x n) = repeat x (n - k).
Proof.
  induction k as [|k IH]; intros n.
  - rewrite Nat.sub_0_r. reflexivity.
  - destruct n as [|n]; [reflexivity|]. simpl. apply IH.
Qed.

Lemma forallb_ext_in {A} (f g : A -> bool) l : (forall x, In x l -> f x = g x) -> forallb f l = forallb g l.
Proof.
  induction l as [|x l IH]; intros H; simpl; [reflexivity|].
  rewrite (H x (or_introl eq_refl)), IH; [reflexivity|]. intros y Hy. apply H. right; exact Hy.
Qed.

Lemma forallb_map_q {A B} (f : A -> B) (g : B -> bool) l : forallb g (map f l) = forallb (fun x => g (f x)) l.
Proof. induction l as [|x l IH]; simpl; [reflexivity|]. rewrite IH. reflexivity. Qed.

Lemma lastn_map {A B} (f : A -> B) n l : lastn n (map f l) = map f (lastn n l).
Proof. unfold lastn. rewrite map_length, skipn_map. reflexivity. Qed.

Lemma lastn_length {A} n (l : list A) : (n <= length l)%nat -> length (lastn n l) = n.
Proof. intros H. unfold lastn. rewrite skipn_length. lia. Qed.

Lemma lastn_seq n start len : (n <= len)%nat -> lastn n (seq start len) = seq (start + len - n) n.
Proof.
  intros H. unfold lastn. rewrite seq_length, skipn_seq_q. f_equal; lia.
Qed.

Lemma lastn_app_ge {A} n (pre l : list A) : (n <= length l)%nat -> lastn n (pre ++ l) = lastn n l.
Proof.
  intros H. unfold lastn. rewrite skipn_app, app_length.
  rewrite skipn_all2 by lia. simpl. f_equal. lia.
Qed.

Fixpoint last_opt {A} (l : list A) : option A :=
  match l with
  | [] => None
  | x :: r => match r with [] => Some x | _ :: _ => last_opt r end
  end.

Lemma last_opt_snoc {A} (l : list A) x : last_opt (l ++ [x]) = Some x.
Proof.
  induction l as [|a l IH]; [reflexivity|].
  simpl. destruct (l ++ [x]) eqn:E; [destruct l; discriminate|]. exact IH.
Qed.

Lemma last_opt_None {A} (l : list A) : last_opt l = None -> l = [].
Proof.
  induction l as [|a l IH]; [reflexivity|]. simpl. destruct l; [discriminate|]. intros H. apply IH in H. discriminate.
Qed.

(* ------------------------------------------------------------------------------------------------ the window *)
Lemma ext_max_step x y t :
  ext_ltb (if ext_ltb x y then y else x) t = ext_ltb x t && ext_ltb y t.
Proof.
  destruct x as [x|], y as [y|], t as [t|]; simpl; try reflexivity;
    try (destruct (Qltb x y); reflexivity); try (destruct (Qltb x t); reflexivity).
  destruct (Qltb x y) eqn:E1; simpl; destruct (Qltb x t) eqn:E2, (Qltb y t) eqn:E3; try reflexivity; exfalso; qb; lra.
Qed.

Lemma py_max_ext_lt t r : forall x, ext_ltb (py_max_ext x r) t = forallb (fun c => ext_ltb c t) (x :: r).
Proof.
  unfold py_max_ext. induction r as [|y r IH]; intros x; simpl.
  - rewrite andb_true_r. reflexivity.
  - rewrite IH. simpl. rewrite ext_max_step, andb_assoc. reflexivity.
Qed.

Definition allbelow (thr : Q) (cs : list ext) : bool := forallb (fun c => ext_ltb c (Fin thr)) cs.

Lemma window_answer_gen v thr hist :
  window_answer v thr hist = Ok ((v + 1 <=? length hist)%nat && allbelow thr (lastn (v + 1) hist)).
Proof.
  unfold window_answer. destruct (length hist <? v + 1)%nat eqn:E.
  - apply Nat.ltb_lt in E. replace (v + 1 <=? length hist)%nat with false; [reflexivity|].
    symmetry. apply Nat.leb_gt. exact E.
  - apply Nat.ltb_ge in E. replace (v + 1 <=? length hist)%nat with true by (symmetry; apply Nat.leb_le; exact E).
    pose proof (lastn_length (v + 1) hist E) as L.
    destruct (lastn (v + 1) hist) as [|x r]; [simpl in L; lia|].
    rewrite py_max_ext_lt. reflexivity.
Qed.

(* the history list starts with n0 sentinels inf, n0 = 0 (best-individual criteria) or v + 1 (population criteria) *)
Lemma window_answer_pre v thr n0 cs : n0 = 0%nat \/ n0 = (v + 1)%nat ->
  window_answer v thr (repeat Inf n0 ++ cs) = Ok ((v + 1 <=? length cs)%nat && allbelow thr (lastn (v + 1) cs)).
Proof.
  intros [->| ->]; [apply window_answer_gen|].
  rewrite window_answer_gen. f_equal. rewrite app_length, repeat_length.
  replace (v + 1 <=? v + 1 + length cs)%nat with true by (symmetry; apply Nat.leb_le; lia).
  destruct (v + 1 <=? length cs)%nat eqn:E; simpl.
  - apply Nat.leb_le in E. rewrite lastn_app_ge by exact E. reflexivity.
  - apply Nat.leb_gt in E. unfold lastn. rewrite app_length, repeat_length, skipn_app, skipn_repeat.
    replace (v + 1 + length cs - (v + 1))%nat with (length cs) by lia.
    destruct (v + 1 - length cs)%nat eqn:D; [lia|]. reflexivity.
Qed.

(* ------------------------------------------------------------------------------------------------ changes along a history *)
Fixpoint changes (chg : evaluation -> evaluation -> ext) (h : list evaluation) : list ext :=
  match h with
  | [] => []
  | p :: r => match r with [] => [] | c :: _ => chg p c :: changes chg r end
  end.

Lemma changes_length chg h : length (changes chg h) = (length h - 1)%nat.
Proof.
  induction h as [|p r IH]; [reflexivity|]. destruct r as [|c r']; [reflexivity|].
  change (changes chg (p :: c :: r')) with (chg p c :: changes chg (c :: r')). simpl length in *. rewrite IH. lia.
Qed.

Lemma changes_snoc chg h ev :
  changes chg (h ++ [ev]) = changes chg h ++ match last_opt h with None => [] | Some p => [chg p ev] end.
Proof.
  induction h as [|p r IH]; [reflexivity|]. destruct r as [|c r']; [reflexivity|].
  change ((p :: c :: r') ++ [ev]) with (p :: c :: (r' ++ [ev])).
  change (changes chg (p :: c :: r' ++ [ev])) with (chg p c :: changes chg ((c :: r') ++ [ev])).
  rewrite IH. reflexivity.
Qed.

Lemma below_at_app below H T j : (j < length H)%nat -> below_at below (H ++ T) j = below_at below H j.
Proof.
  intros L. destruct j as [|i]; [reflexivity|]. unfold below_at. rewrite !nth_error_app1 by lia. reflexivity.
Qed.

Lemma changes_below chg below (f : ext -> bool) : (forall p c, f (chg p c) = below p c) ->
  forall H, map f (changes chg H) = map (below_at below H) (seq 1 (length H - 1)).
Proof.
  intros Hf H. induction H as [|p r IH]; [reflexivity|]. destruct r as [|c r']; [reflexivity|].
  change (changes chg (p :: c :: r')) with (chg p c :: changes chg (c :: r')).
  replace (length (p :: c :: r') - 1)%nat with (S (length r')) by (simpl; lia).
  simpl seq. rewrite !map_cons, IH, Hf. f_equal.
  replace (length (c :: r') - 1)%nat with (length r') by (simpl; lia).
  rewrite <- (seq_shift (length r') 1), map_map. apply map_ext_in. intros j Hj. apply in_seq in Hj.
  destruct j as [|i]; [lia|]. reflexivity.
Qed.

(* the answer computed from the list of changes is the documented decision *)
Lemma window_spec chg below thr v n0 :
  (forall p c, ext_ltb (chg p c) (Fin thr) = below p c) -> n0 = 0%nat \/ n0 = (v + 1)%nat ->
  forall H T, H <> [] ->
    window_answer v thr (repeat Inf n0 ++ changes chg H) = Ok (terminate_at below v (H ++ T) (length H - 1)).
Proof.
  intros Hf Hn H T HH. rewrite window_answer_pre by exact Hn. f_equal.
  unfold terminate_at. rewrite changes_length. set (k := (length H - 1)%nat).
  destruct (v + 1 <=? k)%nat eqn:E; [|reflexivity]. apply Nat.leb_le in E. simpl.
  unfold allbelow. rewrite <- forallb_map_q with (f := fun c => ext_ltb c (Fin thr)) (g := fun b : bool => b).
  rewrite <- lastn_map, (changes_below chg below _ Hf), lastn_map. fold k.
  rewrite lastn_seq by exact E. rewrite forallb_map_q.
  replace (1 + k - (v + 1))%nat with (k - v)%nat by lia.
  apply forallb_ext_in. intros j Hj. apply in_seq in Hj. symmetry. apply below_at_app.
  assert (length H <> 0)%nat by (destruct H; [congruence|simpl; lia]). lia.
Qed.

(* ------------------------------------------------------------------------------------------------ generic refinement *)
Lemma run_generic {S} (step : S -> evaluation -> S * result bool) (inv : list evaluation -> S -> Prop)
      (good : evaluation -> Prop) (below : evaluation -> evaluation -> bool) (v : nat) :
  (forall h1 s ev T, Forall good (h1 ++ [ev]) -> inv h1 s ->
     exists s', step s ev = (s', Ok (terminate_at below v (h1 ++ ev :: T) (length h1))) /\ inv (h1 ++ [ev]) s') ->
  forall h2 h1 s, Forall good (h1 ++ h2) -> inv h1 s ->
    run step s h2 = map (fun k => Ok (terminate_at below v (h1 ++ h2) k)) (seq (length h1) (length h2)).
Proof.
  intros Hstep h2. induction h2 as [|ev h2 IH]; intros h1 s G I; [reflexivity|].
  assert (G1 : Forall good (h1 ++ [ev])).
  { apply Forall_app in G as [G1 G2]. apply Forall_app. split; [exact G1|]. inversion G2; subst. repeat constructor; assumption. }
  destruct (Hstep h1 s ev h2 G1 I) as (s' & E & I'). simpl. rewrite E. f_equal.
  specialize (IH (h1 ++ [ev]) s'). rewrite <- app_assoc, app_length in IH. simpl in IH.
  rewrite Nat.add_1_r in IH. apply IH; assumption.
Qed.

Lemma snoc_spec chg below thr v n0 :
  (forall p c, ext_ltb (chg p c) (Fin thr) = below p c) -> n0 = 0%nat \/ n0 = (v + 1)%nat ->
  forall h1 ev T,
    window_answer v thr (repeat Inf n0 ++ changes chg (h1 ++ [ev])) = Ok (terminate_at below v (h1 ++ ev :: T) (length h1)).
Proof.
  intros Hf Hn h1 ev T. rewrite (window_spec chg below thr v n0 Hf Hn (h1 ++ [ev]) T) by (destruct h1; discriminate).
  rewrite <- app_assoc, app_length. simpl. do 3 f_equal. lia.
Qed.

Lemma window_nil v thr : window_answer v thr [] = Ok false.
Proof. rewrite window_answer_gen. simpl. rewrite Nat.add_1_r. reflexivity. Qed.

(* ------------------------------------------------------------------------------------------------ relative change *)
Lemma Qabs_zero_iff r : Qabs r == 0 <-> r == 0.
Proof.
  split; intros H.
  - revert H. apply Qabs_case; intros; lra.
  - rewrite H. reflexivity.
Qed.

Lemma Qabs_pos_neq r : ~ r == 0 -> 0 < Qabs r.
Proof.
  intros H. pose proof (Qabs_nonneg r). destruct (Qeq_dec (Qabs r) 0) as [E|E]; [exfalso; apply H, Qabs_zero_iff, E|lra].
Qed.

Lemma Qdiv_lt_iff n a thr : 0 < a -> (n / a < thr <-> n < thr * a).
Proof.
  intros Ha. rewrite <- (Qmult_lt_r (n / a) thr a Ha).
  assert (E : n / a * a == n) by (field; lra). rewrite E. reflexivity.
Qed.

Definition rel_ext (n r : Q) : ext := if Qeq_bool r 0 then Inf else Fin (n / Qabs r).

Lemma rel_change_repaired fl n r : abs_denominator fl = true -> zero_guard fl = true ->
  rel_change fl n r = Ok (rel_ext n r).
Proof.
  intros A Z. unfold rel_change, rel_ext. rewrite A, Z. simpl. destruct (Qeq_bool r 0) eqn:E; [reflexivity|].
  destruct (Qeq_bool (Qabs r) 0) eqn:E2; [|reflexivity]. qb. exfalso. apply E, Qabs_zero_iff, E2.
Qed.

Lemma rel_ext_below n r thr : 0 <= n -> ext_ltb (rel_ext n r) (Fin thr) = Qltb n (thr * Qabs r).
Proof.
  intros Hn. unfold rel_ext. destruct (Qeq_bool r 0) eqn:E; qb; simpl.
  - symmetry. apply Qltb_false_iff. apply Qabs_zero_iff in E. rewrite E. lra.
  - apply Qltb_ext. apply Qdiv_lt_iff. apply Qabs_pos_neq. exact E.
Qed.

(* ------------------------------------------------------------------------------------------------ 1./2. best-individual criteria *)
Definition best_inv (chg : evaluation -> evaluation -> ext) (h1 : list evaluation) (s : best_state) : Prop :=
  b_prev s = option_map best (last_opt h1) /\ b_hist s = changes chg h1.

Definition chg_best (p c : evaluation) : ext := Fin (Qabs (best p - best c)).
Definition chg_best_rel (p c : evaluation) : ext := rel_ext (Qabs (best p - best c)) (best p).

Lemma chg_best_below thr p c : ext_ltb (chg_best p c) (Fin thr) = below_best thr p c.
Proof. reflexivity. Qed.

Lemma chg_best_rel_below thr p c : ext_ltb (chg_best_rel p c) (Fin thr) = below_best_rel thr p c.
Proof. unfold chg_best_rel, below_best_rel. apply rel_ext_below. apply Qabs_nonneg. Qed.

Lemma bc_step_ok thr v h1 s ev T : best_inv chg_best h1 s ->
  exists s', bc_step thr v s ev = (s', Ok (terminate_at (below_best thr) v (h1 ++ ev :: T) (length h1)))
             /\ best_inv chg_best (h1 ++ [ev]) s'.
Proof.
  intros [Ip Ih]. unfold bc_step. rewrite Ip.
  rewrite <- (snoc_spec chg_best (below_best thr) thr v 0 (chg_best_below thr) (or_introl eq_refl) h1 ev T).
  simpl app. rewrite changes_snoc. destruct (last_opt h1) as [p|] eqn:L; simpl option_map; cbv iota.
  - eexists; split; [rewrite Ih; reflexivity|]. split; cbn [b_prev b_hist option_map].
    + rewrite last_opt_snoc. reflexivity.
    + rewrite changes_snoc, L. reflexivity.
  - apply last_opt_None in L. subst h1. simpl changes. rewrite window_nil.
    eexists; split; [reflexivity|]. split; cbn [b_prev b_hist option_map]; [reflexivity|exact Ih].
Qed.

Theorem bc_refines thr v h : run (bc_step thr v) best_init h = spec_answers (below_best thr) v h.
Proof.
  unfold spec_answers.
  apply (run_generic (bc_step thr v) (best_inv chg_best) (fun _ => True) (below_best thr) v) with (h1 := []).
  - intros h1 s ev T _ I. apply bc_step_ok. exact I.
  - apply Forall_forall. intros; exact Logic.I.
  - split; reflexivity.
Qed.

Lemma br_step_ok fl thr v h1 s ev T : zero_guard fl = true -> best_inv chg_best_rel h1 s ->
  exists s', br_step fl thr v s ev = (s', Ok (terminate_at (below_best_rel thr) v (h1 ++ ev :: T) (length h1)))
             /\ best_inv chg_best_rel (h1 ++ [ev]) s'.
Proof.
  intros Z [Ip Ih]. unfold br_step. rewrite Ip.
  rewrite <- (snoc_spec chg_best_rel (below_best_rel thr) thr v 0 (chg_best_rel_below thr) (or_introl eq_refl) h1 ev T).
  simpl app. rewrite changes_snoc. destruct (last_opt h1) as [p|] eqn:L; simpl option_map; cbv iota.
  - rewrite rel_change_repaired by (simpl; auto).
    eexists; split; [rewrite Ih; reflexivity|]. split; cbn [b_prev b_hist option_map].
    + rewrite last_opt_snoc. reflexivity.
    + rewrite changes_snoc, L. reflexivity.
  - apply last_opt_None in L. subst h1. simpl changes. rewrite window_nil.
    eexists; split; [reflexivity|]. split; cbn [b_prev b_hist option_map]; [reflexivity|exact Ih].
Qed.

Theorem br_refines thr v h : run (br_step repaired thr v) best_init h = spec_answers (below_best_rel thr) v h.
Proof.
  unfold spec_answers.
  apply (run_generic (br_step repaired thr v) (best_inv chg_best_rel) (fun _ => True) (below_best_rel thr) v) with (h1 := []).
  - intros h1 s ev T _ I. apply br_step_ok; [reflexivity|exact I].
  - apply Forall_forall. intros; exact Logic.I.
  - split; reflexivity.
Qed.

(* ------------------------------------------------------------------------------------------------ 9. declarative reading *)
Theorem terminate_at_reading below v h k :
  terminate_at below v h k = true <->
  (v + 1 <= k)%nat /\ forall i, (i <= v)%nat -> below_at below h (k - i) = true.
Proof.
  unfold terminate_at. rewrite andb_true_iff, Nat.leb_le, forallb_forall. split; intros [L F]; split; try exact L.
  - intros i Hi. apply F. apply in_seq. lia.
  - intros x Hx. apply in_seq in Hx. replace x with (k - (k - x))%nat by lia. apply F. lia.
Qed.

(* ------------------------------------------------------------------------------------------------ 8. quotient form *)
Theorem rel_quotient_form thr p c : ~ best p == 0 ->
  below_best_rel thr p c = Qltb (Qabs (best p - best c) / Qabs (best p)) thr.
Proof.
  intros H. unfold below_best_rel. symmetry. apply Qltb_ext. apply Qdiv_lt_iff. apply Qabs_pos_neq. exact H.
Qed.

Theorem rel_zero_reference thr p c : best p == 0 -> below_best_rel thr p c = false.
Proof.
  intros H. unfold below_best_rel. apply Qltb_false_iff. apply Qabs_zero_iff in H. rewrite H.
  pose proof (Qabs_nonneg (best p - best c)). lra.
Qed.

(* ------------------------------------------------------------------------------------------------ 4. median and distance are defined *)
Lemma insert_q_length x l : length (insert_q x l) = S (length l).
Proof. induction l as [|y l IH]; simpl; [reflexivity|]. destruct (Qle_bool x y); simpl; [reflexivity|]. rewrite IH. reflexivity. Qed.

Lemma sort_q_length l : length (sort_q l) = length l.
Proof. induction l as [|x l IH]; simpl; [reflexivity|]. rewrite insert_q_length, IH. reflexivity. Qed.

Lemma nth_error_in_range {A} (l : list A) n : (n < length l)%nat -> exists a, nth_error l n = Some a.
Proof.
  intros H. destruct (nth_error l n) eqn:E; [eexists; reflexivity|]. apply nth_error_None in E. lia.
Qed.

Theorem median_defined l : l <> [] -> exists m, median l = Ok m.
Proof.
  intros H. unfold median. destruct l as [|x l]; [congruence|].
  set (s := sort_q (x :: l)). assert (L : length s = S (length l)) by (unfold s; rewrite sort_q_length; reflexivity).
  assert (L2 : (length s / 2 < length s)%nat) by (apply Nat.div_lt; lia).
  destruct (nth_error_in_range s (length s / 2) L2) as [b Eb]. rewrite Eb.
  destruct (Nat.even (length s)).
  - destruct (nth_error_in_range s (length s / 2 - 1)) as [a Ea]; [lia|]. rewrite Ea. eexists; reflexivity.
  - eexists; reflexivity.
Qed.

Lemma mapM_defined {A B} (f : A -> result B) l :
  (forall x, In x l -> exists y, f x = Ok y) -> exists ys, mapM f l = Ok ys /\ length ys = length l.
Proof.
  induction l as [|x l IH]; intros H; simpl.
  - exists []. split; reflexivity.
  - destruct (H x (or_introl eq_refl)) as [y Ey]. rewrite Ey. simpl.
    destruct IH as (ys & E & L); [intros z Hz; apply H; right; exact Hz|]. rewrite E. simpl.
    exists (y :: ys). split; [reflexivity|simpl; rewrite L; reflexivity].
Qed.

Lemma directed_defined from to : from <> [] -> to <> [] -> exists d, directed from to = Ok d.
Proof.
  intros Hf Ht. unfold directed.
  destruct (mapM_defined (fun f => min_abs_dist f to) from) as (ds & E & L).
  - intros f _. unfold min_abs_dist. destruct to as [|t to]; [congruence|]. simpl. eexists; reflexivity.
  - rewrite E. simpl. apply median_defined. destruct ds; [destruct from; [congruence|discriminate]|discriminate].
Qed.

Lemma hausdorff_defined p c : nonempty p -> nonempty c -> exists d, hausdorff p c = Ok d.
Proof.
  unfold nonempty, hausdorff. intros Hp Hc.
  destruct (directed_defined _ _ Hp Hc) as [d12 E12]. destruct (directed_defined _ _ Hc Hp) as [d21 E21].
  destruct (somes (values p)) as [|x1 l1]; [congruence|]. destruct (somes (values c)) as [|x2 l2]; [congruence|].
  rewrite E12, E21. simpl. eexists; reflexivity.
Qed.

Lemma Ok_inj {A} (a b : A) : Ok a = Ok b -> a = b.
Proof. intros H. inversion H. reflexivity. Qed.

Lemma py_max2_ge_r a b : b <= py_max2 a b.
Proof. unfold py_max2. destruct (Qltb a b) eqn:E; qb; lra. Qed.

Lemma pop_distance_nonneg p c d : pop_distance p c = Ok d -> 0 <= d.
Proof.
  unfold pop_distance. destruct (hausdorff p c) as [hd|e]; cbn [bind]; [|discriminate]. intros H. apply Ok_inj in H. subst d.
  pose proof (py_max2_ge_r hd (Qabs (best p - best c))). pose proof (Qabs_nonneg (best p - best c)). lra.
Qed.

Theorem pop_distance_defined p c : nonempty p -> nonempty c -> exists d, pop_distance p c = Ok d /\ 0 <= d.
Proof.
  intros Hp Hc. destruct (hausdorff_defined p c Hp Hc) as [hd E].
  assert (E' : pop_distance p c = Ok (py_max2 hd (Qabs (best p - best c)))) by (unfold pop_distance; rewrite E; reflexivity).
  eexists; split; [exact E'|]. eapply pop_distance_nonneg; exact E'.
Qed.

(* ------------------------------------------------------------------------------------------------ 5./6. population criteria *)
Definition pop_inv (chg : evaluation -> evaluation -> ext) (v : nat) (h1 : list evaluation) (s : pop_state) : Prop :=
  p_last s = last_opt h1 /\ p_hist s = repeat Inf (v + 1) ++ changes chg h1.

Definition chg_pop (p c : evaluation) : ext :=
  match pop_distance p c with Ok d => Fin d | Err _ => Inf end.
Definition chg_pop_rel (p c : evaluation) : ext :=
  match pop_distance p c, median (somes (values p)) with
  | Ok d, Ok m => rel_ext d m
  | _, _ => Inf
  end.

Lemma chg_pop_below thr p c : ext_ltb (chg_pop p c) (Fin thr) = below_pop thr p c.
Proof. unfold chg_pop, below_pop. destruct (pop_distance p c); reflexivity. Qed.

Lemma chg_pop_rel_below thr p c : ext_ltb (chg_pop_rel p c) (Fin thr) = below_pop_rel thr p c.
Proof.
  unfold chg_pop_rel, below_pop_rel. destruct (pop_distance p c) as [d|] eqn:E; [|reflexivity].
  destruct (median (somes (values p))) as [m|]; [|reflexivity].
  apply rel_ext_below. eapply pop_distance_nonneg; exact E.
Qed.

Lemma Forall_snoc_last {A} (P : A -> Prop) h x p : Forall P (h ++ [x]) -> last_opt h = Some p -> P p /\ P x.
Proof.
  intros F L. apply Forall_app in F as [F1 F2]. split; [|inversion F2; assumption].
  clear F2. induction h as [|a h IH]; [discriminate|]. inversion F1; subst. simpl in L. destruct h; [inversion L; subst; assumption|].
  apply IH; assumption.
Qed.

Lemma pc_step_ok thr v h1 s ev T : Forall nonempty (h1 ++ [ev]) -> pop_inv chg_pop v h1 s ->
  exists s', pc_step thr v s ev = (s', Ok (terminate_at (below_pop thr) v (h1 ++ ev :: T) (length h1)))
             /\ pop_inv chg_pop v (h1 ++ [ev]) s'.
Proof.
  intros G [Ip Ih]. unfold pc_step. rewrite Ip.
  rewrite <- (snoc_spec chg_pop (below_pop thr) thr v (v + 1) (chg_pop_below thr) (or_intror eq_refl) h1 ev T).
  rewrite changes_snoc. destruct (last_opt h1) as [p|] eqn:L.
  - destruct (Forall_snoc_last _ _ _ _ G L) as [Np Ne]. destruct (pop_distance_defined p ev Np Ne) as (d & E & _).
    unfold chg_pop at 2. rewrite E. cbn [bind]. rewrite Ih, <- app_assoc.
    eexists; split; [reflexivity|]. split; cbn [p_last p_hist].
    + rewrite last_opt_snoc. reflexivity.
    + rewrite changes_snoc, L. unfold chg_pop at 3. rewrite E. reflexivity.
  - apply last_opt_None in L. subst h1. rewrite Ih.
    eexists; split; [reflexivity|]. split; cbn [p_last p_hist]; reflexivity.
Qed.

Theorem pc_refines thr v h : Forall nonempty h ->
  run (pc_step thr v) (pop_init repaired thr v) h = spec_answers (below_pop thr) v h.
Proof.
  intros G. unfold spec_answers.
  apply (run_generic (pc_step thr v) (pop_inv chg_pop v) nonempty (below_pop thr) v) with (h1 := []).
  - intros h1 s ev T F I. apply pc_step_ok; assumption.
  - exact G.
  - split; simpl; [reflexivity|]. rewrite app_nil_r. reflexivity.
Qed.

Lemma pr_step_ok fl thr v h1 s ev T : abs_denominator fl = true -> zero_guard fl = true ->
  Forall nonempty (h1 ++ [ev]) -> pop_inv chg_pop_rel v h1 s ->
  exists s', pr_step fl thr v s ev = (s', Ok (terminate_at (below_pop_rel thr) v (h1 ++ ev :: T) (length h1)))
             /\ pop_inv chg_pop_rel v (h1 ++ [ev]) s'.
Proof.
  intros A Z G [Ip Ih]. unfold pr_step. rewrite Ip.
  rewrite <- (snoc_spec chg_pop_rel (below_pop_rel thr) thr v (v + 1) (chg_pop_rel_below thr) (or_intror eq_refl) h1 ev T).
  rewrite changes_snoc. destruct (last_opt h1) as [p|] eqn:L.
  - destruct (Forall_snoc_last _ _ _ _ G L) as [Np Ne]. destruct (pop_distance_defined p ev Np Ne) as (d & E & _).
    destruct (median_defined _ Np) as [m Em].
    assert (C : chg_pop_rel p ev = rel_ext d m) by (unfold chg_pop_rel; rewrite E, Em; reflexivity).
    rewrite E, Em. cbn [bind]. unfold rel_change_np. rewrite Z, (rel_change_repaired fl d m A Z). cbn [bind].
    rewrite Ih, <- app_assoc, C.
    eexists; split; [reflexivity|]. split; cbn [p_last p_hist].
    + rewrite last_opt_snoc. reflexivity.
    + rewrite changes_snoc, L, C. reflexivity.
  - apply last_opt_None in L. subst h1. rewrite Ih.
    eexists; split; [reflexivity|]. split; cbn [p_last p_hist]; reflexivity.
Qed.

Theorem pr_refines thr v h : Forall nonempty h ->
  run (pr_step repaired thr v) (pop_init repaired thr v) h = spec_answers (below_pop_rel thr) v h.
Proof.
  intros G. unfold spec_answers.
  apply (run_generic (pr_step repaired thr v) (pop_inv chg_pop_rel v) nonempty (below_pop_rel thr) v) with (h1 := []).
  - intros h1 s ev T F I. apply pr_step_ok; try reflexivity; assumption.
  - exact G.
  - split; simpl; [reflexivity|]. rewrite app_nil_r. reflexivity.
Qed.

(* 8. for the population criterion: quotient form w.r.t. the median of the previous population *)
Theorem poprel_quotient_form thr p c d m : pop_distance p c = Ok d -> median (somes (values p)) = Ok m -> ~ m == 0 ->
  below_pop_rel thr p c = Qltb (d / Qabs m) thr.
Proof.
  intros E Em H. unfold below_pop_rel. rewrite E, Em. symmetry. apply Qltb_ext. apply Qdiv_lt_iff. apply Qabs_pos_neq. exact H.
Qed.

Theorem poprel_zero_reference thr p c m : median (somes (values p)) = Ok m -> m == 0 -> below_pop_rel thr p c = false.
Proof.
  intros Em H. unfold below_pop_rel. rewrite Em. destruct (pop_distance p c) as [d|] eqn:E; [|reflexivity].
  apply Qltb_false_iff. apply Qabs_zero_iff in H. rewrite H. pose proof (pop_distance_nonneg p c d E). lra.
Qed.

(* ------------------------------------------------------------------------------------------------ no exception, one answer per evaluation *)
Lemma spec_answers_ok below v h :
  length (spec_answers below v h) = length h /\ Forall (fun a => is_ok a = true) (spec_answers below v h).
Proof.
  unfold spec_answers. split; [rewrite map_length, seq_length; reflexivity|].
  apply Forall_forall. intros a Ha. apply in_map_iff in Ha as (k & <- & _). reflexivity.
Qed.

(* the relative best-individual criterion only needs the zero guard (it always had abs() in the denominator) *)
Theorem br_refines_guarded fl thr v h : zero_guard fl = true ->
  run (br_step fl thr v) best_init h = spec_answers (below_best_rel thr) v h.
Proof.
  intros Z. unfold spec_answers.
  apply (run_generic (br_step fl thr v) (best_inv chg_best_rel) (fun _ => True) (below_best_rel thr) v) with (h1 := []).
  - intros h1 s ev T _ I. apply br_step_ok; [exact Z|exact I].
  - apply Forall_forall. intros; exact Logic.I.
  - split; reflexivity.
Qed.

(* ------------------------------------------------------------------------------------------------ arbitrary operation sequences *)
(* the evaluations between consecutive resets *)
Fixpoint segments (ops : list op) : list (list evaluation) :=
  match ops with
  | [] => [[]]
  | Step ev :: r => match segments r with [] => [[ev]] | g :: gs => (ev :: g) :: gs end
  | Reset :: r => [] :: segments r
  end.

Lemma run_ops_segments_gen {S} (step : S -> evaluation -> S * result bool) (reset : S -> S) (init : S) :
  (forall s, reset s = init) ->
  forall ops s, run_ops step reset s ops
                = match segments ops with [] => [] | g :: gs => run step s g ++ concat (map (run step init) gs) end.
Proof.
  intros R ops. induction ops as [|[ev|] r IH]; intros s.
  - reflexivity.
  - simpl. destruct (step s ev) as [s' a] eqn:E. rewrite IH. destruct (segments r) as [|g gs]; simpl; rewrite E; reflexivity.
  - simpl. rewrite R, IH. destruct (segments r); reflexivity.
Qed.

Theorem run_ops_segments {S} (step : S -> evaluation -> S * result bool) (reset : S -> S) (init : S) :
  (forall s, reset s = init) ->
  forall ops, run_ops step reset init ops = concat (map (run step init) (segments ops)).
Proof.
  intros R ops. rewrite (run_ops_segments_gen step reset init R). destruct (segments ops); reflexivity.
Qed.

Definition kind_spec (k : kind) (thr : Q) (v : nat) (h : list evaluation) : list (result bool) :=
  match k with
  | KBest => spec_answers (below_best thr) v h
  | KBestRel => spec_answers (below_best_rel thr) v h
  | KThreshold => map (fun ev => Ok (Qltb (best ev) thr)) h
  | KPop => spec_answers (below_pop thr) v h
  | KPopRel => spec_answers (below_pop_rel thr) v h
  end.

(* every criterion, any interleaving of evaluations and resets: the documented answers, segment by segment *)
Theorem run_kind_refines k thr v ops : Forall (Forall nonempty) (segments ops) ->
  run_kind repaired k thr v ops = concat (map (kind_spec k thr v) (segments ops)).
Proof.
  intros G. destruct k; unfold run_kind, kind_spec.
  - rewrite run_ops_segments by reflexivity. f_equal. apply map_ext. intros h. apply bc_refines.
  - rewrite run_ops_segments by reflexivity. f_equal. apply map_ext. intros h. apply br_refines.
  - rewrite run_ops_segments by (intros []; reflexivity). f_equal. apply map_ext. intros h. apply th_refines.
  - rewrite run_ops_segments by reflexivity. f_equal. apply map_ext_in. intros h Hh.
    apply pc_refines. rewrite Forall_forall in G. apply G. exact Hh.
  - rewrite run_ops_segments by reflexivity. f_equal. apply map_ext_in. intros h Hh.
    apply pr_refines. rewrite Forall_forall in G. apply G. exact Hh.
Qed.

Theorem run_criterion_refines k thr v ops : Forall (Forall nonempty) (segments ops) ->
  run_criterion repaired k thr v ops
  = if ctor_ok k thr v then Ok (concat (map (kind_spec k thr (Z.to_nat v)) (segments ops))) else Err "ValueError".
Proof.
  intros G. unfold run_criterion. destruct (ctor_ok k thr v); [|reflexivity]. rewrite run_kind_refines by exact G. reflexivity.
Qed.

(* a history on which the population criteria fire (used by the satisfiability example in Props/C13.v) *)
Definition example_history : list evaluation :=
  [mk_ev 1 [Some 1; None; Some 3]; mk_ev 1 [Some 1; Some 2]; mk_ev 1 [Some 1; Some 2]; mk_ev 1 [Some 1; Some 2]].

(* Model-level record of the KNOWN FINDING answer-intermediate-overflow-beyond-double-range: on the two corpus witnesses
   (finite values near the double maximum in an even-sized population) the exact-rational model, i.e. the documented
   decision, answers "do not terminate"; the double-precision implementation answers True there (numpy.median's
   (a+b)/2 overflows to inf, inf/inf = nan).  The double range is not modelled. *)
Definition overflow_witness_1 : list evaluation := [mk_ev ((100000000000000001097906362944045541740492309677311846336810682903157585404911491537163328978494688899061249669721172515611590283743140088328307009198146046031271664502933027185697489699588559043338384466165001178426897626212945177628091195786707458122783970171784415105291802893207873272974885715430223118336)%Z # 1%positive) [Some ((100000000000000001097906362944045541740492309677311846336810682903157585404911491537163328978494688899061249669721172515611590283743140088328307009198146046031271664502933027185697489699588559043338384466165001178426897626212945177628091195786707458122783970171784415105291802893207873272974885715430223118336)%Z # 1%positive); Some ((100000000000000001097906362944045541740492309677311846336810682903157585404911491537163328978494688899061249669721172515611590283743140088328307009198146046031271664502933027185697489699588559043338384466165001178426897626212945177628091195786707458122783970171784415105291802893207873272974885715430223118336)%Z # 1%positive)]; mk_ev ((100000000000000001097906362944045541740492309677311846336810682903157585404911491537163328978494688899061249669721172515611590283743140088328307009198146046031271664502933027185697489699588559043338384466165001178426897626212945177628091195786707458122783970171784415105291802893207873272974885715430223118336)%Z # 1%positive) [Some ((100000000000000001097906362944045541740492309677311846336810682903157585404911491537163328978494688899061249669721172515611590283743140088328307009198146046031271664502933027185697489699588559043338384466165001178426897626212945177628091195786707458122783970171784415105291802893207873272974885715430223118336)%Z # 1%positive); Some ((100000000000000001097906362944045541740492309677311846336810682903157585404911491537163328978494688899061249669721172515611590283743140088328307009198146046031271664502933027185697489699588559043338384466165001178426897626212945177628091195786707458122783970171784415105291802893207873272974885715430223118336)%Z # 1%positive)]; mk_ev ((-100000000000000001097906362944045541740492309677311846336810682903157585404911491537163328978494688899061249669721172515611590283743140088328307009198146046031271664502933027185697489699588559043338384466165001178426897626212945177628091195786707458122783970171784415105291802893207873272974885715430223118336)%Z # 1%positive) [Some ((-100000000000000001097906362944045541740492309677311846336810682903157585404911491537163328978494688899061249669721172515611590283743140088328307009198146046031271664502933027185697489699588559043338384466165001178426897626212945177628091195786707458122783970171784415105291802893207873272974885715430223118336)%Z # 1%positive); Some ((-100000000000000001097906362944045541740492309677311846336810682903157585404911491537163328978494688899061249669721172515611590283743140088328307009198146046031271664502933027185697489699588559043338384466165001178426897626212945177628091195786707458122783970171784415105291802893207873272974885715430223118336)%Z # 1%positive)]].
Definition overflow_witness_2 : list evaluation := [mk_ev ((100000000000000001097906362944045541740492309677311846336810682903157585404911491537163328978494688899061249669721172515611590283743140088328307009198146046031271664502933027185697489699588559043338384466165001178426897626212945177628091195786707458122783970171784415105291802893207873272974885715430223118336)%Z # 1%positive) [Some ((100000000000000001097906362944045541740492309677311846336810682903157585404911491537163328978494688899061249669721172515611590283743140088328307009198146046031271664502933027185697489699588559043338384466165001178426897626212945177628091195786707458122783970171784415105291802893207873272974885715430223118336)%Z # 1%positive); Some ((150000000000000001646859544416068312610738464515967769505216024354736378107367237305744993467742033348591874504581758773417385425614710132492460513797219069046907496754399540778546234549382838565007576699247501767640346439319417766442136793680061187184175955257676622657937704339811809909462328573145334677504)%Z # 1%positive)]; mk_ev ((100000000000000001097906362944045541740492309677311846336810682903157585404911491537163328978494688899061249669721172515611590283743140088328307009198146046031271664502933027185697489699588559043338384466165001178426897626212945177628091195786707458122783970171784415105291802893207873272974885715430223118336)%Z # 1%positive) [Some ((100000000000000001097906362944045541740492309677311846336810682903157585404911491537163328978494688899061249669721172515611590283743140088328307009198146046031271664502933027185697489699588559043338384466165001178426897626212945177628091195786707458122783970171784415105291802893207873272974885715430223118336)%Z # 1%positive); Some ((140000000000000005528749527191103381749434659621913717006437476935335702571970573026452444307820696028601680522881043700541120085625386611604505789664591785922123926873769078699987831481595335695749181141356976015104370165785971235340948584343131219149608095136586496161650337802003105866881830462290332221440)%Z # 1%positive)]].
Example poprel_exact_answer_on_overflow_witness :
  Forall nonempty overflow_witness_1 /\ Forall nonempty overflow_witness_2
  /\ run (pr_step repaired (1 # 2) 1) (pop_init repaired (1 # 2) 1) overflow_witness_1 = [Ok false; Ok false; Ok false]
  /\ run (pr_step repaired (1 # 100) 0) (pop_init repaired (1 # 100) 0) overflow_witness_2 = [Ok false; Ok false].
Proof.
  split; [repeat (constructor; [discriminate|]); constructor|].
  split; [repeat (constructor; [discriminate|]); constructor|].
  vm_compute. split; reflexivity.
Qed.

(* Model-level record of the KNOWN FINDING answer-intermediate-underflow-below-double-range: the exact median of
   [5e-324, -4, 0, 1] is 2.47e-324, non-zero; the unchanged generation has relative change 0 < 3/4, so the documented
   decision is "terminate" at the second evaluation.  In double precision (0.0 + 5e-324)/2 = 0.0, the implementation
   takes the zero-reference branch and answers False. *)
Definition underflow_witness : list evaluation := [mk_ev ((-4)%Z # 1%positive) [Some ((1)%Z # 202402253307310618352495346718917307049556649764142118356901358027430339567995346891960383701437124495187077864316811911389808737385793476867013399940738509921517424276566361364466907742093216341239767678472745068562007483424692698618103355649159556340810056512358769552333414615230502532186327508646006263307707741093494784%positive); Some ((-4)%Z # 1%positive); Some ((0)%Z # 1%positive); Some ((1)%Z # 1%positive)]; mk_ev ((-4)%Z # 1%positive) [Some ((1)%Z # 202402253307310618352495346718917307049556649764142118356901358027430339567995346891960383701437124495187077864316811911389808737385793476867013399940738509921517424276566361364466907742093216341239767678472745068562007483424692698618103355649159556340810056512358769552333414615230502532186327508646006263307707741093494784%positive); Some ((-4)%Z # 1%positive); Some ((0)%Z # 1%positive); Some ((1)%Z # 1%positive)]].
Example poprel_exact_answer_on_underflow_witness :
  Forall nonempty underflow_witness
  /\ run (pr_step repaired (3 # 4) 0) (pop_init repaired (3 # 4) 0) underflow_witness = [Ok false; Ok true]
  /\ (exists m, median (somes (values (mk_ev (-(4)) [Some ((1)%Z # 202402253307310618352495346718917307049556649764142118356901358027430339567995346891960383701437124495187077864316811911389808737385793476867013399940738509921517424276566361364466907742093216341239767678472745068562007483424692698618103355649159556340810056512358769552333414615230502532186327508646006263307707741093494784%positive); Some (-(4)); Some 0; Some 1]))) = Ok m /\ ~ m == 0).
Proof.
  split; [repeat (constructor; [discriminate|]); constructor|].
  split; [vm_compute; reflexivity|].
  eexists. split; [vm_compute; reflexivity|]. intros H. vm_compute in H. discriminate.
Qed.
