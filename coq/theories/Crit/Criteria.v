(* C13 — executable model of queasars/minimum_eigensolvers/base/termination_criteria.py (definitions only).

   The five criteria are transcribed statement by statement as init / reset / step machines.  A step returns the new
   state together with the answer or the exception class raised ([Err "ZeroDivisionError"] ...); when Python raises,
   the state is the one reached at the raising statement.

   Real values are [Q] (Python floats are dyadic rationals); the only non-finite value that /repo HEAD can produce
   from finite inputs is float("inf") — changes and window entries are therefore [ext := Fin q | Inf].  NaN is not
   modelled: on HEAD no operation of a step can produce one from finite inputs (theorems C13_*_refines: no step is
   [Err], every window entry is [Fin] or [Inf]).

   Variant flags ([flags]) select the three pre-fix behaviours (known_findings.txt, seeded/fix-COMMIT):
     abs_denominator = false : fix ef61d3e reverted (relative change divides by the signed reference)
     zero_guard      = false : fix 55063d2 reverted (no test for a zero reference; Python float division raises)
     inf_sentinel    = false : fix 246de4c reverted (window pre-filled with 10 * threshold)
     nonincreasing_boundary = false : fix 05ee1f9 reverted (SPSA checker: a new optimiser run is recognised only by a
                                      strictly decreasing evaluation counter, not by an equal one; Spsa.v only)
   [repaired] is what /repo HEAD implements.  For numpy.float64 operands the legacy division by zero yields inf/nan
   instead of raising; that variant is not modelled (the harness detects it through the property oracle). *)
From QV Require Import Common.Base.
From Coq Require Import QArith Qabs.
Open Scope Q_scope.

(* ------------------------------------------------------------------------------------------------ numbers *)
Definition Qltb (x y : Q) : bool := negb (Qle_bool y x).

Inductive ext : Type := Fin (q : Q) | Inf.

(* a < b on floats that are finite or +inf *)
Definition ext_ltb (a b : ext) : bool :=
  match a, b with
  | Fin x, Fin y => Qltb x y
  | Fin _, Inf => true
  | Inf, _ => false
  end.

(* Python max(iterable) on a non-empty sequence x :: l: the running maximum is replaced only by a strictly greater item *)
Definition py_max_ext (x : ext) (l : list ext) : ext :=
  fold_left (fun cur it => if ext_ltb cur it then it else cur) l x.
(* Python min(iterable) on a non-empty sequence *)
Definition py_min_q (x : Q) (l : list Q) : Q :=
  fold_left (fun cur it => if Qltb it cur then it else cur) l x.
(* Python max(a, b): b if b > a else a *)
Definition py_max2 (a b : Q) : Q := if Qltb a b then b else a.

(* l[-n:] for 1 <= n *)
Definition lastn {A} (n : nat) (l : list A) : list A := skipn (length l - n) l.

Record flags := { abs_denominator : bool; zero_guard : bool; inf_sentinel : bool; nonincreasing_boundary : bool }.
Definition repaired : flags :=
  {| abs_denominator := true; zero_guard := true; inf_sentinel := true; nonincreasing_boundary := true |}.
Definition legacy_signed : flags :=
  {| abs_denominator := false; zero_guard := true; inf_sentinel := true; nonincreasing_boundary := true |}.
Definition legacy_zero : flags :=
  {| abs_denominator := true; zero_guard := false; inf_sentinel := true; nonincreasing_boundary := true |}.
Definition legacy_sentinel : flags :=
  {| abs_denominator := true; zero_guard := true; inf_sentinel := false; nonincreasing_boundary := true |}.
Definition legacy_run_boundary : flags :=
  {| abs_denominator := true; zero_guard := true; inf_sentinel := true; nonincreasing_boundary := false |}.

(*  relative_change = float("inf")
    if reference != 0:
        relative_change = numerator / abs(reference)                                    *)
Definition rel_change (fl : flags) (numerator reference : Q) : result ext :=
  if zero_guard fl && Qeq_bool reference 0 then Ok Inf
  else
    let den := if abs_denominator fl then Qabs reference else reference in
    if Qeq_bool den 0 then Err "ZeroDivisionError" else Ok (Fin (numerator / den)).

(*  if len(history) < v + 1: return False
    return max(history[-v - 1:]) < threshold                                              *)
Definition window_answer (v : nat) (thr : Q) (hist : list ext) : result bool :=
  if (length hist <? v + 1)%nat then Ok false
  else match lastn (v + 1) hist with
       | [] => Err "ValueError" (* max() of an empty sequence; unreachable because v + 1 >= 1 *)
       | x :: r => Ok (ext_ltb (py_max_ext x r) (Fin thr))
       end.

(* ------------------------------------------------------------------------------------------------ inputs *)
(* BasePopulationEvaluationResult as far as the criteria read it *)
Record evaluation := { best : Q; values : list (option Q) }.

Definition somes (l : list (option Q)) : list Q :=
  flat_map (fun o => match o with Some x => [x] | None => [] end) l.

(* ------------------------------------------------------------------------------------------------ numpy.median *)
Fixpoint insert_q (x : Q) (l : list Q) : list Q :=
  match l with
  | [] => [x]
  | y :: ys => if Qle_bool x y then x :: l else y :: insert_q x ys
  end.
Definition sort_q (l : list Q) : list Q := fold_right insert_q [] l.

(* middle element of the sorted data, mean of the two middle elements for an even count; nan for no data *)
Definition median (l : list Q) : result Q :=
  match l with
  | [] => Err "nan" (* numpy returns nan with a RuntimeWarning; NaN is not modelled, callers never pass [] under [nonempty] *)
  | _ =>
      let s := sort_q l in
      let n := length s in
      if Nat.even n then
        match nth_error s (n / 2 - 1), nth_error s (n / 2) with
        | Some a, Some b => Ok ((a + b) / 2)
        | _, _ => Err "IndexError"
        end
      else
        match nth_error s (n / 2) with
        | Some a => Ok a
        | None => Err "IndexError"
        end
  end.

(* ------------------------------------------------------------------------------------------------ Hausdorff median distance *)
(* min(abs(f - t) for t in to) *)
Definition min_abs_dist (f : Q) (to : list Q) : result Q :=
  match map (fun t => Qabs (f - t)) to with
  | [] => Err "ValueError"
  | d :: ds => Ok (py_min_q d ds)
  end.

(* distance(from, to) = median([min(...) for f in from]) *)
Definition directed (from to : list Q) : result Q :=
  do ds <- mapM (fun f => min_abs_dist f to) from; median ds.

Definition hausdorff (r1 r2 : evaluation) : result Q :=
  let e1 := somes (values r1) in
  let e2 := somes (values r2) in
  match e1, e2 with
  | [], [] => Err "nan"          (* both directed distances are medians of nothing: nan, not modelled *)
  | [], _ | _, [] => Err "ValueError" (* min() of an empty sequence in one of the directed distances *)
  | _, _ => do d12 <- directed e1 e2; do d21 <- directed e2 e1; Ok (py_max2 d12 d21)
  end.

(* every evaluation EVQE reports carries at least one expectation value *)
Definition nonempty (ev : evaluation) : Prop := somes (values ev) <> [].
Definition nonemptyb (ev : evaluation) : bool := match somes (values ev) with [] => false | _ => true end.

(* ------------------------------------------------------------------------------------------------ 1. BestIndividualChangeTolerance *)
Record best_state := { b_prev : option Q; b_hist : list ext }.
Definition best_init : best_state := {| b_prev := None; b_hist := [] |}.
Definition best_reset (_ : best_state) : best_state := best_init.

Definition bc_step (thr : Q) (v : nat) (s : best_state) (ev : evaluation) : best_state * result bool :=
  match b_prev s with
  | None => ({| b_prev := Some (best ev); b_hist := b_hist s |}, Ok false)
  | Some p =>
      let change := Qabs (p - best ev) in
      let h := b_hist s ++ [Fin change] in
      ({| b_prev := Some (best ev); b_hist := h |}, window_answer v thr h)
  end.

(* ------------------------------------------------------------------------------------------------ 2. BestIndividualRelativeChangeTolerance *)
Definition br_step (fl : flags) (thr : Q) (v : nat) (s : best_state) (ev : evaluation) : best_state * result bool :=
  match b_prev s with
  | None => ({| b_prev := Some (best ev); b_hist := b_hist s |}, Ok false)
  | Some p =>
      (* this criterion always had abs() in the denominator *)
      match rel_change {| abs_denominator := true; zero_guard := zero_guard fl; inf_sentinel := inf_sentinel fl;
                          nonincreasing_boundary := nonincreasing_boundary fl |}
                       (Qabs (p - best ev)) p with
      | Err e => (s, Err e) (* raised before any assignment *)
      | Ok c =>
          let h := b_hist s ++ [c] in
          ({| b_prev := Some (best ev); b_hist := h |}, window_answer v thr h)
      end
  end.

(* ------------------------------------------------------------------------------------------------ 3. BestIndividualExpectationValueThreshold *)
Definition th_step (thr : Q) (s : unit) (ev : evaluation) : unit * result bool := (s, Ok (Qltb (best ev) thr)).

(* ------------------------------------------------------------------------------------------------ 4. PopulationChangeTolerance *)
Record pop_state := { p_hist : list ext; p_last : option evaluation }.
Definition sentinel (fl : flags) (thr : Q) : ext := if inf_sentinel fl then Inf else Fin (10 * thr).
Definition pop_init (fl : flags) (thr : Q) (v : nat) : pop_state :=
  {| p_hist := repeat (sentinel fl thr) (v + 1); p_last := None |}.
Definition pop_reset (fl : flags) (thr : Q) (v : nat) (_ : pop_state) : pop_state := pop_init fl thr v.

(* max(hausdorff_distance, best_individual_distance) *)
Definition pop_distance (last ev : evaluation) : result Q :=
  do hd <- hausdorff last ev; Ok (py_max2 hd (Qabs (best last - best ev))).

Definition pc_step (thr : Q) (v : nat) (s : pop_state) (ev : evaluation) : pop_state * result bool :=
  let upd :=
    match p_last s with
    | None => Ok (p_hist s)
    | Some last => do d <- pop_distance last ev; Ok (p_hist s ++ [Fin d])
    end in
  match upd with
  | Err e => (s, Err e)
  | Ok h => ({| p_hist := h; p_last := Some ev |}, window_answer v thr h)
  end.

(* ------------------------------------------------------------------------------------------------ 5. PopulationChangeRelativeTolerance *)
(* The reference is numpy.median's result, a numpy.float64: without the zero guard (fix 55063d2 reverted) the division
   by zero does not raise but yields inf (distance > 0) or nan (distance = 0, not modelled: "nan"). *)
Definition rel_change_np (fl : flags) (numerator reference : Q) : result ext :=
  if zero_guard fl then rel_change fl numerator reference
  else if Qeq_bool reference 0 then (if Qeq_bool numerator 0 then Err "nan" else Ok Inf)
  else rel_change fl numerator reference.

Definition pr_step (fl : flags) (thr : Q) (v : nat) (s : pop_state) (ev : evaluation) : pop_state * result bool :=
  let upd :=
    match p_last s with
    | None => Ok (p_hist s)
    | Some last =>
        do d <- pop_distance last ev;
        do m <- median (somes (values last));
        do c <- rel_change_np fl d m;
        Ok (p_hist s ++ [c])
    end in
  match upd with
  | Err e => (s, Err e)
  | Ok h => ({| p_hist := h; p_last := Some ev |}, window_answer v thr h)
  end.

(* ------------------------------------------------------------------------------------------------ constructors *)
Inductive kind := KBest | KBestRel | KThreshold | KPop | KPopRel.

(* the constructor raises ValueError exactly when this is false; v is the Python int as given *)
Definition ctor_ok (k : kind) (thr : Q) (v : Z) : bool :=
  match k with
  | KBest => negb (Qle_bool thr 0) && negb (v <? 0)%Z
  | KBestRel => negb (Qle_bool thr 0 || Qltb 1 thr) && negb (v <? 0)%Z
  | KThreshold => true
  | KPop | KPopRel => negb (v <? 0)%Z
  end.

(* ------------------------------------------------------------------------------------------------ running *)
Inductive op := Step (ev : evaluation) | Reset.

Fixpoint run_ops {S} (step : S -> evaluation -> S * result bool) (reset : S -> S) (s : S) (ops : list op) : list (result bool) :=
  match ops with
  | [] => []
  | Step ev :: r => let '(s', a) := step s ev in a :: run_ops step reset s' r
  | Reset :: r => run_ops step reset (reset s) r
  end.

Fixpoint run {S} (step : S -> evaluation -> S * result bool) (s : S) (h : list evaluation) : list (result bool) :=
  match h with
  | [] => []
  | ev :: r => let '(s', a) := step s ev in a :: run step s' r
  end.

Fixpoint state_after {S} (step : S -> evaluation -> S * result bool) (s : S) (h : list evaluation) : S :=
  match h with
  | [] => s
  | ev :: r => state_after step (fst (step s ev)) r
  end.

Definition run_kind (fl : flags) (k : kind) (thr : Q) (v : nat) (ops : list op) : list (result bool) :=
  match k with
  | KBest => run_ops (bc_step thr v) best_reset best_init ops
  | KBestRel => run_ops (br_step fl thr v) best_reset best_init ops
  | KThreshold => run_ops (th_step thr) (fun u => u) tt ops
  | KPop => run_ops (pc_step thr v) (pop_reset fl thr v) (pop_init fl thr v) ops
  | KPopRel => run_ops (pr_step fl thr v) (pop_reset fl thr v) (pop_init fl thr v) ops
  end.

(* constructor + operations *)
Definition run_criterion (fl : flags) (k : kind) (thr : Q) (v : Z) (ops : list op) : result (list (result bool)) :=
  if ctor_ok k thr v then Ok (run_kind fl k thr (Z.to_nat v) ops) else Err "ValueError".

(* ------------------------------------------------------------------------------------------------ specification *)
(* The documented decision, written against the whole history h = [e_0; ...; e_k; ...] of evaluations.
   [below p c] says that the documented change from evaluation p to the next evaluation c, in absolute magnitude
   (relative criteria: relative to the magnitude of the documented reference value of p), is below the threshold.
   The relative form is written multiplicatively, change < threshold * |reference|: this equals the quotient form
   whenever the reference is non-zero and is false for a zero reference (no change is small relative to nothing). *)
Section Spec.
  Variable below : evaluation -> evaluation -> bool.
  Variable v : nat.

  (* the change measured at step j (between e_{j-1} and e_j, j >= 1) is below the threshold *)
  Definition below_at (h : list evaluation) (j : nat) : bool :=
    match j with
    | O => false
    | S i => match nth_error h i, nth_error h j with
             | Some p, Some c => below p c
             | _, _ => false
             end
    end.

  (* terminate at step k (0-based; k changes have been measured): at least v+1 changes measured and the changes of the
     v+1 consecutive steps k-v .. k are all below *)
  Definition terminate_at (h : list evaluation) (k : nat) : bool :=
    (v + 1 <=? k)%nat && forallb (below_at h) (seq (k - v) (v + 1)).
End Spec.

Definition below_best (thr : Q) (p c : evaluation) : bool := Qltb (Qabs (best p - best c)) thr.
Definition below_best_rel (thr : Q) (p c : evaluation) : bool := Qltb (Qabs (best p - best c)) (thr * Qabs (best p)).
Definition below_pop (thr : Q) (p c : evaluation) : bool :=
  match pop_distance p c with Ok d => Qltb d thr | Err _ => false end.
Definition below_pop_rel (thr : Q) (p c : evaluation) : bool :=
  match pop_distance p c, median (somes (values p)) with
  | Ok d, Ok m => Qltb d (thr * Qabs m)
  | _, _ => false
  end.

Definition spec_answers (below : evaluation -> evaluation -> bool) (v : nat) (h : list evaluation) : list (result bool) :=
  map (fun k => Ok (terminate_at below v h k)) (seq 0 (length h)).
