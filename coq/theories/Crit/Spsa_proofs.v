(* C13 — proofs about the SPSA termination checker model (Crit/Spsa.v). *)
From QV Require Import Common.Base Crit.Criteria Crit.Spsa Crit.Criteria_proofs.
From Coq Require Import QArith Qabs Lqa Lia.
Open Scope Q_scope.

(* ------------------------------------------------------------------------------------------------ 13. legacy witnesses *)
Definition mk_in (n : Z) (f : Q) : spsa_in := {| si_n := n; si_par := 0%Z; si_f := f; si_acc := true |}.

(* fix ef61d3e reverted: negative function values give negative relative changes *)
Theorem spsa_negative_refuted :
  exists thr v h, (length h <= 3)%nat /\ Forall (fun i => si_acc i = true /\ si_f i < 0) h /\
    spsa_run legacy_signed thr v None spsa_init h <> spsa_spec thr v None [] 0 false h.
Proof.
  exists (1 # 10), 0%nat, [mk_in 1 (-1); mk_in 2 (-3)]. split; [simpl; lia|]. split.
  - repeat constructor.
  - vm_compute. discriminate.
Qed.

Example spsa_negative_answers :
  spsa_run legacy_signed (1 # 10) 0 None spsa_init [mk_in 1 (-1); mk_in 2 (-3)] = [Ok false; Ok true]
  /\ spsa_spec (1 # 10) 0 None [] 0 false [mk_in 1 (-1); mk_in 2 (-3)] = [Ok false; Ok false]
  /\ spsa_run repaired (1 # 10) 0 None spsa_init [mk_in 1 (-1); mk_in 2 (-3)] = [Ok false; Ok false].
Proof. vm_compute. repeat split. Qed.

(* fix 55063d2 reverted: a zero function value as reference raises *)
Theorem spsa_zero_refuted :
  exists thr v h, map si_f h = [0; 1] /\ In (Err "ZeroDivisionError") (spsa_run legacy_zero thr v None spsa_init h).
Proof.
  exists (1 # 2), 0%nat, [mk_in 1 0; mk_in 2 1]. split; [reflexivity|]. vm_compute. right; left; reflexivity.
Qed.

(* ------------------------------------------------------------------------------------------------ list facts *)
Lemma last_opt_Some_nth {A} (l : list A) p : last_opt l = Some p -> (1 <= length l)%nat /\ nth_error l (length l - 1) = Some p.
Proof.
  induction l as [|a l IH]; [discriminate|]. simpl last_opt. destruct l as [|b l'].
  - intros [= <-]. split; [simpl; lia|reflexivity].
  - intros H. destruct (IH H) as [L N]. split; [simpl; lia|].
    replace (length (a :: b :: l') - 1)%nat with (S (length (b :: l') - 1)) by (simpl; lia). exact N.
Qed.

Lemma last_opt_map {A B} (g : A -> B) (l : list A) : last_opt (map g l) = option_map g (last_opt l).
Proof.
  induction l as [|a l IH]; [reflexivity|]. destruct l as [|b l']; [reflexivity|]. exact IH.
Qed.

Lemma prev_lookup A p f : last_opt A = Some p ->
  (length (map best A ++ [f]) <? 2)%nat = false
  /\ nth_error (map best A ++ [f]) (length (map best A ++ [f]) - 2) = Some (best p).
Proof.
  intros L. assert (L' : last_opt (map best A) = Some (best p)) by (rewrite last_opt_map, L; reflexivity).
  apply last_opt_Some_nth in L' as [L1 L2]. rewrite app_length. simpl length. split.
  - apply Nat.ltb_ge. lia.
  - replace (length (map best A) + 1 - 2)%nat with (length (map best A) - 1)%nat by lia.
    rewrite nth_error_app1 by lia. exact L2.
Qed.

(* ------------------------------------------------------------------------------------------------ the step, split at the implicit reset *)
Definition spsa_body (fl : flags) (thr : Q) (v : nat) (maxfev : option Z) (s1 : spsa_state) (i : spsa_in)
  : spsa_state * result bool :=
  let s2 := {| fv_hist := fv_hist s1; ch_hist := ch_hist s1; nfe := si_n i; nfe_hist := nfe_hist s1;
               best_f := best_f s1; best_par := best_par s1; done := done s1 |} in
  if maxfev_hit maxfev (si_n i) then (s2, Ok true)
  else if negb (si_acc i) then (s2, Ok false)
  else
    let fvh := fv_hist s2 ++ [si_f i] in
    let nh := nfe_hist s2 ++ [si_n i] in
    let better := ext_ltb (Fin (si_f i)) (best_f s2) in
    let s3 := {| fv_hist := fvh; ch_hist := ch_hist s2; nfe := si_n i; nfe_hist := nh;
                 best_f := if better then Fin (si_f i) else best_f s2;
                 best_par := if better then Some (si_par i) else best_par s2; done := done s2 |} in
    if (length fvh <? 2)%nat then (s3, Ok false)
    else
      match nth_error fvh (length fvh - 2) with
      | None => (s3, Err "IndexError")
      | Some prev =>
          match rel_change fl (Qabs (si_f i - prev)) prev with
          | Err e => (s3, Err e)
          | Ok c =>
              let ch := ch_hist s3 ++ [c] in
              let s4 d := {| fv_hist := fvh; ch_hist := ch; nfe := si_n i; nfe_hist := nh;
                             best_f := best_f s3; best_par := best_par s3; done := d |} in
              match window_answer v thr ch with
              | Err e => (s4 (done s3), Err e)
              | Ok true => (s4 true, Ok true)
              | Ok false => (s4 (done s3), Ok false)
              end
          end
      end.

Lemma spsa_step_body fl thr v maxfev s i :
  spsa_step fl thr v maxfev s i
  = spsa_body fl thr v maxfev (if done s || boundary_hit fl (si_n i) (nfe s) then spsa_init else s) i.
Proof. reflexivity. Qed.

(* ------------------------------------------------------------------------------------------------ invariant *)
(* the change SPSA's checker records: |f_j - f_{j-1}| relative to |f_{j-1}| *)
Definition chg_spsa (p c : evaluation) : ext := rel_ext (Qabs (best c - best p)) (best p).

Lemma chg_spsa_below thr p c : ext_ltb (chg_spsa p c) (Fin thr) = below_best_rel thr p c.
Proof.
  unfold chg_spsa, below_best_rel. rewrite rel_ext_below by apply Qabs_nonneg.
  apply Qltb_ext. rewrite (Qabs_Qminus (best c) (best p)). reflexivity.
Qed.

Definition spsa_core (maxfev : option Z) (seg : list spsa_in) (s : spsa_state) : Prop :=
  fv_hist s = map best (accepted_values maxfev seg) /\ ch_hist s = changes chg_spsa (accepted_values maxfev seg).

Lemma accepted_snoc maxfev seg i :
  accepted_values maxfev (seg ++ [i])
  = accepted_values maxfev seg ++ (if recorded maxfev i then [as_eval (si_f i)] else []).
Proof.
  unfold accepted_values. rewrite filter_app, map_app. simpl. destruct (recorded maxfev i); reflexivity.
Qed.

Lemma accepted_fv maxfev seg : map best (accepted_values maxfev seg) = map si_f (filter (recorded maxfev) seg).
Proof. unfold accepted_values. rewrite map_map. reflexivity. Qed.

Lemma spsa_body_ok thr v maxfev seg s i : spsa_core maxfev seg s -> done s = false ->
  exists s', spsa_body repaired thr v maxfev s i = (s', Ok (spsa_answer thr v maxfev seg i))
             /\ spsa_core maxfev (seg ++ [i]) s' /\ nfe s' = si_n i
             /\ done s' = spsa_criterion_fired thr v maxfev seg i.
Proof.
  intros [Hf Hc] Hd. unfold spsa_body, spsa_criterion_fired, spsa_answer, spsa_core.
  rewrite accepted_snoc. unfold recorded.
  destruct (maxfev_hit maxfev (si_n i)) eqn:Hm; cbn [negb andb].
  { eexists. split; [reflexivity|]. cbn [fv_hist ch_hist nfe done]. rewrite app_nil_r. auto. }
  destruct (si_acc i) eqn:Ha; cbn [negb andb].
  2:{ eexists. split; [reflexivity|]. cbn [fv_hist ch_hist nfe done]. rewrite app_nil_r. auto. }
  cbv zeta. cbn [fv_hist ch_hist nfe done]. rewrite Hf, Hc. set (A := accepted_values maxfev seg) in *.
  replace (length (A ++ [as_eval (si_f i)]) - 1)%nat with (length A) by (rewrite app_length; simpl; lia).
  pose proof (snoc_spec chg_spsa (below_best_rel thr) thr v 0 (chg_spsa_below thr) (or_introl eq_refl) A (as_eval (si_f i)) []) as W.
  change (repeat Inf 0 ++ changes chg_spsa (A ++ [as_eval (si_f i)])) with (changes chg_spsa (A ++ [as_eval (si_f i)])) in W.
  rewrite changes_snoc in W. rewrite map_app, changes_snoc. cbn [map as_eval best].
  destruct (last_opt A) as [p|] eqn:L.
  - destruct (prev_lookup A p (si_f i) L) as [P1 P2]. rewrite P1, P2.
    rewrite rel_change_repaired by reflexivity.
    change (rel_ext (Qabs (si_f i - best p)) (best p)) with (chg_spsa p (as_eval (si_f i))).
    rewrite W. destruct (terminate_at (below_best_rel thr) v (A ++ [as_eval (si_f i)]) (length A)).
    + eexists. split; [reflexivity|]. cbn [fv_hist ch_hist nfe done]. auto.
    + eexists. split; [reflexivity|]. cbn [fv_hist ch_hist nfe done]. auto.
  - apply last_opt_None in L. rewrite L in *. simpl changes in W. rewrite window_nil in W. apply Ok_inj in W.
    rewrite <- W. cbn [map app length Nat.ltb Nat.leb].
    eexists. split; [reflexivity|]. cbn [fv_hist ch_hist nfe done]. rewrite app_nil_r. auto.
Qed.

Lemma spsa_core_init maxfev : spsa_core maxfev [] spsa_init.
Proof. split; reflexivity. Qed.

(* one step of the machine against one step of the specification *)
Lemma spsa_step_ok thr v maxfev seg lastn closed s i :
  spsa_core maxfev seg s -> nfe s = lastn -> done s = closed ->
  let seg' := if closed || (si_n i <=? lastn)%Z then [] else seg in
  exists s', spsa_step repaired thr v maxfev s i = (s', Ok (spsa_answer thr v maxfev seg' i))
             /\ spsa_core maxfev (seg' ++ [i]) s' /\ nfe s' = si_n i
             /\ done s' = spsa_criterion_fired thr v maxfev seg' i.
Proof.
  intros C N D seg'. rewrite spsa_step_body, N, D. subst seg'.
  change (boundary_hit repaired (si_n i) lastn) with (si_n i <=? lastn)%Z.
  destruct (closed || (si_n i <=? lastn)%Z) eqn:E.
  - apply spsa_body_ok; [apply spsa_core_init|reflexivity].
  - apply spsa_body_ok; [exact C|]. apply orb_false_iff in E as [E _]. congruence.
Qed.

(* ------------------------------------------------------------------------------------------------ 11. refinement *)
Lemma spsa_refines_gen thr v maxfev h : forall seg lastn closed s,
  spsa_core maxfev seg s -> nfe s = lastn -> done s = closed ->
  spsa_run repaired thr v maxfev s h = spsa_spec thr v maxfev seg lastn closed h.
Proof.
  induction h as [|i h IH]; intros seg lastn closed s C N D; [reflexivity|].
  destruct (spsa_step_ok thr v maxfev seg lastn closed s i C N D) as (s' & E & C' & N' & D').
  simpl. rewrite E. f_equal. apply IH; assumption.
Qed.

Theorem spsa_refines thr v maxfev h :
  spsa_run repaired thr v maxfev spsa_init h = spsa_spec thr v maxfev [] 0 false h.
Proof. apply spsa_refines_gen; [apply spsa_core_init|reflexivity|reflexivity]. Qed.

(* ------------------------------------------------------------------------------------------------ 12. segments *)
Definition spsa_state_after (fl : flags) (thr : Q) (v : nat) (maxfev : option Z) (s : spsa_state) (h : list spsa_in) : spsa_state :=
  fold_left (fun s i => fst (spsa_step fl thr v maxfev s i)) h s.

(* the next callback is recognised as the start of a new optimiser run *)
Definition recognised_start (fl : flags) (s : spsa_state) (h2 : list spsa_in) : Prop :=
  match h2 with [] => True | i :: _ => done s = true \/ boundary_hit fl (si_n i) (nfe s) = true end.

Lemma spsa_run_app fl thr v maxfev h1 : forall s h2,
  spsa_run fl thr v maxfev s (h1 ++ h2)
  = spsa_run fl thr v maxfev s h1 ++ spsa_run fl thr v maxfev (spsa_state_after fl thr v maxfev s h1) h2.
Proof.
  induction h1 as [|i h1 IH]; intros s h2; [reflexivity|].
  simpl. destruct (spsa_step fl thr v maxfev s i) as [s' a] eqn:E. simpl. rewrite IH. reflexivity.
Qed.

Lemma spsa_run_restart fl thr v maxfev s h2 : recognised_start fl s h2 ->
  spsa_run fl thr v maxfev s h2 = spsa_run fl thr v maxfev spsa_init h2.
Proof.
  destruct h2 as [|i r]; [reflexivity|]. intros R. simpl. rewrite !spsa_step_body.
  replace (done s || boundary_hit fl (si_n i) (nfe s)) with true.
  - destruct (done spsa_init || boundary_hit fl (si_n i) (nfe spsa_init)); reflexivity.
  - symmetry. apply orb_true_iff. destruct R as [R|R]; [left; exact R|right; exact R].
Qed.

Theorem spsa_segments_gen fl thr v maxfev h1 h2 :
  recognised_start fl (spsa_state_after fl thr v maxfev spsa_init h1) h2 ->
  spsa_run fl thr v maxfev spsa_init (h1 ++ h2)
  = spsa_run fl thr v maxfev spsa_init h1 ++ spsa_run fl thr v maxfev spsa_init h2.
Proof. intros R. rewrite spsa_run_app. f_equal. apply spsa_run_restart. exact R. Qed.

Theorem spsa_segments thr v maxfev h1 h2 :
  match h2 with
  | [] => True
  | i :: _ => done (spsa_state_after repaired thr v maxfev spsa_init h1) = true
              \/ (si_n i <= nfe (spsa_state_after repaired thr v maxfev spsa_init h1))%Z
  end ->
  spsa_run repaired thr v maxfev spsa_init (h1 ++ h2)
  = spsa_run repaired thr v maxfev spsa_init h1 ++ spsa_run repaired thr v maxfev spsa_init h2.
Proof.
  intros R. apply spsa_segments_gen. destruct h2 as [|i r]; [exact I|].
  destruct R as [R|R]; [left; exact R|right; apply Z.leb_le; exact R].
Qed.

Lemma spsa_state_after_snoc fl thr v maxfev s h i :
  spsa_state_after fl thr v maxfev s (h ++ [i])
  = fst (spsa_step fl thr v maxfev (spsa_state_after fl thr v maxfev s h) i).
Proof. unfold spsa_state_after. rewrite fold_left_app. reflexivity. Qed.

(* every step stores the evaluation counter of its callback, whatever the flags and whether or not it raises *)
Lemma spsa_step_nfe fl thr v maxfev s i : nfe (fst (spsa_step fl thr v maxfev s i)) = si_n i.
Proof.
  rewrite spsa_step_body. generalize (if done s || boundary_hit fl (si_n i) (nfe s) then spsa_init else s). intros s1.
  unfold spsa_body. cbv zeta.
  destruct (maxfev_hit maxfev (si_n i)); [reflexivity|]. destruct (negb (si_acc i)); [reflexivity|].
  match goal with |- context [if ?b then _ else _] => destruct b end; [reflexivity|].
  match goal with |- context [nth_error ?l ?n] => destruct (nth_error l n) end; [|reflexivity].
  match goal with |- context [rel_change ?a ?b ?c] => destruct (rel_change a b c) end; [|reflexivity].
  match goal with |- context [window_answer ?a ?b ?c] => destruct (window_answer a b c) as [[|]|] end; reflexivity.
Qed.

Theorem spsa_nfe_last fl thr v maxfev h1 d : h1 <> [] ->
  nfe (spsa_state_after fl thr v maxfev spsa_init h1) = si_n (last h1 d).
Proof.
  intros H. destruct (exists_last H) as (h & i & ->). rewrite spsa_state_after_snoc, spsa_step_nfe, last_last. reflexivity.
Qed.

(* reachable states satisfy the invariant for some current segment *)
Lemma spsa_reachable thr v maxfev h :
  exists seg, spsa_core maxfev seg (spsa_state_after repaired thr v maxfev spsa_init h).
Proof.
  induction h as [|i h IH] using rev_ind.
  - exists []. apply spsa_core_init.
  - destruct IH as [seg C]. rewrite spsa_state_after_snoc.
    destruct (spsa_step_ok thr v maxfev seg _ _ _ i C eq_refl eq_refl) as (s' & E & C' & _).
    rewrite E. eexists. exact C'.
Qed.

Lemma spsa_run_snoc fl thr v maxfev s h i :
  spsa_run fl thr v maxfev s (h ++ [i])
  = spsa_run fl thr v maxfev s h ++ [snd (spsa_step fl thr v maxfev (spsa_state_after fl thr v maxfev s h) i)].
Proof.
  rewrite spsa_run_app. f_equal. simpl. destruct (spsa_step fl thr v maxfev (spsa_state_after fl thr v maxfev s h) i). reflexivity.
Qed.

(* the checker is "done" exactly when the change criterion (not the evaluation budget) answered the last callback with True *)
Theorem spsa_done_iff thr v maxfev h i :
  done (spsa_state_after repaired thr v maxfev spsa_init (h ++ [i])) = true
  <-> last (spsa_run repaired thr v maxfev spsa_init (h ++ [i])) (Ok false) = Ok true
      /\ maxfev_hit maxfev (si_n i) = false.
Proof.
  rewrite spsa_state_after_snoc, spsa_run_snoc, last_last.
  destruct (spsa_reachable thr v maxfev h) as [seg C].
  destruct (spsa_step_ok thr v maxfev seg _ _ _ i C eq_refl eq_refl) as (s' & E & _ & _ & D).
  rewrite E. cbn [fst snd]. rewrite D. unfold spsa_criterion_fired.
  rewrite andb_true_iff, negb_true_iff. split.
  - intros [H1 H2]. split; [rewrite H2; reflexivity|exact H1].
  - intros [H1 H2]. split; [exact H2|]. apply Ok_inj in H1. exact H1.
Qed.

(* any number of optimiser runs *)
Theorem spsa_segments_list fl thr v maxfev (runs : list (list spsa_in)) :
  (forall j, (0 < j < length runs)%nat ->
     recognised_start fl (spsa_state_after fl thr v maxfev spsa_init (concat (firstn j runs))) (nth j runs [])) ->
  spsa_run fl thr v maxfev spsa_init (concat runs) = concat (map (spsa_run fl thr v maxfev spsa_init) runs).
Proof.
  induction runs as [|r rs IH] using rev_ind; intros H; [reflexivity|].
  rewrite concat_app, map_app, concat_app. simpl. rewrite !app_nil_r.
  assert (Hrs : rs = [] \/ (0 < length rs)%nat) by (destruct rs; simpl; [left; reflexivity | right; lia]).
  destruct Hrs as [->|Hl].
  - reflexivity.
  - rewrite spsa_segments_gen.
    + f_equal. apply IH. intros j Hj. specialize (H j). rewrite app_length in H.
      rewrite firstn_app in H. replace (j - length rs)%nat with 0%nat in H by lia.
      simpl firstn at 2 in H. rewrite app_nil_r in H. rewrite app_nth1 in H by lia.
      apply H. simpl. lia.
    + specialize (H (length rs)). rewrite app_length in H.
      rewrite firstn_app, Nat.sub_diag in H. rewrite firstn_all in H. simpl firstn in H. rewrite app_nil_r in H.
      rewrite app_nth2 in H by lia. rewrite Nat.sub_diag in H. apply H. simpl. lia.
Qed.

(* ------------------------------------------------------------------------------------------------ 14. best value bookkeeping *)
(* the specification's view after a callback sequence: (current run so far, last counter, criterion fired) — the
   accumulator of [spsa_spec] *)
Fixpoint spsa_seg_after (thr : Q) (v : nat) (maxfev : option Z) (seg : list spsa_in) (lastn : Z) (closed : bool)
         (h : list spsa_in) : list spsa_in * Z * bool :=
  match h with
  | [] => (seg, lastn, closed)
  | i :: r =>
      let seg' := if closed || (si_n i <=? lastn)%Z then [] else seg in
      spsa_seg_after thr v maxfev (seg' ++ [i]) (si_n i) (spsa_criterion_fired thr v maxfev seg' i) r
  end.

(* best_f is inf while nothing is recorded, afterwards the least recorded value (and one of them) *)
Definition best_wf (s : spsa_state) : Prop :=
  (fv_hist s = [] -> best_f s = Inf)
  /\ (fv_hist s <> [] -> exists m, best_f s = Fin m /\ In m (fv_hist s) /\ forall x, In x (fv_hist s) -> m <= x).

Lemma best_wf_record l b f : 
  ((l = [] -> b = Inf) /\ (l <> [] -> exists m, b = Fin m /\ In m l /\ forall x, In x l -> m <= x)) ->
  exists m, (if ext_ltb (Fin f) b then Fin f else b) = Fin m /\ In m (l ++ [f]) /\ forall x, In x (l ++ [f]) -> m <= x.
Proof.
  intros [H1 H2]. destruct l as [|y l].
  - rewrite (H1 eq_refl). simpl. exists f. split; [reflexivity|]. split; [left; reflexivity|].
    intros x [<-|[]]. lra.
  - destruct H2 as (m & -> & Hin & Hle); [discriminate|]. simpl ext_ltb. destruct (Qltb f m) eqn:E; qb.
    + exists f. split; [reflexivity|]. split; [apply in_or_app; right; left; reflexivity|].
      intros x Hx. apply in_app_or in Hx as [Hx|[<-|[]]]; [|lra]. apply Hle in Hx. lra.
    + exists m. split; [reflexivity|]. split; [apply in_or_app; left; exact Hin|].
      intros x Hx. apply in_app_or in Hx as [Hx|[<-|[]]]; [apply Hle; exact Hx|lra].
Qed.

Lemma best_wf_body fl thr v maxfev s1 i : best_wf s1 -> best_wf (fst (spsa_body fl thr v maxfev s1 i)).
Proof.
  intros W. unfold spsa_body. cbv zeta.
  destruct (maxfev_hit maxfev (si_n i)); [exact W|]. destruct (negb (si_acc i)); [exact W|].
  cbn [fv_hist best_f].
  assert (W3 : forall s3, fv_hist s3 = fv_hist s1 ++ [si_f i] ->
                          best_f s3 = (if ext_ltb (Fin (si_f i)) (best_f s1) then Fin (si_f i) else best_f s1) -> best_wf s3).
  { intros s3 F B. unfold best_wf. rewrite F, B. split.
    - intros H. destruct (fv_hist s1); discriminate.
    - intros _. apply best_wf_record. exact W. }
  match goal with |- context [if ?b then _ else _] => destruct b end; [apply W3; reflexivity|].
  match goal with |- context [nth_error ?l ?n] => destruct (nth_error l n) end; [|apply W3; reflexivity].
  match goal with |- context [rel_change ?a ?b ?c] => destruct (rel_change a b c) end; [|apply W3; reflexivity].
  match goal with |- context [window_answer ?a ?b ?c] => destruct (window_answer a b c) as [[|]|] end; apply W3; reflexivity.
Qed.

Lemma best_wf_init : best_wf spsa_init.
Proof. split; [reflexivity|]. intros H. exfalso. apply H. reflexivity. Qed.

Lemma best_wf_step fl thr v maxfev s i : best_wf s -> best_wf (fst (spsa_step fl thr v maxfev s i)).
Proof.
  intros W. rewrite spsa_step_body. apply best_wf_body.
  destruct (done s || boundary_hit fl (si_n i) (nfe s)); [apply best_wf_init|exact W].
Qed.

Lemma spsa_state_after_cons fl thr v maxfev s i h :
  spsa_state_after fl thr v maxfev s (i :: h)
  = spsa_state_after fl thr v maxfev (fst (spsa_step fl thr v maxfev s i)) h.
Proof. reflexivity. Qed.

Lemma spsa_tracks_gen thr v maxfev h : forall seg lastn closed s,
  spsa_core maxfev seg s -> nfe s = lastn -> done s = closed -> best_wf s ->
  forall seg' lastn' closed', spsa_seg_after thr v maxfev seg lastn closed h = (seg', lastn', closed') ->
    let s' := spsa_state_after repaired thr v maxfev s h in
    spsa_core maxfev seg' s' /\ nfe s' = lastn' /\ done s' = closed' /\ best_wf s'.
Proof.
  induction h as [|i h IH]; intros seg lastn closed s C N D W seg' lastn' closed' E.
  - simpl in E. inversion E; subst. simpl. auto.
  - simpl in E. rewrite spsa_state_after_cons.
    destruct (spsa_step_ok thr v maxfev seg lastn closed s i C N D) as (s1 & E1 & C1 & N1 & D1).
    pose proof (best_wf_step repaired thr v maxfev s i W) as W1. rewrite E1 in *. cbn [fst] in *.
    exact (IH _ _ _ s1 C1 N1 D1 W1 _ _ _ E).
Qed.

(* After any callback sequence the stored best value is inf if nothing of the current run (as recognised by the
   specification) has been recorded, otherwise the minimum of the recorded function values of the current run. *)
Theorem spsa_best_value thr v maxfev h seg lastn closed :
  spsa_seg_after thr v maxfev [] 0 false h = (seg, lastn, closed) ->
  let s := spsa_state_after repaired thr v maxfev spsa_init h in
  let R := map si_f (filter (recorded maxfev) seg) in
  fv_hist s = R /\ nfe s = lastn /\ done s = closed
  /\ (R = [] -> best_f s = Inf)
  /\ (R <> [] -> exists m, best_f s = Fin m /\ In m R /\ forall x, In x R -> m <= x).
Proof.
  intros E s R.
  destruct (spsa_tracks_gen thr v maxfev h [] 0%Z false spsa_init (spsa_core_init maxfev) eq_refl eq_refl best_wf_init _ _ _ E)
    as ([F _] & N & D & [W1 W2]).
  fold s in F, N, D, W1, W2. rewrite accepted_fv in F. fold R in F. rewrite F in W1, W2. auto.
Qed.

(* the accumulator really is the one [spsa_spec] uses: the answers are those of the specification along it *)
Lemma spsa_seg_after_snoc thr v maxfev h i : forall seg lastn closed,
  spsa_seg_after thr v maxfev seg lastn closed (h ++ [i])
  = (let '(seg1, lastn1, closed1) := spsa_seg_after thr v maxfev seg lastn closed h in
     let seg' := if closed1 || (si_n i <=? lastn1)%Z then [] else seg1 in
     (seg' ++ [i], si_n i, spsa_criterion_fired thr v maxfev seg' i)).
Proof.
  induction h as [|j h IH]; intros seg lastn closed; [reflexivity|]. simpl. apply IH.
Qed.

(* the specification never raises and answers every callback *)
Lemma spsa_spec_ok thr v maxfev h : forall seg lastn closed,
  length (spsa_spec thr v maxfev seg lastn closed h) = length h
  /\ Forall (fun a => is_ok a = true) (spsa_spec thr v maxfev seg lastn closed h).
Proof.
  induction h as [|i h IH]; intros seg lastn closed; simpl; [split; [reflexivity|constructor]|].
  destruct (IH ((if closed || (si_n i <=? lastn)%Z then [] else seg) ++ [i]) (si_n i)
               (spsa_criterion_fired thr v maxfev (if closed || (si_n i <=? lastn)%Z then [] else seg) i)) as [L F].
  split; [rewrite L; reflexivity|constructor; [reflexivity|exact F]].
Qed.

Corollary spsa_no_exception thr v maxfev h :
  length (spsa_run repaired thr v maxfev spsa_init h) = length h
  /\ Forall (fun a => is_ok a = true) (spsa_run repaired thr v maxfev spsa_init h).
Proof. rewrite spsa_refines. apply spsa_spec_ok. Qed.

(* ------------------------------------------------------------------------------------------------ run boundary: legacy witness *)
(* fix 05ee1f9 reverted: a new optimiser run that starts with the SAME counter as the last callback of the previous
   run is not recognised; the two runs are treated as one history *)
Theorem spsa_run_boundary_refuted :
  exists thr v h1 h2,
    (exists n f1 f2, h1 = [mk_in n f1] /\ h2 = [mk_in n f2])
    /\ spsa_run legacy_run_boundary thr v None spsa_init (h1 ++ h2)
       <> spsa_run legacy_run_boundary thr v None spsa_init h1 ++ spsa_run legacy_run_boundary thr v None spsa_init h2
    /\ spsa_run repaired thr v None spsa_init (h1 ++ h2)
       = spsa_run repaired thr v None spsa_init h1 ++ spsa_run repaired thr v None spsa_init h2.
Proof.
  exists (1 # 2), 0%nat, [mk_in 2 5], [mk_in 2 6]. split; [exists 2%Z, 5, 6; split; reflexivity|].
  split; [vm_compute; discriminate | vm_compute; reflexivity].
Qed.

Example spsa_run_boundary_answers :
  spsa_run legacy_run_boundary (1 # 2) 0 None spsa_init ([mk_in 2 5] ++ [mk_in 2 6]) = [Ok false; Ok true]
  /\ spsa_run legacy_run_boundary (1 # 2) 0 None spsa_init [mk_in 2 5]
     ++ spsa_run legacy_run_boundary (1 # 2) 0 None spsa_init [mk_in 2 6] = [Ok false; Ok false]
  /\ spsa_run repaired (1 # 2) 0 None spsa_init ([mk_in 2 5] ++ [mk_in 2 6]) = [Ok false; Ok false].
Proof. vm_compute. repeat split. Qed.

(* ------------------------------------------------------------------------------------------------ runs of one optimiser configuration *)
Fixpoint strictly_increasing (l : list Z) : Prop :=
  match l with
  | [] => True
  | x :: r => match r with [] => True | y :: _ => (x < y)%Z /\ strictly_increasing r end
  end.

(* one optimiser run: at least one callback, counters strictly increase *)
Definition run_wf (r : list spsa_in) : Prop := r <> [] /\ strictly_increasing (map si_n r).
Definition first_n (r : list spsa_in) : option Z := option_map si_n (hd_error r).
Definition last_n (r : list spsa_in) : option Z := option_map si_n (last_opt r).

(* every adjacent pair r, r' of runs: the first counter of r' does not exceed the last counter of r *)
Definition adjacent_runs_ok (runs : list (list spsa_in)) : Prop :=
  forall j r r', nth_error runs j = Some r -> nth_error runs (S j) = Some r' ->
    forall a b, first_n r' = Some a -> last_n r = Some b -> (a <= b)%Z.

Lemma last_opt_last {A} (l : list A) d : l <> [] -> last_opt l = Some (last l d).
Proof.
  induction l as [|a l IH]; [congruence|]. intros _. destruct l as [|b l']; [reflexivity|].
  change (last_opt (a :: b :: l')) with (last_opt (b :: l')). change (last (a :: b :: l') d) with (last (b :: l') d).
  apply IH. discriminate.
Qed.

Lemma last_app_nonempty {A} (a l : list A) d : l <> [] -> last (a ++ l) d = last l d.
Proof.
  intros H. induction a as [|x a IH]; [reflexivity|]. simpl app.
  destruct (a ++ l) eqn:E; [destruct a; [simpl in E; congruence|discriminate]|]. rewrite <- E in *. simpl. rewrite E. rewrite <- E. exact IH.
Qed.

Lemma firstn_S_nth_error {A} (l : list A) : forall j x, nth_error l j = Some x -> firstn (S j) l = firstn j l ++ [x].
Proof.
  induction l as [|a l IH]; intros [|j] x H; try discriminate.
  - simpl in H. inversion H; subst. reflexivity.
  - simpl in H. change (firstn (S (S j)) (a :: l)) with (a :: firstn (S j) l). rewrite (IH j x H). reflexivity.
Qed.

Lemma strictly_increasing_first_last l : strictly_increasing l ->
  forall x y, hd_error l = Some x -> last_opt l = Some y -> (x <= y)%Z.
Proof.
  induction l as [|a l IH]; intros S x y Hx Hy; [discriminate|]. simpl in Hx. inversion Hx; subst a.
  destruct l as [|b l'].
  - simpl in Hy. inversion Hy; subst. lia.
  - destruct S as [L S']. change (last_opt (x :: b :: l')) with (last_opt (b :: l')) in Hy.
    specialize (IH S' b y eq_refl Hy). lia.
Qed.

Lemma hd_error_map {A B} (g : A -> B) l : hd_error (map g l) = option_map g (hd_error l).
Proof. destruct l; reflexivity. Qed.

Lemma run_wf_first_le_last r a b : run_wf r -> first_n r = Some a -> last_n r = Some b -> (a <= b)%Z.
Proof.
  intros [_ S] Ha Hb. apply (strictly_increasing_first_last (map si_n r) S).
  - rewrite hd_error_map. exact Ha.
  - rewrite last_opt_map. exact Hb.
Qed.

(* Consecutive runs of optimisers whose counters strictly increase within a run and whose next run never starts
   above the last counter of the previous run: every run start is recognised, the answers are those of the
   individual runs. *)
Theorem spsa_segments_runs thr v maxfev runs : Forall run_wf runs -> adjacent_runs_ok runs ->
  spsa_run repaired thr v maxfev spsa_init (concat runs)
  = concat (map (spsa_run repaired thr v maxfev spsa_init) runs).
Proof.
  intros W Adj. apply spsa_segments_list. intros j [Hj0 Hj].
  destruct j as [|j]; [lia|].
  assert (Er' : nth_error runs (S j) = Some (nth (S j) runs [])) by (apply nth_error_nth'; exact Hj).
  assert (Er : nth_error runs j = Some (nth j runs [])) by (apply nth_error_nth'; lia).
  set (r' := nth (S j) runs []) in *. set (r := nth j runs []) in *.
  rewrite Forall_forall in W.
  destruct (W r (nth_error_In _ _ Er)) as [Nr Sr]. destruct (W r' (nth_error_In _ _ Er')) as [Nr' Sr'].
  destruct r' as [|i rest] eqn:Dr'; [congruence|]. right.
  change (boundary_hit repaired (si_n i) ?x) with (si_n i <=? x)%Z. apply Z.leb_le.
  rewrite (firstn_S_nth_error runs j r Er), concat_app. simpl concat. rewrite app_nil_r.
  rewrite (spsa_nfe_last repaired thr v maxfev _ i) by (destruct (concat (firstn j runs)); [simpl; exact Nr|discriminate]).
  rewrite last_app_nonempty by exact Nr.
  apply (Adj j r (i :: rest) Er Er'); [reflexivity|].
  unfold last_n. rewrite (last_opt_last r i Nr). reflexivity.
Qed.

(* every run of one optimiser configuration issues its first callback with the same counter c *)
Corollary spsa_first_count_constant thr v maxfev runs c : Forall run_wf runs ->
  Forall (fun r => option_map si_n (hd_error r) = Some c) runs ->
  spsa_run repaired thr v maxfev spsa_init (concat runs)
  = concat (map (spsa_run repaired thr v maxfev spsa_init) runs).
Proof.
  intros W F. apply spsa_segments_runs; [exact W|].
  intros j r r' Er Er' a b Ha Hb. rewrite Forall_forall in W, F.
  pose proof (F r' (nth_error_In _ _ Er')) as Fa. unfold first_n in Ha. rewrite Fa in Ha. inversion Ha; subst a.
  apply (run_wf_first_le_last r c b (W r (nth_error_In _ _ Er))); [exact (F r (nth_error_In _ _ Er))|exact Hb].
Qed.

(* the hypotheses are satisfiable: three runs, all starting at counter 2, the second a single callback *)
Definition example_runs : list (list spsa_in) :=
  [[mk_in 2 4; mk_in 4 3]; [mk_in 2 8]; [mk_in 2 4; mk_in 4 1; mk_in 6 1]].

Example spsa_first_count_example :
  Forall run_wf example_runs
  /\ Forall (fun r => option_map si_n (hd_error r) = Some 2%Z) example_runs
  /\ adjacent_runs_ok example_runs
  /\ spsa_run repaired (1 # 2) 0 None spsa_init (concat example_runs)
     = [Ok false; Ok true; Ok false; Ok false; Ok false; Ok true]
  /\ concat (map (spsa_run repaired (1 # 2) 0 None spsa_init) example_runs)
     = [Ok false; Ok true; Ok false; Ok false; Ok false; Ok true].
Proof.
  assert (W : Forall run_wf example_runs).
  { unfold example_runs. repeat (constructor; [split; [discriminate|simpl; lia]|]). constructor. }
  assert (F : Forall (fun r => option_map si_n (hd_error r) = Some 2%Z) example_runs).
  { unfold example_runs. repeat (constructor; [reflexivity|]). constructor. }
  split; [exact W|]. split; [exact F|]. split.
  - intros j r r' Er Er' a b Ha Hb. rewrite Forall_forall in W, F.
    pose proof (F r' (nth_error_In _ _ Er')) as Fa. unfold first_n in Ha. rewrite Fa in Ha. inversion Ha; subst a.
    apply (run_wf_first_le_last r 2%Z b (W r (nth_error_In _ _ Er))); [exact (F r (nth_error_In _ _ Er))|exact Hb].
  - vm_compute. split; reflexivity.
Qed.

(* ------------------------------------------------------------------------------------------------ the limit of the implicit reset *)
(* NOT recognisable: the second run starts with a larger counter than the last callback of the first run, which
   was not ended by the change criterion — indistinguishable from a continuation of the first run *)
Example spsa_unrecognisable_example :
  spsa_run repaired (1 # 2) 0 None spsa_init ([mk_in 2 5] ++ [mk_in 3 6]) = [Ok false; Ok true]
  /\ spsa_run repaired (1 # 2) 0 None spsa_init [mk_in 2 5] ++ spsa_run repaired (1 # 2) 0 None spsa_init [mk_in 3 6]
     = [Ok false; Ok false]
  /\ spsa_run repaired (1 # 2) 0 None spsa_init ([mk_in 2 5] ++ [mk_in 3 6])
     <> spsa_run repaired (1 # 2) 0 None spsa_init [mk_in 2 5] ++ spsa_run repaired (1 # 2) 0 None spsa_init [mk_in 3 6].
Proof. vm_compute. repeat split. discriminate. Qed.

(* Model-level witness of the KNOWN FINDING answer-spsa-run-boundary-increasing-count (SPSA with blocking=True: the first
   checker call of a run carries a varying evaluation count): run 1 [(n=4, f=5)] was answered False, run 2 starts with
   the larger count 7; the checker cannot tell it from a continuation, compares 6 with 5 (relative change 0.2 < 0.5) and
   answers True although run 2 alone is answered False. *)
Example spsa_known_finding_increasing_count :
  spsa_run repaired (1 # 2) 0 None spsa_init ([mk_in 4 5] ++ [mk_in 7 6]) = [Ok false; Ok true]
  /\ spsa_run repaired (1 # 2) 0 None spsa_init [mk_in 4 5] ++ spsa_run repaired (1 # 2) 0 None spsa_init [mk_in 7 6]
     = [Ok false; Ok false]
  /\ ~ (match [mk_in 7 6] with
        | [] => True
        | i :: _ => done (spsa_state_after repaired (1 # 2) 0 None spsa_init [mk_in 4 5]) = true
                    \/ (si_n i <= nfe (spsa_state_after repaired (1 # 2) 0 None spsa_init [mk_in 4 5]))%Z
        end).
Proof. vm_compute. repeat split. intros [H|H]; [discriminate | apply H; reflexivity]. Qed.
