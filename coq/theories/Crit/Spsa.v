(* C13 — executable model of queasars/utility/spsa_termination.py (definitions only).
   SPSATerminationChecker.termination_check transcribed statement by statement, including the implicit reset
   (previous call answered through the change criterion, or the evaluation counter did not increase), maxfev, the
   accepted filter and the best-value bookkeeping.  Parameter vectors are opaque tokens (Z).  Flags as in Criteria.v;
   [nonincreasing_boundary fl = false] is the behaviour before fix 05ee1f9 (reset only on a strictly smaller counter).

   Which optimiser behaviour the implicit reset covers.  Within one run of qiskit_algorithms' SPSA the evaluation
   counter strictly increases from callback to callback (every iteration evaluates the objective at least twice).
   WITHOUT blocking every run of one optimiser configuration issues its first callback with the same counter; then the
   first counter of a new run never exceeds the last counter of the previous run and "counter did not increase"
   recognises every run start (Spsa_proofs.v: spsa_segments_runs, spsa_first_count_constant — conditional theorems).
   With SPSA(blocking=True) this is FALSE: rejected iterations skip the checker call while the counter keeps growing,
   so the first call of a run carries a varying counter.  NOT recognisable (KNOWN FINDING of C13, known_findings.txt key
   answer-spsa-run-boundary-increasing-count; no repair without an explicit reset signal in the callback interface): a
   new run whose first counter is larger than the last counter of the previous run that was not ended by the change
   criterion, e.g. run 1 [(n=4, f=5.0)] then run 2 [(n=7, f=6.0), ...] — it is indistinguishable from a continuation and
   the two runs are merged (Spsa_proofs.v: spsa_known_finding_increasing_count, spsa_unrecognisable_example). *)
From QV Require Import Common.Base Crit.Criteria.
From Coq Require Import QArith Qabs.
Open Scope Q_scope.

(* one callback of qiskit_algorithms' SPSA: (n_function_evaluations, parameter_values, function_value, step_size, accepted);
   step_size is never read *)
Record spsa_in := { si_n : Z; si_par : Z; si_f : Q; si_acc : bool }.

Record spsa_state := {
  fv_hist : list Q;        (* _function_value_history *)
  ch_hist : list ext;      (* _change_history *)
  nfe : Z;                 (* _n_function_evaluations *)
  nfe_hist : list Z;       (* _n_function_evaluation_history *)
  best_f : ext;            (* _best_function_value, float("inf") initially *)
  best_par : option Z;     (* _best_parameter_values *)
  done : bool              (* _done *)
}.

Definition spsa_init : spsa_state :=
  {| fv_hist := []; ch_hist := []; nfe := 0%Z; nfe_hist := []; best_f := Inf; best_par := None; done := false |}.

Definition maxfev_hit (maxfev : option Z) (n : Z) : bool :=
  match maxfev with Some m => (m <=? n)%Z | None => false end.

(* n_function_evaluations <= self._n_function_evaluations   (before fix 05ee1f9: < ) *)
Definition boundary_hit (fl : flags) (n stored : Z) : bool :=
  if nonincreasing_boundary fl then (n <=? stored)%Z else (n <? stored)%Z.

Definition spsa_step (fl : flags) (thr : Q) (v : nat) (maxfev : option Z) (s : spsa_state) (i : spsa_in)
  : spsa_state * result bool :=
  (* if self._done or n_function_evaluations <= self._n_function_evaluations: reset everything *)
  let s1 := if done s || boundary_hit fl (si_n i) (nfe s) then spsa_init else s in
  (* self._n_function_evaluations = n_function_evaluations *)
  let s2 := {| fv_hist := fv_hist s1; ch_hist := ch_hist s1; nfe := si_n i; nfe_hist := nfe_hist s1;
               best_f := best_f s1; best_par := best_par s1; done := done s1 |} in
  if maxfev_hit maxfev (si_n i) then (s2, Ok true)
  else if negb (si_acc i) then (s2, Ok false)
  else
    let fvh := fv_hist s2 ++ [si_f i] in
    let nh := nfe_hist s2 ++ [si_n i] in
    let better := ext_ltb (Fin (si_f i)) (best_f s2) in
    let s3 := {| fv_hist := fvh; ch_hist := ch_hist s2; nfe := si_n i; nfe_hist := nh;
                 best_f := if better then Fin (si_f i) else best_f s2;
                 best_par := if better then Some (si_par i) else best_par s2; done := done s2 |} in
    if (length fvh <? 2)%nat then (s3, Ok false)
    else
      match nth_error fvh (length fvh - 2) with
      | None => (s3, Err "IndexError") (* unreachable *)
      | Some prev =>
          match rel_change fl (Qabs (si_f i - prev)) prev with
          | Err e => (s3, Err e)
          | Ok c =>
              let ch := ch_hist s3 ++ [c] in
              let s4 d := {| fv_hist := fvh; ch_hist := ch; nfe := si_n i; nfe_hist := nh;
                             best_f := best_f s3; best_par := best_par s3; done := d |} in
              match window_answer v thr ch with
              | Err e => (s4 (done s3), Err e)
              | Ok true => (s4 true, Ok true)
              | Ok false => (s4 (done s3), Ok false)
              end
          end
      end.

Fixpoint spsa_run (fl : flags) (thr : Q) (v : nat) (maxfev : option Z) (s : spsa_state) (h : list spsa_in) : list (result bool) :=
  match h with
  | [] => []
  | i :: r => let '(s', a) := spsa_step fl thr v maxfev s i in a :: spsa_run fl thr v maxfev s' r
  end.

(* the answers together with the public properties after every call (for the correspondence) *)
Record spsa_obs := { o_answer : result bool; o_nfe : Z; o_fv : list Q; o_nh : list Z; o_best : ext; o_par : option Z }.

Fixpoint spsa_trace (fl : flags) (thr : Q) (v : nat) (maxfev : option Z) (s : spsa_state) (h : list spsa_in) : list spsa_obs :=
  match h with
  | [] => []
  | i :: r =>
      let '(s', a) := spsa_step fl thr v maxfev s i in
      {| o_answer := a; o_nfe := nfe s'; o_fv := fv_hist s'; o_nh := nfe_hist s'; o_best := best_f s'; o_par := best_par s' |}
        :: spsa_trace fl thr v maxfev s' r
  end.

(* ------------------------------------------------------------------------------------------------ specification *)
(* The accepted function values of one optimiser run are a history of "evaluations" whose documented reference value is
   the previous accepted function value: the change criterion is [terminate_at (below_best_rel thr) v]. *)
Definition as_eval (f : Q) : evaluation := {| best := f; values := [Some f] |}.
(* a callback is recorded in the function value history iff it was accepted and the evaluation budget was not exhausted *)
Definition recorded (maxfev : option Z) (i : spsa_in) : bool := negb (maxfev_hit maxfev (si_n i)) && si_acc i.
Definition accepted_values (maxfev : option Z) (seg : list spsa_in) : list evaluation :=
  map (fun i => as_eval (si_f i)) (filter (recorded maxfev) seg).

(* the answer to the last callback i of the run prefix seg ++ [i] *)
Definition spsa_answer (thr : Q) (v : nat) (maxfev : option Z) (seg : list spsa_in) (i : spsa_in) : bool :=
  if maxfev_hit maxfev (si_n i) then true
  else if negb (si_acc i) then false
  else let a := accepted_values maxfev (seg ++ [i]) in terminate_at (below_best_rel thr) v a (length a - 1).

(* the change criterion (not maxfev) answered "terminate" *)
Definition spsa_criterion_fired (thr : Q) (v : nat) (maxfev : option Z) (seg : list spsa_in) (i : spsa_in) : bool :=
  negb (maxfev_hit maxfev (si_n i)) && spsa_answer thr v maxfev seg i.

(* Whole callback sequence: a new optimiser run is recognised when the previous callback was answered "terminate"
   by the change criterion or when the evaluation counter does not increase; [seg] is the current run so far, [lastn]
   the counter of the previous callback (0 before the first), [closed] whether the criterion fired on it. *)
Fixpoint spsa_spec (thr : Q) (v : nat) (maxfev : option Z) (seg : list spsa_in) (lastn : Z) (closed : bool) (h : list spsa_in)
  : list (result bool) :=
  match h with
  | [] => []
  | i :: r =>
      let seg' := if closed || (si_n i <=? lastn)%Z then [] else seg in
      Ok (spsa_answer thr v maxfev seg' i)
        :: spsa_spec thr v maxfev (seg' ++ [i]) (si_n i) (spsa_criterion_fired thr v maxfev seg' i) r
  end.
