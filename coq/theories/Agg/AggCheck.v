(* Correspondence entry point for C14: a case carries the distribution (integer states in dictionary order with the exact
   rational value of every float probability), the diagonal operator, alpha, what both implementation paths returned
   (value or exception class) and the comparison tolerance chosen by the harness (1e-9 of the case's value scale). *)
From QV Require Import Common.Base Agg.Cvar.
From Coq Require Import QArith Qabs NArith.

Definition close_result (tol : Q) (model expected : result Q) : bool :=
  match model, expected with
  | Ok x, Ok y => Qle_bool (Qabs (x - y)) tol
  | Err a, Err b => String.eqb a b
  | _, _ => false
  end.

Inductive c14case :=
| CAgg (num_bits : nat) (d : dist) (op : list term) (len : nat) (alpha tol : Q) (exp_operator exp_bitstring : result Q)
| CRaw (l : list entry) (alpha tol : Q) (expected : result Q)
| CAlpha (alpha : Q) (accepted : bool)
(* bitstring path alone, the key width taken from the distribution itself (None: integer keys, padded to the largest) *)
| CBits (key_width : option nat) (d : dist) (op : list term) (len : nat) (alpha tol : Q) (exp_bitstring : result Q)
(* which variant of the accumulation break an implementation agrees with (replay only) *)
| CRawGen (atol_break : bool) (l : list entry) (alpha tol : Q) (expected : result Q).  (* the alpha range check of the circuit evaluators' constructors *)

Definition check_case (c : c14case) : bool :=
  match c with
  | CAgg nb d op len alpha tol eo eb =>
      close_result tol (expectation_with_operator d op alpha) eo
      && close_result tol (expectation_with_bitstring nb d len op alpha) eb
  | CRaw l alpha tol e => close_result tol (get_expectation l alpha) e
  | CAlpha alpha a => Bool.eqb (alpha_ok alpha) a
  | CBits kw d op len alpha tol eb => close_result tol (expectation_with_bitstring (dist_num_bits kw d) d len op alpha) eb
  | CRawGen ab l alpha tol e => close_result tol (get_expectation_gen ab l alpha) e
  end.

Definition show_case (c : c14case) : list (result Q) :=
  match c with
  | CAgg nb d op len alpha _ _ _ =>
      [expectation_with_operator d op alpha; expectation_with_bitstring nb d len op alpha;
       Ok (cvar (map (fun sp => (snd sp, eval_diag op (fst sp))) d) alpha)]
  | CRaw l alpha _ _ => [get_expectation l alpha; Ok (cvar l alpha)]
  | CAlpha alpha _ => [if alpha_ok alpha then Ok alpha else Err "ValueError"]
  | CBits kw d op len alpha _ _ => [expectation_with_bitstring (dist_num_bits kw d) d len op alpha]
  | CRawGen ab l alpha _ _ => [get_expectation_gen ab l alpha; Ok (cvar l alpha)]
  end.
