(* C14 — proofs about the model in Agg/Cvar.v: the specification [cvar] is the least mean over any choice of alpha
   mass, is order independent, monotone in alpha and bounded; the implementation's [accumulate] agrees with it exactly
   or up to the tolerance of the isclose break; the alpha = 1 / alpha isclose 1 paths; operator and bitstring paths. *)
From QV Require Import Common.Base Agg.Cvar.
From Coq Require Import QArith Qabs Qminmax Lqa Permutation Sorted NArith.
Open Scope Q_scope.

(* ------------------------------------------------------------------------------------------------ small Q helpers *)
Definition nonneg (e : entry) : Prop := 0 <= fst e.
Definition vle (a b : entry) : Prop := snd a <= snd b.
Definition sorted_by_value (l : list entry) : Prop := StronglySorted vle l.

Definition sumQ (ws : list Q) : Q := fold_right Qplus 0 ws.
(* weighted sum of the values of l with weights ws *)
Fixpoint wsum (ws : list Q) (l : list entry) : Q :=
  match ws, l with
  | w :: ws', e :: l' => w * snd e + wsum ws' l'
  | _, _ => 0
  end.
(* admissible weights: of every entry at most its probability, never a negative amount *)
Definition adm (w : Q) (e : entry) : Prop := 0 <= w /\ w <= fst e.

Lemma take_facts m p : 0 <= m -> 0 <= p ->
  0 <= Qmax 0 (Qmin m p) /\ Qmax 0 (Qmin m p) <= p /\ Qmax 0 (Qmin m p) <= m /\
  ((Qmax 0 (Qmin m p) == m /\ m <= p) \/ (Qmax 0 (Qmin m p) == p /\ p <= m)).
Proof.
  intros Hm Hp.
  destruct (Q.max_spec 0 (Qmin m p)) as [[? ?]|[? ?]], (Q.min_spec m p) as [[? ?]|[? ?]];
    repeat split; try lra; try (left; split; lra); try (right; split; lra).
Qed.

Lemma take_eq m m' p : m == m' -> Qmax 0 (Qmin m p) == Qmax 0 (Qmin m' p).
Proof. intros H. rewrite H. reflexivity. Qed.

Lemma Qmin_eq_l a b c : a == b -> Qmin a c == Qmin b c.
Proof. intros H. rewrite H. reflexivity. Qed.

Lemma Qdiv_le_div a x y : 0 < a -> x <= y -> x / a <= y / a.
Proof.
  intros Ha H. apply Qle_shift_div_r; [assumption|].
  assert (E : y / a * a == y) by (field; lra). lra.
Qed.

Lemma Qdiv_mul a x : 0 < a -> x / a * a == x.
Proof. intros. field. lra. Qed.

Lemma Qabs_div_bound a x y B : 0 < a -> Qabs (x - y) <= B * a -> Qabs (x / a - y / a) <= B.
Proof.
  intros Ha H. apply Qabs_Qle_condition in H. apply Qabs_Qle_condition.
  pose proof (Qdiv_mul a x Ha) as Ex. pose proof (Qdiv_mul a y Ha) as Ey.
  split.
  - apply Qmult_lt_0_le_reg_r with a; [assumption|]. lra.
  - apply Qmult_lt_0_le_reg_r with a; [assumption|]. lra.
Qed.

(* ------------------------------------------------------------------------------------------------ 0. sorting *)
Lemma insert_perm x l : Permutation (insert_by_value x l) (x :: l).
Proof.
  induction l as [|y ys IH]; simpl; [reflexivity|].
  destruct (Qle_bool (snd x) (snd y)); [reflexivity|].
  rewrite IH. apply perm_swap.
Qed.

Lemma sort_perm l : Permutation (sort_by_value l) l.
Proof.
  induction l as [|x xs IH]; simpl; [reflexivity|].
  rewrite insert_perm. constructor. exact IH.
Qed.

Lemma insert_sorted x l : sorted_by_value l -> sorted_by_value (insert_by_value x l).
Proof.
  unfold sorted_by_value. induction l as [|y ys IH]; simpl; intros H.
  - constructor; constructor.
  - apply StronglySorted_inv in H as [Hs Hf].
    destruct (Qle_bool (snd x) (snd y)) eqn:E.
    + apply Qle_bool_iff in E. constructor; [constructor; assumption|].
      constructor; [exact E|]. eapply Forall_impl; [|exact Hf]. unfold vle; intros a Ha. lra.
    + assert (Hlt : snd y < snd x).
      { apply Qnot_le_lt. intros C. apply Qle_bool_iff in C. congruence. }
      constructor; [apply IH; assumption|].
      eapply Permutation_Forall; [symmetry; apply insert_perm|].
      constructor; [unfold vle; lra|assumption].
Qed.

Lemma sort_sorted l : sorted_by_value (sort_by_value l).
Proof.
  induction l as [|x xs IH]; simpl; [constructor|]. apply insert_sorted. exact IH.
Qed.

Lemma sort_Sorted l : Sorted vle (sort_by_value l).
Proof. apply StronglySorted_Sorted. apply sort_sorted. Qed.

Lemma sort_of_sorted l : sorted_by_value l -> sort_by_value l = l.
Proof.
  unfold sorted_by_value. induction l as [|x xs IH]; simpl; intros H; [reflexivity|].
  apply StronglySorted_inv in H as [Hs Hf]. fold (sort_by_value xs). rewrite (IH Hs).
  destruct xs as [|y ys]; simpl; [reflexivity|].
  inversion Hf as [|? ? Hxy _]; subst. unfold vle in Hxy. apply Qle_bool_iff in Hxy. rewrite Hxy. reflexivity.
Qed.

Lemma sort_idempotent l : sort_by_value (sort_by_value l) = sort_by_value l.
Proof. apply sort_of_sorted. apply sort_sorted. Qed.

(* ------------------------------------------------------------------------------------------------ 0. sums *)
Lemma total_mass_perm l l' : Permutation l l' -> total_mass l == total_mass l'.
Proof. induction 1; simpl; lra. Qed.

Lemma expectation_perm l l' : Permutation l l' -> expectation l == expectation l'.
Proof. induction 1; simpl; lra. Qed.

Lemma plain_expectation_gen d a :
  fold_left (fun acc e => acc + fst e * snd e) d a == a + expectation d.
Proof.
  revert a. induction d as [|x xs IH]; intros a; simpl; [lra|]. rewrite IH. lra.
Qed.

Lemma plain_expectation_expectation d : plain_expectation d == expectation d.
Proof. unfold plain_expectation. rewrite plain_expectation_gen. lra. Qed.

Lemma plain_expectation_perm l l' : Permutation l l' -> plain_expectation l == plain_expectation l'.
Proof. intros H. rewrite !plain_expectation_expectation. apply expectation_perm. exact H. Qed.

Lemma total_mass_nonneg l : Forall nonneg l -> 0 <= total_mass l.
Proof. induction 1 as [|x xs Hx _ IH]; simpl; [lra|]. unfold nonneg in Hx. lra. Qed.

Lemma nonneg_perm l l' : Permutation l l' -> Forall nonneg l -> Forall nonneg l'.
Proof. intros H. apply Permutation_Forall. exact H. Qed.

Lemma is_dist_nonneg l : is_dist l -> Forall nonneg l.
Proof. intros [H _]. exact H. Qed.

Lemma is_dist_perm l l' : Permutation l l' -> is_dist l -> is_dist l'.
Proof.
  intros P [H1 H2]. split.
  - eapply Permutation_Forall; eassumption.
  - rewrite <- (total_mass_perm _ _ P). exact H2.
Qed.

Lemma is_dist_sort l : is_dist l -> is_dist (sort_by_value l).
Proof. apply is_dist_perm. symmetry. apply sort_perm. Qed.

(* ------------------------------------------------------------------------------------------------ 0. fill *)
Lemma fill_ext l : forall a g a' g', a - g == a' - g' -> fill a l g == fill a' l g'.
Proof.
  induction l as [|[p v] r IH]; intros a g a' g' H; simpl; [reflexivity|].
  pose proof (take_eq _ _ p H) as E.
  rewrite (IH a (g + Qmax 0 (Qmin (a - g) p)) a' (g' + Qmax 0 (Qmin (a' - g') p))) by lra.
  rewrite E. reflexivity.
Qed.

Lemma fill_shift alpha l g : fill alpha l g == fill (alpha - g) l 0.
Proof. apply fill_ext. lra. Qed.

Lemma fill_zero l : forall a g, a - g <= 0 -> fill a l g == 0.
Proof.
  induction l as [|[p v] r IH]; intros a g H; simpl; [reflexivity|].
  assert (E : Qmax 0 (Qmin (a - g) p) == 0).
  { destruct (Q.max_spec 0 (Qmin (a - g) p)) as [[? ?]|[? ?]], (Q.min_spec (a - g) p) as [[? ?]|[? ?]]; lra. }
  rewrite (IH a (g + Qmax 0 (Qmin (a - g) p))) by lra. rewrite E. lra.
Qed.

(* when the whole list fits, fill takes everything *)
Lemma fill_all l : forall a g, Forall nonneg l -> total_mass l <= a - g -> fill a l g == expectation l.
Proof.
  induction l as [|[p v] r IH]; intros a g Hn H; simpl in *; [reflexivity|].
  inversion Hn as [|? ? Hp Hr]; subst. unfold nonneg in Hp; simpl in Hp.
  pose proof (total_mass_nonneg r Hr) as Ht.
  assert (E : Qmax 0 (Qmin (a - g) p) == p).
  { destruct (Q.max_spec 0 (Qmin (a - g) p)) as [[? ?]|[? ?]], (Q.min_spec (a - g) p) as [[? ?]|[? ?]]; lra. }
  rewrite (IH a (g + Qmax 0 (Qmin (a - g) p))); [|assumption|lra]. rewrite E. lra.
Qed.

(* the masses fill takes: admissible weights that sum to min(m, total mass) *)
Lemma fill_takes l : forall a g, Forall nonneg l -> 0 <= a - g ->
  exists ws, Forall2 adm ws l /\ sumQ ws == Qmin (a - g) (total_mass l) /\ wsum ws l == fill a l g.
Proof.
  induction l as [|[p v] r IH]; intros a g Hn H; simpl.
  - exists []. split; [constructor|]. split; [|reflexivity]. simpl.
    destruct (Q.min_spec (a - g) 0) as [[? ?]|[? ?]]; lra.
  - inversion Hn as [|? ? Hp Hr]; subst. unfold nonneg in Hp; simpl in Hp.
    pose proof (total_mass_nonneg r Hr) as Ht.
    destruct (take_facts (a - g) p H Hp) as (T0 & Tp & Tm & Tc).
    set (t := Qmax 0 (Qmin (a - g) p)) in *.
    destruct (IH a (g + t) Hr) as (ws & Ha & Hs & Hw); [lra|].
    exists (t :: ws). split; [|split].
    + constructor; [split; simpl; assumption|assumption].
    + simpl. rewrite Hs.
      destruct (Q.min_spec (a - (g + t)) (total_mass r)) as [[? ?]|[? ?]],
               (Q.min_spec (a - g) (p + total_mass r)) as [[? ?]|[? ?]]; destruct Tc as [[? ?]|[? ?]]; lra.
    + simpl. rewrite Hw. reflexivity.
Qed.

Lemma adm_sum_nonneg ws l : Forall2 adm ws l -> 0 <= sumQ ws.
Proof. induction 1 as [|w e ws l [H0 _] _ IH]; simpl; lra. Qed.

Lemma adm_sum_le ws l : Forall2 adm ws l -> sumQ ws <= total_mass l.
Proof. induction 1 as [|w e ws l [_ H1] _ IH]; simpl; lra. Qed.

Lemma wsum_lower c ws l : Forall2 adm ws l -> Forall (fun e => c <= snd e) l -> c * sumQ ws <= wsum ws l.
Proof.
  induction 1 as [|w e ws l [H0 _] _ IH]; intros Hc; simpl; [lra|].
  inversion Hc as [|? ? Hce Hcl]; subst. specialize (IH Hcl).
  pose proof (Qmult_le_0_compat w (snd e - c) H0 ltac:(lra)). lra.
Qed.

Lemma wsum_upper c ws l : Forall2 adm ws l -> Forall (fun e => snd e <= c) l -> wsum ws l <= c * sumQ ws.
Proof.
  induction 1 as [|w e ws l [H0 _] _ IH]; intros Hc; simpl; [lra|].
  inversion Hc as [|? ? Hce Hcl]; subst. specialize (IH Hcl).
  pose proof (Qmult_le_0_compat w (c - snd e) H0 ltac:(lra)). lra.
Qed.

(* what the weights leave behind *)
Lemma rest_upper c ws l : Forall2 adm ws l -> Forall (fun e => snd e <= c) l ->
  expectation l - wsum ws l <= c * (total_mass l - sumQ ws).
Proof.
  induction 1 as [|w e ws l [_ H1] _ IH]; intros Hc; simpl; [lra|].
  inversion Hc as [|? ? Hce Hcl]; subst. specialize (IH Hcl).
  pose proof (Qmult_le_0_compat (fst e - w) (c - snd e) ltac:(lra) ltac:(lra)). lra.
Qed.

Lemma rest_lower c ws l : Forall2 adm ws l -> Forall (fun e => c <= snd e) l ->
  c * (total_mass l - sumQ ws) <= expectation l - wsum ws l.
Proof.
  induction 1 as [|w e ws l [_ H1] _ IH]; intros Hc; simpl; [lra|].
  inversion Hc as [|? ? Hce Hcl]; subst. specialize (IH Hcl).
  pose proof (Qmult_le_0_compat (fst e - w) (snd e - c) ltac:(lra) ltac:(lra)). lra.
Qed.

(* ------------------------------------------------------------------------------------------------ 1. least-ness *)
Theorem fill_least l : sorted_by_value l -> Forall nonneg l ->
  forall ws m M c, Forall2 adm ws l -> M == sumQ ws -> 0 <= m -> m <= M -> Forall (fun e => c <= snd e) l ->
  fill m l 0 + (M - m) * c <= wsum ws l.
Proof.
  unfold sorted_by_value. induction l as [|[p v] r IH]; intros Hs Hn ws m M c Ha HM Hm HmM Hc.
  - inversion Ha; subst. simpl in *. assert (E : M - m == 0) by lra. rewrite E. lra.
  - inversion Ha as [|w e ws' l' [Hw0 Hwp] Ha']; subst. simpl in Hwp, HM |- *.
    apply StronglySorted_inv in Hs as [Hs Hf].
    inversion Hn as [|? ? Hp Hr]; subst. unfold nonneg in Hp; simpl in Hp.
    inversion Hc as [|? ? Hcv Hcr]; subst. simpl in Hcv.
    assert (Hm0 : 0 <= m - 0) by lra.
    destruct (take_facts (m - 0) p Hm0 Hp) as (T0 & Tp & Tm & Tc).
    set (t := Qmax 0 (Qmin (m - 0) p)) in *.
    pose proof (adm_sum_nonneg _ _ Ha') as Hs0.
    rewrite (fill_ext r m (0 + t) (m - t) 0) by lra.
    assert (Hv : Forall (fun e => v <= snd e) r).
    { eapply Forall_impl; [|exact Hf]. unfold vle; simpl; intros a Hx; exact Hx. }
    assert (HmM' : m - t <= M - w) by (destruct Tc as [[? ?]|[? ?]]; lra).
    pose proof (IH Hs Hr ws' (m - t) (M - w) v Ha' ltac:(lra) ltac:(lra) HmM' Hv) as IH'.
    pose proof (Qmult_le_0_compat (M - m) (v - c) ltac:(lra) ltac:(lra)). lra.
Qed.

Lemma lower_bound_exists (l : list entry) : exists c, Forall (fun e => c <= snd e) l.
Proof.
  induction l as [|e r [c Hc]].
  - exists 0. constructor.
  - exists (Qmin c (snd e)). constructor.
    + apply Q.le_min_r.
    + eapply Forall_impl; [|exact Hc]. simpl; intros a Ha. pose proof (Q.le_min_l c (snd e)). lra.
Qed.

Lemma fill_least_eq l ws m : sorted_by_value l -> Forall nonneg l -> Forall2 adm ws l -> m == sumQ ws ->
  fill m l 0 <= wsum ws l.
Proof.
  intros Hs Hn Ha Hm. destruct (lower_bound_exists l) as [c Hc].
  pose proof (adm_sum_nonneg _ _ Ha).
  pose proof (fill_least l Hs Hn ws m m c Ha Hm ltac:(lra) ltac:(lra) Hc) as H1.
  assert (E : (m - m) * c == 0) by ring. lra.
Qed.

(* ------------------------------------------------------------------------------------------------ 4. transport *)
Lemma adm_transport l l' : Permutation l l' -> forall ws, Forall2 adm ws l ->
  exists ws', Forall2 adm ws' l' /\ sumQ ws' == sumQ ws /\ wsum ws' l' == wsum ws l.
Proof.
  induction 1 as [|x l l' P IH|x y l|l l' l'' P1 IH1 P2 IH2]; intros ws Ha.
  - inversion Ha; subst. exists []. repeat split; try reflexivity. constructor.
  - inversion Ha as [|w e ws0 l0 Hw Ha0]; subst.
    destruct (IH ws0 Ha0) as (ws' & A & S & W).
    exists (w :: ws'). split; [constructor; assumption|]. simpl. split; [rewrite S|rewrite W]; reflexivity.
  - inversion Ha as [|w1 e1 ws1 l1 Hw1 Ha1]; subst. inversion Ha1 as [|w2 e2 ws2 l2 Hw2 Ha2]; subst.
    exists (w2 :: w1 :: ws2). split; [constructor; [assumption|constructor; assumption]|]. simpl. split; lra.
  - destruct (IH1 ws Ha) as (ws1 & A1 & S1 & W1). destruct (IH2 ws1 A1) as (ws2 & A2 & S2 & W2).
    exists ws2. split; [assumption|]. split; lra.
Qed.

(* the lowest-valued mass m is the cheapest choice of mass m, whatever the order of the input *)
Theorem fill_sort_least l ws m : Forall nonneg l -> Forall2 adm ws l -> m == sumQ ws ->
  fill m (sort_by_value l) 0 <= wsum ws l.
Proof.
  intros Hn Ha Hm.
  destruct (adm_transport l (sort_by_value l) (Permutation_sym (sort_perm l)) ws Ha) as (ws' & A & S & W).
  rewrite <- W. apply fill_least_eq; try assumption.
  - apply sort_sorted.
  - eapply nonneg_perm; [symmetry; apply sort_perm|assumption].
  - lra.
Qed.

Theorem cvar_least l ws alpha : Forall nonneg l -> 0 < alpha -> Forall2 adm ws l -> sumQ ws == alpha ->
  cvar l alpha <= wsum ws l / alpha.
Proof.
  intros Hn Ha Hw Hs. unfold cvar. apply Qdiv_le_div; [assumption|].
  apply fill_sort_least; try assumption. lra.
Qed.

(* ... and it is attained: the masses fill takes are such a choice *)
Theorem cvar_attained l alpha : Forall nonneg l -> 0 < alpha -> alpha <= total_mass l ->
  exists ws, Forall2 adm ws (sort_by_value l) /\ sumQ ws == alpha /\ cvar l alpha == wsum ws (sort_by_value l) / alpha.
Proof.
  intros Hn Ha Ht.
  assert (Hn' : Forall nonneg (sort_by_value l)) by (eapply nonneg_perm; [symmetry; apply sort_perm|assumption]).
  destruct (fill_takes (sort_by_value l) alpha 0 Hn' ltac:(lra)) as (ws & A & S & W).
  exists ws. split; [assumption|]. split.
  - rewrite S. rewrite (total_mass_perm _ _ (sort_perm l)).
    destruct (Q.min_spec (alpha - 0) (total_mass l)) as [[? ?]|[? ?]]; lra.
  - unfold cvar. rewrite W. reflexivity.
Qed.

(* ------------------------------------------------------------------------------------------------ 2. bounds *)
Lemma values_within_perm lo hi l l' : Permutation l l' -> values_within lo hi l -> values_within lo hi l'.
Proof. intros P. apply Permutation_Forall. exact P. Qed.

Lemma abs_values_le_perm V l l' : Permutation l l' -> abs_values_le V l -> abs_values_le V l'.
Proof. intros P. apply Permutation_Forall. exact P. Qed.

Lemma values_within_lo lo hi l : values_within lo hi l -> Forall (fun e => lo <= snd e) l.
Proof. apply Forall_impl. intros a [H _]; exact H. Qed.

Lemma values_within_hi lo hi l : values_within lo hi l -> Forall (fun e => snd e <= hi) l.
Proof. apply Forall_impl. intros a [_ H]; exact H. Qed.

Lemma scaled_adm k l : 0 <= k -> k <= 1 -> Forall nonneg l -> Forall2 adm (map (fun e => k * fst e) l) l.
Proof.
  intros K0 K1. induction 1 as [|e r He _ IH]; simpl; constructor; [|exact IH].
  unfold nonneg in He. pose proof (Qmult_le_0_compat k (fst e) K0 He).
  pose proof (Qmult_le_0_compat (1 - k) (fst e) ltac:(lra) He). split; lra.
Qed.

Lemma scaled_sum k l : sumQ (map (fun e => k * fst e) l) == k * total_mass l.
Proof. induction l as [|e r IH]; simpl; [lra|]. rewrite IH. lra. Qed.

Lemma scaled_wsum k l : wsum (map (fun e => k * fst e) l) l == k * expectation l.
Proof. induction l as [|e r IH]; simpl; [lra|]. rewrite IH. lra. Qed.

(* the fill of mass alpha on the sorted list, with its weights *)
Lemma sorted_fill_weights l alpha : Forall nonneg l -> 0 <= alpha -> alpha <= total_mass l ->
  exists ws, Forall2 adm ws (sort_by_value l) /\ sumQ ws == alpha /\
             wsum ws (sort_by_value l) == fill alpha (sort_by_value l) 0.
Proof.
  intros Hn Ha Ht.
  assert (Hn' : Forall nonneg (sort_by_value l)) by (eapply nonneg_perm; [symmetry; apply sort_perm|assumption]).
  destruct (fill_takes (sort_by_value l) alpha 0 Hn' ltac:(lra)) as (ws & A & S & W).
  exists ws. split; [assumption|]. split; [|assumption].
  rewrite S. rewrite (total_mass_perm _ _ (sort_perm l)).
  destruct (Q.min_spec (alpha - 0) (total_mass l)) as [[? ?]|[? ?]]; lra.
Qed.

Theorem cvar_bounds l alpha lo hi : is_dist l -> 0 < alpha -> alpha <= 1 -> values_within lo hi l ->
  lo <= cvar l alpha /\ cvar l alpha <= expectation l.
Proof.
  intros [Hn Ht] Ha0 Ha1 Hv. split.
  - destruct (sorted_fill_weights l alpha Hn ltac:(lra) ltac:(lra)) as (ws & A & S & W).
    unfold cvar. apply Qle_shift_div_l; [assumption|]. rewrite <- W.
    pose proof (wsum_lower lo ws (sort_by_value l) A
                  (values_within_lo _ _ _ (values_within_perm _ _ _ _ (Permutation_sym (sort_perm l)) Hv))) as H.
    rewrite S in H. exact H.
  - unfold cvar. apply Qle_shift_div_r; [assumption|].
    pose proof (fill_sort_least l (map (fun e => alpha * fst e) l) alpha Hn
                  (scaled_adm alpha l ltac:(lra) Ha1 Hn)) as H.
    rewrite scaled_sum, scaled_wsum in H. rewrite Ht in H. specialize (H ltac:(lra)). lra.
Qed.

(* ------------------------------------------------------------------------------------------------ 3. monotone *)
Lemma scale_adm k ws l : 0 <= k -> k <= 1 -> Forall2 adm ws l -> Forall2 adm (map (Qmult k) ws) l.
Proof.
  intros K0 K1. induction 1 as [|w e ws l [H0 H1] _ IH]; simpl; constructor; [|exact IH].
  pose proof (Qmult_le_0_compat k w K0 H0).
  pose proof (Qmult_le_0_compat (1 - k) w ltac:(lra) H0). split; lra.
Qed.

Lemma scale_sum k ws : sumQ (map (Qmult k) ws) == k * sumQ ws.
Proof. induction ws as [|w r IH]; simpl; [lra|]. rewrite IH. lra. Qed.

Lemma scale_wsum k ws : forall l, wsum (map (Qmult k) ws) l == k * wsum ws l.
Proof. induction ws as [|w r IH]; intros [|e l]; simpl; try lra. rewrite IH. lra. Qed.

Theorem cvar_mono l a1 a2 : is_dist l -> 0 < a1 -> a1 <= a2 -> a2 <= 1 -> cvar l a1 <= cvar l a2.
Proof.
  intros [Hn Ht] H1 H12 H2.
  destruct (sorted_fill_weights l a2 Hn ltac:(lra) ltac:(lra)) as (ws & A & S & W).
  assert (Hn' : Forall nonneg (sort_by_value l)) by (eapply nonneg_perm; [symmetry; apply sort_perm|assumption]).
  set (k := a1 / a2).
  assert (Hk : k * a2 == a1) by (unfold k; field; lra).
  assert (Hk0 : 0 <= k) by (apply Qle_shift_div_l; lra).
  assert (Hk1 : k <= 1) by (apply Qle_shift_div_r; lra).
  pose proof (fill_least_eq (sort_by_value l) (map (Qmult k) ws) a1 (sort_sorted l) Hn'
                (scale_adm k ws _ Hk0 Hk1 A)) as H.
  rewrite scale_sum, scale_wsum, S, W in H. specialize (H ltac:(lra)).
  unfold cvar. set (F1 := fill a1 (sort_by_value l) 0) in *. set (F2 := fill a2 (sort_by_value l) 0) in *.
  pose proof (Qdiv_mul a1 F1 H1) as E1. pose proof (Qdiv_mul a2 F2 ltac:(lra)) as E2.
  apply Qmult_lt_0_le_reg_r with a1; [assumption|].
  assert (E3 : k * F2 == F2 / a2 * a1).
  { rewrite <- Hk. rewrite <- E2 at 1. ring. }
  lra.
Qed.

(* ------------------------------------------------------------------------------------------------ 4. order independence *)
Lemma fill_sorted_perm_le l l' m : Permutation l l' -> Forall nonneg l -> 0 <= m -> m <= total_mass l ->
  fill m (sort_by_value l') 0 <= fill m (sort_by_value l) 0.
Proof.
  intros P Hn H0 Ht.
  destruct (sorted_fill_weights l m Hn H0 Ht) as (ws & A & S & W).
  assert (P' : Permutation (sort_by_value l) l').
  { rewrite sort_perm. exact P. }
  destruct (adm_transport _ _ P' ws A) as (ws' & A' & S' & W').
  rewrite <- W, <- W'. apply fill_sort_least; [exact (nonneg_perm _ _ P Hn)|assumption|lra].
Qed.

Lemma fill_sorted_perm l l' m : Permutation l l' -> Forall nonneg l -> 0 <= m -> m <= total_mass l ->
  fill m (sort_by_value l) 0 == fill m (sort_by_value l') 0.
Proof.
  intros P Hn H0 Ht. apply Qle_antisym.
  - apply fill_sorted_perm_le; [symmetry; exact P|exact (nonneg_perm _ _ P Hn)|assumption|].
    rewrite <- (total_mass_perm _ _ P). exact Ht.
  - apply fill_sorted_perm_le; assumption.
Qed.

(* for every alpha whatsoever (below 0 nothing is taken, above the total mass everything) *)
Theorem cvar_perm_gen l l' alpha : Permutation l l' -> Forall nonneg l -> cvar l alpha == cvar l' alpha.
Proof.
  intros P Hn. unfold cvar.
  assert (Hn' : Forall nonneg l') by exact (nonneg_perm _ _ P Hn).
  assert (Hs : Forall nonneg (sort_by_value l)) by (eapply nonneg_perm; [symmetry; apply sort_perm|assumption]).
  assert (Hs' : Forall nonneg (sort_by_value l')) by (eapply nonneg_perm; [symmetry; apply sort_perm|assumption]).
  assert (E : fill alpha (sort_by_value l) 0 == fill alpha (sort_by_value l') 0).
  { destruct (Qlt_le_dec alpha 0) as [Hneg|H0].
    - rewrite !fill_zero by lra. reflexivity.
    - destruct (Qlt_le_dec (total_mass l) alpha) as [Hbig|Ht].
      + rewrite !fill_all; try assumption.
        * rewrite (expectation_perm _ _ (sort_perm l)), (expectation_perm _ _ (sort_perm l')).
          apply expectation_perm. exact P.
        * rewrite (total_mass_perm _ _ (sort_perm l')), <- (total_mass_perm _ _ P). lra.
        * rewrite (total_mass_perm _ _ (sort_perm l)). lra.
      + apply fill_sorted_perm; assumption. }
  rewrite E. reflexivity.
Qed.

Theorem cvar_perm l l' alpha : Permutation l l' -> is_dist l -> 0 < alpha -> alpha <= 1 ->
  cvar l alpha == cvar l' alpha.
Proof. intros P [Hn _] _ _. apply cvar_perm_gen; assumption. Qed.

(* ------------------------------------------------------------------------------------------------ 5. accumulate *)
Definition tol (alpha : Q) : Q := atol + rtol * alpha.

Lemma tol_nonneg alpha : 0 <= alpha -> 0 <= tol alpha.
Proof. unfold tol, atol, rtol. intros. lra. Qed.

Lemma py_min2_spec a b : (b < a /\ py_min2 a b = b) \/ (a <= b /\ py_min2 a b = a).
Proof.
  unfold py_min2, Qltb. destruct (Qle_bool a b) eqn:E; simpl.
  - right. split; [apply Qle_bool_iff; exact E|reflexivity].
  - left. split; [|reflexivity]. apply Qnot_le_lt. intros C. apply Qle_bool_iff in C. congruence.
Qed.

Lemma isclose_iff g alpha : 0 <= alpha -> g <= alpha -> (isclose g alpha = true <-> alpha - g <= tol alpha).
Proof.
  intros Ha Hg. unfold isclose, tol. rewrite Qle_bool_iff.
  rewrite (Qabs_neg (g - alpha)) by lra. rewrite (Qabs_pos alpha) by assumption. split; lra.
Qed.

Lemma isclose_false g alpha : 0 <= alpha -> g <= alpha -> isclose g alpha = false -> tol alpha < alpha - g.
Proof.
  intros Ha Hg H. apply Qnot_le_lt. intros C. apply (isclose_iff g alpha Ha Hg) in C. congruence.
Qed.

(* the break test of the loop, for both variants: absolute part bt ab (atol before the fix, 0 at HEAD) *)
Definition bt (ab : bool) : Q := if ab then atol else 0.
Definition btol (ab : bool) (alpha : Q) : Q := bt ab + rtol * alpha.

Lemma bt_nonneg ab : 0 <= bt ab.
Proof. destruct ab; unfold bt, atol; lra. Qed.

Lemma btol_nonneg ab alpha : 0 <= alpha -> 0 <= btol ab alpha.
Proof. intros. pose proof (bt_nonneg ab). unfold btol, rtol. lra. Qed.

Lemma btol_le_tol ab alpha : btol ab alpha <= tol alpha.
Proof. unfold btol, tol. destruct ab; unfold bt, atol; lra. Qed.

Lemma break_iff ab g alpha : 0 <= alpha -> g <= alpha ->
  (break_test ab g alpha = true <-> alpha - g <= btol ab alpha).
Proof.
  intros Ha Hg. destruct ab; unfold break_test, btol, bt.
  - apply isclose_iff; assumption.
  - unfold isclose_rel. rewrite Qle_bool_iff.
    rewrite (Qabs_neg (g - alpha)) by lra. rewrite (Qabs_pos alpha) by assumption. split; lra.
Qed.

Lemma abs_le_elim v V : Qabs v <= V -> - V <= v /\ v <= V.
Proof. apply Qabs_Qle_condition. Qed.
Lemma abs_le_intro v V : - V <= v /\ v <= V -> Qabs v <= V.
Proof. apply Qabs_Qle_condition. Qed.

Lemma fill_abs_bound l : forall alpha g V, 0 <= V -> Forall nonneg l -> abs_values_le V l -> 0 <= alpha - g ->
  Qabs (fill alpha l g) <= (alpha - g) * V.
Proof.
  induction l as [|[p v] r IH]; intros alpha g V HV Hn Hv H; cbn [fill].
  - apply abs_le_intro. pose proof (Qmult_le_0_compat _ _ H HV). lra.
  - inversion Hn as [|? ? Hp Hr]; subst. unfold nonneg in Hp; simpl in Hp.
    inversion Hv as [|? ? Hvv Hvr]; subst. simpl in Hvv. apply abs_le_elim in Hvv.
    destruct (take_facts (alpha - g) p H Hp) as (T0 & Tp & Tm & Tc).
    set (t := Qmax 0 (Qmin (alpha - g) p)) in *.
    pose proof (IH alpha (g + t) V HV Hr Hvr ltac:(lra)) as IH'. apply abs_le_elim in IH'. apply abs_le_intro.
    pose proof (Qmult_le_0_compat t (V - v) T0 ltac:(lra)).
    pose proof (Qmult_le_0_compat t (V + v) T0 ltac:(lra)). lra.
Qed.

(* what the loop returns differs from the full fill by at most the mass the isclose break leaves out *)
Lemma acc_close ab l : forall alpha V, 0 <= alpha -> 0 <= V -> Forall nonneg l -> abs_values_le V l ->
  forall g g2 e, g == g2 -> g <= alpha ->
  Qabs (accumulate_gen ab alpha l g e - (e + fill alpha l g2)) <= btol ab alpha * V.
Proof.
  induction l as [|[p v] r IH]; intros alpha V Ha HV Hn Hv g g2 e Hg Hga; cbn [fill accumulate_gen].
  - apply abs_le_intro. pose proof (Qmult_le_0_compat _ _ (btol_nonneg ab alpha Ha) HV). lra.
  - inversion Hn as [|? ? Hp Hr]; subst. unfold nonneg in Hp; simpl in Hp.
    inversion Hv as [|? ? Hvv Hvr]; subst. simpl in Hvv.
    destruct (take_facts (alpha - g2) p ltac:(lra) Hp) as (T0 & Tp & Tm & Tc).
    set (t := Qmax 0 (Qmin (alpha - g2) p)) in *.
    assert (Ep : py_min2 (alpha - g) p == t).
    { destruct (py_min2_spec (alpha - g) p) as [[? ->]|[? ->]]; destruct Tc as [[? ?]|[? ?]]; lra. }
    set (p' := py_min2 (alpha - g) p) in *.
    assert (Epv : p' * v == t * v) by (rewrite Ep; reflexivity).
    destruct (break_test ab (g + p') alpha) eqn:Ec.
    + apply (break_iff ab (g + p') alpha Ha ltac:(lra)) in Ec.
      pose proof (fill_abs_bound r alpha (g2 + t) V HV Hr Hvr ltac:(lra)) as B. apply abs_le_elim in B.
      pose proof (Qmult_le_0_compat (btol ab alpha - (alpha - (g2 + t))) V ltac:(lra) HV).
      apply abs_le_intro. lra.
    + pose proof (IH alpha V Ha HV Hr Hvr (g + p') (g2 + t) (e + p' * v) ltac:(lra) ltac:(lra)) as IH'.
      apply abs_le_elim in IH'. apply abs_le_intro. lra.
Qed.

Lemma dist_nonempty_V l V : is_dist l -> abs_values_le V l -> 0 <= V.
Proof.
  intros [_ Ht] Hv. destruct l as [|e r]; simpl in Ht; [lra|].
  inversion Hv as [|? ? H _]; subst. pose proof (Qabs_nonneg (snd e)). lra.
Qed.

Lemma alpha_nonzero alpha : 0 < alpha -> Qeq_bool alpha 0 = false.
Proof. intros H. destruct (Qeq_bool alpha 0) eqn:E; [|reflexivity]. apply Qeq_bool_iff in E. lra. Qed.

Theorem exact_or_close_gen ab l alpha V :
  is_dist l -> 0 < alpha -> alpha <= 1 -> isclose alpha 1 = false -> abs_values_le V l ->
  exists r, get_expectation_gen ab l alpha = Ok r /\ Qabs (r - cvar l alpha) <= (rtol + bt ab / alpha) * V.
Proof.
  intros Hd Ha0 Ha1 Hc Hv. unfold get_expectation_gen. rewrite Hc, (alpha_nonzero alpha Ha0).
  eexists. split; [reflexivity|]. unfold cvar. apply Qabs_div_bound; [assumption|].
  pose proof (dist_nonempty_V l V Hd Hv) as HV.
  pose proof (acc_close ab (sort_by_value l) alpha V ltac:(lra) HV (is_dist_nonneg _ (is_dist_sort l Hd))
                (abs_values_le_perm _ _ _ (Permutation_sym (sort_perm l)) Hv) 0 0 0 ltac:(lra) ltac:(lra)) as H.
  assert (E : (rtol + bt ab / alpha) * V * alpha == btol ab alpha * V) by (unfold btol; field; lra).
  rewrite E. apply abs_le_elim in H. apply abs_le_intro. lra.
Qed.

(* HEAD: the loop breaks on the relative tolerance only; the result is within the relative resolution rtol of CVaR *)
Theorem exact_or_close l alpha V :
  is_dist l -> 0 < alpha -> alpha <= 1 -> isclose alpha 1 = false -> abs_values_le V l ->
  exists r, get_expectation l alpha = Ok r /\ Qabs (r - cvar l alpha) <= rtol * V.
Proof.
  intros Hd Ha0 Ha1 Hc Hv. destruct (exact_or_close_gen false l alpha V Hd Ha0 Ha1 Hc Hv) as (r & E & B).
  exists r. split; [exact E|].
  assert (E0 : (rtol + bt false / alpha) * V == rtol * V) by (unfold bt; field; lra).
  rewrite <- E0. exact B.
Qed.

(* before the fix: the absolute tolerance of the break adds atol / alpha *)
Theorem exact_or_close_legacy l alpha V :
  is_dist l -> 0 < alpha -> alpha <= 1 -> isclose alpha 1 = false -> abs_values_le V l ->
  exists r, get_expectation_legacy l alpha = Ok r /\ Qabs (r - cvar l alpha) <= (rtol + atol / alpha) * V.
Proof. exact (exact_or_close_gen true l alpha V). Qed.

(* no early break unless the gathered mass is exactly alpha: then the loop is the fill *)
Lemma acc_exact ab l : forall alpha, 0 <= alpha -> Forall nonneg l ->
  forall g g2 e, g == g2 -> g <= alpha ->
  (forall k, (1 <= k)%nat ->
             g + total_mass (firstn k l) < alpha -> btol ab alpha < alpha - (g + total_mass (firstn k l))) ->
  accumulate_gen ab alpha l g e == e + fill alpha l g2.
Proof.
  induction l as [|[p v] r IH]; intros alpha Ha Hn g g2 e Hg Hga HK; cbn [fill accumulate_gen]; [lra|].
  inversion Hn as [|? ? Hp Hr]; subst. unfold nonneg in Hp; simpl in Hp.
  destruct (take_facts (alpha - g2) p ltac:(lra) Hp) as (T0 & Tp & Tm & Tc).
  set (t := Qmax 0 (Qmin (alpha - g2) p)) in *.
  destruct (py_min2_spec (alpha - g) p) as [[Hlt Ep']|[Hle Ep']].
  - (* the whole entry is taken *)
    assert (Ep : py_min2 (alpha - g) p == t) by (rewrite Ep'; destruct Tc as [[? ?]|[? ?]]; lra).
    set (p' := py_min2 (alpha - g) p) in *.
    assert (Epv : p' * v == t * v) by (rewrite Ep; reflexivity).
    assert (Epp : p' == p) by (rewrite Ep'; reflexivity).
    destruct (break_test ab (g + p') alpha) eqn:Ec.
    + apply (break_iff ab (g + p') alpha Ha ltac:(lra)) in Ec.
      specialize (HK 1%nat ltac:(lia)). simpl in HK. lra.
    + rewrite (IH alpha Ha Hr (g + p') (g2 + t) (e + p' * v)); [lra|lra|lra|].
      intros k _ Hk. specialize (HK (S k) ltac:(lia)). simpl in HK. lra.
  - (* the missing mass alpha - g is taken: gathered is alpha, isclose fires *)
    assert (Ep : py_min2 (alpha - g) p == t) by (rewrite Ep'; destruct Tc as [[? ?]|[? ?]]; lra).
    set (p' := py_min2 (alpha - g) p) in *.
    assert (Epv : p' * v == t * v) by (rewrite Ep; reflexivity).
    assert (Epp : p' == alpha - g) by (rewrite Ep'; reflexivity).
    assert (Ec : break_test ab (g + p') alpha = true).
    { apply break_iff; [assumption|lra|]. pose proof (btol_nonneg ab alpha Ha). lra. }
    rewrite Ec. rewrite (fill_zero r alpha (g2 + t)) by lra. lra.
Qed.

(* The loop tests isclose(gathered, alpha) only after it has taken from a state: the empty prefix (k = 0) is not a
   possible break point, so the premise speaks about the non-empty prefixes only. *)
Theorem exact_when_no_break_gen ab l alpha :
  is_dist l -> 0 < alpha -> alpha <= 1 -> isclose alpha 1 = false ->
  (forall k, (1 <= k)%nat ->
             let G := total_mass (firstn k (sort_by_value l)) in G < alpha -> bt ab + rtol * alpha < alpha - G) ->
  exists r, get_expectation_gen ab l alpha = Ok r /\ r == cvar l alpha.
Proof.
  intros Hd Ha0 Ha1 Hc HK. unfold get_expectation_gen. rewrite Hc, (alpha_nonzero alpha Ha0).
  eexists. split; [reflexivity|]. unfold cvar.
  rewrite (acc_exact ab (sort_by_value l) alpha ltac:(lra) (is_dist_nonneg _ (is_dist_sort l Hd)) 0 0 0);
    [|lra|lra|].
  - assert (E : 0 + fill alpha (sort_by_value l) 0 == fill alpha (sort_by_value l) 0) by lra.
    rewrite E. reflexivity.
  - intros k Hk1 Hk. specialize (HK k Hk1). simpl in HK. unfold btol. lra.
Qed.

Theorem exact_when_no_break l alpha :
  is_dist l -> 0 < alpha -> alpha <= 1 -> isclose alpha 1 = false ->
  (forall k, (1 <= k)%nat ->
             let G := total_mass (firstn k (sort_by_value l)) in G < alpha -> rtol * alpha < alpha - G) ->
  exists r, get_expectation l alpha = Ok r /\ r == cvar l alpha.
Proof.
  intros Hd Ha0 Ha1 Hc HK. apply (exact_when_no_break_gen false l alpha Hd Ha0 Ha1 Hc).
  intros k Hk1 G HG. specialize (HK k Hk1 HG). unfold bt. fold G in HK. lra.
Qed.

Theorem exact_when_no_break_legacy l alpha :
  is_dist l -> 0 < alpha -> alpha <= 1 -> isclose alpha 1 = false ->
  (forall k, (1 <= k)%nat ->
             let G := total_mass (firstn k (sort_by_value l)) in G < alpha -> atol + rtol * alpha < alpha - G) ->
  exists r, get_expectation_legacy l alpha = Ok r /\ r == cvar l alpha.
Proof. exact (exact_when_no_break_gen true l alpha). Qed.

(* the weaker earlier form: premise for all prefixes including the empty one *)
Corollary exact_when_no_break_all_prefixes l alpha :
  is_dist l -> 0 < alpha -> alpha <= 1 -> isclose alpha 1 = false ->
  (forall k, let G := total_mass (firstn k (sort_by_value l)) in G < alpha -> rtol * alpha < alpha - G) ->
  exists r, get_expectation l alpha = Ok r /\ r == cvar l alpha.
Proof. intros Hd Ha0 Ha1 Hc HK. apply exact_when_no_break; try assumption. intros k _. apply HK. Qed.

Definition example_dist : list entry := [(1 # 4, 3); (1 # 4, 1); (1 # 2, 2)].

Lemma example_dist_is_dist : is_dist example_dist.
Proof. split; [repeat constructor; unfold Qle; simpl; lia|]. vm_compute. reflexivity. Qed.

Example exact_when_no_break_example :
  exists r, get_expectation example_dist (1 # 2) = Ok r /\ r == cvar example_dist (1 # 2).
Proof.
  apply exact_when_no_break.
  - apply example_dist_is_dist.
  - lra.
  - lra.
  - vm_compute. reflexivity.
  - intros k Hk1. change (sort_by_value example_dist) with [(1 # 4, 1); (1 # 2, 2); (1 # 4, 3)].
    destruct k as [|[|[|k]]]; [lia| | |]; simpl; unfold rtol; intros H; try lra.
    destruct k; simpl in H; lra.
Qed.

(* a tail fraction no larger than any single probability: the first sorted state alone fills alpha, gathered is
   exactly alpha, no tolerance break can come before, and the result is exactly the smallest value *)
Lemma total_firstn_nonneg (l : list entry) : Forall nonneg l -> forall k, 0 <= total_mass (firstn k l).
Proof.
  induction 1 as [|e r He _ IH]; intros [|k]; simpl; try lra. unfold nonneg in He. specialize (IH k). lra.
Qed.

Lemma cvar_below_smallest_probability (l : list entry) alpha :
  is_dist l -> 0 < alpha -> Forall (fun e => alpha <= fst e) l ->
  exists e0 r, sort_by_value l = e0 :: r /\ cvar l alpha == snd e0.
Proof.
  intros Hd H0 Hp. pose proof (is_dist_sort l Hd) as [Hn Ht].
  assert (Hps : Forall (fun e : entry => alpha <= fst e) (sort_by_value l)).
  { eapply Permutation_Forall; [symmetry; apply sort_perm|exact Hp]. }
  unfold cvar. destruct (sort_by_value l) as [|[p v] r]; [simpl in Ht; lra|].
  exists (p, v), r. split; [reflexivity|]. cbn [fill snd].
  inversion Hps as [|? ? Hap _]; subst. simpl in Hap.
  destruct (take_facts (alpha - 0) p ltac:(lra) ltac:(lra)) as (T0 & Tp & Tm & Tc).
  set (t := Qmax 0 (Qmin (alpha - 0) p)) in *.
  assert (Et : t == alpha) by (destruct Tc as [[? ?]|[? ?]]; lra).
  rewrite (fill_zero r alpha (0 + t)) by lra. rewrite Et. field. lra.
Qed.

Theorem exact_below_smallest_probability (l : list entry) alpha :
  is_dist l -> 0 < alpha -> alpha <= 1 -> isclose alpha 1 = false -> Forall (fun e => alpha <= fst e) l ->
  exists r, get_expectation l alpha = Ok r /\ r == cvar l alpha /\
            (forall e, In e l -> r <= snd e) /\ (exists e, In e l /\ r == snd e).
Proof.
  intros Hd H0 H1 Hc Hp.
  destruct (cvar_below_smallest_probability l alpha Hd H0 Hp) as (e0 & r0 & Es & Ec).
  pose proof (is_dist_sort l Hd) as [Hn _]. pose proof (sort_sorted l) as Hs. rewrite Es in Hn, Hs.
  assert (Hps : Forall (fun e : entry => alpha <= fst e) (e0 :: r0)).
  { rewrite <- Es. eapply Permutation_Forall; [symmetry; apply sort_perm|exact Hp]. }
  destruct (exact_when_no_break l alpha Hd H0 H1 Hc) as (r & E & Er).
  - intros k Hk1. rewrite Es. destruct k as [|k]; [lia|]. simpl.
    inversion Hps as [|? ? Hap _]; subst. inversion Hn as [|? ? _ Hnr]; subst.
    pose proof (total_firstn_nonneg r0 Hnr k). intros HG. lra.
  - exists r. split; [exact E|]. split; [exact Er|]. split.
    + intros e Hin. assert (Hin' : In e (e0 :: r0)).
      { rewrite <- Es. eapply Permutation_in; [symmetry; apply sort_perm|exact Hin]. }
      apply StronglySorted_inv in Hs as [_ Hf]. rewrite Er, Ec.
      destruct Hin' as [<-|Hin']; [lra|]. rewrite Forall_forall in Hf. exact (Hf e Hin').
    + exists e0. split; [|rewrite Er; exact Ec].
      eapply Permutation_in; [apply sort_perm|]. rewrite Es. left. reflexivity.
Qed.

(* alpha = 1e-12 on a distribution with values of both signs: _get_expectation returns the minimum, exactly *)
Definition example_signed : list entry := [(1 # 4, 3); (1 # 4, - (2)); (1 # 2, 1)].

Lemma example_signed_is_dist : is_dist example_signed.
Proof. split; [repeat constructor; unfold Qle; simpl; lia|]. vm_compute. reflexivity. Qed.

Example tiny_alpha_example :
  exists r, get_expectation example_signed (1 # 1000000000000) = Ok r /\ r == - (2) /\
            r == cvar example_signed (1 # 1000000000000) /\ (forall e, In e example_signed -> r <= snd e).
Proof.
  destruct (exact_below_smallest_probability example_signed (1 # 1000000000000) example_signed_is_dist)
    as (r & E & Ec & Hle & _).
  - lra.
  - lra.
  - vm_compute. reflexivity.
  - repeat constructor; unfold Qle; simpl; lia.
  - exists r. split; [exact E|]. split; [|split; assumption].
    vm_compute in E. injection E as <-. vm_compute. reflexivity.
Qed.

(* Concerns only the legacy variant: below atol its resolution bound (rtol + atol / alpha) * V exceeds the value scale
   V itself, so [exact_or_close_legacy] says nothing there (HEAD's bound rtol * V has no such regime). *)
Lemma legacy_bound_vacuous_below_atol alpha V :
  0 < alpha -> alpha <= atol -> 0 <= V -> V <= (rtol + atol / alpha) * V.
Proof.
  intros H0 Ha HV. assert (H1 : 1 <= atol / alpha) by (apply Qle_shift_div_l; lra).
  pose proof (Qmult_le_0_compat (rtol + atol / alpha - 1) V ltac:(unfold rtol in *; lra) HV). lra.
Qed.

(* ------------------------------------------------------------------------------------------------ 6. alpha = 1 *)
Theorem alpha_one_operator d op :
  expectation_with_operator d op 1 = Ok (plain_expectation (map (fun sp => (snd sp, eval_diag op (fst sp))) d)).
Proof. reflexivity. Qed.

Lemma Qdiv_1 x : x / 1 == x.
Proof. field. Qed.

Theorem alpha_one_cvar l : is_dist l -> cvar l 1 == expectation l.
Proof.
  intros Hd. unfold cvar. rewrite Qdiv_1.
  destruct (is_dist_sort l Hd) as [Hn Ht].
  rewrite fill_all; [apply expectation_perm; apply sort_perm|exact Hn|lra].
Qed.

Lemma firstn_gap c (l : list entry) : 0 <= c -> Forall (fun e => c < fst e) l ->
  forall k, total_mass (firstn k l) == total_mass l \/ c < total_mass l - total_mass (firstn k l).
Proof.
  intros Hc. induction 1 as [|x r Hx Hr IH]; intros k.
  - left. destruct k; reflexivity.
  - assert (Hn : Forall nonneg r).
    { eapply Forall_impl; [|exact Hr]. unfold nonneg; simpl; intros a Ha. lra. }
    pose proof (total_mass_nonneg r Hn). destruct k as [|k]; simpl.
    + right. lra.
    + destruct (IH k) as [E|E]; [left|right]; lra.
Qed.

Theorem alpha_one_bitstring_gen ab l V : is_dist l -> abs_values_le V l ->
  exists r, get_expectation_gen ab l 1 = Ok r /\ Qabs (r - expectation l) <= (rtol + bt ab) * V /\
            (Forall (fun e => rtol + bt ab < fst e) l -> r == expectation l).
Proof.
  intros Hd Hv. pose proof (dist_nonempty_V l V Hd Hv) as HV. destruct Hd as [Hn Ht].
  unfold get_expectation_gen. change (isclose 1 1) with true. change (Qeq_bool 1 0) with false. cbv iota.
  eexists. split; [reflexivity|].
  assert (EF : fill 1 l 0 == expectation l) by (apply fill_all; [assumption|lra]).
  split.
  - pose proof (acc_close ab l 1 V ltac:(lra) HV Hn Hv 0 0 0 ltac:(lra) ltac:(lra)) as H.
    apply abs_le_elim in H. apply abs_le_intro. pose proof (Qdiv_1 (accumulate_gen ab 1 l 0 0)).
    unfold btol in H. lra.
  - intros Hbig. rewrite Qdiv_1.
    rewrite (acc_exact ab l 1 ltac:(lra) Hn 0 0 0); [lra|lra|lra|].
    pose proof (bt_nonneg ab).
    intros k _ Hk. destruct (firstn_gap (rtol + bt ab) l ltac:(unfold rtol; lra) Hbig k) as [E|E];
      unfold btol; lra.
Qed.

(* HEAD, sharp: relative resolution only *)
Theorem alpha_one_bitstring_sharp l V : is_dist l -> abs_values_le V l ->
  exists r, get_expectation l 1 = Ok r /\ Qabs (r - expectation l) <= rtol * V /\
            (Forall (fun e => rtol < fst e) l -> r == expectation l).
Proof.
  intros Hd Hv. destruct (alpha_one_bitstring_gen false l V Hd Hv) as (r & E & B & X).
  exists r. split; [exact E|]. unfold bt in *. split.
  - apply abs_le_elim in B. apply abs_le_intro. lra.
  - intros H. apply X. eapply Forall_impl; [|exact H]. simpl. intros a Ha. lra.
Qed.

(* the earlier, weaker form still holds at HEAD *)
Theorem alpha_one_bitstring l V : is_dist l -> abs_values_le V l ->
  exists r, get_expectation l 1 = Ok r /\ Qabs (r - expectation l) <= (rtol + atol) * V /\
            (Forall (fun e => rtol + atol < fst e) l -> r == expectation l).
Proof.
  intros Hd Hv. pose proof (dist_nonempty_V l V Hd Hv) as HV.
  destruct (alpha_one_bitstring_sharp l V Hd Hv) as (r & E & B & X).
  exists r. split; [exact E|]. split.
  - apply abs_le_elim in B. apply abs_le_intro.
    pose proof (Qmult_le_0_compat atol V ltac:(unfold atol; lra) HV). lra.
  - intros H. apply X. eapply Forall_impl; [|exact H]. simpl. intros a Ha. unfold atol in Ha. lra.
Qed.

(* ------------------------------------------------------------------------------------------------ 7. alpha isclose 1 *)
Lemma near_one_gap alpha : 0 < alpha -> alpha <= 1 -> isclose alpha 1 = true -> 1 - alpha <= rtol + atol.
Proof. intros H0 H1 H. apply (isclose_iff alpha 1) in H; try lra. unfold tol in H. lra. Qed.

(* the mean differs from CVaR_alpha by at most the mass left out times the spread of the values *)
Theorem near_one_cvar l alpha lo hi : is_dist l -> 0 < alpha -> alpha <= 1 -> values_within lo hi l ->
  Qabs (expectation l - cvar l alpha) <= (1 - alpha) * (hi - lo).
Proof.
  intros Hd H0 H1 Hv. destruct (cvar_bounds l alpha lo hi Hd H0 H1 Hv) as [Bl Bu]. destruct Hd as [Hn Ht].
  destruct (sorted_fill_weights l alpha Hn ltac:(lra) ltac:(lra)) as (ws & A & S & W).
  pose proof (rest_upper hi ws (sort_by_value l) A
                (values_within_hi _ _ _ (values_within_perm _ _ _ _ (Permutation_sym (sort_perm l)) Hv))) as U.
  rewrite (expectation_perm _ _ (sort_perm l)), (total_mass_perm _ _ (sort_perm l)), W, S, Ht in U.
  unfold cvar in *. set (F := fill alpha (sort_by_value l) 0) in *.
  pose proof (Qdiv_mul alpha F H0) as EF. set (c := F / alpha) in *.
  pose proof (Qmult_le_0_compat (1 - alpha) (c - lo) ltac:(lra) ltac:(lra)).
  apply abs_le_intro. split; lra.
Qed.

Theorem near_one_operator l alpha lo hi :
  is_dist l -> 0 < alpha -> alpha <= 1 -> isclose alpha 1 = true -> values_within lo hi l ->
  Qabs (plain_expectation l - cvar l alpha) <= (1 - alpha) * (hi - lo) /\ 1 - alpha <= rtol + atol.
Proof.
  intros Hd H0 H1 Hc Hv. split; [|apply near_one_gap; assumption].
  pose proof (near_one_cvar l alpha lo hi Hd H0 H1 Hv) as H. pose proof (plain_expectation_expectation l) as E.
  apply abs_le_elim in H. apply abs_le_intro. lra.
Qed.

Lemma zeros_adm (l : list entry) : Forall nonneg l -> Forall2 adm (map (fun _ => 0) l) l.
Proof. induction 1 as [|e r He _ IH]; simpl; constructor; [split; [lra|exact He]|exact IH]. Qed.

Lemma zeros_sum (l : list entry) : sumQ (map (fun _ => 0) l) == 0.
Proof. induction l; simpl; lra. Qed.

Lemma zeros_wsum (l : list entry) : wsum (map (fun _ => 0) l) l == 0.
Proof. induction l; simpl; lra. Qed.

(* the loop's result as a weighted sum: admissible weights whose mass is at most alpha and misses it by at most the
   tolerance (unless the list runs out first) *)
Lemma acc_weights ab l : forall alpha, 0 <= alpha -> Forall nonneg l -> forall g e, g <= alpha ->
  exists ws, Forall2 adm ws l /\ accumulate_gen ab alpha l g e == e + wsum ws l /\ g + sumQ ws <= alpha /\
             Qmin alpha (g + total_mass l) - btol ab alpha <= g + sumQ ws.
Proof.
  induction l as [|[p v] r IH]; intros alpha Ha Hn g e Hg; cbn [accumulate_gen].
  - exists []. split; [constructor|]. simpl. pose proof (btol_nonneg ab alpha Ha). pose proof (Q.le_min_r alpha (g + 0)).
    repeat split; lra.
  - inversion Hn as [|? ? Hp Hr]; subst. unfold nonneg in Hp; simpl in Hp.
    pose proof (total_mass_nonneg r Hr) as Htr. pose proof (btol_nonneg ab alpha Ha) as Htol.
    assert (P0 : 0 <= py_min2 (alpha - g) p /\ py_min2 (alpha - g) p <= p /\ py_min2 (alpha - g) p <= alpha - g /\
                 (py_min2 (alpha - g) p == p \/ py_min2 (alpha - g) p == alpha - g)).
    { destruct (py_min2_spec (alpha - g) p) as [[? ->]|[? ->]]; repeat split; lra. }
    set (p' := py_min2 (alpha - g) p) in *. destruct P0 as (P0 & Pp & Pm & Pc).
    destruct (break_test ab (g + p') alpha) eqn:Ec.
    + apply (break_iff ab (g + p') alpha Ha ltac:(lra)) in Ec.
      exists (p' :: map (fun _ => 0) r). split; [constructor; [split; simpl; assumption|apply zeros_adm; assumption]|].
      cbn [wsum sumQ fold_right snd total_mass]. rewrite zeros_wsum.
      pose proof (zeros_sum r) as Z. unfold sumQ in Z. rewrite Z.
      pose proof (Q.le_min_l alpha (g + (fst (p, v) + fold_right (fun e0 acc => fst e0 + acc) 0 r))).
      repeat split; lra.
    + destruct (IH alpha Ha Hr (g + p') (e + p' * v) ltac:(lra)) as (ws & A & E & S1 & S2).
      exists (p' :: ws). split; [constructor; [split; simpl; assumption|assumption]|].
      cbn [wsum sumQ fold_right snd fst total_mass]. fold (sumQ ws). fold (total_mass r).
      split; [rewrite E; lra|]. split; [lra|].
      destruct (Q.min_spec alpha (g + (p + total_mass r))) as [[? ?]|[? ?]],
               (Q.min_spec alpha (g + p' + total_mass r)) as [[? ?]|[? ?]]; destruct Pc; lra.
Qed.

(* taking more mass adds at most the extra mass times the largest value *)
Lemma fill_growth l : forall m1 m2 hi, Forall nonneg l -> Forall (fun e => snd e <= hi) l ->
  0 <= m1 -> m1 <= m2 -> m2 <= total_mass l -> fill m2 l 0 - fill m1 l 0 <= (m2 - m1) * hi.
Proof.
  induction l as [|[p v] r IH]; intros m1 m2 hi Hn Hh H1 H12 H2; cbn [fill].
  - simpl in H2. assert (E : m2 - m1 == 0) by lra. rewrite E. lra.
  - inversion Hn as [|? ? Hp Hr]; subst. unfold nonneg in Hp; simpl in Hp.
    inversion Hh as [|? ? Hv Hhr]; subst. simpl in Hv. simpl in H2.
    pose proof (total_mass_nonneg r Hr) as Htr.
    destruct (take_facts (m1 - 0) p ltac:(lra) Hp) as (A0 & Ap & Am & Ac).
    destruct (take_facts (m2 - 0) p ltac:(lra) Hp) as (B0 & Bp & Bm & Bc).
    set (t1 := Qmax 0 (Qmin (m1 - 0) p)) in *. set (t2 := Qmax 0 (Qmin (m2 - 0) p)) in *.
    rewrite (fill_ext r m1 (0 + t1) (m1 - t1) 0) by lra. rewrite (fill_ext r m2 (0 + t2) (m2 - t2) 0) by lra.
    assert (C : t1 <= t2 /\ m1 - t1 <= m2 - t2 /\ m2 - t2 <= total_mass r).
    { destruct Ac as [[? ?]|[? ?]], Bc as [[? ?]|[? ?]]; repeat split; lra. }
    destruct C as (C1 & C2 & C3).
    pose proof (IH (m1 - t1) (m2 - t2) hi Hr Hhr ltac:(lra) C2 C3) as IH'.
    pose proof (Qmult_le_0_compat (t2 - t1) (hi - v) ltac:(lra) ltac:(lra)). lra.
Qed.

Lemma values_tighten lo hi V l : values_within lo hi l -> abs_values_le V l ->
  values_within (Qmax lo (- V)) (Qmin hi V) l.
Proof.
  induction 1 as [|e r [Hl Hh] _ IH]; intros Hv; constructor; inversion Hv as [|? ? Ha Hr]; subst.
  - apply abs_le_elim in Ha. split; [apply Q.max_lub|apply Q.min_glb]; lra.
  - apply IH. exact Hr.
Qed.

Theorem near_one_bitstring_gen ab l alpha lo hi V :
  is_dist l -> 0 < alpha -> alpha <= 1 -> isclose alpha 1 = true -> values_within lo hi l -> abs_values_le V l ->
  exists r, get_expectation_gen ab l alpha = Ok r /\
            Qabs (r - cvar l alpha) <= (rtol + atol) * ((hi - lo) + V) / alpha.
Proof.
  intros Hd H0 H1 Hc Hv Ha. pose proof (dist_nonempty_V l V Hd Ha) as HV.
  pose proof (near_one_gap alpha H0 H1 Hc) as Hgap.
  unfold get_expectation_gen. rewrite Hc, (alpha_nonzero alpha H0). eexists. split; [reflexivity|].
  unfold cvar. apply Qabs_div_bound; [assumption|].
  assert (EB : (rtol + atol) * (hi - lo + V) / alpha * alpha == (rtol + atol) * (hi - lo + V)) by (field; lra).
  rewrite EB. clear EB.
  pose proof (values_tighten lo hi V l Hv Ha) as Hv'.
  pose proof (Q.le_max_l lo (- V)) as L1. pose proof (Q.le_max_r lo (- V)) as L2.
  pose proof (Q.le_min_l hi V) as U1. pose proof (Q.le_min_r hi V) as U2.
  set (lo' := Qmax lo (- V)) in *. set (hi' := Qmin hi V) in *.
  assert (Hlh : lo' <= hi').
  { destruct Hd as [_ Ht]. destruct l as [|e r]; simpl in Ht; [lra|]. inversion Hv' as [|? ? [? ?] _]; subst. lra. }
  destruct Hd as [Hn Ht].
  destruct (acc_weights ab l alpha ltac:(lra) Hn 0 0 ltac:(lra)) as (ws' & A' & EA & G1 & G2).
  pose proof (adm_sum_nonneg _ _ A') as G0.
  pose proof (btol_le_tol ab alpha) as Hbt.
  assert (G3 : alpha - tol alpha <= sumQ ws').
  { destruct (Q.min_spec alpha (0 + total_mass l)) as [[? ?]|[? ?]]; lra. }
  assert (Htol : tol alpha <= rtol + atol) by (unfold tol, rtol, atol; lra).
  set (Acc := accumulate_gen ab alpha l 0 0) in *. set (g := sumQ ws') in *.
  (* the sorted fill and its weights *)
  destruct (sorted_fill_weights l alpha Hn ltac:(lra) ltac:(lra)) as (ws & A & S & W).
  pose proof (rest_upper hi' ws (sort_by_value l) A
                (values_within_hi _ _ _ (values_within_perm _ _ _ _ (Permutation_sym (sort_perm l)) Hv'))) as U.
  rewrite (expectation_perm _ _ (sort_perm l)), (total_mass_perm _ _ (sort_perm l)), W, S, Ht in U.
  pose proof (rest_lower lo' ws' l A' (values_within_lo _ _ _ Hv')) as L. rewrite Ht in L. fold g in L.
  (* lower side: the sorted fill of mass g is below the loop's sum, and the fill grows slowly *)
  pose proof (fill_sort_least l ws' g Hn A' ltac:(reflexivity)) as Least.
  assert (Hns : Forall nonneg (sort_by_value l)) by (eapply nonneg_perm; [symmetry; apply sort_perm|assumption]).
  pose proof (fill_growth (sort_by_value l) g alpha hi' Hns
                (values_within_hi _ _ _ (values_within_perm _ _ _ _ (Permutation_sym (sort_perm l)) Hv'))
                G0 ltac:(lra) ltac:(rewrite (total_mass_perm _ _ (sort_perm l)); lra)) as Gr.
  set (F := fill alpha (sort_by_value l) 0) in *. set (Fg := fill g (sort_by_value l) 0) in *.
  set (E := expectation l) in *. set (W' := wsum ws' l) in *.
  set (a := 1 - alpha) in *. set (d := alpha - g) in *.
  assert (Hd0 : 0 <= d) by (unfold d; lra). assert (Hd1 : d <= rtol + atol) by (unfold d; lra).
  assert (Ha0 : 0 <= a) by (unfold a; lra).
  set (R := hi - lo) in *. set (R' := hi' - lo') in *.
  assert (HR' : 0 <= R') by (unfold R'; lra). assert (HR : R' <= R) by (unfold R, R'; lra).
  set (T := rtol + atol) in *.
  pose proof (Qmult_le_0_compat (R - R') a ltac:(lra) Ha0).
  pose proof (Qmult_le_0_compat R (T - a) ltac:(lra) ltac:(lra)).
  pose proof (Qmult_le_0_compat (V + lo') d ltac:(lra) Hd0).
  pose proof (Qmult_le_0_compat V (T - d) HV ltac:(lra)).
  pose proof (Qmult_le_0_compat d (V - hi') Hd0 ltac:(lra)).
  pose proof (Qmult_le_0_compat T R ltac:(lra) ltac:(lra)).
  apply abs_le_intro. unfold R', a, d in *. split; lra.
Qed.

Theorem near_one_bitstring l alpha lo hi V :
  is_dist l -> 0 < alpha -> alpha <= 1 -> isclose alpha 1 = true -> values_within lo hi l -> abs_values_le V l ->
  exists r, get_expectation l alpha = Ok r /\
            Qabs (r - cvar l alpha) <= (rtol + atol) * ((hi - lo) + V) / alpha.
Proof. exact (near_one_bitstring_gen false l alpha lo hi V). Qed.

Theorem near_one_bitstring_legacy l alpha lo hi V :
  is_dist l -> 0 < alpha -> alpha <= 1 -> isclose alpha 1 = true -> values_within lo hi l -> abs_values_le V l ->
  exists r, get_expectation_legacy l alpha = Ok r /\
            Qabs (r - cvar l alpha) <= (rtol + atol) * ((hi - lo) + V) / alpha.
Proof. exact (near_one_bitstring_gen true l alpha lo hi V). Qed.

(* ------------------------------------------------------------------------------------------------ 8. the two paths *)
Definition entries (op : list term) (d : dist) : list entry := map (fun sp => (snd sp, eval_diag op (fst sp))) d.

Definition bstep (acc : N) (c : bool) : N := N.add (N.mul 2 acc) (if c then 1%N else 0%N).

Lemma bits_msb_zero f acc : bits_msb f 0%N acc = acc.
Proof. destruct f; reflexivity. Qed.

Lemma bits_msb_value f : forall s acc, (N.to_nat (N.size s) <= f)%nat ->
  fold_left bstep (bits_msb f s acc) 0%N = fold_left bstep acc s.
Proof.
  induction f as [|f IH]; intros s acc H.
  - destruct s as [|p]; [reflexivity|]. simpl in H. pose proof (Pos2Nat.is_pos (Pos.size p)). lia.
  - destruct s as [|p]; [reflexivity|]. destruct p as [q|q|].
    + change (bits_msb (S f) (N.pos q~1) acc) with (bits_msb f (N.pos q) (true :: acc)).
      rewrite IH; [reflexivity|]. simpl in H |- *. rewrite Pos2Nat.inj_succ in H. lia.
    + change (bits_msb (S f) (N.pos q~0) acc) with (bits_msb f (N.pos q) (false :: acc)).
      rewrite IH; [reflexivity|]. simpl in H |- *. rewrite Pos2Nat.inj_succ in H. lia.
    + change (bits_msb (S f) 1%N acc) with (bits_msb f 0%N (true :: acc)). rewrite bits_msb_zero. reflexivity.
Qed.

Lemma bits_msb_length f : forall s acc, (N.to_nat (N.size s) <= f)%nat ->
  length (bits_msb f s acc) = (N.to_nat (N.size s) + length acc)%nat.
Proof.
  induction f as [|f IH]; intros s acc H.
  - destruct s as [|p]; [reflexivity|]. simpl in H. pose proof (Pos2Nat.is_pos (Pos.size p)). lia.
  - destruct s as [|p]; [reflexivity|]. destruct p as [q|q|].
    + change (bits_msb (S f) (N.pos q~1) acc) with (bits_msb f (N.pos q) (true :: acc)).
      rewrite IH; simpl in H |- *; rewrite Pos2Nat.inj_succ in *; lia.
    + change (bits_msb (S f) (N.pos q~0) acc) with (bits_msb f (N.pos q) (false :: acc)).
      rewrite IH; simpl in H |- *; rewrite Pos2Nat.inj_succ in *; lia.
    + change (bits_msb (S f) 1%N acc) with (bits_msb f 0%N (true :: acc)). rewrite bits_msb_zero. reflexivity.
Qed.

Lemma zeros_value k : fold_left bstep (repeat false k) 0%N = 0%N.
Proof. induction k as [|k IH]; simpl; [reflexivity|exact IH]. Qed.

(* reading the key back gives the state: no hypothesis on the width *)
Theorem state_of_bits_bitstring_of n s : state_of_bits (bitstring_of n s) = s.
Proof.
  unfold state_of_bits, bitstring_of. change (fun (acc : N) (c : bool) => (2 * acc + (if c then 1 else 0))%N) with bstep.
  rewrite fold_left_app, zeros_value. rewrite bits_msb_value by lia. reflexivity.
Qed.

Lemma size_le_width n s : (s < 2 ^ N.of_nat n)%N -> (N.to_nat (N.size s) <= n)%nat.
Proof.
  intros H. destruct (N.eq_dec s 0) as [->|Hs]; [simpl; lia|].
  rewrite (N.size_log2 s Hs). apply N.log2_lt_pow2 in H; lia.
Qed.

Theorem length_bitstring_of n s : (s < 2 ^ N.of_nat n)%N -> length (bitstring_of n s) = n.
Proof.
  intros H. apply size_le_width in H. unfold bitstring_of.
  rewrite app_length, repeat_length, bits_msb_length by lia. simpl. lia.
Qed.

Definition states_fit (n : nat) (d : dist) : Prop := Forall (fun sp => (fst sp < 2 ^ N.of_nat n)%N) d.

Lemma bitstring_evaluations n d op : states_fit n d ->
  mapM (fun sp => do v <- evaluate_bitstring n op (bitstring_of n (fst sp)); Ok (snd sp, v)) d = Ok (entries op d).
Proof.
  induction 1 as [|sp r Hs _ IH]; [reflexivity|].
  cbn [mapM entries map]. unfold evaluate_bitstring at 1.
  rewrite (length_bitstring_of n (fst sp) Hs), Nat.eqb_refl, state_of_bits_bitstring_of.
  cbn [bind]. rewrite IH. reflexivity.
Qed.

(* the bitstring path runs _get_expectation on exactly the operator path's evaluations, in dictionary order *)
Theorem bitstring_path n d op alpha : states_fit n d ->
  expectation_with_bitstring n d n op alpha =
  if negb (alpha_ok alpha) then Err "ValueError" else get_expectation (entries op d) alpha.
Proof.
  intros H. unfold expectation_with_bitstring. rewrite (bitstring_evaluations n d op H). reflexivity.
Qed.

Lemma alpha_ok_true alpha : 0 < alpha -> alpha <= 1 -> alpha_ok alpha = true.
Proof.
  intros H0 H1. unfold alpha_ok, Qltb.
  assert (E0 : Qle_bool alpha 0 = false).
  { destruct (Qle_bool alpha 0) eqn:E; [|reflexivity]. apply Qle_bool_iff in E. lra. }
  assert (E1 : Qle_bool alpha 1 = true) by (apply Qle_bool_iff; assumption).
  rewrite E0, E1. reflexivity.
Qed.

(* away from 1 the two paths return the very same number: sorting twice changes nothing *)
Theorem paths_equal n d op alpha : states_fit n d -> isclose alpha 1 = false ->
  expectation_with_operator d op alpha = expectation_with_bitstring n d n op alpha.
Proof.
  intros H Hc. rewrite (bitstring_path n d op alpha H). unfold expectation_with_operator. fold (entries op d).
  destruct (negb (alpha_ok alpha)); [reflexivity|]. rewrite Hc.
  unfold get_expectation, get_expectation_gen. rewrite Hc, sort_idempotent. reflexivity.
Qed.

Theorem paths_agree n d op alpha lo hi V :
  states_fit n d -> is_dist (entries op d) -> values_within lo hi (entries op d) -> abs_values_le V (entries op d) ->
  0 < alpha -> alpha <= 1 ->
  exists r1 r2,
    expectation_with_operator d op alpha = Ok r1 /\ expectation_with_bitstring n d n op alpha = Ok r2 /\
    (isclose alpha 1 = false ->
       r1 = r2 /\ Qabs (r1 - cvar (entries op d) alpha) <= rtol * V) /\
    (isclose alpha 1 = true ->
       Qabs (r1 - cvar (entries op d) alpha) <= (1 - alpha) * (hi - lo) /\
       Qabs (r2 - cvar (entries op d) alpha) <= (rtol + atol) * ((hi - lo) + V) / alpha /\
       Qabs (r1 - r2) <= (1 - alpha) * (hi - lo) + (rtol + atol) * ((hi - lo) + V) / alpha).
Proof.
  intros Hf Hd Hv Ha H0 H1. destruct (isclose alpha 1) eqn:Hc.
  - destruct (near_one_bitstring _ alpha lo hi V Hd H0 H1 Hc Hv Ha) as (r2 & E2 & B2).
    destruct (near_one_operator _ alpha lo hi Hd H0 H1 Hc Hv) as [B1 _].
    exists (plain_expectation (entries op d)), r2. split; [|split; [|split]].
    + unfold expectation_with_operator. rewrite (alpha_ok_true alpha H0 H1), Hc. reflexivity.
    + rewrite (bitstring_path n d op alpha Hf), (alpha_ok_true alpha H0 H1). exact E2.
    + discriminate.
    + intros _. split; [exact B1|]. split; [exact B2|].
      apply abs_le_elim in B1. apply abs_le_elim in B2. apply abs_le_intro. lra.
  - destruct (exact_or_close _ alpha V Hd H0 H1 Hc Ha) as (r & E & B).
    assert (E2 : expectation_with_bitstring n d n op alpha = Ok r).
    { rewrite (bitstring_path n d op alpha Hf), (alpha_ok_true alpha H0 H1). exact E. }
    exists r, r. split; [rewrite (paths_equal n d op alpha Hf Hc); exact E2|]. split; [exact E2|].
    split; [intros _; split; [reflexivity|exact B]|discriminate].
Qed.

(* the hypotheses of [paths_agree] are satisfiable: a two-qubit distribution and the operator Z0 + 2 Z1 *)
Definition example_d : dist := [(0%N, 1 # 4); (1%N, 1 # 4); (3%N, 1 # 2)].
Definition example_op : list term := [(1, 1%N); (2, 2%N)].

Lemma example_d_fits : states_fit 2 example_d.
Proof. repeat constructor. Qed.

Lemma example_d_is_dist : is_dist (entries example_op example_d).
Proof. split; [repeat constructor; unfold Qle; simpl; lia|]. vm_compute. reflexivity. Qed.

Lemma example_d_values : values_within (-(3)) 3 (entries example_op example_d) /\
                         abs_values_le 3 (entries example_op example_d).
Proof. split; vm_compute; repeat constructor; discriminate. Qed.

(* the near-1 results on the two public entry points *)
Theorem near_one_operator_path d op alpha lo hi :
  is_dist (entries op d) -> 0 < alpha -> alpha <= 1 -> isclose alpha 1 = true ->
  values_within lo hi (entries op d) ->
  exists r, expectation_with_operator d op alpha = Ok r /\
            Qabs (r - cvar (entries op d) alpha) <= (1 - alpha) * (hi - lo) /\ 1 - alpha <= rtol + atol.
Proof.
  intros Hd H0 H1 Hc Hv. exists (plain_expectation (entries op d)). split.
  - unfold expectation_with_operator. rewrite (alpha_ok_true alpha H0 H1), Hc. reflexivity.
  - apply near_one_operator; assumption.
Qed.

Theorem near_one_bitstring_path n d op alpha lo hi V :
  states_fit n d -> is_dist (entries op d) -> 0 < alpha -> alpha <= 1 -> isclose alpha 1 = true ->
  values_within lo hi (entries op d) -> abs_values_le V (entries op d) ->
  exists r, expectation_with_bitstring n d n op alpha = Ok r /\
            Qabs (r - cvar (entries op d) alpha) <= (rtol + atol) * ((hi - lo) + V) / alpha.
Proof.
  intros Hf Hd H0 H1 Hc Hv Ha.
  rewrite (bitstring_path n d op alpha Hf), (alpha_ok_true alpha H0 H1).
  apply near_one_bitstring; assumption.
Qed.

(* isclose alpha 1 does hold for some alpha < 1, and fails for others *)
Example near_one_example : isclose (999999 # 1000000) 1 = true /\ isclose (1 # 2) 1 = false.
Proof. split; vm_compute; reflexivity. Qed.

(* the exact small-alpha result on both public entry points *)
Theorem exact_below_smallest_probability_paths n d op alpha :
  states_fit n d -> is_dist (entries op d) -> 0 < alpha -> alpha <= 1 -> isclose alpha 1 = false ->
  Forall (fun e => alpha <= fst e) (entries op d) ->
  exists r, expectation_with_operator d op alpha = Ok r /\ expectation_with_bitstring n d n op alpha = Ok r /\
            r == cvar (entries op d) alpha /\
            (forall e, In e (entries op d) -> r <= snd e) /\ (exists e, In e (entries op d) /\ r == snd e).
Proof.
  intros Hf Hd H0 H1 Hc Hp.
  destruct (exact_below_smallest_probability (entries op d) alpha Hd H0 H1 Hc Hp) as (r & E & R).
  assert (E2 : expectation_with_bitstring n d n op alpha = Ok r).
  { rewrite (bitstring_path n d op alpha Hf), (alpha_ok_true alpha H0 H1). exact E. }
  exists r. split; [rewrite (paths_equal n d op alpha Hf Hc); exact E2|]. split; [exact E2|exact R].
Qed.

(* ------------------------------------------------------------------------------------------------ corollaries for the implementation *)
(* the implementation inherits monotonicity and the range from the specification, up to the two resolutions *)
Lemma impl_mono l a1 a2 V :
  is_dist l -> 0 < a1 -> a1 <= a2 -> a2 <= 1 -> isclose a1 1 = false -> isclose a2 1 = false -> abs_values_le V l ->
  exists r1 r2, get_expectation l a1 = Ok r1 /\ get_expectation l a2 = Ok r2 /\
                r1 <= r2 + rtol * V + rtol * V.
Proof.
  intros D H1 H12 H2 C1 C2 HV.
  assert (H2' : 0 < a2) by lra. assert (H1' : a1 <= 1) by lra.
  destruct (exact_or_close l a1 V D H1 H1' C1 HV) as [r1 [E1 B1]].
  destruct (exact_or_close l a2 V D H2' H2 C2 HV) as [r2 [E2 B2]].
  exists r1, r2. split; [exact E1|]. split; [exact E2|].
  pose proof (cvar_mono l a1 a2 D H1 H12 H2) as M.
  apply Qabs_Qle_condition in B1. apply Qabs_Qle_condition in B2. lra.
Qed.

Lemma impl_range l alpha lo hi V :
  is_dist l -> 0 < alpha -> alpha <= 1 -> isclose alpha 1 = false -> values_within lo hi l -> abs_values_le V l ->
  exists r, get_expectation l alpha = Ok r /\
            lo - rtol * V <= r /\ r <= expectation l + rtol * V.
Proof.
  intros D H0 H1 C W HV.
  destruct (exact_or_close l alpha V D H0 H1 C HV) as [r [E B]].
  exists r. split; [exact E|].
  destruct (cvar_bounds l alpha lo hi D H0 H1 W) as [L U].
  apply Qabs_Qle_condition in B. lra.
Qed.

(* ------------------------------------------------------------------------------------------------ the absolute break tolerance refuted *)
(* 100000 shots, one of them on the value -1, alpha = 1.001e-5: before the fix the loop stopped after the first state
   (missing mass 1e-8 <= atol + rtol * alpha) and returned -1000/1001 instead of CVaR = -999/1001, off by 1/1001, a
   hundred times the relative resolution; HEAD returns CVaR exactly. *)
Definition example_shots : list entry := [(1 # 100000, - (1)); (99999 # 100000, 1)].
Definition example_shots_alpha : Q := 1001 # 100000000.

Example atol_break_refuted :
  is_dist example_shots /\ abs_values_le 1 example_shots /\ isclose example_shots_alpha 1 = false /\
  exists r_legacy r_head,
    get_expectation_legacy example_shots example_shots_alpha = Ok r_legacy /\
    get_expectation example_shots example_shots_alpha = Ok r_head /\
    cvar example_shots example_shots_alpha == - (999 # 1001) /\
    r_head == cvar example_shots example_shots_alpha /\
    r_legacy == - (1000 # 1001) /\
    Qabs (r_legacy - cvar example_shots example_shots_alpha) == 1 # 1001 /\
    rtol * 1 < Qabs (r_legacy - cvar example_shots example_shots_alpha).
Proof.
  split; [split; [repeat constructor; unfold Qle; simpl; lia|vm_compute; reflexivity]|].
  split; [repeat constructor; vm_compute; discriminate|].
  split; [vm_compute; reflexivity|].
  eexists. eexists. split; [vm_compute; reflexivity|]. split; [vm_compute; reflexivity|].
  repeat split; vm_compute; reflexivity.
Qed.

(* ------------------------------------------------------------------------------------------------ all alpha in (0, 1] *)
(* the resolution of each path as a function of alpha: relative resolution rtol away from 1, the near-1 constants in
   the band isclose alpha 1 *)
Definition B_op (alpha V R : Q) : Q := if isclose alpha 1 then (1 - alpha) * R else rtol * V.
Definition B_bs (alpha V R : Q) : Q := if isclose alpha 1 then (rtol + atol) * (R + V) / alpha else rtol * V.

Lemma cvar_sort l alpha : cvar (sort_by_value l) alpha = cvar l alpha.
Proof. unfold cvar. rewrite sort_idempotent. reflexivity. Qed.

Theorem get_expectation_close l alpha lo hi V :
  is_dist l -> 0 < alpha -> alpha <= 1 -> values_within lo hi l -> abs_values_le V l ->
  exists r, get_expectation l alpha = Ok r /\ Qabs (r - cvar l alpha) <= B_bs alpha V (hi - lo).
Proof.
  intros D H0 H1 W HV. unfold B_bs. destruct (isclose alpha 1) eqn:C.
  - apply near_one_bitstring; assumption.
  - apply exact_or_close; assumption.
Qed.

Theorem operator_close d op alpha lo hi V :
  is_dist (entries op d) -> 0 < alpha -> alpha <= 1 ->
  values_within lo hi (entries op d) -> abs_values_le V (entries op d) ->
  exists r, expectation_with_operator d op alpha = Ok r /\
            Qabs (r - cvar (entries op d) alpha) <= B_op alpha V (hi - lo).
Proof.
  intros D H0 H1 W HV. unfold B_op. destruct (isclose alpha 1) eqn:C.
  - destruct (near_one_operator_path d op alpha lo hi D H0 H1 C W) as (r & E & B & _). exists r. split; assumption.
  - unfold expectation_with_operator. fold (entries op d). rewrite (alpha_ok_true alpha H0 H1), C. cbv iota. simpl negb. cbv iota.
    rewrite <- (cvar_sort (entries op d) alpha). apply exact_or_close; try assumption.
    + apply is_dist_sort. exact D.
    + eapply abs_values_le_perm; [symmetry; apply sort_perm|exact HV].
Qed.

Theorem impl_mono_all l a1 a2 lo hi V :
  is_dist l -> 0 < a1 -> a1 <= a2 -> a2 <= 1 -> values_within lo hi l -> abs_values_le V l ->
  exists r1 r2, get_expectation l a1 = Ok r1 /\ get_expectation l a2 = Ok r2 /\
                r1 <= r2 + B_bs a1 V (hi - lo) + B_bs a2 V (hi - lo).
Proof.
  intros D H1 H12 H2 W HV.
  destruct (get_expectation_close l a1 lo hi V D H1 ltac:(lra) W HV) as (r1 & E1 & B1).
  destruct (get_expectation_close l a2 lo hi V D ltac:(lra) H2 W HV) as (r2 & E2 & B2).
  exists r1, r2. split; [exact E1|]. split; [exact E2|].
  pose proof (cvar_mono l a1 a2 D H1 H12 H2) as M.
  apply abs_le_elim in B1. apply abs_le_elim in B2. lra.
Qed.

Theorem impl_range_all l alpha lo hi V :
  is_dist l -> 0 < alpha -> alpha <= 1 -> values_within lo hi l -> abs_values_le V l ->
  exists r, get_expectation l alpha = Ok r /\
            lo - B_bs alpha V (hi - lo) <= r /\ r <= expectation l + B_bs alpha V (hi - lo).
Proof.
  intros D H0 H1 W HV.
  destruct (get_expectation_close l alpha lo hi V D H0 H1 W HV) as (r & E & B).
  exists r. split; [exact E|].
  destruct (cvar_bounds l alpha lo hi D H0 H1 W) as [L U].
  apply abs_le_elim in B. lra.
Qed.

Theorem operator_mono_all d op a1 a2 lo hi V :
  is_dist (entries op d) -> 0 < a1 -> a1 <= a2 -> a2 <= 1 ->
  values_within lo hi (entries op d) -> abs_values_le V (entries op d) ->
  exists r1 r2, expectation_with_operator d op a1 = Ok r1 /\ expectation_with_operator d op a2 = Ok r2 /\
                r1 <= r2 + B_op a1 V (hi - lo) + B_op a2 V (hi - lo).
Proof.
  intros D H1 H12 H2 W HV.
  destruct (operator_close d op a1 lo hi V D H1 ltac:(lra) W HV) as (r1 & E1 & B1).
  destruct (operator_close d op a2 lo hi V D ltac:(lra) H2 W HV) as (r2 & E2 & B2).
  exists r1, r2. split; [exact E1|]. split; [exact E2|].
  pose proof (cvar_mono (entries op d) a1 a2 D H1 H12 H2) as M.
  apply abs_le_elim in B1. apply abs_le_elim in B2. lra.
Qed.

Theorem operator_range_all d op alpha lo hi V :
  is_dist (entries op d) -> 0 < alpha -> alpha <= 1 ->
  values_within lo hi (entries op d) -> abs_values_le V (entries op d) ->
  exists r, expectation_with_operator d op alpha = Ok r /\
            lo - B_op alpha V (hi - lo) <= r /\ r <= expectation (entries op d) + B_op alpha V (hi - lo).
Proof.
  intros D H0 H1 W HV.
  destruct (operator_close d op alpha lo hi V D H0 H1 W HV) as (r & E & B).
  exists r. split; [exact E|].
  destruct (cvar_bounds (entries op d) alpha lo hi D H0 H1 W) as [L U].
  apply abs_le_elim in B. lra.
Qed.

(* the band isclose alpha 1 is |alpha - 1| <= rtol + atol = 1.001e-5, and in it both constants are small *)
Lemma near_one_band alpha : 0 < alpha -> alpha <= 1 -> (isclose alpha 1 = true <-> 1 - alpha <= 1001 # 100000000).
Proof.
  intros H0 H1. rewrite (isclose_iff alpha 1) by lra. unfold tol, atol, rtol. split; lra.
Qed.

(* ------------------------------------------------------------------------------------------------ isclose with an explicit atol *)
Lemma isclose_tol_atol a b : isclose_tol atol a b = isclose a b.
Proof. reflexivity. Qed.

Lemma isclose_tol_0 a b : isclose_tol 0 a b = isclose_rel a b.
Proof. unfold isclose_tol, isclose_rel. apply Qleb_comp; [reflexivity | ring]. Qed.
