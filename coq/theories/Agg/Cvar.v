(* C14 — executable model of queasars/circuit_evaluation/expectation_calculation.py (definitions only).

   _get_expectation, get_expectation_with_operator and get_expectation_with_bitstring_evaluator transcribed statement by
   statement over Q.  numpy.isclose(a, b) with its default rtol = 1e-5, atol = 1e-8 is the exact rational predicate
   |a - b| <= atol + rtol * |b|; isclose(a, b, atol=0) is |a - b| <= rtol * |b|.  /repo HEAD (fix 254e190) ends the
   accumulation with the relative test only; the pre-fix behaviour (default isclose, whose absolute tolerance cuts off a
   significant share of a small alpha tail) is the variant [atol_break = true] ([get_expectation_legacy]).  A distribution is the list of (state, probability) pairs in the dictionary's iteration
   order; a diagonal SparsePauliOp is a list of (coefficient, z-mask) terms, bit q of the mask set iff the Pauli acts
   with Z on qubit q; integer state s has qubit q = bit q of s; its bitstring key is written most significant bit first
   (binary_probabilities), so character i of an n-character key is qubit n-1-i.

   Modelled, not verified: Qiskit's sampled_expectation_value and _evaluate_sparsepauli are represented by their
   mathematical meaning on diagonal operators ([plain_expectation], [eval_diag]); float rounding is not modelled. *)
From QV Require Import Common.Base.
From Coq Require Import QArith Qabs Qminmax NArith.
Open Scope Q_scope.

Definition Qltb (x y : Q) : bool := negb (Qle_bool y x).

Definition rtol : Q := 1 # 100000.
Definition atol : Q := 1 # 100000000.
(* numpy.isclose(a, b) *)
Definition isclose (a b : Q) : bool := Qle_bool (Qabs (a - b)) (atol + rtol * Qabs b).

(* numpy.isclose(a, b, atol=at) in general (for the translation tie: isclose_tol atol = isclose by computation,
   isclose_tol 0 = isclose_rel by Cvar_proofs.isclose_tol_0) *)
Definition isclose_tol (at' a b : Q) : bool := Qle_bool (Qabs (a - b)) (at' + rtol * Qabs b).

(* numpy.isclose(a, b, atol=0) *)
Definition isclose_rel (a b : Q) : bool := Qle_bool (Qabs (a - b)) (rtol * Qabs b).

(* Python min(a, b): b if b < a else a *)
Definition py_min2 (a b : Q) : Q := if Qltb b a then b else a.

(* an entry of state_list without the state itself: (probability, value) *)
Definition entry := (Q * Q)%type.

(* sorted(state_list, key=lambda x: x[2]): stable — an element is placed in front of the first element to its right
   whose value is not smaller *)
Fixpoint insert_by_value (x : entry) (l : list entry) : list entry :=
  match l with
  | [] => [x]
  | y :: ys => if Qle_bool (snd x) (snd y) then x :: l else y :: insert_by_value x ys
  end.
Definition sort_by_value (l : list entry) : list entry := fold_right insert_by_value [] l.

(*  for _, probability, value in state_list:
        probability = min(alpha - gathered, probability)
        expectation += probability * value
        gathered += probability
        if isclose(gathered, alpha, atol=0): break        (before fix 254e190: isclose(gathered, alpha))   *)
Definition break_test (atol_break : bool) (gathered alpha : Q) : bool :=
  if atol_break then isclose gathered alpha else isclose_rel gathered alpha.

Fixpoint accumulate_gen (atol_break : bool) (alpha : Q) (l : list entry) (gathered expectation : Q) : Q :=
  match l with
  | [] => expectation
  | (p, v) :: r =>
      let p' := py_min2 (alpha - gathered) p in
      let e' := expectation + p' * v in
      let g' := gathered + p' in
      if break_test atol_break g' alpha then e' else accumulate_gen atol_break alpha r g' e'
  end.

(* _get_expectation(state_list, alpha); the callers guarantee 0 < alpha <= 1 *)
Definition get_expectation_gen (atol_break : bool) (l : list entry) (alpha : Q) : result Q :=
  let l' := if isclose alpha 1 then l else sort_by_value l in
  let e := accumulate_gen atol_break alpha l' 0 0 in
  if Qeq_bool alpha 0 then Err "ZeroDivisionError" else Ok (e / alpha).

(* /repo HEAD *)
Definition accumulate : Q -> list entry -> Q -> Q -> Q := accumulate_gen false.
Definition get_expectation : list entry -> Q -> result Q := get_expectation_gen false.
(* before fix 254e190 *)
Definition get_expectation_legacy : list entry -> Q -> result Q := get_expectation_gen true.

(* ------------------------------------------------------------------------------------------------ diagonal operators *)
Definition term := (Q * N)%type.

Fixpoint popcount_pos (p : positive) : nat :=
  match p with
  | xH => 1
  | xO q => popcount_pos q
  | xI q => S (popcount_pos q)
  end.
Definition popcount (n : N) : nat := match n with N0 => O | Npos p => popcount_pos p end.

(* eigenvalue of the diagonal operator on basis state s: sum of coefficient * (-1)^(parity of mask & s) *)
Definition eval_diag (op : list term) (s : N) : Q :=
  fold_left (fun acc t => acc + (if Nat.odd (popcount (N.land (snd t) s)) then - fst t else fst t)) op 0.

Definition dist := list (N * Q).

(* sampled_expectation_value(dist, oper) on a diagonal operator *)
Definition plain_expectation (d : list entry) : Q := fold_left (fun acc e => acc + fst e * snd e) d 0.

Definition alpha_ok (alpha : Q) : bool := negb (Qle_bool alpha 0 || Qltb 1 alpha).

Definition expectation_with_operator (d : dist) (op : list term) (alpha : Q) : result Q :=
  if negb (alpha_ok alpha) then Err "ValueError"
  else
    let evaluations := map (fun sp => (snd sp, eval_diag op (fst sp))) d in
    if isclose alpha 1 then Ok (plain_expectation evaluations)
    else get_expectation (sort_by_value evaluations) alpha.

(* ------------------------------------------------------------------------------------------------ bitstring path *)
(* format(s, "b").zfill(n): most significant bit first, at least n characters *)
Fixpoint bits_msb (fuel : nat) (s : N) (acc : list bool) : list bool :=
  match fuel with
  | O => acc
  | S f => match s with
           | N0 => acc
           | _ => bits_msb f (N.div2 s) (N.odd s :: acc)
           end
  end.
Definition bitstring_of (n : nat) (s : N) : list bool :=
  let b := bits_msb (N.to_nat (N.size s)) s [] in
  repeat false (n - length b) ++ b.

(* the integer a bitstring key denotes *)
Definition state_of_bits (b : list bool) : N :=
  fold_left (fun (acc : N) (c : bool) => N.add (N.mul 2 acc) (if c then 1%N else 0%N)) b 0%N.

(* A BitstringEvaluator of input length len whose function is the diagonal of op read off the key's characters.
   evaluate_bitstring raises BitstringEvaluatorException for a key of another length. *)
Definition evaluate_bitstring (len : nat) (op : list term) (key : list bool) : result Q :=
  if Nat.eqb (length key) len then Ok (eval_diag op (state_of_bits key)) else Err "BitstringEvaluatorException".

(* The width binary_probabilities() pads the keys to: the key length if the distribution was built from bitstring keys
   ([Some n], what measure_quasi_distributions does), else the bit length of the largest integer key. *)
Definition dist_num_bits (key_width : option nat) (d : dist) : nat :=
  match key_width with
  | Some n => n
  | None => Nat.max 1 (N.to_nat (N.size (fold_left (fun m sp => N.max m (fst sp)) d 0%N))) (* len(bin(max)) - 2 *)
  end.

Definition expectation_with_bitstring (num_bits : nat) (d : dist) (len : nat) (op : list term) (alpha : Q) : result Q :=
  if negb (alpha_ok alpha) then Err "ValueError"
  else
    do evaluations <- mapM (fun sp => do v <- evaluate_bitstring len op (bitstring_of num_bits (fst sp)); Ok (snd sp, v)) d;
    get_expectation evaluations alpha.

(* ------------------------------------------------------------------------------------------------ specification *)
(* CVaR_alpha: the mean of the value over the lowest-valued alpha fraction of the probability mass.  [fill] takes, in
   the order of the list, from every entry as much mass as is still missing (never more than the entry has, never a
   negative amount); on the list sorted by value this is the lowest-valued alpha mass.  [cvar_perm] (Cvar_proofs.v) shows
   that the result does not depend on the order of the input nor on the order among equal values, [cvar_least] that it
   is the smallest mean any choice of alpha mass can have. *)
Fixpoint fill (alpha : Q) (l : list entry) (gathered : Q) : Q :=
  match l with
  | [] => 0
  | (p, v) :: r =>
      let take := Qmax 0 (Qmin (alpha - gathered) p) in
      take * v + fill alpha r (gathered + take)
  end.

Definition cvar (l : list entry) (alpha : Q) : Q := fill alpha (sort_by_value l) 0 / alpha.

Definition total_mass (l : list entry) : Q := fold_right (fun e acc => fst e + acc) 0 l.
Definition expectation (l : list entry) : Q := fold_right (fun e acc => fst e * snd e + acc) 0 l.

(* a probability distribution over (probability, value) entries *)
Definition is_dist (l : list entry) : Prop := Forall (fun e => 0 <= fst e) l /\ total_mass l == 1.

(* bounds on the values of a list *)
Definition values_within (lo hi : Q) (l : list entry) : Prop := Forall (fun e => lo <= snd e /\ snd e <= hi) l.
Definition abs_values_le (V : Q) (l : list entry) : Prop := Forall (fun e => Qabs (snd e) <= V) l.
