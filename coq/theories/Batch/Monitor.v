(* Batch/Monitor.v — BatchingMutexPrimitiveJobRunner.run (queasars/circuit_evaluation/mutex_primitives.py)
   as a labelled transition system.  Definitions only; proofs in Batch/*_proofs.v.

   One program counter per synchronisation operation of the source (table in DESIGN.md, C06); a step is that
   operation plus the straight-line code up to the next one.  The unprotected read of `_thread_counter` in the
   executor's loop (`while self._thread_counter > 0`) is its own step (R0).  The wrapped primitive is split into
   f-begin (X2: `self.f(self._batched_pubs)` is called) and f-end (X3: `.result()` returns or raises).

   What the environment decides is the `choice : nat` of a step:
     notify (H2, R6)      : position in the wait queue of the waiter that is woken (any waiter may be chosen;
                            CPython wakes position 0); ignored when the queue is empty;
     timed wait-end       : 1 = the timeout fires (only matters while the thread has not been notified);
     f-end (X3)           : 1 = the primitive job raises, anything else = it returns.

   Variant flags: `ext_wait_timed` (false = the untimed external wait before fix cf627d8, F-C08),
   `failure_path_repaired` (false = the failure path before fix b099965, F-C09), `linger` (batch_waiting_duration
   is not None: one `sleep` between entering and counting). *)
From QV Require Import Common.Base.

Definition tid := nat.
Definition pub := nat.

Inductive pc : Type :=
| E0 | E1 | E2 | E3 | E4 | E5 | E6
| F1 | F2 | F3 | F4 | F5
| S0 | G0
| X1 | X2 | X3 | X4
| N1 | N2 | N3 | N4 | N5
| H0 | H1 | H2 | H3 | H4
| R0 | R1 | R2 | R3 | R4 | R5 | R6 | R7
| C0 | C1 | C2 | C3 | C4 | C5
| Done.

(* What a finished call handed back: the result object of invocation k together with the start index,
   the exception of invocation k (idx is ghost: the slot the call had in that batch), or the ValueError of
   "Result was not yet ready to retrieve!". *)
Inductive outcome : Type :=
| RetOk (k idx : nat)
| RetExc (k idx : nat)
| RetValueError.

Record variant : Type := {
  ext_wait_timed : bool;
  failure_path_repaired : bool;
  linger : bool }.

Record thread : Type := {
  t_pc : pc;
  t_pubs : list pub;            (* argument of the current call *)
  t_bidx : nat;                 (* local batch_index *)
  t_exec : bool;                (* local executor *)
  t_res : option nat;           (* local result: the result object of invocation k *)
  t_exc : option nat;           (* local exception: the exception of invocation k *)
  t_rest : list (list pub);     (* calls still to make after the current one *)
  t_outs : list (list pub * outcome) }.  (* finished calls: (pubs, what came back), oldest first *)

Record shared : Type := {
  lkE : option tid;             (* owner of _entry_lock *)
  lkV : option tid;             (* owner of _variable_lock *)
  lkI : option tid;             (* owner of the lock of _internal_wait_condition *)
  lkX : option tid;             (* owner of the lock of _external_wait_condition *)
  wqI : list tid;               (* waiters of the internal condition that have not been notified *)
  wqX : list tid;
  tc : nat;                     (* _thread_counter *)
  ec : nat;                     (* _entry_counter *)
  blen : nat;                   (* _batch_length *)
  bpubs : list pub;             (* _batched_pubs *)
  res : option nat;             (* _result: Some k = the result object of invocation k *)
  exc : option nat;             (* _exception *)
  log : list (list pub * bool); (* ghost: completed primitive invocations (argument, succeeded), oldest first *)
  inflight : option (list pub); (* ghost: argument of the invocation in progress (between f-begin and f-end) *)
  handed : bool }.              (* ghost: the open batch has been handed to the primitive *)

Record state : Type := { sh : shared; threads : list thread }.

(* ------------------------------------------------------------------ record updates *)
Definition set_pc (th : thread) (p : pc) : thread :=
  {| t_pc := p; t_pubs := t_pubs th; t_bidx := t_bidx th; t_exec := t_exec th; t_res := t_res th;
     t_exc := t_exc th; t_rest := t_rest th; t_outs := t_outs th |}.
Definition set_bidx (th : thread) (i : nat) : thread :=
  {| t_pc := t_pc th; t_pubs := t_pubs th; t_bidx := i; t_exec := t_exec th; t_res := t_res th;
     t_exc := t_exc th; t_rest := t_rest th; t_outs := t_outs th |}.
Definition set_exec (th : thread) (b : bool) : thread :=
  {| t_pc := t_pc th; t_pubs := t_pubs th; t_bidx := t_bidx th; t_exec := b; t_res := t_res th;
     t_exc := t_exc th; t_rest := t_rest th; t_outs := t_outs th |}.
Definition set_got (th : thread) (r e : option nat) : thread :=
  {| t_pc := t_pc th; t_pubs := t_pubs th; t_bidx := t_bidx th; t_exec := t_exec th; t_res := r;
     t_exc := e; t_rest := t_rest th; t_outs := t_outs th |}.

Definition set_lkE (s : shared) (x : option tid) : shared :=
  {| lkE := x; lkV := lkV s; lkI := lkI s; lkX := lkX s; wqI := wqI s; wqX := wqX s; tc := tc s; ec := ec s;
     blen := blen s; bpubs := bpubs s; res := res s; exc := exc s; log := log s; inflight := inflight s; handed := handed s |}.
Definition set_lkV (s : shared) (x : option tid) : shared :=
  {| lkE := lkE s; lkV := x; lkI := lkI s; lkX := lkX s; wqI := wqI s; wqX := wqX s; tc := tc s; ec := ec s;
     blen := blen s; bpubs := bpubs s; res := res s; exc := exc s; log := log s; inflight := inflight s; handed := handed s |}.
Definition set_I (s : shared) (x : option tid) (q : list tid) : shared :=
  {| lkE := lkE s; lkV := lkV s; lkI := x; lkX := lkX s; wqI := q; wqX := wqX s; tc := tc s; ec := ec s;
     blen := blen s; bpubs := bpubs s; res := res s; exc := exc s; log := log s; inflight := inflight s; handed := handed s |}.
Definition set_X (s : shared) (x : option tid) (q : list tid) : shared :=
  {| lkE := lkE s; lkV := lkV s; lkI := lkI s; lkX := x; wqI := wqI s; wqX := q; tc := tc s; ec := ec s;
     blen := blen s; bpubs := bpubs s; res := res s; exc := exc s; log := log s; inflight := inflight s; handed := handed s |}.
(* E1 success: V taken, pubs appended, _batch_length and _thread_counter increased *)
Definition set_enter (s : shared) (t : tid) (p : list pub) : shared :=
  {| lkE := lkE s; lkV := Some t; lkI := lkI s; lkX := lkX s; wqI := wqI s; wqX := wqX s; tc := S (tc s); ec := ec s;
     blen := blen s + length p; bpubs := bpubs s ++ p; res := res s; exc := exc s; log := log s;
     inflight := inflight s; handed := handed s |}.
(* G0: V taken, _entry_counter increased *)
Definition set_count (s : shared) (t : tid) : shared :=
  {| lkE := lkE s; lkV := Some t; lkI := lkI s; lkX := lkX s; wqI := wqI s; wqX := wqX s; tc := tc s; ec := S (ec s);
     blen := blen s; bpubs := bpubs s; res := res s; exc := exc s; log := log s; inflight := inflight s; handed := handed s |}.
(* X2: f(self._batched_pubs) called *)
Definition set_fbegin (s : shared) : shared :=
  {| lkE := lkE s; lkV := lkV s; lkI := lkI s; lkX := lkX s; wqI := wqI s; wqX := wqX s; tc := tc s; ec := ec s;
     blen := blen s; bpubs := bpubs s; res := res s; exc := exc s; log := log s;
     inflight := Some (bpubs s); handed := true |}.
(* X3: .result() returned (ok) or raised; k = index of this invocation *)
Definition set_fend (s : shared) (ok : bool) : shared :=
  let k := length (log s) in
  let arg := match inflight s with Some a => a | None => bpubs s end in
  {| lkE := lkE s; lkV := lkV s; lkI := lkI s; lkX := lkX s; wqI := wqI s; wqX := wqX s; tc := tc s; ec := ec s;
     blen := blen s; bpubs := bpubs s;
     res := if ok then Some k else None;
     exc := if ok then exc s else Some k;
     log := log s ++ [(arg, ok)]; inflight := None; handed := handed s |}.
(* H0: V taken, _thread_counter decreased *)
Definition set_gather (s : shared) (t : tid) : shared :=
  {| lkE := lkE s; lkV := Some t; lkI := lkI s; lkX := lkX s; wqI := wqI s; wqX := wqX s; tc := pred (tc s); ec := ec s;
     blen := blen s; bpubs := bpubs s; res := res s; exc := exc s; log := log s; inflight := inflight s; handed := handed s |}.
(* C0: V taken, shared fields reset *)
Definition set_reset (s : shared) (t : tid) : shared :=
  {| lkE := lkE s; lkV := Some t; lkI := lkI s; lkX := lkX s; wqI := wqI s; wqX := wqX s; tc := 0; ec := 0;
     blen := 0; bpubs := []; res := None; exc := None; log := log s; inflight := inflight s; handed := false |}.

(* ------------------------------------------------------------------ queues *)
Definition free (l : option tid) : bool := match l with None => true | Some _ => false end.
Definition memq (t : tid) (q : list tid) : bool := existsb (Nat.eqb t) q.
Fixpoint remq (t : tid) (q : list tid) : list tid :=
  match q with [] => [] | u :: r => if Nat.eqb t u then remq t r else u :: remq t r end.
Fixpoint remove_nth (n : nat) (q : list tid) : list tid :=
  match q, n with
  | [], _ => []
  | _ :: r, O => r
  | u :: r, S m => u :: remove_nth m r
  end.
(* notify(): an out-of-range choice is not a step *)
Definition notify_one (c : nat) (q : list tid) : option (list tid) :=
  match q with [] => Some [] | _ => if c <? length q then Some (remove_nth c q) else None end.
(* wait-end: needs the condition's lock; an untimed waiter must have been notified, a timed one may time out *)
Definition wait_end (timed : bool) (lk : option tid) (q : list tid) (t : tid) (c : nat) : option (list tid) :=
  if free lk then
    if memq t q then (if timed && (c =? 1) then Some (remq t q) else None) else Some q
  else None.

(* ------------------------------------------------------------------ leaving run() *)
Definition outcome_of (th : thread) : outcome :=
  match t_res th with
  | Some k => RetOk k (t_bidx th)
  | None => match t_exc th with Some k => RetExc k (t_bidx th) | None => RetValueError end
  end.

(* return / raise: record the outcome, start the next call (its first operation is E0) or finish *)
Definition finish_call (th : thread) : thread :=
  let outs := t_outs th ++ [(t_pubs th, outcome_of th)] in
  match t_rest th with
  | [] => {| t_pc := Done; t_pubs := []; t_bidx := 0; t_exec := false; t_res := None; t_exc := None; t_rest := []; t_outs := outs |}
  | p :: r => {| t_pc := E0; t_pubs := p; t_bidx := 0; t_exec := false; t_res := None; t_exc := None; t_rest := r; t_outs := outs |}
  end.

Definition new_thread (calls : list (list pub)) : thread :=
  match calls with
  | [] => {| t_pc := Done; t_pubs := []; t_bidx := 0; t_exec := false; t_res := None; t_exc := None; t_rest := []; t_outs := [] |}
  | p :: r => {| t_pc := E0; t_pubs := p; t_bidx := 0; t_exec := false; t_res := None; t_exc := None; t_rest := r; t_outs := [] |}
  end.

Definition init_shared : shared :=
  {| lkE := None; lkV := None; lkI := None; lkX := None; wqI := []; wqX := []; tc := 0; ec := 0; blen := 0;
     bpubs := []; res := None; exc := None; log := []; inflight := None; handed := false |}.

Definition init_state (calls : list (list (list pub))) : state :=
  {| sh := init_shared; threads := map new_thread calls |}.

(* ------------------------------------------------------------------ one step of one thread *)
Definition step_th (v : variant) (s : shared) (t : tid) (th : thread) (c : nat) : option (shared * thread) :=
  match t_pc th with
  (* ---- entry: while not acquired_both_locks *)
  | E0 => if free (lkE s) then Some (set_lkE s (Some t), set_pc th E1) else None
  | E1 => if free (lkV s)
          then Some (set_enter s t (t_pubs th), set_pc (set_bidx th (blen s)) E2)
          else Some (s, set_pc th F1)
  | E2 => Some (set_lkE s None, set_pc th E3)
  | E3 => Some (set_lkV s None, set_pc th E4)
  | E4 => if free (lkX s) then Some (set_X s (Some t) (wqX s), set_pc th E5) else None
  | E5 => Some (set_X s (lkX s) [], set_pc th E6)
  | E6 => Some (set_X s None (wqX s), set_pc th (if linger v then S0 else G0))
  | F1 => Some (set_lkE s None, set_pc th F2)
  | F2 => if free (lkX s) then Some (set_X s (Some t) (wqX s), set_pc th F3) else None
  | F3 => Some (set_X s None (wqX s ++ [t]), set_pc th F4)
  | F4 => match wait_end (ext_wait_timed v) (lkX s) (wqX s) t c with
          | Some q => Some (set_X s (Some t) q, set_pc th F5)
          | None => None
          end
  | F5 => Some (set_X s None (wqX s), set_pc th E0)
  (* ---- linger *)
  | S0 => Some (s, set_pc th G0)
  (* ---- count *)
  | G0 => if free (lkV s)
          then (if S (ec s) =? tc s
                then Some (set_count s t, set_pc (set_exec th true) X1)
                else Some (set_count s t, set_pc (set_exec th false) N1))
          else None
  (* ---- executor *)
  | X1 => if free (lkE s) then Some (set_lkE s (Some t), set_pc th X2) else None
  | X2 => Some (set_fbegin s, set_pc th X3)
  | X3 => Some (set_fend s (negb (c =? 1)), set_pc th X4)
  | X4 => Some (set_lkV s None, set_pc th H0)
  (* ---- member *)
  | N1 => Some (set_lkV s None, set_pc th N2)
  | N2 => if free (lkI s) then Some (set_I s (Some t) (wqI s), set_pc th N3) else None
  | N3 => Some (set_I s None (wqI s ++ [t]), set_pc th N4)
  | N4 => match wait_end false (lkI s) (wqI s) t c with
          | Some q => Some (set_I s (Some t) q, set_pc th N5)
          | None => None
          end
  | N5 => Some (set_I s None (wqI s), set_pc th H0)
  (* ---- gather *)
  | H0 => if free (lkV s) then Some (set_gather s t, set_pc (set_got th (res s) (exc s)) H1) else None
  | H1 => if free (lkI s) then Some (set_I s (Some t) (wqI s), set_pc th H2) else None
  | H2 => match notify_one c (wqI s) with
          | Some q => Some (set_I s (lkI s) q, set_pc th H3)
          | None => None
          end
  | H3 => Some (set_I s None (wqI s), set_pc th H4)
  | H4 => let s' := set_lkV s None in
          if failure_path_repaired v
          then (if t_exec th then Some (s', set_pc th R0) else Some (s', finish_call th))
          else (match t_res th with
                | None => Some (s', finish_call th)            (* legacy: raise inside the gather block *)
                | Some _ => if t_exec th then Some (s', set_pc th R0) else Some (s', finish_call th)
                end)
  (* ---- executor: wait until every member has gathered *)
  | R0 => Some (s, set_pc th (if 0 <? tc s then R1 else C0))
  | R1 => if free (lkI s) then Some (set_I s (Some t) (wqI s), set_pc th R2) else None
  | R2 => Some (set_I s None (wqI s ++ [t]), set_pc th R3)
  | R3 => match wait_end true (lkI s) (wqI s) t c with
          | Some q => Some (set_I s (Some t) q, set_pc th R4)
          | None => None
          end
  | R4 => Some (set_I s None (wqI s), set_pc th R5)
  | R5 => if free (lkI s) then Some (set_I s (Some t) (wqI s), set_pc th R6) else None
  | R6 => match notify_one c (wqI s) with
          | Some q => Some (set_I s (lkI s) q, set_pc th R7)
          | None => None
          end
  | R7 => Some (set_I s None (wqI s), set_pc th R0)
  (* ---- clean-up *)
  | C0 => if free (lkV s)
          then (if failure_path_repaired v
                then Some (set_reset s t, set_pc th C1)
                else (match exc s with
                      | Some k => Some (set_reset s t, set_pc (set_got th None (Some k)) C1)  (* legacy: raise exception *)
                      | None => Some (set_reset s t, set_pc th C1)
                      end))
          else None
  | C1 => let s' := set_lkV s None in
          if failure_path_repaired v then Some (s', set_pc th C2)
          else (match t_res th with
                | None => Some (s', finish_call th)             (* legacy: the raise of the clean-up block *)
                | Some _ => Some (s', set_pc th C2)
                end)
  | C2 => Some (set_lkE s None, set_pc th C3)
  | C3 => if free (lkX s) then Some (set_X s (Some t) (wqX s), set_pc th C4) else None
  | C4 => Some (set_X s (lkX s) [], set_pc th C5)
  | C5 => Some (set_X s None (wqX s), finish_call th)
  | Done => None
  end.

Fixpoint upd {A} (n : nat) (x : A) (l : list A) : list A :=
  match l, n with
  | [], _ => []
  | _ :: r, O => x :: r
  | a :: r, S m => a :: upd m x r
  end.

(* `None` = thread t does not exist, has finished, or its pending operation is not enabled (with this choice) *)
Definition step (v : variant) (st : state) (t : tid) (c : nat) : option state :=
  match nth_error (threads st) t with
  | None => None
  | Some th =>
      match step_th v (sh st) t th c with
      | None => None
      | Some (s', th') => Some {| sh := s'; threads := upd t th' (threads st) |}
      end
  end.

Fixpoint run (v : variant) (st : state) (sched : list (tid * nat)) : option state :=
  match sched with
  | [] => Some st
  | (t, c) :: r => match step v st t c with None => None | Some st' => run v st' r end
  end.

(* The states every theorem quantifies over: any number of threads, any calls, any schedule. *)
Definition reachable (v : variant) (st : state) : Prop :=
  exists calls sched, run v (init_state calls) sched = Some st.

Definition repaired : variant := {| ext_wait_timed := true; failure_path_repaired := true; linger := true |}.

(* ------------------------------------------------------------------ observations *)
Definition is_done (th : thread) : bool := match t_pc th with Done => true | _ => false end.
Definition all_done (st : state) : bool := forallb is_done (threads st).

(* thread t can take a step for some choice (0: FIFO notify / no timeout / success; 1: timeout) *)
Definition enabled_th (v : variant) (s : shared) (t : tid) (th : thread) : bool :=
  match step_th v s t th 0, step_th v s t th 1 with None, None => false | _, _ => true end.

Definition stuck (v : variant) (st : state) : Prop :=
  forall t c, step v st t c = None.

(* The primitive: the k-th invocation returns R k p for each pub p of its argument, in order. *)
Definition results {A} (R : nat -> pub -> A) (k : nat) (pubs : list pub) : list A := map (R k) pubs.

(* [result[i] for i in range(start, start + n)] of BatchingMutexSampler/Estimator._run: IndexError beyond the end *)
Fixpoint slice {A} (l : list A) (start n : nat) : result (list A) :=
  match n with
  | O => Ok []
  | S m => match nth_error l start with
           | None => Err "IndexError"
           | Some x => do r <- slice l (S start) m; Ok (x :: r)
           end
  end.

(* what BatchingMutexSampler/Estimator._run returns for a call of `pubs` whose runner call came back with `o` *)
Definition wrapper_return {A} (R : nat -> pub -> A) (lg : list (list pub * bool)) (pubs : list pub) (o : outcome)
  : result (list A) :=
  match o with
  | RetOk k idx => match nth_error lg k with
                   | Some (arg, _) => slice (results R k arg) idx (length pubs)
                   | None => Err "NoSuchInvocation"
                   end
  | RetExc _ _ => Err "PrimitiveFailure"
  | RetValueError => Err "ValueError"
  end.
