(* Batch/Live_proofs.v — C08: legacy witnesses; no reachable state of the repaired monitor is stuck. *)
From QV Require Import Common.Base Batch.Monitor Batch.ListX Batch.Inv Batch.InvNum_proofs Batch.Inv_proofs Batch.Route Batch.Live.

(* ------------------------------------------------------------------ witnesses *)
Lemma c08_legacy_witness :
  exists st, run legacy_wait (init_state c08_calls) c08_sched = Some st
    /\ (forall t c, step legacy_wait st t c = None)
    /\ (exists th0 th1, threads st = [th0; th1] /\ t_pc th0 = Done /\ t_pc th1 = F4 /\ wqX (sh st) = [1]
        /\ t_outs th0 = [([1], RetOk 0 0)] /\ t_outs th1 = []).
Proof.
  eexists. split; [vm_compute; reflexivity|]. split.
  - intros t c. destruct t as [|[|t]]; cbn; try reflexivity. destruct t; reflexivity.
  - eexists. eexists. repeat split; reflexivity.
Qed.

Lemma c09_legacy_witness1 :
  exists st, run legacy_failure (init_state c09_calls1) c09_sched1 = Some st
    /\ (forall t c, step legacy_failure st t c = None)
    /\ (exists th0, threads st = [th0] /\ t_pc th0 = E0 /\ t_outs th0 = [([1], RetExc 0 0)] /\ t_pubs th0 = [2]
        /\ lkE (sh st) = Some 0 /\ bpubs (sh st) = [1] /\ exc (sh st) = Some 0).
Proof.
  eexists. split; [vm_compute; reflexivity|]. split.
  - intros t c. destruct t as [|t]; cbn; try reflexivity. destruct t; reflexivity.
  - eexists. repeat split; reflexivity.
Qed.

Lemma c09_legacy_witness3 :
  exists st, run legacy_failure (init_state c09_calls3) c09_sched3 = Some st
    /\ (forall t c, step legacy_failure st t c = None)
    /\ (exists th0 th1 th2, threads st = [th0; th1; th2] /\ t_pc th0 = N4 /\ wqI (sh st) = [0] /\ t_pc th1 = Done
        /\ t_outs th1 = [([2], RetExc 0 1)] /\ t_pc th2 = E0 /\ lkE (sh st) = Some 1).
Proof.
  eexists. split; [vm_compute; reflexivity|]. split.
  - intros t c. destruct t as [|[|[|t]]]; cbn; try reflexivity. destruct t; reflexivity.
  - eexists. eexists. eexists. repeat split; reflexivity.
Qed.

(* the same schedules on HEAD's variant are not stuck at their end (the repaired code goes on) *)
Lemma c08_witness_repaired_goes_on :
  exists st, run (head false) (init_state c08_calls) c08_sched = Some st /\ exists st', step (head false) st 1 1 = Some st'.
Proof. eexists. split; [vm_compute; reflexivity|]. eexists. vm_compute. reflexivity. Qed.

Lemma demo_run :
  exists st, run (head true) (init_state demo_calls) demo_sched = Some st /\ all_done st = true
    /\ map t_outs (threads st) = [[([1;2], RetOk 0 0)]; [([3], RetOk 0 2)]; [([4;5;6], RetOk 1 0)]]
    /\ log (sh st) = [([1;2;3], true); ([4;5;6], true)].
Proof. eexists. split; [vm_compute; reflexivity|]. repeat split; reflexivity. Qed.

(* ------------------------------------------------------------------ no reachable state is stuck *)
Definition can_th (v : variant) (s : shared) (t : tid) (th : thread) : Prop :=
  exists c r, step_th v s t th c = Some r.

Lemma can_th_step v st t th : nth_error (threads st) t = Some th -> can_th v (sh st) t th -> can_step v st.
Proof.
  intros H [c [[s' th'] E]]. exists t, c. unfold step. rewrite H, E. eauto.
Qed.

(* which operations need what *)
Local Opaque wait_end notify_one.
Lemma enabled_if v s t th : ext_wait_timed v = true -> failure_path_repaired v = true ->
  t_pc th <> Done ->
  (match t_pc th with E0 | X1 => lkE s = None | _ => True end) ->
  (match t_pc th with G0 | H0 | C0 => lkV s = None | _ => True end) ->
  (match t_pc th with E4 | F2 | F4 | C3 => lkX s = None | _ => True end) ->
  (match t_pc th with N2 | N4 | H1 | R1 | R3 | R5 => lkI s = None | _ => True end) ->
  (t_pc th = N4 -> ~ In t (wqI s)) ->
  can_th v s t th.
Proof.
  intros He Hf Hd HE HV HX HI HW. unfold can_th, step_th. rewrite He, Hf.
  destruct (t_pc th) eqn:Hpc; try congruence; try rewrite HE; try rewrite HV; try rewrite HX; try rewrite HI; cbn.
  all: try (exists 0; eexists; reflexivity).
  all: try (exists 0; destruct (linger v); eexists; reflexivity).
  all: try (exists 0; match goal with |- context [if ?b then _ else _] => destruct b end; eexists; reflexivity).
  all: try (exists 0; destruct (notify_one_zero (wqI s)) as [q' ->]; eexists; reflexivity).
  all: try (exists 1; match goal with |- context [wait_end true None ?q ?t 1] => destruct (wait_end_timeout None q t eq_refl) as [q' ->] end; eexists; reflexivity).
  - (* N4 *) exists 0. Local Transparent wait_end. unfold wait_end. cbn. specialize (HW eq_refl). destruct (memq t (wqI s)) eqn:E.
    + apply memq_In in E. contradiction.
    + eexists; reflexivity.
Qed.

Ltac triv_en := first [exact I | reflexivity | assumption | (intros E; discriminate E)].

Theorem no_stuck v st : ext_wait_timed v = true -> failure_path_repaired v = true -> reachable v st ->
  some_unfinished st -> can_step v st.
Proof.
  intros He Hf Hr [t0 [th0 [H0 Hnd]]]. pose proof (reachable_inv v st Hf Hr) as HI.
  destruct HI as [[LE1 LE2] [LV1 LV2] [LI1 LI2] [LX1 LX2] Itc Iec Ione Inoent Irdy Iexec _ _ _ _ _ _ IwI _ Ith].
  (* 1. somebody holds the external condition's lock: it is in a straight-line section *)
  destruct (lkX (sh st)) as [u|] eqn:EX.
  { destruct (LX2 u eq_refl) as [thu [Hu Hh]]. apply (can_th_step v st u thu Hu).
    unfold holdsX in Hh. apply enabled_if; auto; destruct (t_pc thu); try discriminate; triv_en. }
  (* 2. somebody holds the internal condition's lock *)
  destruct (lkI (sh st)) as [u|] eqn:EI.
  { destruct (LI2 u eq_refl) as [thu [Hu Hh]]. apply (can_th_step v st u thu Hu).
    unfold holdsI in Hh. apply enabled_if; auto; destruct (t_pc thu); try discriminate; triv_en. }
  (* 3. somebody holds the variable lock *)
  destruct (lkV (sh st)) as [u|] eqn:EV.
  { destruct (LV2 u eq_refl) as [thu [Hu Hh]].
    destruct (t_pc thu) eqn:Hpu; unfold holdsV in Hh; rewrite Hpu in Hh; try discriminate.
    all: try (apply (can_th_step v st u thu Hu); apply enabled_if; auto; rewrite Hpu; triv_en).
    (* X1: the executor-to-be needs the entry lock *)
    destruct (lkE (sh st)) as [w|] eqn:EE.
    2: { apply (can_th_step v st u thu Hu); apply enabled_if; auto; rewrite Hpu; triv_en. }
    destruct (LE2 w eq_refl) as [thw [Hw Hhw]].
    assert (Hne : u <> w).
    { intros ->. assert (thw = thu) by congruence. subst. unfold holdsE in Hhw. rewrite Hpu in Hhw. discriminate. }
    pose proof (cnt_ge_two pXa (threads st) u w thu thw Hne Hu Hw) as GA.
    pose proof (cnt_ge_two pXb (threads st) u w thu thw Hne Hu Hw) as GB.
    assert (Ea : pXa thu = true) by (unfold pXa; rewrite Hpu; auto). rewrite Ea in GA.
    assert (Eb0 : pXb thu = false) by (unfold pXb; rewrite Hpu; auto). rewrite Eb0 in GB.
    assert (HVw : holdsV thw = false).
    { destruct (holdsV thw) eqn:E; auto. pose proof (LV1 w thw Hw E). congruence. }
    apply (can_th_step v st w thw Hw). unfold holdsE in Hhw. unfold holdsV in HVw.
    destruct (t_pc thw) eqn:Hpw; cbn in Hhw, HVw; try discriminate.
    all: try (apply enabled_if; auto; rewrite Hpw; triv_en).
    all: assert (Eb : pXb thw = true) by (unfold pXb; rewrite Hpw, ?Hhw; auto); rewrite Eb in GB; cbn in GA, GB; exfalso; lia. }
  (* 4. somebody holds the entry lock (V, I, X are free) *)
  destruct (lkE (sh st)) as [w|] eqn:EE.
  { destruct (LE2 w eq_refl) as [thw [Hw Hhw]]. apply (can_th_step v st w thw Hw).
    unfold holdsE in Hhw. apply enabled_if; auto; destruct (t_pc thw) eqn:Hpw; try discriminate; try triv_en.
    all: intros _; intros Hin; destruct (IwI _ Hin) as [th' [H1 [H2|H2]]]; assert (th' = thw) by congruence; subst; congruence. }
  (* 5. all four locks are free: everybody is enabled except members waiting for the notification *)
  assert (Free : forall u thu, nth_error (threads st) u = Some thu -> t_pc thu <> Done ->
                 (t_pc thu = N4 -> ~ In u (wqI (sh st))) -> can_step v st).
  { intros u thu Hu Hd Hw. apply (can_th_step v st u thu Hu). apply enabled_if; auto; destruct (t_pc thu); triv_en. }
  destruct (t_pc th0) eqn:Hp0; try (apply (Free t0 th0 H0); [congruence|intros E; congruence]; fail).
  (* th0 is a member at N4 *)
  destruct (in_dec Nat.eq_dec t0 (wqI (sh st))) as [Hin|Hnin].
  2: { apply (Free t0 th0 H0); [congruence|auto]. }
  pose proof (cnt_ge_b2n pCnt (threads st) t0 th0 H0) as GC. unfold pCnt in GC at 1. rewrite Hp0 in GC. cbn in GC.
  assert (Pick : forall P : thread -> bool, 0 < cnt P (threads st) ->
                 (forall th, P th = true -> t_pc th <> Done /\ t_pc th <> N4) -> can_step v st).
  { intros P Hpos HP. destruct (cnt_pos_ex P _ Hpos) as [u [thu [Hu HPu]]]. destruct (HP thu HPu) as [A B].
    apply (Free u thu Hu); auto; intros E; congruence. }
  destruct (ready (sh st)) eqn:Hrd; cbn in *.
  - apply (Pick pXb); [lia|]. intros th Hx. unfold pXb in Hx. destruct (t_pc th); cbn in Hx; try discriminate; split; congruence.
  - destruct (cnt pEnt (threads st)) eqn:En.
    + apply (Pick pXa); [apply Iexec; auto; lia|]. intros th Hx. unfold pXa in Hx. destruct (t_pc th); cbn in Hx; try discriminate; split; congruence.
    + apply (Pick pEnt); [lia|]. intros th Hx. unfold pEnt in Hx. destruct (t_pc th); cbn in Hx; try discriminate; split; congruence.
Qed.

(* every thread blocked in an untimed wait or a blocking acquire waits for a specific other live thread *)
Definition waker_of_member (st : state) (t : tid) : Prop :=
  exists x thx, nth_error (threads st) x = Some thx /\ x <> t
    /\ (pEnt thx = true \/ pXa thx = true \/ (pXb thx = true /\ t_pc thx <> C0)).

Theorem waiters_have_wakers v st : failure_path_repaired v = true -> reachable v st ->
  (forall t th, nth_error (threads st) t = Some th -> t_pc th = N4 -> In t (wqI (sh st)) -> waker_of_member st t)
  /\ (forall t th u, nth_error (threads st) t = Some th -> (t_pc th = E0 \/ t_pc th = X1) -> lkE (sh st) = Some u ->
        u <> t /\ exists thu, nth_error (threads st) u = Some thu /\ holdsE thu = true)
  /\ (forall t th u, nth_error (threads st) t = Some th -> (t_pc th = G0 \/ t_pc th = H0 \/ t_pc th = C0) -> lkV (sh st) = Some u ->
        u <> t /\ exists thu, nth_error (threads st) u = Some thu /\ holdsV thu = true).
Proof.
  intros Hf Hr. pose proof (reachable_inv v st Hf Hr) as HI.
  destruct HI as [[LE1 LE2] [LV1 LV2] _ _ Itc Iec Ione Inoent Irdy Iexec _ _ _ _ _ _ IwI _ Ith].
  split; [|split].
  - intros t th Ht Hp Hin.
    pose proof (cnt_ge_b2n pCnt (threads st) t th Ht) as GC. unfold pCnt in GC at 1. rewrite Hp in GC. cbn in GC.
    assert (Pick : forall P : thread -> bool, 0 < cnt P (threads st) -> (forall th, P th = true -> t_pc th <> N4) ->
                   exists x thx, nth_error (threads st) x = Some thx /\ x <> t /\ P thx = true).
    { intros P Hpos HP. destruct (cnt_pos_ex P _ Hpos) as [x [thx [Hx HPx]]]. exists x, thx. split; auto. split; auto.
      intros ->. assert (thx = th) by congruence. subst. apply (HP th HPx). auto. }
    unfold waker_of_member.
    destruct (ready (sh st)) eqn:Hrd; cbn in *.
    + destruct (Pick pXb) as [x [thx [Hx [Hne HP]]]]; [lia| |].
      { intros th' Hx. unfold pXb in Hx. destruct (t_pc th'); cbn in Hx; try discriminate; congruence. }
      exists x, thx. split; auto. split; auto. right. right. split; auto.
      intros EC. destruct (Ith x thx Hx) as [T1 _]. specialize (T1 EC). lia.
    + destruct (cnt pEnt (threads st)) eqn:En.
      * destruct (Pick pXa) as [x [thx [Hx [Hne HP]]]]; [apply Iexec; auto; lia| |].
        { intros th' Hx. unfold pXa in Hx. destruct (t_pc th'); cbn in Hx; try discriminate; congruence. }
        exists x, thx. auto.
      * destruct (Pick pEnt) as [x [thx [Hx [Hne HP]]]]; [lia| |].
        { intros th' Hx. unfold pEnt in Hx. destruct (t_pc th'); cbn in Hx; try discriminate; congruence. }
        exists x, thx. auto.
  - intros t th u Ht Hp Hl. destruct (LE2 u Hl) as [thu [Hu Hh]]. split; [|eauto].
    intros ->. assert (thu = th) by congruence. subst. unfold holdsE in Hh. destruct Hp as [Hp|Hp]; rewrite Hp in Hh; discriminate.
  - intros t th u Ht Hp Hl. destruct (LV2 u Hl) as [thu [Hu Hh]]. split; [|eauto].
    intros ->. assert (thu = th) by congruence. subst. unfold holdsV in Hh. destruct Hp as [Hp|[Hp|Hp]]; rewrite Hp in Hh; discriminate.
Qed.

Lemma c09_head_run :
  exists st, run (head false) (init_state c09_calls1) c09_head_sched = Some st /\ all_done st = true
    /\ map t_outs (threads st) = [[([1], RetExc 0 0); ([2], RetOk 1 0)]]
    /\ log (sh st) = [([1], false); ([2], true)].
Proof. eexists. split; [vm_compute; reflexivity|]. repeat split; reflexivity. Qed.

(* a reachable state in which the primitive is in use (non-vacuity of the exclusion theorem) *)
Lemma demo_in_use :
  exists st, reachable (head true) st /\ exists t th, nth_error (threads st) t = Some th /\ in_use th = true.
Proof.
  eexists. split.
  - exists demo_calls, (firstn 23 demo_sched). vm_compute. reflexivity.
  - exists 1. eexists. split; reflexivity.
Qed.

(* a reachable cycle in which only the polling executor moves while a member that could move is never scheduled *)
Lemma polling_cycle :
  exists st, run (head false) (init_state lasso_calls) lasso_prefix = Some st
    /\ run (head false) st lasso_cycle = Some st
    /\ (exists th0, nth_error (threads st) 0 = Some th0 /\ t_pc th0 = N2)
    /\ (exists st', step (head false) st 0 0 = Some st')
    /\ (exists st1 st2, run (head false) st (firstn 2 lasso_cycle) = Some st1 /\ step (head false) st1 0 0 = None
                        /\ run (head false) st (firstn 3 lasso_cycle) = Some st2).
Proof.
  eexists. split; [vm_compute; reflexivity|]. split; [vm_compute; reflexivity|]. split; [|split].
  - eexists. split; reflexivity.
  - eexists. vm_compute. reflexivity.
  - eexists. eexists. split; [vm_compute; reflexivity|]. split; [vm_compute; reflexivity|vm_compute; reflexivity].
Qed.
