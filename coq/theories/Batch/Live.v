(* Batch/Live.v — what C08 says about the monitor, the legacy variants and their witnesses (definitions). *)
From QV Require Import Common.Base Batch.Monitor Batch.ListX Batch.Inv.

(* the two pre-fix variants (DESIGN.md Appendix B): before cf627d8 the retry wait was untimed; before b099965 the
   executor raised before its clean-up *)
Definition legacy_wait : variant := {| ext_wait_timed := false; failure_path_repaired := true; linger := false |}.
Definition legacy_failure : variant := {| ext_wait_timed := true; failure_path_repaired := false; linger := false |}.
(* HEAD: both repaired; `linger` is the solver's configuration (waiting_duration=0.1) or None *)
Definition head (lg : bool) : variant := {| ext_wait_timed := true; failure_path_repaired := true; linger := lg |}.

Definition some_unfinished (st : state) : Prop := exists t th, nth_error (threads st) t = Some th /\ t_pc th <> Done.
Definition can_step (v : variant) (st : state) : Prop := exists t c st', step v st t c = Some st'.

(* F-C08: T0 enters and becomes executor-to-be holding V; T1 takes E, fails its try-acquire of V, releases E and is
   pre-empted before it starts waiting; T0 finishes its whole call (both notify_all fire into an empty wait set);
   T1 then waits untimed: nobody will ever notify it. *)
Definition c08_calls : list (list (list pub)) := [[[1]]; [[2]]].
Definition c08_sched : list (tid * nat) :=
  [(0,0);(0,0);(0,0);(0,0);(0,0);(0,0);(0,0);(0,0); (1,0);(1,0);(1,0);
   (0,0);(0,0);(0,0);(0,0);(0,0);(0,0);(0,0);(0,0);(0,0);(0,0);(0,0);(0,0);(0,0);(0,0);(0,0);(0,0); (1,0);(1,0)].

(* F-C09 (one thread, two calls; the first invocation fails): the executor raises inside the gather block, never
   releases the entry lock, and blocks on it itself at the start of its next call. *)
Definition c09_calls1 : list (list (list pub)) := [[[1]; [2]]].
Definition c09_sched1 : list (tid * nat) :=
  [(0,0);(0,0);(0,0);(0,0);(0,0);(0,0);(0,0); (0,0); (0,0);(0,0);(0,1);(0,0); (0,0);(0,0);(0,0);(0,0);(0,0)].

(* F-C09 (three threads): T0 and T1 share a batch, T1 executes and fails before member T0 has started to wait: the
   executor's single notify() finds nobody, it raises and leaves; T0 then waits untimed for ever, T2 can never enter. *)
Definition c09_calls3 : list (list (list pub)) := [[[1]]; [[2]]; [[3]]].
Definition c09_sched3 : list (tid * nat) :=
  [(0,0);(0,0);(0,0);(0,0);(0,0);(0,0);(0,0); (1,0);(1,0);(1,0);(1,0);(1,0);(1,0);(1,0); (0,0);(0,0);
   (1,0);(1,0);(1,0);(1,1);(1,0);(1,0);(1,0);(1,0);(1,0);(1,0); (0,0);(0,0)].

(* non-vacuity: T0 and T1 share one batch (T1 executes), T2 forms the next one; all three calls return *)
Definition demo_calls : list (list (list pub)) := [[[1;2]]; [[3]]; [[4;5;6]]].
Definition demo_sched : list (tid * nat) :=
  [(0,0); (0,0); (0,0); (1,0); (0,0); (1,0); (0,0); (1,0); (0,0); (1,0); (0,0); (1,0); (0,0); (1,0); (0,0); (1,0); (0,0); (1,0); (0,0); (1,0); (0,0); (1,0); (1,0); (1,0); (1,0); (1,0); (1,0); (1,0); (1,0); (0,0); (1,0); (0,0); (1,0); (0,0); (1,0); (1,0); (0,0); (0,0); (0,0); (1,0); (0,0); (1,0); (1,0); (1,0); (1,0); (1,0); (1,0); (1,0); (1,0); (1,0); (1,0); (1,0); (2,0); (2,0); (2,0); (2,0); (2,0); (2,0); (2,0); (2,0); (2,0); (2,0); (2,0); (2,0); (2,0); (2,0); (2,0); (2,0); (2,0); (2,0); (2,0); (2,0); (2,0); (2,0); (2,0); (2,0); (2,0)].

(* a failing first invocation on HEAD's variant: one thread, two calls; the first returns the exception, the second is served *)
Definition c09_head_sched : list (tid * nat) :=
  [(0,0);(0,0);(0,0);(0,0);(0,0);(0,0);(0,0); (0,0); (0,0);(0,0);(0,1);(0,0); (0,0);(0,0);(0,0);(0,0);(0,0); (0,0);
   (0,0);(0,0);(0,0);(0,0);(0,0);(0,0);
   (0,0);(0,0);(0,0);(0,0);(0,0);(0,0);(0,0); (0,0); (0,0);(0,0);(0,0);(0,0); (0,0);(0,0);(0,0);(0,0);(0,0); (0,0);
   (0,0);(0,0);(0,0);(0,0);(0,0);(0,0)].

(* Why C08_fair_termination needs STRONG fairness: T0 and T1 share a batch, T1 executes and polls (R0..R7) while member
   T0 has not yet taken the internal condition's lock (N2).  The eight polling steps return to the same state: an infinite
   schedule that repeats them is weakly fair (T0 is not continuously enabled: it is disabled whenever T1 holds the
   condition's lock) and never completes T0's call. *)
Definition lasso_calls : list (list (list pub)) := [[[1]]; [[2]]].
Definition lasso_prefix : list (tid * nat) :=
  [(0,0);(0,0);(0,0);(0,0);(0,0);(0,0);(0,0); (1,0);(1,0);(1,0);(1,0);(1,0);(1,0);(1,0); (0,0);(0,0);
   (1,0);(1,0);(1,0);(1,0);(1,0);(1,0);(1,0);(1,0);(1,0);(1,0)].
Definition lasso_cycle : list (tid * nat) := [(1,0);(1,0);(1,0);(1,1);(1,0);(1,0);(1,0);(1,0)].
