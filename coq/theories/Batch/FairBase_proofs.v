(* Batch/FairBase_proofs.v — runs over infinite schedules: reachability, the variant V (constant on the two polling
   loops, strictly decreasing on every other step), first-step extraction and the fairness rule `must_step`.
   Uses excluded middle (Classical_Prop.classic): the liveness argument is by contradiction on infinite runs. *)
From QV Require Import Common.Base Batch.Monitor Batch.ListX Batch.Inv Batch.InvNum_proofs Batch.Inv_proofs Batch.Route
  Batch.Live Batch.Live_proofs Batch.DrainMu_proofs Batch.Drain_proofs Batch.Fair.
From Coq Require Import Classical.

(* ------------------------------------------------------------------ the variant *)
Definition inloop (p : pc) : bool :=
  match p with E0 | E1 | F1 | F2 | F3 | F4 | F5 | R0 | R1 | R2 | R3 | R4 | R5 | R6 | R7 => true | _ => false end.
Definition succL (p : pc) : pc :=
  match p with
  | E0 => E1 | E1 => F1 | F1 => F2 | F2 => F3 | F3 => F4 | F4 => F5 | F5 => E0
  | R0 => R1 | R1 => R2 | R2 => R3 | R3 => R4 | R4 => R5 | R5 => R6 | R6 => R7 | R7 => R0
  | q => q
  end.
(* `base` of DrainMu_proofs with the retry loop flattened (the polling loop already is) *)
Definition brank (p : pc) : nat := match p with E0 | F1 | F2 | F3 | F4 | F5 => 170 | q => base q end.
Definition w2 (th : thread) : nat := calls_left th * 200 + brank (t_pc th).
Definition V (st : state) : nat := sumf w2 (threads st).

Lemma w2_step v s t th c s' th' : failure_path_repaired v = true -> step_th v s t th c = Some (s', th') ->
  w2 th' <= w2 th /\ (w2 th' = w2 th -> inloop (t_pc th) = true /\ th' = set_pc th (succL (t_pc th))).
Proof.
  intros Hf H. unfold step_th in H. rewrite ?Hf in H. break_step H.
  all: unfold w2, calls_left; rewrite ?Hpc; fin; cbn [brank base t_pc set_pc set_bidx set_exec set_got t_rest length inloop succL].
  all: split; [lia|]; intros E; try (exfalso; lia); auto.
Qed.

Lemma V_step v st t c st' : failure_path_repaired v = true -> step v st t c = Some st' ->
  V st' <= V st /\ (V st' = V st -> exists th, nth_error (threads st) t = Some th /\ inloop (t_pc th) = true
                                   /\ nth_error (threads st') t = Some (set_pc th (succL (t_pc th)))).
Proof.
  intros Hf H. unfold step in H. destruct (nth_error (threads st) t) as [th|] eqn:Hn; [|discriminate].
  destruct (step_th v (sh st) t th c) as [[s' th']|] eqn:Hs; [|discriminate]. inversion H; subst; clear H.
  unfold V. cbn. pose proof (sumf_upd w2 t th' th (threads st) Hn) as S.
  destruct (w2_step v _ t th c s' th' Hf Hs) as [A B]. split; [lia|].
  intros E. destruct B as [B1 B2]; [lia|]. exists th. split; auto. split; auto. subst th'. eapply nth_error_upd_eq; eauto.
Qed.

(* ------------------------------------------------------------------ a run *)
Section Run.
  Variables (v : variant) (calls : list (list (list pub))) (sigma : isched).
  Hypothesis He : ext_wait_timed v = true.
  Hypothesis Hf : failure_path_repaired v = true.

  Definition s (n : nat) : state := rs v (init_state calls) sigma n.
  Definition thr (n : nat) (t : tid) : option thread := nth_error (threads (s n)) t.
  Definition tk (n : nat) (t : tid) : Prop := taken v (init_state calls) sigma n t.

  Lemma s_succ n : s (S n) = match step v (s n) (fst (sigma n)) (snd (sigma n)) with Some s' => s' | None => s n end.
  Proof. reflexivity. Qed.

  Lemma s_reachable n : reachable v (s n).
  Proof.
    induction n as [|n IH].
    - exists calls, []. reflexivity.
    - rewrite s_succ. destruct (step v (s n) (fst (sigma n)) (snd (sigma n))) eqn:E; auto.
      eapply reachable_step; eauto.
  Qed.

  Lemma s_inv n : Inv (s n).
  Proof. apply (reachable_inv v); auto. apply s_reachable. Qed.

  Lemma V_mono_step n : V (s (S n)) <= V (s n).
  Proof.
    rewrite s_succ. destruct (step v (s n) (fst (sigma n)) (snd (sigma n))) eqn:E; auto.
    apply (V_step v _ _ _ _ Hf E).
  Qed.

  Lemma V_mono n m : n <= m -> V (s m) <= V (s n).
  Proof. induction 1; auto. pose proof (V_mono_step m). lia. Qed.

  Lemma step_other_thread st t c st' u : step v st t c = Some st' -> u <> t -> nth_error (threads st') u = nth_error (threads st) u.
  Proof.
    intros H Hne. unfold step in H. destruct (nth_error (threads st) t) as [th|] eqn:Hn; [|discriminate].
    destruct (step_th v (sh st) t th c) as [[s' th']|]; [|discriminate]. inversion H; subst. cbn.
    apply nth_error_upd_neq. auto.
  Qed.

  Lemma thr_not_taken n t : ~ tk n t -> thr (S n) t = thr n t.
  Proof.
    intros H. unfold thr. rewrite s_succ.
    destruct (step v (s n) (fst (sigma n)) (snd (sigma n))) as [st'|] eqn:E; auto.
    destruct (Nat.eq_dec (fst (sigma n)) t) as [Et|Ne].
    - exfalso. apply H. split; auto. fold (s n). rewrite <- Et. rewrite E. discriminate.
    - eapply step_other_thread; eauto.
  Qed.

  Lemma tk_step n t : tk n t -> exists c st', step v (s n) t c = Some st' /\ s (S n) = st' /\ c = snd (sigma n).
  Proof.
    intros [A B]. fold (s n) in B. destruct (step v (s n) t (snd (sigma n))) as [st'|] eqn:E; [|congruence].
    exists (snd (sigma n)), st'. split; auto. split; auto. rewrite s_succ. rewrite A. rewrite E. auto.
  Qed.

  (* a taken step changes the thread *)
  Lemma tk_changes n t th : tk n t -> thr n t = Some th -> thr (S n) t <> Some th.
  Proof.
    intros H Ht. destruct (tk_step n t H) as [c [st' [E [E2 _]]]]. unfold thr. rewrite E2.
    unfold step in E. unfold thr in Ht. rewrite Ht in E.
    destruct (step_th v (sh (s n)) t th c) as [[s' th']|] eqn:Hs; [|discriminate]. inversion E; subst. cbn.
    rewrite (nth_error_upd_eq _ _ _ _ Ht). intros Q. inversion Q; subst th'.
    destruct (w2_step v _ t th c s' th Hf Hs) as [_ B]. destruct (B eq_refl) as [B1 B2].
    assert (t_pc th = succL (t_pc th)) by (rewrite B2 at 1; reflexivity).
    destruct (t_pc th); cbn in *; discriminate.
  Qed.

  (* ------------------------------------------------------------------ first step of a thread after time n *)
  Lemma least_from (P : nat -> Prop) n : (exists m, n <= m /\ P m) -> exists m, n <= m /\ P m /\ forall k, n <= k < m -> ~ P k.
  Proof.
    intros [m [Hm Pm]]. remember (m - n) as d eqn:Ed. revert m Hm Pm Ed.
    induction d as [d IH] using lt_wf_ind. intros m Hm Pm Ed.
    destruct (classic (exists k, n <= k < m /\ P k)) as [[k [Hk Pk]]|No].
    - apply (IH (k - n) ltac:(lia) k ltac:(lia) Pk eq_refl).
    - exists m. split; auto. split; auto. intros k Hk Pk. apply No. exists k. auto.
  Qed.

  Lemma thr_const n m t : n <= m -> (forall k, n <= k < m -> ~ tk k t) -> thr m t = thr n t.
  Proof.
    induction 1 as [|m Hle IH]; intros H; auto.
    rewrite thr_not_taken; [apply IH; intros k Hk; apply H; lia|apply H; lia].
  Qed.

  Lemma first_step n t :
    (exists m, n <= m /\ tk m t /\ thr m t = thr n t) \/ (forall m, n <= m -> thr m t = thr n t /\ ~ tk m t).
  Proof.
    destruct (classic (exists m, n <= m /\ tk m t)) as [E|No].
    - left. destruct (least_from _ n E) as [m [Hm [Tm L]]]. exists m. split; auto. split; auto. apply thr_const; auto.
    - right. intros m Hm. split.
      + apply thr_const; auto. intros k Hk Tk. apply No. exists k. split; [lia|auto].
      + intros Tk. apply No. exists m. auto.
  Qed.

  Hypothesis Hfair : strongly_fair v (init_state calls) sigma.

  (* the fairness rule: a thread that, as long as it stays where it is, is enabled again and again, takes a step from
     where it is *)
  Definition stays (n m : nat) (t : tid) (th : thread) : Prop := forall k, n <= k <= m -> thr k t = Some th.

  Lemma must_step n t th : thr n t = Some th ->
    (forall m, n <= m -> stays n m t th -> exists m', m <= m' /\ (stays n m' t th -> enabled v (s m') t)) ->
    exists m, n <= m /\ tk m t /\ stays n m t th.
  Proof.
    intros Ht Hen. destruct (first_step n t) as [[m [Hm [Tm Em]]]|Never].
    - destruct (least_from (fun k => tk k t) n) as [m0 [H0 [T0 L0]]]; [exists m; auto|].
      exists m0. split; auto. split; auto. intros k Hk. rewrite <- Ht. apply thr_const; [lia|]. intros j Hj. apply L0. lia.
    - exfalso.
      assert (St : forall m, n <= m -> stays n m t th).
      { intros m Hm k Hk. destruct (Never k) as [A _]; [lia|]. congruence. }
      assert (Io : forall k, exists m, k <= m /\ enabled v (s m) t).
      { intros k. destruct (Hen (Nat.max n k)) as [m' [Hm' E]]; [lia|apply St; lia|].
        exists m'. split; [lia|]. apply E. apply St. lia. }
      destruct (Hfair t Io n) as [m [Hm Tm]]. destruct (Never m Hm) as [_ B]. contradiction.
  Qed.

  Lemma stays_no_tk n m t th k : stays n m t th -> n <= k < m -> ~ tk k t.
  Proof.
    intros St Hk Tk. apply (tk_changes k t th Tk); [apply St; lia|]. apply St. lia.
  Qed.
End Run.
