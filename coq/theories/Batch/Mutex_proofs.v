(* Batch/Mutex_proofs.v — MutexSampler/MutexEstimator: the lock owner is the one thread inside `with self._lock`,
   so at most one thread is inside the wrapped primitive's run(). *)
From QV Require Import Common.Base Batch.Mutex.

Definition minv (st : mstate) : Prop :=
  (forall u thu, nth_error (mths st) u = Some thu -> m_holds thu = true -> mlk st = Some u)
  /\ (forall u, mlk st = Some u -> exists thu, nth_error (mths st) u = Some thu /\ m_holds thu = true).

Lemma mupd_eq {A} n (x y : A) l : nth_error l n = Some y -> nth_error (mupd n x l) n = Some x.
Proof. revert n; induction l as [|a l IH]; intros [|n]; simpl; intros H; try discriminate; auto. Qed.
Lemma mupd_neq {A} n m (x : A) l : n <> m -> nth_error (mupd n x l) m = nth_error l m.
Proof. revert n m; induction l as [|a l IH]; intros [|n] [|m] H; simpl; auto; try congruence. Qed.

Lemma mstep_inv st t st' : minv st -> mstep st t = Some st' -> minv st'.
Proof.
  intros [I1 I2] H. unfold mstep in H. destruct (nth_error (mths st) t) as [th|] eqn:Hn; [|discriminate].
  destruct (mstep_th (mlk st) t th) as [[lk' th']|] eqn:Hs; [|discriminate]. inversion H; subst; clear H. unfold minv. cbn.
  unfold mstep_th in Hs.
  assert (Hown : m_holds th = true -> mlk st = Some t) by (apply I1; auto).
  split.
  - intros u thu Hu Hh. destruct (Nat.eq_dec t u) as [<-|Hne].
    + rewrite (mupd_eq _ _ _ _ Hn) in Hu. inversion Hu; subst thu.
      destruct (m_pc th) eqn:Hp; unfold m_holds in *; rewrite ?Hp in *; cbn in *.
      * destruct (mlk st); [discriminate|]. inversion Hs; subst. reflexivity.
      * inversion Hs; subst. auto.
      * inversion Hs; subst. auto.
      * inversion Hs; subst. unfold m_finish in Hh. destruct (m_rest th); cbn in Hh; discriminate.
      * discriminate.
    + rewrite (mupd_neq _ _ _ _ Hne) in Hu. pose proof (I1 u thu Hu Hh) as Hl.
      destruct (m_pc th) eqn:Hp; unfold m_holds in *; rewrite ?Hp in *; cbn in *.
      * destruct (mlk st); [discriminate|]. discriminate.
      * inversion Hs; subst. auto.
      * inversion Hs; subst. auto.
      * specialize (Hown eq_refl). congruence.
      * discriminate.
  - intros u Hl. destruct (Nat.eq_dec t u) as [<-|Hne].
    + exists th'. split; [apply (mupd_eq _ _ _ _ Hn)|].
      destruct (m_pc th) eqn:Hp; unfold m_holds in *; rewrite ?Hp in *; cbn in *.
      * destruct (mlk st); [discriminate|]. inversion Hs; subst. reflexivity.
      * inversion Hs; subst. reflexivity.
      * inversion Hs; subst. reflexivity.
      * inversion Hs; subst. discriminate.
      * discriminate.
    + rewrite (mupd_neq _ _ _ _ Hne).
      destruct (m_pc th) eqn:Hp; unfold m_holds in *; rewrite ?Hp in *; cbn in *.
      * destruct (mlk st); [discriminate|]. inversion Hs; subst. congruence.
      * inversion Hs; subst. auto.
      * inversion Hs; subst. auto.
      * inversion Hs; subst. discriminate.
      * discriminate.
Qed.

Lemma minit_inv calls : minv (m_init calls).
Proof.
  split; cbn; [|intros u H; discriminate].
  intros u thu Hu Hh. apply nth_error_In in Hu. apply in_map_iff in Hu. destruct Hu as [n [<- _]].
  destruct n; cbn in Hh; discriminate.
Qed.

Lemma mrun_inv sched : forall st st', minv st -> mrun st sched = Some st' -> minv st'.
Proof.
  induction sched as [|t r IH]; intros st st' HI H; cbn in H.
  - inversion H; subst; auto.
  - destruct (mstep st t) as [st1|] eqn:E; [|discriminate]. eapply IH; [|exact H]. eapply mstep_inv; eauto.
Qed.

Theorem mutex_exclusive st : mreachable st ->
  (forall t1 t2 th1 th2, nth_error (mths st) t1 = Some th1 -> nth_error (mths st) t2 = Some th2 ->
     m_using th1 = true -> m_using th2 = true -> t1 = t2)
  /\ (forall t th, nth_error (mths st) t = Some th -> m_using th = true -> mlk st = Some t).
Proof.
  intros [calls [sched H]]. pose proof (mrun_inv sched _ _ (minit_inv calls) H) as [I1 I2].
  assert (A : forall t th, nth_error (mths st) t = Some th -> m_using th = true -> mlk st = Some t).
  { intros t th Ht Hu. apply (I1 t th Ht). unfold m_using in Hu. unfold m_holds. destruct (m_pc th); try discriminate; auto. }
  split; auto. intros t1 t2 th1 th2 H1 H2 U1 U2. pose proof (A _ _ H1 U1). pose proof (A _ _ H2 U2). congruence.
Qed.

(* non-vacuity and progress: a thread inside run() can always go on; a state where nobody holds the lock lets any
   waiting thread in *)
Theorem mutex_no_stuck st : mreachable st -> (exists t th, nth_error (mths st) t = Some th /\ m_pc th <> MDone) ->
  exists t st', mstep st t = Some st'.
Proof.
  intros [calls [sched H]] [t [th [Ht Hd]]]. pose proof (mrun_inv sched _ _ (minit_inv calls) H) as [I1 I2].
  destruct (mlk st) as [u|] eqn:El.
  - destruct (I2 u eq_refl) as [thu [Hu Hh]]. exists u. unfold mstep. rewrite Hu. unfold mstep_th.
    unfold m_holds in Hh. destruct (m_pc thu); try discriminate; eauto.
  - exists t. unfold mstep. rewrite Ht. unfold mstep_th. rewrite El.
    destruct (m_pc th) eqn:Hp; eauto; try congruence.
    all: exfalso; assert (m_holds th = true) by (unfold m_holds; rewrite Hp; auto); pose proof (I1 t th Ht H0); congruence.
Qed.

Lemma installed_wrappers :
  install true ThreadPool Raw = TranspilingW (BatchingMutexW Raw)
  /\ install true DaskClient Raw = TranspilingW (MutexW Raw)
  /\ (forall ex, guarded (install true ex Raw) = true)
  /\ (forall ex, install false ex Raw = TranspilingW Raw).
Proof. repeat split; intros ex; destruct ex; reflexivity. Qed.

(* the lazy-lock variant lets two threads into the wrapped primitive at once: both read None, each builds its own lock *)
Lemma lazy_lock_refuted :
  exists st th0 th1, zrun (z_init 2) [0; 1; 0; 0; 0; 0; 1; 1; 1; 1] = Some st
    /\ nth_error (z_ths st) 0 = Some th0 /\ nth_error (z_ths st) 1 = Some th1
    /\ z_using th0 = true /\ z_using th1 = true /\ z_lock th0 <> z_lock th1.
Proof.
  eexists. eexists. eexists. split; [vm_compute; reflexivity|]. repeat split; try reflexivity. cbn. discriminate.
Qed.

(* the constructor wraps what it is given: whatever wrappers were already in front of the primitive (possibly shared with
   another solver) stay in the chain, in order, below the new ones *)
Lemma install_keeps_wrappers me ex p : exists pre, chain (install me ex p) = pre ++ chain p.
Proof.
  destruct me, ex; cbn.
  - exists [TranspilingW (BatchingMutexW p); BatchingMutexW p]. reflexivity.
  - exists [TranspilingW (MutexW p); MutexW p]. reflexivity.
  - exists [TranspilingW p]. reflexivity.
  - exists [TranspilingW p]. reflexivity.
Qed.
