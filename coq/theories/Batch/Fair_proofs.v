(* Batch/Fair_proofs.v — C08_strong_fair_termination: every strongly fair run of the repaired monitor reaches a state in
   which every submitted call has returned.  (Excluded middle is used: FairBase_proofs.v, FairStag_proofs.v.) *)
From QV Require Import Common.Base Batch.Monitor Batch.ListX Batch.Inv Batch.InvNum_proofs Batch.Inv_proofs Batch.Route
  Batch.Live Batch.Live_proofs Batch.DrainMu_proofs Batch.Drain_proofs Batch.Fair Batch.FairBase_proofs Batch.FairStag_proofs.
From Coq Require Import Classical.

Section Term.
  Variables (v : variant) (calls : list (list (list pub))) (sigma : isched).
  Hypothesis He : ext_wait_timed v = true.
  Hypothesis Hf : failure_path_repaired v = true.
  Hypothesis Hfair : strongly_fair v (init_state calls) sigma.
  Notation s := (s v calls sigma).

  (* while a call is unfinished the variant decreases again *)
  Lemma decreases n : all_done (s n) = false -> exists m, n <= m /\ V (s (S m)) < V (s m).
  Proof.
    intros Ha. destruct (classic (exists m, n <= m /\ V (s (S m)) < V (s m))) as [E|No]; auto.
    exfalso. apply (stagnation_impossible v calls sigma n He Hf Hfair); auto.
    intros m Hm. pose proof (V_mono_step v calls sigma Hf m).
    destruct (Nat.eq_dec (V (s (S m))) (V (s m))); auto. exfalso. apply No. exists m. split; auto. lia.
  Qed.

  Theorem fair_run_finishes : exists n, all_done (s n) = true.
  Proof.
    assert (G : forall k n, V (s n) = k -> exists m, all_done (s m) = true).
    { induction k as [k IH] using lt_wf_ind. intros n En.
      destruct (all_done (s n)) eqn:Ha; [exists n; auto|].
      destruct (decreases n Ha) as [m [Hm Lt]].
      pose proof (V_mono v calls sigma Hf n m Hm).
      apply (IH (V (s (S m))) ltac:(lia) (S m) eq_refl). }
    apply (G (V (s 0)) 0 eq_refl).
  Qed.
End Term.

(* ------------------------------------------------------------------ every call has been answered at that point *)
Definition todo (th : thread) : list (list pub) := match t_pc th with Done => [] | _ => t_pubs th :: t_rest th end.
Definition call_book (calls : list (list (list pub))) (st : state) : Prop :=
  map (fun th => map fst (t_outs th) ++ todo th) (threads st) = calls.

Lemma map_upd {A B} (f : A -> B) n x l : map f (upd n x l) = upd n (f x) (map f l).
Proof. revert n; induction l as [|a l IH]; intros [|n]; cbn; auto. f_equal. auto. Qed.

Lemma upd_same {A} n (x : A) l : nth_error l n = Some x -> upd n x l = l.
Proof. revert n; induction l as [|a l IH]; intros [|n]; cbn; intros H; try discriminate; [inversion H; auto|f_equal; auto]. Qed.

Lemma call_book_step v calls st t c st' : call_book calls st -> step v st t c = Some st' -> call_book calls st'.
Proof.
  intros B H. unfold step in H. destruct (nth_error (threads st) t) as [th|] eqn:Hn; [|discriminate].
  destruct (step_th v (sh st) t th c) as [[s' th']|] eqn:Hs; [|discriminate]. inversion H; subst; clear H.
  unfold call_book in *. cbn. rewrite map_upd. rewrite <- B. apply upd_same.
  rewrite nth_error_map, Hn. cbn. f_equal.
  unfold step_th in Hs.
  repeat match type of Hs with
  | context [match t_pc ?th with _ => _ end] => destruct (t_pc th) eqn:Hpc
  | context [if ?b then _ else _] => destruct b eqn:?; try discriminate Hs
  | context [match ?o with Some _ => _ | None => _ end] => destruct o eqn:?; try discriminate Hs
  end; try discriminate Hs; inversion Hs; subst; clear Hs.
  all: unfold todo, finish_call; rewrite ?Hpc; cbn; try reflexivity.
  all: destruct (t_rest th); cbn; rewrite ?map_app; cbn; rewrite <- ?app_assoc; reflexivity.
Qed.

Lemma call_book_init calls : call_book calls (init_state calls).
Proof.
  unfold call_book. cbn. rewrite map_map. rewrite <- (map_id calls) at 2. apply map_ext. intros cl. destruct cl; reflexivity.
Qed.

Lemma call_book_rs v calls sigma n : call_book calls (rs v (init_state calls) sigma n).
Proof.
  induction n as [|n IH]; [apply call_book_init|]. cbn.
  destruct (step v (rs v (init_state calls) sigma n) (fst (sigma n)) (snd (sigma n))) eqn:E; auto.
  eapply call_book_step; eauto.
Qed.

Theorem strong_fair_termination v calls sigma :
  ext_wait_timed v = true -> failure_path_repaired v = true -> strongly_fair v (init_state calls) sigma ->
  exists n, all_returned calls (rs v (init_state calls) sigma n)
            /\ forall m, n <= m -> rs v (init_state calls) sigma m = rs v (init_state calls) sigma n.
Proof.
  intros He Hf Hfair. destruct (fair_run_finishes v calls sigma He Hf Hfair) as [n Hn]. exists n.
  unfold FairBase_proofs.s in Hn. set (st := rs v (init_state calls) sigma n) in *.
  assert (Dn : forall t th, nth_error (threads st) t = Some th -> t_pc th = Done).
  { intros t th Ht. unfold all_done in Hn. rewrite forallb_forall in Hn. specialize (Hn th (nth_error_In _ _ Ht)).
    unfold is_done in Hn. destruct (t_pc th); try discriminate; auto. }
  split.
  - split; auto. pose proof (call_book_rs v calls sigma n) as B. fold st in B. unfold call_book in B. rewrite <- B.
    apply map_ext_in. intros th Hin. destruct (In_nth_error _ _ Hin) as [t Ht]. unfold todo. rewrite (Dn t th Ht).
    rewrite app_nil_r. reflexivity.
  - (* nothing moves any more *)
    assert (NoStep : forall t c, step v st t c = None).
    { intros t c. unfold step. destruct (nth_error (threads st) t) as [th|] eqn:Ht; auto.
      unfold step_th. rewrite (Dn t th Ht). reflexivity. }
    intros m Hm. induction Hm as [|m Hm IH]; auto. cbn. rewrite IH. fold st. rewrite NoStep. reflexivity.
Qed.

(* ------------------------------------------------------------------ the hypotheses are satisfiable *)
Lemma done_no_step v st : all_done st = true -> forall t c, step v st t c = None.
Proof.
  intros Hd t c. unfold step. destruct (nth_error (threads st) t) as [th|] eqn:Ht; auto.
  unfold all_done in Hd. rewrite forallb_forall in Hd. specialize (Hd th (nth_error_In _ _ Ht)).
  unfold is_done in Hd. unfold step_th. destruct (t_pc th); try discriminate. reflexivity.
Qed.

(* a schedule whose run completes is strongly fair (afterwards no thread is ever enabled) *)
Lemma finished_run_fair v st0 sigma N : all_done (rs v st0 sigma N) = true -> strongly_fair v st0 sigma.
Proof.
  intros Hd t Io n. exfalso.
  assert (Eq : forall m, N <= m -> rs v st0 sigma m = rs v st0 sigma N).
  { intros m Hm. induction Hm as [|m Hm IH]; auto. cbn [rs]. cbv zeta. rewrite IH. rewrite (done_no_step v _ Hd). reflexivity. }
  destruct (Io N) as [m [Hm [c [st' E]]]]. rewrite (Eq m Hm) in E. rewrite (done_no_step v _ Hd) in E. discriminate.
Qed.

Definition demo_sigma : isched := fun n => nth n demo_sched (0, 0).

Lemma demo_fair_run :
  strongly_fair (head true) (init_state demo_calls) demo_sigma
  /\ all_returned demo_calls (rs (head true) (init_state demo_calls) demo_sigma 77).
Proof.
  assert (D : all_done (rs (head true) (init_state demo_calls) demo_sigma 77) = true) by (vm_compute; reflexivity).
  split; [apply (finished_run_fair _ _ _ 77 D)|]. split; [exact D|vm_compute; reflexivity].
Qed.
