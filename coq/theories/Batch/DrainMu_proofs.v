(* Batch/DrainMu_proofs.v — first half of C08_can_always_finish (the measure and its decrease): from every reachable state of the repaired monitor some finite schedule
   completes every call.  A natural-number measure mu strictly decreases along a suitably chosen enabled step. *)
From QV Require Import Common.Base Batch.Monitor Batch.ListX Batch.Inv Batch.InvNum_proofs Batch.Inv_proofs Batch.Route Batch.Live Batch.Live_proofs.

(* ------------------------------------------------------------------ sums over the thread list *)
Fixpoint sumf {A} (f : A -> nat) (l : list A) : nat := match l with [] => 0 | x :: r => f x + sumf f r end.

Lemma sumf_upd {A} (f : A -> nat) n (x y : A) l : nth_error l n = Some y -> sumf f (upd n x l) + f y = sumf f l + f x.
Proof.
  revert n; induction l as [|a l IH]; intros [|n]; simpl; intros H; try discriminate.
  - inversion H; subst. lia.
  - specialize (IH _ H). lia.
Qed.

Lemma sumf_le_cnt {A} (f : A -> nat) (P : A -> bool) k l : (forall x, f x <= k * b2n (P x)) -> sumf f l <= k * cnt P l.
Proof. intros H; induction l as [|a l IH]; simpl; [lia|]. specialize (H a). lia. Qed.

(* indexed count *)
Fixpoint cnti {A} (f : nat -> A -> bool) (i : nat) (l : list A) : nat :=
  match l with [] => 0 | x :: r => b2n (f i x) + cnti f (S i) r end.

Lemma cnti_upd {A} (f : nat -> A -> bool) i n (x y : A) l :
  nth_error l n = Some y -> cnti f i (upd n x l) + b2n (f (i + n) y) = cnti f i l + b2n (f (i + n) x).
Proof.
  revert i n; induction l as [|a l IH]; intros i [|n]; simpl; intros H; try discriminate.
  - inversion H; subst. rewrite Nat.add_0_r. lia.
  - specialize (IH (S i) _ H). replace (i + S n) with (S i + n) by lia. lia.
Qed.

Lemma cnti_le {A} (f g : nat -> A -> bool) i l :
  (forall j x, nth_error l j = Some x -> f (i + j) x = true -> g (i + j) x = true) -> cnti f i l <= cnti g i l.
Proof.
  revert i; induction l as [|a l IH]; intros i H; simpl; [lia|].
  assert (b2n (f i a) <= b2n (g i a)).
  { specialize (H 0 a eq_refl). rewrite Nat.add_0_r in H. destruct (f i a); simpl; [rewrite H; auto|lia]. }
  assert (cnti f (S i) l <= cnti g (S i) l).
  { apply IH. intros j x Hj. specialize (H (S j) x Hj). replace (i + S j) with (S i + j) in H by lia. auto. }
  lia.
Qed.

Lemma cnti_ext {A} (f g : nat -> A -> bool) i l :
  (forall j x, nth_error l j = Some x -> f (i + j) x = g (i + j) x) -> cnti f i l = cnti g i l.
Proof.
  intros H. apply Nat.le_antisymm; apply cnti_le; intros j x Hj E; [rewrite <- H|rewrite H]; auto.
Qed.

Lemma cnti_ge {A} (f : nat -> A -> bool) i l n x : nth_error l n = Some x -> b2n (f (i + n) x) <= cnti f i l.
Proof.
  revert i n; induction l as [|a l IH]; intros i [|n] H; simpl in *; try discriminate.
  - inversion H; subst. rewrite Nat.add_0_r. lia.
  - specialize (IH (S i) n H). replace (i + S n) with (S i + n) by lia. lia.
Qed.

(* ------------------------------------------------------------------ the measure *)
Definition calls_left (th : thread) : nat := match t_pc th with Done => 0 | _ => S (length (t_rest th)) end.

Definition base (p : pc) : nat :=
  match p with
  | Done => 0 | C5 => 1 | C4 => 2 | C3 => 3 | C2 => 4 | C1 => 5 | C0 => 13
  | R0 | R1 | R2 | R3 | R4 | R5 | R6 | R7 => 14
  | H4 => 30 | H3 => 31 | H2 => 32 | H1 => 33 | H0 => 60
  | N5 => 61 | N4 => 62 | N3 => 90 | N2 => 91 | N1 => 92
  | X4 => 93 | X3 => 94 | X2 => 95 | X1 => 96
  | G0 => 130 | S0 => 131 | E6 => 132 | E5 => 133 | E4 => 134 | E3 => 135 | E2 => 136
  | E1 => 170 | E0 => 171 | F5 => 172 | F4 => 173 | F3 => 174 | F2 => 175 | F1 => 176
  end.

(* position inside the executor's polling loop; the cut of the cycle depends on whether a member is waiting *)
Definition posR (w : nat) (p : pc) : nat :=
  match p with
  | R1 => match w with O => 8 | S _ => 6 end
  | R2 => match w with O => 7 | S _ => 5 end
  | R3 => match w with O => 6 | S _ => 4 end
  | R4 => match w with O => 5 | S _ => 3 end
  | R5 => match w with O => 4 | S _ => 2 end
  | R6 => match w with O => 3 | S _ => 1 end
  | R7 => match w with O => 2 | S _ => 8 end
  | R0 => match w with O => 1 | S _ => 7 end
  | _ => 0
  end.

Definition pAtE1 (th : thread) : bool := match t_pc th with E1 => true | _ => false end.
Definition isN4 (th : thread) : bool := match t_pc th with N4 => true | _ => false end.
Definition pR (th : thread) : bool := match t_pc th with R0 | R1 | R2 | R3 | R4 | R5 | R6 | R7 => true | _ => false end.

(* members waiting for the notification *)
Definition waiting (q : list tid) (ths : list thread) : nat := cnti (fun i th => isN4 th && memq i q) 0 ths.

Definition w1 (th : thread) : nat := calls_left th * 200 + base (t_pc th).

Definition mu (st : state) : nat :=
  let s := sh st in let ths := threads st in
  let w := waiting (wqI s) ths in
  sumf w1 ths + (if free (lkV s) then 0 else 7) * cnt pAtE1 ths + 8 * w + sumf (fun th => posR w (t_pc th)) ths.

(* ------------------------------------------------------------------ how `waiting` changes *)
Definition dummy : thread :=
  {| t_pc := Done; t_pubs := []; t_bidx := 0; t_exec := false; t_res := None; t_exc := None; t_rest := []; t_outs := [] |}.

Lemma waiting_split q ths t th : nth_error ths t = Some th ->
  waiting q ths = waiting q (upd t dummy ths) + b2n (isN4 th && memq t q).
Proof.
  intros H. unfold waiting. pose proof (cnti_upd (fun i th => isN4 th && memq i q) 0 t dummy th ths H) as E.
  cbn in E. lia.
Qed.

Lemma waiting_join q ths t th th' : nth_error ths t = Some th ->
  waiting q (upd t th' ths) = waiting q (upd t dummy ths) + b2n (isN4 th' && memq t q).
Proof.
  intros H. assert (H' : nth_error (upd t th' ths) t = Some th') by (eapply nth_error_upd_eq; eauto).
  rewrite (waiting_split q _ t th' H'). f_equal. f_equal.
  clear H'. revert t H. induction ths as [|a l IH]; intros [|t] H; cbn in *; try discriminate; auto. f_equal. eauto.
Qed.

Lemma waiting_others_le q q' ths t th : nth_error ths t = Some th ->
  (forall i thi, i <> t -> nth_error ths i = Some thi -> isN4 thi = true -> memq i q' = true -> memq i q = true) ->
  waiting q' (upd t dummy ths) <= waiting q (upd t dummy ths).
Proof.
  intros H Hs. unfold waiting. apply cnti_le. intros j x Hj E. cbn in *.
  rewrite (nth_error_upd _ _ _ _ _ H) in Hj. destruct (Nat.eqb_spec t j) as [<-|Hne].
  - inversion Hj; subst. cbn in E. discriminate.
  - apply andb_true_iff in E as [E1 E2]. rewrite E1. cbn. apply (Hs j x); auto.
Qed.

Lemma waiting_others_eq q q' ths t th : nth_error ths t = Some th ->
  (forall i thi, i <> t -> nth_error ths i = Some thi -> isN4 thi = true -> memq i q' = memq i q) ->
  waiting q' (upd t dummy ths) = waiting q (upd t dummy ths).
Proof.
  intros H Hs. apply Nat.le_antisymm.
  - apply (waiting_others_le q q' ths t th H). intros i thi A B C D. rewrite <- (Hs i thi); auto.
  - apply (waiting_others_le q' q ths t th H). intros i thi A B C D. rewrite (Hs i thi); auto.
Qed.

Lemma waiting_others_lt q q' ths t th u thu : nth_error ths t = Some th ->
  (forall i thi, i <> t -> nth_error ths i = Some thi -> isN4 thi = true -> memq i q' = true -> memq i q = true) ->
  u <> t -> nth_error ths u = Some thu -> isN4 thu = true -> memq u q = true -> memq u q' = false ->
  waiting q' (upd t dummy ths) + 1 <= waiting q (upd t dummy ths).
Proof.
  intros H Hs Hne Hu Hn Hq Hq'.
  assert (Hu' : nth_error (upd t dummy ths) u = Some thu) by (rewrite nth_error_upd_neq; auto).
  rewrite (waiting_split q _ u thu Hu'), (waiting_split q' _ u thu Hu'). rewrite Hn, Hq, Hq'. cbn.
  assert (waiting q' (upd u dummy (upd t dummy ths)) <= waiting q (upd u dummy (upd t dummy ths))); [|lia].
  unfold waiting. apply cnti_le. intros j x Hj E. cbn in *.
  rewrite (nth_error_upd _ _ _ _ _ Hu') in Hj. destruct (Nat.eqb_spec u j) as [<-|Hnj].
  - inversion Hj; subst. cbn in E. discriminate.
  - rewrite (nth_error_upd _ _ _ _ _ H) in Hj. destruct (Nat.eqb_spec t j) as [<-|Hnt].
    + inversion Hj; subst. cbn in E. discriminate.
    + apply andb_true_iff in E as [E1 E2]. rewrite E1. cbn. apply (Hs j x); auto.
Qed.

(* ------------------------------------------------------------------ NoDup of the internal wait queue *)
Lemma NoDup_remq t q : NoDup q -> NoDup (remq t q).
Proof.
  induction 1 as [|a q Ha Hq IH]; cbn; [constructor|]. destruct (Nat.eqb t a); auto. constructor; auto.
  rewrite In_remq. tauto.
Qed.

Lemma NoDup_remove_nth c q : NoDup q -> NoDup (remove_nth c q).
Proof.
  intros H; revert c; induction H as [|a q Ha Hq IH]; intros [|c]; cbn; try constructor; auto.
  intros Hin. apply In_remove_nth in Hin. contradiction.
Qed.

Lemma NoDup_snoc (t : nat) q : NoDup q -> ~ In t q -> NoDup (q ++ [t]).
Proof.
  induction 1 as [|a q Ha Hq IH]; cbn; intros Hn.
  - constructor; auto. constructor.
  - constructor.
    + intros Hin. apply in_app_or in Hin. destruct Hin as [Hin|[Hin|[]]]; [contradiction|subst; tauto].
    + apply IH. tauto.
Qed.

Lemma nodup_step v st t c st' : failure_path_repaired v = true -> Inv st -> NoDup (wqI (sh st)) ->
  step v st t c = Some st' -> NoDup (wqI (sh st')).
Proof.
  intros Hf HI Hn H. destruct st as [s ths]. unfold step in H. cbn in *.
  destruct (nth_error ths t) as [th|] eqn:Hnth; [|discriminate].
  destruct (step_th v s t th c) as [[s' th']|] eqn:Hst; [|discriminate].
  inversion H; subst; clear H. cbn.
  assert (Hnot : (t_pc th = N3 \/ t_pc th = R2) -> ~ In t (wqI s)).
  { intros Hp Hin. destruct (inv_wqI _ HI t Hin) as [th0 [A B]]. cbn in A. assert (th0 = th) by congruence. subst.
    destruct Hp as [Hp|Hp], B as [B|B]; congruence. }
  unfold step_th in Hst. rewrite ?Hf in Hst. break_step Hst; cbn; auto.
  all: try (apply NoDup_snoc; auto; fail).
  all: try match goal with W : wait_end _ _ _ _ _ = Some _ |- _ =>
         unfold wait_end in W; destruct (free _); [|discriminate]; destruct (memq _ _); [destruct (_ && _); [|discriminate]|];
         inversion W; subst; auto using NoDup_remq end.
  all: try match goal with W : notify_one _ _ = Some _ |- _ =>
         unfold notify_one in W; destruct (wqI s) eqn:Eq; [inversion W; constructor|]; destruct (_ <? _); [|discriminate];
         inversion W; subst; apply NoDup_remove_nth; auto end.
Qed.

Lemma memq_app_other i t q : i <> t -> memq i (q ++ [t]) = memq i q.
Proof.
  intros H. unfold memq. rewrite existsb_app. cbn. destruct (Nat.eqb_spec i t); [contradiction|]. rewrite orb_false_r. reflexivity.
Qed.

Lemma memq_iff_eq i q q' : (In i q' <-> In i q) -> memq i q' = memq i q.
Proof.
  intros H. destruct (memq i q') eqn:A, (memq i q) eqn:B; auto.
  - apply memq_In in A. apply H in A. apply memq_In in A. congruence.
  - apply memq_In in B. apply H in B. apply memq_In in B. congruence.
Qed.

Lemma memq_false_notin i q : memq i q = false <-> ~ In i q.
Proof. rewrite <- memq_In. destruct (memq i q); split; congruence. Qed.

Section WaitingStep.
  Variables (v : variant) (s s' : shared) (ths : list thread) (t : tid) (th th' : thread) (c : nat).
  Hypothesis Hf : failure_path_repaired v = true.
  Hypothesis HI : Inv {| sh := s; threads := ths |}.
  Hypothesis Hnd : NoDup (wqI s).
  Hypothesis Hnth : nth_error ths t = Some th.
  Hypothesis Hst : step_th v s t th c = Some (s', th').

  Let W := waiting (wqI s) ths.
  Let W' := waiting (wqI s') (upd t th' ths).

  Lemma waiting_step_plain : t_pc th <> N3 -> t_pc th <> H2 -> t_pc th <> R6 -> W' = W.
  Proof.
    intros A1 A2 A3. unfold W, W'. rewrite (waiting_split _ _ _ _ Hnth), (waiting_join _ _ _ _ th' Hnth).
    unfold step_th in Hst. rewrite ?Hf in Hst. break_step Hst; try congruence.
    all: unfold isN4; rewrite ?Hpc; fin; cbn [wqI set_lkE set_lkV set_I set_X set_enter set_count set_fbegin set_fend set_gather set_reset t_pc set_pc set_bidx set_exec set_got andb b2n].
    all: try reflexivity.
    - (* N4 *) match goal with X : wait_end false _ _ _ _ = Some _ |- _ => destruct (wait_end_untimed _ _ _ _ _ X) as [-> Hn] end.
      apply memq_false_notin in Hn. rewrite Hn. cbn. lia.
    - (* R2 *) rewrite (waiting_others_eq (wqI s) (wqI s ++ [t]) _ _ _ Hnth); [cbn; lia|].
      intros i thi Hi _ _. apply memq_app_other; auto.
    - (* R3 *) match goal with X : wait_end true _ ?q _ _ = Some ?l |- _ => rewrite (waiting_others_eq q l _ _ _ Hnth); [cbn; lia|];
        intros i thi Hi _ _; apply memq_iff_eq; apply (wait_end_other _ _ _ _ _ _ i X); auto end.
  Qed.

  Lemma waiting_step_N3 : t_pc th = N3 -> W' = W + 1.
  Proof.
    intros A. unfold W, W'. rewrite (waiting_split _ _ _ _ Hnth), (waiting_join _ _ _ _ th' Hnth).
    unfold step_th in Hst. rewrite A in Hst. inversion Hst; subst. unfold isN4. rewrite A. cbn [wqI set_I t_pc set_pc andb b2n].
    assert (memq t (wqI s ++ [t]) = true) as -> by (apply memq_In; apply in_or_app; right; left; auto).
    cbn [andb b2n]. rewrite (waiting_others_eq (wqI s) (wqI s ++ [t]) _ _ _ Hnth); [lia|].
    intros i thi Hi _ _. apply memq_app_other; auto.
  Qed.

  Lemma waiting_step_notify : (t_pc th = H2 \/ t_pc th = R6) -> c = 0 ->
    W' <= W /\ (t_pc th = R6 -> 1 <= W -> W' + 1 <= W).
  Proof.
    intros A ->. unfold W, W'. rewrite (waiting_split _ _ _ _ Hnth), (waiting_join _ _ _ _ th' Hnth).
    assert (Hq : wqI s' = tl (wqI s) /\ (t_pc th' = H3 \/ t_pc th' = R7)).
    { unfold step_th in Hst. destruct A as [A|A]; rewrite A in Hst; unfold notify_one in Hst; destruct (wqI s) eqn:Eq; cbn in Hst; inversion Hst; subst; cbn; auto. }
    destruct Hq as [Hq Hp']. rewrite Hq.
    assert (N1 : isN4 th = false) by (unfold isN4; destruct A as [A|A]; rewrite A; auto).
    assert (N2 : isN4 th' = false) by (unfold isN4; destruct Hp' as [B|B]; rewrite B; auto).
    rewrite N1, N2. cbn. rewrite !Nat.add_0_r.
    assert (Sub : forall i thi, i <> t -> nth_error ths i = Some thi -> isN4 thi = true -> memq i (tl (wqI s)) = true -> memq i (wqI s) = true).
    { intros i thi _ _ _ E. apply memq_In in E. apply memq_In. destruct (wqI s); cbn in *; auto. }
    split; [apply (waiting_others_le _ _ _ _ _ Hnth Sub)|].
    intros AR HW.
    (* the head of the queue is a member at N4 and disappears from the queue *)
    destruct (wqI s) as [|u q] eqn:Eq.
    { exfalso.
      assert (waiting [] (upd t dummy ths) = 0); [|lia].
      unfold waiting. assert (cnti (fun i th => isN4 th && memq i []) 0 (upd t dummy ths) <= cnti (fun _ _ => false) 0 (upd t dummy ths)).
      { apply cnti_le. intros j x _ E. rewrite andb_false_r in E. discriminate. }
      assert (forall l i, cnti (fun (_ : nat) (_ : thread) => false) i l = 0) by (induction l; intros; cbn; auto). rewrite H0 in H. lia. }
    destruct (inv_wqI _ HI u) as [thu [Hu Hpu]]; [cbn; rewrite Eq; left; auto|]. cbn in Hu.
    assert (Hne : u <> t).
    { intros ->. assert (thu = th) by congruence. subst. destruct Hpu; congruence. }
    assert (HN4 : t_pc thu = N4).
    { destruct Hpu as [B|B]; auto. exfalso.
      (* two executors in the polling loop *)
      pose proof (cnt_ge_two pXb ths t u th thu (not_eq_sym Hne) Hnth Hu) as G. unfold pXb at 1 2 in G. rewrite AR, B in G. cbn in G.
      pose proof (inv_one _ HI). cbn in *. lia. }
    cbn [tl]. apply (waiting_others_lt (u :: q) q ths t th u thu Hnth).
    - intros i thi _ _ _ E. apply memq_In in E. apply memq_In. right. auto.
    - exact Hne.
    - exact Hu.
    - unfold isN4. rewrite HN4. auto.
    - apply memq_In. left. auto.
    - apply memq_false_notin. inversion Hnd; auto.
  Qed.
End WaitingStep.

(* ------------------------------------------------------------------ the polling-loop position term *)
Definition PR (w : nat) (l : list thread) : nat := sumf (fun th => posR w (t_pc th)) l.

Lemma posR_switch w w' p : posR w' p <= posR w p + 7.
Proof. destruct p, w, w'; cbn; lia. Qed.
Lemma posR_pR w th : posR w (t_pc th) <= 8 * b2n (pR th).
Proof. unfold pR. destruct (t_pc th), w; cbn; lia. Qed.
Lemma posR_same w w' p : (w = 0 <-> w' = 0) -> posR w' p = posR w p.
Proof. intros H. destruct w, w'; auto; exfalso; destruct H as [H1 H2]; try (discriminate (H1 eq_refl)); discriminate (H2 eq_refl). Qed.

Lemma PR_le w l : PR w l <= 8 * cnt pR l.
Proof. unfold PR. apply sumf_le_cnt. intros x. apply posR_pR. Qed.
Lemma PR_same w w' l : (w = 0 <-> w' = 0) -> PR w' l = PR w l.
Proof. intros H. unfold PR. induction l; cbn; auto. rewrite IHl. rewrite (posR_same w w' _ H). auto. Qed.
Lemma PR_switch w w' l : PR w' l <= PR w l + 7 * cnt pR l.
Proof.
  unfold PR. induction l as [|a l IH]; cbn; [lia|].
  assert (posR w' (t_pc a) <= posR w (t_pc a) + 7 * b2n (pR a)).
  { unfold pR. destruct (t_pc a), w, w'; cbn; lia. }
  lia.
Qed.

Lemma PR_unique w l t th : cnt pR l <= 1 -> nth_error l t = Some th -> pR th = true -> PR w l = posR w (t_pc th).
Proof.
  intros H1 H2 H3. pose proof (sumf_upd (fun th => posR w (t_pc th)) t dummy th l H2) as E. cbn in E.
  pose proof (cnt_upd pR t dummy th l H2) as C. rewrite H3 in C. cbn in C.
  pose proof (PR_le w (upd t dummy l)) as B. unfold PR in *. lia.
Qed.

Lemma cnt_imp {A} (P Q : A -> bool) l : (forall x, P x = true -> Q x = true) -> cnt P l <= cnt Q l.
Proof. intros H; induction l as [|a l IH]; cbn; [lia|]. specialize (H a). destruct (P a); cbn; [rewrite H; auto; cbn; lia|lia]. Qed.

Lemma cnt_unique_le_one {A} (P : A -> bool) l :
  (forall n m x y, nth_error l n = Some x -> nth_error l m = Some y -> P x = true -> P y = true -> n = m) -> cnt P l <= 1.
Proof.
  induction l as [|a l IH]; cbn; intros H; [lia|].
  assert (cnt P l <= 1) by (apply IH; intros n m x y Ha Hb Hc Hd; specialize (H (S n) (S m) x y Ha Hb Hc Hd); lia).
  destruct (P a) eqn:E; cbn; [|lia].
  destruct (cnt P l) as [|k] eqn:Ec; [lia|]. exfalso.
  destruct (cnt_pos_ex P l) as [j [x [Ha Hb]]]; [lia|]. specialize (H 0 (S j) a x eq_refl Ha E Hb). discriminate.
Qed.

(* ------------------------------------------------------------------ one well-chosen step decreases mu *)
Section MuStep.
  Variables (v : variant) (s s' : shared) (ths : list thread) (t : tid) (th th' : thread) (c : nat).
  Hypothesis Hf : failure_path_repaired v = true.
  Hypothesis HI : Inv {| sh := s; threads := ths |}.
  Hypothesis Hnd : NoDup (wqI s).
  Hypothesis Hnth : nth_error ths t = Some th.
  Hypothesis Hst : step_th v s t th c = Some (s', th').
  (* what the drain policy guarantees about the step it picks *)
  Hypothesis PE0 : t_pc th = E0 -> lkV s = None.
  Hypothesis PR0 : t_pc th = R0 -> 0 < tc s -> 1 <= waiting (wqI s) ths.
  Hypothesis PNot : t_pc th = H2 \/ t_pc th = R6 -> c = 0.

  Lemma atE1_le_one : cnt pAtE1 ths <= 1.
  Proof.
    apply cnt_unique_le_one. intros n m x y A B C D. destruct (inv_E _ HI) as [L _]. cbn in L.
    assert (holdsE x = true) by (unfold holdsE, pAtE1 in *; destruct (t_pc x); try discriminate; auto).
    assert (holdsE y = true) by (unfold holdsE, pAtE1 in *; destruct (t_pc y); try discriminate; auto).
    pose proof (L n x A H). pose proof (L m y B H0). congruence.
  Qed.

  Lemma pR_le_one : cnt pR ths <= 1.
  Proof.
    pose proof (inv_one _ HI) as I1. cbn in I1.
    assert (cnt pR ths <= cnt pXb ths); [|lia].
    apply cnt_imp. intros x. unfold pR, pXb. destruct (t_pc x); cbn; auto; discriminate.
  Qed.

  Lemma mu_step : mu {| sh := s'; threads := upd t th' ths |} < mu {| sh := s; threads := ths |}.
  Proof.
    unfold mu. cbn [sh threads].
    pose proof atE1_le_one as U1. pose proof pR_le_one as U2.
    pose proof (waiting_step_plain v s s' ths t th th' c Hf HI Hnd Hnth Hst) as W2.
    pose proof (waiting_step_N3 v s s' ths t th th' c Hnth Hst) as W1.
    pose proof (waiting_step_notify v s s' ths t th th' c HI Hnd Hnth Hst) as W3.
    set (W := waiting (wqI s) ths) in *. set (W' := waiting (wqI s') (upd t th' ths)) in *.
    fold (PR W' (upd t th' ths)). fold (PR W ths).
    pose proof (sumf_upd w1 t th' th ths Hnth) as S1.
    pose proof (cnt_upd pAtE1 t th' th ths Hnth) as S2. pose proof (cnt_ge_b2n pAtE1 ths t th Hnth) as G2.
    pose proof (sumf_upd (fun th => posR W' (t_pc th)) t th' th ths Hnth) as S4. fold (PR W' (upd t th' ths)) in S4. fold (PR W' ths) in S4.
    pose proof (PR_switch W W' ths) as S5. pose proof (PR_same W W' ths) as S5b.
    pose proof (cnt_ge_b2n pR ths t th Hnth) as G5.
    pose proof (fun w => PR_unique w ths t th U2 Hnth) as S6.
    pose proof (PR_le W ths) as S7. pose proof (PR_le W' ths) as S7'.
    clearbody W W'. clear HI Hnd.
    unfold step_th in Hst. rewrite ?Hf in Hst.
    break_step Hst.
    all: unfold w1, calls_left, pAtE1, pR in *; rewrite ?Hpc in *; fin; cbn [base t_pc set_pc set_bidx set_exec set_got b2n posR lkV set_lkE set_lkV set_I set_X set_enter set_count set_fbegin set_fend set_gather set_reset free t_rest length] in *.
    all: try (specialize (W2 ltac:(discriminate) ltac:(discriminate) ltac:(discriminate))).
    all: try (specialize (W1 eq_refl)).
    all: try (specialize (W3 ltac:(auto) (PNot ltac:(auto)))).
    all: try (specialize (PE0 eq_refl)); try (specialize (PR0 eq_refl)).
    all: try (pose proof (S6 W eq_refl) as S6a; pose proof (S6 W' eq_refl) as S6b).
    all: repeat match goal with H : (_ <? _) = true |- _ => apply Nat.ltb_lt in H | H : (_ <? _) = false |- _ => apply Nat.ltb_ge in H end.
    all: unfold free in *; repeat match goal with H : match ?x with _ => _ end = _ |- _ => destruct x eqn:?; try discriminate end.
    all: try match goal with H : lkV _ = None |- _ => rewrite H in * end.
    all: repeat match goal with
           | |- context [match ?w with O => _ | S _ => _ end] => destruct w
           | H : context [match ?w with O => _ | S _ => _ end] |- _ => destruct w
           end.
    all: try lia.
    all: destruct W3 as [W3a W3b]; specialize (W3b eq_refl);
         pose proof (S6 (S W) eq_refl); pose proof (S6 (S W') eq_refl); cbn in *; lia.
  Qed.
End MuStep.

