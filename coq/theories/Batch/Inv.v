(* Batch/Inv.v — the invariant of the batching monitor (definitions; proofs in Inv_proofs.v).
   Everything is phrased per thread (pc -> fact about the shared state) or as a count of threads per phase, so that
   preservation is a case analysis over the program counter of the stepping thread plus linear arithmetic. *)
From QV Require Import Common.Base Batch.Monitor Batch.ListX.
From Coq Require Import Permutation.

(* ------------------------------------------------------------------ which program counters hold which lock *)
Definition pcE (p : pc) (ex : bool) : bool :=
  match p with
  | E1 | E2 | F1 | X2 | X3 | X4 | R0 | R1 | R2 | R3 | R4 | R5 | R6 | R7 | C0 | C1 | C2 => true
  | H0 | H1 | H2 | H3 | H4 => ex
  | _ => false
  end.
Definition pcV (p : pc) : bool :=
  match p with E2 | E3 | X1 | X2 | X3 | X4 | N1 | H1 | H2 | H3 | H4 | C1 => true | _ => false end.
Definition pcI (p : pc) : bool :=
  match p with N3 | N5 | H2 | H3 | R2 | R4 | R6 | R7 => true | _ => false end.
Definition pcX (p : pc) : bool :=
  match p with E5 | E6 | F3 | F5 | C4 | C5 => true | _ => false end.

Definition holdsE (th : thread) : bool := pcE (t_pc th) (t_exec th).
Definition holdsV (th : thread) : bool := pcV (t_pc th).
Definition holdsI (th : thread) : bool := pcI (t_pc th).
Definition holdsX (th : thread) : bool := pcX (t_pc th).

(* (L) owner = Some t  iff  t is at a program counter that holds the lock *)
Definition lock_ok (lk : option tid) (holds : thread -> bool) (ths : list thread) : Prop :=
  (forall u thu, nth_error ths u = Some thu -> holds thu = true -> lk = Some u)
  /\ (forall u, lk = Some u -> exists thu, nth_error ths u = Some thu /\ holds thu = true).

(* ------------------------------------------------------------------ phases of a thread within a batch *)
(* entered the batch, not yet counted *)
Definition pcEnt (p : pc) : bool := match p with E2 | E3 | E4 | E5 | E6 | S0 | G0 => true | _ => false end.
(* counted, has not yet gathered *)
Definition pcCnt (p : pc) : bool :=
  match p with X1 | X2 | X3 | X4 | N1 | N2 | N3 | N4 | N5 | H0 => true | _ => false end.
(* the executor before the result is known *)
Definition pcXa (p : pc) : bool := match p with X1 | X2 | X3 => true | _ => false end.
(* the executor from the moment the result is known until it resets the shared fields *)
Definition pcXb (p : pc) (ex : bool) : bool :=
  match p with
  | X4 | R0 | R1 | R2 | R3 | R4 | R5 | R6 | R7 | C0 => true
  | H0 | H1 | H2 | H3 | H4 => ex
  | _ => false
  end.
(* the argument was handed to the primitive, the shared fields are not yet reset *)
Definition pcHanded (p : pc) (ex : bool) : bool := match p with X3 => true | _ => pcXb p ex end.
(* has taken its copy of result/exception (H0 done), still inside run() *)
Definition pcGot (p : pc) : bool :=
  match p with
  | H1 | H2 | H3 | H4 | R0 | R1 | R2 | R3 | R4 | R5 | R6 | R7 | C0 | C1 | C2 | C3 | C4 | C5 => true
  | _ => false
  end.
(* not yet in the batch: the pubs of the current call have not been appended *)
Definition pcPre (p : pc) : bool := match p with E0 | E1 | F1 | F2 | F3 | F4 | F5 => true | _ => false end.

Definition pEnt (th : thread) := pcEnt (t_pc th).
Definition pCnt (th : thread) := pcCnt (t_pc th).
Definition pXa (th : thread) := pcXa (t_pc th).
Definition pXb (th : thread) := pcXb (t_pc th) (t_exec th).
Definition pHanded (th : thread) := pcHanded (t_pc th) (t_exec th).
Definition pAt3 (th : thread) : bool := match t_pc th with X3 => true | _ => false end.
Definition pX12 (th : thread) : bool := match t_pc th with X1 | X2 => true | _ => false end.

(* the local `executor` flag agrees with the branch the thread is in *)
Definition exec_ok (th : thread) : Prop :=
  (pcXa (t_pc th) = true \/ t_pc th = X4 -> t_exec th = true)
  /\ (t_pc th = N1 \/ t_pc th = N2 \/ t_pc th = N3 \/ t_pc th = N4 \/ t_pc th = N5 -> t_exec th = false).

Definition ready (s : shared) : bool := match res s, exc s with None, None => false | _, _ => true end.

(* ------------------------------------------------------------------ what a finished (or gathered) call holds *)
(* the call with argument `pubs` that got `o` was part of invocation k, at offset idx, and o says how k ended *)
Definition out_good (lg : list (list pub * bool)) (pubs : list pub) (o : outcome) : Prop :=
  match o with
  | RetOk k idx => exists arg, nth_error lg k = Some (arg, true) /\ slice_at arg idx pubs
  | RetExc k idx => exists arg, nth_error lg k = Some (arg, false) /\ slice_at arg idx pubs
  | RetValueError => False
  end.

(* pubs submitted by a thread that have not yet been appended to a batch *)
Definition pending_th (th : thread) : list pub :=
  (if pcPre (t_pc th) then t_pubs th else []) ++ concat (t_rest th).
Definition pending (ths : list thread) : list pub := concat (map pending_th ths).
Definition open_pubs (s : shared) : list pub := if handed s then [] else bpubs s.
Definition inflight_pubs (s : shared) : list pub := match inflight s with Some a => a | None => [] end.
Definition logged (s : shared) : list pub := concat (map fst (log s)).
(* everything the threads of a state will ever submit, plus what they already got answers for *)
Definition answered_th (th : thread) : list pub := concat (map fst (t_outs th)).

(* per-thread facts *)
Definition th_ok (s : shared) (u : tid) (th : thread) : Prop :=
  (* C0 is reached only after every member has gathered *)
  (t_pc th = C0 -> tc s = 0)
  (* a member that was woken, and everybody who is gathering, sees a result or an exception *)
  /\ (t_pc th = N5 \/ t_pc th = H0 \/ t_pc th = H1 \/ t_pc th = H2 \/ t_pc th = H3 \/ t_pc th = H4 -> ready s = true)
  /\ (t_pc th = N4 -> ~ In u (wqI s) -> ready s = true)
  (* members of the open batch know their slot *)
  /\ (pcEnt (t_pc th) = true \/ pcCnt (t_pc th) = true -> slice_at (bpubs s) (t_bidx th) (t_pubs th))
  (* what a thread took at H0 is the outcome of an invocation that contained its pubs *)
  /\ (pcGot (t_pc th) = true -> out_good (log s) (t_pubs th) (outcome_of th))
  (* finished calls *)
  /\ (forall po, In po (t_outs th) -> out_good (log s) (fst po) (snd po))
  (* between f-begin and f-end the primitive works on the open batch *)
  /\ (t_pc th = X3 -> inflight s = Some (bpubs s))
  /\ exec_ok th
  (* a finished thread has nothing left *)
  /\ (t_pc th = Done -> t_rest th = [] /\ t_pubs th = []).

Record Inv (st : state) : Prop := {
  inv_E : lock_ok (lkE (sh st)) holdsE (threads st);
  inv_V : lock_ok (lkV (sh st)) holdsV (threads st);
  inv_I : lock_ok (lkI (sh st)) holdsI (threads st);
  inv_X : lock_ok (lkX (sh st)) holdsX (threads st);
  inv_tc : tc (sh st) = cnt pEnt (threads st) + cnt pCnt (threads st);
  inv_ec : b2n (ready (sh st)) = 0 -> ec (sh st) = cnt pCnt (threads st);
  inv_one : cnt pXa (threads st) + cnt pXb (threads st) <= 1;
  inv_noent : 1 <= cnt pXa (threads st) + cnt pXb (threads st) -> cnt pEnt (threads st) = 0;
  inv_ready : b2n (ready (sh st)) = cnt pXb (threads st);   (* result/exception set iff the (one) executor is gathering *)
  inv_exec : b2n (ready (sh st)) = 0 -> cnt pEnt (threads st) = 0 -> 0 < cnt pCnt (threads st) -> 1 <= cnt pXa (threads st);
  inv_handed : b2n (handed (sh st)) = cnt pHanded (threads st);
  inv_inflight : cnt pAt3 (threads st) = 0 -> inflight (sh st) = None;
  inv_res : forall k, res (sh st) = Some k -> nth_error (log (sh st)) k = Some (bpubs (sh st), true);
  inv_exc : forall k, exc (sh st) = Some k -> res (sh st) = None /\ nth_error (log (sh st)) k = Some (bpubs (sh st), false);
  inv_blen : blen (sh st) = length (bpubs (sh st));
  inv_idle : cnt pEnt (threads st) + cnt pCnt (threads st) + cnt pXb (threads st) = 0 -> bpubs (sh st) = [];
  inv_wqI : forall u, In u (wqI (sh st)) -> exists th, nth_error (threads st) u = Some th /\ (t_pc th = N4 \/ t_pc th = R3);
  inv_wqX : forall u, In u (wqX (sh st)) -> exists th, nth_error (threads st) u = Some th /\ t_pc th = F4;
  inv_th : forall u th, nth_error (threads st) u = Some th -> th_ok (sh st) u th
}.
