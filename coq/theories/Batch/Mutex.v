(* Batch/Mutex.v — MutexSampler.run / MutexEstimator.run (mutex_primitives.py): `with self._lock: return primitive.run(...)`
   as a transition system.  Definitions only.
     M0 acquire the lock (blocking)   M1 the wrapped primitive's run() is entered
     M2 the wrapped primitive's run() returns   M3 release the lock -> next call / finished *)
From QV Require Import Common.Base.

Inductive mpc : Type := M0 | M1 | M2 | M3 | MDone.

Record mthread : Type := { m_pc : mpc; m_rest : nat (* calls after the current one *); m_made : nat (* calls finished *) }.
Record mstate : Type := { mlk : option nat; mths : list mthread }.

Definition m_set_pc (th : mthread) (p : mpc) : mthread := {| m_pc := p; m_rest := m_rest th; m_made := m_made th |}.
Definition m_finish (th : mthread) : mthread :=
  match m_rest th with
  | O => {| m_pc := MDone; m_rest := 0; m_made := S (m_made th) |}
  | S r => {| m_pc := M0; m_rest := r; m_made := S (m_made th) |}
  end.
Definition m_new (calls : nat) : mthread :=
  match calls with O => {| m_pc := MDone; m_rest := 0; m_made := 0 |} | S r => {| m_pc := M0; m_rest := r; m_made := 0 |} end.
Definition m_init (calls : list nat) : mstate := {| mlk := None; mths := map m_new calls |}.

Definition mstep_th (lk : option nat) (t : nat) (th : mthread) : option (option nat * mthread) :=
  match m_pc th with
  | M0 => match lk with None => Some (Some t, m_set_pc th M1) | Some _ => None end
  | M1 => Some (lk, m_set_pc th M2)
  | M2 => Some (lk, m_set_pc th M3)
  | M3 => Some (None, m_finish th)
  | MDone => None
  end.

Fixpoint mupd {A} (n : nat) (x : A) (l : list A) : list A :=
  match l, n with
  | [], _ => []
  | _ :: r, O => x :: r
  | a :: r, S m => a :: mupd m x r
  end.

Definition mstep (st : mstate) (t : nat) : option mstate :=
  match nth_error (mths st) t with
  | None => None
  | Some th => match mstep_th (mlk st) t th with
               | None => None
               | Some (lk', th') => Some {| mlk := lk'; mths := mupd t th' (mths st) |}
               end
  end.

Fixpoint mrun (st : mstate) (sched : list nat) : option mstate :=
  match sched with
  | [] => Some st
  | t :: r => match mstep st t with None => None | Some st' => mrun st' r end
  end.

Definition mreachable (st : mstate) : Prop := exists calls sched, mrun (m_init calls) sched = Some st.

(* the wrapped primitive's run() is in progress in this thread *)
Definition m_using (th : mthread) : bool := match m_pc th with M2 => true | _ => false end.
(* the thread holds the lock *)
Definition m_holds (th : mthread) : bool := match m_pc th with M1 | M2 | M3 => true | _ => false end.

(* encoding compared with the implementation: lock owner, then per thread (pc code, enabled, calls finished) *)
Definition m_pc_code (p : mpc) : nat := match p with M0 => 1 | M1 => 2 | M2 => 3 | M3 => 4 | MDone => 0 end.
Definition m_enabled (lk : option nat) (t : nat) (th : mthread) : nat :=
  match mstep_th lk t th with Some _ => 1 | None => 0 end.
Fixpoint m_enc_ths (lk : option nat) (t : nat) (l : list mthread) : list nat :=
  match l with
  | [] => []
  | th :: r => m_pc_code (m_pc th) :: m_enabled lk t th :: m_made th :: m_enc_ths lk (S t) r
  end.
Definition m_enc (st : mstate) : list nat :=
  (match mlk st with None => 0 | Some t => S t end) :: m_enc_ths (mlk st) 0 (mths st).

Fixpoint mtrace (st : mstate) (sched : list nat) : list (list nat) :=
  match sched with
  | [] => []
  | t :: r => match mstep st t with None => [[]] | Some st' => m_enc st' :: mtrace st' r end
  end.

(* ------------------------------------------------------------------ what the solver's constructor installs
   (EvolvingAnsatzMinimumEigensolver.__init__): with mutually_exclusive_primitives and a ThreadPoolExecutor the raw
   primitive is wrapped in a BatchingMutex wrapper, with a dask Client in a plain Mutex wrapper; the transpiling
   wrapper always goes on top. *)
Inductive executor_kind : Type := ThreadPool | DaskClient.
Inductive prim : Type := Raw | MutexW (p : prim) | BatchingMutexW (p : prim) | TranspilingW (p : prim).
Definition install (mutually_exclusive : bool) (ex : executor_kind) (p : prim) : prim :=
  TranspilingW (if mutually_exclusive
                then match ex with ThreadPool => BatchingMutexW p | DaskClient => MutexW p end
                else p).
(* some mutual-exclusion wrapper sits between the evaluators and the raw primitive *)
Fixpoint guarded (p : prim) : bool :=
  match p with Raw => false | MutexW _ | BatchingMutexW _ => true | TranspilingW q => guarded q end.
