(* Batch/Mutex.v — MutexSampler.run / MutexEstimator.run (mutex_primitives.py): `with self._lock: return primitive.run(...)`
   as a transition system.  Definitions only.
     M0 acquire the lock (blocking)   M1 the wrapped primitive's run() is entered
     M2 the wrapped primitive's run() returns   M3 release the lock -> next call / finished *)
From QV Require Import Common.Base.

Inductive mpc : Type := M0 | M1 | M2 | M3 | MDone.

Record mthread : Type := { m_pc : mpc; m_rest : nat (* calls after the current one *); m_made : nat (* calls finished *) }.
Record mstate : Type := { mlk : option nat; mths : list mthread }.

Definition m_set_pc (th : mthread) (p : mpc) : mthread := {| m_pc := p; m_rest := m_rest th; m_made := m_made th |}.
Definition m_finish (th : mthread) : mthread :=
  match m_rest th with
  | O => {| m_pc := MDone; m_rest := 0; m_made := S (m_made th) |}
  | S r => {| m_pc := M0; m_rest := r; m_made := S (m_made th) |}
  end.
Definition m_new (calls : nat) : mthread :=
  match calls with O => {| m_pc := MDone; m_rest := 0; m_made := 0 |} | S r => {| m_pc := M0; m_rest := r; m_made := 0 |} end.
Definition m_init (calls : list nat) : mstate := {| mlk := None; mths := map m_new calls |}.

Definition mstep_th (lk : option nat) (t : nat) (th : mthread) : option (option nat * mthread) :=
  match m_pc th with
  | M0 => match lk with None => Some (Some t, m_set_pc th M1) | Some _ => None end
  | M1 => Some (lk, m_set_pc th M2)
  | M2 => Some (lk, m_set_pc th M3)
  | M3 => Some (None, m_finish th)
  | MDone => None
  end.

Fixpoint mupd {A} (n : nat) (x : A) (l : list A) : list A :=
  match l, n with
  | [], _ => []
  | _ :: r, O => x :: r
  | a :: r, S m => a :: mupd m x r
  end.

Definition mstep (st : mstate) (t : nat) : option mstate :=
  match nth_error (mths st) t with
  | None => None
  | Some th => match mstep_th (mlk st) t th with
               | None => None
               | Some (lk', th') => Some {| mlk := lk'; mths := mupd t th' (mths st) |}
               end
  end.

Fixpoint mrun (st : mstate) (sched : list nat) : option mstate :=
  match sched with
  | [] => Some st
  | t :: r => match mstep st t with None => None | Some st' => mrun st' r end
  end.

Definition mreachable (st : mstate) : Prop := exists calls sched, mrun (m_init calls) sched = Some st.

(* the wrapped primitive's run() is in progress in this thread *)
Definition m_using (th : mthread) : bool := match m_pc th with M2 => true | _ => false end.
(* the thread holds the lock *)
Definition m_holds (th : mthread) : bool := match m_pc th with M1 | M2 | M3 => true | _ => false end.

(* encoding compared with the implementation: lock owner, then per thread (pc code, enabled, calls finished) *)
Definition m_pc_code (p : mpc) : nat := match p with M0 => 1 | M1 => 2 | M2 => 3 | M3 => 4 | MDone => 0 end.
Definition m_enabled (lk : option nat) (t : nat) (th : mthread) : nat :=
  match mstep_th lk t th with Some _ => 1 | None => 0 end.
Fixpoint m_enc_ths (lk : option nat) (t : nat) (l : list mthread) : list nat :=
  match l with
  | [] => []
  | th :: r => m_pc_code (m_pc th) :: m_enabled lk t th :: m_made th :: m_enc_ths lk (S t) r
  end.
Definition m_enc (st : mstate) : list nat :=
  (match mlk st with None => 0 | Some t => S t end) :: m_enc_ths (mlk st) 0 (mths st).

Fixpoint mtrace (st : mstate) (sched : list nat) : list (list nat) :=
  match sched with
  | [] => []
  | t :: r => match mstep st t with None => [[]] | Some st' => m_enc st' :: mtrace st' r end
  end.

(* ------------------------------------------------------------------ what the solver's constructor installs
   (EvolvingAnsatzMinimumEigensolver.__init__): with mutually_exclusive_primitives and a ThreadPoolExecutor the raw
   primitive is wrapped in a BatchingMutex wrapper, with a dask Client in a plain Mutex wrapper; the transpiling
   wrapper always goes on top. *)
Inductive executor_kind : Type := ThreadPool | DaskClient.
Inductive prim : Type := Raw | MutexW (p : prim) | BatchingMutexW (p : prim) | TranspilingW (p : prim).
Definition install (mutually_exclusive : bool) (ex : executor_kind) (p : prim) : prim :=
  TranspilingW (if mutually_exclusive
                then match ex with ThreadPool => BatchingMutexW p | DaskClient => MutexW p end
                else p).
(* some mutual-exclusion wrapper sits between the evaluators and the raw primitive *)
Fixpoint guarded (p : prim) : bool :=
  match p with Raw => false | MutexW _ | BatchingMutexW _ => true | TranspilingW q => guarded q end.

(* ------------------------------------------------------------------ the lazy-lock variant (seeded mutation C07-m1)
   `_lock` starts as None and is created on the first run() by an unsynchronised check-then-act:
       lock = self._lock;  if lock is None: lock = self._lock = SerializableLock();  with lock: primitive.run(...)
     Z0 read the field   Z1 construct a lock (only if the read gave None)   Z2 store it in the field
     Z3 acquire the lock the thread holds in its local   Z4 run() entered   Z5 run() returns   Z6 release *)
Inductive zpc : Type := Z0 | Z1 | Z2 | Z3 | Z4 | Z5 | Z6 | ZDone.
Record zthread : Type := { z_pc : zpc; z_lock : option nat (* local `lock`: index of a lock object *) }.
Record zstate : Type := { z_field : option nat; z_owners : list (option nat); z_ths : list zthread }.

Definition z_init (n : nat) : zstate :=
  {| z_field := None; z_owners := []; z_ths := repeat {| z_pc := Z0; z_lock := None |} n |}.

Definition zstep (st : zstate) (t : nat) : option zstate :=
  match nth_error (z_ths st) t with
  | None => None
  | Some th =>
      let upd_th th' := mupd t th' (z_ths st) in
      match z_pc th with
      | Z0 => Some {| z_field := z_field st; z_owners := z_owners st;
                      z_ths := upd_th {| z_pc := match z_field st with None => Z1 | Some _ => Z3 end; z_lock := z_field st |} |}
      | Z1 => Some {| z_field := z_field st; z_owners := z_owners st ++ [None];
                      z_ths := upd_th {| z_pc := Z2; z_lock := Some (length (z_owners st)) |} |}
      | Z2 => Some {| z_field := z_lock th; z_owners := z_owners st; z_ths := upd_th {| z_pc := Z3; z_lock := z_lock th |} |}
      | Z3 => match z_lock th with
              | Some l => match nth_error (z_owners st) l with
                          | Some None => Some {| z_field := z_field st; z_owners := mupd l (Some t) (z_owners st);
                                                 z_ths := upd_th {| z_pc := Z4; z_lock := z_lock th |} |}
                          | _ => None
                          end
              | None => None
              end
      | Z4 => Some {| z_field := z_field st; z_owners := z_owners st; z_ths := upd_th {| z_pc := Z5; z_lock := z_lock th |} |}
      | Z5 => Some {| z_field := z_field st; z_owners := z_owners st; z_ths := upd_th {| z_pc := Z6; z_lock := z_lock th |} |}
      | Z6 => match z_lock th with
              | Some l => Some {| z_field := z_field st; z_owners := mupd l None (z_owners st);
                                  z_ths := upd_th {| z_pc := ZDone; z_lock := z_lock th |} |}
              | None => None
              end
      | ZDone => None
      end
  end.

Fixpoint zrun (st : zstate) (sched : list nat) : option zstate :=
  match sched with [] => Some st | t :: r => match zstep st t with None => None | Some st' => zrun st' r end end.

Definition z_using (th : zthread) : bool := match z_pc th with Z5 => true | _ => false end.

(* the chain of wrappers from the object handed to the evaluators down to the raw primitive *)
Fixpoint chain (p : prim) : list prim :=
  p :: match p with Raw => [] | MutexW q | BatchingMutexW q | TranspilingW q => chain q end.
