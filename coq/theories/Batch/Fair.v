(* Batch/Fair.v — infinite schedules, strong fairness, and what C08_strong_fair_termination says (definitions). *)
From QV Require Import Common.Base Batch.Monitor.

(* an infinite schedule: at time n thread fst (sigma n) is offered the processor with environment choice snd (sigma n) *)
Definition isched : Type := nat -> tid * nat.

(* the run: a pick whose operation is not enabled (with that choice) is skipped (the state stutters) *)
Fixpoint rs (v : variant) (st0 : state) (sigma : isched) (n : nat) : state :=
  match n with
  | O => st0
  | S k => let s := rs v st0 sigma k in
           match step v s (fst (sigma k)) (snd (sigma k)) with Some s' => s' | None => s end
  end.

(* thread t can take a step in st for some choice of the environment *)
Definition enabled (v : variant) (st : state) (t : tid) : Prop := exists c st', step v st t c = Some st'.

(* at time n thread t takes a step *)
Definition taken (v : variant) (st0 : state) (sigma : isched) (n : nat) (t : tid) : Prop :=
  fst (sigma n) = t /\ step v (rs v st0 sigma n) t (snd (sigma n)) <> None.

(* strong fairness: a thread that is enabled infinitely often takes a step infinitely often.  Because a step needs an
   admissible choice, this also says: a timed wait that is offered the processor infinitely often eventually gets the
   timeout choice, a notify eventually gets an in-range waiter, and the primitive's result() eventually comes back. *)
Definition strongly_fair (v : variant) (st0 : state) (sigma : isched) : Prop :=
  forall t, (forall n, exists m, n <= m /\ enabled v (rs v st0 sigma m) t) ->
            forall n, exists m, n <= m /\ taken v st0 sigma m t.

(* every thread has made all its calls and got an answer for each *)
Definition all_returned (calls : list (list (list pub))) (st : state) : Prop :=
  all_done st = true /\ map (fun th => map fst (t_outs th)) (threads st) = calls.
