(* Batch/Inv_proofs.v — the invariant Inv (Batch/Inv.v) holds initially and is preserved by every step of the repaired failure path,
   hence holds in every reachable state of any number of threads, calls and schedule (reachable_inv). *)
From QV Require Import Common.Base Batch.Monitor Batch.ListX Batch.Inv Batch.InvNum_proofs.
From Coq Require Import Permutation.

Section Step.
  Variables (v : variant) (s s' : shared) (ths : list thread) (t : tid) (th th' : thread) (c : nat).
  Hypothesis Hf : failure_path_repaired v = true.
  Hypothesis HI : Inv {| sh := s; threads := ths |}.
  Hypothesis Hnth : nth_error ths t = Some th.
  Hypothesis Hst : step_th v s t th c = Some (s', th').

  Definition Dat (s : shared) (ths : list thread) : Prop :=
    (forall k, res s = Some k -> nth_error (log s) k = Some (bpubs s, true))
    /\ (forall k, exc s = Some k -> res s = None /\ nth_error (log s) k = Some (bpubs s, false))
    /\ blen s = length (bpubs s)
    /\ (cnt pEnt ths + cnt pCnt ths + cnt pXb ths = 0 -> bpubs s = []).

  Lemma dat_step : Dat s' (upd t th' ths).
  Proof.
    pose proof (thok_t s ths t th HI Hnth) as [T1 [T2 [_ [_ [_ [_ [T7 [[T8 T9] _]]]]]]]].
    pose proof (E1_no_exec s ths t th HI Hnth) as HE1.
    destruct HI as [_ _ _ _ Itc Iec Ione Inoent Irdy Iexec Ihanded Iinfl Ires Iexc Iblen Iidle _ _ _]. cbn in *.
    pose proof (cnt_upd pEnt t th' th ths Hnth) as CE. pose proof (cnt_ge_b2n pEnt ths t th Hnth) as GE.
    pose proof (cnt_upd pCnt t th' th ths Hnth) as CC. pose proof (cnt_ge_b2n pCnt ths t th Hnth) as GC.
    pose proof (cnt_upd pXa t th' th ths Hnth) as CXa. pose proof (cnt_ge_b2n pXa ths t th Hnth) as GXa.
    pose proof (cnt_upd pXb t th' th ths Hnth) as CXb. pose proof (cnt_ge_b2n pXb ths t th Hnth) as GXb.
    clear HI Iec Iexec Ihanded Iinfl.
    unfold Dat. unfold step_th in Hst. rewrite ?Hf in Hst.
    break_step Hst.
    all: unfold pEnt, pCnt, pXa, pXb in *; rewrite ?Hpc in *; fin; cbn in *.
    all: try (rewrite T8 in * by (cbn; auto)); try (rewrite T9 in * by (cbn; tauto)).
    all: try match goal with H : t_exec _ = _ |- _ => rewrite H in * end.
    all: try (assert (Hr : ready s = true) by (apply T2; tauto); rewrite Hr in * ).
    all: cbn [b2n] in *.
    all: try (specialize (T1 eq_refl)).
    all: try (specialize (HE1 eq_refl)); unfold free in *; dm; try (specialize (HE1 eq_refl)).
    all: try (split; [intros k Hk; apply Ires; exact Hk | split; [intros k Hk; apply Iexc; exact Hk | split; [exact Iblen | intros Hz; apply Iidle; lia]]]; fail).
    - (* E1, both locks taken *)
      assert (Hr : ready s = false) by (apply ready_b2n_false; lia).
      destruct (ready_false _ Hr) as [R1 R2].
      split; [intros k Hk; congruence|]. split; [intros k Hk; congruence|].
      split; [rewrite app_length; lia|]. intros Hz. lia.
    - (* X3, the job ends *)
      assert (Hr : ready s = false) by (apply ready_b2n_false; lia).
      destruct (ready_false _ Hr) as [R1 R2]. rewrite (T7 eq_refl). rewrite R2.
      destruct (negb (c =? 1)).
      + split; [intros k Hk; inversion Hk; subst; apply nth_error_snoc|].
        split; [intros k Hk; discriminate|]. split; [exact Iblen|]. intros Hz. lia.
      + split; [intros k Hk; discriminate|].
        split; [intros k Hk; inversion Hk; subst; split; auto; apply nth_error_snoc|].
        split; [exact Iblen|]. intros Hz. lia.
    - (* C0, reset *)
      split; [intros k Hk; discriminate|]. split; [intros k Hk; discriminate|]. auto.
  Qed.

  Lemma out_good_app lg e pubs o : out_good lg pubs o -> out_good (lg ++ [e]) pubs o.
  Proof.
    destruct o; cbn; auto; intros [arg [H1 H2]]; exists arg; split; auto; apply nth_error_app_some; auto.
  Qed.

  Lemma thok_other u thu : u <> t -> nth_error ths u = Some thu -> th_ok s' u thu.
  Proof.
    intros Hne Hu.
    pose proof (thok_t s ths t th HI Hnth) as [T1 [T2 [T3 [T4 [T5 [T6 [T7 [[T8 T9] T10]]]]]]]].
    pose proof (E1_no_exec s ths t th HI Hnth) as HE1.
    assert (Hok : th_ok s u thu) by (destruct HI; cbn in *; auto).
    destruct HI as [_ [LV _] _ _ Itc _ Ione Inoent Irdy _ _ _ _ _ _ _ _ _ _]. cbn in *.
    assert (Hne' : t <> u) by congruence.
    pose proof (cnt_ge_two pEnt ths t u th thu Hne' Hnth Hu) as GE.
    pose proof (cnt_ge_two pCnt ths t u th thu Hne' Hnth Hu) as GC.
    pose proof (cnt_ge_two pXa ths t u th thu Hne' Hnth Hu) as GXa.
    pose proof (cnt_ge_two pXb ths t u th thu Hne' Hnth Hu) as GXb.
    pose proof (LV u thu Hu) as LVu. clear LV HI.
    unfold step_th in Hst. rewrite ?Hf in Hst.
    break_step Hst.
    all: try (exact Hok).
    all: unfold pEnt, pCnt, pXa, pXb, holdsV in *; rewrite ?Hpc in *; cbn [pcEnt pcCnt pcXa pcXb b2n] in *.
    all: destruct Hok as [K1 [K2 [K3 [K4 [K5 [K6 [K7 [K8 K9]]]]]]]].
    all: unfold th_ok; cbn; rd.
    all: (split; [|split; [|split; [|split; [|split; [|split; [|split; [|split; [exact K8|exact K9]]]]]]]]).
    all: try assumption.
    all: unfold free in *; dm; try (specialize (HE1 eq_refl eq_refl)); try (specialize (T1 eq_refl)).
    (* E1 *)
    - intros E. rewrite E in *. cbn in *. lia.
    - intros E. apply slice_at_app. auto.
    - intros E. rewrite E in *. cbn in *. lia.
    (* X2 *)
    - auto.
    (* X3 *)
    - auto.
    - auto.
    - intros E. apply out_good_app. auto.
    - intros po Hpo. apply out_good_app. auto.
    - intros E. rewrite E in *. cbn in *. lia.
    (* N3 *)
    - intros E1' E2. apply K3; auto. intros E3. apply E2. apply in_or_app. auto.
    (* N4 *)
    - intros E1' E2. apply K3; auto. intros E3. apply E2.
      match goal with W : wait_end _ _ _ _ _ = Some _ |- _ => apply (wait_end_other _ _ _ _ _ _ u W) end; try auto.
    (* H0 *)
    - intros E. rewrite (K1 E). auto.
    (* H2 *)
    - intros E1' E2. apply T2. auto 10.
    (* R2 *)
    - intros E1' E2. apply K3; auto. intros E3. apply E2. apply in_or_app. auto.
    (* R3 *)
    - intros E1' E2. apply K3; auto. intros E3. apply E2.
      match goal with W : wait_end _ _ _ _ _ = Some _ |- _ => apply (wait_end_other _ _ _ _ _ _ u W) end; try auto.
    (* R6 *)
    - intros E1' E2. destruct (ready s) eqn:Hr; auto. cbn in *. lia.
    (* C0 *)
    - auto.
    - intros E. exfalso. destruct E as [E|[E|E]]; try (rewrite E in *; cbn in *; lia).
      assert (pcV (t_pc thu) = true) by (destruct E as [E|[E|[E|E]]]; rewrite E; auto).
      specialize (LVu H). congruence.
    - intros E. rewrite E in *. cbn in *. lia.
    - intros E. exfalso. destruct (pcEnt (t_pc thu)), (pcCnt (t_pc thu)); cbn in *; try lia; try (destruct E; discriminate).
    - intros E. rewrite E in *. cbn in *. lia.
  Qed.

  Lemma thok_self : th_ok s' t th'.
  Proof.
    pose proof (thok_t s ths t th HI Hnth) as [T1 [T2 [T3 [T4 [T5 [T6 [T7 [[T8 T9] T10]]]]]]]].
    destruct HI as [_ _ _ _ Itc _ Ione Inoent Irdy _ _ _ Ires Iexc Iblen _ _ _ _]. cbn in *.
    pose proof (cnt_ge_b2n pXb ths t th Hnth) as GXb.
    clear HI.
    unfold step_th in Hst. rewrite ?Hf in Hst.
    break_step Hst.
    all: unfold pXb in *; rewrite ?Hpc in *; fin; cbn [pcXb b2n] in *.
    all: unfold th_ok, exec_ok; cbn; rd.
    all: (split; [|split; [|split; [|split; [|split; [|split; [|split; [|split; [split|]]]]]]]]).
    all: try (intros E; discriminate E).
    all: try (intros E; repeat destruct E as [E|E]; discriminate E).
    all: try (intros E; exact (T4 E)).
    all: try (intros E; exact (T5 E)).
    all: try exact T6.
    all: try (intros E; apply T2; tauto).
    all: try (intros _; apply T8; cbn; auto; fail).
    all: try (intros _; apply T9; cbn; tauto).
    all: try (intros _; auto; fail).
    all: try (intros po Hp; apply in_app_or in Hp; destruct Hp as [Hp|[Hp|[]]]; [apply T6; auto| subst po; cbn; apply T5; auto]; fail).
    - intros _. rewrite Iblen. apply slice_at_end.
    - intros po Hp. apply out_good_app. apply T6; auto.
    - intros _. destruct (ready s) eqn:Hr; auto. cbn in *. lia.
    - intros _ E. exfalso. apply E. apply in_or_app. right. left. auto.
    - intros _. apply T3; auto.
      match goal with W : wait_end false _ _ _ _ = Some _ |- _ => apply wait_end_untimed in W; tauto end.
    - intros _. assert (Hr : ready s = true) by (apply T2; tauto).
      assert (Hs : slice_at (bpubs s) (t_bidx th) (t_pubs th)) by (apply T4; cbn; auto).
      unfold outcome_of. cbn. destruct (res s) as [k|] eqn:Er.
      + cbn. exists (bpubs s). split; auto.
      + destruct (exc s) as [k|] eqn:Ee.
        * cbn. exists (bpubs s). split; auto. apply Iexc; auto.
        * exfalso. Transparent ready. unfold ready in Hr. rewrite Er, Ee in Hr. discriminate. Opaque ready.
    - intros _. destruct (tc s'); [auto|discriminate].
  Qed.

  Lemma wq_step :
    (forall u, In u (wqI s') -> exists thu, nth_error (upd t th' ths) u = Some thu /\ (t_pc thu = N4 \/ t_pc thu = R3))
    /\ (forall u, In u (wqX s') -> exists thu, nth_error (upd t th' ths) u = Some thu /\ t_pc thu = F4).
  Proof.
    destruct HI as [_ _ _ _ _ _ _ _ _ _ _ _ _ _ _ _ IwI IwX _]. cbn in *.
    assert (AI : forall u, In u (wqI s') -> (u <> t /\ In u (wqI s)) \/ (u = t /\ (t_pc th' = N4 \/ t_pc th' = R3))).
    { intros u Hu. destruct (Nat.eq_dec u t) as [->|Hne]; [right; split; auto|left; split; auto].
      - assert (B : In t (wqI s) -> False).
        { intros B. destruct (IwI t B) as [th0 [B1 B2]]. rewrite Hnth in B1. inversion B1; subst th0.
          unfold step_th in Hst. destruct B2 as [B2|B2]; rewrite B2 in Hst.
          - destruct (wait_end false (lkI s) (wqI s) t c) eqn:W; [|discriminate]. inversion Hst; subst. cbn in Hu.
            apply (wait_end_notin _ _ _ _ _ _ W Hu).
          - destruct (wait_end true (lkI s) (wqI s) t c) eqn:W; [|discriminate]. inversion Hst; subst. cbn in Hu.
            apply (wait_end_notin _ _ _ _ _ _ W Hu). }
        unfold step_th in Hst. rewrite ?Hf in Hst. break_step Hst; fin; cbn in *; auto; try (exfalso; apply B; auto; fail).
        all: try (exfalso; apply B; eauto using wait_end_sub, notify_one_In; fail).
        all: try (apply in_app_or in Hu; destruct Hu as [Hu|Hu]; [exfalso; auto|auto]).
      - unfold step_th in Hst. rewrite ?Hf in Hst. break_step Hst; fin; cbn in *; auto; eauto using wait_end_sub, notify_one_In.
        all: try (apply in_app_or in Hu; destruct Hu as [Hu|[Hu|[]]]; [auto|congruence]). }
    assert (AX : forall u, In u (wqX s') -> (u <> t /\ In u (wqX s)) \/ (u = t /\ t_pc th' = F4)).
    { intros u Hu. destruct (Nat.eq_dec u t) as [->|Hne]; [right; split; auto|left; split; auto].
      - assert (B : In t (wqX s) -> False).
        { intros B. destruct (IwX t B) as [th0 [B1 B2]]. rewrite Hnth in B1. inversion B1; subst th0.
          unfold step_th in Hst. rewrite B2 in Hst.
          destruct (wait_end (ext_wait_timed v) (lkX s) (wqX s) t c) eqn:W; [|discriminate]. inversion Hst; subst. cbn in Hu.
          apply (wait_end_notin _ _ _ _ _ _ W Hu). }
        unfold step_th in Hst. rewrite ?Hf in Hst. break_step Hst; fin; cbn in *; auto; try contradiction; try (exfalso; apply B; auto; fail).
        all: try (exfalso; apply B; eauto using wait_end_sub, notify_one_In; fail).
        all: try (apply in_app_or in Hu; destruct Hu as [Hu|Hu]; [exfalso; auto|auto]).
      - unfold step_th in Hst. rewrite ?Hf in Hst. break_step Hst; fin; cbn in *; auto; eauto using wait_end_sub, notify_one_In; try contradiction.
        all: try (apply in_app_or in Hu; destruct Hu as [Hu|[Hu|[]]]; [auto|congruence]). }
    split; intros u Hu.
    - destruct (AI u Hu) as [[Hne Hin]|[-> Hp]].
      + destruct (IwI u Hin) as [thu [B1 B2]]. exists thu. split; auto. rewrite nth_error_upd_neq; auto.
      + exists th'. split; auto. eapply nth_error_upd_eq; eauto.
    - destruct (AX u Hu) as [[Hne Hin]|[-> Hp]].
      + destruct (IwX u Hin) as [thu [B1 B2]]. exists thu. split; auto. rewrite nth_error_upd_neq; auto.
      + exists th'. split; auto. eapply nth_error_upd_eq; eauto.
  Qed.
End Step.

(* ------------------------------------------------------------------ the invariant holds in every reachable state *)
Theorem step_inv v st t c st' :
  failure_path_repaired v = true -> Inv st -> step v st t c = Some st' -> Inv st'.
Proof.
  intros Hf HI H. destruct st as [s ths]. unfold step in H. cbn in H.
  destruct (nth_error ths t) as [th|] eqn:Hnth; [|discriminate].
  destruct (step_th v s t th c) as [[s' th']|] eqn:Hst; [|discriminate].
  inversion H; subst; clear H.
  pose proof (num_step v s s' ths t th th' c Hf HI Hnth Hst) as [N1 [N2 [N3 [N4 [N5 [N6 [N7 N8]]]]]]].
  pose proof (dat_step v s s' ths t th th' c Hf HI Hnth Hst) as [D1 [D2 [D3 D4]]].
  pose proof (wq_step v s s' ths t th th' c Hf HI Hnth Hst) as [W1 W2].
  pose proof (thok_t s ths t th HI Hnth) as [_ [_ [_ [_ [_ [_ [_ [Tex _]]]]]]]].
  pose proof (inv_E _ HI) as LE. pose proof (inv_V _ HI) as LV. pose proof (inv_I _ HI) as LI. pose proof (inv_X _ HI) as LX.
  cbn in LE, LV, LI, LX.
  constructor; cbn; auto.
  - apply (lock_ok_step holdsE ths t th th' Hnth _ _ LE). eapply move_E; eauto.
  - apply (lock_ok_step holdsV ths t th th' Hnth _ _ LV). eapply move_V; eauto.
  - apply (lock_ok_step holdsI ths t th th' Hnth _ _ LI). eapply move_I; eauto.
  - apply (lock_ok_step holdsX ths t th th' Hnth _ _ LX). eapply move_X; eauto.
  - intros u thu Hu. rewrite (nth_error_upd _ _ _ _ _ Hnth) in Hu.
    destruct (Nat.eqb_spec t u) as [<-|Hne].
    + inversion Hu; subst. eapply thok_self; eauto.
    + apply (thok_other v s s' ths t th th' c Hf HI Hnth Hst u thu); [congruence|auto].
Qed.

Lemma new_thread_pc calls : t_pc (new_thread calls) = E0 \/ t_pc (new_thread calls) = Done.
Proof. destruct calls; cbn; auto. Qed.

Lemma init_inv calls : Inv (init_state calls).
Proof.
  assert (P0 : forall (P : thread -> bool), (forall th, (t_pc th = E0 \/ t_pc th = Done) -> P th = false) ->
               cnt P (map new_thread calls) = 0).
  { intros P HP. apply cnt_map_new. intros a. apply HP. apply new_thread_pc. }
  assert (L0 : forall holds : thread -> bool, (forall th, (t_pc th = E0 \/ t_pc th = Done) -> holds th = false) ->
               lock_ok None holds (map new_thread calls)).
  { intros holds Hh. split; [|intros u Hu; discriminate].
    intros u thu Hu Hx. apply nth_error_In in Hu. apply in_map_iff in Hu. destruct Hu as [cl [<- _]].
    rewrite Hh in Hx; [discriminate|apply new_thread_pc]. }
  assert (ZE : cnt pEnt (map new_thread calls) = 0) by (apply P0; intros th [E|E]; unfold pEnt; rewrite E; auto).
  assert (ZC : cnt pCnt (map new_thread calls) = 0) by (apply P0; intros th [E|E]; unfold pCnt; rewrite E; auto).
  assert (ZA : cnt pXa (map new_thread calls) = 0) by (apply P0; intros th [E|E]; unfold pXa; rewrite E; auto).
  assert (ZB : cnt pXb (map new_thread calls) = 0) by (apply P0; intros th [E|E]; unfold pXb; rewrite E; auto).
  assert (ZH : cnt pHanded (map new_thread calls) = 0) by (apply P0; intros th [E|E]; unfold pHanded; rewrite E; auto).
  constructor; cbn; rewrite ?ZE, ?ZC, ?ZA, ?ZB, ?ZH; auto; try lia; try discriminate; try contradiction.
  - apply L0. intros th [E|E]; unfold holdsE; rewrite E; auto.
  - apply L0. intros th [E|E]; unfold holdsV; rewrite E; auto.
  - apply L0. intros th [E|E]; unfold holdsI; rewrite E; auto.
  - apply L0. intros th [E|E]; unfold holdsX; rewrite E; auto.
  - intros u th Hu. apply nth_error_In in Hu. apply in_map_iff in Hu. destruct Hu as [cl [<- _]].
    unfold th_ok, exec_ok. destruct cl as [|p r]; cbn; repeat split; try (intros E; discriminate E);
      try (intros E; repeat destruct E as [E|E]; discriminate E); try contradiction; auto; try discriminate.
Qed.

Lemma run_inv v sched : failure_path_repaired v = true -> forall st st', Inv st -> run v st sched = Some st' -> Inv st'.
Proof.
  intros Hf. induction sched as [|[t c] r IH]; intros st st' HI H; cbn in H.
  - inversion H; subst; auto.
  - destruct (step v st t c) as [st1|] eqn:E; [|discriminate]. eapply IH; [|exact H]. eapply step_inv; eauto.
Qed.

Theorem reachable_inv v st : failure_path_repaired v = true -> reachable v st -> Inv st.
Proof. intros Hf [calls [sched H]]. eapply run_inv; eauto. apply init_inv. Qed.
