From QV Require Import Common.Base Batch.Monitor Batch.ListX Batch.Inv.
From Coq Require Import Permutation.

(* Batch/InvNum_proofs.v — preservation of the lock (L) and counting parts of the invariant by every step. *)
(* case analysis of one thread step: one goal per program counter and guard outcome *)
Ltac break_step H :=
  unfold step_th in H;
  repeat match type of H with
  | context [match t_pc ?th with _ => _ end] => destruct (t_pc th) eqn:Hpc
  | context [if ?b then _ else _] => destruct b eqn:?; try discriminate H
  | context [match ?o with Some _ => _ | None => _ end] => destruct o eqn:?; try discriminate H
  end;
  try discriminate H; inversion H; subst; clear H.

Section LockStep.
  Variables (holds : thread -> bool) (ths : list thread) (t : tid) (th th' : thread).
  Hypothesis Hnth : nth_error ths t = Some th.

  Definition lock_move (lk lk' : option tid) : Prop :=
    (lk' = lk /\ holds th' = holds th)
    \/ (lk = None /\ lk' = Some t /\ holds th' = true)
    \/ (holds th = true /\ lk' = None /\ holds th' = false).

  Lemma lock_ok_step lk lk' : lock_ok lk holds ths -> lock_move lk lk' -> lock_ok lk' holds (upd t th' ths).
  Proof.
    intros [L1 L2] M. split.
    - intros u thu Hu Hh. rewrite (nth_error_upd _ _ _ _ _ Hnth) in Hu.
      destruct (Nat.eqb_spec t u) as [<-|Hne].
      + inversion Hu; subst thu. destruct M as [[-> M]|[[_ [-> _]]|[_ [_ M]]]]; auto.
        * apply (L1 t th Hnth). congruence.
        * congruence.
      + pose proof (L1 u thu Hu Hh) as Hl. destruct M as [[-> _]|[[M _]|[M _]]]; auto.
        * congruence.
        * pose proof (L1 t th Hnth M). congruence.
    - intros u Hu. destruct (Nat.eq_dec t u) as [<-|Hne].
      + exists th'. split; [eapply nth_error_upd_eq; eauto|].
        destruct M as [[-> M]|[[_ [_ M]]|[_ [M _]]]]; auto; try congruence.
        destruct (L2 t Hu) as [thu [H1 H2]]. congruence.
      + destruct M as [[-> _]|[[_ [M _]]|[_ [M _]]]]; try congruence.
        destruct (L2 u Hu) as [thu [H1 H2]]. exists thu. split; auto. rewrite nth_error_upd_neq; auto.
  Qed.
End LockStep.

Ltac fin := unfold finish_call in *; repeat match goal with |- context [match t_rest ?th with _ => _ end] => destruct (t_rest th) eqn:? end; cbn in *.

Ltac dm := repeat match goal with H : match ?x with _ => _ end = _ |- _ => destruct x eqn:?; try discriminate end.

Lemma move_E v s t th c s' th' : failure_path_repaired v = true -> exec_ok th ->
  step_th v s t th c = Some (s', th') -> lock_move holdsE t th th' (lkE s) (lkE s').
Proof.
  intros Hf [X1 X2] H. unfold lock_move, holdsE. unfold step_th in H. rewrite ?Hf in H.
  break_step H; rewrite ?Hpc in *; fin; unfold free in *; dm;
    try (rewrite X1 by (cbn; auto)); try (rewrite X2 by (cbn; tauto)); try match goal with H : t_exec _ = _ |- _ => rewrite H end; auto.
Qed.

Lemma move_V v s t th c s' th' : failure_path_repaired v = true ->
  step_th v s t th c = Some (s', th') -> lock_move holdsV t th th' (lkV s) (lkV s').
Proof.
  intros Hf H. unfold lock_move, holdsV. unfold step_th in H. rewrite ?Hf in H.
  break_step H; rewrite ?Hpc in *; fin; unfold free in *; dm; auto.
Qed.

Lemma move_I v s t th c s' th' : failure_path_repaired v = true ->
  step_th v s t th c = Some (s', th') -> lock_move holdsI t th th' (lkI s) (lkI s').
Proof.
  intros Hf H. unfold lock_move, holdsI. unfold step_th in H. rewrite ?Hf in H.
  break_step H; rewrite ?Hpc in *; fin; unfold free in *; dm;
    try match goal with H : wait_end _ _ _ _ _ = Some _ |- _ => apply wait_end_free in H end; cbn; auto.
Qed.

Lemma move_X v s t th c s' th' : failure_path_repaired v = true ->
  step_th v s t th c = Some (s', th') -> lock_move holdsX t th th' (lkX s) (lkX s').
Proof.
  intros Hf H. unfold lock_move, holdsX. unfold step_th in H. rewrite ?Hf in H.
  break_step H; rewrite ?Hpc in *; fin; unfold free in *; dm;
    try match goal with H : wait_end _ _ _ _ _ = Some _ |- _ => apply wait_end_free in H end; cbn; auto.
Qed.

(* ------------------------------------------------------------------ ready under the setters *)
Lemma rd_lkE s x : ready (set_lkE s x) = ready s. Proof. reflexivity. Qed.
Lemma rd_lkV s x : ready (set_lkV s x) = ready s. Proof. reflexivity. Qed.
Lemma rd_I s x q : ready (set_I s x q) = ready s. Proof. reflexivity. Qed.
Lemma rd_X s x q : ready (set_X s x q) = ready s. Proof. reflexivity. Qed.
Lemma rd_enter s t p : ready (set_enter s t p) = ready s. Proof. reflexivity. Qed.
Lemma rd_count s t : ready (set_count s t) = ready s. Proof. reflexivity. Qed.
Lemma rd_fbegin s : ready (set_fbegin s) = ready s. Proof. reflexivity. Qed.
Lemma rd_fend s ok : ready (set_fend s ok) = true. Proof. unfold ready; destruct ok; cbn; auto. Qed.
Lemma rd_gather s t : ready (set_gather s t) = ready s. Proof. reflexivity. Qed.
Lemma rd_reset s t : ready (set_reset s t) = false. Proof. reflexivity. Qed.
Ltac rd := rewrite ?rd_lkE, ?rd_lkV, ?rd_I, ?rd_X, ?rd_enter, ?rd_count, ?rd_fbegin, ?rd_fend, ?rd_gather, ?rd_reset in *.
Lemma ready_false s : ready s = false -> res s = None /\ exc s = None.
Proof. unfold ready. destruct (res s), (exc s); try discriminate; auto. Qed.
Lemma ready_res s k : res s = Some k -> ready s = true.
Proof. unfold ready. intros ->. auto. Qed.
Lemma ready_exc s k : exc s = Some k -> ready s = true.
Proof. unfold ready. intros ->. destruct (res s); auto. Qed.
Lemma ready_b2n_false s : b2n (ready s) = 0 -> ready s = false.
Proof. destruct (ready s); cbn; auto; discriminate. Qed.
Global Opaque ready.

Lemma pcXa_V p : pcXa p = true -> pcV p = true. Proof. destruct p; cbn; auto. Qed.
Lemma pcXb_E p ex : pcXb p ex = true -> pcE p ex = true. Proof. destruct p; cbn; auto. Qed.

Lemma cnt_handed l : cnt pHanded l = cnt pAt3 l + cnt pXb l.
Proof. apply cnt_add. intros x. unfold pHanded, pAt3, pXb. destruct (t_pc x); cbn; auto; destruct (t_exec x); auto. Qed.
Lemma cnt_xa l : cnt pXa l = cnt pX12 l + cnt pAt3 l.
Proof. apply cnt_add. intros x. unfold pXa, pAt3, pX12. destruct (t_pc x); cbn; auto. Qed.

Section Step.
  Variables (v : variant) (s s' : shared) (ths : list thread) (t : tid) (th th' : thread) (c : nat).
  Hypothesis Hf : failure_path_repaired v = true.
  Hypothesis HI : Inv {| sh := s; threads := ths |}.
  Hypothesis Hnth : nth_error ths t = Some th.
  Hypothesis Hst : step_th v s t th c = Some (s', th').

  Lemma E1_no_exec : t_pc th = E1 -> lkV s = None -> cnt pXa ths + cnt pXb ths = 0.
  Proof.
    intros Hpc HV. destruct HI as [[LE _] [LV _] _ _ _ _ _ _ _ _ _ _ _ _ _ _ _ _ _]. cbn in *.
    destruct (cnt pXa ths) eqn:Ea.
    - destruct (cnt pXb ths) eqn:Eb; auto.
      destruct (cnt_pos_ex pXb ths) as [x [thx [H1 H2]]]; [lia|].
      pose proof (LE x thx H1 (pcXb_E _ _ H2)) as A.
      assert (holdsE th = true) as B by (unfold holdsE; rewrite Hpc; auto).
      pose proof (LE t th Hnth B) as B'. assert (x = t) by congruence. subst x.
      assert (thx = th) by congruence. subst. unfold pXb in H2. rewrite Hpc in H2. discriminate.
    - destruct (cnt_pos_ex pXa ths) as [x [thx [H1 H2]]]; [lia|].
      pose proof (LV x thx H1 (pcXa_V _ H2)). congruence.
  Qed.

  Lemma thok_t : th_ok s t th.
  Proof. destruct HI. cbn in *. auto. Qed.

  Definition Num (s : shared) (ths : list thread) : Prop :=
    tc s = cnt pEnt ths + cnt pCnt ths
    /\ (b2n (ready s) = 0 -> ec s = cnt pCnt ths)
    /\ cnt pXa ths + cnt pXb ths <= 1
    /\ (1 <= cnt pXa ths + cnt pXb ths -> cnt pEnt ths = 0)
    /\ (b2n (ready s) = cnt pXb ths)
    /\ (b2n (ready s) = 0 -> cnt pEnt ths = 0 -> 0 < cnt pCnt ths -> 1 <= cnt pXa ths)
    /\ (b2n (handed s) = cnt pHanded ths)
    /\ (cnt pAt3 ths = 0 -> inflight s = None).

  Lemma num_step : Num s' (upd t th' ths).
  Proof.
    pose proof thok_t as [T1 [T2 [_ [_ [_ [_ [_ [[T8 T9] _]]]]]]]].
    pose proof E1_no_exec as HE1.
    pose proof (cnt_handed ths) as Dh. pose proof (cnt_handed (upd t th' ths)) as Dh'.
    pose proof (cnt_xa ths) as Da. pose proof (cnt_xa (upd t th' ths)) as Da'.
    pose proof (cnt_upd pX12 t th' th ths Hnth) as C12.
    destruct HI as [[LE _] [LV _] _ _ Itc Iec Ione Inoent Irdy Iexec Ihanded Iinfl _ _ _ _ _ _ _]. cbn in *.
    pose proof (cnt_upd pEnt t th' th ths Hnth) as CE. pose proof (cnt_ge_b2n pEnt ths t th Hnth) as GE.
    pose proof (cnt_upd pCnt t th' th ths Hnth) as CC. pose proof (cnt_ge_b2n pCnt ths t th Hnth) as GC.
    pose proof (cnt_upd pXa t th' th ths Hnth) as CXa. pose proof (cnt_ge_b2n pXa ths t th Hnth) as GXa.
    pose proof (cnt_upd pXb t th' th ths Hnth) as CXb. pose proof (cnt_ge_b2n pXb ths t th Hnth) as GXb.
    pose proof (cnt_upd pHanded t th' th ths Hnth) as CH. pose proof (cnt_ge_b2n pHanded ths t th Hnth) as GH.
    pose proof (cnt_upd pAt3 t th' th ths Hnth) as C3. pose proof (cnt_ge_b2n pAt3 ths t th Hnth) as G3.
    clear LE LV HI.
    unfold Num. unfold step_th in Hst. rewrite ?Hf in Hst.
    break_step Hst.
    all: unfold pEnt, pCnt, pXa, pXb, pHanded, pAt3, pX12 in *; rewrite ?Hpc in *; fin; cbn in *; rd.
    all: try (rewrite T8 in * by (cbn; auto)); try (rewrite T9 in * by (cbn; tauto)).
    all: try match goal with H : t_exec _ = _ |- _ => rewrite H in * end.
    all: try (assert (Hr : ready s = true) by (apply T2; tauto); rewrite Hr in * ).
    all: cbn [b2n] in *.
    all: try (specialize (T1 eq_refl)).
    all: try (specialize (HE1 eq_refl)); unfold free in *; dm; try (specialize (HE1 eq_refl)).
    all: repeat match goal with H : (_ =? _) = true |- _ => apply Nat.eqb_eq in H | H : (_ =? _) = false |- _ => apply Nat.eqb_neq in H
                          | H : (_ <? _) = true |- _ => apply Nat.ltb_lt in H | H : (_ <? _) = false |- _ => apply Nat.ltb_ge in H end.
    all: repeat split; intros; try lia; try (apply Iinfl; lia).
  Qed.
End Step.
