(* Batch/Drain_proofs.v — C08_can_always_finish: from every reachable state of the repaired monitor some finite schedule
   completes every call: the drain policy always has an enabled step that decreases the measure mu (DrainMu_proofs.v). *)
From QV Require Import Common.Base Batch.Monitor Batch.ListX Batch.Inv Batch.InvNum_proofs Batch.Inv_proofs Batch.Route Batch.Live Batch.Live_proofs Batch.DrainMu_proofs.

(* ------------------------------------------------------------------ the drain policy always has a decreasing step *)
Local Opaque wait_end notify_one.
Lemma enabled_c v s t th : ext_wait_timed v = true -> failure_path_repaired v = true ->
  t_pc th <> Done ->
  (match t_pc th with E0 | X1 => lkE s = None | _ => True end) ->
  (match t_pc th with G0 | H0 | C0 => lkV s = None | _ => True end) ->
  (match t_pc th with E4 | F2 | F4 | C3 => lkX s = None | _ => True end) ->
  (match t_pc th with N2 | N4 | H1 | R1 | R3 | R5 => lkI s = None | _ => True end) ->
  (t_pc th = N4 -> ~ In t (wqI s)) ->
  exists c r, step_th v s t th c = Some r /\ (t_pc th = H2 \/ t_pc th = R6 -> c = 0).
Proof.
  intros He Hf Hd HE HV HX HI HW. unfold step_th. rewrite He, Hf.
  destruct (t_pc th) eqn:Hpc; try congruence; try rewrite HE; try rewrite HV; try rewrite HX; try rewrite HI; cbn.
  all: try (exists 0; eexists; split; [reflexivity|auto]; fail).
  all: try (exists 0; destruct (linger v); eexists; split; [reflexivity|auto]; fail).
  all: try (exists 0; match goal with |- context [if ?b then _ else _] => destruct b end; (eexists; split; [reflexivity|intros _; reflexivity])).
  all: try (exists 0; destruct (notify_one_zero (wqI s)) as [q' ->]; eexists; split; [reflexivity|auto]; fail).
  all: try (exists 1; match goal with |- context [wait_end true None ?q ?t 1] => destruct (wait_end_timeout None q t eq_refl) as [q' ->] end; eexists; split; [reflexivity|intros [E|E]; discriminate E]; fail).
  - (* N4 *) exists 0. Local Transparent wait_end. unfold wait_end. cbn. specialize (HW eq_refl). destruct (memq t (wqI s)) eqn:E.
    + apply memq_In in E. contradiction.
    + eexists; split; [reflexivity|intros [E'|E']; discriminate E'].
Qed.

Definition good_step (v : variant) (st : state) : Prop := exists t c st', step v st t c = Some st' /\ mu st' < mu st.

Lemma take v st u thu : ext_wait_timed v = true -> failure_path_repaired v = true -> Inv st -> NoDup (wqI (sh st)) ->
  nth_error (threads st) u = Some thu -> t_pc thu <> Done ->
  (match t_pc thu with E0 | X1 => lkE (sh st) = None | _ => True end) ->
  (match t_pc thu with G0 | H0 | C0 => lkV (sh st) = None | _ => True end) ->
  (match t_pc thu with E4 | F2 | F4 | C3 => lkX (sh st) = None | _ => True end) ->
  (match t_pc thu with N2 | N4 | H1 | R1 | R3 | R5 => lkI (sh st) = None | _ => True end) ->
  (t_pc thu = N4 -> ~ In u (wqI (sh st))) ->
  (t_pc thu = E0 -> lkV (sh st) = None) ->
  (t_pc thu = R0 -> 0 < tc (sh st) -> 1 <= waiting (wqI (sh st)) (threads st)) ->
  good_step v st.
Proof.
  intros He Hf HI Hn Hu Hd A1 A2 A3 A4 A5 P1 P2. destruct st as [s ths]. cbn in *.
  destruct (enabled_c v s u thu He Hf Hd A1 A2 A3 A4 A5) as [c [[s' th'] [E Hc]]].
  exists u, c. eexists. split; [unfold step; cbn; rewrite Hu, E; reflexivity|].
  apply (mu_step v s s' ths u thu th' c Hf HI Hn Hu E P1 P2 Hc).
Qed.

Ltac triv_en := first [exact I | reflexivity | assumption | (intros E; discriminate E)].

Lemma waiting_ge_member st u thu : nth_error (threads st) u = Some thu -> t_pc thu = N4 -> In u (wqI (sh st)) ->
  1 <= waiting (wqI (sh st)) (threads st).
Proof.
  intros Hu Hp Hin. unfold waiting.
  pose proof (cnti_ge (fun i th => isN4 th && memq i (wqI (sh st))) 0 (threads st) u thu Hu) as G. cbn in G.
  assert (E4 : isN4 thu = true) by (unfold isN4; rewrite Hp; auto). rewrite E4 in G. apply memq_In in Hin. rewrite Hin in G. cbn [andb b2n] in G. lia.
Qed.

Theorem progress v st : ext_wait_timed v = true -> failure_path_repaired v = true -> reachable v st ->
  NoDup (wqI (sh st)) -> some_unfinished st -> good_step v st.
Proof.
  intros He Hf Hr Hn [t0 [th0 [H0 Hnd]]]. pose proof (reachable_inv v st Hf Hr) as HI.
  pose proof HI as HI'.
  destruct HI as [[LE1 LE2] [LV1 LV2] [LI1 LI2] [LX1 LX2] Itc Iec Ione Inoent Irdy Iexec _ _ _ _ _ _ IwI _ Ith].
  assert (NW : forall u thu, nth_error (threads st) u = Some thu -> t_pc thu <> N4 -> (t_pc thu = N4 -> ~ In u (wqI (sh st)))).
  { intros u thu _ A B. congruence. }
  (* 1. the holder of the external condition's lock *)
  destruct (lkX (sh st)) as [u|] eqn:EX.
  { destruct (LX2 u eq_refl) as [thu [Hu Hh]]. unfold holdsX in Hh.
    apply (take v st u thu He Hf HI' Hn Hu); destruct (t_pc thu); try discriminate; triv_en. }
  (* 2. the holder of the internal condition's lock *)
  destruct (lkI (sh st)) as [u|] eqn:EI.
  { destruct (LI2 u eq_refl) as [thu [Hu Hh]]. unfold holdsI in Hh.
    apply (take v st u thu He Hf HI' Hn Hu); destruct (t_pc thu); try discriminate; triv_en. }
  (* 3. the holder of the variable lock *)
  destruct (lkV (sh st)) as [u|] eqn:EV.
  { destruct (LV2 u eq_refl) as [thu [Hu Hh]].
    destruct (t_pc thu) eqn:Hpu; unfold holdsV in Hh; rewrite Hpu in Hh; try discriminate.
    all: try (apply (take v st u thu He Hf HI' Hn Hu); rewrite ?Hpu; triv_en).
    destruct (lkE (sh st)) as [w|] eqn:EE.
    2: { apply (take v st u thu He Hf HI' Hn Hu); rewrite ?Hpu; triv_en. }
    destruct (LE2 w eq_refl) as [thw [Hw Hhw]].
    assert (Hne : u <> w).
    { intros ->. assert (thw = thu) by congruence. subst. unfold holdsE in Hhw. rewrite Hpu in Hhw. discriminate. }
    pose proof (cnt_ge_two pXa (threads st) u w thu thw Hne Hu Hw) as GA.
    pose proof (cnt_ge_two pXb (threads st) u w thu thw Hne Hu Hw) as GB.
    assert (Ea : pXa thu = true) by (unfold pXa; rewrite Hpu; auto). rewrite Ea in GA.
    assert (Eb0 : pXb thu = false) by (unfold pXb; rewrite Hpu; auto). rewrite Eb0 in GB.
    assert (HVw : holdsV thw = false).
    { destruct (holdsV thw) eqn:E; auto. pose proof (LV1 w thw Hw E). congruence. }
    unfold holdsE in Hhw. unfold holdsV in HVw.
    destruct (t_pc thw) eqn:Hpw; cbn in Hhw, HVw; try discriminate.
    all: try (apply (take v st w thw He Hf HI' Hn Hw); rewrite ?Hpw; triv_en).
    all: assert (Eb : pXb thw = true) by (unfold pXb; rewrite Hpw, ?Hhw; auto); rewrite Eb in GB; cbn in GA, GB; exfalso; lia. }
  (* 4. the holder of the entry lock; V, I, X are free *)
  destruct (lkE (sh st)) as [w|] eqn:EE.
  { destruct (LE2 w eq_refl) as [thw [Hw Hhw]]. unfold holdsE in Hhw.
    destruct (t_pc thw) eqn:Hpw; cbn in Hhw; try discriminate.
    all: try (apply (take v st w thw He Hf HI' Hn Hw); rewrite ?Hpw; triv_en).
    (* R0: if members remain and none of them is waiting, move a member instead *)
    destruct (tc (sh st)) as [|n] eqn:Etc.
    { apply (take v st w thw He Hf HI' Hn Hw); rewrite ?Hpw; try triv_en. intros _ A. lia. }
    destruct (waiting (wqI (sh st)) (threads st)) as [|k] eqn:EW.
    2: { apply (take v st w thw He Hf HI' Hn Hw); rewrite ?Hpw; try triv_en. intros _ _. lia. }
    pose proof (cnt_ge_b2n pXb (threads st) w thw Hw) as GB. unfold pXb at 1 in GB. rewrite Hpw in GB. cbn in GB.
    assert (ZE : cnt pEnt (threads st) = 0) by (apply Inoent; lia).
    assert (ZA : cnt pXa (threads st) = 0) by lia.
    destruct (cnt_pos_ex pCnt (threads st)) as [u [thu [Hu HPu]]]; [lia|].
    pose proof (cnt_zero_all pXa _ u thu ZA Hu) as NA.
    assert (HVu : holdsV thu = false).
    { destruct (holdsV thu) eqn:E; auto. pose proof (LV1 u thu Hu E). congruence. }
    assert (HIu : holdsI thu = false).
    { destruct (holdsI thu) eqn:E; auto. pose proof (LI1 u thu Hu E). congruence. }
    unfold pCnt in HPu. unfold pXa in NA. unfold holdsV in HVu. unfold holdsI in HIu.
    destruct (t_pc thu) eqn:Hpu; cbn in HPu, NA, HVu, HIu; try discriminate.
    - (* N2 *) apply (take v st u thu He Hf HI' Hn Hu); rewrite ?Hpu; triv_en.
    - (* N4 *) apply (take v st u thu He Hf HI' Hn Hu); rewrite ?Hpu; try triv_en.
      intros _ Hin. pose proof (waiting_ge_member st u thu Hu Hpu Hin). lia.
    - (* H0 *) apply (take v st u thu He Hf HI' Hn Hu); rewrite ?Hpu; triv_en. }
  (* 5. all four locks are free *)
  assert (Free : forall u thu, nth_error (threads st) u = Some thu -> t_pc thu <> Done -> t_pc thu <> R0 ->
                 (t_pc thu = N4 -> ~ In u (wqI (sh st))) -> good_step v st).
  { intros u thu Hu Hd HR Hw. apply (take v st u thu He Hf HI' Hn Hu); auto; try (destruct (t_pc thu); triv_en). intros A; congruence. }
  assert (NoR0 : forall u thu, nth_error (threads st) u = Some thu -> t_pc thu <> R0).
  { intros u thu Hu A. assert (holdsE thu = true) by (unfold holdsE; rewrite A; auto). pose proof (LE1 u thu Hu H). congruence. }
  destruct (t_pc th0) eqn:Hp0; try (apply (Free t0 th0 H0); [congruence|apply (NoR0 t0 th0 H0)|intros E; congruence]; fail).
  destruct (in_dec Nat.eq_dec t0 (wqI (sh st))) as [Hin|Hnin].
  2: { apply (Free t0 th0 H0); [congruence|apply (NoR0 t0 th0 H0)|auto]. }
  pose proof (cnt_ge_b2n pCnt (threads st) t0 th0 H0) as GC. unfold pCnt in GC at 1. rewrite Hp0 in GC. cbn in GC.
  assert (Pick : forall P : thread -> bool, 0 < cnt P (threads st) ->
                 (forall th, P th = true -> t_pc th <> Done /\ t_pc th <> N4) -> good_step v st).
  { intros P Hpos HP. destruct (cnt_pos_ex P _ Hpos) as [u [thu [Hu HPu]]]. destruct (HP thu HPu) as [A B].
    apply (Free u thu Hu); [auto|apply (NoR0 u thu Hu)|intros E; congruence]. }
  destruct (ready (sh st)) eqn:Hrd; cbn in *.
  - (* ready: the executor would hold the entry lock *)
    exfalso. destruct (cnt_pos_ex pXb (threads st)) as [x [thx [Hx HPx]]]; [lia|].
    pose proof (LE1 x thx Hx (pcXb_E _ _ HPx)). congruence.
  - destruct (cnt pEnt (threads st)) eqn:En.
    + apply (Pick pXa); [apply Iexec; auto; lia|]. intros th Hx. unfold pXa in Hx. destruct (t_pc th); cbn in Hx; try discriminate; split; congruence.
    + apply (Pick pEnt); [lia|]. intros th Hx. unfold pEnt in Hx. destruct (t_pc th); cbn in Hx; try discriminate; split; congruence.
Qed.

(* ------------------------------------------------------------------ assembling *)
Lemma run_app v sched1 : forall st st1 sched2, run v st sched1 = Some st1 -> run v st (sched1 ++ sched2) = run v st1 sched2.
Proof.
  induction sched1 as [|[t c] r IH]; intros st st1 sched2 H; cbn in *.
  - inversion H; subst; auto.
  - destruct (step v st t c); [|discriminate]. eauto.
Qed.

Lemma reachable_step v st t c st' : reachable v st -> step v st t c = Some st' -> reachable v st'.
Proof.
  intros [calls [sched H]] Hs. exists calls, (sched ++ [(t, c)]). rewrite (run_app v sched _ st [(t, c)] H). cbn. rewrite Hs. auto.
Qed.

Lemma nodup_run v sched : failure_path_repaired v = true -> forall st st', Inv st -> NoDup (wqI (sh st)) ->
  run v st sched = Some st' -> NoDup (wqI (sh st')).
Proof.
  intros Hf. induction sched as [|[t c] r IH]; intros st st' HI Hn H; cbn in H.
  - inversion H; subst; auto.
  - destruct (step v st t c) as [st1|] eqn:E; [|discriminate].
    apply (IH st1 st'); auto. eapply step_inv; eauto. eapply nodup_step; eauto.
Qed.

Lemma nodup_reachable v st : failure_path_repaired v = true -> reachable v st -> NoDup (wqI (sh st)).
Proof.
  intros Hf [calls [sched H]]. apply (nodup_run v sched Hf (init_state calls) st); auto.
  - apply init_inv.
  - cbn. constructor.
Qed.

Lemma not_all_done st : all_done st = false -> some_unfinished st.
Proof.
  unfold all_done, some_unfinished. intros H.
  assert (E : exists th, In th (threads st) /\ is_done th = false).
  { induction (threads st) as [|a l IH]; cbn in H; [discriminate|].
    destruct (is_done a) eqn:Ea; cbn in H.
    - destruct (IH H) as [th [A B]]. exists th. split; [right|]; auto.
    - exists a. split; [left|]; auto. }
  destruct E as [th [Hin Hd]]. destruct (In_nth_error _ _ Hin) as [t Ht]. exists t, th. split; auto.
  intros E. unfold is_done in Hd. rewrite E in Hd. discriminate.
Qed.

Theorem can_always_finish v st : ext_wait_timed v = true -> failure_path_repaired v = true -> reachable v st ->
  exists sched st', run v st sched = Some st' /\ all_done st' = true.
Proof.
  intros He Hf. remember (mu st) as n eqn:En. revert st En.
  induction n as [n IH] using lt_wf_ind. intros st En Hr.
  destruct (all_done st) eqn:Hd.
  - exists [], st. cbn. auto.
  - destruct (progress v st He Hf Hr (nodup_reachable v st Hf Hr) (not_all_done st Hd)) as [t [c [st1 [Hs Hm]]]].
    destruct (IH (mu st1) ltac:(lia) st1 eq_refl (reachable_step v st t c st1 Hr Hs)) as [sched [st' [A B]]].
    exists ((t, c) :: sched), st'. cbn. rewrite Hs. auto.
Qed.
