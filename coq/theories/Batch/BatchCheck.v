(* Batch/BatchCheck.v — correspondence entry for C06–C09: the model's observable state after every step of a
   schedule, as a list of numbers; the harness builds the same list from the implementation (harness/vlib/batch.py)
   and compares line by line.  Run through the extracted OCaml binary (tools/build_ocaml.sh). *)
From QV Require Import Common.Base Batch.Monitor Batch.Mutex.

Definition enc_opt (o : option nat) : nat := match o with None => 0 | Some k => S k end.
Definition b2n (b : bool) : nat := if b then 1 else 0.

(* pending operation of a thread: (kind, object, timed)
   kinds 0 finished, 1 acquire, 2 try-acquire, 3 release, 4 enter, 5 exit, 6 wait-begin, 7 wait-end, 8 notify,
   9 notify_all, 10 sleep, 11 f-begin, 12 f-end, 13 unprotected read of _thread_counter;
   objects 0 entry lock, 1 variable lock, 2 internal condition, 3 external condition, 4 none *)
Definition op_of (v : variant) (p : pc) : nat * nat * nat :=
  match p with
  | E0 => (1, 0, 0) | E1 => (2, 1, 0) | E2 => (3, 0, 0) | E3 => (3, 1, 0)
  | E4 => (4, 3, 0) | E5 => (9, 3, 0) | E6 => (5, 3, 0)
  | F1 => (3, 0, 0) | F2 => (4, 3, 0) | F3 => (6, 3, b2n (ext_wait_timed v)) | F4 => (7, 3, b2n (ext_wait_timed v)) | F5 => (5, 3, 0)
  | S0 => (10, 4, 0) | G0 => (1, 1, 0)
  | X1 => (1, 0, 0) | X2 => (11, 4, 0) | X3 => (12, 4, 0) | X4 => (3, 1, 0)
  | N1 => (3, 1, 0) | N2 => (4, 2, 0) | N3 => (6, 2, 0) | N4 => (7, 2, 0) | N5 => (5, 2, 0)
  | H0 => (1, 1, 0) | H1 => (4, 2, 0) | H2 => (8, 2, 0) | H3 => (5, 2, 0) | H4 => (3, 1, 0)
  | R0 => (13, 4, 0) | R1 => (4, 2, 0) | R2 => (6, 2, 1) | R3 => (7, 2, 1) | R4 => (5, 2, 0)
  | R5 => (4, 2, 0) | R6 => (8, 2, 0) | R7 => (5, 2, 0)
  | C0 => (1, 1, 0) | C1 => (3, 1, 0) | C2 => (3, 0, 0) | C3 => (4, 3, 0) | C4 => (9, 3, 0) | C5 => (5, 3, 0)
  | Done => (0, 4, 0)
  end.

(* per thread: pending operation (kind, object, timed), enabled, the locals batch_index / result / exception as the
   thread's frame holds them (0 = not assigned in this call), number of finished calls and their outcomes *)
Definition enc_outcome (o : outcome) : list nat :=
  match o with
  | RetOk k idx => [1; k; idx]
  | RetExc k _ => [2; k; 0]
  | RetValueError => [3; 0; 0]
  end.

Fixpoint enc_threads (v : variant) (s : shared) (t : nat) (l : list thread) : list nat :=
  match l with
  | [] => []
  | th :: r =>
      let '(k, o, tm) := op_of v (t_pc th) in
      [k; o; tm; b2n (enabled_th v s t th); t_bidx th; enc_opt (t_res th); enc_opt (t_exc th); length (t_outs th)]
        ++ flat_map (fun po => enc_outcome (snd po)) (t_outs th)
        ++ enc_threads v s (S t) r
  end.

Definition enc_state (v : variant) (st : state) : list nat :=
  let s := sh st in
  [enc_opt (lkE s); enc_opt (lkV s); enc_opt (lkI s); enc_opt (lkX s); length (wqI s)] ++ wqI s
    ++ [length (wqX s)] ++ wqX s
    ++ [tc s; ec s; blen s; length (bpubs s)] ++ bpubs s
    ++ [enc_opt (res s); enc_opt (exc s); length (log s) + match inflight s with Some _ => 1 | None => 0 end]
    ++ enc_threads v s 0 (threads st).

(* the primitive's invocation log: per invocation (number of pubs, pubs, succeeded); an invocation in progress last *)
Definition enc_log (st : state) : list nat :=
  flat_map (fun e => length (fst e) :: fst e ++ [b2n (snd e)]) (log (sh st))
    ++ match inflight (sh st) with Some a => length a :: a ++ [2] | None => [] end.

(* states after each step; `[]` marks a step that is not enabled in the model (the trace stops there) *)
Fixpoint trace (v : variant) (st : state) (sched : list (nat * nat)) : list (list nat) :=
  match sched with
  | [] => []
  | (t, c) :: r => match step v st t c with
                   | None => [[]]
                   | Some st' => enc_state v st' :: trace v st' r
                   end
  end.

Definition final_log (v : variant) (st : state) (sched : list (nat * nat)) : list nat :=
  match run v st sched with Some st' => enc_log st' | None => [] end.

Definition mk_variant (ewt fpr lg : nat) : variant :=
  {| ext_wait_timed := negb (ewt =? 0); failure_path_repaired := negb (fpr =? 0); linger := negb (lg =? 0) |}.
