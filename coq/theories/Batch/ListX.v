(* Batch/ListX.v — list utilities for the monitor proofs: point update, counting, slices, queue operations. *)
From QV Require Import Common.Base Batch.Monitor.
From Coq Require Import Permutation.

Definition b2n (b : bool) : nat := if b then 1 else 0.

Fixpoint cnt {A} (P : A -> bool) (l : list A) : nat :=
  match l with [] => 0 | x :: r => b2n (P x) + cnt P r end.

Lemma upd_length {A} n (x : A) l : length (upd n x l) = length l.
Proof. revert n; induction l as [|a l IH]; intros [|n]; simpl; auto. Qed.

Lemma nth_error_upd_eq {A} n (x y : A) l : nth_error l n = Some y -> nth_error (upd n x l) n = Some x.
Proof. revert n; induction l as [|a l IH]; intros [|n]; simpl; intros H; try discriminate; auto. Qed.

Lemma nth_error_upd_neq {A} n m (x : A) l : n <> m -> nth_error (upd n x l) m = nth_error l m.
Proof. revert n m; induction l as [|a l IH]; intros [|n] [|m] H; simpl; auto; try congruence. Qed.

Lemma nth_error_upd {A} n m (x y : A) l :
  nth_error l n = Some y -> nth_error (upd n x l) m = if Nat.eqb n m then Some x else nth_error l m.
Proof.
  intros H. destruct (Nat.eqb_spec n m) as [->|Hne].
  - eapply nth_error_upd_eq; eauto.
  - apply nth_error_upd_neq; auto.
Qed.

Lemma cnt_upd {A} (P : A -> bool) n (x y : A) l :
  nth_error l n = Some y -> cnt P (upd n x l) + b2n (P y) = cnt P l + b2n (P x).
Proof.
  revert n; induction l as [|a l IH]; intros [|n]; simpl; intros H; try discriminate.
  - inversion H; subst. lia.
  - specialize (IH _ H). lia.
Qed.

Lemma cnt_pos_ex {A} (P : A -> bool) l : 0 < cnt P l -> exists n x, nth_error l n = Some x /\ P x = true.
Proof.
  induction l as [|a l IH]; simpl; [lia|]. intros H.
  destruct (P a) eqn:E.
  - exists 0, a. auto.
  - simpl in H. destruct (IH H) as [n [x [H1 H2]]]. exists (S n), x. auto.
Qed.

Lemma cnt_zero_all {A} (P : A -> bool) l n x : cnt P l = 0 -> nth_error l n = Some x -> P x = false.
Proof.
  revert n; induction l as [|a l IH]; intros [|n]; simpl; intros H H1; try discriminate.
  - inversion H1; subst. destruct (P x); simpl in H; [lia|auto].
  - eapply IH; eauto. lia.
Qed.

Lemma cnt_ge_one {A} (P : A -> bool) l n x : nth_error l n = Some x -> P x = true -> 1 <= cnt P l.
Proof.
  intros H1 H2. destruct (cnt P l) eqn:E; [|lia].
  rewrite (cnt_zero_all P l n x E H1) in H2. discriminate.
Qed.

Lemma cnt_le_one_unique {A} (P : A -> bool) l n m x y :
  cnt P l <= 1 -> nth_error l n = Some x -> P x = true -> nth_error l m = Some y -> P y = true -> n = m.
Proof.
  revert n m; induction l as [|a l IH]; intros [|n] [|m]; simpl; intros H H1 H2 H3 H4; try discriminate; auto.
  - inversion H1; subst. rewrite H2 in H. simpl in H. pose proof (cnt_ge_one P l m y H3 H4). lia.
  - inversion H3; subst. rewrite H4 in H. simpl in H. pose proof (cnt_ge_one P l n x H1 H2). lia.
  - f_equal. eapply IH; eauto. lia.
Qed.

Lemma cnt_all_false {A} (P : A -> bool) l : (forall n x, nth_error l n = Some x -> P x = false) -> cnt P l = 0.
Proof.
  induction l as [|a l IH]; simpl; auto. intros H.
  rewrite (H 0 a eq_refl). simpl. apply IH. intros n x Hn. apply (H (S n) x Hn).
Qed.

Lemma cnt_map_new {A B} (P : B -> bool) (f : A -> B) l : (forall a, P (f a) = false) -> cnt P (map f l) = 0.
Proof. intros H; induction l; simpl; auto. rewrite H. simpl. auto. Qed.

(* ------------------------------------------------------------------ queues *)
Lemma memq_In t q : memq t q = true <-> In t q.
Proof.
  unfold memq. rewrite existsb_exists. split.
  - intros [x [H1 H2]]. apply Nat.eqb_eq in H2. subst. auto.
  - intros H. exists t. split; auto. apply Nat.eqb_refl.
Qed.

Lemma In_remq u t q : In u (remq t q) <-> In u q /\ u <> t.
Proof.
  induction q as [|a q IH]; simpl; [tauto|].
  destruct (Nat.eqb_spec t a) as [->|Hne]; simpl; rewrite IH; split.
  - intros [H1 H2]; auto.
  - intros [[H|H] H2]; [congruence|auto].
  - intros [H|[H1 H2]]; [subst; split; auto|auto].
  - intros [[H|H] H2]; auto.
Qed.

Lemma In_remove_nth u c q : In u (remove_nth c q) -> In u q.
Proof.
  revert c; induction q as [|a q IH]; intros [|c]; simpl; auto.
  intros [H|H]; auto. right. eapply IH; eauto.
Qed.

Lemma notify_one_In c q q' u : notify_one c q = Some q' -> In u q' -> In u q.
Proof.
  unfold notify_one. destruct q as [|a q]; [intros H; inversion H; subst; auto|].
  destruct (c <? length (a :: q)); [|discriminate]. intros H; inversion H; subst. apply In_remove_nth.
Qed.

Lemma notify_one_zero q : exists q', notify_one 0 q = Some q'.
Proof. destruct q; simpl; eauto. Qed.

(* ------------------------------------------------------------------ slices *)
(* p occupies positions i .. i + length p - 1 of l *)
Definition slice_at {A} (l : list A) (i : nat) (p : list A) : Prop :=
  exists pre post, l = pre ++ p ++ post /\ length pre = i.

Lemma slice_at_app {A} (l : list A) i p q : slice_at l i p -> slice_at (l ++ q) i p.
Proof. intros [pre [post [-> H]]]. exists pre, (post ++ q). rewrite <- !app_assoc. auto. Qed.

Lemma slice_at_end {A} (l p : list A) : slice_at (l ++ p) (length l) p.
Proof. exists l, []. rewrite app_nil_r. auto. Qed.

Lemma slice_cons_ok {A} (pre p post : list A) :
  slice (pre ++ p ++ post) (length pre) (length p) = Ok p.
Proof.
  revert pre; induction p as [|x p IH]; intros pre; simpl; auto.
  rewrite nth_error_app2 by lia. rewrite Nat.sub_diag. simpl.
  specialize (IH (pre ++ [x])). rewrite <- app_assoc in IH. simpl in IH.
  rewrite app_length in IH. simpl in IH. rewrite Nat.add_1_r in IH. rewrite IH. reflexivity.
Qed.

(* the list lemma of DESIGN.md A.7 *)
Lemma slice_of_slice_at {A B} (f : A -> B) (l : list A) i p :
  slice_at l i p -> slice (map f l) i (length p) = Ok (map f p).
Proof.
  intros [pre [post [-> <-]]]. rewrite !map_app.
  rewrite <- (map_length f pre), <- (map_length f p). apply slice_cons_ok.
Qed.

Lemma firstn_skipn_slice_at {A} (l : list A) i p : slice_at l i p -> firstn (length p) (skipn i l) = p.
Proof.
  intros [pre [post [-> <-]]]. rewrite skipn_app, skipn_all, Nat.sub_diag. simpl.
  rewrite firstn_app, firstn_all, Nat.sub_diag. simpl. apply app_nil_r.
Qed.

Lemma nth_error_snoc {A} (l : list A) x : nth_error (l ++ [x]) (length l) = Some x.
Proof. rewrite nth_error_app2 by lia. rewrite Nat.sub_diag. reflexivity. Qed.

Lemma nth_error_app_some {A} (l r : list A) k x : nth_error l k = Some x -> nth_error (l ++ r) k = Some x.
Proof. intros H. rewrite nth_error_app1; auto. apply nth_error_Some. congruence. Qed.

Lemma cnt_ge_b2n {A} (P : A -> bool) l n x : nth_error l n = Some x -> b2n (P x) <= cnt P l.
Proof.
  intros H. destruct (P x) eqn:E; simpl; [|lia]. eapply cnt_ge_one; eauto.
Qed.

Lemma cnt_ge_two {A} (P : A -> bool) l n m x y :
  n <> m -> nth_error l n = Some x -> nth_error l m = Some y -> b2n (P x) + b2n (P y) <= cnt P l.
Proof.
  revert n m; induction l as [|a l IH]; intros [|n] [|m] Hne H1 H2; simpl in *; try discriminate; try congruence.
  - inversion H1; subst. pose proof (cnt_ge_b2n P l m y H2). lia.
  - inversion H2; subst. pose proof (cnt_ge_b2n P l n x H1). lia.
  - assert (n <> m) by congruence. specialize (IH n m H H1 H2). lia.
Qed.

(* ------------------------------------------------------------------ wait-end *)
Lemma wait_end_free tm lk q t c q' : wait_end tm lk q t c = Some q' -> lk = None.
Proof. unfold wait_end, free. destruct lk; [discriminate|auto]. Qed.

Lemma wait_end_notin tm lk q t c q' : wait_end tm lk q t c = Some q' -> ~ In t q'.
Proof.
  unfold wait_end. destruct (free lk); [|discriminate]. destruct (memq t q) eqn:E.
  - destruct (tm && (c =? 1)); [|discriminate]. intros H; inversion H; subst. rewrite In_remq. tauto.
  - intros H; inversion H; subst. rewrite <- memq_In. congruence.
Qed.

Lemma wait_end_other tm lk q t c q' u : wait_end tm lk q t c = Some q' -> u <> t -> (In u q' <-> In u q).
Proof.
  unfold wait_end. destruct (free lk); [|discriminate]. destruct (memq t q) eqn:E.
  - destruct (tm && (c =? 1)); [|discriminate]. intros H Hne; inversion H; subst. rewrite In_remq. tauto.
  - intros H; inversion H; subst. tauto.
Qed.

Lemma wait_end_sub tm lk q t c q' u : wait_end tm lk q t c = Some q' -> In u q' -> In u q.
Proof.
  unfold wait_end. destruct (free lk); [|discriminate]. destruct (memq t q) eqn:E.
  - destruct (tm && (c =? 1)); [|discriminate]. intros H; inversion H; subst. rewrite In_remq. tauto.
  - intros H; inversion H; subst. tauto.
Qed.

Lemma wait_end_untimed lk q t c q' : wait_end false lk q t c = Some q' -> q' = q /\ ~ In t q.
Proof.
  unfold wait_end. destruct (free lk); [|discriminate]. destruct (memq t q) eqn:E; simpl; [discriminate|].
  intros H; inversion H; subst. split; auto. rewrite <- memq_In. congruence.
Qed.

Lemma wait_end_timeout lk q t : lk = None -> exists q', wait_end true lk q t 1 = Some q'.
Proof. intros ->. unfold wait_end. simpl. destruct (memq t q); eauto. Qed.

Lemma cnt_add {A} (P Q R : A -> bool) l :
  (forall x, b2n (P x) = b2n (Q x) + b2n (R x)) -> cnt P l = cnt Q l + cnt R l.
Proof. intros H; induction l as [|a l IH]; simpl; auto. rewrite H, IH. lia. Qed.
