(* Batch/FairStag_proofs.v — a strongly fair run cannot stagnate: if from some time on no step decreased the variant V
   (every step were inside one of the two polling loops) while a call is unfinished, fairness forces a step that does. *)
From QV Require Import Common.Base Batch.Monitor Batch.ListX Batch.Inv Batch.InvNum_proofs Batch.Inv_proofs Batch.Route
  Batch.Live Batch.Live_proofs Batch.DrainMu_proofs Batch.Drain_proofs Batch.Fair Batch.FairBase_proofs.
From Coq Require Import Classical.

(* a step of t adds nobody but t to a wait queue *)
Lemma wq_add_only v sh t th c sh' th' x : step_th v sh t th c = Some (sh', th') -> In x (wqI sh') -> x = t \/ In x (wqI sh).
Proof.
  intros H Hin. unfold step_th in H.
  repeat match type of H with
  | context [match t_pc ?th with _ => _ end] => destruct (t_pc th) eqn:Hpc
  | context [if ?b then _ else _] => destruct b eqn:?; try discriminate H
  | context [match ?o with Some _ => _ | None => _ end] => destruct o eqn:?; try discriminate H
  end; try discriminate H; inversion H; subst; clear H; cbn in *; auto.
  all: try (apply in_app_or in Hin; destruct Hin as [Hin|[Hin|[]]]; auto).
  all: eauto using wait_end_sub, notify_one_In.
Qed.

Section Stagnant.
  Variables (v : variant) (calls : list (list (list pub))) (sigma : isched) (n0 : nat).
  Hypothesis He : ext_wait_timed v = true.
  Hypothesis Hf : failure_path_repaired v = true.
  Hypothesis Hfair : strongly_fair v (init_state calls) sigma.
  Hypothesis Hstag : forall m, n0 <= m -> V (s v calls sigma (S m)) = V (s v calls sigma m).

  Notation s := (s v calls sigma).
  Notation thr := (thr v calls sigma).
  Notation tk := (tk v calls sigma).
  Notation stays := (stays v calls sigma).

  Lemma step_at m t th : tk m t -> thr m t = Some th ->
    exists c sh' th', step_th v (sh (s m)) t th c = Some (sh', th') /\ sh (s (S m)) = sh' /\ thr (S m) t = Some th'
                      /\ threads (s (S m)) = upd t th' (threads (s m)).
  Proof.
    intros T Ht. destruct (tk_step v calls sigma m t T) as [c [st' [E [E2 _]]]].
    unfold step in E. unfold FairBase_proofs.thr in Ht. rewrite Ht in E.
    destruct (step_th v (sh (s m)) t th c) as [[sh' th']|] eqn:Hs; [|discriminate]. inversion E as [E3]. rewrite <- E2 in E3.
    exists c, sh', th'. split; auto. unfold FairBase_proofs.thr. rewrite <- E3. cbn. split; auto. split; auto.
    eapply nth_error_upd_eq; eauto.
  Qed.

  (* every step of the stagnant phase is a step inside a loop *)
  Lemma tk_loop m t th : n0 <= m -> tk m t -> thr m t = Some th ->
    inloop (t_pc th) = true /\ thr (S m) t = Some (set_pc th (succL (t_pc th))).
  Proof.
    intros Hm T Ht. destruct (tk_step v calls sigma m t T) as [c [st' [E [E2 _]]]].
    destruct (V_step v _ _ _ _ Hf E) as [_ B]. rewrite <- E2 in B. destruct (B (Hstag m Hm)) as [th0 [A1 [A2 A3]]].
    unfold FairBase_proofs.thr in Ht. rewrite Ht in A1. inversion A1; subst th0. split; auto.
  Qed.

  Lemma en_of m t th : thr m t = Some th -> can_th v (sh (s m)) t th -> enabled v (s m) t.
  Proof.
    intros Ht [c [[sh' th'] E]]. exists c. unfold step. unfold FairBase_proofs.thr in Ht. rewrite Ht, E. eauto.
  Qed.

  (* a thread outside the loops that is enabled again and again as long as it stays: impossible *)
  Lemma exclude m t th : n0 <= m -> thr m t = Some th -> inloop (t_pc th) = false ->
    (forall m1, m <= m1 -> stays m m1 t th -> exists m2, m1 <= m2 /\ (stays m m2 t th -> enabled v (s m2) t)) -> False.
  Proof.
    intros Hm Ht Hl Hen. destruct (must_step v calls sigma Hfair m t th Ht Hen) as [m1 [H1 [T1 S1]]].
    destruct (tk_loop m1 t th ltac:(lia) T1 (S1 m1 ltac:(lia))) as [A _]. congruence.
  Qed.

  (* ---- C1: no thread sits at a program counter outside the loops whose operation needs nothing *)
  Definition exA (p : pc) : bool :=
    match p with E2 | E3 | E5 | E6 | S0 | X2 | X3 | X4 | N1 | N3 | N5 | H2 | H3 | H4 | C1 | C2 | C4 | C5 => true | _ => false end.

  Lemma C1 m t th : n0 <= m -> thr m t = Some th -> exA (t_pc th) = true -> False.
  Proof.
    intros Hm Ht Hp. apply (exclude m t th Hm Ht); [destruct (t_pc th); cbn in *; congruence|].
    intros m1 H1 St. exists m1. split; auto. intros St'. apply (en_of m1 t th (St' m1 ltac:(lia))).
    apply enabled_if; auto; destruct (t_pc th); cbn in Hp; try discriminate; try exact I; intros E; discriminate E.
  Qed.

  (* ---- C2: the external condition's lock is free again and again *)
  Lemma LX m : n0 <= m -> exists m', m <= m' /\ lkX (sh (s m')) = None.
  Proof.
    intros Hm. destruct (lkX (sh (s m))) as [u|] eqn:E; [|exists m; auto].
    destruct (proj2 (inv_X _ (s_inv v calls sigma Hf m)) u E) as [thu [Hu Hh]].
    assert (Hp : t_pc thu = F3 \/ t_pc thu = F5).
    { unfold holdsX in Hh. destruct (t_pc thu) eqn:P; cbn in Hh; try discriminate; auto;
        exfalso; apply (C1 m u thu Hm Hu); rewrite P; reflexivity. }
    destruct (must_step v calls sigma Hfair m u thu Hu) as [m1 [H1 [T1 S1]]].
    { intros m1 H1 St. exists m1. split; auto. intros St'. apply (en_of m1 u thu (St' m1 ltac:(lia))).
      apply enabled_if; auto; destruct Hp as [P|P]; rewrite P; try exact I; try congruence; intros Q; discriminate Q. }
    destruct (step_at m1 u thu T1 (S1 m1 ltac:(lia))) as [c [sh' [th' [Hs [Hsh _]]]]].
    exists (S m1). split; [lia|]. rewrite Hsh. unfold step_th in Hs. destruct Hp as [P|P]; rewrite P in Hs; inversion Hs; reflexivity.
  Qed.

  (* ---- C3: nobody waits for the external condition's lock outside the retry loop *)
  Lemma C3 m t th : n0 <= m -> thr m t = Some th -> (t_pc th = E4 \/ t_pc th = Monitor.C3) -> False.
  Proof.
    intros Hm Ht Hp. apply (exclude m t th Hm Ht); [destruct Hp as [P|P]; rewrite P; reflexivity|].
    intros m1 H1 St. destruct (LX m1 ltac:(lia)) as [m2 [H2 Fx]]. exists m2. split; auto.
    intros St'. apply (en_of m2 t th (St' m2 ltac:(lia))).
    apply enabled_if; auto; destruct Hp as [P|P]; rewrite P; try exact I; try congruence; intros Q; discriminate Q.
  Qed.

  (* ---- a thread at a loop program counter whose operation needs nothing takes that step *)
  Definition alwL (p : pc) : bool := match p with E1 | F1 | F3 | F5 | R0 | R2 | R4 | R6 | R7 => true | _ => false end.

  Lemma step_alw m u thu : thr m u = Some thu -> alwL (t_pc thu) = true ->
    exists m1, m <= m1 /\ tk m1 u /\ thr m1 u = Some thu.
  Proof.
    intros Hu Hp. destruct (must_step v calls sigma Hfair m u thu Hu) as [m1 [H1 [T1 S1]]].
    { intros m1 H1 St. exists m1. split; auto. intros St'. apply (en_of m1 u thu (St' m1 ltac:(lia))).
      apply enabled_if; auto; destruct (t_pc thu); cbn in Hp; try discriminate; try exact I; intros Q; discriminate Q. }
    exists m1. split; [auto|split; [auto|apply S1; lia]].
  Qed.

  (* ---- C4: the internal condition's lock is free again and again *)
  Lemma LI m : n0 <= m -> exists m', m <= m' /\ lkI (sh (s m')) = None.
  Proof.
    intros Hm. destruct (lkI (sh (s m))) as [u|] eqn:E; [|exists m; auto].
    destruct (proj2 (inv_I _ (s_inv v calls sigma Hf m)) u E) as [thu [Hu Hh]].
    assert (Hp : t_pc thu = R2 \/ t_pc thu = R4 \/ t_pc thu = R6 \/ t_pc thu = R7).
    { unfold holdsI in Hh. destruct (t_pc thu) eqn:P; cbn in Hh; try discriminate; auto;
        exfalso; apply (C1 m u thu Hm Hu); rewrite P; reflexivity. }
    assert (Rel : forall m0 th0, n0 <= m0 -> thr m0 u = Some th0 -> (t_pc th0 = R2 \/ t_pc th0 = R4 \/ t_pc th0 = R7) ->
                  exists m', m0 <= m' /\ lkI (sh (s m')) = None).
    { intros m0 th0 H0 Hu0 P0.
      destruct (step_alw m0 u th0 Hu0) as [m1 [H1 [T1 S1]]]; [destruct P0 as [P|[P|P]]; rewrite P; reflexivity|].
      destruct (step_at m1 u th0 T1 S1) as [c [sh' [th' [Hs [Hsh _]]]]].
      exists (S m1). split; [lia|]. rewrite Hsh. unfold step_th in Hs.
      destruct P0 as [P|[P|P]]; rewrite P in Hs; inversion Hs; reflexivity. }
    destruct Hp as [P|[P|[P|P]]]; try (apply (Rel m thu Hm Hu); auto; fail).
    (* R6: notify, then R7 releases *)
    destruct (step_alw m u thu Hu) as [m1 [H1 [T1 S1]]]; [rewrite P; reflexivity|].
    destruct (tk_loop m1 u thu ltac:(lia) T1 S1) as [_ Nx]. rewrite P in Nx. cbn in Nx.
    destruct (Rel (S m1) _ ltac:(lia) Nx) as [m' [Hm' Fr]]; [cbn; auto|]. exists m'. split; [lia|auto].
  Qed.

  (* a thread that is not in the internal wait queue stays out of it as long as it does not move *)
  Lemma notin_wq_stays m m1 t th : stays m m1 t th -> m <= m1 -> ~ In t (wqI (sh (s m))) -> ~ In t (wqI (sh (s m1))).
  Proof.
    intros St Hle. induction Hle as [|m1 Hle IH]; auto. intros Hn.
    assert (St' : stays m m1 t th) by (intros k Hk; apply St; lia).
    specialize (IH St' Hn). intros Hin.
    assert (NT : ~ tk m1 t) by (apply (stays_no_tk v calls sigma Hf m (S m1) t th m1 St); lia).
    rewrite (s_succ v calls sigma m1) in Hin.
    destruct (step v (s m1) (fst (sigma m1)) (snd (sigma m1))) as [st'|] eqn:E; [|contradiction].
    unfold step in E. destruct (nth_error (threads (s m1)) (fst (sigma m1))) as [thu|] eqn:Hu; [|discriminate].
    destruct (step_th v (sh (s m1)) (fst (sigma m1)) thu (snd (sigma m1))) as [[sh' th']|] eqn:Hs; [|discriminate].
    inversion E; subst st'. cbn in Hin. destruct (wq_add_only v _ _ _ _ _ _ t Hs Hin) as [Eq|Old]; [|contradiction].
    subst t. apply NT. split; [reflexivity|]. fold (s m1). unfold step. rewrite Hu, Hs. discriminate.
  Qed.

  (* ---- C5: nobody outside the polling loop waits for the internal condition's lock *)
  Lemma C5 m t th : n0 <= m -> thr m t = Some th ->
    (t_pc th = N2 \/ t_pc th = H1 \/ (t_pc th = N4 /\ ~ In t (wqI (sh (s m))))) -> False.
  Proof.
    intros Hm Ht Hp. apply (exclude m t th Hm Ht); [destruct Hp as [P|[P|[P _]]]; rewrite P; reflexivity|].
    intros m1 H1 St. destruct (LI m1 ltac:(lia)) as [m2 [H2 Fi]]. exists m2. split; auto.
    intros St'. apply (en_of m2 t th (St' m2 ltac:(lia))).
    apply enabled_if; auto; destruct Hp as [P|[P|[P Hw]]]; rewrite P; try exact I; try congruence; try (intros Q; discriminate Q).
    intros _. apply (notin_wq_stays m m2 t th St'); [lia|auto].
  Qed.

  (* ---- threads outside the loops do not move at all; threads in the polling loop stay in it *)
  Lemma frozen m m' t th : n0 <= m -> m <= m' -> thr m t = Some th -> inloop (t_pc th) = false -> thr m' t = Some th.
  Proof.
    intros Hm Hle Ht Hl. induction Hle as [|m' Hle IH]; auto.
    destruct (classic (tk m' t)) as [T|NT].
    - destruct (tk_loop m' t th ltac:(lia) T IH) as [A _]. congruence.
    - rewrite (thr_not_taken v calls sigma m' t NT). exact IH.
  Qed.

  Definition isR (p : pc) : bool := match p with R0 | R1 | R2 | R3 | R4 | R5 | R6 | R7 => true | _ => false end.

  Lemma R_persist m m' x thx : n0 <= m -> m <= m' -> thr m x = Some thx -> isR (t_pc thx) = true ->
    exists thx', thr m' x = Some thx' /\ isR (t_pc thx') = true /\ t_exec thx' = t_exec thx.
  Proof.
    intros Hm Hle Hx Hp. induction Hle as [|m' Hle IH]; [exists thx; auto|].
    destruct IH as [th1 [A [B C]]].
    destruct (classic (tk m' x)) as [T|NT].
    - destruct (tk_loop m' x th1 ltac:(lia) T A) as [_ Nx]. exists (set_pc th1 (succL (t_pc th1))). split; auto.
      split; [destruct (t_pc th1); cbn in *; congruence|exact C].
    - exists th1. rewrite (thr_not_taken v calls sigma m' x NT). auto.
  Qed.

  (* a polling executor takes the step it is at *)
  Lemma R_advance m x thx : n0 <= m -> thr m x = Some thx -> isR (t_pc thx) = true ->
    exists m1, m <= m1 /\ tk m1 x /\ thr m1 x = Some thx.
  Proof.
    intros Hm Hx Hp. destruct (must_step v calls sigma Hfair m x thx Hx) as [m1 [H1 [T1 S1]]].
    { intros m1 H1 St. destruct (LI m1 ltac:(lia)) as [m2 [H2 Fi]]. exists m2. split; auto.
      intros St'. apply (en_of m2 x thx (St' m2 ltac:(lia))).
      apply enabled_if; auto; destruct (t_pc thx); cbn in Hp; try discriminate; try exact I; try assumption; intros Q; discriminate Q. }
    exists m1. split; [auto|split; [auto|apply S1; lia]].
  Qed.

  Fixpoint iterL (k : nat) (p : pc) : pc := match k with O => p | S j => iterL j (succL p) end.

  Lemma R_reach k : forall m x thx, n0 <= m -> thr m x = Some thx -> isR (t_pc thx) = true ->
    exists m', m <= m' /\ thr m' x = Some (set_pc thx (iterL k (t_pc thx))).
  Proof.
    induction k as [|k IH]; intros m x thx Hm Hx Hp.
    - exists m. split; auto. cbn. destruct thx; exact Hx.
    - destruct (R_advance m x thx Hm Hx Hp) as [m1 [H1 [T1 S1]]].
      destruct (tk_loop m1 x thx ltac:(lia) T1 S1) as [_ Nx].
      destruct (IH (S m1) x (set_pc thx (succL (t_pc thx))) ltac:(lia) Nx) as [m' [Hm' E]].
      { cbn. destruct (t_pc thx); cbn in *; congruence. }
      exists m'. split; [lia|]. cbn in E. cbn. exact E.
  Qed.

  Lemma notify_removes c q q' : notify_one c q = Some q' -> q <> [] -> NoDup q -> exists u, In u q /\ ~ In u q'.
  Proof.
    unfold notify_one. destruct q as [|a q]; [congruence|]. destruct (c <? length (a :: q)) eqn:E; [|discriminate].
    intros H _ Hn. inversion H; subst q'. clear H. apply Nat.ltb_lt in E.
    revert c E. induction Hn as [|b l Hb Hl IH]; intros c E; [cbn in E; lia|].
    destruct c as [|c]; cbn.
    - exists b. split; auto.
    - destruct l as [|d l']; [cbn in E; lia|]. destruct (IH c ltac:(cbn in *; lia)) as [u [A B]].
      exists u. split; [right; auto|]. intros [Q|Q]; [subst; contradiction|contradiction].
  Qed.

  (* the variable lock is free whenever an executor is polling *)
  Lemma R_V_free m x thx : n0 <= m -> thr m x = Some thx -> isR (t_pc thx) = true -> lkV (sh (s m)) = None.
  Proof.
    intros Hm Hx Hp. pose proof (s_inv v calls sigma Hf m) as HI.
    destruct (lkV (sh (s m))) as [u|] eqn:E; auto. exfalso.
    destruct (proj2 (inv_V _ HI) u E) as [thu [Hu Hh]]. unfold holdsV in Hh.
    destruct (t_pc thu) eqn:P; cbn in Hh; try discriminate;
      try (apply (C1 m u thu Hm Hu); rewrite P; reflexivity);
      try (apply (C5 m u thu Hm Hu); rewrite P; auto; fail).
    (* X1: a second executor *)
    assert (Hne : u <> x) by (intros ->; unfold FairBase_proofs.thr in *; rewrite Hu in Hx; inversion Hx; subst; rewrite P in Hp; discriminate).
    pose proof (cnt_ge_two pXa (threads (s m)) u x thu thx Hne Hu Hx) as GA.
    pose proof (cnt_ge_two pXb (threads (s m)) u x thu thx Hne Hu Hx) as GB.
    pose proof (inv_one _ HI) as I1.
    assert (pXa thu = true) as Ea by (unfold pXa; rewrite P; auto). rewrite Ea in GA.
    assert (pXb thx = true) as Eb by (unfold pXb; destruct (t_pc thx); cbn in *; auto; discriminate). rewrite Eb in GB.
    cbn in *. destruct (pXa thx), (pXb thu); cbn in *; lia.
  Qed.

  (* ---- C6: no executor is polling *)
  Lemma C6 m x thx : n0 <= m -> thr m x = Some thx -> isR (t_pc thx) = true -> False.
  Proof.
    intros Hm Hx Hp.
    (* bring it to R0 and let it read the counter *)
    assert (K : exists k, iterL k (t_pc thx) = R0) by
      (destruct (t_pc thx); cbn in Hp; try discriminate;
       [exists 0|exists 7|exists 6|exists 5|exists 4|exists 3|exists 2|exists 1]; reflexivity).
    destruct K as [k Ek]. destruct (R_reach k m x thx Hm Hx Hp) as [m0 [H0 X0]]. rewrite Ek in X0.
    set (th0 := set_pc thx R0) in *.
    destruct (R_advance m0 x th0 ltac:(lia) X0 eq_refl) as [m1 [H1 [T1 S1]]].
    destruct (tk_loop m1 x th0 ltac:(lia) T1 S1) as [_ Nx].
    destruct (step_at m1 x th0 T1 S1) as [c [sh' [th' [Hs [Hsh [Hth _]]]]]].
    assert (Htc : 0 < tc (sh (s m1))).
    { unfold step_th in Hs. cbn in Hs. inversion Hs; subst th'. rewrite Hth in Nx. inversion Nx as [Q].
      destruct (tc (sh (s m1))); [discriminate Q|lia]. }
    pose proof (s_inv v calls sigma Hf m1) as HI.
    pose proof (cnt_ge_b2n pXb (threads (s m1)) x th0 S1) as GB. unfold pXb at 1 in GB. cbn in GB.
    pose proof (inv_tc _ HI) as Itc. pose proof (inv_noent _ HI) as Ine. pose proof (inv_one _ HI) as I1.
    assert (ZE : cnt pEnt (threads (s m1)) = 0) by (apply Ine; lia).
    destruct (cnt_pos_ex pCnt (threads (s m1))) as [u [thu [Hu HPu]]]; [lia|].
    assert (Hne : u <> x).
    { intros ->. unfold FairBase_proofs.thr in S1. rewrite Hu in S1. inversion S1; subst. discriminate. }
    (* who can that member be *)
    assert (Mem : t_pc thu = N4 /\ In u (wqI (sh (s m1)))).
    { unfold pCnt in HPu. destruct (t_pc thu) eqn:P; cbn in HPu; try discriminate;
        try (exfalso; apply (C1 m1 u thu ltac:(lia) Hu); rewrite P; reflexivity);
        try (exfalso; apply (C5 m1 u thu ltac:(lia) Hu); rewrite P; auto; fail).
      - (* X1 *) exfalso. pose proof (cnt_ge_two pXb (threads (s m1)) u x thu th0 Hne Hu S1) as G2.
        pose proof (cnt_ge_b2n pXa (threads (s m1)) u thu Hu) as G3. unfold pXa at 1 in G3. rewrite P in G3. cbn in G3, G2.
        lia.
      - (* N4 *) split; auto. destruct (in_dec Nat.eq_dec u (wqI (sh (s m1)))) as [Y|Nn]; auto.
        exfalso. apply (C5 m1 u thu ltac:(lia) Hu). rewrite P. auto.
      - (* H0: the variable lock stays free *) exfalso.
        apply (exclude m1 u thu ltac:(lia) Hu); [rewrite P; reflexivity|].
        intros m2 H2 St. exists m2. split; auto. intros St'. apply (en_of m2 u thu (St' m2 ltac:(lia))).
        destruct (R_persist m1 m2 x th0 ltac:(lia) H2 S1 eq_refl) as [thx2 [X2 [P2 _]]].
        apply enabled_if; auto; rewrite P; try exact I; try congruence; try (intros Q; discriminate Q).
        apply (R_V_free m2 x thx2 ltac:(lia) X2 P2). }
    destruct Mem as [Pu Wu].
    (* go on to R6 and notify *)
    destruct (R_reach 5 (S m1) x _ ltac:(lia) Nx eq_refl) as [m6 [H6 X6]]. cbn in X6.
    set (th6 := set_pc (set_pc th0 R1) R6) in *.
    destruct (R_advance m6 x th6 ltac:(lia) X6 eq_refl) as [m7 [H7 [T7 S7]]].
    destruct (step_at m7 x th6 T7 S7) as [c7 [sh7 [th7 [Hs7 [Hsh7 [_ Hthr7]]]]]].
    pose proof (frozen m1 m7 u thu ltac:(lia) ltac:(lia) Hu ltac:(rewrite Pu; reflexivity)) as Hu7.
    unfold step_th in Hs7. cbn in Hs7.
    destruct (notify_one c7 (wqI (sh (s m7)))) as [q'|] eqn:Nq; [|discriminate]. inversion Hs7 as [[Q1 Q2]]. clear Hs7.
    destruct (wqI (sh (s m7))) as [|a q] eqn:Wq.
    - (* empty queue: the member was woken *) apply (C5 m7 u thu ltac:(lia) Hu7). right. right. split; auto. rewrite Wq. auto.
    - pose proof (nodup_reachable v (s m7) Hf (s_reachable v calls sigma m7)) as Nd. rewrite Wq in Nd.
      destruct (notify_removes c7 (a :: q) q' Nq ltac:(discriminate) Nd) as [u' [In1 Nin]].
      pose proof (s_inv v calls sigma Hf m7) as HI7.
      destruct (inv_wqI _ HI7 u') as [thu' [Hu' Pu']]; [rewrite Wq; auto|].
      assert (Hne' : u' <> x).
      { intros ->. unfold FairBase_proofs.thr in S7. rewrite Hu' in S7. inversion S7; subst. destruct Pu'; discriminate. }
      destruct Pu' as [P4|P3].
      + (* a member at N4 that is now out of the queue *)
        apply (C5 (S m7) u' thu' ltac:(lia)).
        * unfold FairBase_proofs.thr. rewrite Hthr7. rewrite nth_error_upd_neq; auto.
        * right. right. split; auto. rewrite Hsh7, <- Q1. cbn. exact Nin.
      + (* R3: a second polling executor *)
        pose proof (cnt_ge_two pXb (threads (s m7)) u' x thu' th6 Hne' Hu' S7) as G2.
        unfold pXb in G2 at 1 2. rewrite P3 in G2. cbn in G2. pose proof (inv_one _ HI7). cbn in *. lia.
  Qed.

  (* ---- C7: no executor-to-be waits for the entry lock *)
  Lemma C7 m u thu : n0 <= m -> thr m u = Some thu -> t_pc thu = X1 -> False.
  Proof.
    intros Hm Hu P. apply (exclude m u thu Hm Hu); [rewrite P; reflexivity|].
    intros m1 H1 St.
    assert (LE : exists m2, m1 <= m2 /\ lkE (sh (s m2)) = None).
    { pose proof (s_inv v calls sigma Hf m1) as HI.
      pose proof (frozen m m1 u thu Hm H1 Hu ltac:(rewrite P; reflexivity)) as Hu1.
      destruct (lkE (sh (s m1))) as [w|] eqn:E; [|exists m1; auto].
      destruct (proj2 (inv_E _ HI) w E) as [thw [Hw Hh]].
      assert (Hne : w <> u) by (intros ->; unfold FairBase_proofs.thr in *; rewrite Hw in Hu1; inversion Hu1; subst; unfold holdsE in Hh; rewrite P in Hh; discriminate).
      assert (NoXb : pXb thw = true -> False).
      { intros Eb. pose proof (cnt_ge_two pXb (threads (s m1)) w u thw thu Hne Hw Hu1) as GB.
        pose proof (cnt_ge_two pXa (threads (s m1)) w u thw thu Hne Hw Hu1) as GA.
        rewrite Eb in GB. assert (pXa thu = true) as Ea by (unfold pXa; rewrite P; auto). rewrite Ea in GA.
        pose proof (inv_one _ HI). cbn in *. destruct (pXa thw), (pXb thu); cbn in *; lia. }
      assert (Rel : forall m0 th0, m1 <= m0 -> thr m0 w = Some th0 -> t_pc th0 = F1 -> exists m2, m1 <= m2 /\ lkE (sh (s m2)) = None).
      { intros m0 th0 H0 Hw0 P0. destruct (step_alw m0 w th0 Hw0) as [m3 [H3 [T3 S3]]]; [rewrite P0; reflexivity|].
        destruct (step_at m3 w th0 T3 S3) as [c [sh' [th' [Hs [Hsh _]]]]].
        exists (S m3). split; [lia|]. rewrite Hsh. unfold step_th in Hs. rewrite P0 in Hs. inversion Hs; reflexivity. }
      unfold holdsE in Hh. destruct (t_pc thw) eqn:Pw; cbn in Hh; try discriminate;
        try (exfalso; apply (C1 m1 w thw ltac:(lia) Hw); rewrite Pw; reflexivity);
        try (exfalso; apply (C5 m1 w thw ltac:(lia) Hw); rewrite Pw; auto; fail);
        try (exfalso; apply (C6 m1 w thw ltac:(lia) Hw); rewrite Pw; reflexivity);
        try (exfalso; apply NoXb; unfold pXb; rewrite Pw, ?Hh; reflexivity).
      - (* E1: the try-acquire fails, then F1 releases *)
        destruct (step_alw m1 w thw Hw) as [m3 [H3 [T3 S3]]]; [rewrite Pw; reflexivity|].
        destruct (tk_loop m3 w thw ltac:(lia) T3 S3) as [_ Nx]. rewrite Pw in Nx. cbn in Nx.
        apply (Rel (S m3) _ ltac:(lia) Nx). reflexivity.
      - (* F1 *) apply (Rel m1 thw ltac:(lia) Hw Pw). }
    destruct LE as [m2 [H2 Fe]]. exists m2. split; auto. intros St'. apply (en_of m2 u thu (St' m2 ltac:(lia))).
    apply enabled_if; auto; rewrite P; try exact I; try congruence; intros Q; discriminate Q.
  Qed.

  (* ---- C8: the variable lock is free *)
  Lemma C8 m : n0 <= m -> lkV (sh (s m)) = None.
  Proof.
    intros Hm. pose proof (s_inv v calls sigma Hf m) as HI.
    destruct (lkV (sh (s m))) as [u|] eqn:E; auto. exfalso.
    destruct (proj2 (inv_V _ HI) u E) as [thu [Hu Hh]]. unfold holdsV in Hh.
    destruct (t_pc thu) eqn:P; cbn in Hh; try discriminate;
      try (apply (C1 m u thu Hm Hu); rewrite P; reflexivity);
      try (apply (C5 m u thu Hm Hu); rewrite P; auto; fail).
    apply (C7 m u thu Hm Hu P).
  Qed.

  (* ---- C9: nobody waits for the variable lock *)
  Lemma C9 m t th : n0 <= m -> thr m t = Some th -> (t_pc th = G0 \/ t_pc th = H0 \/ t_pc th = C0) -> False.
  Proof.
    intros Hm Ht Hp. apply (exclude m t th Hm Ht); [destruct Hp as [P|[P|P]]; rewrite P; reflexivity|].
    intros m1 H1 St. exists m1. split; auto. intros St'. apply (en_of m1 t th (St' m1 ltac:(lia))).
    pose proof (C8 m1 ltac:(lia)) as Fv.
    apply enabled_if; auto; destruct Hp as [P|[P|P]]; rewrite P; try exact I; try congruence; intros Q; discriminate Q.
  Qed.

  (* ---- C10: nobody waits to be notified *)
  Lemma C10 m t th : n0 <= m -> thr m t = Some th -> t_pc th = N4 -> False.
  Proof.
    intros Hm Ht P. pose proof (s_inv v calls sigma Hf m) as HI.
    pose proof (cnt_ge_b2n pCnt (threads (s m)) t th Ht) as GC. unfold pCnt in GC at 1. rewrite P in GC. cbn in GC.
    assert (None_at : forall (Q : thread -> bool), 0 < cnt Q (threads (s m)) ->
              (forall u thu, thr m u = Some thu -> Q thu = true -> False) -> False).
    { intros Q Hpos HQ. destruct (cnt_pos_ex Q _ Hpos) as [u [thu [Hu HQu]]]. apply (HQ u thu Hu HQu). }
    destruct (ready (sh (s m))) eqn:Hrd.
    - apply (None_at pXb); [pose proof (inv_ready _ HI) as R; rewrite Hrd in R; cbn in R; lia|].
      intros u thu Hu Q. unfold pXb in Q. destruct (t_pc thu) eqn:Pu; cbn in Q; try discriminate;
        try (apply (C1 m u thu Hm Hu); rewrite Pu; reflexivity);
        try (apply (C5 m u thu Hm Hu); rewrite Pu; auto; fail);
        try (apply (C6 m u thu Hm Hu); rewrite Pu; reflexivity);
        try (apply (C9 m u thu Hm Hu); rewrite Pu; auto; fail).
    - destruct (cnt pEnt (threads (s m))) eqn:En.
      + apply (None_at pXa); [apply (inv_exec _ HI); [rewrite Hrd; reflexivity|auto|lia]|].
        intros u thu Hu Q. unfold pXa in Q. destruct (t_pc thu) eqn:Pu; cbn in Q; try discriminate;
          try (apply (C1 m u thu Hm Hu); rewrite Pu; reflexivity).
        apply (C7 m u thu Hm Hu Pu).
      + apply (None_at pEnt); [lia|].
        intros u thu Hu Q. unfold pEnt in Q. destruct (t_pc thu) eqn:Pu; cbn in Q; try discriminate;
          try (apply (C1 m u thu Hm Hu); rewrite Pu; reflexivity);
          try (apply (C3 m u thu Hm Hu); rewrite Pu; auto; fail);
          try (apply (C9 m u thu Hm Hu); rewrite Pu; auto; fail).
  Qed.

  (* ---- every thread that is not finished is in the retry loop *)
  Definition isF (p : pc) : bool := match p with E0 | E1 | F1 | F2 | F3 | F4 | F5 => true | _ => false end.

  Lemma alive_F m t th : n0 <= m -> thr m t = Some th -> t_pc th <> Done -> isF (t_pc th) = true.
  Proof.
    intros Hm Ht Hd. destruct (t_pc th) eqn:P; try reflexivity; try congruence; exfalso;
      try (apply (C1 m t th Hm Ht); rewrite P; reflexivity);
      try (apply (C3 m t th Hm Ht); rewrite P; auto; fail);
      try (apply (C5 m t th Hm Ht); rewrite P; auto; fail);
      try (apply (C6 m t th Hm Ht); rewrite P; reflexivity);
      try (apply (C9 m t th Hm Ht); rewrite P; auto; fail).
    - apply (C7 m t th Hm Ht P).
    - apply (C10 m t th Hm Ht P).
  Qed.

  (* ---- C11: nobody is about to try the variable lock (it would succeed) *)
  Lemma C11 m t th : n0 <= m -> thr m t = Some th -> t_pc th = E1 -> False.
  Proof.
    intros Hm Ht P. destruct (step_alw m t th Ht) as [m1 [H1 [T1 S1]]]; [rewrite P; reflexivity|].
    destruct (tk_loop m1 t th ltac:(lia) T1 S1) as [_ Nx].
    destruct (step_at m1 t th T1 S1) as [c [sh' [th' [Hs [_ [Hth _]]]]]].
    unfold step_th in Hs. rewrite P in Hs. rewrite (C8 m1 ltac:(lia)) in Hs. cbn in Hs. inversion Hs; subst th'.
    rewrite Hth in Nx. inversion Nx as [Q]. rewrite P in Q. discriminate Q.
  Qed.

  (* ---- the entry lock is free again and again *)
  Lemma LE m : n0 <= m -> exists m', m <= m' /\ lkE (sh (s m')) = None.
  Proof.
    intros Hm. pose proof (s_inv v calls sigma Hf m) as HI.
    destruct (lkE (sh (s m))) as [w|] eqn:E; [|exists m; auto].
    destruct (proj2 (inv_E _ HI) w E) as [thw [Hw Hh]].
    assert (Hd : t_pc thw <> Done) by (intros Q; unfold holdsE in Hh; rewrite Q in Hh; discriminate).
    pose proof (alive_F m w thw Hm Hw Hd) as HF.
    unfold holdsE in Hh. destruct (t_pc thw) eqn:Pw; cbn in Hh, HF; try discriminate.
    - exfalso. apply (C11 m w thw Hm Hw Pw).
    - destruct (step_alw m w thw Hw) as [m3 [H3 [T3 S3]]]; [rewrite Pw; reflexivity|].
      destruct (step_at m3 w thw T3 S3) as [c [sh' [th' [Hs [Hsh _]]]]].
      exists (S m3). split; [lia|]. rewrite Hsh. unfold step_th in Hs. rewrite Pw in Hs. inversion Hs; reflexivity.
  Qed.

  (* ---- a retrying thread takes the step it is at, and so comes round to E1 *)
  Lemma F_advance m x thx : n0 <= m -> thr m x = Some thx -> isF (t_pc thx) = true ->
    exists m1, m <= m1 /\ tk m1 x /\ thr m1 x = Some thx.
  Proof.
    intros Hm Hx Hp. destruct (must_step v calls sigma Hfair m x thx Hx) as [m1 [H1 [T1 S1]]].
    { intros m1 H1 St. destruct (LE m1 ltac:(lia)) as [m2 [H2 Fe]]. destruct (LX m1 ltac:(lia)) as [m3 [H3 Fx]].
      destruct (t_pc thx) eqn:P; cbn in Hp; try discriminate.
      1: exists m2; split; auto; intros St'; apply (en_of m2 x thx (St' m2 ltac:(lia)));
         apply enabled_if; auto; rewrite P; try exact I; try congruence; intros Q; discriminate Q.
      all: exists m3; split; auto; intros St'; apply (en_of m3 x thx (St' m3 ltac:(lia)));
           apply enabled_if; auto; rewrite P; try exact I; try congruence; intros Q; discriminate Q. }
    exists m1. split; [auto|split; [auto|apply S1; lia]].
  Qed.

  Lemma F_reach k : forall m x thx, n0 <= m -> thr m x = Some thx -> isF (t_pc thx) = true ->
    exists m', m <= m' /\ thr m' x = Some (set_pc thx (iterL k (t_pc thx))).
  Proof.
    induction k as [|k IH]; intros m x thx Hm Hx Hp.
    - exists m. split; auto. cbn. destruct thx; exact Hx.
    - destruct (F_advance m x thx Hm Hx Hp) as [m1 [H1 [T1 S1]]].
      destruct (tk_loop m1 x thx ltac:(lia) T1 S1) as [_ Nx].
      destruct (IH (S m1) x (set_pc thx (succL (t_pc thx))) ltac:(lia) Nx) as [m' [Hm' E]].
      { cbn. destruct (t_pc thx); cbn in *; congruence. }
      exists m'. split; [lia|]. cbn in E. cbn. exact E.
  Qed.

  (* ---- the contradiction *)
  Hypothesis Halive : all_done (s n0) = false.

  Theorem stagnation_impossible : False.
  Proof.
    destruct (not_all_done _ Halive) as [t [th [Ht Hd]]].
    pose proof (alive_F n0 t th (le_n _) Ht Hd) as HF.
    assert (K : exists k, iterL k (t_pc th) = E1) by
      (destruct (t_pc th); cbn in HF; try discriminate;
       [exists 1|exists 0|exists 6|exists 5|exists 4|exists 3|exists 2]; reflexivity).
    destruct K as [k Ek]. destruct (F_reach k n0 t th (le_n _) Ht HF) as [m [Hm X]]. rewrite Ek in X.
    apply (C11 m t _ Hm X). reflexivity.
  Qed.
End Stagnant.
