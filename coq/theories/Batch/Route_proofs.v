(* Batch/Route_proofs.v — C06 (routing, exactly once), C07 (exclusion), C09 (failure delivery, reset) as corollaries of Inv. *)
From QV Require Import Common.Base Batch.Monitor Batch.ListX Batch.Inv Batch.InvNum_proofs Batch.Inv_proofs Batch.Route.
From Coq Require Import Permutation.

(* ------------------------------------------------------------------ C07 *)
Theorem batching_exclusive v st : failure_path_repaired v = true -> reachable v st ->
  (forall t1 t2 th1 th2, nth_error (threads st) t1 = Some th1 -> nth_error (threads st) t2 = Some th2 ->
     in_use th1 = true -> in_use th2 = true -> t1 = t2)
  /\ (forall t th, nth_error (threads st) t = Some th -> in_use th = true ->
        lkV (sh st) = Some t /\ lkE (sh st) = Some t).
Proof.
  intros Hf Hr. pose proof (reachable_inv v st Hf Hr) as HI.
  assert (A : forall t th, nth_error (threads st) t = Some th -> in_use th = true -> lkV (sh st) = Some t /\ lkE (sh st) = Some t).
  { intros t th H U. unfold in_use in U. destruct (t_pc th) eqn:E; try discriminate. split.
    - apply (proj1 (inv_V _ HI) t th H). unfold holdsV. rewrite E. auto.
    - apply (proj1 (inv_E _ HI) t th H). unfold holdsE. rewrite E. auto. }
  split; auto. intros t1 t2 th1 th2 H1 H2 U1 U2.
  destruct (A _ _ H1 U1) as [B1 _]. destruct (A _ _ H2 U2) as [B2 _]. congruence.
Qed.

(* ------------------------------------------------------------------ C06 slice / C09 delivery *)
Theorem returned_good v st pubs o : failure_path_repaired v = true -> reachable v st ->
  returned st pubs o -> out_good (log (sh st)) pubs o.
Proof.
  intros Hf Hr [t [th [H1 H2]]]. pose proof (reachable_inv v st Hf Hr) as HI.
  destruct (inv_th _ HI t th H1) as [_ [_ [_ [_ [_ [T6 _]]]]]]. apply (T6 _ H2).
Qed.

Theorem slice_returned {A} (R : nat -> pub -> A) v st pubs k idx : failure_path_repaired v = true -> reachable v st ->
  returned st pubs (RetOk k idx) ->
  wrapper_return R (log (sh st)) pubs (RetOk k idx) = Ok (results R k pubs)
  /\ exists arg, nth_error (log (sh st)) k = Some (arg, true) /\ firstn (length pubs) (skipn idx arg) = pubs.
Proof.
  intros Hf Hr Hret. pose proof (returned_good v st pubs _ Hf Hr Hret) as [arg [H1 H2]]. split.
  - cbn. rewrite H1. unfold results. apply slice_of_slice_at. exact H2.
  - exists arg. split; auto. apply firstn_skipn_slice_at. exact H2.
Qed.

Theorem failure_delivered v st pubs o : failure_path_repaired v = true -> reachable v st ->
  returned st pubs o ->
  exists k idx arg ok, nth_error (log (sh st)) k = Some (arg, ok) /\ slice_at arg idx pubs
                       /\ o = (if ok then RetOk k idx else RetExc k idx).
Proof.
  intros Hf Hr Hret. pose proof (returned_good v st pubs o Hf Hr Hret) as G.
  destruct o as [k idx|k idx|]; cbn in G; [| |contradiction]; destruct G as [arg [H1 H2]].
  - exists k, idx, arg, true. auto.
  - exists k, idx, arg, false. auto.
Qed.

(* ------------------------------------------------------------------ C09 reset *)
Theorem reset_when_no_batch v st : failure_path_repaired v = true -> reachable v st -> no_open_batch st ->
  fields_initial (sh st) /\ lkV (sh st) = None.
Proof.
  intros Hf Hr Hn. pose proof (reachable_inv v st Hf Hr) as HI. unfold no_open_batch, in_protocol in Hn.
  assert (ZE : cnt pEnt (threads st) = 0).
  { apply cnt_all_false. intros t th H. specialize (Hn t th H). unfold pEnt. destruct (pcEnt (t_pc th)); auto. }
  assert (ZC : cnt pCnt (threads st) = 0).
  { apply cnt_all_false. intros t th H. specialize (Hn t th H). unfold pCnt. destruct (pcCnt (t_pc th)); auto. rewrite orb_true_r in Hn. discriminate. }
  assert (ZB : cnt pXb (threads st) = 0).
  { apply cnt_all_false. intros t th H. specialize (Hn t th H). unfold pXb. destruct (pcXb (t_pc th) (t_exec th)); auto.
    rewrite orb_true_r in Hn. discriminate. }
  assert (ZA : cnt pXa (threads st) = 0).
  { apply cnt_all_false. intros t th H. pose proof (cnt_zero_all pCnt _ t th ZC H) as B. unfold pCnt in B. unfold pXa.
    destruct (t_pc th); cbn in *; auto. }
  assert (Z3 : cnt pAt3 (threads st) = 0).
  { pose proof (cnt_xa (threads st)). lia. }
  assert (ZH : cnt pHanded (threads st) = 0).
  { pose proof (cnt_handed (threads st)). lia. }
  assert (Hrd : ready (sh st) = false).
  { apply ready_b2n_false. rewrite (inv_ready _ HI). exact ZB. }
  destruct (ready_false _ Hrd) as [R1 R2].
  split.
  - unfold fields_initial. repeat split; auto.
    + rewrite (inv_tc _ HI). lia.
    + rewrite (inv_ec _ HI); [lia|]. rewrite Hrd. reflexivity.
    + rewrite (inv_blen _ HI). rewrite (inv_idle _ HI); [reflexivity|lia].
    + apply (inv_idle _ HI). lia.
    + apply (inv_inflight _ HI). exact Z3.
    + pose proof (inv_handed _ HI) as B. rewrite ZH in B. destruct (handed (sh st)); [discriminate|auto].
  - destruct (lkV (sh st)) as [u|] eqn:E; auto.
    destruct (proj2 (inv_V _ HI) u E) as [th [H1 H2]]. specialize (Hn u th H1).
    unfold holdsV in H2. destruct (t_pc th); cbn in *; try discriminate.
    all: try (rewrite ?orb_true_r in Hn; discriminate).
Qed.

Theorem quiescent_initial v st : failure_path_repaired v = true -> reachable v st -> quiescent st ->
  fields_initial (sh st) /\ lkE (sh st) = None /\ lkV (sh st) = None /\ lkI (sh st) = None /\ lkX (sh st) = None
  /\ wqI (sh st) = [] /\ wqX (sh st) = [].
Proof.
  intros Hf Hr Hq. pose proof (reachable_inv v st Hf Hr) as HI.
  assert (Hn : no_open_batch st).
  { intros t th H. specialize (Hq t th H). unfold between_calls in Hq. unfold in_protocol. destruct (t_pc th); try discriminate; auto. }
  destruct (reset_when_no_batch v st Hf Hr Hn) as [F V]. split; auto.
  assert (L : forall lk holds, lock_ok lk holds (threads st) -> (forall th, between_calls th = true -> holds th = false) -> lk = None).
  { intros lk holds [_ L2] Hh. destruct lk as [u|]; auto. destruct (L2 u eq_refl) as [th [H1 H2]].
    rewrite (Hh th (Hq u th H1)) in H2. discriminate. }
  split; [|split; [auto|split; [|split]]].
  - apply (L _ _ (inv_E _ HI)). intros th B. unfold between_calls in B. unfold holdsE. destruct (t_pc th); try discriminate; auto.
  - apply (L _ _ (inv_I _ HI)). intros th B. unfold between_calls in B. unfold holdsI. destruct (t_pc th); try discriminate; auto.
  - apply (L _ _ (inv_X _ HI)). intros th B. unfold between_calls in B. unfold holdsX. destruct (t_pc th); try discriminate; auto.
  - split.
    + destruct (wqI (sh st)) as [|u q] eqn:E; auto. destruct (inv_wqI _ HI u) as [th [H1 H2]]; [rewrite E; left; auto|].
      specialize (Hq u th H1). unfold between_calls in Hq. destruct H2 as [H2|H2]; rewrite H2 in Hq; discriminate.
    + destruct (wqX (sh st)) as [|u q] eqn:E; auto. destruct (inv_wqX _ HI u) as [th [H1 H2]]; [rewrite E; left; auto|].
      specialize (Hq u th H1). unfold between_calls in Hq. rewrite H2 in Hq; discriminate.
Qed.

(* ------------------------------------------------------------------ C06 exactly once *)
Lemma pending_upd ths t th th' : nth_error ths t = Some th ->
  exists a b, pending ths = a ++ pending_th th ++ b /\ pending (upd t th' ths) = a ++ pending_th th' ++ b.
Proof.
  revert t; induction ths as [|x l IH]; intros [|t] H; cbn in H; try discriminate.
  - inversion H; subst. exists [], (pending l). unfold pending. cbn. auto.
  - destruct (IH t H) as [a [b [E1 E2]]]. exists (pending_th x ++ a), b. unfold pending in *. cbn.
    rewrite E1, E2. rewrite <- !app_assoc. auto.
Qed.

Lemma perm_move {A} (x a p r b : list A) : Permutation (x ++ a ++ (p ++ r) ++ b) ((x ++ p) ++ a ++ r ++ b).
Proof.
  rewrite <- !app_assoc. apply Permutation_app_head.
  rewrite !app_assoc. apply Permutation_app_tail. apply Permutation_app_tail. apply Permutation_app_comm.
Qed.

Lemma accounted_step v st t c st' : failure_path_repaired v = true -> Inv st -> step v st t c = Some st' ->
  Permutation (accounted st) (accounted st').
Proof.
  intros Hf HI H. destruct st as [s ths]. unfold step in H. cbn in H.
  destruct (nth_error ths t) as [th|] eqn:Hnth; [|discriminate].
  destruct (step_th v s t th c) as [[s' th']|] eqn:Hst; [|discriminate].
  inversion H; subst; clear H. unfold accounted. cbn [sh threads].
  destruct (pending_upd ths t th th' Hnth) as [a [b [P1 P2]]]. rewrite P1, P2. clear P1 P2.
  pose proof (thok_t s ths t th HI Hnth) as [_ [_ [_ [_ [_ [_ [T7 _]]]]]]].
  pose proof (E1_no_exec s ths t th HI Hnth) as HE1.
  pose proof (cnt_handed ths) as Dh. pose proof (cnt_xa ths) as Da.
  pose proof (cnt_ge_b2n pX12 ths t th Hnth) as G12. pose proof (cnt_ge_b2n pHanded ths t th Hnth) as GH.
  pose proof (inv_one _ HI) as Ione. pose proof (inv_handed _ HI) as Ihd. pose proof (inv_inflight _ HI) as Iinf. cbn in *.
  clear HI.
  unfold step_th in Hst. rewrite ?Hf in Hst. break_step Hst.
  all: unfold pending_th, logged, inflight_pubs, open_pubs, pX12, pHanded in *; rewrite ?Hpc in *; fin; cbn in *.
  all: try reflexivity.
  - (* E1 *) unfold free in *. dm. specialize (HE1 eq_refl eq_refl).
    assert (handed s = false) as -> by (destruct (handed s); cbn in *; [lia|auto]).
    apply Permutation_app_head. apply Permutation_app_head. rewrite <- (app_assoc (bpubs s) (t_pubs th)). apply Permutation_app_head.
    rewrite <- (app_assoc (t_pubs th)). rewrite !app_assoc. apply Permutation_app_tail. apply Permutation_app_tail. apply Permutation_app_comm.
  - (* X2 *)
    assert (handed s = false) as -> by (destruct (handed s); cbn in *; [lia|auto]).
    rewrite Iinf by lia. cbn. reflexivity.
  - (* X3 *) rewrite (T7 eq_refl). rewrite map_app, concat_app. cbn. rewrite app_nil_r. rewrite <- !app_assoc. reflexivity.
  - (* C0 *) assert (handed s = true) as -> by (destruct (handed s); cbn in *; [auto|lia]). reflexivity.
Qed.

Lemma accounted_init calls : accounted (init_state calls) = submitted calls.
Proof.
  unfold accounted, submitted, logged, inflight_pubs, open_pubs, pending. cbn. rewrite map_map. f_equal.
  apply map_ext. intros cl. destruct cl; cbn; auto.
Qed.

Lemma accounted_run v sched : failure_path_repaired v = true -> forall st st', Inv st -> run v st sched = Some st' ->
  Permutation (accounted st) (accounted st').
Proof.
  intros Hf. induction sched as [|[t c] r IH]; intros st st' HI H; cbn in H.
  - inversion H; subst; auto.
  - destruct (step v st t c) as [st1|] eqn:E; [|discriminate].
    eapply perm_trans; [eapply accounted_step; eauto|]. eapply IH; [|exact H]. eapply step_inv; eauto.
Qed.

Theorem exactly_once v calls sched st : failure_path_repaired v = true -> run v (init_state calls) sched = Some st ->
  Permutation (accounted st) (submitted calls).
Proof.
  intros Hf H. apply Permutation_sym. rewrite <- accounted_init. eapply accounted_run; eauto. apply init_inv.
Qed.

(* at quiescence everything submitted has been handed to the primitive, each pub exactly once *)
Theorem exactly_once_quiescent v calls sched st : failure_path_repaired v = true -> run v (init_state calls) sched = Some st ->
  all_done st = true -> Permutation (logged (sh st)) (submitted calls).
Proof.
  intros Hf H Hd. pose proof (exactly_once v calls sched st Hf H) as P.
  assert (Hr : reachable v st) by (exists calls, sched; auto).
  pose proof (reachable_inv v st Hf Hr) as HI.
  assert (Hq : quiescent st).
  { intros t th Ht. unfold all_done in Hd. rewrite forallb_forall in Hd. apply nth_error_In in Ht. specialize (Hd th Ht).
    unfold is_done in Hd. unfold between_calls. destruct (t_pc th); try discriminate; auto. }
  destruct (quiescent_initial v st Hf Hr Hq) as [[_ [_ [_ [B [_ [_ [Inf Hh]]]]]]] _].
  unfold accounted, inflight_pubs, open_pubs in P. rewrite Inf, Hh, B in P. cbn in P.
  assert (Z : pending (threads st) = []).
  { unfold pending. apply concat_nil_Forall. apply Forall_forall. intros x Hx. apply in_map_iff in Hx. destruct Hx as [th [<- Hth]].
    unfold all_done in Hd. rewrite forallb_forall in Hd. specialize (Hd th Hth). unfold is_done in Hd.
    destruct (In_nth_error _ _ Hth) as [n Hn]. destruct (inv_th _ HI n th Hn) as [_ [_ [_ [_ [_ [_ [_ [_ T10]]]]]]]].
    unfold pending_th. destruct (t_pc th); try discriminate. destruct (T10 eq_refl) as [-> ->]. reflexivity. }
  rewrite Z in P. rewrite app_nil_r in P. exact P.
Qed.

(* no call ever ends in "Result was not yet ready to retrieve!" *)
Theorem never_value_error v st pubs : failure_path_repaired v = true -> reachable v st ->
  ~ returned st pubs RetValueError.
Proof. intros Hf Hr H. exact (returned_good v st pubs _ Hf Hr H). Qed.

(* ------------------------------------------------------------------ C09: every member of a failed batch that returns gets that failure *)
Lemma NoDup_app_disj {A} (a b : list A) p : NoDup (a ++ b) -> In p a -> In p b -> False.
Proof.
  induction a as [|x a IH]; cbn; intros Hn I1 I2; [contradiction|]. inversion Hn; subst.
  destruct I1 as [->|I1]; [apply H1; apply in_or_app; auto|auto].
Qed.

Lemma NoDup_app_l {A} (a b : list A) : NoDup (a ++ b) -> NoDup a.
Proof. induction a as [|x a IH]; cbn; intros H; [constructor|]. inversion H; subst. constructor; [intros I; apply H2; apply in_or_app; auto|auto]. Qed.
Lemma NoDup_app_r {A} (a b : list A) : NoDup (a ++ b) -> NoDup b.
Proof. induction a as [|x a IH]; cbn; intros H; auto. inversion H; auto. Qed.

Lemma NoDup_concat_unique {A} (l : list (list A)) k k' a a' (p : A) :
  NoDup (concat l) -> nth_error l k = Some a -> nth_error l k' = Some a' -> In p a -> In p a' -> k = k'.
Proof.
  revert k k'; induction l as [|x l IH]; intros [|k] [|k'] Hn H1 H2 I1 I2; cbn in *; try discriminate; auto.
  - inversion H1; subst. exfalso. apply (NoDup_app_disj a (concat l) p); auto.
    apply in_concat. exists a'. split; auto. eapply nth_error_In; eauto.
  - inversion H2; subst. exfalso. apply (NoDup_app_disj a' (concat l) p); auto.
    apply in_concat. exists a. split; auto. eapply nth_error_In; eauto.
  - f_equal. apply (IH k k'); auto. apply NoDup_app_r in Hn. auto.
Qed.

Theorem failed_batch_members v calls sched st pubs o k arg p :
  failure_path_repaired v = true -> NoDup (submitted calls) -> run v (init_state calls) sched = Some st ->
  returned st pubs o -> nth_error (log (sh st)) k = Some (arg, false) -> In p pubs -> In p arg ->
  exists idx, o = RetExc k idx /\ slice_at arg idx pubs.
Proof.
  intros Hf Hnd Hrun Hret Hk Ip Ia.
  assert (Hr : reachable v st) by (exists calls, sched; auto).
  destruct (failure_delivered v st pubs o Hf Hr Hret) as [k' [idx [arg' [ok [H1 [H2 H3]]]]]].
  pose proof (exactly_once v calls sched st Hf Hrun) as P.
  assert (NdL : NoDup (logged (sh st))).
  { apply Permutation_sym in P. pose proof (Permutation_NoDup P Hnd) as N. unfold accounted in N.
    apply NoDup_app_l in N. exact N. }
  assert (Ip' : In p arg').
  { destruct H2 as [pre [post [-> _]]]. apply in_or_app. right. apply in_or_app. left. auto. }
  assert (E : k = k').
  { unfold logged in NdL. apply (NoDup_concat_unique (map fst (log (sh st))) k k' arg arg' p NdL); auto.
    - rewrite nth_error_map, Hk. reflexivity.
    - rewrite nth_error_map, H1. reflexivity. }
  subst k'. rewrite Hk in H1. inversion H1; subst. exists idx. auto.
Qed.
