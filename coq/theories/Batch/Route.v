(* Batch/Route.v — what C06, C07 and C09 say about the monitor (definitions; proofs in Route_proofs.v). *)
From QV Require Import Common.Base Batch.Monitor Batch.ListX Batch.Inv.
From Coq Require Import Permutation.

(* the wrapped primitive is in use by this thread: f(...) has been called and .result() has not yet come back *)
Definition in_use (th : thread) : bool := match t_pc th with X3 => true | _ => false end.

(* a finished call (pubs, o) of some thread *)
Definition returned (st : state) (pubs : list pub) (o : outcome) : Prop :=
  exists t th, nth_error (threads st) t = Some th /\ In (pubs, o) (t_outs th).

(* every pub a state still has to deliver or has delivered to the primitive:
   completed invocations ++ the invocation in progress ++ the open batch ++ what the threads have not yet appended *)
Definition accounted (st : state) : list pub :=
  logged (sh st) ++ inflight_pubs (sh st) ++ open_pubs (sh st) ++ pending (threads st).

Definition submitted (calls : list (list (list pub))) : list pub := concat (map (@concat pub) calls).

(* no thread is between entering a batch and leaving it (members: until V is released after gathering; the executor:
   until it has reset the shared fields and released V) *)
Definition in_protocol (th : thread) : bool :=
  pcEnt (t_pc th) || pcCnt (t_pc th) || pcXb (t_pc th) (t_exec th) || match t_pc th with H1 | H2 | H3 | H4 | C1 => true | _ => false end.
Definition no_open_batch (st : state) : Prop := forall t th, nth_error (threads st) t = Some th -> in_protocol th = false.
(* every thread is between two calls or has finished *)
Definition between_calls (th : thread) : bool := match t_pc th with E0 | Done => true | _ => false end.
Definition quiescent (st : state) : Prop := forall t th, nth_error (threads st) t = Some th -> between_calls th = true.

Definition fields_initial (s : shared) : Prop :=
  tc s = 0 /\ ec s = 0 /\ blen s = 0 /\ bpubs s = [] /\ res s = None /\ exc s = None /\ inflight s = None /\ handed s = false.
