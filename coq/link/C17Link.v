(* C17 — link between the Gallina GENERATED from /repo's current queasars/minimum_eigensolvers/evqe/evqe.py
   (build/gen*/QVGen/C17Gen.v, written by translator/py2gallina.py on every check) and the hand-written models:
   coq/theories/Repro/Seeding.v (the seeding discipline the C17 theorems are about: master_session / draw_seeds /
   construct_order) and the configuration model of coq/theories/Translate/C17Aux.v (config_ok, model_ops).
   One lemma link_<function> per translated function, each followed by Print Assumptions.
   Compiled by harness/vlib/translate.py; NOT part of coq/theories because it depends on the generated module.

   No link lemma has a hypothesis. *)
From QV Require Import Translate.PyPrelude Translate.PyPrelude_proofs.
From QV Require Import Translate.C17Aux Repro.Seeding_proofs.
From QVGen Require Import C17Gen.
Open Scope Z_scope.

(* ------------------------------------------------------------------ EVQEMinimumEigensolverConfiguration.__post_init__ *)
(* all eight guards; the TypeError of `1 <= None` / `population_size < None` is unreachable behind the guard
   `use_tournament_selection and tournament_size is None`, so the only exception is ValueError *)
Lemma link_Config_post_init : forall c : evqe_config,
  gen_Config_post_init c = if config_ok c then Ok tt else Err "ValueError"%string.
Proof.
  intros c. unfold gen_Config_post_init, config_ok, prob_ok, tournament_ok, is_some.
  destruct (ec_max_generations c), (ec_max_circuit_evaluations c), (ec_termination_criterion c);
    cbn [andb orb negb];
    try reflexivity;
    (change (inject_Z 0) with 0%Q; change (inject_Z 1) with 1%Q;
     destruct (Qle_bool 0 (ec_p_param c)), (Qle_bool (ec_p_param c) 1); cbn [andb negb]; try reflexivity;
     destruct (Qle_bool 0 (ec_p_topo c)), (Qle_bool (ec_p_topo c) 1); cbn [andb negb]; try reflexivity;
     destruct (Qle_bool 0 (ec_p_remove c)), (Qle_bool (ec_p_remove c) 1); cbn [andb negb]; try reflexivity;
     rewrite Z.ltb_antisym;
     destruct (1 <=? ec_n_initial_layers c); cbn [andb negb]; try reflexivity;
     destruct (ec_use_tournament c); cbn [andb negb bind]; try reflexivity;
     destruct (ec_tournament_size c) as [t|]; cbn [andb negb bind]; try reflexivity;
     destruct (1 <=? t); cbn [andb negb bind]; try reflexivity;
     rewrite Z.ltb_antisym;
     destruct (t <=? ec_population_size c); reflexivity).
Qed.
Print Assumptions link_Config_post_init.

(* ------------------------------------------------------------------ EVQEMinimumEigensolver.__init__, first statement *)
(* self.random_generator = Random(configuration.random_seed): the master generator is constructed with the configured
   seed and nothing else (`fresh` = the decisions of the generator constructed here, Seeding.master_session's stream) *)
Lemma link_init_master : forall (cfg : evqe_config) (fresh : stream),
  gen_init_master fresh cfg = do s0 <- draw_seed (ec_random_seed cfg) fresh; Ok (mkSolver s0).
Proof.
  intros cfg fresh. unfold gen_init_master, rng_construct.
  destruct (draw_seed (ec_random_seed cfg) fresh); reflexivity.
Qed.
Print Assumptions link_init_master.

(* ------------------------------------------------------------------ EVQEMinimumEigensolver.__init__, the operator list *)
(* one new_random_seed(self.random_generator) per operator, in the order Seeding.construct_order; the i-th seed goes to
   the i-th operator, which is the i-th descriptor of C17Aux.model_ops (class, probability / threshold / penalties /
   tournament; = Compose.evqe_ops by C17Aux.model_ops_evqe_ops) with the i-th entry of model_op_evals
   (optimizer_n_circuit_evaluations for the two optimising operators) *)
Lemma link_init_operators : forall (cfg : evqe_config) (st : solver_state),
  gen_init_operators cfg st =
  do r <- draw_seeds construct_order (sv_rng st);
  Ok (combine (combine (model_ops cfg) (model_op_evals cfg)) (fst r), mkSolver (snd r)).
Proof.
  intros cfg [s]. unfold gen_init_operators, rng_new_seed, construct_order.
  cbn [sv_rng draw_seeds].
  destruct (new_random_seed s) as [[v1 s1]|e]; cbn [bind fst snd sv_rng]; [|reflexivity].
  destruct (new_random_seed s1) as [[v2 s2]|e]; cbn [bind fst snd sv_rng]; [|reflexivity].
  destruct (new_random_seed s2) as [[v3 s3]|e]; cbn [bind fst snd sv_rng]; [|reflexivity].
  destruct (new_random_seed s3) as [[v4 s4]|e]; cbn [bind fst snd sv_rng]; [|reflexivity].
  destruct (new_random_seed s4) as [[v5 s5]|e]; cbn [bind fst snd sv_rng]; [|reflexivity].
  destruct (new_random_seed s5) as [[v6 s6]|e]; cbn [bind fst snd sv_rng]; [|reflexivity].
  reflexivity.
Qed.
Print Assumptions link_init_operators.

(* ------------------------------------------------------------------ the population_initializer lambda *)
(* called with n_qubits it draws ONE seed from the same master generator (at call time, i.e. after the six operator
   seeds) and asks for the population the configuration describes *)
Lemma link_population_initializer : forall (cfg : evqe_config) (nq : Z) (st : solver_state),
  gen_population_initializer cfg nq st =
  do a <- new_random_seed (sv_rng st); Ok (model_pop_request cfg nq (fst a), mkSolver (snd a)).
Proof.
  intros cfg nq [s]. unfold gen_population_initializer, rng_new_seed, model_pop_request. cbn [sv_rng].
  destruct (new_random_seed s) as [[v s1]|e]; reflexivity.
Qed.
Print Assumptions link_population_initializer.

(* ------------------------------------------------------------------ composition: Seeding.master_session *)
(* what one solver object that performs one solve asks its master generator, read off a master_session with one solve:
   the first six seeds with the operators in order, the seventh for the population *)
Definition session_view (cfg : evqe_config) (nq : Z) (m : list (component * Z) * stream)
  : result (list opdesc * pop_request * stream) :=
  match skipn 6 (fst m) with
  | [(CPopulation, ps)] =>
      Ok (combine (combine (QV.Repro.Compose.evqe_ops (ecfg_of cfg nq)) (model_op_evals cfg)) (firstn 6 (fst m)),
          model_pop_request cfg nq ps, snd m)
  | _ => Err QV.Evqe.Stream.StreamMismatch
  end.

(* construction (first statement, operator list) followed by one call of the population initializer IS
   master_session seed 1 — the function C17_seed_order characterises, and the first step of Compose.evqe_run — on the
   stream of the master generator; the operators are Compose.evqe_ops of the corresponding ecfg *)
Lemma link_init_operators_master_session : forall (cfg : evqe_config) (fresh : stream) (nq : Z),
  (do st0 <- gen_init_master fresh cfg;
   do r <- gen_init_operators cfg st0;
   do p <- gen_population_initializer cfg nq (snd r);
   Ok (fst r, fst p, sv_rng (snd p)))
  = do m <- master_session (ec_random_seed cfg) 1 fresh; session_view cfg nq m.
Proof.
  intros cfg fresh nq. rewrite link_init_master. unfold master_session.
  destruct (draw_seed (ec_random_seed cfg) fresh) as [s|e]; cbn [bind]; [|reflexivity].
  rewrite link_init_operators. cbn [sv_rng].
  change (construct_order ++ repeat CPopulation 1)%list with (construct_order ++ [CPopulation])%list.
  rewrite draw_seeds_app.
  unfold construct_order. cbn [draw_seeds].
  destruct (new_random_seed s) as [[v1 s1]|e]; cbn [bind fst snd]; [|reflexivity].
  destruct (new_random_seed s1) as [[v2 s2]|e]; cbn [bind fst snd]; [|reflexivity].
  destruct (new_random_seed s2) as [[v3 s3]|e]; cbn [bind fst snd]; [|reflexivity].
  destruct (new_random_seed s3) as [[v4 s4]|e]; cbn [bind fst snd]; [|reflexivity].
  destruct (new_random_seed s4) as [[v5 s5]|e]; cbn [bind fst snd]; [|reflexivity].
  destruct (new_random_seed s5) as [[v6 s6]|e]; cbn [bind fst snd]; [|reflexivity].
  rewrite link_population_initializer. cbn [sv_rng].
  destruct (new_random_seed s6) as [[v7 s7]|e]; cbn [bind fst snd]; reflexivity.
Qed.
Print Assumptions link_init_operators_master_session.

(* ------------------------------------------------------------------ EVQEMinimumEigensolver.__init__, the base configuration *)
(* the executor choice (a pool with population_size workers unless one is configured) and the keyword arguments of
   EvolvingAnsatzMinimumEigensolverConfiguration: the operator list, both limits, the criterion, mutual exclusion and the
   alpha tail are passed through unchanged (against Compose.c_config: C17Aux.model_base_config_c_config) *)
Lemma link_base_config : forall (cfg : evqe_config) (pi : unit) (ops : list opdesc),
  gen_base_config cfg pi ops = model_base_config cfg ops.
Proof.
  intros cfg pi ops. unfold gen_base_config, model_base_config, given_executor.
  destruct (ec_parallel_executor cfg); reflexivity.
Qed.
Print Assumptions link_base_config.
