(* C15 (and the variable-level theorems of C01) — link between the Gallina GENERATED from /repo's current
   queasars/utility/domain_wall_variables.py (build/gen*/QVGen/C15Gen.v, written by translator/py2gallina.py on every
   check) and the hand-written model coq/theories/Jssp/DomainWall.v the C15 / C01 theorems are about.
   One lemma link_<function> per translated function, each followed by Print Assumptions.  Compiled by
   harness/vlib/translate.py; NOT part of coq/theories because it depends on the generated module.

   Shapes: the circuit size is a Python int (Z) in the generated code and a nat in the model: the links read it through
   Z.to_nat (a size < 1 raises ValueError on both sides).  Bit lists are lists of the ints 0/1 in the implementation
   and lists of booleans in the model: the link of value_from_bitlist goes through `map b2z`. *)
From QV Require Import Translate.PyPrelude Translate.PyPrelude_proofs Translate.C15Aux.
From QV Require Import Jssp.DomainWall Jssp.Encoder Jssp.Energy Jssp.Valid_proofs Jssp.Encoder_proofs Jssp.Decoded_proofs Jssp.Grouping_proofs Jssp.Instance.
From QVGen Require Import C15Gen.
Open Scope Z_scope.

(* ------------------------------------------------------------------ __init__
   The constructor raises exactly when the model's mk_dwvar does (no value / a repeated value) and otherwise stores what
   the data representation of the spec reads back from the record: _value_indices = dw_value_indices, _n_qubits = var_nq
   (the two attributes it stores unchanged, _qubit_start_index and _values, are v_start and v_values).  So the attribute
   table of translator/specs/c15.py is not taken on trust for this class. *)
Lemma link_DWV_init : forall q vals id o,
  gen_DWV_init q vals = do v <- mk_dwvar id o (Z.to_nat q) vals; Ok (mkDWC (dw_value_indices v) (Z.of_nat (var_nq v))).
Proof. intros q vals id o. exact (dwv_init_model id o (Z.to_nat q) vals). Qed.
Print Assumptions link_DWV_init.

(* ------------------------------------------------------------------ properties *)
Lemma link_DWV_values : forall v, gen_DWV_values v = v_values v.
Proof. reflexivity. Qed.
Print Assumptions link_DWV_values.

Lemma link_DWV_n_qubits : forall v, gen_DWV_n_qubits v = Z.of_nat (var_nq v).
Proof. reflexivity. Qed.
Print Assumptions link_DWV_n_qubits.

(* ------------------------------------------------------------------ _z_dash_term *)
Lemma link_DWV_z_dash_term : forall v i nq, gen_DWV_z_dash_term v i nq = z_dash v i (Z.to_nat nq).
Proof.
  intros v i nq. unfold gen_DWV_z_dash_term, z_dash, gen_DWV_n_qubits.
  destruct (Z.ltb_spec i (-1)) as [H1|H1]; cbn [orb]; [reflexivity|].
  destruct (Z.ltb_spec (Z.of_nat (var_nq v)) i) as [H2|H2]; [reflexivity|].
  destruct (Z.eqb_spec i (-1)) as [H3|H3]; [reflexivity|].
  destruct (Z.eqb_spec i (Z.of_nat (var_nq v))) as [H4|H4].
  - destruct (pauli_identity_string (Z.to_nat nq)); reflexivity.
  - unfold pauli_z_string_Z.
    replace (Z.of_nat (v_start v) + i <? 0) with false by (symmetry; apply Z.ltb_ge; lia).
    replace (Z.to_nat (Z.of_nat (v_start v) + i)) with (v_start v + Z.to_nat i)%nat by lia.
    destruct (pauli_z_string _ _); reflexivity.
Qed.
Print Assumptions link_DWV_z_dash_term.

(* ------------------------------------------------------------------ viability_term *)
Lemma link_DWV_viability_term : forall v nq, gen_DWV_viability_term v nq = viability_term v (Z.to_nat nq).
Proof.
  intros v nq. unfold gen_DWV_viability_term, viability_term.
  replace (Z.of_nat (var_nq v) =? 0) with (var_nq v =? 0)%nat
    by (destruct (Nat.eqb_spec (var_nq v) 0); symmetry; [apply Z.eqb_eq | apply Z.eqb_neq]; lia).
  destruct (var_nq v =? 0)%nat; [reflexivity|].
  rewrite py_range_zrange. replace (Z.of_nat (var_nq v) - -1) with (Z.of_nat (var_nq v) + 1) by lia.
  rewrite (py_foldM_ext_in _ (fun acc x => do y <- viability_local v (Z.to_nat nq) x; Ok (acc ++ [y])%list)).
  - rewrite py_foldM_append_mapM.
    destruct (mapM _ _) as [ls|e]; cbn [bind app]; [|reflexivity].
    destruct (pauli_identity_string (Z.to_nat nq)); cbn [bind]; [|reflexivity].
    destruct (sum_ops _); reflexivity.
  - intros acc x _. unfold viability_local. cbn [qdiv Qeq_bool bind].
    change (qdiv (inject_Z 1) (inject_Z 2)) with (Ok (1 # 2)%Q). cbn [bind].
    destruct (pauli_identity_string (Z.to_nat nq)); cbn [bind]; [|reflexivity].
    rewrite !link_DWV_z_dash_term.
    destruct (z_dash v x _); cbn [bind]; [|reflexivity].
    destruct (z_dash v (x + 1) _); reflexivity.
Qed.
Print Assumptions link_DWV_viability_term.

(* ------------------------------------------------------------------ value_term
   `value not in self._value_indices` / `self._value_indices[value]` are index_of on the values. *)
Lemma link_DWV_value_term : forall v t nq, gen_DWV_value_term v t nq = value_term v t (Z.to_nat nq).
Proof.
  intros v t nq. unfold gen_DWV_value_term, value_term, dw_value_indices.
  rewrite index_dict_mem, index_dict_get.
  destruct (index_of t (v_values v)) as [i|]; cbn [negb]; [|reflexivity].
  replace (Z.of_nat (var_nq v) =? 0) with (var_nq v =? 0)%nat
    by (destruct (Nat.eqb_spec (var_nq v) 0); symmetry; [apply Z.eqb_eq | apply Z.eqb_neq]; lia).
  destruct (var_nq v =? 0)%nat.
  - destruct (pauli_identity_string (Z.to_nat nq)); reflexivity.
  - cbn [bind Nat.add]. change (qdiv (inject_Z 1) (inject_Z 2)) with (Ok (1 # 2)%Q). cbn [bind].
    rewrite !link_DWV_z_dash_term.
    destruct (z_dash v (Z.of_nat i) _); cbn [bind]; [|reflexivity].
    destruct (z_dash v (Z.of_nat i - 1) _); reflexivity.
Qed.
Print Assumptions link_DWV_value_term.

(* ------------------------------------------------------------------ value_from_bitlist
   for every bit list that consists of 0 / 1 (the image of a list of booleans); the ValueError for another entry is
   outside the model (C15 meta: "bitstrings consist of the characters 0 and 1"). *)
Lemma link_DWV_value_from_bitlist : forall v (bl : list bool),
  gen_DWV_value_from_bitlist v (map b2z bl) = value_from_bits v bl.
Proof.
  intros v bl. unfold gen_DWV_value_from_bitlist, value_from_bits, gen_DWV_n_qubits, gen_DWV_values.
  rewrite py_slice_nat, skipn_map, firstn_map. fold (var_bits v bl). set (sl := var_bits v bl).
  unfold py_enumerate. rewrite map_length.
  rewrite (scan_first_false sl 0 (Z.of_nat (var_nq v))). cbn [bind Nat.add].
  set (d := match first_false sl with Some i => i | None => var_nq v end).
  replace (match first_false sl with Some i => Z.of_nat i | None => Z.of_nat (var_nq v) end) with (Z.of_nat d)
    by (unfold d; destruct (first_false sl); reflexivity).
  rewrite py_slice_from_nat, skipn_map, sum_bits_zero, negb_involutive.
  destruct (existsb _ _); [reflexivity|].
  rewrite py_index_nat. destruct (nth_error (v_values v) d); reflexivity.
Qed.
Print Assumptions link_DWV_value_from_bitlist.
(* ================================================================== the encoder: pair terms
   queasars/job_shop_scheduling/domain_wall_hamiltonian_encoder.py, _operation_precedence_term / _operation_overlap_term
   against Encoder.prec_plan / overlap_plan (early exits, penalised start-time pairs), plan_term (the operator) and the
   increments of _operation_constraint_counts.

   The model keeps each variable next to its operation and the counts as a function; the implementation keeps two dicts.
   The links are stated for a state `st` as _prepare_encoding leaves it (hypotheses = what _prepare_encoding establishes,
   it is the only writer of these dicts apart from the increments below):
     - the variable stored under an operation o is (the Python view, C15Aux.ghost, of) the variable the model carries
       for o                                                                              [Hv.., Ho..]
     - the count dict has an entry for (operation, t) for every value t of its variable  [Hc..]
   and say: same early exits, same pairs in the same order, same operator, and every penalised pair increments the two
   entries (operation_1, start_1), (operation_2, start_2) (C15Aux.dict_plan_bump, the dict form of Encoder.plan_bump). *)
From QV Require Import Jssp.Encoder.

Definition set_counts (st : encstate) (c : counts) : encstate := mkSt (st_mo st) (st_vars st) c (st_nq st) (st_prepared st).

Definition pair_result (o1 o2 : operation) (st : encstate) (plan : result pterm) : result (opexpr * encstate) :=
  do p <- plan;
  do t <- plan_term (Z.to_nat (st_nq st)) p;
  Ok (t, set_counts st (dict_plan_bump o1 o2 p (st_counts st))).

(* the loop over the penalised pairs *)
Lemma pair_loop o1 o2 v1 v2 pairs : forall acc st,
  (forall p, In p pairs -> In (fst p) (v_values v1) /\ In (snd p) (v_values v2)) ->
  covers (st_counts st) o1 (v_values v1) -> covers (st_counts st) o2 (v_values v2) ->
  py_foldM (fun '(local_terms, st) p =>
      do n1 <- py_dict_get ckey_eqb (st_counts st) (o1, fst p);
      let st := mkSt (st_mo st) (st_vars st) (py_dict_set ckey_eqb (st_counts st) (o1, fst p) (n1 + 1)) (st_nq st) (st_prepared st) in
      do n2 <- py_dict_get ckey_eqb (st_counts st) (o2, snd p);
      let st := mkSt (st_mo st) (st_vars st) (py_dict_set ckey_eqb (st_counts st) (o2, snd p) (n2 + 1)) (st_nq st) (st_prepared st) in
      do a <- gen_DWV_value_term (ghost v1) (fst p) (st_nq st);
      do b <- gen_DWV_value_term (ghost v2) (snd p) (st_nq st);
      let local_terms := (local_terms ++ [OpMul a b])%list in
      Ok (local_terms, st)) pairs (acc, st)
  = do ts <- mapM (pair_local (Z.to_nat (st_nq st)) v1 v2) pairs;
    Ok ((acc ++ ts)%list, set_counts st (dict_bump o1 o2 pairs (st_counts st))).
Proof.
  induction pairs as [|p r IH]; intros acc [mo vars c nq pr] Hin C1 C2.
  - cbn. now rewrite app_nil_r.
  - cbn [py_foldM st_counts st_mo st_vars st_nq st_prepared].
    destruct (Hin p (or_introl eq_refl)) as [H1 H2].
    cbn [st_counts] in C1, C2.
    pose proof (C1 _ H1) as K1. destruct (py_dict_get ckey_eqb c (o1, fst p)) as [n1|] eqn:E1; [|discriminate]. cbn [bind].
    assert (D1 : dict_inc c (o1, fst p) = py_dict_set ckey_eqb c (o1, fst p) (n1 + 1)) by (unfold dict_inc; now rewrite E1).
    rewrite <- D1.
    pose proof (covers_inc c (o1, fst p) o2 _ C2 _ H2) as K2.
    destruct (py_dict_get ckey_eqb (dict_inc c (o1, fst p)) (o2, snd p)) as [n2|] eqn:E2; [|discriminate]. cbn [bind].
    assert (D2 : dict_inc (dict_inc c (o1, fst p)) (o2, snd p) = py_dict_set ckey_eqb (dict_inc c (o1, fst p)) (o2, snd p) (n2 + 1))
      by (unfold dict_inc at 1; now rewrite E2).
    rewrite <- D2. rewrite !link_DWV_value_term.
    change (value_term (ghost v1)) with (value_term v1). change (value_term (ghost v2)) with (value_term v2).
    cbn [mapM]. unfold pair_local at 1.
    destruct (value_term v1 (fst p) (Z.to_nat nq)) as [a|e]; cbn [bind]; [|reflexivity].
    destruct (value_term v2 (snd p) (Z.to_nat nq)) as [b|e]; cbn [bind]; [|reflexivity].
    rewrite IH.
    + cbn [st_nq st_counts]. destruct (mapM _ r) as [ts|e]; cbn [bind]; [|reflexivity].
      rewrite <- app_assoc. reflexivity.
    + intros q Hq. apply Hin. now right.
    + cbn [st_counts]. now apply covers_inc, covers_inc.
    + cbn [st_counts]. now apply covers_inc, covers_inc.
Qed.

Lemma prec_pairs_in v1 v2 p : In p (prec_pairs v1 v2) -> In (fst p) (v_values v1) /\ In (snd p) (v_values v2).
Proof. unfold prec_pairs. intros H. apply filter_In in H as [H _]. destruct p. now apply in_prod_iff in H. Qed.

Lemma overlap_pairs_in v1 v2 p : In p (overlap_pairs v1 v2) -> In (fst p) (v_values v1) /\ In (snd p) (v_values v2).
Proof. unfold overlap_pairs. intros H. apply filter_In in H as [H _]. destruct p. now apply in_prod_iff in H. Qed.

Lemma link_Enc_precedence_term : forall o1 o2 st v1 v2,
  py_dict_get op_eqb (st_vars st) o1 = Ok (ghost v1) -> py_dict_get op_eqb (st_vars st) o2 = Ok (ghost v2) ->
  v_op v1 = o1 -> v_op v2 = o2 ->
  covers (st_counts st) o1 (v_values v1) -> covers (st_counts st) o2 (v_values v2) ->
  gen_Enc_precedence_term o1 o2 st = pair_result o1 o2 st (prec_plan v1 v2).
Proof.
  intros o1 o2 st v1 v2 Hv1 Hv2 Ho1 Ho2 Hc1 Hc2. subst o1 o2.
  unfold gen_Enc_precedence_term, pair_result, prec_plan, gen_DWV_values. rewrite Hv1, Hv2. cbn [bind].
  rewrite py_index_m1, py_index_0. change (vmax (ghost v1)) with (vmax v1). change (vmin (ghost v2)) with (vmin v2).
  change (v_values (ghost v1)) with (v_values v1). change (v_values (ghost v2)) with (v_values v2).
  destruct (vmax v1) as [mx1|e]; cbn [bind]; [|reflexivity].
  destruct (vmin v2) as [mn2|e]; cbn [bind]; [|reflexivity].
  fold (v_dur v1).
  destruct (mx1 + v_dur v1 <=? mn2); cbn [bind plan_term dict_plan_bump].
  - destruct (pauli_identity_string _); cbn [bind]; [|reflexivity]. destruct st; reflexivity.
  - rewrite (comp2_filter_prod (fun s1 s2 => negb (s1 + v_dur v1 <=? s2))).
    fold (prec_pairs v1 v2).
    cbv zeta.
    match goal with |- bind ?X _ = _ =>
      replace X with (do ts <- mapM (pair_local (Z.to_nat (st_nq st)) v1 v2) (prec_pairs v1 v2);
                      Ok (([] ++ ts)%list, set_counts st (dict_bump (v_op v1) (v_op v2) (prec_pairs v1 v2) (st_counts st))))
        by (symmetry; exact (pair_loop (v_op v1) (v_op v2) v1 v2 (prec_pairs v1 v2) [] st (prec_pairs_in v1 v2) Hc1 Hc2))
    end.
    destruct (mapM _ _) as [ts|e]; cbn [bind app]; [|reflexivity].
    destruct (sum_ops ts); reflexivity.
Qed.
Print Assumptions link_Enc_precedence_term.

Lemma link_Enc_overlap_term : forall o1 o2 st v1 v2,
  py_dict_get op_eqb (st_vars st) o1 = Ok (ghost v1) -> py_dict_get op_eqb (st_vars st) o2 = Ok (ghost v2) ->
  v_op v1 = o1 -> v_op v2 = o2 ->
  covers (st_counts st) o1 (v_values v1) -> covers (st_counts st) o2 (v_values v2) ->
  gen_Enc_overlap_term o1 o2 st = pair_result o1 o2 st (overlap_plan v1 v2).
Proof.
  intros o1 o2 st v1 v2 Hv1 Hv2 Ho1 Ho2 Hc1 Hc2. subst o1 o2.
  unfold gen_Enc_overlap_term, pair_result, overlap_plan, gen_DWV_values. rewrite Hv1, Hv2. cbn [bind].
  rewrite !py_index_m1, !py_index_0.
  change (vmax (ghost v1)) with (vmax v1). change (vmin (ghost v2)) with (vmin v2).
  change (vmax (ghost v2)) with (vmax v2). change (vmin (ghost v1)) with (vmin v1).
  change (v_values (ghost v1)) with (v_values v1). change (v_values (ghost v2)) with (v_values v2).
  destruct (vmax v1) as [mx1|e]; cbn [bind]; [|reflexivity].
  destruct (vmin v2) as [mn2|e]; cbn [bind]; [|reflexivity].
  fold (v_dur v1). fold (v_dur v2).
  destruct (mx1 + v_dur v1 <=? mn2); cbn [bind plan_term dict_plan_bump].
  { destruct (pauli_identity_string _); cbn [bind]; [|reflexivity]. destruct st; reflexivity. }
  destruct (vmax v2) as [mx2|e]; cbn [bind]; [|reflexivity].
  destruct (vmin v1) as [mn1|e]; cbn [bind]; [|reflexivity].
  destruct (mx2 + v_dur v2 <=? mn1); cbn [bind plan_term dict_plan_bump].
  { destruct (pauli_identity_string _); cbn [bind]; [|reflexivity]. destruct st; reflexivity. }
  rewrite (comp2_filter_prod (fun s1 s2 => (s1 <? s2 + v_dur v2) && (s2 <? s1 + v_dur v1))).
  fold (overlap_pairs v1 v2).
  cbv zeta.
  match goal with |- bind ?X _ = _ =>
    replace X with (do ts <- mapM (pair_local (Z.to_nat (st_nq st)) v1 v2) (overlap_pairs v1 v2);
                    Ok (([] ++ ts)%list, set_counts st (dict_bump (v_op v1) (v_op v2) (overlap_pairs v1 v2) (st_counts st))))
      by (symmetry; exact (pair_loop (v_op v1) (v_op v2) v1 v2 (overlap_pairs v1 v2) [] st (overlap_pairs_in v1 v2) Hc1 Hc2))
  end.
  destruct (mapM _ _) as [ts|e]; cbn [bind app]; [|reflexivity].
  destruct (sum_ops ts); reflexivity.
Qed.
Print Assumptions link_Enc_overlap_term.

(* ================================================================== the encoder: _prepare_encoding / n_qubits
   against Encoder.prepare_encoding (prep_jobs / prep_ops: the ValueError for a job longer than the limit, per operation
   the window range(start_offset, start_offset + limit - (start_offset + end_offset) + 1), the qubit offset, the
   construction order) and Encoder.n_qubits.  No hypotheses: for every instance and limit, starting from the state
   __init__ leaves (C15Aux.st_init), the method raises exactly when the model does and otherwise leaves the state
   C15Aux.state_of_enc e: every variable of the model's encoding, in the model's order, stored under its operation
   (add_var: machine dict, variable dict, zeroed counts, qubit count). *)

(* the inner loop over the operations of one job *)
From QV Require Import Jssp.Valid_proofs.
Open Scope Z_scope.

(* the body of the inner loop (over the operations of one job), as generated *)
Definition inner_body (L : Z) :=
  fun '(start_offset, end_offset, st) operation_ =>
      let st :=
        (if (negb (py_mem String.eqb (op_machine operation_) (py_dict_keys (st_mo st))))
         then mkSt (py_dict_set String.eqb (st_mo st) (op_machine operation_) ([] : (list operation))) (st_vars st) (st_counts st) (st_nq st) (st_prepared st)
         else st) in
      do dv1_ <- py_dict_get String.eqb (st_mo st) (op_machine operation_);
      let st := mkSt (py_dict_set String.eqb (st_mo st) (op_machine operation_) (dv1_ ++ [operation_])%list) (st_vars st) (st_counts st) (st_nq st) (st_prepared st) in
      let n_start_times := ((L - (start_offset + end_offset)) + 1) in
      do v2_ <- mk_dwvar_py (st_nq st) (py_range start_offset (start_offset + n_start_times));
      let st := mkSt (st_mo st) (py_dict_set op_eqb (st_vars st) operation_ v2_) (st_counts st) (st_nq st) (st_prepared st) in
      do dv3_ <- py_dict_get op_eqb (st_vars st) operation_;
      let st :=
        fold_left (fun st start_time =>
          mkSt (st_mo st) (st_vars st) (py_dict_set ckey_eqb (st_counts st) (operation_, start_time) 0) (st_nq st) (st_prepared st))
          (gen_DWV_values dv3_) st in
      do dv4_ <- py_dict_get op_eqb (st_vars st) operation_;
      let st := mkSt (st_mo st) (st_vars st) (st_counts st) ((st_nq st) + (gen_DWV_n_qubits dv4_)) (st_prepared st) in
      Ok (start_offset + op_dur operation_, end_offset - op_dur operation_, st).

Lemma prep_ops_loop L : forall ops so eo st q id, st_nq st = Z.of_nat q ->
  py_foldM (inner_body L) ops (so, eo, st)
  = do vs <- prep_ops L so eo q id ops;
    Ok (so + sumZ (map op_dur ops), eo - sumZ (map op_dur ops), fold_left add_var vs st).
Proof.
  induction ops as [|o r IH]; intros so eo [mo vars c nq pr] q id Hq; cbn [st_nq] in Hq; subst nq.
  - cbn. do 3 f_equal; lia.
  - cbn [py_foldM prep_ops map]. rewrite sumZ_cons. unfold inner_body at 1.
    cbn [st_mo st_vars st_counts st_nq st_prepared].
    set (mo' := if negb (py_mem String.eqb (op_machine o) (py_dict_keys mo)) then py_dict_set String.eqb mo (op_machine o) [] else mo).
    assert (Emo : (if negb (py_mem String.eqb (op_machine o) (py_dict_keys mo))
                   then mkSt (py_dict_set String.eqb mo (op_machine o) []) vars c (Z.of_nat q) pr
                   else mkSt mo vars c (Z.of_nat q) pr) = mkSt mo' vars c (Z.of_nat q) pr)
      by (unfold mo'; destruct (negb _); reflexivity).
    rewrite Emo. cbn [st_mo st_vars st_counts st_nq st_prepared].
    destruct (mo_get_ok mo (op_machine o)) as [l El]. fold mo' in El. rewrite El. cbn [bind].
    rewrite py_range_zrange.
    replace (so + (L - (so + eo) + 1) - so) with (L - (so + eo) + 1) by lia.
    rewrite (mk_dwvar_py_ghost id o q).
    destruct (mk_dwvar id o q (zrange so (L - (so + eo) + 1))) as [v|e] eqn:Ev; cbn [bind]; [|reflexivity].
    rewrite (dict_get_set_same op_eqb op_eqb_eq). cbn [bind].
    unfold gen_DWV_values, gen_DWV_n_qubits.
    rewrite (counts_fold_state o (v_values (ghost v))). cbn [st_mo st_vars st_counts st_nq st_prepared].
    rewrite (dict_get_set_same op_eqb op_eqb_eq). cbn [bind].
    assert (Ho : v_op v = o /\ v_values (ghost v) = v_values v /\ var_nq (ghost v) = var_nq v).
    { apply mk_dwvar_ok in Ev. subst v. repeat split. }
    destruct Ho as [Ho [Hvals Hnq]]. rewrite Hvals, Hnq.
    rewrite (IH (so + op_dur o) (eo - op_dur o) _ (q + var_nq v)%nat (S id)) by (cbn [st_nq]; lia).
    destruct (prep_ops L (so + op_dur o) (eo - op_dur o) (q + var_nq v) (S id) r) as [vs|e]; cbn [bind]; [|reflexivity].
    cbn [fold_left]. f_equal. f_equal; [f_equal; lia|]. f_equal.
    unfold add_var. cbn [st_mo st_vars st_counts st_nq st_prepared]. rewrite Ho.
    unfold mo_step. fold mo'. rewrite El. reflexivity.
Qed.

Lemma prep_jobs_loop L : forall jobs st q id, st_nq st = Z.of_nat q ->
  py_foldM (fun st job_ =>
      let start_offset := 0 in
      let end_offset := py_sum_Z (map (fun operation_ => op_dur operation_) (job_ops job_)) in
      if L <? end_offset then Err "ValueError"%string
      else
        do l5_ <- py_foldM (inner_body L) (job_ops job_) (start_offset, end_offset, st);
        let '(start_offset, end_offset, st) := l5_ in
        Ok st) jobs st
  = do js <- prep_jobs L q id jobs; Ok (fold_left add_var (concat js) st).
Proof.
  induction jobs as [|j r IH]; intros st q id Hq; [reflexivity|].
  cbn [py_foldM prep_jobs]. cbv zeta. rewrite py_sum_Z_sumZ.
  change (sumZ (map (fun operation_ : operation => op_dur operation_) (job_ops j))) with (job_total j). rewrite Z.gtb_ltb.
  destruct (L <? job_total j); [reflexivity|].
  rewrite (prep_ops_loop L (job_ops j) 0 (job_total j) st q id Hq).
  destruct (prep_ops L 0 (job_total j) q id (job_ops j)) as [vs|e]; cbn [bind]; [|reflexivity].
  rewrite (IH _ (q + sum_nq vs)%nat (id + List.length vs)%nat) by (rewrite nq_add_vars, Hq; lia).
  destruct (prep_jobs L _ _ r) as [rest|e]; cbn [bind]; [|reflexivity].
  cbn [concat]. now rewrite fold_left_app.
Qed.

(* _prepare_encoding first empties its caches (repair recorded in known_findings.txt: an attempt aborted by the ValueError
   left variables, qubits and machine entries behind), so from ANY state in which the encoding is not marked as prepared —
   the constructor's, or whatever an aborted attempt left — it produces the model's encoding or the model's error. *)
Lemma link_Enc_prepare_encoding_any : forall I L st, st_prepared st = false ->
  gen_Enc_prepare_encoding I L st = do e <- prepare_encoding I L; Ok (tt, state_of_enc e).
Proof.
  intros I L st Hp. unfold gen_Enc_prepare_encoding, prepare_encoding. cbv zeta.
  cbn [st_mo st_vars st_counts st_nq st_prepared]. rewrite Hp. change (mkSt [] [] [] 0 false) with st_init.
  match goal with |- bind ?X _ = _ =>
    replace X with (do js <- prep_jobs L 0 0 (inst_jobs I); Ok (fold_left add_var (concat js) st_init))
      by (symmetry; exact (prep_jobs_loop L (inst_jobs I) st_init 0%nat 0%nat eq_refl))
  end.
  destruct (prep_jobs L 0 0 (inst_jobs I)) as [js|e]; reflexivity.
Qed.
Print Assumptions link_Enc_prepare_encoding_any.

Lemma link_Enc_prepare_encoding : forall I L,
  gen_Enc_prepare_encoding I L st_init = do e <- prepare_encoding I L; Ok (tt, state_of_enc e).
Proof. intros I L. now apply link_Enc_prepare_encoding_any. Qed.
Print Assumptions link_Enc_prepare_encoding.

(* n_qubits: on a fresh encoder it prepares the encoding first; afterwards it only reads the cached count *)

Lemma link_Enc_n_qubits : forall I L,
  gen_Enc_n_qubits I L st_init = do e <- prepare_encoding I L; Ok (Z.of_nat (e_nq e), state_of_enc e).
Proof.
  intros I L. unfold gen_Enc_n_qubits. cbn [st_init st_prepared negb]. rewrite link_Enc_prepare_encoding.
  destruct (prepare_encoding I L) as [e|err] eqn:E; cbn [bind snd]; [|reflexivity].
  now rewrite (st_nq_state_of_enc I L e E).
Qed.
Print Assumptions link_Enc_n_qubits.

Lemma link_Enc_n_qubits_model : forall I L,
  (do r <- gen_Enc_n_qubits I L st_init; Ok (fst r)) = do n <- n_qubits I L; Ok (Z.of_nat n).
Proof. intros I L. rewrite link_Enc_n_qubits. unfold n_qubits. destruct (prepare_encoding I L); reflexivity. Qed.
Print Assumptions link_Enc_n_qubits_model.

Lemma link_Enc_n_qubits_prepared : forall I L st, st_prepared st = true -> gen_Enc_n_qubits I L st = Ok (st_nq st, st).
Proof. intros I L st H. unfold gen_Enc_n_qubits. rewrite H. reflexivity. Qed.
Print Assumptions link_Enc_n_qubits_prepared.

(* ------------------------------------------------------------------ the pair terms on the state _prepare_encoding leaves
   The hypotheses of link_Enc_precedence_term / link_Enc_overlap_term hold in the state C15Aux.state_of_enc e (what
   link_Enc_prepare_encoding shows _prepare_encoding leaves) and in every state reached from it by pair terms (they only
   increment counts: C15Aux.covers_plan_bump), provided the operations are pairwise different (well-formed instance). *)
Definition reached_from_prepared (e : enc) (st : encstate) : Prop :=
  st_vars st = st_vars (state_of_enc e) /\ st_nq st = st_nq (state_of_enc e)
  /\ forall v, In v (e_vars e) -> covers (st_counts st) (v_op v) (v_values v).

Lemma reached_prepared e : reached_from_prepared e (state_of_enc e).
Proof. repeat split. intros v Hv. now apply counts_cover. Qed.

Lemma reached_pair_result e st o1 o2 p t st' : reached_from_prepared e st ->
  pair_result o1 o2 st (Ok p) = Ok (t, st') -> reached_from_prepared e st'.
Proof.
  intros [Hv [Hn Hc]]. unfold pair_result. cbn [bind]. destruct (plan_term _ p); cbn [bind]; [|discriminate]. intros [= _ <-].
  unfold set_counts. cbn [st_vars st_nq st_counts]. repeat split; [exact Hv | exact Hn|].
  intros v Hin. apply covers_plan_bump, Hc, Hin.
Qed.

Lemma link_Enc_precedence_term_after_prepare : forall e st v1 v2, NoDup (map v_op (e_vars e)) ->
  reached_from_prepared e st -> In v1 (e_vars e) -> In v2 (e_vars e) ->
  gen_Enc_precedence_term (v_op v1) (v_op v2) st = pair_result (v_op v1) (v_op v2) st (prec_plan v1 v2).
Proof.
  intros e st v1 v2 Hnd [Hv [_ Hc]] H1 H2.
  apply link_Enc_precedence_term; try reflexivity; try (now apply Hc); rewrite Hv; now apply prepared_state_ok.
Qed.
Print Assumptions link_Enc_precedence_term_after_prepare.

Lemma link_Enc_overlap_term_after_prepare : forall e st v1 v2, NoDup (map v_op (e_vars e)) ->
  reached_from_prepared e st -> In v1 (e_vars e) -> In v2 (e_vars e) ->
  gen_Enc_overlap_term (v_op v1) (v_op v2) st = pair_result (v_op v1) (v_op v2) st (overlap_plan v1 v2).
Proof.
  intros e st v1 v2 Hnd [Hv [_ Hc]] H1 H2.
  apply link_Enc_overlap_term; try reflexivity; try (now apply Hc); rewrite Hv; now apply prepared_state_ok.
Qed.
Print Assumptions link_Enc_overlap_term_after_prepare.

(* ------------------------------------------------------------------ the encoder's constructor
   __init__ stores exactly its arguments and the empty caches; the part the translated methods work on is the state
   C15Aux.st_init that link_Enc_prepare_encoding / link_Enc_n_qubits start from. *)
Lemma link_Enc_init : forall I L pe po pp popt ps,
  gen_Enc_init I L pe po pp popt ps = mkInit false false [] [] [] 0 None pe po pp popt ps.
Proof. reflexivity. Qed.
Print Assumptions link_Enc_init.

Lemma link_Enc_init_state : forall I L pe po pp popt ps, encinit_state (gen_Enc_init I L pe po pp popt ps) = st_init.
Proof. reflexivity. Qed.
Print Assumptions link_Enc_init_state.

(* ------------------------------------------------------------------ the character decoding *)
(* translate_result_bitstring.translate: '1' / '0' are the bits true / false of the model (Encoder.translate works on
   booleans), anything else is a ValueError *)
Lemma link_Enc_translate_char : forall b : bool, gen_Enc_translate_char (if b then "1" else "0")%string = Ok (b2z b).
Proof. intros []; reflexivity. Qed.
Print Assumptions link_Enc_translate_char.

Lemma link_Enc_translate_char_other : forall s, s <> "1"%string -> s <> "0"%string -> gen_Enc_translate_char s = Err ValueError.
Proof.
  intros s H1 H0. unfold gen_Enc_translate_char.
  destruct (String.eqb_spec s "1"); [contradiction|]. destruct (String.eqb_spec s "0"); [contradiction|]. reflexivity.
Qed.
Print Assumptions link_Enc_translate_char_other.

(* ================================================================== the encoder: _makespan_optimization_term
   against Encoder.makespan_term, for a state that holds the encoding e of I (hypotheses: what _prepare_encoding
   establishes, see link_Enc_prepare_encoding and C15Aux.prepared_state_ok): the variables of e are those of the
   operations of I, job by job; each is found under its operation; the cached qubit count is e's.
   `(n_jobs + 1) ** t` is Z.pow (spec idiom pow-nonneg-exponent), the division is exact (float-as-Q). *)

(* the inner loop: the end-time weights of one job's last operation *)
Lemma makespan_inner n maxv v st : forall vals acc,
  py_foldM (fun '(local_terms, st) start_time =>
      let operation_end := start_time + op_dur (v_op v) in
      do q3_ <- qdiv (inject_Z (Z.pow (n + 1) operation_end)) (inject_Z maxv);
      do v4_ <- gen_DWV_value_term (ghost v) start_time (st_nq st);
      let local_terms := (local_terms ++ [OpScale q3_ v4_])%list in
      Ok (local_terms, st)) vals (acc, st)
  = do ts <- mapM (makespan_local (Z.to_nat (st_nq st)) n maxv v) vals; Ok ((acc ++ ts)%list, st).
Proof.
  induction vals as [|t r IH]; intros acc; [cbn; now rewrite app_nil_r|].
  cbn [py_foldM mapM]. cbv zeta. unfold makespan_local at 1. fold (v_dur v).
  destruct (Z.eqb_spec maxv 0) as [->|Hm]; [reflexivity|].
  rewrite (qdiv_shape _ _ Hm). cbn [bind]. rewrite link_DWV_value_term. change (value_term (ghost v)) with (value_term v).
  destruct (value_term v t (Z.to_nat (st_nq st))) as [vt|e]; cbn [bind]; [|reflexivity].
  rewrite IH. destruct (mapM _ r) as [ts|e]; cbn [bind]; [|reflexivity]. now rewrite <- app_assoc.
Qed.

Lemma makespan_outer n maxv st : forall jobs vss acc,
  map (map v_op) vss = map job_ops jobs ->
  (forall v, In v (concat vss) -> py_dict_get op_eqb (st_vars st) (v_op v) = Ok (ghost v)) ->
  py_foldM (fun '(local_terms, st) job_ =>
      do it1_ <- py_index (job_ops job_) (-1);
      let last_operation := it1_ in
      do dv2_ <- py_dict_get op_eqb (st_vars st) last_operation;
      let start_variable := dv2_ in
      do l5_ <-
        py_foldM (fun '(local_terms, st) start_time =>
          let operation_end := start_time + op_dur last_operation in
          do q3_ <- qdiv (inject_Z (Z.pow (n + 1) operation_end)) (inject_Z maxv);
          do v4_ <- gen_DWV_value_term start_variable start_time (st_nq st);
          let local_terms := (local_terms ++ [OpScale q3_ v4_])%list in
          Ok (local_terms, st)) (gen_DWV_values start_variable) (local_terms, st);
      let '(local_terms, st) := l5_ in
      Ok (local_terms, st)) jobs (acc, st)
  = do per <- mapM (fun vs => match last_opt vs with
                              | None => Err IndexError
                              | Some v => mapM (makespan_local (Z.to_nat (st_nq st)) n maxv v) (v_values v)
                              end) vss;
    Ok ((acc ++ concat per)%list, st).
Proof.
  induction jobs as [|j r IH]; intros vss acc Hm Hl.
  - destruct vss; [|discriminate]. cbn. now rewrite app_nil_r.
  - destruct vss as [|vs vss']; [discriminate|]. cbn [map] in Hm. injection Hm as Hj Hr.
    cbn [py_foldM mapM]. rewrite py_index_m1_last_opt, <- Hj, last_opt_map.
    destruct (last_opt vs) as [v|] eqn:El; cbn [option_map bind]; [|reflexivity].
    assert (Hin : In v (concat (vs :: vss'))) by (cbn [concat]; apply in_or_app; left; now apply last_opt_In).
    rewrite (Hl v Hin). cbn [bind]. cbv zeta. unfold gen_DWV_values. change (v_values (ghost v)) with (v_values v).
    match goal with |- context [py_foldM ?F (v_values v) (acc, st)] =>
      replace (py_foldM F (v_values v) (acc, st))
        with (do ts <- mapM (makespan_local (Z.to_nat (st_nq st)) n maxv v) (v_values v); Ok ((acc ++ ts)%list, st))
        by (symmetry; exact (makespan_inner n maxv v st (v_values v) acc))
    end.
    destruct (mapM (makespan_local _ n maxv v) (v_values v)) as [ts|e]; cbn [bind]; [|reflexivity].
    assert (Hl' : forall w, In w (concat vss') -> py_dict_get op_eqb (st_vars st) (v_op w) = Ok (ghost w))
      by (intros w Hw; apply Hl; cbn [concat]; apply in_or_app; now right).
    match goal with |- context [py_foldM ?F r ?init] =>
      replace (py_foldM F r init) with
        (do per <- mapM (fun vs => match last_opt vs with
                              | None => Err IndexError
                              | Some v => mapM (makespan_local (Z.to_nat (st_nq st)) n maxv v) (v_values v)
                              end) vss';
         Ok (((acc ++ ts) ++ concat per)%list, st))
        by (symmetry; exact (IH vss' (acc ++ ts)%list Hr Hl'))
    end.
    destruct (mapM _ vss') as [per|e]; cbn [bind concat]; [|reflexivity]. now rewrite app_assoc.
Qed.

Lemma link_Enc_makespan_term : forall I L e st,
  map (map v_op) (e_jobs e) = map job_ops (inst_jobs I) ->
  (forall v, In v (e_vars e) -> py_dict_get op_eqb (st_vars st) (v_op v) = Ok (ghost v)) ->
  st_nq st = Z.of_nat (e_nq e) ->
  gen_Enc_makespan_term I L st = do t <- makespan_term e L; Ok (t, st).
Proof.
  intros I L e st Hm Hl Hq. unfold gen_Enc_makespan_term, makespan_term. cbv zeta.
  assert (Hn : py_len (inst_jobs I) = Z.of_nat (List.length (e_jobs e))).
  { unfold py_len. f_equal. rewrite <- (map_length job_ops), <- Hm, map_length. reflexivity. }
  rewrite Hn.
  match goal with |- bind ?X _ = _ =>
    replace X with (do per <- mapM (fun vs => match last_opt vs with
                              | None => Err IndexError
                              | Some v => mapM (makespan_local (Z.to_nat (st_nq st)) (Z.of_nat (List.length (e_jobs e)))
                                                 (Z.of_nat (List.length (e_jobs e)) * (Z.of_nat (List.length (e_jobs e)) + 1) ^ L) v) (v_values v)
                              end) (e_jobs e);
                    Ok (([] ++ concat per)%list, st))
      by (symmetry; exact (makespan_outer _ _ st (inst_jobs I) (e_jobs e) [] Hm Hl))
  end.
  rewrite Hq, Nat2Z.id.
  destruct (mapM _ (e_jobs e)) as [per|err]; cbn [bind app]; [|reflexivity].
  destruct (sum_ops (concat per)); reflexivity.
Qed.
Print Assumptions link_Enc_makespan_term.

Lemma link_Enc_makespan_term_after_prepare : forall I L e st, prepare_encoding I L = Ok e ->
  NoDup (map v_op (e_vars e)) -> reached_from_prepared e st ->
  gen_Enc_makespan_term I L st = do t <- makespan_term e L; Ok (t, st).
Proof.
  intros I L e st He Hnd [Hv [Hn _]]. apply link_Enc_makespan_term.
  - unfold prepare_encoding in He. destruct (prep_jobs L 0 0 (inst_jobs I)) as [js|] eqn:Ej; cbn [bind] in He; [|discriminate].
    injection He as <-. cbn [e_jobs]. eapply prep_jobs_ops, Ej.
  - intros v Hin. rewrite Hv. now apply prepared_state_ok.
  - rewrite Hn. eapply st_nq_state_of_enc, He.
Qed.
Print Assumptions link_Enc_makespan_term_after_prepare.

(* ------------------------------------------------------------------ _early_start_term
   The linear early-start penalty: every start time but the earliest of every variable, weighted by its position over
   the total number of such positions.  The implementation walks the VALUES of _operation_start_variables (a dict:
   insertion order, which _prepare_encoding makes the order of e_vars) and skips position 0 with `continue`;
   `1 / max_optimization_value` is qdiv (ZeroDivisionError when no variable has a second start time and a term is
   nevertheless requested — never reached then, because the inner loops are empty; the empty sum raises QiskitError on
   both sides).  len(values) - 1 is var_nq for a non-empty value list (every constructed variable has one). *)
Lemma q_one_shape x i : (x * inject_Z 1 * inject_Z i)%Q = (x * inject_Z i)%Q.
Proof. destruct x as [n d]. unfold Qmult, inject_Z. cbn [Qnum Qden]. f_equal; lia. Qed.

Lemma early_inner maxv v st : forall vals k acc, (1 <= k)%nat ->
  py_foldM (fun '(local_terms, st) '(i, value_) =>
      if Z.eqb i 0 then Ok (local_terms, st)
      else
        do q1_ <- qdiv (inject_Z 1) (inject_Z maxv);
        do v2_ <- gen_DWV_value_term (ghost v) value_ (st_nq st);
        let local_terms := (local_terms ++ [OpScale (q1_ * inject_Z i)%Q v2_])%list in
        Ok (local_terms, st))
    (combine (map Z.of_nat (seq k (List.length vals))) vals) (acc, st)
  = do ts <- mapM (early_local (Z.to_nat (st_nq st)) maxv v) (combine (seq k (List.length vals)) vals); Ok ((acc ++ ts)%list, st).
Proof.
  match goal with |- forall vals k acc, _ -> py_foldM ?F _ _ = _ => set (F0 := F) end.
  induction vals as [|t r IH]; intros k acc Hk; [cbn; now rewrite app_nil_r|].
  cbn [List.length seq map combine py_foldM mapM]. unfold F0 at 1. cbv zeta.
  destruct (Z.eqb_spec (Z.of_nat k) 0) as [E|_]; [lia|].
  unfold early_local at 1. cbn [fst snd].
  destruct (Z.eqb_spec maxv 0) as [->|Hm]; [reflexivity|].
  rewrite (qdiv_shape _ _ Hm). cbn [bind]. rewrite link_DWV_value_term. change (value_term (ghost v)) with (value_term v).
  destruct (value_term v t (Z.to_nat (st_nq st))) as [vt|e]; cbn [bind]; [|reflexivity].
  rewrite q_one_shape.
  rewrite (IH (S k) _ (le_S _ _ Hk)). destruct (mapM _ (combine _ r)) as [ts|e]; cbn [bind]; [|reflexivity].
  now rewrite <- app_assoc.
Qed.

Lemma early_var maxv v st acc :
  py_foldM (fun '(local_terms, st) '(i, value_) =>
      if Z.eqb i 0 then Ok (local_terms, st)
      else
        do q1_ <- qdiv (inject_Z 1) (inject_Z maxv);
        do v2_ <- gen_DWV_value_term (ghost v) value_ (st_nq st);
        let local_terms := (local_terms ++ [OpScale (q1_ * inject_Z i)%Q v2_])%list in
        Ok (local_terms, st))
    (py_enumerate (v_values v)) (acc, st)
  = do ts <- mapM (early_local (Z.to_nat (st_nq st)) maxv v) (tl (enumerate (v_values v))); Ok ((acc ++ ts)%list, st).
Proof.
  unfold py_enumerate, enumerate. destruct (v_values v) as [|x r]; [cbn; now rewrite app_nil_r|].
  cbn [List.length seq map combine tl]. cbn [py_foldM]. cbv zeta. cbn [Z.of_nat Z.eqb].
  exact (early_inner maxv v st r 1%nat acc (le_n 1)).
Qed.

Lemma early_outer maxv st : forall vars acc,
  py_foldM (fun '(local_terms, st) start_variable =>
      do l3_ <-
        py_foldM (fun '(local_terms, st) '(i, value_) =>
          if (Z.eqb i (0%Z))
          then
            Ok (local_terms, st)
          else
            do q1_ <- qdiv (inject_Z (1%Z)) (inject_Z maxv);
            do v2_ <- gen_DWV_value_term start_variable value_ (st_nq st);
            let local_terms := (local_terms ++ [(OpScale (q1_ * (inject_Z i))%Q v2_)])%list in
            Ok (local_terms, st)) (py_enumerate (gen_DWV_values start_variable)) (local_terms, st);
      let '(local_terms, st) := l3_ in
      Ok (local_terms, st)) (map ghost vars) (acc, st)
  = do per <- mapM (fun v => mapM (early_local (Z.to_nat (st_nq st)) maxv v) (tl (enumerate (v_values v)))) vars;
    Ok ((acc ++ concat per)%list, st).
Proof.
  match goal with |- forall vars acc, py_foldM ?F _ _ = _ => set (F0 := F) end.
  induction vars as [|v r IH]; intros acc; [cbn; now rewrite app_nil_r|].
  cbn [map py_foldM mapM]. unfold F0 at 1. cbv zeta. unfold gen_DWV_values. change (v_values (ghost v)) with (v_values v).
  match goal with |- context [py_foldM ?F (py_enumerate (v_values v)) (acc, st)] =>
    replace (py_foldM F (py_enumerate (v_values v)) (acc, st))
      with (do ts <- mapM (early_local (Z.to_nat (st_nq st)) maxv v) (tl (enumerate (v_values v))); Ok ((acc ++ ts)%list, st))
      by (symmetry; exact (early_var maxv v st acc))
  end.
  destruct (mapM (early_local _ maxv v) _) as [ts|e]; cbn [bind]; [|reflexivity].
  rewrite IH. destruct (mapM _ r) as [per|e]; cbn [bind concat]; [|reflexivity]. now rewrite app_assoc.
Qed.

Lemma fold_left_add_shift l : forall a, fold_left Z.add l a = a + fold_left Z.add l 0.
Proof. induction l as [|x r IH]; intros a; cbn [fold_left]; [lia|]. rewrite (IH (a + x)). rewrite (IH (0 + x)). ring. Qed.

Lemma early_maxv vars : (forall v, In v vars -> v_values v <> []) ->
  py_sum_Z (map (fun variable => py_len (gen_DWV_values variable) - 1) (map ghost vars)) = Z.of_nat (sum_nq vars).
Proof.
  unfold py_sum_Z. induction vars as [|v r IH]; intros Hne; [reflexivity|].
  change (sum_nq (v :: r)) with (var_nq v + sum_nq r)%nat. cbn [map fold_left]. rewrite fold_left_add_shift, IH by (intros w Hw; apply Hne; now right).
  unfold gen_DWV_values, py_len, var_nq. change (v_values (ghost v)) with (v_values v).
  assert (H := Hne v (or_introl eq_refl)). destruct (v_values v); [congruence|]. cbn [List.length]. lia.
Qed.

Lemma link_Enc_early_start_term : forall e st,
  py_dict_values (st_vars st) = map ghost (e_vars e) ->
  (forall v, In v (e_vars e) -> v_values v <> []) ->
  st_nq st = Z.of_nat (e_nq e) ->
  gen_Enc_early_start_term st = do t <- early_start_term e; Ok (t, st).
Proof.
  intros e st Hv Hne Hq. unfold gen_Enc_early_start_term, early_start_term. cbv zeta.
  rewrite Hv, (early_maxv _ Hne).
  match goal with |- bind ?X _ = _ =>
    replace X with (do per <- mapM (fun v => mapM (early_local (Z.to_nat (st_nq st)) (Z.of_nat (sum_nq (e_vars e))) v) (tl (enumerate (v_values v)))) (e_vars e);
                    Ok (([] ++ concat per)%list, st))
      by (symmetry; exact (early_outer (Z.of_nat (sum_nq (e_vars e))) st (e_vars e) []))
  end.
  rewrite Hq, Nat2Z.id.
  destruct (mapM _ (e_vars e)) as [per|err]; cbn [bind app]; [|reflexivity].
  destruct (sum_ops (concat per)); reflexivity.
Qed.
Print Assumptions link_Enc_early_start_term.

Lemma dict_set_absent {V} (d : list (operation * V)) k x : ~ In k (map fst d) -> py_dict_set op_eqb d k x = (d ++ [(k, x)])%list.
Proof.
  induction d as [|kv t IH]; intros Hk; [reflexivity|]. cbn [py_dict_set app].
  rewrite op_eqb_neq by (intros E; apply Hk; left; exact E). f_equal. apply IH. intros H. apply Hk. now right.
Qed.

Lemma vars_values vs : NoDup (map v_op vs) -> forall st, (forall k, In k (map v_op vs) -> ~ In k (map fst (st_vars st))) ->
  map snd (st_vars (fold_left add_var vs st)) = (map snd (st_vars st) ++ map ghost vs)%list.
Proof.
  induction vs as [|w r IH]; intros Hnd st Hfresh; [cbn; now rewrite app_nil_r|].
  cbn [map] in Hnd. inversion Hnd as [|? ? Hnot Hnd']; subst. cbn [fold_left].
  assert (Hset : st_vars (add_var st w) = (st_vars st ++ [(v_op w, ghost w)])%list).
  { cbn [add_var st_vars]. apply dict_set_absent, Hfresh. now left. }
  rewrite IH; [| exact Hnd' |].
  - rewrite Hset, map_app. cbn [map snd]. now rewrite <- app_assoc.
  - intros k Hk. rewrite Hset, map_app. cbn [map fst]. intros H. apply in_app_or in H as [H|[<-|[]]].
    + revert H. apply Hfresh. now right.
    + contradiction.
Qed.

Lemma link_Enc_early_start_term_after_prepare : forall I L e st, prepare_encoding I L = Ok e ->
  NoDup (map v_op (e_vars e)) -> reached_from_prepared e st ->
  gen_Enc_early_start_term st = do t <- early_start_term e; Ok (t, st).
Proof.
  intros I L e st He Hnd [Hv [Hn _]]. apply link_Enc_early_start_term.
  - rewrite Hv. unfold py_dict_values, state_of_enc, set_prepared. cbn [st_vars].
    rewrite (vars_values _ Hnd st_init); [reflexivity|]. intros k _ [].
  - intros v Hin. pose proof (prepare_encoding_Ok_limit _ _ _ He) as Hlim.
    rewrite (prepare_encoding_explicit _ _ Hlim) in He. injection He as <-. cbn [e_vars e_jobs] in Hin.
    destruct (vars_of_jobs_nq I L v Hlim Hin) as [j [_ [_ Hlen]]]. intros E. rewrite E in Hlen. discriminate.
  - rewrite Hn. eapply st_nq_state_of_enc, He.
Qed.
Print Assumptions link_Enc_early_start_term_after_prepare.

(* ------------------------------------------------------------------ _prepare_hamiltonian: the part behind the term loops
   Two fragments of _prepare_hamiltonian are translated: (1) the two paddings "no term of this kind: the zero observable"
   with the calls of _makespan_optimization_term and _early_start_term, (2) the weighted sum that is stored in
   self._hamiltonian together with _hamiltonian_prepared = True.  Encoder.hamiltonian_of splits (by reflexivity,
   hamiltonian_of_tail) into the three term collections and ham_tail; link_Enc_ham_tail proves that the two fragments, run
   one after the other on ANY three lists of terms in a state reached from the prepared encoding, compute ham_tail and
   store it.  The three loops that collect the terms (precedence, overlap, weighted viability) remain differential-only. *)
Definition ham_tail (P : penalties) (L : Z) (e : enc) (pterms oterms vterms : list opexpr) : result opexpr :=
  let nq := e_nq e in
  do pterms' <- pad_empty false nq pterms;
  do oterms' <- pad_empty false nq oterms;
  do mk <- makespan_term e L;
  do es <- early_start_term e;
  do sp <- sum_ops pterms';
  do so <- sum_ops oterms';
  do sv <- sum_ops vterms;
  Ok (OpAdd (OpAdd (OpAdd (OpAdd (OpScale (p_prec P) sp) (OpScale (p_overlap P) so)) (OpScale (p_enc P) sv))
                   (OpScale (p_opt P * (1 - p_share P))%Q mk))
            (OpScale (p_opt P * p_share P)%Q es)).

Lemma hamiltonian_of_tail P L e :
  hamiltonian_of false P L e =
  (let nq := e_nq e in
   do pplans <- prec_plans e;
   do pterms <- mapM (plan_term nq) pplans;
   do oplans <- overlap_plans e;
   do oterms <- mapM (plan_term nq) oplans;
   let f := count_table (pplans ++ oplans) in
   do vterms <- mapM (weighted_viability f nq) (e_vars e);
   ham_tail P L e pterms oterms vterms).
Proof. reflexivity. Qed.

Lemma pad_link nq ts st : st_nq st = Z.of_nat nq ->
  (if Z.eqb (py_len ts) 0
   then do v1_ <- pauli_identity_string (Z.to_nat (st_nq st)); Ok ((ts ++ [OpScale (inject_Z 0) v1_])%list, st)
   else Ok (ts, st))
  = do ts' <- pad_empty false nq ts; Ok (ts', st).
Proof.
  intros Hq. rewrite Hq, Nat2Z.id. unfold pad_empty, py_len. destruct ts as [|t r]; cbn [List.length Z.of_nat Z.eqb].
  - destruct (pauli_identity_string nq); reflexivity.
  - reflexivity.
Qed.

Lemma link_Enc_ham_pads_and_opt : forall I L e st pterms oterms,
  prepare_encoding I L = Ok e -> NoDup (map v_op (e_vars e)) -> reached_from_prepared e st ->
  gen_Enc_ham_pads_and_opt I L pterms oterms st
  = do p' <- pad_empty false (e_nq e) pterms;
    do o' <- pad_empty false (e_nq e) oterms;
    do mk <- makespan_term e L;
    do es <- early_start_term e;
    Ok ((p', o', mk, es), st).
Proof.
  intros I L e st pterms oterms He Hnd Hr.
  assert (Hq : st_nq st = Z.of_nat (e_nq e)).
  { destruct Hr as [_ [Hn _]]. rewrite Hn. eapply st_nq_state_of_enc, He. }
  unfold gen_Enc_ham_pads_and_opt. cbv zeta.
  rewrite (pad_link (e_nq e) pterms st Hq).
  destruct (pad_empty false (e_nq e) pterms) as [p'|err]; cbn [bind]; [|reflexivity].
  rewrite (pad_link (e_nq e) oterms st Hq).
  destruct (pad_empty false (e_nq e) oterms) as [o'|err]; cbn [bind]; [|reflexivity].
  rewrite (link_Enc_makespan_term_after_prepare I L e st He Hnd Hr).
  destruct (makespan_term e L) as [mk|err]; cbn [bind fst snd]; [|reflexivity].
  rewrite (link_Enc_early_start_term_after_prepare I L e st He Hnd Hr).
  destruct (early_start_term e) as [es|err]; cbn [bind fst snd]; reflexivity.
Qed.
Print Assumptions link_Enc_ham_pads_and_opt.

(* the weighted sum that is stored: which penalty multiplies which sum, the makespan share (1 - share) and the early-start
   share, the order of the summands, and that the Hamiltonian is marked as prepared — no hypothesis *)
Lemma link_Enc_ham_weighted_sum : forall pe po pp popt ps pterms oterms vterms mk es hs,
  gen_Enc_ham_weighted_sum pe po pp popt ps pterms oterms vterms mk es hs
  = do sp <- sum_ops pterms; do so <- sum_ops oterms; do sv <- sum_ops vterms;
    Ok (tt, mkHam (Some (OpAdd (OpAdd (OpAdd (OpAdd (OpScale pp sp) (OpScale po so)) (OpScale pe sv))
                                      (OpScale (popt * (1 - ps))%Q mk))
                               (OpScale (popt * ps)%Q es))) true).
Proof.
  intros. unfold gen_Enc_ham_weighted_sum.
  destruct (sum_ops pterms); cbn [bind]; [|reflexivity].
  destruct (sum_ops oterms); cbn [bind]; [|reflexivity].
  destruct (sum_ops vterms); reflexivity.
Qed.
Print Assumptions link_Enc_ham_weighted_sum.

Lemma link_Enc_ham_tail : forall I L e st P pterms oterms vterms hs,
  prepare_encoding I L = Ok e -> NoDup (map v_op (e_vars e)) -> reached_from_prepared e st ->
  (do r <- gen_Enc_ham_pads_and_opt I L pterms oterms st;
   do u <- gen_Enc_ham_weighted_sum (p_enc P) (p_overlap P) (p_prec P) (p_opt P) (p_share P)
             (fst (fst (fst (fst r)))) (snd (fst (fst (fst r)))) vterms (snd (fst (fst r))) (snd (fst r)) hs;
   Ok (hs_ham (snd u), hs_prepared (snd u), snd r))
  = do H <- ham_tail P L e pterms oterms vterms; Ok (Some H, true, st).
Proof.
  intros I L e st P pterms oterms vterms hs He Hnd Hr.
  assert (Hq : st_nq st = Z.of_nat (e_nq e)).
  { destruct Hr as [_ [Hn _]]. rewrite Hn. eapply st_nq_state_of_enc, He. }
  unfold gen_Enc_ham_pads_and_opt, ham_tail. cbv zeta.
  rewrite (pad_link (e_nq e) pterms st Hq).
  destruct (pad_empty false (e_nq e) pterms) as [p'|err]; cbn [bind]; [|reflexivity].
  rewrite (pad_link (e_nq e) oterms st Hq).
  destruct (pad_empty false (e_nq e) oterms) as [o'|err]; cbn [bind]; [|reflexivity].
  rewrite (link_Enc_makespan_term_after_prepare I L e st He Hnd Hr).
  destruct (makespan_term e L) as [mk|err]; cbn [bind fst snd]; [|reflexivity].
  rewrite (link_Enc_early_start_term_after_prepare I L e st He Hnd Hr).
  destruct (early_start_term e) as [es|err]; cbn [bind fst snd]; [|reflexivity].
  unfold gen_Enc_ham_weighted_sum.
  destruct (sum_ops p') as [sp|err]; cbn [bind]; [|reflexivity].
  destruct (sum_ops o') as [so|err]; cbn [bind]; [|reflexivity].
  destruct (sum_ops vterms) as [sv|err]; cbn [bind]; [|reflexivity].
  reflexivity.
Qed.
Print Assumptions link_Enc_ham_tail.

(* ------------------------------------------------------------------ _prepare_hamiltonian: the weighted viability terms
   The third loop of _prepare_hamiltonian (fragment behind `variable_viability_terms: list = []`): for every operation, in
   instance order, the variable's viability term times (largest constraint count over its start times + 1).  The count dict
   is read through C15Aux.counts_agree (what the pair terms maintain: dict_plan_bump_agree): under it the loop computes
   Encoder.weighted_viability with the model's count table, for any list of terms collected so far. *)
(* the loop that finds the largest constraint count of a variable's start times, read through the agreement of the count
   dict with the model's table *)
Lemma viab_max_loop f v st : forall vals m,
  (forall t, In t vals -> py_dict_get ckey_eqb (st_counts st) (v_op v, t) = Ok (Z.of_nat (f (v_id v) t))) ->
  py_foldM (fun '(max_constraints_per_variable, st) start_time =>
      do dv4_ <- py_dict_get (fun a b => op_eqb (fst a) (fst b) && Z.eqb (snd a) (snd b)) (st_counts st) (v_op v, start_time);
      do j6_ <-
        (if (max_constraints_per_variable <? dv4_)%Z
        then
          do dv5_ <- py_dict_get (fun a b => op_eqb (fst a) (fst b) && Z.eqb (snd a) (snd b)) (st_counts st) (v_op v, start_time);
          let max_constraints_per_variable := dv5_ in
          Ok (max_constraints_per_variable, st)
        else
          Ok (max_constraints_per_variable, st));
      let '(max_constraints_per_variable, st) := j6_ in
      Ok (max_constraints_per_variable, st)) vals (Z.of_nat m, st)
  = Ok (Z.of_nat (fold_left (fun m t => if (m <? f (v_id v) t)%nat then f (v_id v) t else m) vals m), st).
Proof.
  induction vals as [|t r IH]; intros m Hag; [reflexivity|].
  cbn [py_foldM fold_left]. cbv zeta.
  repeat match goal with |- context [py_dict_get ?E (st_counts st) (v_op v, t)] =>
    replace (py_dict_get E (st_counts st) (v_op v, t)) with (@Ok Z (Z.of_nat (f (v_id v) t)))
      by (symmetry; exact (Hag t (or_introl eq_refl)))
  end. cbn [bind].
  destruct (Z.ltb_spec (Z.of_nat m) (Z.of_nat (f (v_id v) t))) as [Hlt|Hge];
    destruct (Nat.ltb_spec m (f (v_id v) t)) as [Hlt'|Hge']; try lia; cbn [bind];
    apply IH; intros t' Ht'; apply Hag; now right.
Qed.

Definition viab_body (st0 : encstate) :=
  (fun '(variable_viability_terms, st) (operation_ : operation) =>
          do dv1_ <- py_dict_get op_eqb (st_vars st) operation_;
          do v2_ <- gen_DWV_viability_term dv1_ (st_nq st);
          let viability_term := v2_ in
          let max_constraints_per_variable := 0%Z in
          do dv3_ <- py_dict_get op_eqb (st_vars st) operation_;
          do l7_ <-
            py_foldM (fun '(max_constraints_per_variable, st) start_time =>
              do dv4_ <- py_dict_get (fun a b => op_eqb (fst a) (fst b) && Z.eqb (snd a) (snd b)) (st_counts st) (operation_, start_time);
              do j6_ <-
                (if (max_constraints_per_variable <? dv4_)%Z
                then
                  do dv5_ <- py_dict_get (fun a b => op_eqb (fst a) (fst b) && Z.eqb (snd a) (snd b)) (st_counts st) (operation_, start_time);
                  let max_constraints_per_variable := dv5_ in
                  Ok (max_constraints_per_variable, st)
                else
                  Ok (max_constraints_per_variable, st));
              let '(max_constraints_per_variable, st) := j6_ in
              Ok (max_constraints_per_variable, st)) (gen_DWV_values dv3_) (max_constraints_per_variable, st);
          let '(max_constraints_per_variable, st) := l7_ in
          let variable_viability_terms := (variable_viability_terms ++ [(OpScale (inject_Z (max_constraints_per_variable + (1%Z))%Z) viability_term)])%list in
          Ok (variable_viability_terms, st)) : (list opexpr * encstate) -> operation -> result (list opexpr * encstate).

Lemma viab_step f v st acc :
  py_dict_get op_eqb (st_vars st) (v_op v) = Ok (ghost v) ->
  (forall t, In t (v_values v) -> py_dict_get ckey_eqb (st_counts st) (v_op v, t) = Ok (Z.of_nat (f (v_id v) t))) ->
  viab_body st (acc, st) (v_op v)
  = do t <- weighted_viability f (Z.to_nat (st_nq st)) v; Ok ((acc ++ [t])%list, st).
Proof.
  intros Hget Hag. unfold viab_body, weighted_viability. cbv zeta. rewrite Hget. cbn [bind].
  rewrite link_DWV_viability_term. change (viability_term (ghost v)) with (viability_term v).
  destruct (viability_term v (Z.to_nat (st_nq st))) as [vt|err]; cbn [bind]; [|reflexivity].
  unfold gen_DWV_values. change (v_values (ghost v)) with (v_values v).
  match goal with |- context [py_foldM ?F (v_values v) (0, st)] =>
    replace (py_foldM F (v_values v) (0, st))
      with (@Ok (Z * encstate) (Z.of_nat (fold_left (fun m t => if (m <? f (v_id v) t)%nat then f (v_id v) t else m) (v_values v) 0%nat), st))
      by (symmetry; exact (viab_max_loop f v st (v_values v) 0%nat Hag))
  end.
  cbn [bind]. unfold max_count. rewrite Nat2Z.inj_add. reflexivity.
Qed.

Lemma viab_inner f st : forall vs acc,
  (forall v, In v vs -> py_dict_get op_eqb (st_vars st) (v_op v) = Ok (ghost v)) ->
  (forall v t, In v vs -> In t (v_values v) -> py_dict_get ckey_eqb (st_counts st) (v_op v, t) = Ok (Z.of_nat (f (v_id v) t))) ->
  py_foldM (viab_body st) (map v_op vs) (acc, st)
  = do ts <- mapM (weighted_viability f (Z.to_nat (st_nq st))) vs; Ok ((acc ++ ts)%list, st).
Proof.
  induction vs as [|v r IH]; intros acc Hget Hag; [cbn; now rewrite app_nil_r|].
  cbn [map py_foldM mapM].
  rewrite (viab_step f v st acc (Hget v (or_introl eq_refl)) (fun t Ht => Hag v t (or_introl eq_refl) Ht)).
  destruct (weighted_viability f (Z.to_nat (st_nq st)) v) as [t|err]; cbn [bind]; [|reflexivity].
  rewrite IH by (intros; first [apply Hget | apply Hag]; try assumption; now right).
  destruct (mapM _ r) as [ts|err]; cbn [bind]; [|reflexivity]. now rewrite <- app_assoc.
Qed.

Lemma mapM_app_r {A B} (g : A -> result B) (l1 l2 : list A) :
  mapM g (l1 ++ l2) = do a <- mapM g l1; do b <- mapM g l2; Ok (a ++ b)%list.
Proof.
  induction l1 as [|x r IH]; cbn [mapM app bind].
  - destruct (mapM g l2); reflexivity.
  - destruct (g x); cbn [bind]; [|reflexivity]. rewrite IH.
    destruct (mapM g r); cbn [bind]; [|reflexivity]. destruct (mapM g l2); reflexivity.
Qed.

Lemma viab_outer f st : forall jobs vss acc,
  map (map v_op) vss = map job_ops jobs ->
  (forall v, In v (concat vss) -> py_dict_get op_eqb (st_vars st) (v_op v) = Ok (ghost v)) ->
  (forall v t, In v (concat vss) -> In t (v_values v) -> py_dict_get ckey_eqb (st_counts st) (v_op v, t) = Ok (Z.of_nat (f (v_id v) t))) ->
  py_foldM (fun '(variable_viability_terms, st) job_ =>
      do l8_ <- py_foldM (viab_body st) (job_ops job_) (variable_viability_terms, st);
      let '(variable_viability_terms, st) := l8_ in
      Ok (variable_viability_terms, st)) jobs (acc, st)
  = do ts <- mapM (weighted_viability f (Z.to_nat (st_nq st))) (concat vss); Ok ((acc ++ ts)%list, st).
Proof.
  induction jobs as [|j r IH]; intros vss acc Hm Hget Hag.
  - destruct vss; [|discriminate]. cbn. now rewrite app_nil_r.
  - destruct vss as [|vs vss']; [discriminate|]. cbn [map] in Hm. injection Hm as Hj Hr.
    cbn [py_foldM concat]. rewrite <- Hj.
    rewrite (viab_inner f st vs acc) by (intros; first [apply Hget | apply Hag]; try assumption; cbn [concat]; apply in_or_app; now left).
    rewrite mapM_app_r.
    destruct (mapM (weighted_viability f (Z.to_nat (st_nq st))) vs) as [ts|err]; cbn [bind]; [|reflexivity].
    rewrite (IH vss' (acc ++ ts)%list Hr) by (intros; first [apply Hget | apply Hag]; try assumption; cbn [concat]; apply in_or_app; now right).
    destruct (mapM _ (concat vss')) as [ts'|err]; cbn [bind]; [|reflexivity]. now rewrite app_assoc.
Qed.

Lemma link_Enc_ham_viability_terms : forall I L e st f acc,
  map (map v_op) (e_jobs e) = map job_ops (inst_jobs I) ->
  (forall v, In v (e_vars e) -> py_dict_get op_eqb (st_vars st) (v_op v) = Ok (ghost v)) ->
  st_nq st = Z.of_nat (e_nq e) ->
  counts_agree (st_counts st) f (e_vars e) ->
  gen_Enc_ham_viability_terms I L acc st
  = do ts <- mapM (weighted_viability f (e_nq e)) (e_vars e); Ok ((acc ++ ts)%list, st).
Proof.
  intros I L e st f acc Hm Hget Hq Hag. unfold gen_Enc_ham_viability_terms.
  match goal with |- bind ?X _ = _ =>
    replace X with (do ts <- mapM (weighted_viability f (Z.to_nat (st_nq st))) (concat (e_jobs e)); Ok ((acc ++ ts)%list, st))
      by (symmetry; exact (viab_outer f st (inst_jobs I) (e_jobs e) acc Hm Hget (fun v t Hv Ht => Hag v t Hv Ht)))
  end.
  rewrite Hq, Nat2Z.id. unfold e_vars.
  destruct (mapM _ (concat (e_jobs e))) as [ts|err]; reflexivity.
Qed.
Print Assumptions link_Enc_ham_viability_terms.

Lemma link_Enc_ham_viability_terms_after_prepare : forall I L e st f acc, prepare_encoding I L = Ok e ->
  NoDup (map v_op (e_vars e)) -> reached_from_prepared e st -> counts_agree (st_counts st) f (e_vars e) ->
  gen_Enc_ham_viability_terms I L acc st
  = do ts <- mapM (weighted_viability f (e_nq e)) (e_vars e); Ok ((acc ++ ts)%list, st).
Proof.
  intros I L e st f acc He Hnd [Hv [Hn _]] Hag. apply link_Enc_ham_viability_terms; [| | |exact Hag].
  - unfold prepare_encoding in He. destruct (prep_jobs L 0 0 (inst_jobs I)) as [js|] eqn:Ej; cbn [bind] in He; [|discriminate].
    injection He as <-. cbn [e_jobs]. eapply prep_jobs_ops, Ej.
  - intros v Hin. rewrite Hv. now apply prepared_state_ok.
  - rewrite Hn. eapply st_nq_state_of_enc, He.
Qed.
Print Assumptions link_Enc_ham_viability_terms_after_prepare.

(* ------------------------------------------------------------------ _prepare_hamiltonian: the precedence-term loop
   The first loop of _prepare_hamiltonian (fragment: the first three statements): for every job, for i in
   range(0, len(operations) - 1), the precedence term of operations[i] and operations[i + 1], each on the state the previous
   one left (they increment the constraint counts).  index_pairs_loop: indexing l[i], l[i + 1] over that range walks the
   consecutive pairs of l.  link_Enc_ham_precedence_terms: in any state reached from the prepared encoding the loop is
   pair_thread prec_plan over Encoder's own pair list concat (map consecutive (e_jobs e)) (the one prec_plans maps over). *)
(* l[i], l[i + 1] for i in range(0, len(l) - 1) are the consecutive pairs of l *)
Definition pair_at {A} (l : list A) (d : nat) : result (A * A) :=
  match nth_error l d, nth_error l (S d) with
  | Some a, Some b => Ok (a, b)
  | _, _ => Err "IndexError"%string
  end.

Lemma mapM_map {A B C} (g : A -> B) (h : B -> result C) (l : list A) : mapM h (map g l) = mapM (fun x => h (g x)) l.
Proof. induction l as [|x r IH]; [reflexivity|]. cbn [map mapM]. now rewrite IH. Qed.

Lemma mapM_ext_all {A B} (g h : A -> result B) (l : list A) : (forall x, g x = h x) -> mapM g l = mapM h l.
Proof. intros E. induction l as [|x r IH]; [reflexivity|]. cbn [mapM]. now rewrite E, IH. Qed.

Lemma consecutive_pair_at {A} : forall l : list A,
  mapM (pair_at l) (seq 0 (List.length l - 1)) = Ok (consecutive l).
Proof.
  induction l as [|x r IH]; [reflexivity|].
  destruct r as [|y r']; [reflexivity|].
  replace (List.length (x :: y :: r') - 1)%nat with (S (List.length (y :: r') - 1)) by (cbn [List.length]; lia).
  rewrite <- cons_seq, <- seq_shift. cbn [mapM]. unfold pair_at at 1. cbn [nth_error bind].
  rewrite mapM_map.
  change (fun x0 : nat => pair_at (x :: y :: r') (S x0)) with (pair_at (y :: r')).
  rewrite IH. reflexivity.
Qed.

Lemma foldM_via_mapM {St A B} (g : A -> result B) (G : St -> B -> result St) : forall (xs : list A) (ys : list B) (s0 : St),
  mapM g xs = Ok ys ->
  py_foldM (fun s x => do y <- g x; G s y) xs s0 = py_foldM G ys s0.
Proof.
  induction xs as [|x r IH]; intros ys s0 H; cbn [mapM] in H.
  - injection H as <-. reflexivity.
  - destruct (g x) as [y|] eqn:Eg; cbn [bind] in H; [|discriminate].
    destruct (mapM g r) as [ys'|] eqn:Em; cbn [bind] in H; [|discriminate]. injection H as <-.
    cbn [py_foldM]. rewrite Eg. cbn [bind]. destruct (G s0 y) as [s1|err]; [|reflexivity]. now apply IH.
Qed.

Lemma index_pairs_loop {St A} (l : list A) (G : St -> A -> A -> result St) (s0 : St) :
  py_foldM (fun s i => do a <- py_index l i; do b <- py_index l (i + 1); G s a b) (py_range 0 (py_len l - 1)) s0
  = py_foldM (fun s ab => G s (fst ab) (snd ab)) (consecutive l) s0.
Proof.
  unfold py_range, py_len. rewrite Z.sub_0_r.
  replace (Z.to_nat (Z.of_nat (List.length l) - 1)) with (List.length l - 1)%nat by lia.
  rewrite <- (foldM_via_mapM (fun i => do a <- py_index l i; do b <- py_index l (i + 1); Ok (a, b))
                (fun s ab => G s (fst ab) (snd ab)) (map (fun k => 0 + Z.of_nat k) (seq 0 (List.length l - 1))) (consecutive l) s0).
  - clear. generalize (map (fun k : nat => 0 + Z.of_nat k) (seq 0 (Datatypes.length l - 1))). intros xs. revert s0.
    induction xs as [|x r IH]; intros s0; [reflexivity|]. cbn [py_foldM].
    destruct (py_index l x) as [a|err]; cbn [bind]; [|reflexivity].
    destruct (py_index l (x + 1)) as [b|err]; cbn [bind fst snd]; [|reflexivity].
    destruct (G s0 a b); [apply IH|reflexivity].
  - rewrite mapM_map. rewrite <- (consecutive_pair_at l). apply mapM_ext_all. intros d.
    rewrite Z.add_0_l. replace (Z.of_nat d + 1) with (Z.of_nat (S d)) by lia. rewrite !py_index_nat. unfold pair_at.
    destruct (nth_error l d); cbn [bind]; [|reflexivity]. destruct (nth_error l (S d)); reflexivity.
Qed.

Lemma py_foldM_ext {St A} (F F' : St -> A -> result St) : (forall s x, F s x = F' s x) ->
  forall xs s0, py_foldM F xs s0 = py_foldM F' xs s0.
Proof. intros E. induction xs as [|x r IH]; intros s0; [reflexivity|]. cbn [py_foldM]. rewrite E. destruct (F' s0 x); [apply IH|reflexivity]. Qed.

Lemma index_pairs_loop2 {S1 S2 A} (l : list A) (G : S1 -> S2 -> A -> A -> result (S1 * S2)) (s1 : S1) (s2 : S2) :
  py_foldM (fun '(s1, s2) i => do a <- py_index l i; do b <- py_index l (i + 1); G s1 s2 a b) (py_range 0 (py_len l - 1)) (s1, s2)
  = py_foldM (fun '(s1, s2) ab => G s1 s2 (fst ab) (snd ab)) (consecutive l) (s1, s2).
Proof.
  rewrite (py_foldM_ext _ (fun s i => do a <- py_index l i; do b <- py_index l (i + 1); G (fst s) (snd s) a b)) by (intros [a b] x; reflexivity).
  rewrite (index_pairs_loop l (fun s a b => G (fst s) (snd s) a b)).
  apply py_foldM_ext. intros [a b] x. reflexivity.
Qed.

Lemma consecutive_map {A B} (g : A -> B) : forall l, consecutive (map g l) = map (fun ab => (g (fst ab), g (snd ab))) (consecutive l).
Proof.
  induction l as [|x r IH]; [reflexivity|]. destruct r as [|y r']; [reflexivity|].
  cbn [map consecutive fst snd] in *. now rewrite IH.
Qed.

Lemma consecutive_In {A} : forall (l : list A) a b, In (a, b) (consecutive l) -> In a l /\ In b l.
Proof.
  induction l as [|x r IH]; intros a b H; [contradiction|]. destruct r as [|y r']; [contradiction|].
  cbn [consecutive] in H. destruct H as [[= <- <-]|H]; [split; [now left|right; now left]|].
  destruct (IH a b H) as [Ha Hb]. split; now right.
Qed.

(* the model side: the pair terms of a list of variable pairs, one after the other, each on the state the previous one left *)
Fixpoint pair_thread (plan_of : dwvar -> dwvar -> result pterm) (pairs : list (dwvar * dwvar)) (acc : list opexpr) (st : encstate)
  : result (list opexpr * encstate) :=
  match pairs with
  | [] => Ok (acc, st)
  | ab :: r => do ts <- pair_result (v_op (fst ab)) (v_op (snd ab)) st (plan_of (fst ab) (snd ab));
               pair_thread plan_of r (acc ++ [fst ts])%list (snd ts)
  end.

Lemma prec_pairs_thread e : NoDup (map v_op (e_vars e)) -> forall pairs acc st,
  (forall a b, In (a, b) pairs -> In a (e_vars e) /\ In b (e_vars e)) -> reached_from_prepared e st ->
  py_foldM (fun '(pts, st) ab => do r3_ <- gen_Enc_precedence_term (fst ab) (snd ab) st; Ok ((pts ++ [fst r3_])%list, snd r3_))
           (map (fun ab => (v_op (fst ab), v_op (snd ab))) pairs) (acc, st)
  = pair_thread prec_plan pairs acc st.
Proof.
  intros Hnd. induction pairs as [|[v1 v2] r IH]; intros acc st Hin Hr; [reflexivity|].
  cbn [map py_foldM pair_thread fst snd].
  destruct (Hin v1 v2 (or_introl eq_refl)) as [H1 H2].
  rewrite (link_Enc_precedence_term_after_prepare e st v1 v2 Hnd Hr H1 H2).
  destruct (prec_plan v1 v2) as [p|err] eqn:Ep; [|reflexivity].
  destruct (pair_result (v_op v1) (v_op v2) st (Ok p)) as [[t st']|err] eqn:Et; cbn [bind fst snd]; [|reflexivity].
  apply IH; [intros a b Hab; apply Hin; now right|].
  eapply reached_pair_result; [exact Hr|exact Et].
Qed.

Lemma pair_thread_app plan_of : forall p1 p2 acc st,
  pair_thread plan_of (p1 ++ p2) acc st = do r <- pair_thread plan_of p1 acc st; pair_thread plan_of p2 (fst r) (snd r).
Proof.
  induction p1 as [|ab r IH]; intros p2 acc st; [reflexivity|]. cbn [app pair_thread].
  destruct (pair_result _ _ st _) as [ts|err]; cbn [bind]; [apply IH|reflexivity].
Qed.

Lemma pair_thread_reached e plan_of : forall pairs acc st acc' st',
  reached_from_prepared e st -> pair_thread plan_of pairs acc st = Ok (acc', st') -> reached_from_prepared e st'.
Proof.
  induction pairs as [|ab r IH]; intros acc st acc' st' Hr H; cbn [pair_thread] in H; [now injection H as _ <-|].
  destruct (plan_of (fst ab) (snd ab)) as [p|err] eqn:Ep; [|discriminate].
  destruct (pair_result (v_op (fst ab)) (v_op (snd ab)) st (Ok p)) as [[t st1]|err] eqn:Et; cbn [bind fst snd] in H; [|discriminate].
  eapply IH; [|exact H]. eapply reached_pair_result; [exact Hr|exact Et].
Qed.

Lemma prec_job_loop e : NoDup (map v_op (e_vars e)) -> forall vs acc st,
  (forall v, In v vs -> In v (e_vars e)) -> reached_from_prepared e st ->
  py_foldM (fun '(precedence_terms, st) i =>
      do it1_ <- py_index (map v_op vs) i;
      do it2_ <- py_index (map v_op vs) (i + 1);
      do r3_ <- gen_Enc_precedence_term it1_ it2_ st;
      let st := snd r3_ in
      let precedence_terms := (precedence_terms ++ [fst r3_])%list in
      Ok (precedence_terms, st)) (py_range 0 (py_len (map v_op vs) - 1)) (acc, st)
  = pair_thread prec_plan (consecutive vs) acc st.
Proof.
  intros Hnd vs acc st Hin Hr.
  etransitivity.
  { exact (index_pairs_loop2 (map v_op vs)
             (fun pts st a b => do r3_ <- gen_Enc_precedence_term a b st; Ok ((pts ++ [fst r3_])%list, snd r3_)) acc st). }
  rewrite consecutive_map.
  apply (prec_pairs_thread e Hnd (consecutive vs) acc st); [|exact Hr].
  intros a b Hab. destruct (consecutive_In vs a b Hab). split; now apply Hin.
Qed.

Lemma prec_jobs_loop e : NoDup (map v_op (e_vars e)) -> forall jobs vss acc st,
  map (map v_op) vss = map job_ops jobs ->
  (forall v, In v (concat vss) -> In v (e_vars e)) -> reached_from_prepared e st ->
  py_foldM (fun '(precedence_terms, st) job_ =>
      do l4_ <-
        py_foldM (fun '(precedence_terms, st) i =>
          do it1_ <- py_index (job_ops job_) i;
          do it2_ <- py_index (job_ops job_) (i + 1);
          do r3_ <- gen_Enc_precedence_term it1_ it2_ st;
          let st := snd r3_ in
          let precedence_terms := (precedence_terms ++ [fst r3_])%list in
          Ok (precedence_terms, st)) (py_range 0 (py_len (job_ops job_) - 1)) (precedence_terms, st);
      let '(precedence_terms, st) := l4_ in
      Ok (precedence_terms, st)) jobs (acc, st)
  = pair_thread prec_plan (concat (map consecutive vss)) acc st.
Proof.
  intros Hnd. induction jobs as [|j r IH]; intros vss acc st Hm Hin Hr.
  - destruct vss; [reflexivity|discriminate].
  - destruct vss as [|vs vss']; [discriminate|]. cbn [map] in Hm. injection Hm as Hj Hrest.
    cbn [py_foldM map concat]. rewrite <- Hj, pair_thread_app.
    assert (Hin1 : forall v, In v vs -> In v (e_vars e)) by (intros v Hv; apply Hin; cbn [concat]; apply in_or_app; now left).
    match goal with |- context [py_foldM ?F (py_range 0 (py_len (map v_op vs) - 1)) (acc, st)] =>
      replace (py_foldM F (py_range 0 (py_len (map v_op vs) - 1)) (acc, st)) with (pair_thread prec_plan (consecutive vs) acc st)
        by (symmetry; exact (prec_job_loop e Hnd vs acc st Hin1 Hr))
    end.
    destruct (pair_thread prec_plan (consecutive vs) acc st) as [[acc1 st1]|err] eqn:Et; cbn [bind fst snd]; [|reflexivity].
    apply IH; [exact Hrest| |].
    + intros v Hv. apply Hin. cbn [concat]. apply in_or_app. now right.
    + eapply pair_thread_reached; [exact Hr|exact Et].
Qed.

Lemma link_Enc_ham_precedence_terms : forall I L e st, prepare_encoding I L = Ok e ->
  NoDup (map v_op (e_vars e)) -> reached_from_prepared e st ->
  gen_Enc_ham_precedence_terms I L st = pair_thread prec_plan (concat (map consecutive (e_jobs e))) [] st.
Proof.
  intros I L e st He Hnd Hr. unfold gen_Enc_ham_precedence_terms. cbv zeta.
  assert (Hm : map (map v_op) (e_jobs e) = map job_ops (inst_jobs I)).
  { unfold prepare_encoding in He. destruct (prep_jobs L 0 0 (inst_jobs I)) as [js|] eqn:Ej; cbn [bind] in He; [|discriminate].
    injection He as <-. cbn [e_jobs]. eapply prep_jobs_ops, Ej. }
  match goal with |- bind ?X _ = _ =>
    replace X with (pair_thread prec_plan (concat (map consecutive (e_jobs e))) [] st)
      by (symmetry; exact (prec_jobs_loop e Hnd (inst_jobs I) (e_jobs e) [] st Hm (fun v Hv => Hv) Hr))
  end.
  destruct (pair_thread prec_plan _ [] st) as [[a s]|err]; reflexivity.
Qed.
Print Assumptions link_Enc_ham_precedence_terms.

(* ------------------------------------------------------------------ _prepare_hamiltonian: the overlap-term loop
   The second loop (fragment behind `overlap_terms: list = []`): for every machine in the order of the machine dict, skipped
   with `continue` when fewer than two operations use it, the overlap term of every pair of itertools.combinations(operations, 2)
   (= Encoder.combs2, spec preamble), threaded through the state like the precedence terms.  In any state reached from the
   prepared encoding whose machine dict is still the prepared one (pair terms only touch the counts) the loop is
   pair_thread overlap_plan over exactly the pair list Encoder.overlap_plans maps over. *)
Lemma overlap_pairs_thread e : NoDup (map v_op (e_vars e)) -> forall pairs acc st,
  (forall a b, In (a, b) pairs -> In a (e_vars e) /\ In b (e_vars e)) -> reached_from_prepared e st ->
  py_foldM (fun '(overlap_terms, st) '(operation_1, operation_2) =>
      do r2_ <- gen_Enc_overlap_term operation_1 operation_2 st;
      let st := snd r2_ in
      let overlap_terms := (overlap_terms ++ [fst r2_])%list in
      Ok (overlap_terms, st))
    (map (fun ab => (v_op (fst ab), v_op (snd ab))) pairs) (acc, st)
  = pair_thread overlap_plan pairs acc st.
Proof.
  intros Hnd. induction pairs as [|[v1 v2] r IH]; intros acc st Hin Hr; [reflexivity|].
  cbn [map py_foldM pair_thread fst snd]. cbv zeta.
  destruct (Hin v1 v2 (or_introl eq_refl)) as [H1 H2].
  rewrite (link_Enc_overlap_term_after_prepare e st v1 v2 Hnd Hr H1 H2).
  destruct (overlap_plan v1 v2) as [p|err] eqn:Ep; [|reflexivity].
  destruct (pair_result (v_op v1) (v_op v2) st (Ok p)) as [[t st']|err] eqn:Et; cbn [bind fst snd]; [|reflexivity].
  apply IH; [intros a b Hab; apply Hin; now right|].
  eapply reached_pair_result; [exact Hr|exact Et].
Qed.

Lemma overlap_machines_loop e : NoDup (map v_op (e_vars e)) -> forall mo acc st,
  (forall ml v, In ml mo -> In v (snd ml) -> In v (e_vars e)) -> reached_from_prepared e st ->
  py_foldM (fun '(overlap_terms, st) '(_, operations) =>
      if (py_len operations <? 2)%Z
      then Ok (overlap_terms, st)
      else
        do v1_ <- py_combinations2 operations 2;
        do l3_ <-
          py_foldM (fun '(overlap_terms, st) '(operation_1, operation_2) =>
            do r2_ <- gen_Enc_overlap_term operation_1 operation_2 st;
            let st := snd r2_ in
            let overlap_terms := (overlap_terms ++ [fst r2_])%list in
            Ok (overlap_terms, st)) v1_ (overlap_terms, st);
        let '(overlap_terms, st) := l3_ in
        Ok (overlap_terms, st)) (mo_ops mo) (acc, st)
  = pair_thread overlap_plan (concat (map (fun ml => if (List.length (snd ml) <? 2)%nat then [] else combs2 (snd ml)) mo)) acc st.
Proof.
  intros Hnd. induction mo as [|[m l] r IH]; intros acc st Hin Hr; [reflexivity|].
  cbn [mo_ops map py_foldM concat fst snd]. fold (mo_ops r). rewrite pair_thread_app.
  unfold py_len. rewrite map_length.
  assert (Hl : forall v, In v l -> In v (e_vars e)) by (intros v Hv; apply (Hin (m, l) v); [now left|exact Hv]).
  assert (Hr' : forall ml v, In ml r -> In v (snd ml) -> In v (e_vars e)) by (intros ml v Hml Hv; apply (Hin ml v); [now right|exact Hv]).
  destruct (Nat.ltb_spec (List.length l) 2) as [Hs|Hs].
  - replace (Z.of_nat (List.length l) <? 2) with true by (symmetry; apply Z.ltb_lt; lia).
    cbn [pair_thread bind fst snd]. apply IH; assumption.
  - replace (Z.of_nat (List.length l) <? 2) with false by (symmetry; apply Z.ltb_ge; lia).
    unfold py_combinations2. cbn [Z.eqb Pos.eqb bind]. rewrite combs2_map.
    match goal with |- context [py_foldM ?F (map _ (combs2 l)) (acc, st)] =>
      replace (py_foldM F (map (fun ab => (v_op (fst ab), v_op (snd ab))) (combs2 l)) (acc, st))
        with (pair_thread overlap_plan (combs2 l) acc st)
        by (symmetry; apply (overlap_pairs_thread e Hnd (combs2 l) acc st); [|exact Hr];
            intros a b Hab; destruct (combs2_In l a b Hab); split; now apply Hl)
    end.
    destruct (pair_thread overlap_plan (combs2 l) acc st) as [[acc1 st1]|err] eqn:Et; cbn [bind fst snd]; [|reflexivity].
    apply IH; [exact Hr'|]. eapply pair_thread_reached; [exact Hr|exact Et].
Qed.

Lemma link_Enc_ham_overlap_terms : forall I L e st acc,
  NoDup (map v_op (e_vars e)) -> reached_from_prepared e st -> st_mo st = st_mo (state_of_enc e) ->
  gen_Enc_ham_overlap_terms I L acc st
  = pair_thread overlap_plan
      (concat (map (fun ml => if (List.length (snd ml) <? 2)%nat then [] else combs2 (snd ml)) (machine_ops (e_vars e)))) acc st.
Proof.
  intros I L e st acc Hnd Hr Hmo. unfold gen_Enc_ham_overlap_terms. rewrite Hmo, st_mo_state_of_enc.
  match goal with |- bind ?X _ = _ =>
    replace X with (pair_thread overlap_plan
      (concat (map (fun ml => if (List.length (snd ml) <? 2)%nat then [] else combs2 (snd ml)) (machine_ops (e_vars e)))) acc st)
      by (symmetry; apply (overlap_machines_loop e Hnd (machine_ops (e_vars e)) acc st); [|exact Hr];
          intros [m l] v Hml Hv; exact (proj1 (machine_ops_members (e_vars e) m l Hml v Hv)))
  end.
  destruct (pair_thread overlap_plan _ acc st) as [[a s]|err]; reflexivity.
Qed.
Print Assumptions link_Enc_ham_overlap_terms.

(* ------------------------------------------------------------------ _prepare_hamiltonian as a whole (success case)
   pair_thread_model glues the threaded pair terms to the staged model (plans, then operators, then the bumped count table) on
   states whose count dict agrees with a table; link_Enc_prepare_hamiltonian composes the five translated pieces in the method's
   order from the state _prepare_encoding leaves: whenever the model's Hamiltonian exists (Encoder.hamiltonian_of = Ok H) the
   pieces store exactly Some H and mark the Hamiltonian as prepared.  Not part of the statement: the two initialisations
   `overlap_terms: list = []` / `variable_viability_terms: list = []` between the fragments (passed as []), that Python runs
   the pieces in this order with nothing in between (the fragments are addressed by their neighbours, see the README), and the
   error cases (when several stages fail, model and code may report different ones first; the differential check compares them). *)
(* a plan function whose plans are about the two variables it was given, with penalised start times taken from their values *)
Definition plan_shape (plan_of : dwvar -> dwvar -> result pterm) : Prop :=
  forall v1 v2 p, plan_of v1 v2 = Ok p ->
    p = PZero \/ exists pairs, p = PPairs v1 v2 pairs /\ forall q, In q pairs -> In (fst q) (v_values v1) /\ In (snd q) (v_values v2).

Lemma prec_plan_shape : plan_shape prec_plan.
Proof.
  intros v1 v2 p. unfold prec_plan. destruct (vmax v1); cbn [bind]; [|discriminate]. destruct (vmin v2); cbn [bind]; [|discriminate].
  destruct (_ <=? _); intros [= <-]; [now left|right]. eexists; split; [reflexivity|]. intros q. apply prec_pairs_in.
Qed.

Lemma overlap_plan_shape : plan_shape overlap_plan.
Proof.
  intros v1 v2 p. unfold overlap_plan. destruct (vmax v1); cbn [bind]; [|discriminate]. destruct (vmin v2); cbn [bind]; [|discriminate].
  destruct (_ <=? _); [intros [= <-]; now left|].
  destruct (vmax v2); cbn [bind]; [|discriminate]. destruct (vmin v1); cbn [bind]; [|discriminate].
  destruct (_ <=? _); intros [= <-]; [now left|right]. eexists; split; [reflexivity|]. intros q. apply overlap_pairs_in.
Qed.

(* SUCCESS CASE GLUE: on a state whose count dict agrees with a table f, threading the pair terms yields exactly the staged
   model — the plans, then their operators, then the table bumped by all plans — and leaves everything but the counts alone *)
Lemma pair_thread_model e plan_of : ids_match (e_vars e) -> plan_shape plan_of ->
  forall pairs acc st f plans terms,
  (forall a b, In (a, b) pairs -> In a (e_vars e) /\ In b (e_vars e)) ->
  counts_agree (st_counts st) f (e_vars e) ->
  mapM (fun ab => plan_of (fst ab) (snd ab)) pairs = Ok plans ->
  mapM (plan_term (Z.to_nat (st_nq st))) plans = Ok terms ->
  exists st', pair_thread plan_of pairs acc st = Ok ((acc ++ terms)%list, st')
    /\ st_mo st' = st_mo st /\ st_vars st' = st_vars st /\ st_nq st' = st_nq st /\ st_prepared st' = st_prepared st
    /\ counts_agree (st_counts st') (fold_left plan_bump plans f) (e_vars e).
Proof.
  intros Hid Hshape. induction pairs as [|[v1 v2] r IH]; intros acc st f plans terms Hin Hag Hp Ht.
  - cbn [mapM] in Hp. injection Hp as <-. cbn [mapM] in Ht. injection Ht as <-. exists st. rewrite app_nil_r. repeat split. exact Hag.
  - cbn [mapM fst snd] in Hp. destruct (plan_of v1 v2) as [p|] eqn:Ep; cbn [bind] in Hp; [|discriminate].
    destruct (mapM _ r) as [ps|] eqn:Er; cbn [bind] in Hp; [|discriminate]. injection Hp as <-.
    cbn [mapM] in Ht. destruct (plan_term _ p) as [t|] eqn:Etm; cbn [bind] in Ht; [|discriminate].
    destruct (mapM _ ps) as [ts|] eqn:Ets; cbn [bind] in Ht; [|discriminate]. injection Ht as <-.
    cbn [pair_thread fst snd]. unfold pair_result. rewrite Ep. cbn [bind]. rewrite Etm. cbn [bind fst snd].
    destruct (Hin v1 v2 (or_introl eq_refl)) as [H1 H2].
    set (st1 := set_counts st (dict_plan_bump (v_op v1) (v_op v2) p (st_counts st))).
    assert (Hag1 : counts_agree (st_counts st1) (plan_bump f p) (e_vars e)).
    { destruct (Hshape v1 v2 p Ep) as [->|[prs [-> Hprs]]]; [exact Hag|].
      unfold st1, set_counts. cbn [st_counts]. now apply dict_plan_bump_agree. }
    destruct (IH (acc ++ [t])%list st1 (plan_bump f p) ps ts) as [st' [Hth [Hmo [Hv [Hn [Hpr Hc]]]]]];
      [intros a b Hab; apply Hin; now right | exact Hag1 | reflexivity | exact Ets |].
    exists st'. rewrite Hth, <- app_assoc. cbn [app fold_left]. repeat split; assumption.
Qed.

(* THE WHOLE METHOD, success case: the five translated pieces of _prepare_hamiltonian, run in the method's order from the state
   _prepare_encoding leaves, store exactly the model's Hamiltonian whenever the model's Hamiltonian exists. *)
Theorem link_Enc_prepare_hamiltonian_composed : forall I L e P H hs,
  prepare_encoding I L = Ok e -> NoDup (map v_op (e_vars e)) -> ids_match (e_vars e) ->
  counts_agree (st_counts (state_of_enc e)) ct_zero (e_vars e) ->
  hamiltonian_of false P L e = Ok H ->
  (do r1 <- gen_Enc_ham_precedence_terms I L (state_of_enc e);
   do r2 <- gen_Enc_ham_overlap_terms I L [] (snd r1);
   do r3 <- gen_Enc_ham_viability_terms I L [] (snd r2);
   do r4 <- gen_Enc_ham_pads_and_opt I L (fst r1) (fst r2) (snd r3);
   do u <- gen_Enc_ham_weighted_sum (p_enc P) (p_overlap P) (p_prec P) (p_opt P) (p_share P)
             (fst (fst (fst (fst r4)))) (snd (fst (fst (fst r4)))) (fst r3) (snd (fst (fst r4))) (snd (fst r4)) hs;
   Ok (hs_ham (snd u), hs_prepared (snd u)))
  = Ok (Some H, true).
Proof.
  intros I L e P H hs He Hnd Hid Hag0 HH.
  rewrite hamiltonian_of_tail in HH. cbv zeta in HH.
  destruct (prec_plans e) as [pplans|] eqn:Epp; cbn [bind] in HH; [|discriminate].
  destruct (mapM (plan_term (e_nq e)) pplans) as [pterms|] eqn:Ept; cbn [bind] in HH; [|discriminate].
  destruct (overlap_plans e) as [oplans|] eqn:Eop; cbn [bind] in HH; [|discriminate].
  destruct (mapM (plan_term (e_nq e)) oplans) as [oterms|] eqn:Eot; cbn [bind] in HH; [|discriminate].
  destruct (mapM (weighted_viability (count_table (pplans ++ oplans)) (e_nq e)) (e_vars e)) as [vterms|] eqn:Evt; cbn [bind] in HH; [|discriminate].
  set (st0 := state_of_enc e).
  assert (Hr0 : reached_from_prepared e st0) by apply reached_prepared.
  assert (Hq0 : Z.to_nat (st_nq st0) = e_nq e) by (unfold st0; rewrite (st_nq_state_of_enc _ _ _ He); apply Nat2Z.id).
  (* 1. precedence terms *)
  rewrite (link_Enc_ham_precedence_terms I L e st0 He Hnd Hr0).
  unfold prec_plans in Epp.
  destruct (pair_thread_model e prec_plan Hid prec_plan_shape (concat (map consecutive (e_jobs e))) [] st0 ct_zero pplans pterms)
    as [st1 [Ht1 [Hmo1 [Hv1 [Hn1 [Hp1 Hag1]]]]]];
    [ intros a b Hab; apply in_concat in Hab as [prs [Hprs Hab]]; apply in_map_iff in Hprs as [vs [<- Hvs]];
      destruct (consecutive_In vs a b Hab); split; apply in_concat; exists vs; split; assumption
    | exact Hag0 | exact Epp | rewrite Hq0; exact Ept |].
  rewrite Ht1. cbn [bind fst snd app].
  assert (Hr1 : reached_from_prepared e st1) by (eapply pair_thread_reached; [exact Hr0|exact Ht1]).
  (* 2. overlap terms *)
  rewrite (link_Enc_ham_overlap_terms I L e st1 [] Hnd Hr1 Hmo1).
  unfold overlap_plans in Eop.
  destruct (pair_thread_model e overlap_plan Hid overlap_plan_shape
              (concat (map (fun ml => if (List.length (snd ml) <? 2)%nat then [] else combs2 (snd ml)) (machine_ops (e_vars e))))
              [] st1 (fold_left plan_bump pplans ct_zero) oplans oterms)
    as [st2 [Ht2 [Hmo2 [Hv2 [Hn2 [Hp2 Hag2]]]]]];
    [ intros a b Hab; apply in_concat in Hab as [prs [Hprs Hab]]; apply in_map_iff in Hprs as [[m l] [<- Hml]]; cbn [snd] in Hab;
      destruct (List.length l <? 2)%nat; [contradiction|]; destruct (combs2_In l a b Hab) as [Ha Hb];
      split; [exact (proj1 (machine_ops_members (e_vars e) m l Hml a Ha)) | exact (proj1 (machine_ops_members (e_vars e) m l Hml b Hb))]
    | exact Hag1 | exact Eop | rewrite Hn1, Hq0; exact Eot |].
  rewrite Ht2. cbn [bind fst snd app].
  assert (Hr2 : reached_from_prepared e st2) by (eapply pair_thread_reached; [exact Hr1|exact Ht2]).
  (* 3. weighted viability terms *)
  assert (Hf : fold_left plan_bump oplans (fold_left plan_bump pplans ct_zero) = count_table (pplans ++ oplans))
    by (unfold count_table; now rewrite fold_left_app).
  rewrite Hf in Hag2.
  rewrite (link_Enc_ham_viability_terms_after_prepare I L e st2 _ [] He Hnd Hr2 Hag2), Evt. cbn [bind fst snd app].
  (* 4. + 5. paddings, optimisation terms, weighted sum *)
  rewrite (link_Enc_ham_pads_and_opt I L e st2 pterms oterms He Hnd Hr2).
  unfold ham_tail in HH. cbv zeta in HH.
  destruct (pad_empty false (e_nq e) pterms) as [p'|] eqn:E1; cbn [bind] in HH |- *; [|discriminate].
  destruct (pad_empty false (e_nq e) oterms) as [o'|] eqn:E2; cbn [bind] in HH |- *; [|discriminate].
  destruct (makespan_term e L) as [mk|] eqn:E3; cbn [bind] in HH |- *; [|discriminate].
  destruct (early_start_term e) as [es|] eqn:E4; cbn [bind fst snd] in HH |- *; [|discriminate].
  rewrite link_Enc_ham_weighted_sum.
  destruct (sum_ops p') as [sp|]; cbn [bind] in HH |- *; [|discriminate].
  destruct (sum_ops o') as [so|]; cbn [bind] in HH |- *; [|discriminate].
  destruct (sum_ops vterms) as [sv|]; cbn [bind] in HH |- *; [|discriminate].
  injection HH as <-. reflexivity.
Qed.
Print Assumptions link_Enc_prepare_hamiltonian_composed.

(* ---- the two hypotheses about the prepared state, discharged *)
Lemma NoDup_map_inj {A B} (g : A -> B) : forall l a b, NoDup (map g l) -> In a l -> In b l -> g a = g b -> a = b.
Proof.
  induction l as [|x r IH]; intros a b Hnd Ha Hb E; [contradiction|]. cbn [map] in Hnd. inversion Hnd as [|? ? Hnot Hnd']; subst.
  destruct Ha as [->|Ha], Hb as [->|Hb]; [reflexivity| | |now apply IH].
  - exfalso. apply Hnot. rewrite E. now apply in_map.
  - exfalso. apply Hnot. rewrite <- E. now apply in_map.
Qed.

Lemma ids_match_prepared I L e : prepare_encoding I L = Ok e -> NoDup (map v_op (e_vars e)) -> ids_match (e_vars e).
Proof.
  intros He Hnd. pose proof (prepare_encoding_Ok_limit _ _ _ He) as Hlim.
  rewrite (prepare_encoding_explicit _ _ Hlim) in He. injection He as <-. cbn [e_vars e_jobs] in *.
  set (vs := concat (vars_of_jobs L 0 0 (inst_jobs I))) in *.
  assert (Hids : NoDup (map v_id vs)).
  { unfold vs. rewrite (layout_ids _ _ _ (vars_of_jobs_layout L (inst_jobs I) 0 0)). apply seq_NoDup. }
  intros v v' Hv Hv'.
  destruct (op_eqb (v_op v) (v_op v')) eqn:Eo; destruct (Nat.eqb_spec (v_id v) (v_id v')) as [Ei|Ei]; try reflexivity.
  - apply op_eqb_eq in Eo. exfalso. apply Ei. now rewrite (NoDup_map_inj v_op vs v v' Hnd Hv Hv' Eo).
  - rewrite (NoDup_map_inj v_id vs v v' Hids Hv Hv' Ei) in Eo. rewrite (proj2 (op_eqb_eq _ _) eq_refl) in Eo. discriminate.
Qed.

(* every count is 0 after _prepare_encoding *)
Definition all_zero (c : counts) : Prop := forall k x, py_dict_get ckey_eqb c k = Ok x -> x = 0.

Lemma all_zero_set c k : all_zero c -> all_zero (py_dict_set ckey_eqb c k 0).
Proof.
  intros Hz k' x. rewrite (dict_get_set ckey_eqb ckey_eqb_eq). destruct (ckey_eqb k k'); [now intros [= <-]|apply Hz].
Qed.

Lemma all_zero_counts_init o vals : forall c, all_zero c -> all_zero (counts_init c o vals).
Proof. unfold counts_init. induction vals as [|t r IH]; intros c Hz; [exact Hz|]. cbn [fold_left]. apply IH, all_zero_set, Hz. Qed.

Lemma all_zero_add_vars vs : forall st, all_zero (st_counts st) -> all_zero (st_counts (fold_left add_var vs st)).
Proof.
  induction vs as [|v r IH]; intros st Hz; [exact Hz|]. cbn [fold_left]. apply IH. cbn [add_var st_counts]. now apply all_zero_counts_init.
Qed.

Lemma counts_agree_prepared e : NoDup (map v_op (e_vars e)) -> counts_agree (st_counts (state_of_enc e)) ct_zero (e_vars e).
Proof.
  intros Hnd v t Hv Ht.
  destruct (prepared_state_ok e v Hnd Hv) as [_ Hc]. specialize (Hc t Ht).
  destruct (py_dict_get ckey_eqb (st_counts (state_of_enc e)) (v_op v, t)) as [x|err] eqn:Eg; [|discriminate].
  assert (Hz : all_zero (st_counts (state_of_enc e))).
  { unfold state_of_enc, set_prepared. cbn [st_counts]. apply all_zero_add_vars. intros k y. cbn. discriminate. }
  rewrite (Hz _ _ Eg). reflexivity.
Qed.

Theorem link_Enc_prepare_hamiltonian : forall I L e P H hs,
  prepare_encoding I L = Ok e -> NoDup (map v_op (e_vars e)) -> hamiltonian_of false P L e = Ok H ->
  (do r1 <- gen_Enc_ham_precedence_terms I L (state_of_enc e);
   do r2 <- gen_Enc_ham_overlap_terms I L [] (snd r1);
   do r3 <- gen_Enc_ham_viability_terms I L [] (snd r2);
   do r4 <- gen_Enc_ham_pads_and_opt I L (fst r1) (fst r2) (snd r3);
   do u <- gen_Enc_ham_weighted_sum (p_enc P) (p_overlap P) (p_prec P) (p_opt P) (p_share P)
             (fst (fst (fst (fst r4)))) (snd (fst (fst (fst r4)))) (fst r3) (snd (fst (fst r4))) (snd (fst r4)) hs;
   Ok (hs_ham (snd u), hs_prepared (snd u)))
  = Ok (Some H, true).
Proof.
  intros I L e P H hs He Hnd HH.
  apply (link_Enc_prepare_hamiltonian_composed I L e P H hs He Hnd (ids_match_prepared I L e He Hnd) (counts_agree_prepared e Hnd) HH).
Qed.
Print Assumptions link_Enc_prepare_hamiltonian.

(* the hypotheses of link_Enc_prepare_hamiltonian are satisfiable: the corpus instance retry-after-short-limit (j1 = [(m1,1)],
   j2 = [(m1,3),(m2,1)]) at limit 5 with the default penalties — prepared, pairwise different operations, the model's Hamiltonian exists *)
Definition ex_inst : instance :=
  mkInst "inst" ["m1"; "m2"]%string
    [mkJob "j1" [mkOp "a" "j1" "m1" 1]; mkJob "j2" [mkOp "b" "j2" "m1" 3; mkOp "c" "j2" "m2" 1]]%string.
Definition ex_pen : penalties := mkPen 300 100 100 100 0.

Example link_Enc_prepare_hamiltonian_nonvacuous :
  exists e H, prepare_encoding ex_inst 5 = Ok e /\ NoDup (map v_op (e_vars e)) /\ hamiltonian_of false ex_pen 5 e = Ok H
              /\ (6 = e_nq e)%nat.
Proof.
  destruct (prepare_encoding ex_inst 5) as [e|] eqn:Ee; [|vm_compute in Ee; discriminate].
  destruct (hamiltonian_of false ex_pen 5 e) as [H|] eqn:EH.
  - exists e, H. split; [reflexivity|]. vm_compute in Ee. injection Ee as <-. split; [|split; [exact EH|reflexivity]].
    cbn. repeat constructor; cbn; intuition discriminate.
  - exfalso. vm_compute in Ee. injection Ee as <-. vm_compute in EH. discriminate.
Qed.
Print Assumptions link_Enc_prepare_hamiltonian_nonvacuous.
