(* C15 (and the variable-level theorems of C01) — link between the Gallina GENERATED from /repo's current
   queasars/utility/domain_wall_variables.py (build/gen*/QVGen/C15Gen.v, written by translator/py2gallina.py on every
   check) and the hand-written model coq/theories/Jssp/DomainWall.v the C15 / C01 theorems are about.
   One lemma link_<function> per translated function, each followed by Print Assumptions.  Compiled by
   harness/vlib/translate.py; NOT part of coq/theories because it depends on the generated module.

   Shapes: the circuit size is a Python int (Z) in the generated code and a nat in the model: the links read it through
   Z.to_nat (a size < 1 raises ValueError on both sides).  Bit lists are lists of the ints 0/1 in the implementation
   and lists of booleans in the model: the link of value_from_bitlist goes through `map b2z`. *)
From QV Require Import Translate.PyPrelude Translate.PyPrelude_proofs Translate.C15Aux.
From QV Require Import Jssp.DomainWall.
From QVGen Require Import C15Gen.
Open Scope Z_scope.

(* ------------------------------------------------------------------ properties *)
Lemma link_DWV_values : forall v, gen_DWV_values v = v_values v.
Proof. reflexivity. Qed.
Print Assumptions link_DWV_values.

Lemma link_DWV_n_qubits : forall v, gen_DWV_n_qubits v = Z.of_nat (var_nq v).
Proof. reflexivity. Qed.
Print Assumptions link_DWV_n_qubits.

(* ------------------------------------------------------------------ _z_dash_term *)
Lemma link_DWV_z_dash_term : forall v i nq, gen_DWV_z_dash_term v i nq = z_dash v i (Z.to_nat nq).
Proof.
  intros v i nq. unfold gen_DWV_z_dash_term, z_dash, gen_DWV_n_qubits.
  destruct (Z.ltb_spec i (-1)) as [H1|H1]; cbn [orb]; [reflexivity|].
  destruct (Z.ltb_spec (Z.of_nat (var_nq v)) i) as [H2|H2]; [reflexivity|].
  destruct (Z.eqb_spec i (-1)) as [H3|H3]; [reflexivity|].
  destruct (Z.eqb_spec i (Z.of_nat (var_nq v))) as [H4|H4].
  - destruct (pauli_identity_string (Z.to_nat nq)); reflexivity.
  - unfold pauli_z_string_Z.
    replace (Z.of_nat (v_start v) + i <? 0) with false by (symmetry; apply Z.ltb_ge; lia).
    replace (Z.to_nat (Z.of_nat (v_start v) + i)) with (v_start v + Z.to_nat i)%nat by lia.
    destruct (pauli_z_string _ _); reflexivity.
Qed.
Print Assumptions link_DWV_z_dash_term.

(* ------------------------------------------------------------------ viability_term *)
Lemma link_DWV_viability_term : forall v nq, gen_DWV_viability_term v nq = viability_term v (Z.to_nat nq).
Proof.
  intros v nq. unfold gen_DWV_viability_term, viability_term.
  replace (Z.of_nat (var_nq v) =? 0) with (var_nq v =? 0)%nat
    by (destruct (Nat.eqb_spec (var_nq v) 0); symmetry; [apply Z.eqb_eq | apply Z.eqb_neq]; lia).
  destruct (var_nq v =? 0)%nat; [reflexivity|].
  rewrite py_range_zrange. replace (Z.of_nat (var_nq v) - -1) with (Z.of_nat (var_nq v) + 1) by lia.
  rewrite (py_foldM_ext_in _ (fun acc x => do y <- viability_local v (Z.to_nat nq) x; Ok (acc ++ [y])%list)).
  - rewrite py_foldM_append_mapM.
    destruct (mapM _ _) as [ls|e]; cbn [bind app]; [|reflexivity].
    destruct (pauli_identity_string (Z.to_nat nq)); cbn [bind]; [|reflexivity].
    destruct (sum_ops _); reflexivity.
  - intros acc x _. unfold viability_local. cbn [qdiv Qeq_bool bind].
    change (qdiv (inject_Z 1) (inject_Z 2)) with (Ok (1 # 2)%Q). cbn [bind].
    destruct (pauli_identity_string (Z.to_nat nq)); cbn [bind]; [|reflexivity].
    rewrite !link_DWV_z_dash_term.
    destruct (z_dash v x _); cbn [bind]; [|reflexivity].
    destruct (z_dash v (x + 1) _); reflexivity.
Qed.
Print Assumptions link_DWV_viability_term.

(* ------------------------------------------------------------------ value_term
   `value not in self._value_indices` / `self._value_indices[value]` are index_of on the values. *)
Lemma link_DWV_value_term : forall v t nq, gen_DWV_value_term v t nq = value_term v t (Z.to_nat nq).
Proof.
  intros v t nq. unfold gen_DWV_value_term, value_term, dw_value_indices, py_enumerate_swap.
  change (combine (v_values v) (map Z.of_nat (seq 0 (List.length (v_values v))))) with (index_dict_from 0 (v_values v)).
  rewrite index_dict_mem, index_dict_get.
  destruct (index_of t (v_values v)) as [i|]; cbn [negb]; [|reflexivity].
  replace (Z.of_nat (var_nq v) =? 0) with (var_nq v =? 0)%nat
    by (destruct (Nat.eqb_spec (var_nq v) 0); symmetry; [apply Z.eqb_eq | apply Z.eqb_neq]; lia).
  destruct (var_nq v =? 0)%nat.
  - destruct (pauli_identity_string (Z.to_nat nq)); reflexivity.
  - cbn [bind Nat.add]. change (qdiv (inject_Z 1) (inject_Z 2)) with (Ok (1 # 2)%Q). cbn [bind].
    rewrite !link_DWV_z_dash_term.
    destruct (z_dash v (Z.of_nat i) _); cbn [bind]; [|reflexivity].
    destruct (z_dash v (Z.of_nat i - 1) _); reflexivity.
Qed.
Print Assumptions link_DWV_value_term.

(* ------------------------------------------------------------------ value_from_bitlist
   for every bit list that consists of 0 / 1 (the image of a list of booleans); the ValueError for another entry is
   outside the model (C15 meta: "bitstrings consist of the characters 0 and 1"). *)
Lemma link_DWV_value_from_bitlist : forall v (bl : list bool),
  gen_DWV_value_from_bitlist v (map b2z bl) = value_from_bits v bl.
Proof.
  intros v bl. unfold gen_DWV_value_from_bitlist, value_from_bits, gen_DWV_n_qubits, gen_DWV_values.
  rewrite py_slice_nat, skipn_map, firstn_map. fold (var_bits v bl). set (sl := var_bits v bl).
  unfold py_enumerate. rewrite map_length.
  rewrite (scan_first_false sl 0 (Z.of_nat (var_nq v))). cbn [bind Nat.add].
  set (d := match first_false sl with Some i => i | None => var_nq v end).
  replace (match first_false sl with Some i => Z.of_nat i | None => Z.of_nat (var_nq v) end) with (Z.of_nat d)
    by (unfold d; destruct (first_false sl); reflexivity).
  rewrite py_slice_from_nat, skipn_map, sum_bits_zero, negb_involutive.
  destruct (existsb _ _); [reflexivity|].
  rewrite py_index_nat. destruct (nth_error (v_values v) d); reflexivity.
Qed.
Print Assumptions link_DWV_value_from_bitlist.
