(* C13 — link between the Gallina GENERATED from /repo's current
   queasars/minimum_eigensolvers/base/termination_criteria.py and queasars/utility/spsa_termination.py
   (build/gen*/QVGen/C13Gen.v, written by translator/py2gallina.py on every check) and the hand-written models
   coq/theories/Crit/{Criteria,Spsa}.v the C13 theorems are about (variant [repaired] = /repo HEAD).
   One lemma link_<function> per translated function, each followed by Print Assumptions.  Compiled by
   harness/vlib/translate.py; NOT part of coq/theories because it depends on the generated module.

   Shapes.  The model's step functions return [(state, result bool)]; the generated methods return
   [result (bool * state)].  [adapt] converts the former into the latter: the state reached when Python raises is
   dropped, i.e. THE STATE ON ERROR IS NOT LINKED (only the exception class is).
   The window size _allowed_consecutive_violations is a Python int (Z) in the generated code and a nat in the model:
   the lemmas about check_termination / termination_check carry the premise [0 <= v], the invariant the
   constructors establish (link_*_init: a negative v raises ValueError; SPSA's constructor does not check it — there
   the premise is the documented precondition "Must be at least 0"). *)
From QV Require Import Translate.PyPrelude Translate.PyPrelude_proofs.
From QV Require Import Crit.Criteria Crit.Spsa.
From QVGen Require Import C13Gen.
Open Scope Z_scope.

Definition adapt {S} (r : S * result bool) : result (bool * S) :=
  match snd r with Ok b => Ok (b, fst r) | Err e => Err e end.

(* the common tail of the four windowed criteria and of the SPSA checker:
       if len(history) < v + 1: return False
       return max(history[-v - 1:]) < threshold                                     *)
Lemma len_lt_window {A} (h : list A) v : 0 <= v -> (py_len h <? v + 1) = (List.length h <? Z.to_nat v + 1)%nat.
Proof.
  intros Hv. unfold py_len.
  destruct (Z.ltb_spec (Z.of_nat (List.length h)) (v + 1)); destruct (Nat.ltb_spec (List.length h) (Z.to_nat v + 1)); try reflexivity; lia.
Qed.

Lemma slice_window {A} (h : list A) v : 0 <= v -> py_slice h (Some (- v - 1)) None = lastn (Z.to_nat v + 1) h.
Proof.
  intros Hv. replace (- v - 1) with (- Z.of_nat (Z.to_nat v + 1)) by lia.
  rewrite py_slice_last_n by lia. reflexivity.
Qed.

Lemma window_link {S} (s : S) thr v h : 0 <= v ->
  (if py_len h <? v + 1 then Ok (false, s)
   else do m <- ext_max_seq (py_slice h (Some (- v - 1)) None); Ok (ext_ltb m (Fin thr), s))
  = adapt (s, window_answer (Z.to_nat v) thr h).
Proof.
  intros Hv. unfold window_answer, adapt. rewrite len_lt_window, slice_window by exact Hv.
  destruct (List.length h <? Z.to_nat v + 1)%nat; [reflexivity|].
  destruct (lastn (Z.to_nat v + 1) h) as [|x r]; reflexivity.
Qed.

(* ------------------------------------------------------------------ BestIndividualExpectationValueThreshold *)
Lemma link_Threshold_init : forall thr v, (if ctor_ok KThreshold thr v then Ok (gen_Threshold_init thr) else Err "ValueError"%string) = Ok tt.
Proof. reflexivity. Qed.
Print Assumptions link_Threshold_init.

Lemma link_Threshold_reset : gen_Threshold_reset = tt.
Proof. reflexivity. Qed.
Print Assumptions link_Threshold_reset.

Lemma link_Threshold_check : forall thr ev, th_step thr tt ev = (tt, Ok (gen_Threshold_check thr ev)).
Proof. intros thr ev. unfold th_step, gen_Threshold_check. destruct (Qltb (best ev) thr); reflexivity. Qed.
Print Assumptions link_Threshold_check.

(* ------------------------------------------------------------------ BestIndividualChangeTolerance *)
Lemma link_Best_init : forall thr v, gen_Best_init thr v = if ctor_ok KBest thr v then Ok best_init else Err "ValueError"%string.
Proof.
  intros thr v. unfold gen_Best_init, ctor_ok. change (inject_Z 0) with 0%Q.
  destruct (Qle_bool thr 0); [reflexivity|]. destruct (v <? 0); reflexivity.
Qed.
Print Assumptions link_Best_init.

Lemma link_Best_reset : forall s, gen_Best_reset s = (tt, best_reset s).
Proof. reflexivity. Qed.
Print Assumptions link_Best_reset.

Lemma link_Best_check : forall thr v ev s, 0 <= v ->
  gen_Best_check thr v ev s = adapt (bc_step thr (Z.to_nat v) s ev).
Proof.
  intros thr v ev [prev hist] Hv. unfold gen_Best_check, bc_step. cbn [b_prev b_hist].
  destruct prev as [p|]; [|reflexivity].
  apply (window_link _ thr v _ Hv).
Qed.
Print Assumptions link_Best_check.

(* ------------------------------------------------------------------ BestIndividualRelativeChangeTolerance *)
Lemma link_BestRel_init : forall thr v, gen_BestRel_init thr v = if ctor_ok KBestRel thr v then Ok best_init else Err "ValueError"%string.
Proof.
  intros thr v. unfold gen_BestRel_init, ctor_ok. change (inject_Z 0) with 0%Q. change (inject_Z 1) with 1%Q.
  destruct (Qle_bool thr 0 || Qltb 1 thr); [reflexivity|]. destruct (v <? 0); reflexivity.
Qed.
Print Assumptions link_BestRel_init.

Lemma link_BestRel_reset : forall s, gen_BestRel_reset s = (tt, best_reset s).
Proof. reflexivity. Qed.
Print Assumptions link_BestRel_reset.

Lemma link_BestRel_check : forall thr v ev s, 0 <= v ->
  gen_BestRel_check thr v ev s = adapt (br_step repaired thr (Z.to_nat v) s ev).
Proof.
  intros thr v ev [prev hist] Hv. unfold gen_BestRel_check, br_step, rel_change, qdiv. cbn [b_prev b_hist repaired zero_guard abs_denominator andb].
  destruct prev as [p|]; [|reflexivity]. change (inject_Z 0) with 0%Q.
  destruct (Qeq_bool p 0); cbn [negb bind].
  - apply (window_link _ thr v _ Hv).
  - destruct (Qeq_bool (Qabs p) 0); [reflexivity|]. cbn [bind]. apply (window_link _ thr v _ Hv).
Qed.
Print Assumptions link_BestRel_check.

(* ------------------------------------------------------------------ median Hausdorff distance *)
(* for x in xs: acc.append(f(x))   is   acc + [f(x) for x in xs] *)
Lemma foldM_append_mapM {A B} (f : A -> result B) l : forall acc,
  py_foldM (fun acc x => do m <- f x; Ok (acc ++ [m])%list) l acc = do ds <- mapM f l; Ok (acc ++ ds)%list.
Proof.
  induction l as [|x t IH]; intros acc; cbn [py_foldM mapM bind]; [now rewrite app_nil_r|].
  destruct (f x) as [y|e]; cbn [bind]; [|reflexivity].
  rewrite IH. destruct (mapM f t) as [ys|e]; cbn [bind]; [|reflexivity]. now rewrite <- app_assoc.
Qed.

(* numpy.median is not translated: both sides call the model's [median] *)
Lemma link_directed_distance : forall from to, gen_directed_distance from to = directed from to.
Proof.
  intros from to. unfold gen_directed_distance, directed.
  rewrite (foldM_append_mapM (fun f => py_min_Q (map (fun t => Qabs (f - t)) to)) from []).
  change (fun f => py_min_Q (map (fun t => Qabs (f - t)) to)) with (fun f => min_abs_dist f to).
  destruct (mapM (fun f => min_abs_dist f to) from) as [ds|e]; cbn [bind app]; [|reflexivity].
  destruct (median ds); reflexivity.
Qed.
Print Assumptions link_directed_distance.

(* Premise: not (no value in result_1 but some in result_2).  In that single case Python computes
   median([]) = nan (a warning, no exception) and then raises ValueError from min() of nothing in the second directed
   distance; NaN is not modelled: the spec maps median([]) to Err "nan", the model answers Err "ValueError".  The
   property assumes every evaluation carries a value (meta: assumptions). *)
Lemma link_hausdorff : forall r1 r2, (somes (values r1) = [] -> somes (values r2) = []) ->
  gen_hausdorff r1 r2 = hausdorff r1 r2.
Proof.
  intros r1 r2 H. unfold gen_hausdorff, hausdorff. rewrite !link_directed_distance.
  change (flat_map (fun o => match o with Some x => [x] | None => [] end)) with somes.
  destruct (somes (values r1)) as [|a e1] eqn:E1.
  - rewrite (H eq_refl). reflexivity.
  - destruct (somes (values r2)) as [|b e2] eqn:E2; [reflexivity|].
    destruct (directed (a :: e1) (b :: e2)); cbn [bind]; [|reflexivity].
    destruct (directed (b :: e2) (a :: e1)); reflexivity.
Qed.
Print Assumptions link_hausdorff.

(* ------------------------------------------------------------------ PopulationChangeTolerance *)
(* [float("inf") for _ in range(0, v + 1)] *)
Lemma map_const_range {A} (x : A) n : 0 <= n -> map (fun _ => x) (py_range 0 n) = repeat x (Z.to_nat n).
Proof.
  intros _. unfold py_range. rewrite Z.sub_0_r, map_map. generalize 0%nat.
  induction (Z.to_nat n) as [|k IH]; intros st; [reflexivity|]. cbn [seq map repeat]. now rewrite IH.
Qed.

Lemma inf_window v : 0 <= v -> map (fun _ => Inf) (py_range 0 (v + 1)) = repeat Inf (Z.to_nat v + 1).
Proof. intros Hv. rewrite map_const_range by lia. f_equal. lia. Qed.

Lemma pop_ctor (thr : Q) v :
  (if v <? 0 then Err "ValueError"%string
   else Ok (Build_pop_state (map (fun _ => Inf) (py_range 0 (v + 1))) None))
  = if ctor_ok KPop thr v then Ok (pop_init repaired thr (Z.to_nat v)) else Err "ValueError"%string.
Proof.
  unfold ctor_ok, pop_init, sentinel. cbn [inf_sentinel repaired].
  destruct (Z.ltb_spec v 0); cbn [negb]; [reflexivity|]. now rewrite inf_window.
Qed.

Lemma link_Pop_init : forall thr v, gen_Pop_init thr v = if ctor_ok KPop thr v then Ok (pop_init repaired thr (Z.to_nat v)) else Err "ValueError"%string.
Proof. intros thr v. apply pop_ctor. Qed.
Print Assumptions link_Pop_init.

Lemma link_Pop_reset : forall thr v s, 0 <= v -> gen_Pop_reset v s = (tt, pop_reset repaired thr (Z.to_nat v) s).
Proof. intros thr v s Hv. unfold gen_Pop_reset, pop_reset, pop_init, sentinel. cbn [p_hist p_last inf_sentinel repaired]. now rewrite inf_window. Qed.
Print Assumptions link_Pop_reset.

(* the tail of the population criteria:  if len(h) < v + 1: return False / if max(h[-(v + 1):]) < thr: return True / return False *)
Lemma window_link_if {S} (s : S) thr v h : 0 <= v ->
  (if py_len h <? v + 1 then Ok (false, s)
   else do m <- ext_max_seq (py_slice h (Some (- (v + 1))) None); if ext_ltb m (Fin thr) then Ok (true, s) else Ok (false, s))
  = adapt (s, window_answer (Z.to_nat v) thr h).
Proof.
  intros Hv. rewrite <- (window_link s thr v h Hv). replace (- (v + 1)) with (- v - 1) by lia.
  destruct (py_len h <? v + 1); [reflexivity|].
  destruct (ext_max_seq _) as [m|e]; cbn [bind]; [|reflexivity]. destruct (ext_ltb m (Fin thr)); reflexivity.
Qed.

(* Premise [0 <= v]: constructor invariant.  Premise on the stored evaluation: see link_hausdorff (it holds when
   every evaluation passed to check_termination carries at least one expectation value). *)
Lemma link_Pop_check : forall thr v ev s, 0 <= v ->
  (forall last, p_last s = Some last -> somes (values last) = [] -> somes (values ev) = []) ->
  gen_Pop_check thr v ev s = adapt (pc_step thr (Z.to_nat v) s ev).
Proof.
  intros thr v ev [hist last] Hv Hne. unfold gen_Pop_check, pc_step, pop_distance. cbn [p_hist p_last] in *.
  destruct last as [last|]; cbn [bind].
  - rewrite (link_hausdorff last ev (Hne last eq_refl)).
    destruct (hausdorff last ev) as [hd|e]; cbn [bind]; [|reflexivity].
    apply (window_link_if _ thr v _ Hv).
  - apply (window_link_if _ thr v _ Hv).
Qed.
Print Assumptions link_Pop_check.

(* ------------------------------------------------------------------ PopulationChangeRelativeTolerance *)
Lemma link_PopRel_init : forall thr v, gen_PopRel_init thr v = if ctor_ok KPopRel thr v then Ok (pop_init repaired thr (Z.to_nat v)) else Err "ValueError"%string.
Proof. intros thr v. apply pop_ctor. Qed.
Print Assumptions link_PopRel_init.

Lemma link_PopRel_reset : forall thr v s, 0 <= v -> gen_PopRel_reset v s = (tt, pop_reset repaired thr (Z.to_nat v) s).
Proof. intros thr v s Hv. unfold gen_PopRel_reset, pop_reset, pop_init, sentinel. cbn [p_hist p_last inf_sentinel repaired]. now rewrite inf_window. Qed.
Print Assumptions link_PopRel_reset.

Lemma link_PopRel_check : forall thr v ev s, 0 <= v ->
  (forall last, p_last s = Some last -> somes (values last) = [] -> somes (values ev) = []) ->
  gen_PopRel_check thr v ev s = adapt (pr_step repaired thr (Z.to_nat v) s ev).
Proof.
  intros thr v ev [hist last] Hv Hne. unfold gen_PopRel_check, pr_step, pop_distance, rel_change_np, rel_change, qdiv.
  cbn [p_hist p_last repaired zero_guard abs_denominator andb] in *.
  destruct last as [last|]; cbn [bind].
  - rewrite (link_hausdorff last ev (Hne last eq_refl)).
    destruct (hausdorff last ev) as [hd|e]; cbn [bind]; [|reflexivity].
    change (flat_map (fun o => match o with Some x => [x] | None => [] end)) with somes.
    destruct (median (somes (values last))) as [m|e]; cbn [bind]; [|reflexivity].
    change (inject_Z 0) with 0%Q.
    destruct (Qeq_bool m 0); cbn [negb bind].
    + apply (window_link_if _ thr v _ Hv).
    + destruct (Qeq_bool (Qabs m) 0); cbn [bind]; [reflexivity|]. apply (window_link_if _ thr v _ Hv).
  - apply (window_link_if _ thr v _ Hv).
Qed.
Print Assumptions link_PopRel_check.

(* ------------------------------------------------------------------ SPSATerminationChecker *)
Lemma len_lt_nat {A} (h : list A) (k : nat) : (py_len h <? Z.of_nat k) = (List.length h <? k)%nat.
Proof.
  unfold py_len. destruct (Z.ltb_spec (Z.of_nat (List.length h)) (Z.of_nat k)); destruct (Nat.ltb_spec (List.length h) k); try reflexivity; lia.
Qed.

(* l[-k] for 1 <= k <= len(l) *)
Lemma py_index_neg {A} (l : list A) (k : nat) : (1 <= k)%nat -> (k <= List.length l)%nat ->
  py_index l (- Z.of_nat k) = match nth_error l (List.length l - k) with Some x => Ok x | None => Err "IndexError"%string end.
Proof.
  intros H1 H2. unfold py_index, py_len.
  replace (- Z.of_nat k <? 0) with true by (symmetry; apply Z.ltb_lt; lia).
  replace (- Z.of_nat k + Z.of_nat (List.length l) <? 0) with false by (symmetry; apply Z.ltb_ge; lia).
  replace (Z.of_nat (List.length l) <=? - Z.of_nat k + Z.of_nat (List.length l)) with false by (symmetry; apply Z.leb_gt; lia).
  cbn [orb]. replace (Z.to_nat (- Z.of_nat k + Z.of_nat (List.length l))) with (List.length l - k)%nat by lia. reflexivity.
Qed.

(* the tail of termination_check: the two answers carry different states (self._done = True before `return True`) *)
Lemma window_link2 {S} (s1 s2 : S) thr v h : 0 <= v ->
  (if py_len h <? v + 1 then Ok (false, s1)
   else do m <- ext_max_seq (py_slice h (Some (- v - 1)) None); if ext_ltb m (Fin thr) then Ok (true, s2) else Ok (false, s1))
  = match window_answer (Z.to_nat v) thr h with Ok true => Ok (true, s2) | Ok false => Ok (false, s1) | Err e => Err e end.
Proof.
  intros Hv. unfold window_answer. rewrite len_lt_window, slice_window by exact Hv.
  destruct (List.length h <? Z.to_nat v + 1)%nat; [reflexivity|].
  destruct (lastn (Z.to_nat v + 1) h) as [|x r]; [reflexivity|]. cbn [ext_max_seq bind]. fold (py_max_ext x r).
  destruct (ext_ltb (py_max_ext x r) (Fin thr)); reflexivity.
Qed.

Lemma link_Spsa_init : forall thr v maxfev, gen_Spsa_init thr v maxfev = spsa_init.
Proof. reflexivity. Qed.
Print Assumptions link_Spsa_init.

Lemma link_Spsa_check : forall thr v maxfev n par f acc s, 0 <= v ->
  gen_Spsa_check thr v maxfev n par f acc s
  = adapt (spsa_step repaired thr (Z.to_nat v) maxfev s {| si_n := n; si_par := par; si_f := f; si_acc := acc |}).
Proof.
  intros thr v maxfev n par f acc [fvh chh nf nfh bf bp dn] Hv.
  (* one call-by-value step to the let-free form (a step-by-step unfolding makes the kernel compare chains of
     record projections of nested lets, which is exponential in the number of assignments) *)
  cbv beta iota zeta delta [gen_Spsa_check spsa_step boundary_hit maxfev_hit spsa_init repaired nonincreasing_boundary
                            si_n si_par si_f si_acc fv_hist ch_hist nfe nfe_hist best_f best_par done].
  destruct (dn || (n <=? nf)).
  all: destruct maxfev as [m|]; [destruct (m <=? n); [reflexivity|]|].
  all: destruct acc; [|reflexivity]; cbn [negb].
  all: match goal with |- context [ext_ltb (Fin ?x) ?b] => destruct (ext_ltb (Fin x) b) end.
  all: change 2 with (Z.of_nat 2); rewrite len_lt_nat.
  all: match goal with |- context [(List.length ?l <? 2)%nat] => destruct (Nat.ltb_spec (List.length l) 2) as [Hl|Hl]; [reflexivity|] end.
  all: change (-2) with (- Z.of_nat 2); rewrite !py_index_neg by (assumption || lia).
  all: match goal with |- context [nth_error ?l ?k] => destruct (nth_error l k) as [prev|]; [|reflexivity]; cbn [bind] end.
  all: unfold rel_change, qdiv; cbn [zero_guard abs_denominator andb]; change (inject_Z 0) with 0%Q.
  all: destruct (Qeq_bool prev 0); cbn [negb bind].
  all: try (destruct (Qeq_bool (Qabs prev) 0); cbn [bind]; [reflexivity|]).
  all: rewrite window_link2 by exact Hv.
  all: destruct (window_answer (Z.to_nat v) thr _) as [[|]|]; reflexivity.
Qed.
Print Assumptions link_Spsa_check.

(* the public accessors read the fields the model's observation [spsa_trace] reads (o_nfe, o_fv, o_nh, o_best, o_par) *)
Lemma link_Spsa_get_nfe : forall s, gen_Spsa_get_nfe s = (nfe s, s).
Proof. reflexivity. Qed.
Print Assumptions link_Spsa_get_nfe.

Lemma link_Spsa_get_fv_history : forall s, gen_Spsa_get_fv_history s = (fv_hist s, s).
Proof. reflexivity. Qed.
Print Assumptions link_Spsa_get_fv_history.

Lemma link_Spsa_get_nfe_history : forall s, gen_Spsa_get_nfe_history s = (nfe_hist s, s).
Proof. reflexivity. Qed.
Print Assumptions link_Spsa_get_nfe_history.

Lemma link_Spsa_get_best_value : forall s, gen_Spsa_get_best_value s = (best_f s, s).
Proof. reflexivity. Qed.
Print Assumptions link_Spsa_get_best_value.

(* raises ValueError while no accepted callback has been recorded *)
Lemma link_Spsa_get_best_parameters : forall s,
  gen_Spsa_get_best_parameters s = match best_par s with Some p => Ok (p, s) | None => Err "ValueError"%string end.
Proof. reflexivity. Qed.
Print Assumptions link_Spsa_get_best_parameters.
